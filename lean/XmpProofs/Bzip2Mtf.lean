import XmpModel.Bzip2
/-!
# bzip2: the MTF / RUNA-RUNB stage of `read_huffman_data` inverts the encoder's `mtfrle`

`procSyms` is the symbol loop of `read_huffman_data` with the Huffman decoding factored out (it consumes
already decoded symbols through the model's `processSym`).  Main result `procSyms_mtfrle`.
The proofs hold for both values of the generated fact `Gen.runPosBounded`.
-/
namespace Xmp.Bzip2
open Xmp

/-- the MTF / run-length stage over a list of decoded symbols -/
def procSyms (dbufSize : Nat) (stb : Array UInt8) : MState → List Nat → Except Err (MState × Bool × List Nat)
  | st, [] => .ok (st, false, [])
  | st, x :: xs =>
    match processSym dbufSize stb st x with
    | .error e => .error e
    | .ok (st1, true) => .ok (st1, true, xs)
    | .ok (st1, false) => procSyms dbufSize stb st1 xs

theorem procSyms_append_of_not_done (dbufSize : Nat) (stb : Array UInt8) (st st1 : MState) (a b : List Nat)
    (h : procSyms dbufSize stb st a = .ok (st1, false, [])) :
    procSyms dbufSize stb st (a ++ b) = procSyms dbufSize stb st1 b := by
  induction a generalizing st with
  | nil =>
    simp only [procSyms, Except.ok.injEq, Prod.mk.injEq] at h
    rw [List.nil_append, h.1]
  | cons x xs ih =>
    simp only [procSyms, List.cons_append] at h ⊢
    cases hp : processSym dbufSize stb st x with
    | error e => rw [hp] at h; cases h
    | ok r =>
      obtain ⟨st2, d⟩ := r
      rw [hp] at h
      cases d with
      | true => cases h
      | false => exact ih _ h

/-! ## run symbols -/

theorem mul_odd (w q : Nat) : w * (2 * q + 1) = w + 2 * w * q := by grind
theorem mul_even (w q : Nat) : w * (2 * q + 1 + 1) = 2 * w + 2 * w * q := by grind

/-- one RUNA/RUNB symbol while a run is open (`runPos = w ≠ 0`) -/
theorem processSym_run (dbufSize : Nat) (stb : Array UInt8) (w h : Nat) (dbuf : Array UInt8) (mtf : List Nat)
    (s : Nat) (hs : s ≤ 1) (hw : 1 ≤ w) (hwd : w ≤ dbufSize) (hd : dbufSize < 2 ^ 31) (hh : h + w * (s + 1) ≤ dbufSize) :
    processSym dbufSize stb ⟨w, h, dbuf, mtf⟩ s = .ok (⟨2 * w, h + w * (s + 1), dbuf, mtf⟩, false) := by
  unfold processSym
  simp only [hs, if_true]
  have hw0 : w ≠ 0 := by omega
  simp only [hw0, if_false]
  rw [if_neg (by intro ⟨_, h'⟩; omega)]
  have e1 : w * 2 % two32 = 2 * w := by unfold two32; omega
  have e2 : w <<< s = w * (s + 1) := by
    rcases Nat.le_one_iff_eq_zero_or_eq_one.mp hs with rfl | rfl <;> simp [Nat.shiftLeft_eq] <;> omega
  have e3 : (h + w <<< s % two32) % two32 = h + w * (s + 1) := by
    rw [e2]; unfold two32; omega
  rw [e1, e3]

/-- the first RUNA/RUNB symbol of a run (`runPos = 0`) -/
theorem processSym_run0 (dbufSize : Nat) (stb : Array UInt8) (h : Nat) (dbuf : Array UInt8) (mtf : List Nat)
    (s : Nat) (hs : s ≤ 1) (hd : dbufSize < 2 ^ 31) (hh : s + 1 ≤ dbufSize) :
    processSym dbufSize stb ⟨0, h, dbuf, mtf⟩ s = .ok (⟨2, s + 1, dbuf, mtf⟩, false) := by
  unfold processSym
  simp only [hs, if_true]
  rw [if_neg (by intro ⟨_, h'⟩; omega)]
  have e2 : 1 <<< s = s + 1 := by
    rcases Nat.le_one_iff_eq_zero_or_eq_one.mp hs with rfl | rfl <;> simp [Nat.shiftLeft_eq]
  have e3 : (0 + 1 <<< s % two32) % two32 = s + 1 := by
    rw [e2]; unfold two32; omega
  rw [e3]; rfl

theorem runSyms_le_one : ∀ (fuel n : Nat), ∀ x ∈ runSyms fuel n, x ≤ 1
  | 0, _, x, hx => by simp [runSyms] at hx
  | _ + 1, 0, x, hx => by simp [runSyms] at hx
  | fuel + 1, n + 1, x, hx => by
    unfold runSyms at hx
    split at hx
    · rcases List.mem_cons.mp hx with rfl | h
      · omega
      · exact runSyms_le_one fuel _ x h
    · rcases List.mem_cons.mp hx with rfl | h
      · omega
      · exact runSyms_le_one fuel _ x h

/-- the symbols of a run of `n` behind an open run of weight `w`: the counter gains `w * n` -/
theorem procSyms_runSyms_open (dbufSize : Nat) (stb : Array UInt8) (dbuf : Array UInt8) (mtf : List Nat)
    (hd : dbufSize < 2 ^ 31) (rest : List Nat) :
    ∀ (fuel n w h : Nat), n ≤ fuel → 1 ≤ w → h + w * n ≤ dbufSize →
      ∃ w', 1 ≤ w' ∧ procSyms dbufSize stb ⟨w, h, dbuf, mtf⟩ (runSyms fuel n ++ rest) =
        procSyms dbufSize stb ⟨w', h + w * n, dbuf, mtf⟩ rest
  | 0, n, w, h, hn, hw, hb => by
    have : n = 0 := by omega
    subst this
    exact ⟨w, hw, by simp [runSyms]⟩
  | fuel + 1, 0, w, h, hn, hw, hb => ⟨w, hw, by simp [runSyms]⟩
  | fuel + 1, m + 1, w, h, hn, hw, hb => by
    have hwn : w ≤ w * (m + 1) := Nat.le_mul_of_pos_right w (by omega)
    unfold runSyms
    split
    · rename_i hodd
      -- RUNA, remaining m / 2 with weight 2 w
      have hq : m = 2 * (m / 2) := by omega
      have hmul : w * (m + 1) = w + 2 * w * (m / 2) := by
        conv => lhs; rw [hq]
        exact mul_odd w (m / 2)
      have hstep := processSym_run dbufSize stb w h dbuf mtf 0 (by omega) hw (by omega) hd (by omega)
      obtain ⟨w', hw', ih⟩ := procSyms_runSyms_open dbufSize stb dbuf mtf hd rest fuel (m / 2) (2 * w) (h + w * (0 + 1))
        (by omega) (by omega) (by omega)
      refine ⟨w', hw', ?_⟩
      simp only [List.cons_append, procSyms, hstep]
      rw [ih]
      congr 2
      rw [hmul]; omega
    · rename_i heven
      have hq : m = 2 * ((m - 1) / 2) + 1 := by omega
      have hmul : w * (m + 1) = 2 * w + 2 * w * ((m - 1) / 2) := by
        conv => lhs; rw [hq]
        exact mul_even w ((m - 1) / 2)
      have hstep := processSym_run dbufSize stb w h dbuf mtf 1 (by omega) hw (by omega) hd (by omega)
      obtain ⟨w', hw', ih⟩ := procSyms_runSyms_open dbufSize stb dbuf mtf hd rest fuel ((m - 1) / 2) (2 * w) (h + w * (1 + 1))
        (by omega) (by omega) (by omega)
      refine ⟨w', hw', ?_⟩
      simp only [List.cons_append, procSyms, hstep]
      rw [ih]
      congr 2
      rw [hmul]; omega

/-- a complete run of `n ≥ 1` from the idle state (`runPos = 0`): afterwards the run is open with `hh = n` -/
theorem procSyms_runSyms (dbufSize : Nat) (stb : Array UInt8) (h0 : Nat) (dbuf : Array UInt8) (mtf : List Nat)
    (hd : dbufSize < 2 ^ 31) (rest : List Nat) (n : Nat) (hn1 : 1 ≤ n) (hb : n ≤ dbufSize) :
    ∃ w', 1 ≤ w' ∧ procSyms dbufSize stb ⟨0, h0, dbuf, mtf⟩ (runSyms n n ++ rest) =
      procSyms dbufSize stb ⟨w', n, dbuf, mtf⟩ rest := by
  obtain ⟨m, rfl⟩ : ∃ m, n = m + 1 := ⟨n - 1, by omega⟩
  unfold runSyms
  split
  · have hq : m = 2 * (m / 2) := by omega
    have hstep := processSym_run0 dbufSize stb h0 dbuf mtf 0 (by omega) hd (by omega)
    obtain ⟨w', hw', ih⟩ := procSyms_runSyms_open dbufSize stb dbuf mtf hd rest m (m / 2) 2 (0 + 1)
      (by omega) (by omega) (by omega)
    refine ⟨w', hw', ?_⟩
    simp only [List.cons_append, procSyms, hstep]
    rw [ih]
    congr 2
    omega
  · have hq : m = 2 * ((m - 1) / 2) + 1 := by omega
    have hstep := processSym_run0 dbufSize stb h0 dbuf mtf 1 (by omega) hd (by omega)
    obtain ⟨w', hw', ih⟩ := procSyms_runSyms_open dbufSize stb dbuf mtf hd rest m ((m - 1) / 2) 2 (1 + 1)
      (by omega) (by omega) (by omega)
    refine ⟨w', hw', ?_⟩
    simp only [List.cons_append, procSyms, hstep]
    rw [ih]
    congr 2
    omega

/-! ## literals and the terminating symbol -/

/-- the flush of an open run, as a function of the state -/
def flushed (stb : Array UInt8) (rp hh : Nat) (dbuf : Array UInt8) (mtf : List Nat) : Array UInt8 :=
  if rp ≠ 0 then dbuf ++ Array.replicate hh (stb.getD (mtf.getD 0 0) 0) else dbuf

theorem processSym_lit (dbufSize : Nat) (stb : Array UInt8) (rp hh : Nat) (dbuf : Array UInt8) (mtf : List Nat)
    (sym : Nat) (h2 : 2 ≤ sym) (hs : sym ≤ stb.size)
    (hfit : rp ≠ 0 → hh ≤ dbufSize ∧ dbuf.size + hh ≤ dbufSize)
    (hroom : (flushed stb rp hh dbuf mtf).size < dbufSize) :
    processSym dbufSize stb ⟨rp, hh, dbuf, mtf⟩ sym =
      .ok (⟨0, hh, (flushed stb rp hh dbuf mtf).push (stb.getD (mtf.getD (sym - 1) 0) 0),
            mtf.getD (sym - 1) 0 :: mtf.eraseIdx (sym - 1)⟩, false) := by
  unfold processSym
  rw [if_neg (by omega)]
  by_cases hrp : rp = 0
  · subst hrp
    simp only [ne_eq, not_true_eq_false, if_false, flushed] at hroom ⊢
    rw [if_neg (by omega), if_neg (by omega)]
  · have := hfit hrp
    simp only [ne_eq, hrp, not_false_eq_true, if_true, flushed] at hroom ⊢
    rw [if_neg (by omega)]
    simp only
    rw [if_neg (by omega), if_neg (by omega)]

theorem processSym_eob (dbufSize : Nat) (stb : Array UInt8) (rp hh : Nat) (dbuf : Array UInt8) (mtf : List Nat)
    (hs1 : 1 ≤ stb.size) (hfit : rp ≠ 0 → hh ≤ dbufSize ∧ dbuf.size + hh ≤ dbufSize) :
    processSym dbufSize stb ⟨rp, hh, dbuf, mtf⟩ (stb.size + 1) =
      .ok (⟨0, hh, flushed stb rp hh dbuf mtf, mtf⟩, true) := by
  unfold processSym
  rw [if_neg (by omega)]
  by_cases hrp : rp = 0
  · subst hrp
    simp only [ne_eq, not_true_eq_false, if_false, flushed]
    rw [if_pos (by omega)]
  · have := hfit hrp
    simp only [ne_eq, hrp, not_false_eq_true, if_true, flushed]
    rw [if_neg (by omega)]
    simp only
    rw [if_pos (by omega)]

/-! ## the move-to-front list -/

/-- the first `u` places of `mtfSymbol[]` hold exactly the values below `u` (only those are ever moved) -/
def MtfInv (u : Nat) (mtf : List Nat) : Prop :=
  ∃ front back, mtf = front ++ back ∧ front.length = u ∧ ∀ x, x < u → x ∈ front

theorem mtfInv_range (u : Nat) (hu : u ≤ 256) : MtfInv u (List.range 256) := by
  refine ⟨List.range u, List.range' u (256 - u), ?_, by simp, fun x hx => by simp [hx]⟩
  rw [List.range_eq_range', List.range_eq_range']
  have := @List.range'_append_1 0 u (256 - u)
  rw [Nat.zero_add] at this
  rw [this]; congr 1; omega

theorem mtfInv_facts {u : Nat} {mtf : List Nat} (hi : MtfInv u mtf) {x : Nat} (hx : x < u) :
    mtf.idxOf x < u ∧ mtf.getD (mtf.idxOf x) 0 = x ∧ mtf.eraseIdx (mtf.idxOf x) = mtf.erase x ∧
      MtfInv u (x :: mtf.erase x) := by
  obtain ⟨front, back, rfl, hlen, hall⟩ := hi
  have hmem : x ∈ front := hall x hx
  have hidx : (front ++ back).idxOf x = front.idxOf x := by rw [List.idxOf_append, if_pos hmem]
  have hlt : front.idxOf x < front.length := List.idxOf_lt_length_of_mem hmem
  refine ⟨by omega, ?_, (List.erase_eq_eraseIdx_of_idxOf rfl).symm, ?_⟩
  · rw [hidx, List.getD_eq_getElem?_getD, List.getElem?_append_left hlt, List.getElem?_eq_getElem hlt,
      List.getElem_idxOf hlt]; rfl
  · refine ⟨x :: front.erase x, back, ?_, ?_, ?_⟩
    · rw [List.erase_append_left _ hmem]; rfl
    · rw [List.length_cons, List.length_erase_of_mem hmem]; omega
    · intro y hy
      by_cases e : y = x
      · subst e; exact List.mem_cons_self
      · exact List.mem_cons_of_mem _ ((List.mem_erase_of_ne e).mpr (hall y hy))

/-! ## the whole symbol stream of a block -/

/-- the (possibly empty) run in front of a literal or of the terminating symbol -/
theorem procSyms_runPrefix (dbufSize : Nat) (stb : Array UInt8) (h0 : Nat) (dbuf : Array UInt8) (mtf : List Nat)
    (hd : dbufSize < 2 ^ 31) (rest : List Nat) (run : Nat) (hb : dbuf.size + run ≤ dbufSize) :
    ∃ rp hh, procSyms dbufSize stb ⟨0, h0, dbuf, mtf⟩ (runSyms run run ++ rest) =
        procSyms dbufSize stb ⟨rp, hh, dbuf, mtf⟩ rest ∧
      (flushed stb rp hh dbuf mtf).toList = dbuf.toList ++ List.replicate run (stb.getD (mtf.getD 0 0) 0) ∧
      (rp ≠ 0 → hh ≤ dbufSize ∧ dbuf.size + hh ≤ dbufSize) := by
  by_cases h : run = 0
  · subst h
    refine ⟨0, h0, by simp [runSyms], by simp [flushed], fun h => absurd rfl h⟩
  · obtain ⟨w', hw', e⟩ := procSyms_runSyms dbufSize stb h0 dbuf mtf hd rest run (by omega) (by omega)
    refine ⟨w', run, e, ?_, fun _ => ⟨by omega, hb⟩⟩
    have : w' ≠ 0 := by omega
    simp [flushed, this]

theorem procSyms_mtfGo (dbufSize : Nat) (stb : Array UInt8) (hd : dbufSize < 2 ^ 31) (hs1 : 1 ≤ stb.size) :
    ∀ (xs : List Nat) (mtf : List Nat) (run h0 : Nat) (dbuf : Array UInt8),
      (∀ x ∈ xs, x < stb.size) → MtfInv stb.size mtf → dbuf.size + run + xs.length ≤ dbufSize →
      ∃ st', procSyms dbufSize stb ⟨0, h0, dbuf, mtf⟩ (mtfGo mtf run xs ++ [stb.size + 1]) = .ok (st', true, []) ∧
        st'.dbuf.toList = dbuf.toList ++ List.replicate run (stb.getD (mtf.getD 0 0) 0) ++
          xs.map (fun x => stb.getD x 0)
  | [], mtf, run, h0, dbuf, _, _, hb => by
    obtain ⟨rp, hh, e, hfl, hfit⟩ := procSyms_runPrefix dbufSize stb h0 dbuf mtf hd [stb.size + 1] run (by simpa using hb)
    refine ⟨⟨0, hh, flushed stb rp hh dbuf mtf, mtf⟩, ?_, by simpa using hfl⟩
    simp only [mtfGo]
    rw [e]
    simp only [procSyms, processSym_eob dbufSize stb rp hh dbuf mtf hs1 hfit]
  | x :: xs, mtf, run, h0, dbuf, hx, hinv, hb => by
    have hxu : x < stb.size := hx x List.mem_cons_self
    obtain ⟨hpos, hget, herase, hinv'⟩ := mtfInv_facts hinv hxu
    simp only [List.length_cons] at hb
    unfold mtfGo
    simp only
    by_cases hp0 : mtf.idxOf x = 0
    · rw [if_pos hp0]
      obtain ⟨st', e, hd'⟩ := procSyms_mtfGo dbufSize stb hd hs1 xs mtf (run + 1) h0 dbuf
        (fun y hy => hx y (List.mem_cons_of_mem _ hy)) hinv (by omega)
      refine ⟨st', e, ?_⟩
      rw [hd', List.replicate_succ']
      have : mtf.getD 0 0 = x := by
        have h' := hget
        rw [hp0] at h'
        exact h'
      rw [this]
      simp
    · rw [if_neg hp0]
      obtain ⟨rp, hh, e, hfl, hfit⟩ := procSyms_runPrefix dbufSize stb h0 dbuf mtf hd
        (((mtf.idxOf x + 1) :: mtfGo (x :: mtf.eraseIdx (mtf.idxOf x)) 0 xs) ++ [stb.size + 1]) run (by omega)
      have hsz : (flushed stb rp hh dbuf mtf).size = dbuf.size + run := by
        have := congrArg List.length hfl
        simpa using this
      have hlit := processSym_lit dbufSize stb rp hh dbuf mtf (mtf.idxOf x + 1) (by omega) (by omega) hfit (by omega)
      simp only [Nat.add_sub_cancel, hget] at hlit
      obtain ⟨st', e', hd'⟩ := procSyms_mtfGo dbufSize stb hd hs1 xs (x :: mtf.eraseIdx (mtf.idxOf x)) 0 hh
        ((flushed stb rp hh dbuf mtf).push (stb.getD x 0))
        (fun y hy => hx y (List.mem_cons_of_mem _ hy)) (by rw [herase]; exact hinv')
        (by simp only [Array.size_push]; omega)
      refine ⟨st', ?_, ?_⟩
      · rw [List.append_assoc, e]
        simp only [List.cons_append, procSyms, hlit]
        exact e'
      · rw [hd']
        simp [hfl]

/-- symbol indices of the block's bytes in the used-byte table -/
theorem usedBytes_mem (l : Bytes) (b : UInt8) (hb : b ∈ l) : b ∈ usedBytes l := by
  unfold usedBytes
  rw [List.mem_filter]
  refine ⟨?_, by simpa using hb⟩
  rw [List.mem_map]
  exact ⟨b.toNat, by simp [b.toNat_lt], UInt8.ofNat_toNat⟩

theorem usedBytes_length_le (l : Bytes) : (usedBytes l).length ≤ 256 := by
  unfold usedBytes
  exact Nat.le_trans (List.length_filter_le _ _) (by simp)

/-- **(c)** the MTF / RUNA-RUNB stage of `read_huffman_data`, run on the symbols `mtfrle l` the encoder writes,
    rebuilds `l` and stops at the terminating symbol (for every block that fits `dbufSize`) -/
theorem procSyms_mtfrle (dbufSize : Nat) (hd : dbufSize < 2 ^ 31) (l : Bytes) (hne : l ≠ []) (hlen : l.length ≤ dbufSize) :
    ∃ st', procSyms dbufSize (usedBytes l).toArray ⟨0, 0, #[], List.range 256⟩ (mtfrle l) = .ok (st', true, []) ∧
      st'.dbuf.toList = l := by
  have hs1 : 1 ≤ (usedBytes l).toArray.size := by
    obtain ⟨b, hb⟩ := List.exists_mem_of_ne_nil l hne
    have := List.length_pos_of_mem (usedBytes_mem l b hb)
    simp only [List.size_toArray]; omega
  have hsz : (usedBytes l).toArray.size = (usedBytes l).length := by simp
  obtain ⟨st', e, hd'⟩ := procSyms_mtfGo dbufSize (usedBytes l).toArray hd hs1
    (l.map (fun b => (usedBytes l).idxOf b)) (List.range 256) 0 0 #[]
    (by
      intro x hx
      obtain ⟨b, hb, rfl⟩ := List.mem_map.mp hx
      rw [hsz]
      exact List.idxOf_lt_length_of_mem (usedBytes_mem l b hb))
    (mtfInv_range _ (by rw [hsz]; exact usedBytes_length_le l))
    (by simpa using hlen)
  refine ⟨st', ?_, ?_⟩
  · unfold mtfrle
    simp only [hsz] at e
    exact e
  · rw [hd']
    simp only [List.replicate_zero, List.append_nil, List.map_map, List.nil_append]
    have : ∀ b ∈ l, ((fun x => (usedBytes l).toArray.getD x 0) ∘ fun b => (usedBytes l).idxOf b) b = b := by
      intro b hb
      have hlt := List.idxOf_lt_length_of_mem (usedBytes_mem l b hb)
      simp only [Function.comp]
      rw [Array.getD_eq_getD_getElem?]
      simp [List.getElem?_eq_getElem hlt]
    rw [List.map_congr_left this, List.map_id']

/-! ## size and range of the symbol stream -/

theorem runSyms_length_le : ∀ (fuel n : Nat), (runSyms fuel n).length ≤ n
  | 0, _ => by simp [runSyms]
  | _ + 1, 0 => by simp [runSyms]
  | fuel + 1, n + 1 => by
    unfold runSyms
    split
    · have := runSyms_length_le fuel (n / 2)
      simp only [List.length_cons]; omega
    · have := runSyms_length_le fuel ((n - 1) / 2)
      simp only [List.length_cons]; omega

theorem mtfGo_length_le : ∀ (xs mtf : List Nat) (run : Nat), (mtfGo mtf run xs).length ≤ run + xs.length
  | [], mtf, run => by simpa [mtfGo] using runSyms_length_le run run
  | x :: xs, mtf, run => by
    unfold mtfGo
    simp only
    split
    · have := mtfGo_length_le xs mtf (run + 1)
      simp only [List.length_cons]; omega
    · have := mtfGo_length_le xs (x :: mtf.eraseIdx (mtf.idxOf x)) 0
      have := runSyms_length_le run run
      simp only [List.length_append, List.length_cons]; omega

theorem mtfrle_length (l : Bytes) : 1 ≤ (mtfrle l).length ∧ (mtfrle l).length ≤ l.length + 1 := by
  unfold mtfrle
  have := mtfGo_length_le (l.map (fun b => (usedBytes l).idxOf b)) (List.range 256) 0
  simp only [List.length_append, List.length_map, List.length_cons, List.length_nil] at this ⊢
  omega

theorem mtfGo_le (u : Nat) (hu : 1 ≤ u) : ∀ (xs mtf : List Nat) (run : Nat), (∀ x ∈ xs, x < u) → MtfInv u mtf →
    ∀ y ∈ mtfGo mtf run xs, y ≤ u
  | [], mtf, run, _, _, y, hy => by
    have := runSyms_le_one run run y (by simpa [mtfGo] using hy)
    omega
  | x :: xs, mtf, run, hx, hinv, y, hy => by
    have hxu : x < u := hx x List.mem_cons_self
    obtain ⟨hpos, _, herase, hinv'⟩ := mtfInv_facts hinv hxu
    unfold mtfGo at hy
    simp only at hy
    split at hy
    · exact mtfGo_le u hu xs mtf (run + 1) (fun z hz => hx z (List.mem_cons_of_mem _ hz)) hinv y hy
    · rcases List.mem_append.mp hy with h | h
      · have := runSyms_le_one run run y h; omega
      · rcases List.mem_cons.mp h with rfl | h
        · omega
        · exact mtfGo_le u hu xs _ 0 (fun z hz => hx z (List.mem_cons_of_mem _ hz)) (by rw [herase]; exact hinv') y h

theorem mtfrle_le (l : Bytes) (hne : l ≠ []) : ∀ y ∈ mtfrle l, y ≤ (usedBytes l).length + 1 := by
  intro y hy
  have hu : 1 ≤ (usedBytes l).length := by
    obtain ⟨b, hb⟩ := List.exists_mem_of_ne_nil l hne
    exact List.length_pos_of_mem (usedBytes_mem l b hb)
  unfold mtfrle at hy
  rcases List.mem_append.mp hy with h | h
  · have := mtfGo_le (usedBytes l).length hu (l.map (fun b => (usedBytes l).idxOf b)) (List.range 256) 0
      (by
        intro x hx
        obtain ⟨b, hb, rfl⟩ := List.mem_map.mp hx
        exact List.idxOf_lt_length_of_mem (usedBytes_mem l b hb))
      (mtfInv_range _ (usedBytes_length_le l)) y h
    omega
  · simp only [List.mem_singleton] at h; omega

end Xmp.Bzip2
