import XmpProofs.ArcFrame
import XmpModel.ZipFrame
/-!
Byte-level framing of zip archives: the central-directory walk of `Xmp.Container.unzip` on an archive written
by `zipWrap` yields exactly the written members; hence the first regular, supported, non-excluded stored member
comes back.
-/
namespace Xmp.Container
open Xmp Xmp.Gen.Depackers

theorem bAt_drop (f : Bytes) (i j : Nat) : bAt (f.drop i) j = bAt f (i + j) := by
  simp [bAt]

theorem sigAt_drop (f : Bytes) (i : Nat) (a b c d : Nat) : sigAt f i a b c d = sigAt (f.drop i) 0 a b c d := by
  simp [sigAt, bAt_drop]

theorem u16At_drop' (f : Bytes) (i j : Nat) : u16At f (i + j) = u16At (f.drop i) j := by
  rw [u16At_drop f (i + j), u16At_drop (f.drop i) j, List.drop_drop]

theorem u32At_drop' (f : Bytes) (i j : Nat) : u32At f (i + j) = u32At (f.drop i) j := by
  rw [u32At_drop f (i + j), u32At_drop (f.drop i) j, List.drop_drop]

structure ZipMember.Legal (m : ZipMember) : Prop where
  nameLen : m.name.length < 65536
  extraLen : m.extra.length < 65536
  cextraLen : m.cextra.length < 65536
  commentLen : m.comment.length < 65536
  dlen : m.data.length < 2 ^ 32
  clen : m.cdata.length < 2 ^ 32
  meth : m.method < 65536
  flg : m.flags < 65536
  attr : m.extAttr < 2 ^ 32

def entrySpec (crc : Bytes → UInt32) (lo : Nat) (m : ZipMember) : ZipEntry :=
  { name := m.name, method := m.method, flags := m.flags, crc := (crc m.data).toNat, csize := m.cdata.length,
    usize := m.data.length, extAttr := m.extAttr, localOfs := lo }

theorem u16At_skip (a r : Bytes) (j k : Nat) (h : a.length = k) : u16At (a ++ r) (j + k) = u16At r j := by
  rw [Nat.add_comm, u16At_drop', List.drop_left' h]
theorem u32At_skip (a r : Bytes) (j k : Nat) (h : a.length = k) : u32At (a ++ r) (j + k) = u32At r j := by
  rw [Nat.add_comm, u32At_drop', List.drop_left' h]

theorem u16At_s16 (x : Nat) (r : Bytes) (j : Nat) : u16At (le16 x ++ r) (j + 2) = u16At r j := u16At_skip _ _ _ _ rfl
theorem u16At_s32 (x : Nat) (r : Bytes) (j : Nat) : u16At (le32 x ++ r) (j + 4) = u16At r j := u16At_skip _ _ _ _ rfl
theorem u16At_s4 (a b c d : UInt8) (r : Bytes) (j : Nat) : u16At (([a, b, c, d] : Bytes) ++ r) (j + 4) = u16At r j :=
  u16At_skip [a, b, c, d] r j 4 rfl
theorem u32At_s16 (x : Nat) (r : Bytes) (j : Nat) : u32At (le16 x ++ r) (j + 2) = u32At r j := u32At_skip _ _ _ _ rfl
theorem u32At_s32 (x : Nat) (r : Bytes) (j : Nat) : u32At (le32 x ++ r) (j + 4) = u32At r j := u32At_skip _ _ _ _ rfl
theorem u32At_s4 (a b c d : UInt8) (r : Bytes) (j : Nat) : u32At (([a, b, c, d] : Bytes) ++ r) (j + 4) = u32At r j :=
  u32At_skip [a, b, c, d] r j 4 rfl

theorem zipCentral_length (crc : Bytes → UInt32) (lo : Nat) (m : ZipMember) :
    (zipCentral crc lo m).length = 46 + m.name.length + m.cextra.length + m.comment.length := by
  unfold zipCentral
  simp only [List.length_append, le16_length, le32_length]
  have : ([0x50, 0x4b, 1, 2] : Bytes).length = 4 := rfl
  omega

theorem central_parse (crc : Bytes → UInt32) (f : Bytes) (ofs lo n : Nat) (m : ZipMember) (tail : Bytes)
    (hm : m.Legal) (hlo : lo < 2 ^ 32) (h : f.drop ofs = zipCentral crc lo m ++ tail) :
    zipCdEntries f (n + 1) ofs =
      entrySpec crc lo m :: zipCdEntries f n (ofs + (zipCentral crc lo m).length) := by
  have hc32 : (crc m.data).toNat < 2 ^ 32 := (crc m.data).toNat_lt
  rw [zipCdEntries]
  have h' := h
  unfold zipCentral at h'
  simp only [List.append_assoc] at h'
  have hsig : sigAt f ofs 0x50 0x4b 1 2 = true := by
    rw [sigAt_drop, h']; rfl
  simp only [hsig, Bool.not_true, Bool.false_eq_true, if_false]
  have e28 : u16At f (ofs + 28) = m.name.length := by
    rw [u16At_drop', h']
    simp only [u16At_s4, u16At_s16, u16At_s32]
    exact u16At_le16 _ hm.nameLen _
  have e30 : u16At f (ofs + 30) = m.cextra.length := by
    rw [u16At_drop', h']
    simp only [u16At_s4, u16At_s16, u16At_s32]
    exact u16At_le16 _ hm.cextraLen _
  have e32 : u16At f (ofs + 32) = m.comment.length := by
    rw [u16At_drop', h']
    simp only [u16At_s4, u16At_s16, u16At_s32]
    exact u16At_le16 _ hm.commentLen _
  have e10 : u16At f (ofs + 10) = m.method := by
    rw [u16At_drop', h']
    simp only [u16At_s4, u16At_s16, u16At_s32]
    exact u16At_le16 _ hm.meth _
  have e8 : u16At f (ofs + 8) = m.flags := by
    rw [u16At_drop', h']
    simp only [u16At_s4, u16At_s16, u16At_s32]
    exact u16At_le16 _ hm.flg _
  have e16 : u32At f (ofs + 16) = (crc m.data).toNat := by
    rw [u32At_drop', h']
    simp only [u32At_s4, u32At_s16, u32At_s32]
    exact u32At_le32 _ hc32 _
  have e20 : u32At f (ofs + 20) = m.cdata.length := by
    rw [u32At_drop', h']
    simp only [u32At_s4, u32At_s16, u32At_s32]
    exact u32At_le32 _ hm.clen _
  have e24 : u32At f (ofs + 24) = m.data.length := by
    rw [u32At_drop', h']
    simp only [u32At_s4, u32At_s16, u32At_s32]
    exact u32At_le32 _ hm.dlen _
  have e38 : u32At f (ofs + 38) = m.extAttr := by
    rw [u32At_drop', h']
    simp only [u32At_s4, u32At_s16, u32At_s32]
    exact u32At_le32 _ hm.attr _
  have e42 : u32At f (ofs + 42) = lo := by
    rw [u32At_drop', h']
    simp only [u32At_s4, u32At_s16, u32At_s32]
    exact u32At_le32 _ hlo _
  have ename : (f.drop (ofs + 46)).take m.name.length = m.name := by
    rw [← List.drop_drop, h']
    have : ([0x50, 0x4b, 1, 2] ++ (le16 m.verMade ++ (le16 m.verNeed ++ (le16 m.flags ++ (le16 m.method ++
      (le16 m.time ++ (le16 m.date ++ (le32 (crc m.data).toNat ++ (le32 m.cdata.length ++ (le32 m.data.length ++
      (le16 m.name.length ++ (le16 m.cextra.length ++ (le16 m.comment.length ++ (le16 0 ++ (le16 0 ++
      (le32 m.extAttr ++ (le32 lo ++ (m.name ++ (m.cextra ++ (m.comment ++ tail)))))))))))))))))))) =
      ([0x50, 0x4b, 1, 2] ++ le16 m.verMade ++ le16 m.verNeed ++ le16 m.flags ++ le16 m.method ++
      le16 m.time ++ le16 m.date ++ le32 (crc m.data).toNat ++ le32 m.cdata.length ++ le32 m.data.length ++
      le16 m.name.length ++ le16 m.cextra.length ++ le16 m.comment.length ++ le16 0 ++ le16 0 ++
      le32 m.extAttr ++ le32 lo) ++ (m.name ++ (m.cextra ++ (m.comment ++ tail))) := by
      simp only [List.append_assoc]
    rw [this, List.drop_left' (by simp only [List.length_append, le16_length, le32_length]; rfl), List.take_left']
    rfl
  simp only [e28, e30, e32, e10, e8, e16, e20, e24, e38, e42, ename, entrySpec]
  rw [zipCentral_length]
  congr 2
  omega


/-- what the central directory walk must produce for the written members -/
def entrySpecs (crc : Bytes → UInt32) : Nat → List ZipMember → List ZipEntry
  | _, [] => []
  | lo, m :: ms => entrySpec crc lo m :: entrySpecs crc (lo + (zipLocal crc m).length) ms

theorem zipLocal_length (crc : Bytes → UInt32) (m : ZipMember) :
    (zipLocal crc m).length = 30 + m.name.length + m.extra.length + m.cdata.length := by
  unfold zipLocal
  simp only [List.length_append, le16_length, le32_length]
  have : ([0x50, 0x4b, 3, 4] : Bytes).length = 4 := rfl
  omega

/-- offsets of all local headers stay below 2^32 -/
def OfsOk (crc : Bytes → UInt32) : Nat → List ZipMember → Prop
  | _, [] => True
  | lo, m :: ms => lo < 2 ^ 32 ∧ OfsOk crc (lo + (zipLocal crc m).length) ms

theorem cd_walk (crc : Bytes → UInt32) (f : Bytes) (ms : List ZipMember) : ∀ (ofs lo : Nat) (tail : Bytes),
    (∀ m ∈ ms, m.Legal) → OfsOk crc lo ms → f.drop ofs = zipCd crc lo ms ++ tail →
    zipCdEntries f ms.length ofs = entrySpecs crc lo ms := by
  induction ms with
  | nil => intro ofs lo tail _ _ _; rfl
  | cons m ms ih =>
    intro ofs lo tail hl hofs h
    simp only [zipCd, List.append_assoc] at h
    rw [List.length_cons, central_parse crc f ofs lo ms.length m _ (hl m (by simp)) hofs.1 h]
    simp only [entrySpecs]
    congr 1
    apply ih _ _ tail (fun x hx => hl x (by simp [hx])) hofs.2
    rw [← List.drop_drop, h, List.drop_left]

theorem findEocd_hit (f : Bytes) (k : Nat) (h : sigAt f k 0x50 0x4b 5 6 = true) : findEocd f k = some k := by
  cases k with
  | zero => simp [findEocd, h]
  | succ k => simp [findEocd, h]

/-! ### the windowed end-of-central-directory search -/

/-- no later offset holds the signature with a whole record behind it -/
def LastSig (f : Bytes) (e : Nat) : Prop :=
  sigAt f e 0x50 0x4b 5 6 = true ∧ e + 22 ≤ f.length ∧
  ∀ p, e < p → p + 22 ≤ f.length → sigAt f p 0x50 0x4b 5 6 = false

theorem scanWin_none (f : Bytes) (e cur : Nat) (h : LastSig f e) (hlt : e < cur) : ∀ k, scanWin f cur k = none := by
  intro k
  induction k with
  | zero => rfl
  | succ k ih =>
    rw [scanWin]
    by_cases hv : cur + k + 22 ≤ f.length
    · have := h.2.2 (cur + k) (by omega) hv
      simp [this, ih]
    · simp [hv, ih]

theorem scanWin_hit (f : Bytes) (e cur : Nat) (h : LastSig f e) : ∀ k, cur ≤ e → e < cur + k → scanWin f cur k = some e := by
  intro k
  induction k with
  | zero => intro h1 h2; omega
  | succ k ih =>
    intro h1 h2
    rw [scanWin]
    by_cases he : cur + k = e
    · rw [he]; simp [h.1, h.2.1]
    · have hgt : e < cur + k := by omega
      by_cases hv : cur + k + 22 ≤ f.length
      · have := h.2.2 (cur + k) hgt hv
        simp only [this, Bool.false_and, Bool.false_eq_true, if_false]
        exact ih h1 hgt
      · simp only [hv, decide_false, Bool.and_false, Bool.false_eq_true, if_false]
        exact ih h1 hgt

theorem locateGo_spec (f : Bytes) (e : Nat) (h : LastSig f e) (hfar : f.length - e ≤ 65535 + 22) :
    ∀ (fuel cur : Nat), e + 3 < cur + min 4096 (f.length - cur) → (cur + 4092) / 4093 + 1 ≤ fuel → 4096 ≤ f.length - cur ∨ cur = 0 →
    locateGo f fuel cur = some e := by
  intro fuel
  induction fuel with
  | zero => intro cur _ hf _; omega
  | succ fu ih =>
    intro cur hcov hf hwin
    rw [locateGo]
    by_cases hin : cur ≤ e
    · rw [scanWin_hit f e cur h _ hin (by omega)]
    · have hlt : e < cur := by omega
      rw [scanWin_none f e cur h hlt]
      simp only []
      have hne : ¬ (cur = 0 ∨ f.length - cur ≥ 65535 + 22) := by
        have := h.2.1
        omega
      rw [if_neg hne]
      have hsz : 4096 ≤ f.length - cur := by rcases hwin with h' | h' <;> omega
      apply ih
      · by_cases hc : 4093 ≤ cur
        · have : min 4096 (f.length - (cur - 4093)) = 4096 := by omega
          rw [this]; omega
        · have h0 : cur - 4093 = 0 := by omega
          rw [h0]
          have := h.2.1
          omega
      · by_cases hc : 4093 ≤ cur
        · have : (cur - 4093 + 4092) / 4093 + 1 = (cur + 4092) / 4093 := by
            have : cur + 4092 = (cur - 4093 + 4092) + 4093 := by omega
            rw [this, Nat.add_div_right _ (by decide)]
          omega
        · have h0 : cur - 4093 = 0 := by omega
          have h1 : (cur + 4092) / 4093 = 1 := by
            have : 0 < cur := by omega
            omega
          rw [h0]; omega
      · by_cases hc : 4093 ≤ cur
        · left; omega
        · right; omega

/-- **the 4096-byte window scan finds the last end-of-central-directory record** whenever it starts within
    65535 + 22 bytes of the end of the file (i.e. for every legal archive comment) -/
theorem locateEocd_spec (f : Bytes) (e : Nat) (h : LastSig f e) (hfar : f.length - e ≤ 65535 + 22) :
    locateEocd f = some e := by
  have he := h.2.1
  unfold locateEocd
  rw [if_neg (by omega)]
  apply locateGo_spec f e h hfar
  · by_cases hc : 4096 ≤ f.length
    · have : min 4096 (f.length - (f.length - 4096)) = 4096 := by omega
      rw [this]; omega
    · have h0 : f.length - 4096 = 0 := by omega
      rw [h0]; simp only [Nat.sub_zero, Nat.zero_add]; omega
  · by_cases hc : 4096 ≤ f.length
    · have : (f.length - 4096 + 4092) / 4093 ≤ f.length / 4093 := Nat.div_le_div_right (by omega)
      omega
    · have h0 : f.length - 4096 = 0 := by omega
      rw [h0]; omega
  · by_cases hc : 4096 ≤ f.length
    · left; omega
    · right; omega

theorem zipEocd_length (n a b c : Nat) : (zipEocd n a b c).length = 22 := by
  unfold zipEocd
  simp only [List.length_append, le16_length, le32_length]
  rfl

/-- an archive comment that cannot be mistaken for an end-of-central-directory record: no later offset inside
    `record ++ comment` carries the signature with 22 bytes behind it -/
def CommentOk (E comment : Bytes) : Prop :=
  comment.length ≤ 65535 ∧ ∀ p, 0 < p → p + 22 ≤ (E ++ comment).length → sigAt (E ++ comment) p 0x50 0x4b 5 6 = false

theorem commentOk_nil (E : Bytes) (hE : E.length = 22) : CommentOk E [] := by
  refine ⟨by simp, ?_⟩
  intro p hp hle
  simp only [List.append_nil, hE] at hle; omega

theorem zipEntries_wrap (crc : Bytes → UInt32) (lead : Bytes) (ms : List ZipMember) (comment : Bytes)
    (hl : ∀ m ∈ ms, m.Legal) (hofs : OfsOk crc lead.length ms) (hn : ms.length < 65536)
    (hcd : (lead ++ zipLocals crc ms).length < 2 ^ 32)
    (hc : CommentOk (zipEocd ms.length (zipCd crc lead.length ms).length (lead ++ zipLocals crc ms).length comment.length) comment) :
    zipEntries (zipWrapC crc lead ms comment) = some (entrySpecs crc lead.length ms) := by
  unfold zipEntries zipWrapC
  simp only []
  generalize hL : lead ++ zipLocals crc ms = L at *
  generalize hC : zipCd crc lead.length ms = C at *
  generalize hE : zipEocd ms.length C.length L.length comment.length = E at *
  have hEl : E.length = 22 := by rw [← hE]; exact zipEocd_length _ _ _ _
  have hdrop : (L ++ C ++ E ++ comment).drop (L ++ C).length = E ++ comment := by
    rw [List.append_assoc (L ++ C), List.drop_left]
  have hsigE : sigAt (E ++ comment) 0 0x50 0x4b 5 6 = true := by rw [← hE]; rfl
  have hlast : LastSig (L ++ C ++ E ++ comment) (L ++ C).length := by
    refine ⟨?_, ?_, ?_⟩
    · rw [sigAt_drop, hdrop]; exact hsigE
    · simp only [List.length_append, hEl]; omega
    · intro p hp hle
      have : p = (L ++ C).length + (p - (L ++ C).length) := by omega
      rw [this, sigAt_drop, ← List.drop_drop, hdrop, ← sigAt_drop]
      apply hc.2 _ (by omega)
      simp only [List.length_append, hEl] at hle ⊢; omega
  have hfar : (L ++ C ++ E ++ comment).length - (L ++ C).length ≤ 65535 + 22 := by
    have := hc.1
    simp only [List.length_append, hEl]; omega
  rw [locateEocd_spec _ _ hlast hfar]
  simp only []
  have hde : E ++ comment =
      ([0x50, 0x4b, 5, 6] : Bytes) ++ (le16 0 ++ (le16 0 ++ (le16 ms.length ++ (le16 ms.length ++
        (le32 C.length ++ (le32 L.length ++ (le16 comment.length ++ comment))))))) := by
    rw [← hE]; unfold zipEocd; simp only [List.append_assoc]
  have e10 : u16At (L ++ C ++ E ++ comment) ((L ++ C).length + 10) = ms.length := by
    rw [u16At_drop', hdrop, hde]
    simp only [u16At_s4, u16At_s16]
    exact u16At_le16 _ hn _
  have e16 : u32At (L ++ C ++ E ++ comment) ((L ++ C).length + 16) = L.length := by
    rw [u32At_drop', hdrop, hde]
    simp only [u32At_s4, u32At_s16, u32At_s32]
    exact u32At_le32 _ hcd _
  rw [e10, e16]
  congr 1
  apply cd_walk crc _ ms L.length lead.length (E ++ comment) hl hofs
  rw [← hC, List.append_assoc, List.append_assoc, List.drop_left]

/-- the member record `decrunch_zip` works with, for a written member -/
def memSpec (crc : Bytes → UInt32) (m : ZipMember) : Member :=
  { name := cstr m.name, isDir := (entrySpec crc 0 m).isDir, supported := (entrySpec crc 0 m).supported,
    method := m.method, cdata := m.cdata, usize := m.data.length, check := (crc m.data).toNat }

theorem local_parse (crc : Bytes → UInt32) (f : Bytes) (lo : Nat) (m : ZipMember) (tail : Bytes) (hm : m.Legal)
    (h : f.drop lo = zipLocal crc m ++ tail) : (entrySpec crc lo m).toMember f = memSpec crc m := by
  have h' := h
  unfold zipLocal at h'
  simp only [List.append_assoc] at h'
  have e26 : u16At f (lo + 26) = m.name.length := by
    rw [u16At_drop', h']
    simp only [u16At_s4, u16At_s16, u16At_s32]
    exact u16At_le16 _ hm.nameLen _
  have e28 : u16At f (lo + 28) = m.extra.length := by
    rw [u16At_drop', h']
    simp only [u16At_s4, u16At_s16, u16At_s32]
    exact u16At_le16 _ hm.extraLen _
  have hdata : (f.drop (lo + 30 + m.name.length + m.extra.length)).take m.cdata.length = m.cdata := by
    have : lo + 30 + m.name.length + m.extra.length = lo + (30 + m.name.length + m.extra.length) := by omega
    rw [this, ← List.drop_drop, h']
    have hsplit : (([0x50, 0x4b, 3, 4] : Bytes) ++ (le16 m.verNeed ++ (le16 m.flags ++ (le16 m.method ++ (le16 m.time ++
        (le16 m.date ++ (le32 (crc m.data).toNat ++ (le32 m.cdata.length ++ (le32 m.data.length ++
        (le16 m.name.length ++ (le16 m.extra.length ++ (m.name ++ (m.extra ++ (m.cdata ++ tail))))))))))))) ) =
        (([0x50, 0x4b, 3, 4] : Bytes) ++ le16 m.verNeed ++ le16 m.flags ++ le16 m.method ++ le16 m.time ++
        le16 m.date ++ le32 (crc m.data).toNat ++ le32 m.cdata.length ++ le32 m.data.length ++
        le16 m.name.length ++ le16 m.extra.length ++ m.name ++ m.extra) ++ (m.cdata ++ tail) := by
      simp only [List.append_assoc]
    rw [hsplit, List.drop_left' (by
      simp only [List.length_append, le16_length, le32_length]
      have : ([0x50, 0x4b, 3, 4] : Bytes).length = 4 := rfl
      omega), List.take_left']
    rfl
  simp only [ZipEntry.toMember, entrySpec, e26, e28, hdata, memSpec, ZipEntry.isDir, ZipEntry.supported]

theorem locals_walk (crc : Bytes → UInt32) (f : Bytes) (ms : List ZipMember) : ∀ (lo : Nat) (tail : Bytes),
    (∀ m ∈ ms, m.Legal) → f.drop lo = zipLocals crc ms ++ tail →
    (entrySpecs crc lo ms).map (ZipEntry.toMember f) = ms.map (memSpec crc) := by
  induction ms with
  | nil => intro lo tail _ _; rfl
  | cons m ms ih =>
    intro lo tail hl h
    simp only [zipLocals, List.flatMap_cons, List.append_assoc] at h
    simp only [entrySpecs, List.map_cons]
    rw [local_parse crc f lo m _ (hl m (by simp)) h]
    congr 1
    apply ih _ tail (fun x hx => hl x (by simp [hx]))
    rw [← List.drop_drop, h, List.drop_left]; rfl

/-- **the central-directory walk on a written archive yields exactly the written members** -/
theorem zipMembers_wrapC (crc : Bytes → UInt32) (lead : Bytes) (ms : List ZipMember) (comment : Bytes)
    (hl : ∀ m ∈ ms, m.Legal) (hofs : OfsOk crc lead.length ms) (hn : ms.length < 65536)
    (hcd : (lead ++ zipLocals crc ms).length < 2 ^ 32)
    (hc : CommentOk (zipEocd ms.length (zipCd crc lead.length ms).length (lead ++ zipLocals crc ms).length comment.length) comment) :
    zipMembers (zipWrapC crc lead ms comment) = some (ms.map (memSpec crc)) := by
  unfold zipMembers
  rw [zipEntries_wrap crc lead ms comment hl hofs hn hcd hc]
  simp only [Option.map_some]
  congr 1
  apply locals_walk crc _ ms lead.length
    (zipCd crc lead.length ms ++ (zipEocd ms.length (zipCd crc lead.length ms).length (lead ++ zipLocals crc ms).length
      comment.length ++ comment)) hl
  unfold zipWrapC
  simp only [List.append_assoc]
  rw [List.drop_left]

theorem zipMembers_wrap (crc : Bytes → UInt32) (lead : Bytes) (ms : List ZipMember)
    (hl : ∀ m ∈ ms, m.Legal) (hofs : OfsOk crc lead.length ms) (hn : ms.length < 65536)
    (hcd : (lead ++ zipLocals crc ms).length < 2 ^ 32) :
    zipMembers (zipWrap crc lead ms) = some (ms.map (memSpec crc)) :=
  zipMembers_wrapC crc lead ms [] hl hofs hn hcd (commentOk_nil _ (zipEocd_length _ _ _ _))

/-- **zip framing**: excluded / directory / unsupported members before the module are skipped and the module comes
    back (CRC-32 and size gate included), whatever follows it in the archive: stored members unconditionally,
    deflated members given that the inflate parameter decodes the member's stream. -/
theorem unzip_wrapC (crc : Bytes → UInt32) (dec : Nat → Bytes → Option Bytes) (lead : Bytes)
    (pre post : List ZipMember) (m : ZipMember) (comment : Bytes)
    (hl : ∀ x ∈ pre ++ m :: post, x.Legal) (hofs : OfsOk crc lead.length (pre ++ m :: post))
    (hn : (pre ++ m :: post).length < 65536) (hcd : (lead ++ zipLocals crc (pre ++ m :: post)).length < 2 ^ 32)
    (hc : CommentOk (zipEocd (pre ++ m :: post).length (zipCd crc lead.length (pre ++ m :: post)).length
      (lead ++ zipLocals crc (pre ++ m :: post)).length comment.length) comment)
    (hpre : ∀ x ∈ pre, Skipped (memSpec crc x)) (hm : ¬ Skipped (memSpec crc m))
    (hdec : (if m.method = 0 then some m.cdata else dec m.method m.cdata) = some m.data) :
    unzip (fun b => (crc b).toNat) dec (zipWrapC crc lead (pre ++ m :: post) comment) = some m.data := by
  unfold unzip
  rw [zipMembers_wrapC crc lead _ comment hl hofs hn hcd hc]
  simp only [List.map_append, List.map_cons, unpackMembers]
  rw [selectMember_skip (pre.map (memSpec crc)) (post.map (memSpec crc)) (memSpec crc m)
    (by intro x hx; obtain ⟨y, hy, rfl⟩ := List.mem_map.mp hx; exact hpre y hy) hm]
  have : (if (memSpec crc m).method = 0 then some (memSpec crc m).cdata
      else dec (memSpec crc m).method (memSpec crc m).cdata) = some m.data := hdec
  simp only [extractMember, this]
  simp [memSpec]

theorem unzip_wrap (crc : Bytes → UInt32) (dec : Nat → Bytes → Option Bytes) (lead : Bytes)
    (pre post : List ZipMember) (m : ZipMember)
    (hl : ∀ x ∈ pre ++ m :: post, x.Legal) (hofs : OfsOk crc lead.length (pre ++ m :: post))
    (hn : (pre ++ m :: post).length < 65536) (hcd : (lead ++ zipLocals crc (pre ++ m :: post)).length < 2 ^ 32)
    (hpre : ∀ x ∈ pre, Skipped (memSpec crc x)) (hm : ¬ Skipped (memSpec crc m))
    (hdec : (if m.method = 0 then some m.cdata else dec m.method m.cdata) = some m.data) :
    unzip (fun b => (crc b).toNat) dec (zipWrap crc lead (pre ++ m :: post)) = some m.data :=
  unzip_wrapC crc dec lead pre post m [] hl hofs hn hcd (commentOk_nil _ (zipEocd_length _ _ _ _)) hpre hm hdec

theorem zipWrap_head (crc : Bytes → UInt32) (m : ZipMember) (ms : List ZipMember) :
    ∃ t, zipWrap crc [] (m :: ms) = 0x50 :: 0x4b :: 3 :: 4 :: t := by
  unfold zipWrap zipWrapC zipLocals zipLocal
  simp only [List.nil_append, List.flatMap_cons, List.append_assoc, List.cons_append]
  exact ⟨_, rfl⟩

theorem zipWrap_length (crc : Bytes → UInt32) (lead : Bytes) (ms : List ZipMember) :
    22 ≤ (zipWrap crc lead ms).length := by
  unfold zipWrap zipWrapC
  simp only [List.length_append, zipEocd_length]; omega

end Xmp.Container
