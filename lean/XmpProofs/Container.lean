import XmpModel.Md5
/-!
Helper lemmas for C08: MD5 buffering (`src/md5.c`) — the buffered `MD5Update` is the block fold
over the concatenated input.  (Container lemmas follow below.)
-/
namespace Xmp.Md5
open Xmp

theorem blocks_lt (h : H) (d : Bytes) (hd : d.length < 64) : blocks h d = (h, d) := by
  rw [blocks]; simp [hd]

theorem blocks_ge (h : H) (d : Bytes) (hd : 64 ≤ d.length) :
    blocks h d = blocks (transform h (d.take 64)) (d.drop 64) := by
  rw [blocks]; simp [Nat.not_lt.mpr hd]

theorem blocks_append (h : H) (x y : Bytes) :
    blocks (blocks h x).1 ((blocks h x).2 ++ y) = blocks h (x ++ y) := by
  induction h, x using blocks.induct with
  | case1 h x hlt => rw [blocks_lt h x hlt]
  | case2 h x hge ih =>
    have hge' : 64 ≤ x.length := Nat.le_of_not_lt hge
    rw [blocks_ge h x hge', ih, blocks_ge h (x ++ y) (by simp; omega)]
    rw [List.take_append_of_le_length hge', List.drop_append_of_le_length hge']

theorem blocks_rest_len (h : H) (x : Bytes) : (blocks h x).2.length = x.length % 64 := by
  induction h, x using blocks.induct with
  | case1 h x hlt => rw [blocks_lt h x hlt]; simp; omega
  | case2 h x hge ih =>
    have hge' : 64 ≤ x.length := Nat.le_of_not_lt hge
    rw [blocks_ge h x hge', ih]; simp [List.length_drop]; omega

theorem blocks_rest_lt (h : H) (x : Bytes) : (blocks h x).2.length < 64 := by
  rw [blocks_rest_len]; omega

/-- `MD5Update` = continue the block fold over (buffered bytes ++ input) -/
theorem update_spec (s : Ctx) (inp : Bytes) (hs : s.buf.length < 64) :
    update s inp = { h := (blocks s.h (s.buf ++ inp)).1, count := s.count + 8 * inp.length,
                     buf := (blocks s.h (s.buf ++ inp)).2 } := by
  unfold update
  by_cases hlen : inp.length ≥ 64 - s.buf.length
  · by_cases hv : s.buf.length ≠ 0
    · have h64 : 64 ≤ (s.buf ++ inp).length := by simp; omega
      have ht : (s.buf ++ inp).take 64 = s.buf ++ inp.take (64 - s.buf.length) := by
        rw [List.take_append]; rw [List.take_of_length_le (by omega)]
      have hd : (s.buf ++ inp).drop 64 = inp.drop (64 - s.buf.length) := by
        rw [List.drop_append]; rw [List.drop_of_length_le (by omega)]; simp
      simp only [hlen, hv, if_true, ne_eq, not_false_eq_true]
      rw [blocks_ge _ _ h64, ht, hd]
    · have h0 : s.buf = [] := by
        have : s.buf.length = 0 := by omega
        exact List.eq_nil_of_length_eq_zero this
      have hl : ¬ inp.length < 64 := by rw [h0] at hlen; simp at hlen; omega
      simp [h0]
      intro h; exact absurd h hl
  · have hl : (s.buf ++ inp).length < 64 := by simp; omega
    simp only [hlen, if_false]
    rw [blocks_lt _ _ hl]

theorem update_buf_lt (s : Ctx) (inp : Bytes) (hs : s.buf.length < 64) : (update s inp).buf.length < 64 := by
  rw [update_spec s inp hs]; exact blocks_rest_lt _ _

theorem update_update (s : Ctx) (a b : Bytes) (hs : s.buf.length < 64) :
    update (update s a) b = update s (a ++ b) := by
  rw [update_spec (update s a) b (update_buf_lt s a hs), update_spec s a hs, update_spec s (a ++ b) hs]
  simp only [blocks_append, List.append_assoc, List.length_append]
  congr 1
  omega

theorem update_nil (s : Ctx) (hs : s.buf.length < 64) : update s [] = s := by
  rw [update_spec s [] hs]
  simp [blocks_lt _ _ hs]

theorem foldl_update (cs : List Bytes) (s : Ctx) (hs : s.buf.length < 64) :
    cs.foldl update s = update s cs.flatten := by
  induction cs generalizing s with
  | nil => simp [update_nil s hs]
  | cons c cs ih =>
    simp only [List.foldl_cons, List.flatten_cons]
    rw [ih _ (update_buf_lt s c hs), update_update s c _ hs]

theorem chunksOf_flatten (n : Nat) (hn : 0 < n) (m : Bytes) : (chunksOf n m).flatten = m := by
  induction m using chunksOf.induct n with
  | case1 m h =>
    rw [chunksOf]
    rcases h with h | h
    · omega
    · have hm : m = [] := List.eq_nil_of_length_eq_zero h
      simp [hm]
  | case2 m h ih =>
    have hm : m ≠ [] := by
      intro hm; apply h; right; simp [hm]
    have hn0 : n ≠ 0 := by omega
    rw [chunksOf]
    simp only [List.length_eq_zero_iff, hn0, hm, or_self, ↓reduceDIte, List.flatten_cons, ih,
      List.take_append_drop]

theorem update_wf (s : Ctx) (inp : Bytes) (hs : WF s) : WF (update s inp) := by
  have hlt : s.buf.length < 64 := by unfold WF at hs; omega
  rw [update_spec s inp hlt]
  unfold WF at *
  simp only [blocks_rest_len, List.length_append]
  omega

theorem init_wf : WF init := by simp [WF, init]

end Xmp.Md5
