import XmpModel.Container
/-!
Helper lemmas for C08: MD5 buffering (`src/md5.c`) — the buffered `MD5Update` is the block fold
over the concatenated input.  (Container lemmas follow below.)
-/
namespace Xmp.Md5
open Xmp

theorem blocks_lt (h : H) (d : Bytes) (hd : d.length < 64) : blocks h d = (h, d) := by
  rw [blocks]; simp [hd]

theorem blocks_ge (h : H) (d : Bytes) (hd : 64 ≤ d.length) :
    blocks h d = blocks (transform h (d.take 64)) (d.drop 64) := by
  rw [blocks]; simp [Nat.not_lt.mpr hd]

theorem blocks_append (h : H) (x y : Bytes) :
    blocks (blocks h x).1 ((blocks h x).2 ++ y) = blocks h (x ++ y) := by
  induction h, x using blocks.induct with
  | case1 h x hlt => rw [blocks_lt h x hlt]
  | case2 h x hge ih =>
    have hge' : 64 ≤ x.length := Nat.le_of_not_lt hge
    rw [blocks_ge h x hge', ih, blocks_ge h (x ++ y) (by simp; omega)]
    rw [List.take_append_of_le_length hge', List.drop_append_of_le_length hge']

theorem blocks_rest_len (h : H) (x : Bytes) : (blocks h x).2.length = x.length % 64 := by
  induction h, x using blocks.induct with
  | case1 h x hlt => rw [blocks_lt h x hlt]; simp; omega
  | case2 h x hge ih =>
    have hge' : 64 ≤ x.length := Nat.le_of_not_lt hge
    rw [blocks_ge h x hge', ih]; simp [List.length_drop]; omega

theorem blocks_rest_lt (h : H) (x : Bytes) : (blocks h x).2.length < 64 := by
  rw [blocks_rest_len]; omega

/-- `MD5Update` = continue the block fold over (buffered bytes ++ input) -/
theorem update_spec (s : Ctx) (inp : Bytes) (hs : s.buf.length < 64) :
    update s inp = { h := (blocks s.h (s.buf ++ inp)).1, count := s.count + 8 * inp.length,
                     buf := (blocks s.h (s.buf ++ inp)).2 } := by
  unfold update
  by_cases hlen : inp.length ≥ 64 - s.buf.length
  · by_cases hv : s.buf.length ≠ 0
    · have h64 : 64 ≤ (s.buf ++ inp).length := by simp; omega
      have ht : (s.buf ++ inp).take 64 = s.buf ++ inp.take (64 - s.buf.length) := by
        rw [List.take_append]; rw [List.take_of_length_le (by omega)]
      have hd : (s.buf ++ inp).drop 64 = inp.drop (64 - s.buf.length) := by
        rw [List.drop_append]; rw [List.drop_of_length_le (by omega)]; simp
      simp only [hlen, hv, if_true, ne_eq, not_false_eq_true]
      rw [blocks_ge _ _ h64, ht, hd]
    · have h0 : s.buf = [] := by
        have : s.buf.length = 0 := by omega
        exact List.eq_nil_of_length_eq_zero this
      have hl : ¬ inp.length < 64 := by rw [h0] at hlen; simp at hlen; omega
      simp [h0]
      intro h; exact absurd h hl
  · have hl : (s.buf ++ inp).length < 64 := by simp; omega
    simp only [hlen, if_false]
    rw [blocks_lt _ _ hl]

theorem update_buf_lt (s : Ctx) (inp : Bytes) (hs : s.buf.length < 64) : (update s inp).buf.length < 64 := by
  rw [update_spec s inp hs]; exact blocks_rest_lt _ _

theorem update_update (s : Ctx) (a b : Bytes) (hs : s.buf.length < 64) :
    update (update s a) b = update s (a ++ b) := by
  rw [update_spec (update s a) b (update_buf_lt s a hs), update_spec s a hs, update_spec s (a ++ b) hs]
  simp only [blocks_append, List.append_assoc, List.length_append]
  congr 1
  omega

theorem update_nil (s : Ctx) (hs : s.buf.length < 64) : update s [] = s := by
  rw [update_spec s [] hs]
  simp [blocks_lt _ _ hs]

theorem foldl_update (cs : List Bytes) (s : Ctx) (hs : s.buf.length < 64) :
    cs.foldl update s = update s cs.flatten := by
  induction cs generalizing s with
  | nil => simp [update_nil s hs]
  | cons c cs ih =>
    simp only [List.foldl_cons, List.flatten_cons]
    rw [ih _ (update_buf_lt s c hs), update_update s c _ hs]

theorem chunksOf_flatten (n : Nat) (hn : 0 < n) (m : Bytes) : (chunksOf n m).flatten = m := by
  induction m using chunksOf.induct n with
  | case1 m h =>
    rw [chunksOf]
    rcases h with h | h
    · omega
    · have hm : m = [] := List.eq_nil_of_length_eq_zero h
      simp [hm]
  | case2 m h ih =>
    have hm : m ≠ [] := by
      intro hm; apply h; right; simp [hm]
    have hn0 : n ≠ 0 := by omega
    rw [chunksOf]
    simp only [List.length_eq_zero_iff, hn0, hm, or_self, ↓reduceDIte, List.flatten_cons, ih,
      List.take_append_drop]

theorem update_wf (s : Ctx) (inp : Bytes) (hs : WF s) : WF (update s inp) := by
  have hlt : s.buf.length < 64 := by unfold WF at hs; omega
  rw [update_spec s inp hlt]
  unfold WF at *
  simp only [blocks_rest_len, List.length_append]
  omega

theorem init_wf : WF init := by simp [WF, init]

theorem update_init_count (m : Bytes) : (update init m).count = 8 * m.length := by
  rw [update_spec init m (by simp [init])]; simp [init]

/-- the buffered implementation computes the RFC 1321 style definition -/
theorem md5_eq_spec (m : Bytes) : md5 m = spec m := by
  unfold md5 final pad spec specPadded
  have hb : (update init m).buf.length < 64 := update_buf_lt init m (by simp [init])
  rw [update_update _ _ _ hb, update_update init m _ (by simp [init]), update_init_count]
  rw [update_spec init _ (by simp [init])]
  have hk : (if 64 - 8 * m.length / 8 % 64 < 1 + 8 then 64 - 8 * m.length / 8 % 64 + 64 else 64 - 8 * m.length / 8 % 64) - 8
      = (if m.length % 64 < 56 then 56 - m.length % 64 else 120 - m.length % 64) := by
    have : 8 * m.length / 8 = m.length := by omega
    rw [this]
    split <;> split <;> omega
  simp only [hk, init, List.nil_append, List.append_assoc]

end Xmp.Md5

namespace Xmp.Container
open Xmp Xmp.Gen.Depackers

/-! ## gzip framing -/


def mkFlg (t h e n c : Bool) (r : Nat) : Nat :=
  (if t then gzFTEXT else 0) + (if h then gzFHCRC else 0) + (if e then gzFEXTRA else 0) +
  (if n then gzFNAME else 0) + (if c then gzFCOMMENT else 0) + 32 * (r % 8)

theorem flg_bits : ∀ (t h e n c : Bool) (r : Fin 8),
    hasFlag (UInt8.ofNat (mkFlg t h e n c r.val)) gzFEXTRA = e ∧
    hasFlag (UInt8.ofNat (mkFlg t h e n c r.val)) gzFNAME = n ∧
    hasFlag (UInt8.ofNat (mkFlg t h e n c r.val)) gzFCOMMENT = c ∧
    hasFlag (UInt8.ofNat (mkFlg t h e n c r.val)) gzFHCRC = h := by decide

theorem flg_eq (o : GzOpts) :
    o.flg = mkFlg o.ftext o.hcrc.isSome o.extra.isSome o.name.isSome o.comment.isSome (o.reserved % 8) := by
  simp [GzOpts.flg, mkFlg]

theorem flg_bits' (o : GzOpts) :
    hasFlag (UInt8.ofNat o.flg) gzFEXTRA = o.extra.isSome ∧
    hasFlag (UInt8.ofNat o.flg) gzFNAME = o.name.isSome ∧
    hasFlag (UInt8.ofNat o.flg) gzFCOMMENT = o.comment.isSome ∧
    hasFlag (UInt8.ofNat o.flg) gzFHCRC = o.hcrc.isSome := by
  rw [flg_eq]
  exact flg_bits o.ftext o.hcrc.isSome o.extra.isSome o.name.isSome o.comment.isSome ⟨o.reserved % 8, by omega⟩

theorem skipZ_append (n rest : Bytes) (hn : noNul n) : skipZ (n ++ 0 :: rest) = some rest := by
  induction n with
  | nil => simp [skipZ]
  | cons c n ih =>
    have hc : c ≠ 0 := hn c (by simp)
    have hn' : noNul n := fun x hx => hn x (by simp [hx])
    simp [skipZ, hc, ih hn']

theorem u16le_le16 (n : Nat) (h : n < 65536) :
    u16le (UInt8.ofNat (n % 256)) (UInt8.ofNat (n / 256 % 256)) = n := by
  simp [u16le, UInt8.toNat_ofNat']
  omega

theorem u32At_le32 (n : Nat) (h : n < 2^32) (r : Bytes) : u32At (le32 n ++ r) 0 = n := by
  simp [u32At, le32, u32le, UInt8.toNat_ofNat']
  omega

theorem u32At_le32_4 (m n : Nat) (h : n < 2^32) (r : Bytes) : u32At (le32 m ++ (le32 n ++ r)) 4 = n := by
  simp [u32At, le32, u32le, UInt8.toNat_ofNat']
  omega

/-- the header parser skips exactly the header, for every legal option combination -/
theorem gzipBody_header (o : GzOpts) (ho : o.Legal) (rest : Bytes) :
    gzipBody (gzipHeader o ++ rest) = some rest := by
  obtain ⟨hE, hN, hC, hH⟩ := flg_bits' o
  obtain ⟨lE, lN, lC⟩ := ho
  unfold gzipBody gzipHeader
  simp only [le32, List.cons_append, List.nil_append, List.append_assoc]
  simp only [hE, hN, hC, hH, ne_eq, not_true_eq_false, if_false]
  have e1 : ∀ X : Bytes, (if o.extra.isSome = true then
       gzSkipExtra (optField o.extra (fun e => le16 e.length ++ e) ++ X)
     else some (optField o.extra (fun e => le16 e.length ++ e) ++ X)) = some X := by
    intro X
    rcases hx : o.extra with _ | e
    · simp [optField]
    · have := lE e hx
      simp [optField, le16, gzSkipExtra, u16le_le16 _ this]
  have e2 : ∀ X : Bytes, (if o.name.isSome = true then skipZ (optField o.name (fun n => n ++ [0]) ++ X)
      else some (optField o.name (fun n => n ++ [0]) ++ X)) = some X := by
    intro X
    rcases hx : o.name with _ | n
    · simp [optField]
    · simp [optField, skipZ_append n X (lN n hx)]
  have e3 : ∀ X : Bytes, (if o.comment.isSome = true then skipZ (optField o.comment (fun n => n ++ [0]) ++ X)
      else some (optField o.comment (fun n => n ++ [0]) ++ X)) = some X := by
    intro X
    rcases hx : o.comment with _ | n
    · simp [optField]
    · simp [optField, skipZ_append n X (lC n hx)]
  have e4 : ∀ X : Bytes, (if o.hcrc.isSome = true then gzSkip2 (hcrcField o.hcrc ++ X)
      else some (hcrcField o.hcrc ++ X)) = some X := by
    intro X
    rcases hx : o.hcrc with _ | ⟨a, b⟩
    · simp [hcrcField]
    · simp [hcrcField, gzSkip2]
  rw [e1]
  simp only [bind, Option.bind]
  rw [e2]
  simp only []
  rw [e3]
  simp only []
  rw [e4]

theorem u32At_le32_4' (m n : Nat) (h : n < 2^32) : u32At (le32 m ++ le32 n) 4 = n := by
  simp [u32At, le32, u32le, UInt8.toNat_ofNat']
  omega

theorem le32_length (n : Nat) : (le32 n).length = 4 := rfl

theorem gunzip_wrap (crc : Bytes → UInt32) (dec : Bytes → Option Bytes) (o : GzOpts) (cdata p : Bytes)
    (ho : o.Legal) (hp : p.length < 2^31) :
    gunzip crc dec (gzipWrap crc o cdata p) =
      (match dec cdata with
       | none => none
       | some out => if crc out = crc p ∧ out.length = p.length then some out else none) := by
  unfold gunzip gzipWrap
  rw [List.append_assoc, List.append_assoc, gzipBody_header o ho]
  have hl : (cdata ++ (le32 (crc p).toNat ++ le32 p.length)).length - 8 = cdata.length := by
    simp [le32_length]
  have hn : ¬ (cdata ++ (le32 (crc p).toNat ++ le32 p.length)).length < 8 := by
    simp [le32_length]
  simp only [hn, if_false, hl, List.take_left', List.drop_left']
  rcases dec cdata with _ | out
  · rfl
  · have hc : (crc p).toNat < 2^32 := (crc p).toNat_lt
    simp only [gzipGate, u32At_le32 _ hc, u32At_le32_4' _ _ (by omega : p.length < 2^32)]
    by_cases h1 : crc out = crc p
    · by_cases h2 : out.length = p.length
      · simp [h1, h2, hp]
      · have : ¬ p.length = out.length := fun h => h2 h.symm
        simp [h1, h2, this]
    · have : ¬ (crc p).toNat = (crc out).toNat := fun h => h1 (UInt32.toNat_inj.mp h.symm)
      simp [h1, this]

theorem gzipStream_wrap (crc : Bytes → UInt32) (o : GzOpts) (cdata p : Bytes) (ho : o.Legal) :
    gzipStream (gzipWrap crc o cdata p) = some ((gzipHeader o).length, cdata.length) := by
  unfold gzipStream gzipWrap
  rw [List.append_assoc, List.append_assoc, gzipBody_header o ho]
  simp [le32_length]

theorem bAt_sniff (f : Bytes) (i : Nat) (h : i < sniffSize) : bAt (sniff f) i = bAt f i := by
  unfold bAt sniff
  simp [List.getD_eq_getElem?_getD, h]

theorem dispatch_gzip (crc : Bytes → UInt32) (o : GzOpts) (cdata p : Bytes)
    (hlen : minHeaderSize ≤ (gzipWrap crc o cdata p).length) :
    dispatch (gzipWrap crc o cdata p) = some "gzip" := by
  have h0 : bAt (sniff (gzipWrap crc o cdata p)) 0 = 31 := by
    rw [bAt_sniff _ _ (by decide)]; simp [bAt, gzipWrap, gzipHeader]
  have h1 : bAt (sniff (gzipWrap crc o cdata p)) 1 = 139 := by
    rw [bAt_sniff _ _ (by decide)]; simp [bAt, gzipWrap, gzipHeader]
  have h2 : bAt (sniff (gzipWrap crc o cdata p)) 2 = 8 := by
    rw [bAt_sniff _ _ (by decide)]; simp [bAt, gzipWrap, gzipHeader]
  have hs : ¬ (sniff (gzipWrap crc o cdata p)).length < minHeaderSize := by
    have hm : minHeaderSize ≤ sniffSize := by decide
    unfold sniff; simp only [List.length_take]; omega
  unfold dispatch
  simp only [hs, if_false]
  simp [depackerList, List.find?, evalMagic, h0, h1, h2]

/-! ## RLE90 and member selection -/


def Tok.outLen : Tok → Nat
  | .lit _ => 1
  | .lit90 => 1
  | .rep n => n.toNat - 1

def outLen (ts : List Tok) : Nat := (ts.map Tok.outLen).sum

theorem expandGo_length (ts : List Tok) (acc : Bytes) (last : UInt8) :
    (expandGo ts acc last).length = acc.length + outLen ts := by
  induction ts generalizing acc last with
  | nil => simp [expandGo, outLen]
  | cons t ts ih =>
    cases t <;> simp [expandGo, ih, outLen, Tok.outLen] <;> omega

theorem unrle90Go_render (ts : List Tok) (room : Nat) (acc : Bytes) (last : UInt8) (blk : Bool)
    (hok : ∀ t ∈ ts, t.Ok) (hroom : outLen ts ≤ room) :
    unrle90Go (render ts) room acc last false blk = some (room - outLen ts, expandGo ts acc last) := by
  induction ts generalizing room acc last blk with
  | nil => simp [render, unrle90Go, expandGo, outLen]
  | cons t ts ih =>
    have hok' : ∀ t ∈ ts, t.Ok := fun t ht => hok t (by simp [ht])
    have ht : t.Ok := hok t (by simp)
    cases t with
    | lit b =>
      have hb : b ≠ 0x90 := ht
      have hr : outLen ts + 1 ≤ room := by simpa [outLen, Tok.outLen, Nat.add_comm] using hroom
      have hpos : room > 0 := by omega
      have := ih (room - 1) (b :: acc) b true hok' (by omega)
      simp only [render, List.flatMap_cons, Tok.render, List.cons_append, List.nil_append] at this ⊢
      simp only [unrle90Go, hb, if_false, hpos, if_true, expandGo]
      rw [this]; simp [outLen, Tok.outLen]; omega
    | lit90 =>
      have hr : outLen ts + 1 ≤ room := by simpa [outLen, Tok.outLen, Nat.add_comm] using hroom
      have hpos : ¬ room = 0 := by omega
      have := ih (room - 1) (0x90 :: acc) 0x90 false hok' (by omega)
      simp only [render, List.flatMap_cons, Tok.render, List.cons_append, List.nil_append] at this ⊢
      simp only [unrle90Go, if_true, hpos, if_false, expandGo]
      rw [this]; simp [outLen, Tok.outLen]; omega
    | rep n =>
      have hn : n ≠ 0 := ht
      have hr : outLen ts + (n.toNat - 1) ≤ room := by simpa [outLen, Tok.outLen, Nat.add_comm] using hroom
      have hle : ¬ n.toNat - 1 > room := by omega
      have := ih (room - (n.toNat - 1)) (List.replicate (n.toNat - 1) last ++ acc) last false hok' (by omega)
      simp only [render, List.flatMap_cons, Tok.render, List.cons_append, List.nil_append] at this ⊢
      simp only [unrle90Go, if_true, hn, if_false, hle, expandGo]
      rw [this]; simp [outLen, Tok.outLen]; omega

/-- RLE90: decoding any well-formed token stream into a buffer of exactly the right size yields its meaning -/
theorem unrle90_render (ts : List Tok) (hok : ∀ t ∈ ts, t.Ok) :
    unrle90 (expand ts).length (render ts) = some (expand ts) := by
  have hl : (expand ts).length = outLen ts := by
    simp [expand, expandGo_length]
  unfold unrle90
  rw [hl, unrle90Go_render ts (outLen ts) [] 0 false hok (Nat.le_refl _)]
  simp [expand]

def Skipped (m : Member) : Prop := m.isDir = true ∨ m.supported = false ∨ excludeMatch m.name = true

theorem selectMember_skip (pre post : List Member) (m : Member)
    (hpre : ∀ x ∈ pre, Skipped x) (hm : ¬ Skipped m) :
    selectMember (pre ++ m :: post) = some m := by
  unfold selectMember
  induction pre with
  | nil =>
    simp only [List.nil_append, List.find?_cons]
    unfold Skipped at hm
    have : (!m.isDir && m.supported && !excludeMatch m.name) = true := by
      cases h1 : m.isDir <;> cases h2 : m.supported <;> cases h3 : excludeMatch m.name <;> simp_all
    simp [this]
  | cons x pre ih =>
    have hx : Skipped x := hpre x (by simp)
    have : (!x.isDir && x.supported && !excludeMatch x.name) = false := by
      unfold Skipped at hx
      cases h1 : x.isDir <;> cases h2 : x.supported <;> cases h3 : excludeMatch x.name <;> simp_all
    simp only [List.cons_append, List.find?_cons, this]
    exact ih (fun y hy => hpre y (by simp [hy]))

/-! ## exclude globs on full member paths (`fnmatch` flags 0: `*` also matches '/') -/

theorem anySuffix_append (f : Bytes → Bool) (pre s : Bytes) (h : anySuffix f s = true) :
    anySuffix f (pre ++ s) = true := by
  induction pre with
  | nil => exact h
  | cons c t ih => simp [anySuffix, ih]

/-- a pattern that starts with `*` accepts a name behind any prefix -/
theorem globFn_star_prefix (g pre name : Bytes) (h : globFn (cStar :: g) name = true) :
    globFn (cStar :: g) (pre ++ name) = true := by
  cases g with
  | nil => simp [globFn]
  | cons c2 p =>
    simp only [globFn, if_true] at h ⊢
    exact anySuffix_append _ pre name h

/-! ## exclusivity of the signature tests -/

/-- byte constraints implied by a signature test -/
def memReqs (off : Nat) : List Nat → List (Nat × Nat)
  | [] => []
  | v :: vs => (off, v) :: memReqs (off + 1) vs

def reqs : Magic → List (Nat × Nat)
  | .byteEq o v => [(o, v)]
  | .memEq o vs => memReqs o vs
  | .and a b => reqs a ++ reqs b
  | .arcTest => [(0, 0x1a)]
  | _ => []

theorem memReqs_sound (b : Bytes) (off : Nat) (vs : List Nat) (h : memEqAt b off vs = true) :
    ∀ p ∈ memReqs off vs, bAt b p.1 = p.2 := by
  induction vs generalizing off with
  | nil => intro p hp; simp [memReqs] at hp
  | cons v vs ih =>
    simp only [memEqAt, Bool.and_eq_true, beq_iff_eq] at h
    intro p hp
    simp only [memReqs, List.mem_cons] at hp
    rcases hp with hp | hp
    · subst hp; exact h.1
    · exact ih (off + 1) h.2 p hp

theorem reqs_sound (m : Magic) (b : Bytes) (h : evalMagic m b = true) : ∀ p ∈ reqs m, bAt b p.1 = p.2 := by
  induction m with
  | byteEq o v => intro p hp; simp [reqs] at hp; subst hp; simpa [evalMagic] using h
  | memEq o vs => exact memReqs_sound b o vs (by simpa [evalMagic] using h)
  | and a c iha ihc =>
    simp only [evalMagic, Bool.and_eq_true] at h
    intro p hp
    simp only [reqs, List.mem_append] at hp
    rcases hp with hp | hp
    · exact iha h.1 p hp
    · exact ihc h.2 p hp
  | arcTest =>
    intro p hp; simp [reqs] at hp; subst hp
    simp only [evalMagic, arcTest, Bool.and_eq_true, beq_iff_eq] at h
    exact h.1.1
  | _ => intro p hp; simp [reqs] at hp

def conflict (r1 r2 : List (Nat × Nat)) : Bool :=
  r1.any fun p => r2.any fun q => p.1 == q.1 && p.2 != q.2

theorem conflict_excl (m1 m2 : Magic) (b : Bytes) (hc : conflict (reqs m1) (reqs m2) = true)
    (h1 : evalMagic m1 b = true) : evalMagic m2 b = false := by
  cases h2 : evalMagic m2 b with
  | false => rfl
  | true =>
    simp only [conflict, List.any_eq_true, Bool.and_eq_true, beq_iff_eq, bne_iff_ne] at hc
    obtain ⟨p, hp, q, hq, hpq, hne⟩ := hc
    have e1 := reqs_sound m1 b h1 p hp
    have e2 := reqs_sound m2 b h2 q hq
    rw [hpq] at e1
    exact absurd (e1.symm.trans e2) hne

/-- all signature tests except LHA's (which looks at bytes 2..6 and 20 only) are pairwise exclusive:
    the dispatch order matters for LHA alone -/
def nonLha : List (String × String × Magic) := depackerList.filter (fun e => e.1 != "lha")

theorem tests_pairwise_exclusive :
    ∀ e1 ∈ nonLha, ∀ e2 ∈ nonLha, e1.1 ≠ e2.1 → conflict (reqs e1.2.2) (reqs e2.2.2) = true := by decide


theorem names_unique : ∀ e1 ∈ depackerList, ∀ e2 ∈ depackerList, e1.1 = e2.1 → e1 = e2 := by decide

theorem find?_unique {α : Type} (p : α → Bool) (l : List α) (e : α) (he : e ∈ l) (hp : p e = true)
    (hu : ∀ x ∈ l, p x = true → x = e) : l.find? p = some e := by
  induction l with
  | nil => simp at he
  | cons x l ih =>
    by_cases hx : p x = true
    · have : x = e := hu x (by simp) hx
      subst this
      simp [hx]
    · have hne : x ≠ e := fun h => hx (h ▸ hp)
      have he' : e ∈ l := by
        rcases List.mem_cons.mp he with h | h
        · exact absurd h.symm hne
        · exact h
      simp only [List.find?_cons, hx]
      exact ih he' (fun y hy => hu y (by simp [hy]))

end Xmp.Container
