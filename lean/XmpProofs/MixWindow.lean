import XmpModel.MixWindow
/-! Helper lemmas for the mixer sample-window bound (C01, C02). Core Lean only. -/
namespace Xmp.MixWindow

theorem S_pos : (0 : Int) < S := by decide

/-- cancel a positive common factor from a strict inequality -/
theorem lt_of_mul_lt_mul_pos {a b d : Int} (hd : 0 < d) (h : a * d < b * d) : a < b :=
  Int.lt_of_mul_lt_mul_right h (Int.le_of_lt hd)

theorem idx_le_of_lt {x e : Int} (h : x < (e + 1) * S) : x / S ≤ e := by
  have hS := S_pos
  have : x / S < e + 1 := (Int.ediv_lt_iff_lt_mul hS).mpr h
  omega

theorem le_idx_of_le {x e : Int} (h : e * S ≤ x) : e ≤ x / S := by
  have hS := S_pos
  exact (Int.le_ediv_iff_mul_le hS).mpr h

/-- **Forward walk, upper bound.**  `pos = pn/D`, `step = sn/D ≥ 0`;
`q0 ≤ 2¹⁶·pos + r` (`r` = rounding offset, 0 or 2¹⁵), `stepfix ≤ 2¹⁶·step`;
`samples` satisfies `(samples − 1)·step < end − pos` (what `ceil` guarantees);
then for every iteration `i < samples` the fixed-point position stays below
`end·2¹⁶ + r`. -/
theorem forward_lt (D pn sn q0 stepfix e r : Int) (samples i : Nat)
    (hD : 0 < D) (hsn : 0 ≤ sn)
    (hq0 : q0 * D ≤ S * pn + r * D) (hstep : stepfix * D ≤ S * sn)
    (hi : i < samples) (hceil : ((samples : Int) - 1) * sn < e * D - pn) :
    q q0 stepfix i < e * S + r := by
  apply lt_of_mul_lt_mul_pos hD
  unfold q
  have hS := S_pos
  have hi' : (i : Int) ≤ (samples : Int) - 1 := by omega
  have hi0 : (0 : Int) ≤ (i : Int) := by omega
  -- i * (stepfix * D) ≤ i * (S * sn)
  have h1 : (i : Int) * (stepfix * D) ≤ (i : Int) * (S * sn) := Int.mul_le_mul_of_nonneg_left hstep hi0
  -- i * sn ≤ (samples - 1) * sn
  have h2 : (i : Int) * sn ≤ ((samples : Int) - 1) * sn := Int.mul_le_mul_of_nonneg_right hi' hsn
  -- S * (i * sn) ≤ S * ((samples-1) * sn)
  have h3 : S * ((i : Int) * sn) ≤ S * (((samples : Int) - 1) * sn) :=
    Int.mul_le_mul_of_nonneg_left h2 (Int.le_of_lt hS)
  -- S * ((samples-1)*sn) < S * (e*D - pn)
  have h4 : S * (((samples : Int) - 1) * sn) < S * (e * D - pn) := Int.mul_lt_mul_of_pos_left hceil hS
  have e1 : (q0 + (i : Int) * stepfix) * D = q0 * D + (i : Int) * (stepfix * D) := by
    rw [Int.add_mul, Int.mul_assoc]
  have e2 : (i : Int) * (S * sn) = S * ((i : Int) * sn) := by
    rw [Int.mul_left_comm]
  have e3 : (e * S + r) * D = S * (e * D - pn) + S * pn + r * D := by
    rw [Int.add_mul, Int.mul_sub, Int.mul_assoc, Int.mul_left_comm e S D]
    omega
  rw [e1, e3]
  rw [e2] at h1
  omega

/-- **Forward walk, lower bound**: positions never decrease. -/
theorem forward_ge (q0 stepfix : Int) (i : Nat) (hs : 0 ≤ stepfix) : q0 ≤ q q0 stepfix i := by
  unfold q
  have : (0 : Int) ≤ (i : Int) * stepfix := Int.mul_nonneg (by omega) hs
  omega

/-- **Reverse walk, lower bound.**  `stepfix ≤ 0` with `−stepfix ≤ 2¹⁶·step`
(truncation toward zero), `q0 > 2¹⁶·pos − 1` (floor), and
`(samples − 1)·step < pos − start`: every position stays at or above `start·2¹⁶`. -/
theorem reverse_ge (D pn sn q0 stepfix st : Int) (samples i : Nat)
    (hD : 0 < D) (hsn : 0 ≤ sn)
    (hq0 : S * pn - D < q0 * D) (hstep : - (S * sn) ≤ stepfix * D)
    (hi : i < samples) (hceil : ((samples : Int) - 1) * sn < pn - st * D) :
    st * S ≤ q q0 stepfix i := by
  have hS := S_pos
  have hi' : (i : Int) ≤ (samples : Int) - 1 := by omega
  have hi0 : (0 : Int) ≤ (i : Int) := by omega
  have h1 : (i : Int) * (-(S * sn)) ≤ (i : Int) * (stepfix * D) := Int.mul_le_mul_of_nonneg_left hstep hi0
  have h2 : (i : Int) * sn ≤ ((samples : Int) - 1) * sn := Int.mul_le_mul_of_nonneg_right hi' hsn
  have h3 : S * ((i : Int) * sn) ≤ S * (((samples : Int) - 1) * sn) :=
    Int.mul_le_mul_of_nonneg_left h2 (Int.le_of_lt hS)
  -- (samples-1)*sn ≤ pn - st*D - 1, hence S * … ≤ S*(pn - st*D) - S
  have h4' : ((samples : Int) - 1) * sn ≤ pn - st * D - 1 := by omega
  have h4 : S * (((samples : Int) - 1) * sn) ≤ S * (pn - st * D - 1) :=
    Int.mul_le_mul_of_nonneg_left h4' (Int.le_of_lt hS)
  have e2 : (i : Int) * (-(S * sn)) = - (S * ((i : Int) * sn)) := by
    rw [Int.mul_neg, Int.mul_left_comm]
  have e4 : S * (pn - st * D - 1) = S * pn - st * S * D - S := by
    rw [Int.mul_sub, Int.mul_sub, Int.mul_one, Int.mul_left_comm S st D, ← Int.mul_assoc st S D]
  -- (q_i) * D > (st*S - 1) * D
  have key : (st * S - 1) * D < (q q0 stepfix i) * D := by
    unfold q
    have e1 : (q0 + (i : Int) * stepfix) * D = q0 * D + (i : Int) * (stepfix * D) := by
      rw [Int.add_mul, Int.mul_assoc]
    have e5 : (st * S - 1) * D = st * S * D - D := by rw [Int.sub_mul, Int.one_mul]
    rw [e1, e5]
    rw [e2] at h1
    rw [e4] at h4
    have : S ≥ 1 := by decide
    omega
  have := lt_of_mul_lt_mul_pos hD key
  omega

/-- **Reverse walk, upper bound**: positions never increase. -/
theorem reverse_le (q0 stepfix : Int) (i : Nat) (hs : stepfix ≤ 0) : q q0 stepfix i ≤ q0 := by
  unfold q
  have : (i : Int) * stepfix ≤ 0 := Int.mul_nonpos_of_nonneg_of_nonpos (by omega) hs
  omega

end Xmp.MixWindow
