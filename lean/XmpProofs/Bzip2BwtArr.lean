import XmpModel.Bzip2
import XmpProofs.Bzip2Bwt
/-!
# bzip2: `burrows_wheeler_prep` (cumulative counts + linked list in `dbuf[]`) computes the permutation `order`

Part D of the inverse-BWT proof: the array code of the model (`byteCounts`, `cumulate`, `bwFill`, `bwChase`)
against the list-level definitions of `XmpProofs.Bzip2Bwt`.
-/
namespace Xmp.Bzip2
open Xmp

theorem modify_getD (A : Array Nat) (i j : Nat) (f : Nat → Nat) :
    (A.modify i f).getD j 0 = if i = j ∧ j < A.size then f (A.getD j 0) else A.getD j 0 := by
  rw [Array.getD_eq_getD_getElem?, Array.getD_eq_getD_getElem?, Array.getElem?_modify]
  by_cases h : i = j
  · subst h
    by_cases h2 : i < A.size
    · simp [h2]
    · simp [h2]
  · simp [h]

/-! ## counts and cumulative counts -/

/-- occurrences of byte value `c` -/
def K (L : List UInt8) (c : Nat) : Nat := (L.filter (fun b => b.toNat == c)).length

theorem foldl_counts : ∀ (l : List UInt8) (A : Array Nat), A.size = 256 →
    (l.foldl (fun c b => c.modify b.toNat (· + 1)) A).size = 256 ∧
      ∀ c, c < 256 → (l.foldl (fun c b => c.modify b.toNat (· + 1)) A).getD c 0 = A.getD c 0 + K l c
  | [], A, h => ⟨h, fun c _ => by simp [K]⟩
  | b :: t, A, h => by
    have ih := foldl_counts t (A.modify b.toNat (· + 1)) (by simpa using h)
    refine ⟨ih.1, fun c hc => ?_⟩
    rw [List.foldl_cons, ih.2 c hc, modify_getD]
    unfold K
    rw [List.filter_cons]
    by_cases e : b.toNat = c
    · simp [e, h, hc]; omega
    · have : (b.toNat == c) = false := by simpa using e
      simp [e, this]

theorem byteCounts_spec (d : Array UInt8) :
    (byteCounts d).size = 256 ∧ ∀ c, c < 256 → (byteCounts d).getD c 0 = K d.toList c := by
  unfold byteCounts
  rw [← Array.foldl_toList]
  have := foldl_counts d.toList (Array.replicate 256 0) (by simp)
  refine ⟨this.1, fun c hc => ?_⟩
  rw [this.2 c hc]
  simp [Array.getD_eq_getD_getElem?, hc]

def prefixSums : Nat → List Nat → List Nat
  | _, [] => []
  | s, k :: t => s :: prefixSums (s + k) t

theorem prefixSums_getD : ∀ (l : List Nat) (s c : Nat), c < l.length → (prefixSums s l).getD c 0 = s + (l.take c).sum
  | [], _, _, h => by simp at h
  | k :: t, s, 0, _ => by simp [prefixSums]
  | k :: t, s, c + 1, h => by
    simp only [prefixSums, List.getD_cons_succ, List.take_succ_cons, List.sum_cons]
    rw [prefixSums_getD t (s + k) c (by simpa using h)]; omega

theorem foldl_prefix : ∀ (l : List Nat) (acc : Array Nat) (s : Nat),
    (l.foldl (fun (p : Array Nat × Nat) k => (p.1.push p.2, p.2 + k)) (acc, s)).1.toList = acc.toList ++ prefixSums s l
  | [], acc, s => by simp [prefixSums]
  | k :: t, acc, s => by
    rw [List.foldl_cons, foldl_prefix t]
    simp [prefixSums]

theorem cumulate_getD (C : Array Nat) (c : Nat) (hc : c < C.size) :
    (cumulate C).getD c 0 = (C.toList.take c).sum := by
  unfold cumulate
  rw [← Array.foldl_toList]
  have h := foldl_prefix C.toList #[] 0
  rw [Array.getD_eq_getD_getElem?, ← Array.getElem?_toList, h]
  simp only [List.nil_append]
  have := prefixSums_getD C.toList 0 c (by simpa using hc)
  rw [List.getD_eq_getElem?_getD] at this
  rw [this]; omega

/-- start of the slots of byte value `c` -/
def offs (L : List UInt8) (c : Nat) : Nat := ((List.range c).map (K L)).sum

theorem cumulate_byteCounts (d : Array UInt8) (c : Nat) (hc : c < 256) :
    (cumulate (byteCounts d)).getD c 0 = offs d.toList c := by
  obtain ⟨hs, hv⟩ := byteCounts_spec d
  rw [cumulate_getD _ c (by omega)]
  have hl : (byteCounts d).toList = (List.range 256).map (K d.toList) := by
    apply List.ext_getElem
    · simp [hs]
    · intro i h1 h2
      have hi : i < 256 := by simpa [hs] using h1
      have := hv i hi
      rw [Array.getD_eq_getD_getElem?, Array.getElem?_eq_getElem (by omega)] at this
      simp only [Option.getD_some] at this
      simp [← this]
  rw [hl, ← List.map_take, List.take_range]
  unfold offs
  have : min c 256 = c := by omega
  rw [this]

/-! ## the slots of `order` -/

/-- indices holding byte value `c`, increasing -/
def bucket (L : List UInt8) (c : Nat) : List Nat :=
  (List.range L.length).filter (fun i => (L.getD i 0).toNat == c)

theorem order_eq (L : List UInt8) : order L = (List.range 256).flatMap (bucket L) := rfl

/-- number of `c` among the first `i` bytes -/
def cntUpTo (L : List UInt8) (c i : Nat) : Nat :=
  ((List.range i).filter (fun k => (L.getD k 0).toNat == c)).length

theorem cntUpTo_succ (L : List UInt8) (c i : Nat) :
    cntUpTo L c (i + 1) = cntUpTo L c i + (if (L.getD i 0).toNat = c then 1 else 0) := by
  unfold cntUpTo
  rw [List.range_succ, List.filter_append, List.length_append]
  congr 1
  rw [List.filter_cons, List.filter_nil]
  by_cases h : (L.getD i 0).toNat = c
  · rw [if_pos h, if_pos (by simpa using h)]; rfl
  · rw [if_neg h, if_neg (by simpa using h)]; rfl

theorem bucket_length (L : List UInt8) (c : Nat) : (bucket L c).length = K L c := by
  unfold bucket K
  conv => rhs; rw [← map_range_getD L 0]
  rw [List.filter_map, List.length_map]
  rfl

theorem offs_eq (L : List UInt8) (c : Nat) : offs L c = ((List.range c).flatMap (bucket L)).length := by
  unfold offs
  rw [List.length_flatMap]
  congr 1
  apply List.map_congr_left
  intro a _
  exact (bucket_length L a).symm

theorem mem_bucket (L : List UInt8) (c i : Nat) : i ∈ bucket L c ↔ i < L.length ∧ (L.getD i 0).toNat = c := by
  unfold bucket
  simp [List.mem_filter]

theorem idxOf_bucket (L : List UInt8) (i : Nat) (hi : i < L.length) :
    (bucket L (L.getD i 0).toNat).idxOf i = cntUpTo L (L.getD i 0).toNat i := by
  unfold bucket cntUpTo
  have hr : List.range L.length = List.range i ++ i :: List.range' (i + 1) (L.length - i - 1) := by
    rw [List.range_eq_range', List.range_eq_range']
    have h1 := @List.range'_append_1 0 i (L.length - i)
    rw [Nat.zero_add] at h1
    have : i + (L.length - i) = L.length := by omega
    rw [this] at h1
    rw [← h1]
    congr 1
    have : L.length - i = (L.length - i - 1) + 1 := by omega
    rw [this, List.range'_succ]
    simp
  rw [hr, List.filter_append, List.idxOf_append, if_neg]
  · rw [List.filter_cons]
    simp
  · intro hmem
    have := (List.mem_filter.mp hmem).1
    simp at this

theorem order_nodup (L : List UInt8) : (order L).Nodup := by
  rw [order_eq, List.nodup_iff_pairwise_ne, List.pairwise_flatMap]
  constructor
  · intro c _
    exact (List.nodup_iff_pairwise_ne.mp List.nodup_range).filter _
  · refine List.Pairwise.imp ?_ (List.nodup_iff_pairwise_ne.mp (List.nodup_range (n := 256)))
    intro c1 c2 hne x hx y hy e
    subst e
    have h1 := ((mem_bucket L c1 x).mp hx).2
    have h2 := ((mem_bucket L c2 x).mp hy).2
    omega

theorem mem_order (L : List UInt8) (i : Nat) (hi : i < L.length) : i ∈ order L := by
  rw [order_eq, List.mem_flatMap]
  exact ⟨(L.getD i 0).toNat, List.mem_range.mpr (UInt8.toNat_lt _), (mem_bucket L _ i).mpr ⟨hi, rfl⟩⟩

/-- the slot `burrows_wheeler_prep` writes index `i` to -/
theorem idxOf_order (L : List UInt8) (i : Nat) (hi : i < L.length) :
    (order L).idxOf i = offs L (L.getD i 0).toNat + cntUpTo L (L.getD i 0).toNat i := by
  generalize hc : (L.getD i 0).toNat = c0
  have hc256 : c0 < 256 := by rw [← hc]; exact UInt8.toNat_lt _
  have hr : List.range 256 = List.range c0 ++ c0 :: List.range' (c0 + 1) (256 - c0 - 1) := by
    rw [List.range_eq_range', List.range_eq_range']
    have h1 := @List.range'_append_1 0 c0 (256 - c0)
    rw [Nat.zero_add] at h1
    have : c0 + (256 - c0) = 256 := by omega
    rw [this] at h1
    rw [← h1]
    congr 1
    have : 256 - c0 = (256 - c0 - 1) + 1 := by omega
    rw [this, List.range'_succ]
    simp
  rw [order_eq, hr, List.flatMap_append, List.idxOf_append, if_neg, List.flatMap_cons, List.idxOf_append, if_pos,
    offs_eq, ← hc, idxOf_bucket L i hi, Nat.add_comm]
  · exact (mem_bucket L c0 i).mpr ⟨hi, hc⟩
  · intro hmem
    obtain ⟨c, hcm, hb⟩ := List.mem_flatMap.mp hmem
    have := ((mem_bucket L c i).mp hb).2
    have := List.mem_range.mp hcm
    omega

/-! ## the fill loop -/

/-- `dbuf[j]` once every index below `ii` has been linked in -/
def slot (L : List UInt8) (ii j : Nat) : Nat :=
  if (order L).getD j 0 < ii then (L.getD j 0).toNat ||| ((order L).getD j 0 <<< 8) else (L.getD j 0).toNat

theorem bwFill_spec (d : Array UInt8) :
    ∀ (steps ii : Nat) (tt bc : Array Nat), ii + steps = d.size → tt.size = d.size → bc.size = 256 →
      (∀ c, c < 256 → bc.getD c 0 = offs d.toList c + cntUpTo d.toList c ii) →
      (∀ j, j < d.size → j < (order d.toList).length → tt.getD j 0 = slot d.toList ii j) →
      ∀ j, j < d.size → j < (order d.toList).length →
        (bwFill d steps ii tt bc).getD j 0 = slot d.toList d.size j
  | 0, ii, tt, bc, hii, _, _, _, htt => by
    intro j hj hjo
    have : ii = d.size := by omega
    subst this
    exact htt j hj hjo
  | steps + 1, ii, tt, bc, hii, hts, hbs, hbc, htt => by
    intro j hj hjo
    have hlt : ii < d.toList.length := by simp; omega
    have hgd : d.getD ii 0 = d.toList.getD ii 0 := by
      rw [Array.getD_eq_getD_getElem?, List.getD_eq_getElem?_getD, Array.getElem?_toList]
    have hc256 : (d.toList.getD ii 0).toNat < 256 := UInt8.toNat_lt _
    -- the slot written in this step
    have hk : bc.getD (d.toList.getD ii 0).toNat 0 = (order d.toList).idxOf ii := by
      rw [hbc _ hc256, idxOf_order _ ii hlt]
    have hmem := mem_order d.toList ii hlt
    have hrlt : (order d.toList).idxOf ii < (order d.toList).length := List.idxOf_lt_length_of_mem hmem
    have hget : (order d.toList).getD ((order d.toList).idxOf ii) 0 = ii := by
      rw [List.getD_eq_getElem?_getD, List.getElem?_eq_getElem hrlt, Option.getD_some]
      exact List.getElem_idxOf hrlt
    unfold bwFill
    simp only [hgd, hk]
    apply bwFill_spec d steps (ii + 1) _ _ (by omega) (by simpa using hts) (by simpa using hbs) ?_ ?_ j hj hjo
    · intro c hc
      rw [modify_getD, cntUpTo_succ]
      by_cases e : (d.toList.getD ii 0).toNat = c
      · rw [if_pos ⟨e, by omega⟩, if_pos e, hbc c hc]; omega
      · rw [if_neg (fun h => e h.1), if_neg e, hbc c hc]; omega
    · intro j' hj' hjo'
      rw [modify_getD]
      by_cases e : (order d.toList).idxOf ii = j'
      · rw [if_pos ⟨e, by omega⟩, htt j' hj' hjo']
        unfold slot
        rw [← e, hget, if_neg (by omega), if_pos (by omega)]
      · rw [if_neg (fun h => e h.1), htt j' hj' hjo']
        unfold slot
        have hne : (order d.toList).getD j' 0 ≠ ii := by
          intro h
          apply e
          rw [List.getD_eq_getElem?_getD, List.getElem?_eq_getElem hjo', Option.getD_some] at h
          rw [← h]
          exact (order_nodup d.toList).idxOf_getElem j' hjo'
        by_cases h2 : (order d.toList).getD j' 0 < ii
        · rw [if_pos h2, if_pos (by omega)]
        · rw [if_neg h2, if_neg (by omega)]

/-- **`burrows_wheeler_prep`**: every cell holds its symbol in the low byte and `order` above it -/
theorem bwPrep_spec (d : Array UInt8) (j : Nat) (hj : j < d.size) (hjo : j < (order d.toList).length) :
    (bwPrep d).getD j 0 = (d.toList.getD j 0).toNat ||| ((order d.toList).getD j 0 <<< 8) := by
  unfold bwPrep
  rw [bwFill_spec d d.size 0 _ _ (by omega) (by simp) (by
        have := (byteCounts_spec d).1
        unfold cumulate
        rw [← Array.foldl_toList]
        have h := congrArg List.length (foldl_prefix (byteCounts d).toList #[] 0)
        have hp : ∀ (l : List Nat) (s : Nat), (prefixSums s l).length = l.length := by
          intro l
          induction l with
          | nil => intro s; rfl
          | cons k t ih => intro s; simp [prefixSums, ih]
        simp only [Array.length_toList, List.nil_append, hp] at h
        omega)
      (fun c hc => by rw [cumulate_byteCounts d c hc]; simp [cntUpTo])
      (fun j' hj' _ => by
        unfold slot
        rw [if_neg (by omega)]
        rw [Array.getD_eq_getD_getElem?, List.getD_eq_getElem?_getD]
        simp [hj'])
      j hj hjo]
  unfold slot
  rw [if_pos]
  have := order_mem_lt d.toList ((order d.toList).getD j 0) (by
    rw [List.getD_eq_getElem?_getD, List.getElem?_eq_getElem hjo]; exact List.getElem_mem hjo)
  simpa using this

/-! ## pointer chasing on the packed cells -/

theorem unpack_hi (b t : Nat) (hb : b < 256) : (b ||| (t <<< 8)) >>> 8 = t := by
  rw [Nat.or_comm, ← Nat.shiftLeft_add_eq_or_of_lt (by omega : b < 2 ^ 8), Nat.shiftLeft_eq, Nat.shiftRight_eq_div_pow]
  omega

theorem unpack_lo (b t : Nat) (hb : b < 256) : (b ||| (t <<< 8)) &&& 0xff = b := by
  rw [Nat.or_comm, ← Nat.shiftLeft_add_eq_or_of_lt (by omega : b < 2 ^ 8), Nat.shiftLeft_eq]
  have : (0xff : Nat) = 2 ^ 8 - 1 := rfl
  rw [this, Nat.and_two_pow_sub_one_eq_mod]
  omega

theorem bwChase_spec (tt : Array Nat) (L : List UInt8) (T : List Nat) (n : Nat)
    (htt : ∀ j, j < n → tt.getD j 0 = (L.getD j 0).toNat ||| (T.getD j 0 <<< 8))
    (hT : ∀ j, j < n → T.getD j 0 < n) :
    ∀ (k pos : Nat) (acc : Array UInt8), pos < n →
      (bwChase tt k pos acc).toList = acc.toList ++ chaseL L T k pos
  | 0, _, acc, _ => by simp [bwChase, chaseL]
  | k + 1, pos, acc, hpos => by
    simp only [bwChase, chaseL]
    rw [htt pos hpos, unpack_hi _ _ (UInt8.toNat_lt _), unpack_lo _ _ (UInt8.toNat_lt _),
      bwChase_spec tt L T n htt hT k _ _ (hT pos hpos)]
    simp

/-- **(b)** the inverse BWT of bunzip2.c — cumulative counts, the linked list `dbuf[byteCount[uc]++] |= ii << 8`,
    pointer chasing from `dbuf[origPtr]` — applied to the Burrows–Wheeler transform (last column of the sorted
    rotations, position of the original) returns the block, for every non-empty block -/
theorem ibwt_bwt (p : Bytes) (h : p ≠ []) : (ibwt (bwt p).1.toArray (bwt p).2).1.toList = p := by
  obtain ⟨horig, hLlen, hchase⟩ := chaseL_bwt p h
  generalize hL : (bwt p).1 = L at *
  generalize hO : (bwt p).2 = orig at *
  have hTlen : (order L).length = p.length := by
    have := (order_spec p h 0 (List.length_pos_iff.mpr h)).1
    rw [← hL]; exact this
  have hsz : L.toArray.size = p.length := by simpa using hLlen
  have htt : ∀ j, j < p.length → (bwPrep L.toArray).getD j 0 = (L.getD j 0).toNat ||| ((order L).getD j 0 <<< 8) := by
    intro j hj
    have := bwPrep_spec L.toArray j (by omega) (by simpa using (by omega : j < (order L).length))
    simpa using this
  have hT : ∀ j, j < p.length → (order L).getD j 0 < p.length := by
    intro j hj
    have hjo : j < (order L).length := by omega
    have := order_mem_lt L ((order L).getD j 0) (by
      rw [List.getD_eq_getElem?_getD, List.getElem?_eq_getElem hjo]; exact List.getElem_mem hjo)
    omega
  unfold ibwt
  simp only
  rw [htt orig horig, unpack_hi _ _ (UInt8.toNat_lt _), hsz,
    bwChase_spec _ L (order L) p.length htt hT p.length _ #[] (hT orig horig)]
  simpa using hchase

end Xmp.Bzip2
