import XmpModel.Container
/-!
# A zip writer (encoder side of the zip framing theorem for C08)

Writes the classic (non-zip64) layout that `decrunch_zip` / miniz read through the central directory:
local file headers + data, central directory, end-of-central-directory record, optional archive comment.
The reader model is `Xmp.Container.unzip` (`zipEntries`, `ZipEntry.toMember`, `unpackMembers`).
-/
namespace Xmp.Container
open Xmp

structure ZipMember where
  name : Bytes
  data : Bytes                 -- the uncompressed bytes (what the CRC-32 and the size fields describe)
  cdata : Bytes                -- stored (method 0): = data; deflated (8): the raw deflate stream
  method : Nat := 0
  flags : Nat := 0             -- general purpose flags (bit 11 = UTF-8 names, …)
  extAttr : Nat := 0           -- external attributes (bit 4 = MS-DOS directory)
  time : Nat := 0
  date : Nat := 0
  extra : Bytes := []          -- extra field of the local header
  cextra : Bytes := []         -- extra field of the central directory entry
  comment : Bytes := []        -- per-file comment
  verMade : Nat := 20
  verNeed : Nat := 20
  deriving Repr

def zipLocal (crc : Bytes → UInt32) (m : ZipMember) : Bytes :=
  [0x50, 0x4b, 3, 4] ++ le16 m.verNeed ++ le16 m.flags ++ le16 m.method ++ le16 m.time ++ le16 m.date ++
  le32 (crc m.data).toNat ++ le32 m.cdata.length ++ le32 m.data.length ++ le16 m.name.length ++ le16 m.extra.length ++
  m.name ++ m.extra ++ m.cdata

def zipCentral (crc : Bytes → UInt32) (ofs : Nat) (m : ZipMember) : Bytes :=
  [0x50, 0x4b, 1, 2] ++ le16 m.verMade ++ le16 m.verNeed ++ le16 m.flags ++ le16 m.method ++ le16 m.time ++ le16 m.date ++
  le32 (crc m.data).toNat ++ le32 m.cdata.length ++ le32 m.data.length ++ le16 m.name.length ++ le16 m.cextra.length ++
  le16 m.comment.length ++ le16 0 ++ le16 0 ++ le32 m.extAttr ++ le32 ofs ++ m.name ++ m.cextra ++ m.comment

def zipLocals (crc : Bytes → UInt32) (ms : List ZipMember) : Bytes := ms.flatMap (zipLocal crc)

/-- central directory, `ofs` = offset of the first member's local header -/
def zipCd (crc : Bytes → UInt32) : Nat → List ZipMember → Bytes
  | _, [] => []
  | ofs, m :: ms => zipCentral crc ofs m ++ zipCd crc (ofs + (zipLocal crc m).length) ms

def zipEocd (n cdSize cdOfs clen : Nat) : Bytes :=
  [0x50, 0x4b, 5, 6] ++ le16 0 ++ le16 0 ++ le16 n ++ le16 n ++ le32 cdSize ++ le32 cdOfs ++ le16 clen

/-- a complete archive with an archive comment; `lead` = bytes in front of the first local header
    (self-extractor stub, `PK00` marker…) -/
def zipWrapC (crc : Bytes → UInt32) (lead : Bytes) (ms : List ZipMember) (comment : Bytes) : Bytes :=
  let locals := lead ++ zipLocals crc ms
  let cd := zipCd crc lead.length ms
  locals ++ cd ++ zipEocd ms.length cd.length locals.length comment.length ++ comment

/-- without archive comment -/
def zipWrap (crc : Bytes → UInt32) (lead : Bytes) (ms : List ZipMember) : Bytes := zipWrapC crc lead ms []

end Xmp.Container
