import XmpModel.Container
import XmpModel.Lzw
/-!
# ARC "squeezed" members (method 4): `arc_unpack_huffman_rle90` of src/depackers/arc_unpack.c, model for C08

Stream: 16-bit node count `n` (1 … HUFFMAN_TREE_MAX), `n` nodes of two signed 16-bit children (`≥ 0` = index of a
node, `< 0` = leaf with symbol `~value`), then the code bits LSB first (bit 0 = `value[0]`).  Symbols ≥ 256 end the
stream.  The decoded bytes are an RLE90 stream which is expanded block by block (8192-byte window) into the output.

Faithful points: the child-index test, `arc_huffman_check_tree` (explicit stack, `visited` set when a node is popped),
the 11-bit lookup table (`LOOKUP_BITS`): the first 11 bits of a code are taken from a zero-extended peek and may lie
behind the end of the data, later bits must lie inside; a symbol is only started while `lzw_in < src_len`;
`arc_unrle90_block` keeps `rle_out`, `last_byte`, `in_rle_code` between the blocks (`RleSt`), a literal block that
meets a full output buffer is cut (`break` only leaves the current block).
-/
namespace Xmp.Container
open Xmp

/-! ## RLE90 with the state kept between blocks -/

structure RleSt where
  room : Nat            -- dest_len - rle_out
  acc : Bytes           -- output so far, reversed
  last : UInt8          -- last_byte
  inRle : Bool          -- in_rle_code
  deriving Repr, DecidableEq

/-- `arc_unrle90_block` on one block; `blk` = inside a literal run of this block that already started
    (same cases as `unrle90Go`, but the state survives) -/
def rleBlock : Bytes → RleSt → Bool → Option RleSt
  | [], st, _ => some st
  | b :: src, st, blk =>
    if st.inRle then
      if b = 0 then
        if st.room = 0 then none else rleBlock src ⟨st.room - 1, 0x90 :: st.acc, 0x90, false⟩ false
      else
        let len := b.toNat - 1
        if len > st.room then none
        else rleBlock src ⟨st.room - len, List.replicate len st.last ++ st.acc, st.last, false⟩ false
    else if b = 0x90 then rleBlock src ⟨st.room, st.acc, st.last, true⟩ false
    else if st.room > 0 then rleBlock src ⟨st.room - 1, b :: st.acc, b, false⟩ true
    else if blk then rleBlock src ⟨st.room, st.acc, b, false⟩ true     -- tail of a cut literal run
    else some st                                                       -- `break`: no room at the start of a literal run

def rleBlocks : List Bytes → RleSt → Option RleSt
  | [], st => some st
  | c :: cs, st => (rleBlock c st false).bind (rleBlocks cs)

/-- window of the two-stage methods (`ARC_BUFFER_SIZE`) -/
def arcBufferSize : Nat := Xmp.Gen.Depackers.arcBufferSizeC

/-! ## the node table -/

def s16 (x : Nat) : Int := if x < 32768 then (x : Int) else (x : Int) - 65536

def sqNode (src : Bytes) (i : Nat) : Int × Int := (s16 (u16At src (4 * i + 2)), s16 (u16At src (4 * i + 4)))

def sqNodes (src : Bytes) (n : Nat) : List (Int × Int) := (List.range n).map (sqNode src)

/-- `arc_huffman_check_tree`: explicit stack, a node is marked when it is taken from the stack, a child that is already
    marked is an error.  Every pop of a node with a node child either marks it for the first time or fails, so `2n + 2`
    steps suffice for `n` nodes. -/
def sqCheckGo (nodes : Array (Int × Int)) : Nat → List Nat → List Nat → Bool
  | 0, _, _ => false
  | _, [], _ => true
  | fuel + 1, i :: stack, vis =>
    let e := nodes.getD i (0, 0)
    let vis := i :: vis
    if e.1 ≥ 0 ∧ vis.contains e.1.toNat then false
    else
      let stack := if e.1 ≥ 0 then e.1.toNat :: stack else stack
      if e.2 ≥ 0 ∧ vis.contains e.2.toNat then false
      else
        let stack := if e.2 ≥ 0 then e.2.toNat :: stack else stack
        sqCheckGo nodes fuel stack vis

/-- `arc_huffman_init`; `maxNodes`/`inclusive` = the limit test `num_huffman > HUFFMAN_TREE_MAX` as generated from the C -/
def sqInitWith (maxNodes : Nat) (inclusive : Bool) (src : Bytes) : Option (Array (Int × Int)) :=
  if src.length < 2 then none
  else
    let n := u16At src 0
    if n = 0 ∨ (if inclusive then n > maxNodes else n ≥ maxNodes) then none
    else if 2 + 4 * n > src.length then none
    else
      let nodes := sqNodes src n
      if nodes.any (fun e => e.1 ≥ (n : Int) ∨ e.2 ≥ (n : Int)) then none
      else if !sqCheckGo nodes.toArray (2 * n + 2) [0] [] then none
      else some nodes.toArray

def sqInit (src : Bytes) : Option (Array (Int × Int)) :=
  sqInitWith Xmp.Gen.Depackers.sqTreeMax Xmp.Gen.Depackers.sqTreeMaxInclusive src

/-! ## code bits -/

/-- bit `i` of the data, LSB first; 0 behind the end (`arc_get_bytes` zero-extends the peek) -/
def sqBit (src : Array UInt8) (i : Nat) : Nat :=
  match src[i / 8]? with
  | some b => b.toNat / 2 ^ (i % 8) % 2
  | none => 0

def sqLookupBits : Nat := Xmp.Gen.Depackers.sqLookupBitsC

/-- `arc_huffman_read_bits` from node `idx` at bit `bp`, `d` bits of the code already read -/
def sqWalk (nodes : Array (Int × Int)) (src : Array UInt8) : Nat → Nat → Nat → Nat → Option (Nat × Nat)
  | 0, _, _, _ => none
  | fuel + 1, idx, bp, d =>
    if d ≥ sqLookupBits ∧ bp ≥ 8 * src.size then none
    else
      let e := nodes.getD idx (0, 0)
      let c := if sqBit src bp = 0 then e.1 else e.2
      if c < 0 then some ((-(c + 1)).toNat, bp + 1)
      else sqWalk nodes src fuel c.toNat (bp + 1) (d + 1)

/-- `arc_unhuffman_block` over all blocks: the symbols up to the end-of-stream code (any value ≥ 256) -/
def sqSyms (nodes : Array (Int × Int)) (src : Array UInt8) : Nat → Nat → Bytes → Option Bytes
  | 0, _, _ => none
  | fuel + 1, bp, acc =>
    if bp / 8 ≥ src.size then none
    else
      match sqWalk nodes src (8 * src.size + sqLookupBits + 1) 0 bp 0 with
      | none => none
      | some (v, bp') => if v ≥ 256 then some acc.reverse else sqSyms nodes src fuel bp' (UInt8.ofNat v :: acc)

/-- the Huffman stage alone -/
def sqDecode (src : Bytes) : Option Bytes :=
  match sqInit src with
  | none => none
  | some nodes => sqSyms nodes src.toArray (8 * src.length + 1) (8 * (2 + 4 * nodes.size)) []

/-- `arc_unpack(dest, usize, src, …, ARC_M_SQUEEZED)` -/
def unsqueeze (usize : Nat) (src : Bytes) : Option Bytes :=
  match sqDecode src with
  | none => none
  | some syms =>
    match rleBlocks (Xmp.Md5.chunksOf arcBufferSize syms) ⟨usize, [], 0, false⟩ with
    | some st => if st.room = 0 then some st.acc.reverse else none
    | none => none

/-- squeeze in front of another decoder parameter (`arcDec` of `Env`, `dec` of `arcRead`) -/
def arcDecSq (rest : Nat → Bytes → Nat → Option Bytes) : Nat → Bytes → Nat → Option Bytes :=
  fun m c u => if m = 4 then unsqueeze u c else rest m c u

/-! ## encoder side: any binary code tree -/

inductive SqTree where
  | leaf (sym : Nat)
  | node (l r : SqTree)
  deriving Repr, DecidableEq

def SqTree.size : SqTree → Nat
  | .leaf _ => 0
  | .node l r => 1 + l.size + r.size

/-- child field of a node: the index where the sub-tree is stored, or `~sym` for a leaf -/
def sqRef : SqTree → Nat → Int
  | .leaf s, _ => -((s : Int) + 1)
  | .node _ _, i => (i : Int)

/-- node table of a tree stored from index `base` on (pre-order) -/
def sqFlatten : SqTree → Nat → List (Int × Int)
  | .leaf _, _ => []
  | .node l r, base =>
    (sqRef l (base + 1), sqRef r (base + 1 + l.size)) :: (sqFlatten l (base + 1) ++ sqFlatten r (base + 1 + l.size))

/-- code of a symbol: the way to its first leaf -/
def sqCode : SqTree → Nat → Option (List Bool)
  | .leaf s, x => if s = x then some [] else none
  | .node l r, x =>
    match sqCode l x with
    | some c => some (false :: c)
    | none => (sqCode r x).map (true :: ·)

def le16s (v : Int) : Bytes := le16 (v % 65536).toNat

def sqTable (t : SqTree) : Bytes :=
  le16 t.size ++ (sqFlatten t 0).flatMap (fun e => le16s e.1 ++ le16s e.2)

def sqBits (t : SqTree) (syms : List Nat) : List Bool := syms.flatMap (fun x => (sqCode t x).getD [])

/-- the Huffman stage of the squeezer for the code tree `t`: table, codes of the bytes, end-of-stream code -/
def sqEncode (t : SqTree) (syms : Bytes) : Bytes :=
  sqTable t ++ Lzw.packBits (sqBits t (syms.map (·.toNat) ++ [256]))

/-- a squeezed member: RLE90 tokens rendered, then the Huffman stage -/
def squeeze (t : SqTree) (ts : List Tok) : Bytes := sqEncode t (render ts)

end Xmp.Container
