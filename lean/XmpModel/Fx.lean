import XmpModel.Seq
import XmpModel.Gen.PlayerConsts
/-!
# Flow-relevant part of the effect interpreters (src/effects.c, src/flow.c, src/player.c) — C16

What the effect stages of a frame do to the variables the sequencer kernel (`XmpModel.Seq`) reads:
`p->speed`, `p->bpm`, `p->gvol`, `p->st26_speed` and the flow record `p->flow` (`pbreak`, `jump`,
`jumpline`, `jump_in_pat`, `delay`, `rowdelay`, `rowdelay_set`, `loop_dest` and the pattern-loop
bookkeeping `loop_param`, `loop_start`, `loop_count`, `loop_active_num`, `loop[chn]`).

Modelled exactly, one definition per C function / label:

* `libxmp_process_pattern_loop` (src/flow.c) with every `FLOW_LOOP_*` mode bit and `QUIRK_FT2BUGS`
  — `patternLoop`;
* `libxmp_process_fx` (src/effects.c) for EVERY effect number 0..255 and parameter byte —
  `processFx`: `FX_JUMP`, `FX_BREAK`, `FX_EXTENDED` (`EX_PATTERN_LOOP`, `EX_PATT_DELAY`; ST3 effect
  memory), `FX_SPEED` (speed/BPM split at 0x20, `QUIRK_NOBPM`, `XMP_FLAGS_VBLANK`), `FX_PATT_DELAY`
  (ST3: first delay of the row wins), `FX_S3M_SPEED` (0 ignored, ST3 effect memory), `FX_S3M_BPM`
  (clamp at the time-factor dependent minimum), `FX_IT_BPM` (slides vs. set, `XMP_MIN_BPM` clamp),
  `FX_IT_ROWDELAY`, `FX_IT_BREAK`, `FX_GLOBALVOL`, `FX_ICE_SPEED`, `FX_SPEED_CP`, `FX_ULT_TEMPO`,
  `FX_LINE_JUMP`; in a module that carries FAR extras `FX_FAR_TEMPO` / `FX_FAR_F_TEMPO`
  (`libxmp_far_translate_tempo` with its fine-tempo "clamping", both tempo modes, the unsigned PIT
  divisor loop and the `XMP_MIN_BPM` clamp); every other effect number leaves these variables alone;
* the speed pre-scan and the delay decision of `check_delay`, the call order of `libxmp_read_event`
  per player mode, the `rowdelay_set` gate of `read_row` — `checkDelaySpeed`, `isDelayed`,
  `readEvent`, `readRow`;
* the IT tempo slide step of `play_channel` — `tempoSlideStep`.

Event fields other than the two effect lanes (note, instrument, volume) and all per-channel
state other than `xc->vol.memory` and the loop slots do not reach these variables.
-/
namespace Xmp.Fx
open Xmp.Gen.PlayerConsts Xmp.Seq

/-- test of a single-bit mask `b` (a power of two) in the non-negative word `v` -/
def hasBit (v b : Int) : Bool := decide ((v / b) % 2 = 1)

/-- `MSN` / `LSN` of a byte -/
def msn (x : Int) : Int := x / 16
def lsn (x : Int) : Int := x % 16

/-- module / player constants the modelled effects read -/
structure Env where
  quirk : Int               -- m->quirk (as unsigned)
  flags : Int               -- p->flags
  readEvent : Int           -- m->read_event_type
  flowMode : Int            -- m->flow_mode
  tfN : Int                 -- m->time_factor = tfN / tfD
  tfD : Int
  gvolbase : Int            -- m->gvolbase
  chn : Int                 -- mod->chn
  far : Bool                -- the module carries FAR extras (libxmp_extras_process_fx -> far)
  bpmClamp : Option (Int × Int) := s3mBpmClamp   -- `CLAMP(min_bpm, lo, hi)` of label fx_s3m_bpm, if the code has one (generated)
  deriving Repr, Inhabited

namespace Env
def q (e : Env) (b : Int) : Bool := hasBit e.quirk b
def mode (e : Env) (b : Int) : Bool := hasBit e.flowMode b
/-- `int min_bpm = (int)(0.5 + m->time_factor * XMP_MIN_BPM / 10)` -/
def minBpmFx (e : Env) : Int := (10 * e.tfD + 2 * e.tfN * minBpm) / (20 * e.tfD)
end Env

/-- `struct pattern_loop` -/
structure Loop where
  start : Int
  count : Int
  deriving Repr, Inhabited, DecidableEq

/-- the variables the modelled effects read or write -/
structure Flow where
  speed : Int
  bpm : Int
  gvol : Int
  st26 : Int
  pbreak : Int
  jump : Int
  delay : Int
  jumpline : Int
  loopDest : Int
  rowdelay : Int
  rowdelaySet : Int
  jumpInPat : Int
  loopParam : Int
  loopStart : Int
  loopCount : Int            -- f->loop_count (the global pattern-loop count, not p->loop_count)
  loopActive : Int
  loops : List Loop          -- f->loop[0 .. chn)
  farMode : Int := 1         -- FAR module extras: me->tempo_mode
  farCoarse : Int := 0       --                    me->coarse_tempo
  farFine : Int := 0         --                    me->fine_tempo
  deriving Repr, Inhabited, DecidableEq

namespace Flow
def loopAt (f : Flow) (chn : Int) : Loop := f.loops.getD chn.toNat ⟨0, 0⟩
def setLoopAt (f : Flow) (chn : Int) (l : Loop) : Flow :=
  if 0 ≤ chn then { f with loops := f.loops.set chn.toNat l } else f
end Flow

/-! ## src/flow.c -/

/-- `for (i = 0; i < mod->chn; i++) if (i != chn && f->loop[i].count != 0) return;` -/
def otherLooping (f : Flow) (nchn chn : Int) : Bool :=
  (List.range nchn.toNat).any fun i => decide ((i : Int) ≠ chn) && decide ((f.loopAt i).count ≠ 0)

/-- `*start` / `*count`: the global or the per-channel loop target and count -/
def curStart (env : Env) (f : Flow) (chn : Int) : Int :=
  if env.mode flowLoopGlobalTarget then f.loopStart else (f.loopAt chn).start
def curCount (env : Env) (f : Flow) (chn : Int) : Int :=
  if env.mode flowLoopGlobalCount then f.loopCount else (f.loopAt chn).count
def setStart (env : Env) (g : Flow) (chn v : Int) : Flow :=
  if env.mode flowLoopGlobalTarget then { g with loopStart := v } else g.setLoopAt chn { g.loopAt chn with start := v }
def setCount (env : Env) (g : Flow) (chn v : Int) : Flow :=
  if env.mode flowLoopGlobalCount then { g with loopCount := v } else g.setLoopAt chn { g.loopAt chn with count := v }

/-- `fxp == 0`: mark the start of the loop -/
def loopMark (env : Env) (f : Flow) (chn row : Int) : Flow :=
  if env.mode flowLoopIgnoreTarget = true ∧ curCount env f chn ≥ 1 then f else
  if env.q quirkFt2bugs then { setStart env f chn row with jumpline := row } else setStart env f chn row

/-- the loop target after "if SB0 wasn't used" -/
def startFixed (env : Env) (f : Flow) (chn row : Int) : Int :=
  if curStart env f chn < 0 then (if env.mode flowLoopInitSamerow then row else 0) else curStart env f chn

/-- `fxp != 0`, a loop is running (`*count != 0`): count down, jump or terminate -/
def loopCountDown (env : Env) (f1 : Flow) (chn row start1 count : Int) : Flow :=
  if count - 1 ≠ 0 then { setCount env f1 chn (count - 1) with loopDest := start1 }
  else
    let f3 := if env.mode flowLoopEndAdvances then setStart env (setCount env f1 chn (count - 1)) chn (row + 1)
              else setCount env f1 chn (count - 1)
    let f4 := if env.mode flowLoopEndCancels then { f3 with loopDest := -1 } else f3
    { f4 with loopActive := f4.loopActive - 1 }

/-- `fxp != 0`: end of loop -/
def loopJump (env : Env) (f : Flow) (chn row fxp : Int) : Flow :=
  let start1 := startFixed env f chn row
  let f1 := if curStart env f chn < 0 then setStart env f chn start1 else f
  let count := curCount env f chn
  if count ≠ 0 then loopCountDown env f1 chn row start1 count
  else
    if env.mode flowLoopOneAtATime = true ∧ otherLooping f1 env.chn chn = true then f1
    else { setCount env f1 chn fxp with loopDest := start1, loopActive := (setCount env f1 chn fxp).loopActive + 1 }

/-- `libxmp_process_pattern_loop(ctx, f, chn, row, fxp)` -/
def patternLoop (env : Env) (f0 : Flow) (chn row fxp : Int) : Flow :=
  if env.mode flowLoopFirstEffect = true ∧ f0.loopParam ≥ 0 then f0 else
  if fxp = 0 then loopMark env { f0 with loopParam := fxp } chn row
  else loopJump env { f0 with loopParam := fxp } chn row fxp

/-! ## src/effects.c -/

/-- `EFFECT_MEMORY_S3M(fxp)`: the parameter actually used and the new `xc->vol.memory`
(`fxp` is a `uint8`: a remembered value is truncated to a byte) -/
def effectMemoryS3m (env : Env) (fxp volMem : Int) : Int × Int :=
  if env.q quirkSt3bugs then (if fxp = 0 then (volMem % 256, volMem) else (fxp, fxp)) else (fxp, volMem)

/-- label `fx_s3m_speed` -/
def s3mSpeed (f : Flow) (p : Int) : Flow := if p ≠ 0 then { f with speed := p, st26 := 0 } else f

/-- the minimum label `fx_s3m_bpm` clamps to -/
def Env.minBpmEff (e : Env) : Int :=
  match e.bpmClamp with
  | some (lo, hi) => if e.minBpmFx < lo then lo else if e.minBpmFx > hi then hi else e.minBpmFx
  | none => e.minBpmFx

/-- label `fx_s3m_bpm`: `if (fxp < min_bpm) fxp = min_bpm; p->bpm = fxp;` — `fxp` is a `uint8`, so
a minimum above 255 is truncated to its low byte -/
def s3mBpm (env : Env) (f : Flow) (p : Int) : Flow :=
  { f with bpm := if p < env.minBpmEff then env.minBpmEff % 256 else p }

/-- label `fx_patt_delay` -/
def pattDelay (env : Env) (f : Flow) (p : Int) : Flow :=
  if env.readEvent ≠ readEventSt3 ∨ f.delay = 0 then { f with delay := p } else f

/-- `FX_ICE_SPEED` -/
def iceSpeed (f : Flow) (p : Int) : Flow :=
  if p ≠ 0 then
    if lsn p ≠ 0 ∧ msn p ≠ 0 then { f with st26 := msn p * 256 + lsn p }
    else
      -- one nibble only: MSN | LSN is the non-zero one
      let spd := if msn p ≠ 0 then msn p else lsn p
      { f with st26 := spd * 256 + spd }
  else f

/-! ### src/far_extras.c: the FAR tempo effects -/

/-- the `while (divisor > 0xffff) { divisor >>= 1; tempo <<= 1; speed++; }` loop of
`libxmp_far_translate_tempo`; `divisor` is a `uint32`, so 16 iterations always suffice -/
def farShiftLoop : Nat → Int → Int → Int → Int × Int
  | 0, _, t, k => (t, k)
  | n + 1, d, t, k => if d > 0xffff then farShiftLoop n (d / 2) (t * 2) (k + 1) else (t, k)

/-- "Compatibility for FAR's broken fine tempo clamping": the new `*fine` -/
def farFineClamp (fineChange base fine : Int) : Int :=
  if fineChange < 0 ∧ base + fine ≤ 0 then 0
  else if fineChange > 0 ∧ base + fine ≥ 100 then 100 else fine

/-- "new" FAR tempo mode: `(speed, bpm)`, or `none` for tempo 0 (`return -1`).  `divisor` is the C's
`uint32`: a negative tempo (fine tempo lowered, then a slower coarse tempo) goes through the
signed-to-unsigned conversion and ends at the `XMP_MIN_BPM` clamp. -/
def farNewTempo (tempo : Int) : Option (Int × Int) :=
  if tempo = 0 then none else
  some ((if (farShiftLoop 32 ((Int.tdiv farPitClock tempo) % 4294967296) tempo 0).2 ≥ 2
           then (farShiftLoop 32 ((Int.tdiv farPitClock tempo) % 4294967296) tempo 0).2 + 1
           else (farShiftLoop 32 ((Int.tdiv farPitClock tempo) % 4294967296) tempo 0).2) + 3 + 1,
        if (farShiftLoop 32 ((Int.tdiv farPitClock tempo) % 4294967296) tempo 0).1 < minBpm then minBpm
        else (farShiftLoop 32 ((Int.tdiv farPitClock tempo) % 4294967296) tempo 0).1)

/-- "old" FAR tempo mode -/
def farOldTempo (base fine1 : Int) : Int × Int :=
  (4 * 2 ^ farOldTempoShift.toNat,
   if (base + fine1 * 2) * 2 ^ farOldTempoShift.toNat < minBpm then minBpm else (base + fine1 * 2) * 2 ^ farOldTempoShift.toNat)

/-- `libxmp_far_translate_tempo(mode, fine_change, coarse, &fine, &speed, &bpm)`: the new `*fine`
(written even when the function then returns -1) and, when it returns 0, `(speed, bpm)` -/
def farTranslate (mode fineChange coarse fine : Int) : Int × Option (Int × Int) :=
  if coarse < 0 ∨ coarse > 15 ∨ mode < 0 ∨ mode > 1 then (fine, none) else
  (farFineClamp fineChange (farTempos.getD coarse.toNat 0) fine,
   if mode = 1 then farNewTempo (farTempos.getD coarse.toNat 0 + farFineClamp fineChange (farTempos.getD coarse.toNat 0) fine)
   else some (farOldTempo (farTempos.getD coarse.toNat 0) (farFineClamp fineChange (farTempos.getD coarse.toNat 0) fine)))

/-- `libxmp_far_update_tempo` after the module-wide tempo state has been changed -/
def farUpdate (f : Flow) (fineChange : Int) : Flow :=
  match (farTranslate f.farMode fineChange f.farCoarse f.farFine).2 with
  | some r => { f with farFine := (farTranslate f.farMode fineChange f.farCoarse f.farFine).1, speed := r.1, bpm := r.2 }
  | none => { f with farFine := (farTranslate f.farMode fineChange f.farCoarse f.farFine).1 }

/-- `FX_FAR_TEMPO` (coarse tempo / tempo mode) and `FX_FAR_F_TEMPO` (fine tempo up / down / reset) in
`libxmp_far_extras_process_fx` -/
def farTempoFx (f : Flow) (fxt fxp : Int) : Flow :=
  if fxt = fxFarTempo then
    farUpdate (if msn fxp ≠ 0 then { f with farMode := msn fxp - 1 } else { f with farCoarse := lsn fxp }) 0
  else
    if msn fxp ≠ 0 then farUpdate { f with farFine := f.farFine + msn fxp } (msn fxp)
    else if lsn fxp ≠ 0 then farUpdate { f with farFine := f.farFine - lsn fxp } (- lsn fxp)
    else farUpdate { f with farFine := 0 } 0

/-- `libxmp_process_fx(ctx, xc, chn, e, fnum)` restricted to the variables of `Flow`, for the
effect `(fxt, fxp)` of the selected lane, with `p->ord = ord`, `p->row = row`,
`xc->vol.memory = volMem`.  Result: the new record and the new `xc->vol.memory` as left by the
ST3 effect memory of the modelled effects (the result is always `some`: since the FAR tempo effects
are modelled no effect is left out; the `Option` is kept for the callers). -/
def processFx (env : Env) (ord row chn volMem fxt fxp : Int) (f : Flow) : Option (Flow × Int) :=
  if fxt = fxJump then some ({ f with pbreak := 1, jump := fxp, jumpline := 0 }, volMem)
  else if fxt = fxBreak then some ({ f with pbreak := 1, jumpline := 10 * msn fxp + lsn fxp }, volMem)
  else if fxt = fxExtended then
    if msn (effectMemoryS3m env fxp volMem).1 = exPatternLoop then
      some (patternLoop env f chn row (lsn (effectMemoryS3m env fxp volMem).1), (effectMemoryS3m env fxp volMem).2)
    else if msn (effectMemoryS3m env fxp volMem).1 = exPattDelay then
      some (pattDelay env f (lsn (effectMemoryS3m env fxp volMem).1), (effectMemoryS3m env fxp volMem).2)
    else some (f, (effectMemoryS3m env fxp volMem).2)
  else if fxt = fxSpeed then
    if env.q quirkNobpm = true ∨ hasBit env.flags flagsVblank = true then some (s3mSpeed f fxp, volMem)
    else if fxp < 0x20 then some (s3mSpeed f fxp, volMem)
    else some (s3mBpm env f fxp, volMem)
  else if fxt = fxPattDelay then some (pattDelay env f fxp, volMem)
  else if fxt = fxS3mSpeed then
    some (s3mSpeed f (effectMemoryS3m env fxp volMem).1, (effectMemoryS3m env fxp volMem).2)
  else if fxt = fxS3mBpm then some (s3mBpm env f fxp, volMem)
  else if fxt = fxItBpm then
    if msn fxp = 0 ∨ msn fxp = 1 then some (f, volMem)      -- tempo slide set; p->bpm untouched here
    else some ({ f with bpm := if fxp < minBpm then minBpm else fxp }, volMem)
  else if fxt = fxItRowdelay then
    if f.rowdelaySet = 0 then some ({ f with rowdelay := fxp, rowdelaySet := rowdelayOn + rowdelayFirstFrame }, volMem)
    else some (f, volMem)
  else if fxt = fxItBreak then
    if f.loopDest < 0 then some ({ f with pbreak := 1, jumpline := fxp }, volMem) else some (f, volMem)
  else if fxt = fxGlobalvol then
    some ({ f with gvol := if fxp > env.gvolbase then env.gvolbase else fxp }, volMem)
  else if fxt = fxIceSpeed then some (iceSpeed f fxp, volMem)
  else if fxt = fxSpeedCp then some (s3mSpeed f fxp, volMem)
  else if fxt = fxUltTempo then
    if fxp = 0 then some (s3mBpm env { f with speed := 6, st26 := 0 } 125, volMem)
    else if fxp < 0x30 then some (s3mSpeed f fxp, volMem)
    else some (s3mBpm env f fxp, volMem)
  else if fxt = fxLineJump then
    some ({ (if f.pbreak = 0 then { f with pbreak := 1, jump := ord } else f) with jumpline := fxp, jumpInPat := ord }, volMem)
  else if env.far = true ∧ (fxt = fxFarTempo ∨ fxt = fxFarFTempo) then some (farTempoFx f fxt fxp, volMem)
  else some (f, volMem)

/-! ## src/player.c: `check_delay`, `read_row`; src/read_event.c: call order -/

/-- the two effect lanes of an event -/
structure Ev where
  fxt : Int
  fxp : Int
  f2t : Int
  f2p : Int
  deriving Repr, Inhabited, DecidableEq

/-- "Tempo affects delay and must be computed first" (one lane) -/
def cdSpeed1 (t p : Int) (f : Flow) : Flow :=
  if ((t = fxSpeed ∧ p < 0x20) ∨ t = fxS3mSpeed) ∧ p ≠ 0 then { f with speed := p } else f

/-- the speed pre-scan of `check_delay` -/
def checkDelaySpeed (e : Ev) (f : Flow) : Flow := cdSpeed1 e.f2t e.f2p (cdSpeed1 e.fxt e.fxp f)

/-- `xc->delay` as set by `check_delay` when it stores the event for a later tick; 0 = the event is
not delayed.  (The fourth case reads the PRIMARY lane's parameter, as the C does: a MED retrigger
in the secondary lane next to a primary parameter below 0x10 is "delayed" by one tick, i.e. it is
read by `play_channel` in the same frame.) -/
def delayTicks (e : Ev) : Int :=
  if e.fxt = fxExtended ∧ msn e.fxp = exDelay ∧ lsn e.fxp ≠ 0 then lsn e.fxp + 1
  else if e.f2t = fxExtended ∧ msn e.f2p = exDelay ∧ lsn e.f2p ≠ 0 then lsn e.f2p + 1
  else if e.fxt = fxMedRetrig ∧ msn e.fxp ≠ 0 then msn e.fxp + 1
  else if e.f2t = fxMedRetrig ∧ msn e.f2p ≠ 0 then msn e.fxp + 1
  else 0

/-- `check_delay` returns 1: the event is stored and read on a later tick -/
def isDelayed (e : Ev) : Bool := decide (delayTicks e ≠ 0)

/-- `libxmp_read_event(ctx, e, chn)` on a track channel: the Fasttracker 2 reader ignores an
event that arrives at `p->frame >= p->speed`; the Impulse Tracker reader handles the effect column
before the volume column, every other reader the secondary effect first. -/
def readEvent (env : Env) (ord row frame chn volMem : Int) (e : Ev) (f : Flow) : Option (Flow × Int) :=
  if env.readEvent = readEventFt2 ∧ frame ≥ f.speed then some (f, volMem) else
  let a := if env.readEvent = readEventIt then (e.fxt, e.fxp) else (e.f2t, e.f2p)
  let b := if env.readEvent = readEventIt then (e.f2t, e.f2p) else (e.fxt, e.fxp)
  match processFx env ord row chn volMem a.1 a.2 f with
  | none => none
  | some (f1, vm1) => processFx env ord row chn vm1 b.1 b.2 f1

/-- one channel of `read_row`: speed pre-scan, then the event is read unless it is delayed or a
row delay is repeating the row -/
def readRowChan (env : Env) (ord row frame chn volMem : Int) (e : Ev) (f0 : Flow) : Option Flow :=
  let f := checkDelaySpeed e f0
  if isDelayed e then some f
  else if f.rowdelaySet = 0 ∨ (hasBit f.rowdelaySet rowdelayFirstFrame = true ∧ f.rowdelay > 0) then
    (readEvent env ord row frame chn volMem e f).map (·.1)
  else some f

/-- `read_row`: channels `chn, chn+1, …` with their events and `xc->vol.memory` -/
def readRow (env : Env) (ord row frame : Int) : Int → List (Ev × Int) → Flow → Option Flow
  | _, [], f => some f
  | chn, (e, vm) :: rest, f =>
    match readRowChan env ord row frame chn vm e f with
    | none => none
    | some f1 => readRow env ord row frame (chn + 1) rest f1

/-- `play_channel` on the tick of the row read: a stored event whose `xc->delay` is 1 is read now
(`if (--xc->delay == 0) libxmp_read_event(...)`), channel by channel, after `read_row`, the ST2.6
step and `inject_event` -/
def readDelayedNow (env : Env) (ord row frame : Int) : Int → List (Ev × Int) → Flow → Option Flow
  | _, [], f => some f
  | chn, (e, vm) :: rest, f =>
    if delayTicks e = 1 then
      match readEvent env ord row frame chn vm e f with
      | none => none
      | some (f1, _) => readDelayedNow env ord row frame (chn + 1) rest f1
    else readDelayedNow env ord row frame (chn + 1) rest f

/-- end of `xmp_play_frame`: `f->rowdelay_set &= ~ROWDELAY_FIRST_FRAME` -/
def clearFirstFrame (f : Flow) : Flow :=
  if hasBit f.rowdelaySet rowdelayFirstFrame then { f with rowdelaySet := f.rowdelaySet - rowdelayFirstFrame } else f

/-- the ST2.6 speed step of `xmp_play_frame` on a flow record (`Seq.st26Step`) -/
def st26StepFlow (f : Flow) : Flow :=
  if f.st26 ≠ 0 then
    { f with speed := if (f.st26 / 0x10000) % 2 = 1 then (f.st26 / 256) % 256 else f.st26 % 256,
             st26 := if (f.st26 / 0x10000) % 2 = 1 then f.st26 - 0x10000 else f.st26 + 0x10000 }
  else f

/-- The effect side of the first tick of a row when nothing is injected and no event stored on an
earlier row comes due: `read_row`, the ST2.6 step, the same-tick read of one-tick delayed events by
`play_channel`, the end-of-frame clearing of `ROWDELAY_FIRST_FRAME` (driver command `fxrow`). -/
def firstTick (env : Env) (ord row frame : Int) (chans : List (Ev × Int)) (f : Flow) : Option Flow :=
  match readRow env ord row frame 0 chans f with
  | none => none
  | some f1 =>
    match readDelayedNow env ord row frame 0 chans (st26StepFlow f1) with
    | none => none
    | some f2 => some (clearFirstFrame f2)

/-- IT tempo slide of `play_channel` (`p->bpm += xc->tempo.slide; CLAMP(p->bpm, 0x20, 0xff)`) -/
def tempoSlideStep (f : Flow) (slide : Int) : Flow :=
  let b := f.bpm + slide
  { f with bpm := if b < 0x20 then 0x20 else if b > 0xff then 0xff else b }

/-! ## Link to the sequencer state of `XmpModel.Seq` -/

/-- the part of `Flow` that `Seq.St` does not carry (never read by the kernel) -/
structure Extras where
  rowdelaySet : Int := 0
  jumpInPat : Int := -1
  loopParam : Int := -1
  loopStart : Int := -1
  loopCount : Int := 0
  loopActive : Int := 0
  loops : List Loop := []
  farMode : Int := 1
  farCoarse : Int := 0
  farFine : Int := 0
  deriving Repr, Inhabited

def toFlow (s : St) (x : Extras) : Flow :=
  { speed := s.speed, bpm := s.bpm, gvol := s.gvol, st26 := s.st26, pbreak := s.pbreak, jump := s.jump, delay := s.delay,
    jumpline := s.jumpline, loopDest := s.loopDest, rowdelay := s.rowdelay, rowdelaySet := x.rowdelaySet,
    jumpInPat := x.jumpInPat, loopParam := x.loopParam, loopStart := x.loopStart, loopCount := x.loopCount,
    loopActive := x.loopActive, loops := x.loops, farMode := x.farMode, farCoarse := x.farCoarse, farFine := x.farFine }

/-- write the effect-owned variables back; the kernel-owned ones (`ord pos row frame loopCount
sequence numRows endPoint ftBpm`) stay -/
def ofFlow (s : St) (f : Flow) : St :=
  { s with speed := f.speed, bpm := f.bpm, gvol := f.gvol, st26 := f.st26, pbreak := f.pbreak, jump := f.jump,
           delay := f.delay, jumpline := f.jumpline, loopDest := f.loopDest, rowdelay := f.rowdelay }

def extrasOf (f : Flow) : Extras :=
  { rowdelaySet := f.rowdelaySet, jumpInPat := f.jumpInPat, loopParam := f.loopParam, loopStart := f.loopStart,
    loopCount := f.loopCount, loopActive := f.loopActive, loops := f.loops, farMode := f.farMode, farCoarse := f.farCoarse,
    farFine := f.farFine }

/-- One write of an effect stage to the variables the kernel reads.  Every writer of
`p->speed`, `p->bpm`, `p->st26_speed`, `f->jump`, `f->jumpline` outside the kernel is one of
these (tools/checks/c16.py checks the list of writer sites of the C sources on every run). -/
inductive Prim where
  /-- a `libxmp_process_fx` call (from `read_row`, `inject_event` or a delayed event): channel,
  `xc->vol.memory`, effect, parameter; the pattern-loop bookkeeping it meets is `x` -/
  | fx (x : Extras) (chn volMem fxt fxp : Int)
  /-- a whole `read_row` over the events of the row (with each channel's `xc->vol.memory`), meeting the
  pattern-loop bookkeeping `x` -/
  | row (x : Extras) (chans : List (Ev × Int))
  /-- the speed pre-scan of `check_delay` for one event -/
  | cdSpeed (e : Ev)
  /-- an IT tempo slide tick -/
  | tempoSlide (slide : Int)
  /-- a global volume slide / clamp (`update_volume`): any value -/
  | gvol (v : Int)
  /-- a write by code that is not modelled (none is left in libxmp's player; kept for extensions):
  constrained like `Seq.Eff` -/
  | raw (e : Eff)

/-- Where each writer function of the C sources is modelled: the kernel functions in `XmpModel.Seq`
(`kernel`), the effect interpreters as `Prim` constructors, `load` = outside playback (module
load), `raw` = not modelled, constrained by the monitored `Seq.EffOk`. -/
def modelledWriters : List (String × String × String) := [
  ("player.c", "next_order", "kernel: Seq.nextOrder"),
  ("player.c", "next_row", "kernel: Seq.nextRow"),
  ("player.c", "update_from_ord_info", "kernel: Seq.updateFromOrdInfo"),
  ("player.c", "libxmp_reset_flow", "kernel: Seq.resetFlow"),
  ("player.c", "xmp_play_frame", "kernel: Seq.reposPrep / Seq.st26Step"),
  ("player.c", "xmp_start_player", "kernel: Seq.start"),
  ("control.c", "set_position", "kernel: Seq.setPosition"),
  ("effects.c", "libxmp_process_fx", "Prim.fx: Fx.processFx"),
  ("flow.c", "libxmp_process_pattern_loop", "Prim.fx: Fx.patternLoop"),
  ("player.c", "check_delay", "Prim.cdSpeed: Fx.checkDelaySpeed"),
  ("player.c", "play_channel", "Prim.tempoSlide: Fx.tempoSlideStep"),
  ("far_extras.c", "libxmp_far_update_tempo", "Prim.fx: Fx.farTempoFx / Fx.farTranslate"),
  ("load_helpers.c", "libxmp_load_epilogue", "load: zeroed before the scan, set by xmp_start_player")]

/-- is the writer site `(file, function, _)` covered by `modelledWriters`? -/
def writerCovered (w : String × String × String) : Bool :=
  modelledWriters.any fun k => k.1 == w.1 && k.2.1 == w.2.1

/-- apply one primitive write to the sequencer state -/
def applyPrim (env : Env) (s : St) : Prim → St
  | .fx x chn volMem fxt fxp =>
    match processFx env s.ord s.row chn volMem fxt fxp (toFlow s x) with
    | some (f, _) => ofFlow s f
    | none => s
  | .row x chans =>
    match readRow env s.ord s.row s.frame 0 chans (toFlow s x) with
    | some f => ofFlow s f
    | none => s
  | .cdSpeed e => ofFlow s (checkDelaySpeed e (toFlow s {}))
  | .tempoSlide d => ofFlow s (tempoSlideStep (toFlow s {}) d)
  | .gvol v => { s with gvol := v }
  | .raw e => applyEff s e

def runPrims (env : Env) (s : St) (ps : List Prim) : St := ps.foldl (applyPrim env) s

/-- One `xmp_play_frame` with the effect stages given as the sequence of writes they perform
(`psA`: `read_row`, only on the first tick of a row; `psB`: `inject_event` + `play_channel`). -/
def playFrameFx (m : SeqMod) (env : Env) (s : St) (psA psB : List Prim) : Res :=
  match kernelStep m s with
  | .ok s1 =>
    let s2 := if s1.frame = 0 then st26Step (runPrims env s1 psA) else s1
    let s3 := runPrims env s2 psB
    .ok { s3 with ftBpm := s3.bpm }
  | r => r

/-- the `Seq.Eff` that overwrites every effect-owned variable with its value in `s'` -/
def effOfSt (s' : St) : Eff :=
  { pbreak := some s'.pbreak, jump := some s'.jump, delay := some s'.delay, jumpline := some s'.jumpline,
    loopDest := some s'.loopDest, rowdelay := some s'.rowdelay, speed := some s'.speed, bpm := some s'.bpm,
    gvol := some s'.gvol, st26 := some s'.st26 }

end Xmp.Fx
