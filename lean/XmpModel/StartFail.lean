import XmpModel.Reset
import XmpModel.Resource
/-!
# StartFail — what a *failing* `xmp_start_player` leaves in `struct context_data` (C04 ∩ C06)

`XmpModel.Reset` (C06) models the success path of `xmp_start_player` member by member
(`startCore`, `mixerOn`); `XmpModel.Resource` (C04) models the allocations and the unwinding of the
failure paths.  This file joins the two: the context image after a failure at each acquisition
site, i.e. the writes of the success path *up to the failing statement* followed by the writes of
the release actions of the unwinding table (`Resource.StartCfg.cleanup`, generated from player.c).

Order of the writes in `xmp_start_player` (src/player.c):

1. `xmp_end_player` when PLAYING                                  (`Reset.endPlayer`)
2. `libxmp_mixer_on`    — site `mixerOn`; on failure only `s.buffer` / `s.buf32` were assigned
3. volumes, position, mute, injected events, first valid order, `mod->len`, `f->num_rows`,
   `f->end_point`, `update_from_ord_info`                          (`PreVirt`)
4. `libxmp_virt_on`     — site `virtOn`; `num_tracks`, `virt_channels`, `maxvoc` are set *before*
   the first allocation (`VirtCounts`) and are kept by its failure path unless `vfr`
5. `libxmp_reset_flow`                                             (`FlowReset`)
6. `f->loop = calloc`   — site `flowLoop`
7. `p->xc_data = calloc`— site `xcData`
8. `xmp_play_buffer(NULL)` resets the buffer bookkeeping          (`BufReset`)
9. `libxmp_new_channel_extras` per channel — site `chanExtras`
10. `ctx->state = XMP_STATE_PLAYING`
-/
namespace Xmp.StartFail
open Xmp.Reset Xmp.Gen.CtxFields
open Xmp.Resource (Site Action StartCfg)

/-- step 3 -/
def PreVirt : Field → Bool
  | .p_master_vol | .p_smix_vol | .p_pos | .p_row | .p_loop_count | .p_sequence | .p_filter | .p_frame | .p_ord
  | .m_mod_len | .p_channel_mute | .p_channel_vol
  | .p_inject_event_note | .p_inject_event_ins | .p_inject_event_vol | .p_inject_event_fxt
  | .p_inject_event_fxp | .p_inject_event_f2t | .p_inject_event_f2p | .p_inject_event_flag
  | .p_flow_num_rows | .p_flow_end_point | .p_scan | .p_speed | .p_bpm | .p_gvol | .p_current_time | .p_frame_time
  | .p_st26_speed => true
  | _ => false

/-- head of `libxmp_virt_on`: written before anything is allocated -/
def VirtCounts : Field → Bool
  | .p_virt_num_tracks | .p_virt_virt_channels | .p_virt_maxvoc => true
  | _ => false

/-- rest of `libxmp_virt_on` -/
def VirtPtrs : Field → Bool
  | .p_virt_voice_array | .p_virt_virt_channel | .p_virt_virt_used => true
  | _ => false

/-- `libxmp_reset_flow` -/
def FlowReset : Field → Bool
  | .p_flow_jumpline | .p_flow_pbreak | .p_flow_loop_count | .p_flow_loop_active_num | .p_flow_delay
  | .p_flow_rowdelay | .p_flow_rowdelay_set
  | .p_flow_jump | .p_flow_loop_dest | .p_flow_loop_param | .p_flow_loop_start | .p_flow_jump_in_pat => true
  | _ => false

/-- `xmp_play_buffer(opaque, NULL, 0, 0)` -/
def BufReset : Field → Bool
  | .p_buffer_data_consumed | .p_buffer_data_in_size => true
  | _ => false

/-- members holding the success-path value when the failure branch of `site` is entered -/
def WrittenBefore (site : Site) (f : Field) : Bool :=
  match site with
  | .mixerOn => false
  | .virtOn => PreVirt f || VirtCounts f
  | .flowLoop => PreVirt f || VirtCounts f || VirtPtrs f || FlowReset f
  | .xcData => PreVirt f || VirtCounts f || VirtPtrs f || FlowReset f || f == .p_flow_loop
  | .chanExtras => PreVirt f || VirtCounts f || VirtPtrs f || FlowReset f || f == .p_flow_loop || f == .p_xc_data
      || BufReset f

/-- the release action that NULLs / zeroes a member (`libxmp_mixer_off`, `libxmp_virt_off`,
`free(f->loop); f->loop = NULL`, `free(p->xc_data); p->xc_data = NULL`) -/
def nuller : Field → Option Action
  | .s_buffer | .s_buf32 => some .mixerOff
  | .p_virt_virt_used | .p_virt_maxvoc | .p_virt_virt_channels | .p_virt_num_tracks
  | .p_virt_voice_array | .p_virt_virt_channel => some .virtOff
  | .p_flow_loop => some .flowLoop
  | .p_xc_data => some .xcData
  | _ => none

/-- one release action as member writes (`chanExtras` only frees blocks hanging from `xc_data[i]`) -/
def cleanupStep (s : Ctx) (a : Action) : Ctx := fun f => if nuller f = some a then cst 0 else s f

/-- the label blocks executed after a failure -/
def cleanup (l : List Action) (s : Ctx) : Ctx := l.foldl cleanupStep s

/-- value of member `f` when the failure branch of `site` is entered: `s1` the context after the
optional xmp_end_player, `m` after a successful libxmp_mixer_on, `full` after the whole success path -/
def failVal (site : Site) (second vfr : Bool) (s1 m full : Ctx) (f : Field) : Val :=
  match site, f with
  | .mixerOn, .s_buffer => null
  | .mixerOn, .s_buf32 => if second then null else s1 f
  | .mixerOn, f => s1 f
  | .virtOn, .p_virt_voice_array => null                      -- calloc failed, or freed and NULLed at err2
  | .virtOn, .p_virt_virt_channel => if second then null else m f
  | .virtOn, .p_virt_num_tracks => if vfr then cst 0 else full f
  | .virtOn, .p_virt_virt_channels => if vfr then cst 0 else full f
  | .virtOn, .p_virt_maxvoc => if vfr then cst 0 else full f
  | .virtOn, .p_virt_virt_used => if vfr then cst 0 else m f
  | .flowLoop, .p_flow_loop => null                            -- the failed calloc's result
  | .xcData, .p_xc_data => null
  | site, f => if WrittenBefore site f then full f else m f

/-- The context when the failure branch of `site` is entered.
* `second`: inside `libxmp_mixer_on` the *second* buffer failed (`s.buf32` assigned NULL, `s.buffer`
  freed and NULLed) rather than the first (`s.buffer` assigned NULL, `s.buf32` untouched); inside
  `libxmp_virt_on` the `virt_channel` table failed (assigned NULL) rather than the voice array or a
  Paula state (`virt_channel` untouched).
* `vfr`: the failure path of `libxmp_virt_on` zeroes the counts it set (generated from virtual.c). -/
def atFailure (X : Ext) (rate format : Int) (site : Site) (second vfr : Bool) (s0 : Ctx) : Ctx :=
  let s1 := if s0 .state 0 > K.XMP_STATE_LOADED then endPlayer s0 else s0
  let m := mixerOn X rate format s1
  fun f => failVal site second vfr s1 m (startCore X m) f

/-- **a failing `xmp_start_player`**: everything written up to the failing acquisition, then the
release actions the unwinding table lists for that site -/
def failedStart (cfg : StartCfg) (X : Ext) (rate format : Int) (site : Site) (second vfr : Bool) (s0 : Ctx) : Ctx :=
  cleanup (cfg.cleanup site) (atFailure X rate format site second vfr s0)

/-- decidable condition under which the members that must be NULL / 0 whenever the context is not
playing (`Reset.IdleField`: `p.xc_data`, `s.buffer`, `p.virt.virt_channels`, `p.virt.virt_used`) are so
after a failure at `site` -/
def idleAfter (cfg : StartCfg) (site : Site) (vfr : Bool) : Bool :=
  let l := cfg.cleanup site
  (site == .mixerOn || l.contains .mixerOff)
    && (site != .chanExtras || l.contains .xcData)
    && (site == .mixerOn || l.contains .virtOff || (site == .virtOn && vfr))

/-- does libxmp_virt_on's failure path zero everything it set? (from the generated list) -/
def vfrNow : Bool :=
  ["maxvoc", "num_tracks", "virt_channels", "virt_used"].all Gen.StartCfg.virtOnFailZeroes.contains

/-- the site (and sub-site) at which the `k`-th allocator call of `xmp_start_player` lives, for a module
shape `pp` (mirrors the allocation order of `Resource.startPlayer`) -/
def siteOf (pp : Resource.StartParams) (k : Nat) : Option (Site × Bool) :=
  if k < 2 then some (.mixerOn, k == 1) else
  let k := k - 2
  let nv := 1 + (if pp.amiga then pp.maxvoc else 0) + 1
  if k < nv then some (.virtOn, k + 1 == nv) else
  let k := k - nv
  if k = 0 then some (.flowLoop, false) else
  if k = 1 then some (.xcData, false) else
  if pp.extras ∧ k - 2 < pp.virtch then some (.chanExtras, false) else none

end Xmp.StartFail
