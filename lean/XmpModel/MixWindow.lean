import XmpModel.Basic
/-!
# Model of the sample window a mixing kernel touches (src/mixer.c + src/mix_all.c)

`libxmp_mixer_softmixer` decides how many output samples (`samples`) a kernel
may produce before the voice reaches `vi->end` (forward) or `vi->start`
(reverse):

    samples = min(size, ceil((end - pos) / step))            (forward)
    samples = min(size, ceil((pos - start) / step))          (reverse)

and the kernel then walks the sample in 16.16 fixed point (`VAR_NORM`,
`UPDATE_POS`, `NEAREST_ROUND` in mix_all.c):

    q₀ = (int)pos · 2¹⁶ + (int)(2¹⁶ · frac(pos))   [+ 2¹⁵ for nearest-neighbour]
    qᵢ₊₁ = qᵢ + stepfix,   stepfix = (int)(step_dir · 2¹⁶)
    index used at iteration i:  qᵢ >> 16, taps at offsets −1 … +2 (spline),
                                0 … +1 (linear), 0 (nearest)

The real quantities `pos`, `step` are IEEE doubles; the model represents them
as exact rationals `pn/D`, `sn/D` over a common denominator `D > 0`, and the
truncations of the C code as the inequalities they guarantee
(`q₀·D ≤ 2¹⁶·pn`, `stepfix·D ≤ 2¹⁶·sn` for the forward direction and the
mirror images for reverse).  Floating-point rounding of `ceil(...)` is outside
the model; the correspondence harness evaluates the conclusion on every real
kernel call.
-/
namespace Xmp.MixWindow

/-- 2¹⁶ (`1 << SMIX_SHIFT`) -/
def S : Int := 65536

/-- fixed-point position at iteration `i` -/
def q (q0 stepfix : Int) (i : Nat) : Int := q0 + (i : Int) * stepfix

/-- sample-frame index the kernel reads at iteration `i` (`pos` after `i` × UPDATE_POS) -/
def idx (q0 stepfix : Int) (i : Nat) : Int := (q q0 stepfix i) / S

/-- reach of the interpolators around `idx` (frames): spline −1…+2, linear 0…+1, nearest 0 -/
def tapLo : Nat → Int
  | 2 => -1   -- XMP_INTERP_SPLINE
  | _ => 0
def tapHi : Nat → Int
  | 2 => 2
  | 1 => 1    -- XMP_INTERP_LINEAR
  | _ => 0

/-- Executable check used by the driver on recorded kernel calls: every tap of
every iteration lies in `[-1, len + 3]` (frames), the region `libxmp_load_sample`
allocates and fills around the sample (1 frame before, 4 frames after). -/
def windowOk (q0 stepfix : Int) (count : Nat) (interp : Nat) (len : Int) : Bool :=
  (List.range count).all fun i =>
    decide (-1 ≤ idx q0 stepfix i + tapLo interp) && decide (idx q0 stepfix i + tapHi interp ≤ len + 3)

end Xmp.MixWindow
