import XmpModel.MixKernel
import XmpModel.Gen.MixKernelPaulaConsts
/-!
# Bit-exact model of the Paula (Amiga 500) kernels of src/mix_paula.c (C14)

The four `MIXER(..._a500[_filter])` functions are one loop selected by two switches: mono or
stereo output, A500 LED filter table off / on (`tabnum` of `output_sample`).

| C (mix_paula.c, paula.h)                         | model                     |
|--------------------------------------------------|---------------------------|
| `struct paula_state` (`global_output_level`, the active part of `blepstate[]`, `remainder`, `fdiv`) | `PState` |
| `input_sample`                                   | `inputSample`             |
| `do_clock`                                       | `doClock`, `clockBleps`   |
| `output_sample` (with `winsinc_integral[tabnum][age]` of precomp_blep.h, generated) | `outputSample` |
| `PAULA_INPUT()`                                  | `paulaInput`              |
| `UPDATE_POS(x)`                                  | `pUpdatePos`              |
| `PAULA_SIMULATION(x)`                            | `simulate`                |
| `MIX_MONO()` / `MIX_STEREO()` with `vl <<= 8`    | `pWords`                  |
| the kernel loop on the real buffer               | `ploopBuf`, `prun`        |
| the same without the buffer                      | `ploop`, `pcontrib`       |

`remainder` and `fdiv` are C `double`s.  They are modelled *exactly*: a non-negative finite
double is `m · 2^e` (`Dbl`); `remainder / MINIMUM_INTERVAL`, `(int)remainder` and
`remainder -= num_in * MINIMUM_INTERVAL` are exact in IEEE arithmetic (power-of-two divisor,
truncation, difference of a double and a smaller integer), `remainder += fdiv` rounds to
nearest-even at 53 bits (`Dbl.add`).

Tie: harness/c14_kernel.c (mode `paula`) calls the real kernels through `a500_mixers[]` /
`a500led_mixers[]` of mixer.c on random voices and Paula states; buffer and the whole Paula
state after the call are compared with `prun` (driver command `pk`).
-/
namespace Xmp.MixKernel.Paula
open Xmp.Gen.MixKernelConsts Xmp.Gen.MixKernelPaulaConsts
open Xmp.MixLinear (Acc Buf toAcc addInto zeros)
open Xmp.MixKernel (store)

/-! ## Non-negative doubles, exactly -/

/-- the double `m · 2^e` (`m = 0`: zero) -/
structure Dbl where
  m : Nat
  e : Int
  deriving Repr, DecidableEq

/-- `m · 2^(e + k)` with `e + k ≥ 0`, else the floor of the quotient -/
def scaleFloor (m : Nat) (e : Int) : Nat :=
  if 0 ≤ e then m * 2 ^ e.toNat else m / 2 ^ (-e).toNat

/-- `(int)d` -/
def Dbl.floor (d : Dbl) : Nat := scaleFloor d.m d.e

/-- `(int)(d / 2^k)` -/
def Dbl.floorDiv2 (d : Dbl) (k : Nat) : Nat := scaleFloor d.m (d.e - k)

/-- exact `d - n` for `n ≤ d` -/
def Dbl.subNat (d : Dbl) (n : Nat) : Dbl :=
  if 0 ≤ d.e then { m := d.m * 2 ^ d.e.toNat - n, e := 0 }
  else { m := d.m - n * 2 ^ (-d.e).toNat, e := d.e }

/-- number of binary digits -/
def bitLen (n : Nat) : Nat := if n = 0 then 0 else Nat.log2 n + 1

/-- round `M · 2^e` to 53 significant bits, ties to even (IEEE 754 binary64, normal range) -/
def round53 (M : Nat) (e : Int) : Dbl :=
  let k := bitLen M - 53
  if k = 0 then { m := M, e := e } else
  let q := M >>> k
  let r := M % 2 ^ k
  let half := 2 ^ (k - 1)
  let q' := if r > half ∨ (r = half ∧ q % 2 = 1) then q + 1 else q
  { m := q', e := e + k }

/-- IEEE `a + b` -/
def Dbl.add (a b : Dbl) : Dbl :=
  let e := min a.e b.e
  round53 (a.m * 2 ^ (a.e - e).toNat + b.m * 2 ^ (b.e - e).toNat) e

/-- canonical form for comparison: odd mantissa (or `0 · 2^0`) -/
def Dbl.canon (d : Dbl) : Dbl :=
  if d.m = 0 then { m := 0, e := 0 } else
  let rec go (fuel : Nat) (m : Nat) (e : Int) : Dbl :=
    match fuel with
    | 0 => { m := m, e := e }
    | f + 1 => if m % 2 = 0 then go f (m / 2) (e + 1) else { m := m, e := e }
  go 1100 d.m d.e

/-! ## Paula state -/

/-- `struct paula_state`: `bleps` is the active part of `blepstate[]` as `(level, age)` -/
structure PState where
  glob : Int
  bleps : List (Int × Int)
  rem : Dbl
  fdiv : Dbl
  deriving Repr, DecidableEq

/-- value of an `int16` object after storing `x` -/
def wrap16 (x : Int) : Int := (x + 32768) % 65536 - 32768

/-- `input_sample(paula, sample)` -/
def inputSample (s : PState) (x : Int) : PState :=
  if x ≠ s.glob then
    let bl := if s.bleps.length > maxBleps - 1 then s.bleps.take (maxBleps - 1) else s.bleps
    { s with bleps := (wrap16 (x - s.glob), 0) :: bl, glob := x }
  else s

/-- the loop of `do_clock`: every blep ages by `c`; the first one that reaches `BLEP_SIZE` ends the
active list -/
def clockBleps (c : Int) : List (Int × Int) → List (Int × Int)
  | [] => []
  | (lv, age) :: r => if age + c ≥ blepSize then [] else (lv, age + c) :: clockBleps c r

/-- `do_clock(paula, cycles)` -/
def doClock (s : PState) (c : Int) : PState :=
  if c ≤ 0 then s else { s with bleps := clockBleps c s.bleps }

def blepRowsA : Array (Int × Int) := blepRows.toArray

/-- `winsinc_integral[tabnum][age]` -/
def winsinc (tab : Bool) (age : Int) : Int :=
  let r := blepRowsA.getD age.toNat (0, 0)
  if tab then r.2 else r.1

/-- `output_sample(paula, tabnum)` -/
def outputSample (s : PState) (tab : Bool) : Int :=
  let out := s.bleps.foldl (fun o b => o - winsinc tab b.2 * b.1) (s.glob * 2 ^ blepScale)
  let o := out >>> blepScale
  if o < -32768 then -32768 else if o > 32767 then 32767 else o

/-! ## The kernel -/

/-- what a Paula kernel reads of `*vi` (besides `*vi->paula`) -/
structure PVoice where
  /-- `((int8 *)vi->sptr)[i]` -/
  smp : Int → Int
  /-- `(unsigned int)vi->pos` -/
  pos : Int
  frac : Int
  /-- `(unsigned int)vi->end` -/
  end_ : Int
  st : PState

structure PArgs where
  count : Nat
  vl : Int
  vr : Int
  step : Int
  stereoOut : Bool
  /-- `_filter` kernels: table 1 -/
  tab : Bool
  deriving Repr, DecidableEq

/-- loop variables: `pos` (unsigned), `frac`, and `*vi->paula` -/
structure PSt where
  pos : Int
  frac : Int
  st : PState
  deriving Repr, DecidableEq

/-- `PAULA_INPUT()` -/
def paulaInput (v : PVoice) (pos : Int) : Int := v.smp (if pos < v.end_ then pos else v.end_)

/-- `UPDATE_POS(x)` (`pos` is `unsigned int`) -/
def pUpdatePos (x : Int) (s : PSt) : PSt :=
  let f := s.frac + x
  { s with pos := (s.pos + (f >>> smixShift)) % 2 ^ 32, frac := f % (smixMask + 1 : Nat) }

/-- the `for (i = 0; i < num_in - 1; i++)` loop of `PAULA_SIMULATION` -/
def inputLoop (v : PVoice) (ministep : Int) : Nat → PSt → PSt
  | 0, s => s
  | n + 1, s =>
    let st := doClock (inputSample s.st (paulaInput v s.pos)) minimumInterval
    inputLoop v ministep n (pUpdatePos ministep { s with st := st })

/-- `PAULA_SIMULATION(tab)`: the output sample `smp_in` and the state after it -/
def simulate (v : PVoice) (a : PArgs) (s : PSt) : Int × PSt :=
  let numIn := s.st.rem.floorDiv2 4
  let ministep := Int.tdiv a.step numIn
  let s1 := inputLoop v ministep (numIn - 1) s
  let st2 := inputSample s1.st (paulaInput v s1.pos)
  let rem := st2.rem.subNat (numIn * minimumInterval)
  let st3 := doClock { st2 with rem := rem } rem.floor
  let out := outputSample st3 a.tab
  let st4 := doClock st3 ((minimumInterval : Int) - rem.floor)
  let s5 := pUpdatePos (a.step - ((numIn : Int) - 1) * ministep) { s1 with st := st4 }
  (out, { s5 with st := { s5.st with rem := Dbl.add s5.st.rem s5.st.fdiv } })

/-- `MIX_MONO()` / `MIX_STEREO()` after `vl <<= 8; vr <<= 8` -/
def pWords (a : PArgs) (smpIn : Int) : List Int :=
  if a.stereoOut then [smpIn * (a.vl * 2 ^ paulaLevelShift.getD 0), smpIn * (a.vr * 2 ^ paulaLevelShift.getD 0)]
  else [smpIn * (a.vl * 2 ^ paulaLevelShift.getD 0)]

def PSt.init (v : PVoice) : PSt := { pos := v.pos, frac := v.frac, st := v.st }

/-- `LOOP { PAULA_SIMULATION(tab); MIX_*(); }` threading the buffer -/
def ploopBuf (v : PVoice) (a : PArgs) : Nat → PSt → Buf → Buf × PSt
  | 0, s, buf => (buf, s)
  | n + 1, s, buf =>
    let r := simulate v a s
    let w := store buf (pWords a r.1)
    let rest := ploopBuf v a n r.2 w.2
    (w.1 ++ rest.1, rest.2)

/-- **A whole Paula kernel call**: the buffer from `buffer` on and `*vi->paula` after it -/
def prun (v : PVoice) (a : PArgs) (buf : Buf) : Buf × PState :=
  let r := ploopBuf v a a.count (PSt.init v) buf
  (r.1, r.2.st)

/-- the loop without the buffer -/
def ploop (v : PVoice) (a : PArgs) : Nat → PSt → List Int × PSt
  | 0, s => ([], s)
  | n + 1, s =>
    let r := simulate v a s
    let rest := ploop v a n r.2
    (pWords a r.1 ++ rest.1, rest.2)

/-- **The contribution of a Paula kernel call**: a function of the voice (sample window, position,
Paula state) and the scalar arguments alone -/
def pcontrib (v : PVoice) (a : PArgs) : List Int := (ploop v a a.count (PSt.init v)).1

def pcontribAcc (v : PVoice) (a : PArgs) : Buf := (pcontrib v a).map toAcc

/-- `*vi->paula` after the call -/
def pstateAfter (v : PVoice) (a : PArgs) : PState := (ploop v a a.count (PSt.init v)).2.st

end Xmp.MixKernel.Paula
