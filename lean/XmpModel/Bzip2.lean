import XmpModel.Crc
import XmpModel.Gates
import XmpModel.Container
import XmpModel.Gen.Bzip2Facts
/-!
# The bzip2 decoder of libxmp (src/depackers/bunzip2.c, a micro-bunzip / toybox `bzcat` derivative)

Everything `decrunch_bzip2` does with the bytes of a `.bz2` file is modelled here, in the order of the C:

* `get_bits`            — MSB-first bit reader (`getBits`); the stream is the bit string `toBits file`
* `start_bunzip`        — `BZh` + level digit, `dbufSize = 100000 * level`
* `read_block_header`   — 48-bit magic, block CRC, the *randomised* bit (refused: RETVAL_OBSOLETE_INPUT),
                          `origPtr`, 16×16 symbol bitmap, `groupCount` 2..6, `nSelectors` (15 bits, ≠ 0), the
                          MTF-coded selector list in unary, delta-coded code lengths 1..20, and the
                          `limit/base/permute` tables exactly as the C computes them
* `read_huffman_data`   — symbol loop: group switch every 50 symbols, canonical decode through the tables,
                          RUNA/RUNB accumulation (32-bit wrap included), run flush with the two `dbufSize`
                          tests, MTF of the literal, terminating symbol, final `origPtr` test
* `burrows_wheeler_prep`— cumulative counts and the `dbuf[byteCount[uc]++] |= ii << 8` linked list
* `write_bunzip_data`   — pointer chasing through the list, final run-length stage (`run`/`previous`
                          state machine with its initial state `writeRun = -1`, `writeCurrent = dbuf[origPtr]`),
                          block CRC, stream CRC, end-of-stream block; `decrunch_bzip2`'s final comparison.

`bunzip2 file : Option Bytes` is what `decrunch_bzip2` hands back (`none` = −1).  `run file : Result` also
carries the internal status code and the CRC registers at the moment `write_bunzip_data` returns; the
correspondence harness compares all of them.

Abstractions (stated, tied by the correspondence on the streams it runs):
* the 4096-byte input and output buffers are a contiguous bit string / byte list; `flush_bunzip_outbuf`'s
  growth rule is reduced to its effect “more than LIBXMP_DEPACK_LIMIT bytes of output → failure”;
* `byteCount[]` is recomputed from the decoded symbols in the prep stage (the C accumulates it while decoding);
* `int` shifts that overflow (`runPos <<= 1` after 31 RUNA/RUNB in a row) wrap modulo 2³² as on every
  supported target; `hh` is `unsigned`;
* tables that persist between blocks (`permute`, `symToByte`, `mtfSymbol`) are rebuilt per block: the C never
  reads a stale entry **except** in the two states named in `Gen.origPtrEqAccepted` / `Gen.selectorEqAccepted`
  (reads outside the modelled state; result `Err.outOfModel`), which exist only while the source has the
  corresponding off-by-one tests.

The second half of the file is the **encoder** used by the theorems and by the correspondence (its streams
are fed to the real decoder): RLE1, BWT by sorted rotations, MTF + RUNA/RUNB, flat-length Huffman coding.
-/
namespace Xmp.Bzip2
open Xmp Xmp.Crc

abbrev Bits := List Bool

/-- status codes of bunzip2.c (`RETVAL_*`); `outOfModel` = the C reads outside the modelled state -/
inductive Err where
  | notBzip | dataError | obsolete | eofIn | eofOut | outOfModel
  deriving DecidableEq, Repr, Inhabited

def Err.code : Err → Int
  | .notBzip => -1
  | .dataError => -2
  | .obsolete => -3
  | .eofIn => -4
  | .eofOut => -5
  | .outOfModel => -99

/-! ## bit reader -/

def byteBits (b : UInt8) : Bits :=
  let n := b.toNat
  [n.testBit 7, n.testBit 6, n.testBit 5, n.testBit 4, n.testBit 3, n.testBit 2, n.testBit 1, n.testBit 0]

/-- the file as a bit string, most significant bit of each byte first -/
def toBits (f : Bytes) : Bits := f.foldr (fun b acc => byteBits b ++ acc) []

def getBitsAux : Nat → Nat → Bits → Except Err (Nat × Bits)
  | 0, acc, s => .ok (acc, s)
  | _ + 1, _, [] => .error .eofIn
  | n + 1, acc, b :: s => getBitsAux n (2 * acc + b.toNat) s

/-- `get_bits(bd, n)`: the next `n` bits as a big-endian number; running out of input is RETVAL_EOF_IN
    (the `longjmp`) -/
def getBits (n : Nat) (s : Bits) : Except Err (Nat × Bits) := getBitsAux n 0 s

/-! ## block header -/

/-- byte values `16*row + j` for the set bits (bit `15 - j`) of one 16-bit row of the symbol bitmap -/
def rowSyms (row kk : Nat) : List UInt8 :=
  (List.range 16).filterMap (fun j => if kk.testBit (15 - j) then some (UInt8.ofNat (16 * row + j)) else none)

def readSymMapGo (hh : Nat) : List Nat → Bits → Except Err (List UInt8 × Bits)
  | [], s => .ok ([], s)
  | ii :: rest, s =>
    if hh.testBit (15 - ii) then
      match getBits 16 s with
      | .error e => .error e
      | .ok (kk, s1) =>
        match readSymMapGo hh rest s1 with
        | .error e => .error e
        | .ok (r, s2) => .ok (rowSyms ii kk ++ r, s2)
    else readSymMapGo hh rest s

/-- `symToByte[]` (its length is `symTotal`) -/
def readSymMap (s : Bits) : Except Err (List UInt8 × Bits) :=
  match getBits 16 s with
  | .error e => .error e
  | .ok (hh, s1) => readSymMapGo hh (List.range 16) s1

/-- `for(jj=0;get_bits(bd,1);jj++) if (jj>=bd->groupCount) return RETVAL_DATA_ERROR;`
    (after the repair proposed in c08-bunzip2-selector-range.diff: `jj+1>=`) -/
def readUnary (gc : Nat) : Nat → Bits → Except Err (Nat × Bits)
  | _, [] => .error .eofIn
  | jj, false :: s => .ok (jj, s)
  | jj, true :: s =>
    if (if Gen.selectorEqAccepted then jj ≥ gc else jj + 1 ≥ gc) then .error .dataError
    else readUnary gc (jj + 1) s

/-- the selector list: unary MTF positions, move-to-front over `0 .. groupCount-1` -/
def readSelectors (gc : Nat) : Nat → List Nat → Array Nat → Bits → Except Err (Array Nat × Bits)
  | 0, _, acc, s => .ok (acc, s)
  | n + 1, mtf, acc, s =>
    match readUnary gc 0 s with
    | .error e => .error e
    | .ok (jj, s1) =>
      -- `uc = bd->mtfSymbol[jj]` with jj == groupCount is a read of the previous block's symbol MTF state
      if jj ≥ gc then .error .outOfModel
      else
        let uc := mtf.getD jj 0
        readSelectors gc n (uc :: mtf.eraseIdx jj) (acc.push uc) s1

/-- one code length: `for(;;) { if (hh outside 1..20) error; kk = get_bits(2); if (kk & 2) hh += 1 - ((kk&1)<<1);
    else { inbufBitCount++; break; } }` — two bits are fetched, the second is given back on exit -/
def readLenDelta (hh : Nat) : Bits → Except Err (Nat × Bits)
  | b1 :: b2 :: rest =>
    if hh < 1 ∨ hh > Gen.maxHufCodeBits then .error .dataError
    else if b1 then readLenDelta (if b2 then hh - 1 else hh + 1) rest
    else .ok (hh, b2 :: rest)
  | _ => if hh < 1 ∨ hh > Gen.maxHufCodeBits then .error .dataError else .error .eofIn

def readLengths : Nat → Nat → Bits → Except Err (List Nat × Bits)
  | 0, _, s => .ok ([], s)
  | n + 1, hh, s =>
    match readLenDelta hh s with
    | .error e => .error e
    | .ok (l, s1) =>
      match readLengths n l s1 with
      | .error e => .error e
      | .ok (ls, s2) => .ok (l :: ls, s2)

/-- decode tables of one Huffman group -/
structure Group where
  minLen : Nat
  maxLen : Nat
  limit : Array Int
  base : Array Int
  permute : Array Nat
  deriving Inhabited

def upd (f : Nat → Int) (k : Nat) (v : Int) : Nat → Int := fun i => if i = k then v else f i

/-- `for (ii = minLen; ii < maxLen; ii++) { pp += temp[ii]; limit[ii] = pp-1; pp <<= 1;
      base[ii+1] = pp-(hh+=temp[ii]); }` over the listed levels -/
def lbLoop (temp : Nat → Nat) : List Nat → Nat → Nat → (Nat → Int) → (Nat → Int) → Nat × (Nat → Int) × (Nat → Int)
  | [], pp, _, L, B => (pp, L, B)
  | ii :: rest, pp, hh, L, B =>
    let pp1 := pp + temp ii
    let pp2 := 2 * pp1
    let hh1 := hh + temp ii
    lbLoop temp rest pp2 hh1 (upd L ii ((pp1 : Int) - 1)) (upd B (ii + 1) ((pp2 : Int) - (hh1 : Int)))

def intMax : Int := 2147483647

/-- the symbols with code length `ii`, in increasing order (one pass of the `permute` loop) -/
def symsOfLen (lengths : List Nat) (ii : Nat) : List Nat :=
  (lengths.zipIdx.filter (fun p => p.1 == ii)).map (·.2)

def minMax (lengths : List Nat) : Nat × Nat :=
  match lengths with
  | [] => (0, 0)
  | l0 :: rest =>
    rest.foldl (fun (mm : Nat × Nat) l => if l > mm.2 then (mm.1, l) else if l < mm.1 then (l, mm.2) else mm) (l0, l0)

def limitFn (lengths : List Nat) : Nat → Int :=
  let (minLen, maxLen) := minMax lengths
  let temp := fun ii => lengths.count ii
  let (pp, L, _) := lbLoop temp (List.range' minLen (maxLen - minLen)) 0 0 (fun _ => 0) (fun _ => 0)
  upd (upd L maxLen ((pp : Int) + (temp maxLen : Int) - 1)) (maxLen + 1) intMax

def baseFn (lengths : List Nat) : Nat → Int :=
  let (minLen, maxLen) := minMax lengths
  let temp := fun ii => lengths.count ii
  let (_, _, B) := lbLoop temp (List.range' minLen (maxLen - minLen)) 0 0 (fun _ => 0) (fun _ => 0)
  upd B minLen 0

def permuteList (lengths : List Nat) : List Nat :=
  let (minLen, maxLen) := minMax lengths
  (List.range' minLen (maxLen + 1 - minLen)).flatMap (symsOfLen lengths)

/-- tables of one group from its code lengths -/
def mkGroup (lengths : List Nat) : Group :=
  let (minLen, maxLen) := minMax lengths
  { minLen := minLen, maxLen := maxLen,
    limit := ((List.range 23).map (limitFn lengths)).toArray,
    base := ((List.range 23).map (baseFn lengths)).toArray,
    permute := (permuteList lengths).toArray }

def readGroups (symCount : Nat) : Nat → Bits → Except Err (List Group × Bits)
  | 0, s => .ok ([], s)
  | n + 1, s =>
    match getBits 5 s with
    | .error e => .error e
    | .ok (hh, s1) =>
      match readLengths symCount hh s1 with
      | .error e => .error e
      | .ok (ls, s2) =>
        match readGroups symCount n s2 with
        | .error e => .error e
        | .ok (gs, s3) => .ok (mkGroup ls :: gs, s3)

/-- what `read_block_header` leaves behind for a data block (after magic and CRC) -/
structure Hdr where
  origPtr : Nat
  symToByte : Array UInt8
  selectors : Array Nat
  groups : Array Group
  deriving Inhabited

def Hdr.symTotal (h : Hdr) : Nat := h.symToByte.size

/-- `read_block_header` after the signature and CRC words -/
def readHeader (dbufSize : Nat) (s : Bits) : Except Err (Hdr × Bits) :=
  match getBits 1 s with
  | .error e => .error e
  | .ok (rnd, s1) =>
  if rnd ≠ 0 then .error .obsolete else
  match getBits 24 s1 with
  | .error e => .error e
  | .ok (origPtr, s2) =>
  if (if Gen.origPtrEqAccepted then origPtr > dbufSize else origPtr ≥ dbufSize) then .error .dataError else
  match readSymMap s2 with
  | .error e => .error e
  | .ok (symToByte, s3) =>
  match getBits 3 s3 with
  | .error e => .error e
  | .ok (gc, s4) =>
  if gc < 2 ∨ gc > Gen.maxGroups then .error .dataError else
  match getBits 15 s4 with
  | .error e => .error e
  | .ok (nSel, s5) =>
  if nSel = 0 then .error .dataError else
  match readSelectors gc nSel (List.range gc) #[] s5 with
  | .error e => .error e
  | .ok (sels, s6) =>
  match readGroups (symToByte.length + 2) gc s6 with
  | .error e => .error e
  | .ok (gs, s7) =>
    .ok ({ origPtr := origPtr, symToByte := symToByte.toArray, selectors := sels, groups := gs.toArray }, s7)

/-! ## symbol loop (`read_huffman_data`) -/

/-- `while (jj > hufGroup->limit[ii]) { ii++; jj = (jj << 1) | next bit; }` -/
def hufLoop (g : Group) : Nat → Nat → Nat → Bits → Except Err (Nat × Nat × Bits)
  | 0, ii, jj, s => .ok (ii, jj, s)
  | f + 1, ii, jj, s =>
    if (jj : Int) > g.limit.getD ii 0 then
      match s with
      | [] => .error .eofIn
      | b :: s' => hufLoop g f (ii + 1) (2 * jj + b.toNat) s'
    else .ok (ii, jj, s)

/-- one Huffman-coded symbol through `limit/base/permute` -/
def decodeSym (g : Group) (s : Bits) : Except Err (Nat × Bits) :=
  match getBits g.minLen s with
  | .error e => .error e
  | .ok (jj0, s1) =>
    match hufLoop g 22 g.minLen jj0 s1 with
    | .error e => .error e
    | .ok (ii, jj, s2) =>
      let j2 : Int := (jj : Int) - g.base.getD ii 0
      if ii > g.maxLen ∨ j2 < 0 ∨ j2 ≥ (Gen.maxSymbols : Int) then .error .dataError
      else .ok (g.permute.getD j2.toNat 0, s2)

/-- state of the MTF / run-length stage -/
structure MState where
  /-- `runPos` (bit pattern of the `int`) -/
  runPos : Nat
  /-- `hh` (`unsigned`) -/
  hh : Nat
  /-- low bytes of `dbuf[0 .. dbufCount)` -/
  dbuf : Array UInt8
  /-- `mtfSymbol[]` -/
  mtf : List Nat
  deriving Inhabited

def two32 : Nat := 4294967296

/-- what happens to one decoded symbol; `true` = the terminating symbol -/
def processSym (dbufSize : Nat) (symToByte : Array UInt8) (st : MState) (sym : Nat) : Except Err (MState × Bool) :=
  if sym ≤ 1 then
    let rp := if st.runPos = 0 then 1 else st.runPos
    let h0 := if st.runPos = 0 then 0 else st.hh
    -- (proposed_fixes/c09-bunzip2-run-overflow.diff) `if (runPos > bd->dbufSize) return RETVAL_DATA_ERROR;`
    if Gen.runPosBounded ∧ rp > dbufSize then .error .dataError else
    .ok ({ st with runPos := (rp * 2) % two32, hh := (h0 + (rp <<< sym) % two32) % two32 }, false)
  else
    -- run flush
    let flushed : Except Err MState :=
      if st.runPos ≠ 0 then
        if st.hh > dbufSize ∨ st.dbuf.size + st.hh > dbufSize then .error .dataError
        else .ok { st with runPos := 0, dbuf := st.dbuf ++ Array.replicate st.hh (symToByte.getD (st.mtf.getD 0 0) 0) }
      else .ok st
    match flushed with
    | .error e => .error e
    | .ok st1 =>
      if sym > symToByte.size then .ok (st1, true)
      else if st1.dbuf.size ≥ dbufSize then .error .dataError
      else
        let ii := sym - 1
        let uc := st1.mtf.getD ii 0
        .ok ({ st1 with mtf := uc :: st1.mtf.eraseIdx ii, dbuf := st1.dbuf.push (symToByte.getD uc 0) }, false)

/-- the `for (;;)` of `read_huffman_data`; `fuel` ≥ number of remaining bits (every symbol takes ≥ 1 bit) -/
def symLoop (dbufSize : Nat) (h : Hdr) : Nat → Nat → Nat → Group → MState → Bits → Except Err (MState × Bits)
  | 0, _, _, _, _, _ => .error .eofIn
  | fuel + 1, sc, sel, g, st, s =>
    if sc = 0 ∧ sel ≥ h.selectors.size then .error .dataError else
    let g1 := if sc = 0 then h.groups.getD (h.selectors.getD sel 0) default else g
    let sel1 := if sc = 0 then sel + 1 else sel
    let sc1 := if sc = 0 then Gen.groupSize - 1 else sc - 1
    match decodeSym g1 s with
    | .error e => .error e
    | .ok (sym, s1) =>
      match processSym dbufSize h.symToByte st sym with
      | .error e => .error e
      | .ok (st1, done) =>
        if done then .ok (st1, s1) else symLoop dbufSize h fuel sc1 sel1 g1 st1 s1

/-- `read_huffman_data`: the decoded block before the inverse BWT -/
def readHuffmanData (dbufSize fuel : Nat) (h : Hdr) (s : Bits) : Except Err (Array UInt8 × Bits) :=
  match symLoop dbufSize h fuel 0 0 default { runPos := 0, hh := 0, dbuf := #[], mtf := List.range 256 } s with
  | .error e => .error e
  | .ok (st, s1) =>
    if h.origPtr ≥ st.dbuf.size then
      -- `burrows_wheeler_prep` runs although the block is refused and reads `dbuf[origPtr]`
      (if h.origPtr = dbufSize ∧ st.dbuf.size > 0 then .error .outOfModel else .error .dataError)
    else .ok (st.dbuf, s1)

/-! ## inverse BWT (`burrows_wheeler_prep` + the pointer chasing of `write_bunzip_data`) -/

/-- `byteCount[]` as accumulated while decoding -/
def byteCounts (d : Array UInt8) : Array Nat :=
  d.foldl (fun c b => c.modify b.toNat (· + 1)) (Array.replicate 256 0)

/-- "Turn byteCount into cumulative occurrence counts of 0 to n-1." -/
def cumulate (c : Array Nat) : Array Nat :=
  (c.foldl (fun (p : Array Nat × Nat) k => (p.1.push p.2, p.2 + k)) (#[], 0)).1

/-- `for (ii=0; ii < writeCount; ii++) { uc = dbuf[ii]; dbuf[byteCount[uc]] |= (ii << 8); byteCount[uc]++; }` -/
def bwFill (d : Array UInt8) : Nat → Nat → Array Nat → Array Nat → Array Nat
  | 0, _, tt, _ => tt
  | n + 1, ii, tt, bc =>
    let uc := (d.getD ii 0).toNat
    let k := bc.getD uc 0
    bwFill d n (ii + 1) (tt.modify k (· ||| (ii <<< 8))) (bc.modify uc (· + 1))

/-- `dbuf[]` after `burrows_wheeler_prep`: low byte = the symbol, upper 24 bits = the link -/
def bwPrep (d : Array UInt8) : Array Nat :=
  bwFill d d.size 0 (d.map (·.toNat)) (cumulate (byteCounts d))

/-- `pos = dbuf[pos]; current = pos & 0xff; pos >>= 8;` `count` times -/
def bwChase (tt : Array Nat) : Nat → Nat → Array UInt8 → Array UInt8
  | 0, _, acc => acc
  | n + 1, pos, acc =>
    let e := tt.getD pos 0
    bwChase tt n (e >>> 8) (acc.push (UInt8.ofNat (e &&& 0xff)))

/-- the block in original order (before the final run-length stage), and `writeCurrent` -/
def ibwt (d : Array UInt8) (origPtr : Nat) : Array UInt8 × Int :=
  let tt := bwPrep d
  let e0 := tt.getD origPtr 0
  (bwChase tt d.size (e0 >>> 8) #[], ((e0 &&& 0xff : Nat) : Int))

/-! ## final run-length stage -/

/-- the output loop of `write_bunzip_data` on the byte sequence delivered by the pointer chasing:
    `run` / `current` are the C variables of the same name -/
def unrleGo : Int → Int → Array UInt8 → List UInt8 → Array UInt8
  | _, _, acc, [] => acc
  | run, cur, acc, b :: rest =>
    let previous := cur
    let current : Int := (b.toNat : Int)
    if run = Gen.runTrigger then
      -- `copies = current; outbyte = previous; current = -1;`
      let acc1 := acc ++ Array.replicate b.toNat (UInt8.ofNat (previous % 256).toNat)
      unrleGo (if (-1 : Int) ≠ previous then 0 else run + 1) (-1) acc1 rest
    else
      unrleGo (if current ≠ previous then 0 else run + 1) current (acc.push b) rest

/-- output of one block: initial state `writeRun = -1`, `writeCurrent = dbuf[origPtr] & 0xff` -/
def unrle1 (cur0 : Int) (d : List UInt8) : Array UInt8 := unrleGo Gen.writeRunInit cur0 #[] d

/-! ## one block, the stream -/

/-- a data block after its signature and CRC words: the bytes it contributes to the output -/
def decodeBlock (dbufSize fuel : Nat) (s : Bits) : Except Err (Bytes × Bits) :=
  match readHeader dbufSize s with
  | .error e => .error e
  | .ok (h, s1) =>
    match readHuffmanData dbufSize fuel h s1 with
    | .error e => .error e
    | .ok (d, s2) =>
      let (blk, cur0) := ibwt d h.origPtr
      .ok ((unrle1 cur0 blk.toList).toList, s2)

/-- registers visible when `write_bunzip_data` returns -/
structure Result where
  code : Int
  hcrc : BitVec 32
  dcrc : BitVec 32
  tcrc : BitVec 32
  out : Bytes
  /-- `decrunch_bzip2` returns 0 -/
  ok : Bool
  deriving Inhabited

def magicBlockHi : Nat := 0x314159
def magicBlockLo : Nat := 0x265359
def magicEndHi : Nat := 0x177245
def magicEndLo : Nat := 0x385090

/-- `write_bunzip_data(bd, bw, out, 0, 0)`: block after block until the end-of-stream block or an error -/
def streamLoop (dbufSize nbits : Nat) : Nat → BitVec 32 → BitVec 32 → BitVec 32 → Bytes → Bits → Result
  | 0, hc, dc, tc, out, _ => { code := Err.eofIn.code, hcrc := hc, dcrc := dc, tcrc := tc, out := out, ok := false }
  | fuel + 1, hc, dc, tc, out, s =>
    let fail (e : Err) (hc dc : BitVec 32) : Result :=
      { code := e.code, hcrc := hc, dcrc := dc, tcrc := tc, out := out, ok := false }
    match getBits 24 s with
    | .error e => fail e hc dc
    | .ok (ii, s1) =>
    match getBits 24 s1 with
    | .error e => fail e hc dc
    | .ok (jj, s2) =>
    match getBits 32 s2 with
    | .error e => fail e hc dc
    | .ok (crc, s3) =>
    let hc1 : BitVec 32 := BitVec.ofNat 32 crc
    if ii = magicEndHi ∧ jj = magicEndLo then
      -- RETVAL_LAST_BLOCK; `decrunch_bzip2`: `headerCRC == totalCRC`, then the final flush
      { code := -100, hcrc := hc1, dcrc := 0xFFFFFFFF#32, tcrc := tc, out := out,
        ok := (Crc.Gen.bzStreamCrcDead || decide (hc1 = tc)) && decide (out.length ≤ Gen.depackLimit) }
    else if ii ≠ magicBlockHi ∨ jj ≠ magicBlockLo then fail .notBzip hc1 0xFFFFFFFF#32
    else
      match decodeBlock dbufSize nbits s3 with
      | .error .eofIn => fail .eofIn hc1 dc
      | .error e => fail e hc1 0xFFFFFFFF#32
      | .ok (blk, s4) =>
        let dcb := bzBlockCrc blk
        let out1 := out ++ blk
        if out1.length > Gen.depackLimit + Gen.iobufSize then
          { code := Err.eofOut.code, hcrc := hc1, dcrc := dcb, tcrc := tc, out := out1, ok := false }
        else if dcb ≠ hc1 then
          -- `bd->totalCRC = bw->headerCRC+1; return RETVAL_LAST_BLOCK;`
          { code := -100, hcrc := hc1, dcrc := dcb, tcrc := hc1 + 1, out := out1, ok := false }
        else streamLoop dbufSize nbits fuel hc1 dcb (bzCombine tc dcb) out1 s4

/-- `start_bunzip` + `write_bunzip_data` as called by `decrunch_bzip2` -/
def run (f : Bytes) : Result :=
  let s := toBits f
  let fail (e : Err) : Result := { code := e.code, hcrc := 0, dcrc := 0, tcrc := 0, out := [], ok := false }
  match getBits 8 s with
  | .error e => fail e
  | .ok (c0, s1) =>
  if c0 ≠ 0x42 then fail .notBzip else
  match getBits 8 s1 with
  | .error e => fail e
  | .ok (c1, s2) =>
  if c1 ≠ 0x5a then fail .notBzip else
  match getBits 8 s2 with
  | .error e => fail e
  | .ok (c2, s3) =>
  if c2 ≠ 0x68 then fail .notBzip else
  match getBits 8 s3 with
  | .error e => fail e
  | .ok (lv, s4) =>
  if lv < 0x31 ∨ lv > 0x39 then fail .notBzip else
  let nbits := s4.length
  streamLoop (100000 * (lv - 0x30)) nbits (nbits / 80 + 1) 0 0 0 [] s4

/-- `decrunch_bzip2`: the unpacked file, `none` = −1 -/
def bunzip2 (f : Bytes) : Option Bytes :=
  let r := run f
  if r.ok then some r.out else none

/-! # Encoder (specification side of the round-trip theorems; its streams are also fed to the real decoder) -/

/-- `n` bits of `v`, most significant first -/
def putBits : Nat → Nat → Bits
  | 0, _ => []
  | n + 1, v => v.testBit n :: putBits n v

/-- pack a bit string into bytes (zero padding in the last byte) -/
def packByte (b : Bits) : UInt8 :=
  UInt8.ofNat (b.foldl (fun acc x => 2 * acc + x.toNat) 0)

def packBits : Nat → Bits → Bytes
  | 0, _ => []
  | _ + 1, [] => []
  | fuel + 1, b0 :: rest =>
    let s := b0 :: rest
    let chunk := s.take 8
    packByte (chunk ++ List.replicate (8 - chunk.length) false) :: packBits fuel (s.drop 8)

/-! ## first run-length stage: 4 equal bytes + count (0..251), runs cut at 255 -/

def rleRun (b : UInt8) (n : Nat) : Bytes :=
  if n ≥ 4 then [b, b, b, b, UInt8.ofNat (n - 4)] else List.replicate n b

def rle1Go : UInt8 → Nat → Bytes → Bytes
  | cur, n, [] => rleRun cur n
  | cur, n, b :: rest =>
    if b = cur ∧ n < 255 then rle1Go cur (n + 1) rest else rleRun cur n ++ rle1Go b 1 rest

def rle1 : Bytes → Bytes
  | [] => []
  | b :: rest => rle1Go b 1 rest

/-! ## Burrows–Wheeler transform by sorted rotations (the specification) -/

/-- lexicographic `≤` on byte strings -/
def lexLe : Bytes → Bytes → Bool
  | [], _ => true
  | _ :: _, [] => false
  | a :: as, b :: bs => a < b || (a == b && lexLe as bs)

def rot (p : Bytes) (i : Nat) : Bytes := p.drop i ++ p.take i

/-- insertion into a sorted list (before the first strictly greater element) -/
def insertLex (x : Bytes) : List Bytes → List Bytes
  | [] => [x]
  | y :: ys => if lexLe x y then x :: y :: ys else y :: insertLex x ys

def sortLex : List Bytes → List Bytes
  | [] => []
  | x :: xs => insertLex x (sortLex xs)

/-- all rotations, sorted -/
def sortedRots (p : Bytes) : List Bytes :=
  sortLex ((List.range p.length).map (rot p))

/-- last column and the position of the original string among the sorted rotations -/
def bwt (p : Bytes) : Bytes × Nat :=
  let M := sortedRots p
  (M.map (fun r => r.getLastD 0), M.idxOf p)

/-! ## move-to-front + RUNA/RUNB -/

/-- a run of `n ≥ 1` zeros in bijective base 2: RUNA (0) = 1, RUNB (1) = 2 at weights 1, 2, 4, … -/
def runSyms : Nat → Nat → List Nat
  | 0, _ => []
  | _, 0 => []
  | fuel + 1, n + 1 => if (n + 1) % 2 = 1 then 0 :: runSyms fuel (n / 2) else 1 :: runSyms fuel ((n - 1) / 2)

/-- symbols for the MTF positions of `xs` (indices into the used-byte table); pending run length `run` -/
def mtfGo : List Nat → Nat → List Nat → List Nat
  | _, run, [] => runSyms run run
  | mtf, run, x :: xs =>
    let pos := mtf.idxOf x
    if pos = 0 then mtfGo mtf (run + 1) xs
    else runSyms run run ++ (pos + 1) :: mtfGo (x :: mtf.eraseIdx pos) 0 xs

/-- byte values present in the block, increasing (`symToByte`) -/
def usedBytes (l : Bytes) : List UInt8 :=
  ((List.range 256).map UInt8.ofNat).filter (fun b => l.contains b)

/-- the symbol stream of a block: RUNA/RUNB/MTF symbols followed by the terminating symbol -/
def mtfrle (l : Bytes) : List Nat :=
  let used := usedBytes l
  mtfGo (List.range 256) 0 (l.map (fun b => used.idxOf b)) ++ [used.length + 1]

/-! ## block and stream writer (two groups of flat 9-bit codes, every selector 0) -/

def flatLen : Nat := 9

def symMapBits (used : List UInt8) : Bits :=
  let has := fun (v : Nat) => used.contains (UInt8.ofNat v)
  let rowUsed := fun (i : Nat) => (List.range 16).any (fun j => has (16 * i + j))
  (List.range 16).map rowUsed ++
  (List.range 16).flatMap (fun i => if rowUsed i then (List.range 16).map (fun j => has (16 * i + j)) else [])

/-- code lengths of one group: start value `flatLen`, then one 0 bit per symbol -/
def flatLengthsBits (symCount : Nat) : Bits := putBits 5 flatLen ++ List.replicate symCount false

/-- one data block for the (already cut) piece `p` of the payload, `p ≠ []` -/
def encodeBlock (p : Bytes) : Bits :=
  let d := rle1 p
  let (l, orig) := bwt d
  let used := usedBytes l
  let syms := mtfrle l
  let nSel := (syms.length + Gen.groupSize - 1) / Gen.groupSize
  putBits 24 magicBlockHi ++ putBits 24 magicBlockLo ++ putBits 32 (bzBlockCrc p).toNat ++
  [false] ++ putBits 24 orig ++ symMapBits used ++ putBits 3 2 ++ putBits 15 nSel ++
  List.replicate nSel false ++
  flatLengthsBits (used.length + 2) ++ flatLengthsBits (used.length + 2) ++
  syms.flatMap (putBits flatLen)

/-- cut into pieces of `bs` bytes -/
def chunks (bs : Nat) : Nat → Bytes → List Bytes
  | 0, _ => []
  | _ + 1, [] => []
  | fuel + 1, b :: rest => (b :: rest).take bs :: chunks bs fuel ((b :: rest).drop bs)

/-- the whole `.bz2` file: level `lv` (1..9), blocks of at most `bs` payload bytes -/
def bzip2 (lv bs : Nat) (p : Bytes) : Bytes :=
  let parts := chunks bs p.length p
  let bits := putBits 8 0x42 ++ putBits 8 0x5a ++ putBits 8 0x68 ++ putBits 8 (0x30 + lv) ++
    parts.flatMap encodeBlock ++
    putBits 24 magicEndHi ++ putBits 24 magicEndLo ++ putBits 32 (Gates.bzStreamCrc 0 parts).toNat
  packBits (bits.length / 8 + 1) bits

end Xmp.Bzip2

namespace Xmp.Container

/-- the pipeline of C08 with the modelled bzip2 depacker in place of the opaque whole-file parameter -/
def Env.withBzip2 (env : Env) : Env :=
  { env with other := fun n f => if n = "bzip2" then Xmp.Bzip2.bunzip2 f else env.other n f }

end Xmp.Container
