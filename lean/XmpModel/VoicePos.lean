import XmpModel.MixWindow
/-!
# Model of the per-voice position bookkeeping of the software mixer (src/mixer.c)

Mirrors, statement by statement, the part of `libxmp_mixer_softmixer` that
decides *where* in the sample a mixing kernel starts and *how many* output
samples it may produce, and the helpers it relies on:

* `adjust_voice_end`, `has_active_sustain_loop`, `has_active_loop`
* `loop_reposition`
* the tick prologue (negative-position clamp, paused/queued hot swap,
  `get_current_sample`, upper position clamp) → `tickStart`
* one iteration of the segment loop `for (size = usmp = ticksize; size > 0;)`
  → `segStep`
* `libxmp_mixer_voicepos`, `libxmp_mixer_setpatch` (+ `hotswap_sample`),
  `libxmp_mixer_reverse`, `libxmp_mixer_release`

The doubles `vi->pos` and `step` are exact rationals `pos/D`, `sn/D` over one
common denominator `D > 0` (IEEE rounding is outside the model, the
correspondence driver measures how often it matters); everything else is the
integer arithmetic of the C code.  Volumes, ramps, anticlick, filters and the
output buffer do not influence positions and are not modelled here.
-/
namespace Xmp.VoicePos
open Xmp.MixWindow

/-- What the position code reads of a `struct xmp_sample` + `extra_sample_data`. -/
structure Smp where
  len : Int
  lps : Int
  lpe : Int
  sus : Int            -- xtra->sus (0 for smix samples: xtra == NULL)
  sue : Int
  loop : Bool          -- XMP_SAMPLE_LOOP
  lbidir : Bool        -- XMP_SAMPLE_LOOP_BIDIR
  lfull : Bool         -- XMP_SAMPLE_LOOP_FULL
  sloop : Bool         -- XMP_SAMPLE_SLOOP
  sbidir : Bool        -- XMP_SAMPLE_SLOOP_BIDIR
  isMod : Bool         -- vi->smp < mod->smp (module sample: has xtra, may have a sustain loop)
  synth : Bool         -- XMP_SAMPLE_SYNTH
  hasData : Bool       -- xxs->data != NULL  (= vi->sptr != NULL after setpatch: the kernels only run then)
deriving Repr, DecidableEq, Inhabited

/-- Position-relevant part of `struct mixer_voice`. `pos` is the numerator of
`vi->pos` over the denominator `Env.D`. -/
structure Voice where
  smp : Smp
  pos : Int
  start : Int
  end_ : Int
  release : Bool       -- VOICE_RELEASE
  sloopf : Bool        -- SAMPLE_LOOP  ("has looped at least once")
  rev : Bool           -- VOICE_REVERSE
  bidir : Bool         -- VOICE_BIDIR
  queued : Bool        -- SAMPLE_QUEUED
  paused : Bool        -- SAMPLE_PAUSED
  active : Bool        -- fidx & FLAG_ACTIVE
deriving Repr, DecidableEq, Inhabited

/-- Per-tick constants. -/
structure Env where
  D : Int              -- common denominator of pos and step
  sn : Int             -- step = sn / D
  adj : Int            -- s->bidir_adjust (1 in IT player mode)
  split : Bool         -- p->xc_data[vi->chn].split
  qsmp : Option Smp    -- the sample `vi->queued.smp` names (`none`: queued.smp < 0)
  clampHi : Bool       -- the tick prologue clamps pos to len+1 (generated fact `Gen.tickClampHi`)
deriving Repr, Inhabited

/-- `has_active_sustain_loop` -/
def susActive (v : Voice) : Bool := v.smp.isMod && v.smp.sloop && !v.release

/-- `has_active_loop` -/
def hasActiveLoop (v : Voice) : Bool := v.smp.loop || susActive v

/-- `adjust_voice_end` -/
def adjustVoiceEnd (v : Voice) : Voice :=
  if v.smp.isMod && susActive v then
    { v with start := v.smp.sus, end_ := v.smp.sue, bidir := v.smp.sbidir }
  else if v.smp.loop then
    if v.smp.lfull && !v.sloopf then
      { v with start := v.smp.lps, end_ := v.smp.len, bidir := false }
    else
      { v with start := v.smp.lps, end_ := v.smp.lpe, bidir := v.smp.lbidir }
  else
    { v with start := 0, end_ := v.smp.len, bidir := false }

/-- the final "safety check" of `loop_reposition` (and of the tick prologue) -/
def clampHi (D : Int) (v : Voice) : Voice :=
  if v.pos > (v.smp.len + 1) * D then { v with pos := (v.smp.len + 1) * D } else v

/-- first half of `loop_reposition`: `vi->flags |= SAMPLE_LOOP; if (loop_changed) adjust_voice_end(...)` -/
def lrBase (v : Voice) : Voice :=
  if v.sloopf then v else adjustVoiceEnd { v with sloopf := true }

/-- second half of `loop_reposition`: wrap (forward/reverse loop) or reflect
(bidirectional loop, direction switched first) the position -/
def lrMove (env : Env) (v : Voice) : Voice :=
  if !v.bidir then
    if !v.rev then { v with pos := v.pos - (v.end_ - v.start) * env.D }
    else { v with pos := v.pos + (v.end_ - v.start) * env.D }
  else
    let v := { v with rev := !v.rev }
    if v.rev then { v with pos := (v.end_ * 2 - env.adj) * env.D - v.pos }
    else { v with pos := (v.start * 2) * env.D - v.pos }

/-- `loop_reposition`; the returned flag is `loop_changed`. -/
def loopReposition (env : Env) (v : Voice) : Voice × Bool :=
  (clampHi env.D (lrMove env (lrBase v)), !v.sloopf)

/-- `libxmp_mixer_voicepos` after its queued-sample preamble. -/
def voiceposCore (env : Env) (v : Voice) (p : Int) : Voice :=
  if v.smp.synth then v else
  let v := adjustVoiceEnd { v with pos := p }
  if v.pos ≥ v.end_ * env.D then
    let v := { v with pos := v.end_ * env.D }
    if !v.rev && hasActiveLoop v then (loopReposition env v).1 else v
  else if v.rev && v.pos * 10 ≤ env.D then       -- pos <= 0.1
    { v with pos := v.end_ * env.D }
  else v

/-- `libxmp_mixer_setpatch` (position-relevant part): new sample, flags cleared,
`set_sample_end(voc, 0)`, FLAG_ACTIVE, `libxmp_mixer_voicepos(ctx, voc, 0, ac)`. -/
def setpatch (env : Env) (v : Voice) (s : Smp) : Voice :=
  voiceposCore env { v with smp := s, sloopf := false, queued := false, paused := false,
                            rev := false, bidir := false, active := true } 0

/-- `hotswap_sample` -/
def hotswap (env : Env) (v : Voice) (s : Smp) : Voice :=
  { setpatch env v s with sloopf := true }

/-- `libxmp_mixer_voicepos`.  `same` = `vi->smp == vi->queued.smp`. -/
def voicepos (env : Env) (v : Voice) (same : Bool) (p : Int) : Voice :=
  let v :=
    if v.queued then
      let v := { v with queued := false }
      let v := match env.qsmp with
        | none => { v with paused := true }
        | some s => if same then v else hotswap env v s
      { v with sloopf := true }
    else v
  voiceposCore env v p

/-- `libxmp_mixer_reverse` -/
def reverse (v : Voice) (rev : Bool) : Voice :=
  if !v.active then v else { v with rev := rev }

/-- `libxmp_mixer_release` -/
def release (v : Voice) (rel : Bool) : Voice :=
  if rel then
    let v := if !v.release && susActive v && !v.smp.lbidir then { v with rev := false } else v
    { v with release := true }
  else { v with release := false }

/-- Tick prologue of `libxmp_mixer_softmixer` for a voice that is mixed
(`chn >= 0`, `period >= 1`): `none` = the voice is skipped (paused, nothing
usable queued). -/
def tickStart (env : Env) (v : Voice) : Option Voice :=
  let v := if v.pos < 0 then { v with pos := 0 } else v
  let r : Option Voice :=
    if v.paused then
      if !v.queued then none
      else match env.qsmp with
        | none => none
        | some s =>
          let v := adjustVoiceEnd (hotswap env v s)
          some { v with pos := v.start * env.D }
    else some (adjustVoiceEnd v)
  match r with
  | none => none
  | some v => some (if env.clampHi then clampHi env.D v else v)

/-- ceil(a / b) for b > 0 -/
def ceilDiv (a b : Int) : Int := (a + b - 1) / b

/-- `samples` of one segment: `none` = the "already at the end" branch
(`samples = 0; --usmp`), otherwise `min(size, ceil(distance / step))`. -/
def samplesOf (env : Env) (v : Voice) (size : Nat) : Option Nat :=
  if !v.rev then
    if v.pos ≥ v.end_ * env.D then none
    else some (min size (ceilDiv (v.end_ * env.D - v.pos) env.sn).toNat)
  else
    if v.pos ≤ v.start * env.D then none
    else some (min size (ceilDiv (v.pos - v.start * env.D) env.sn).toNat)

/-- Outcome of one iteration of the segment loop. -/
inductive Step where
  | brk (v : Voice)                          -- `break` (usmp exhausted)
  | done (v : Voice)                         -- loop left with size = 0
  | cont (v : Voice) (size usmp : Nat)       -- next iteration
deriving Repr, Inhabited

/-- `vi->pos += step_dir * samples` -/
def segMove (env : Env) (v : Voice) (n : Nat) : Voice :=
  if !v.rev then { v with pos := v.pos + (n : Int) * env.sn }
  else { v with pos := v.pos - (n : Int) * env.sn }

/-- `((~vi->flags & VOICE_REVERSE) && vi->pos >= vi->end) || ((vi->flags & VOICE_REVERSE) && vi->pos <= vi->start)` -/
def atEnd (env : Env) (v : Voice) : Bool :=
  (!v.rev && decide (v.pos ≥ v.end_ * env.D)) || (v.rev && decide (v.pos ≤ v.start * env.D))

/-- The loop / one-shot / queued-swap logic that follows the position update
(`size` is already reduced by the samples just mixed). -/
def segDecide (env : Env) (v : Voice) (size usmp : Nat) : Step :=
  if (!hasActiveLoop v || env.split) && !v.queued then
    -- one-shot: `if (size > 0) set_sample_end(ctx, voc, 1); size = 0; continue;`
    .done (if size > 0 then { v with active := false } else v)
  else if decide (size > 0) || atEnd env v then
    if v.queued then
      match env.qsmp with
      | none => .done { v with queued := false, paused := true, active := false }
      | some s =>
        if !hasActiveLoop v && !s.loop then
          .done { v with queued := false, paused := true, active := false }
        else
          let v := adjustVoiceEnd (hotswap env v s)
          let v := { v with pos := v.start * env.D }
          if size > 0 then .cont v size usmp else .done v
    else
      let v := (loopReposition env v).1
      if size > 0 then .cont v size usmp else .done v
  else
    .done v

/-- Second half of the iteration (after the kernel call): position update and
loop / one-shot / queued-swap logic, for a given sample count `n`. -/
def segAfter (env : Env) (v : Voice) (size usmp n : Nat) : Step :=
  segDecide env (segMove env v n) (size - n) usmp

/-- One iteration of the segment loop with the sample count the code computes. -/
def segStep (env : Env) (v : Voice) (size usmp : Nat) : Step :=
  match samplesOf env v size with
  | none =>
    -- samples = 0; if (--usmp <= 0) break;
    if usmp ≤ 1 then .brk v else segAfter env v size (usmp - 1) 0
  | some n => segAfter env v size usmp n

/-- Same with an externally supplied count (used by the driver to classify
floating-point divergences of `ceil`). -/
def segStepWith (env : Env) (v : Voice) (size usmp : Nat) (n : Option Nat) : Step :=
  match n with
  | none => if usmp ≤ 1 then .brk v else segAfter env v size (usmp - 1) 0
  | some n => segAfter env v size usmp n

/-! ## What a kernel call derives from the voice (mix_all.c `VAR_NORM`,
`NEAREST_ROUND`, the `int step` parameter) -/

/-- rounding offset of the nearest-neighbour kernels -/
def roundOff (interp : Nat) : Int := if interp = 0 then 32768 else 0

/-- `(int)pos * 2¹⁶ + (int)(2¹⁶ * frac(pos))` (+ rounding offset) -/
def q0Of (env : Env) (v : Voice) (interp : Nat) : Int :=
  (S * v.pos).tdiv env.D + roundOff interp

/-- `(int)(step_dir * (1 << SMIX_SHIFT))` -/
def stepfixOf (env : Env) (v : Voice) : Int :=
  if !v.rev then (S * env.sn).tdiv env.D else (-(S * env.sn)).tdiv env.D

/-- The executable window check for the kernel call (if any) the loop makes
from state `v` with `size` samples left in the tick. -/
def callOk (env : Env) (interp : Nat) (v : Voice) (size : Nat) : Bool :=
  if !v.smp.hasData then true      -- `vi->sptr == NULL`: no kernel call, no wrap-around patching
  else match samplesOf env v size with
  | none => true
  | some n => windowOk (q0Of env v interp) (stepfixOf env v) n interp v.smp.len

/-- The segment loop `for (size = usmp = ticksize; size > 0; )`: the states at
the top of the iterations it runs (fuel-bounded; `2·ticksize + 1` suffices, see
`XmpProofs.VoicePos.inv_segStep`). -/
def runLoop (env : Env) : Nat → Voice → Nat → Nat → List (Voice × Nat)
  | 0, _, _, _ => []
  | fuel + 1, v, size, usmp =>
    if size = 0 then [] else
    (v, size) :: match segStep env v size usmp with
      | .cont v' size' usmp' => runLoop env fuel v' size' usmp'
      | _ => []

/-- One tick of one voice: prologue, then the segment loop. -/
def runTick (env : Env) (v : Voice) (ticksize : Nat) : List (Voice × Nat) :=
  match tickStart env v with
  | none => []
  | some w => runLoop env (2 * ticksize + 1) w ticksize ticksize

/-! ## Frames touched by `init_sample_wraparound` / `reset_sample_wraparound` -/

/-- lowest and highest frame index (relative to the sample start) read or
written by the loop wrap-around patching, `pro` = LOOP_PROLOGUE, `epi` =
LOOP_EPILOGUE frames: `start[-pro .. -1]`, `end[0 .. epi-1]`, and the sources
`start[0 .. epi-1]`, `end[-epi .. -1]`. -/
def wrapLo (v : Voice) (pro epi : Int) : Int := min (v.start - pro) (v.end_ - epi)
def wrapHi (v : Voice) (_pro epi : Int) : Int := max (v.end_ + epi - 1) (v.start + epi - 1)

/-! ## Executable invariant (evaluated by the driver on every observed state) -/

/-- what holds for every sample WITH data: `libxmp_load_sample` (C20_loop) and the
loop / sustain-loop blocks of `libxmp_load_epilogue`; samples without data keep the
raw loop points of the file (they never reach a kernel: `vi->sptr == NULL`) -/
def smpOk (s : Smp) : Bool :=
  decide (0 ≤ s.len) &&
  (!s.loop || (decide (0 ≤ s.lps) && decide (s.lps < s.lpe) && decide (s.lpe ≤ s.len))) &&
  (!(s.isMod && s.sloop) || (decide (0 ≤ s.sus) && decide (s.sus < s.sue) && decide (s.sue ≤ s.len)))

def voiceInv (env : Env) (v : Voice) : Bool :=
  smpOk v.smp && decide (adjustVoiceEnd v = v) &&
  (v.rev || decide (0 ≤ v.pos)) && (!v.rev || decide (v.pos ≤ (v.smp.len + 1) * env.D))

/-- the invariant as far as it matters: for voices whose sample has data -/
def voiceInvD (env : Env) (v : Voice) : Bool := !v.smp.hasData || voiceInv env v

end Xmp.VoicePos
