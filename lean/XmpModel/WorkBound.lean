import XmpModel.Gates
import XmpModel.LhaFrame
import XmpModel.MmcmpFrame
/-!
# Work accounting for the modelled decoders and container walkers (C02)

Every loop of the modelled depackers is written here a second time as a **step function**
`σ → Out σ ρ` (one loop iteration: either the loop ends with a result, or it continues in a new
state), with the body copied from the owning model (`XmpModel.Gates`, `XmpModel.LhaFrame`,
`XmpModel.Lzw`, `XmpModel.PowerPacker`, …) and the recursive call replaced by `.next`.
`run step fuel s` executes the loop and **counts its iterations**; unlike the owning models it
keeps "the fuel ran out" (`res = none`) apart from every result the C code can produce.

`XmpProofs/WorkBound*.lean` proves for each of them
* that the step function *is* the owning model (`…_eq_run`: kernel-checked, so the tie of the
  owning model to the C — C08/C09 correspondences — carries over);
* a progress lemma (every continuing iteration moves the position forward by at least `k` bytes
  / consumes at least `k` bits / produces at least one byte);
* hence termination within `bytes/k + 1` iterations, and that the fuel the owning model passes
  is never the reason for its answer.
-/
namespace Xmp.Work
open Xmp

/-- outcome of one loop iteration -/
inductive Out (σ ρ : Type) where
  /-- the loop ends (return / break / error) -/
  | done (r : ρ)
  /-- the loop continues in state `s` (tail position) -/
  | next (s : σ)
  /-- the loop continues in state `s`; `k` is applied to what the rest of the loop returns
      (walkers that build their result after the recursive call) -/
  | wrap (s : σ) (k : ρ → ρ)

/-- the state the loop continues in, if it does -/
def Out.succ? {σ ρ : Type} : Out σ ρ → Option σ
  | .done _ => none
  | .next s => some s
  | .wrap s _ => some s

/-- result of running a loop: `res = none` means the fuel ran out before the loop ended -/
structure Run (ρ : Type) where
  res : Option ρ
  iters : Nat

def run {σ ρ : Type} (step : σ → Out σ ρ) : Nat → σ → Run ρ
  | 0, _ => ⟨none, 0⟩
  | fuel + 1, s =>
    match step s with
    | .done r => ⟨some r, 1⟩
    | .next s' => ⟨(run step fuel s').res, (run step fuel s').iters + 1⟩
    | .wrap s' k => ⟨(run step fuel s').res.map k, (run step fuel s').iters + 1⟩

/-- the value the owning (fuelled) model returns: its own "out of fuel" value `d` when the fuel ran out -/
def Run.outD {ρ : Type} (r : Run ρ) (d : ρ) : ρ := r.res.getD d

/-- the loop started in `s` ends by itself (not by lack of fuel) within `n` iterations -/
def EndsWithin {σ ρ : Type} (step : σ → Out σ ρ) (fuel : Nat) (s : σ) (n : Nat) : Prop :=
  (run step fuel s).res.isSome = true ∧ (run step fuel s).iters ≤ n

/-! ## ARC / Spark: `arc_read` (Gates.arcLoop) -/

open Xmp.Gates in
def arcStep (env : ArcEnv) (f : Bytes) (s : Nat × Nat) : Out (Nat × Nat) (Option Bytes) :=
  let pos := s.1
  let level := s.2
  if f.length < pos + 2 then .done none else
  if u8 f pos ≠ 0x1a then .done none else
  let method := u8 f (pos + 1)
  let hlen := arcHeaderLength method
  if hlen ≤ 2 then
    (if level > 0 then .next (pos + 2, level - 1) else .done none)
  else if f.length < pos + hlen then .done none else
  let name := cstr (slice f (pos + 2) 12)
  let csize := le32 f (pos + 15)
  let crc := le16 f (pos + 23)
  let usize := if arcIsPacked method then le32 f (pos + 25) else csize
  let loadAddr := if arcIsSpark method then le32 f (pos + hlen - 12) else 0
  let isDir := method == 30 || (method == 0x82 && loadAddr / 256 == 0xfffddc)
  if isDir then .next (pos + hlen, level + 1)
  else if !arcSupported method || csize > f.length || usize > env.limit || env.excl name then
    .next (pos + hlen + csize, level)
  else if f.length < pos + hlen + csize then .done none else
  let inp := slice f (pos + hlen) csize
  let out? := if arcIsPacked method then env.unpack method 0 inp usize else some inp
  .done (match out? with
         | none => none
         | some out => if crc16Gate out crc then some out else none)

/-! ## ArcFS: entry loop of `arcfs_read` (Gates.arcfsLoop); state = (entries left, position) -/

open Xmp.Gates in
def arcfsStep (env : ArcEnv) (f : Bytes) (dofs : Nat) (s : Nat × Nat) : Out (Nat × Nat) (Option Bytes) :=
  match s.1 with
  | 0 => .done none
  | n + 1 =>
    let pos := s.2
    if f.length < pos + 36 then .done none else
    let method := u8 f pos &&& 0x7f
    if method == 0 then .next (n, pos + 36) else
    let name := cstr (slice f (pos + 1) 11)
    let usize := le32 f (pos + 12)
    let bits := u8 f (pos + 25)
    let crc := le16 f (pos + 26)
    let csize := if method == 2 then usize else le32 f (pos + 28)
    let vofs := le32 f (pos + 32) % 2 ^ 31
    let isDir := u8 f (pos + 35) / 128 == 1
    if method == 1 || isDir then .next (n, pos + 36) else
    if vofs ≥ f.length - dofs then .next (n, pos + 36) else
    let offset := dofs + vofs
    if csize > f.length - offset then .next (n, pos + 36) else
    if usize > env.limit then .next (n, pos + 36) else
    if !arcSupported method then .next (n, pos + 36) else
    if env.excl name then .next (n, pos + 36) else
    let inp := slice f offset csize
    let out? := if method != 2 then env.unpack method bits inp usize else some inp
    .done (match out? with
           | none => none
           | some out => if arcfsGate out crc then some out else none)

/-! ## LZX: entry loop of `lzx_read` (Gates.lzxLoop) -/

open Xmp.Gates in
def lzxStep (env : LzxEnv) (f : Bytes) (s : Nat × LzxMerge) : Out (Nat × LzxMerge) (Option Bytes) :=
  let pos := s.1
  let mg := s.2
  if f.length < pos + 31 then .done none else
  let csize := le32 f (pos + 6)
  let method := u8 f (pos + 11)
  let dpos := pos + 31 + u8 f (pos + 30) + u8 f (pos + 14)
  if f.length < dpos then .done none else
  let r := lzxCheckEntry env.limit mg (lzxEntryBad env f pos) (le32 f (pos + 2)) csize method (u8 f (pos + 12))
              (le32 f (pos + 22))
  if r.2 then .done (lzxExtract env f dpos csize method r.1)
  else .next (dpos + csize, r.1)

/-! ## xz: `dec_vli` (Gates.xzVliGo), block loop (Gates.xzBlocks), Index records -/

open Xmp.Gates in
def xzVliStep (f : Bytes) (limit : Nat) (s : Nat × Nat × Nat) : Out (Nat × Nat × Nat) (Option (Nat × Nat)) :=
  let p := s.1
  let sh := s.2.1
  let acc := s.2.2
  if limit ≤ p then .done none else
  let b := u8 f p
  let acc := acc ||| ((b &&& 0x7f) <<< sh)
  if b &&& 0x80 == 0 then .done (if b == 0 && sh != 0 then none else some (acc, p + 1))
  else if sh + 7 == 63 then .done none else .next (p + 1, sh + 7, acc)

open Xmp.Gates in
def xzConsBlk (b : XzBlk) : Option (Nat × List XzBlk) → Option (Nat × List XzBlk)
  | none => none
  | some (ip, bs) => some (ip, b :: bs)

open Xmp.Gates in
def xzBlocksStep (lz : Nat → Bytes → Option (Nat × List Bytes)) (ct : Nat) (f : Bytes) (p : Nat) :
    Out Nat (Option (Nat × List XzBlk)) :=
  if f.length ≤ p then .done none else
  if u8 f p == 0 then .done (some (p, [])) else
  match xzBlockAt lz ct f p with
  | none => .done none
  | some b => .wrap b.next (xzConsBlk b)

/-! ## zip: extra-field walk (Gates.zipFindZip64), central directory loop (Gates.zipCdirLoop) -/

open Xmp.Gates in
def zip64Step (x : Bytes) : Out Bytes (Option (Option Bytes)) :=
  if x.length == 0 then .done (some none) else
  if x.length < 4 then .done none else
  if le16 x 2 + 4 > x.length then .done none else
  if le16 x 0 == 1 then .done (some (some (slice x 4 (le16 x 2))))
  else .next (x.drop (4 + le16 x 2))

def consOfs (p : Nat) : Option (List Nat) → Option (List Nat)
  | none => none
  | some l => some (p :: l)

open Xmp.Gates in
/-- state = (records left, position, central-directory bytes left, hasExt) -/
def zipCdirStep (f : Bytes) (thisDisk : Nat) (s : Nat × Nat × Nat × Bool) :
    Out (Nat × Nat × Nat × Bool) (Option (List Nat)) :=
  match s.1 with
  | 0 => .done (some [])
  | k + 1 =>
    match zipCdirRecord f thisDisk s.2.1 s.2.2.1 s.2.2.2 with
    | none => .done none
    | some (tot, hasExt') => .wrap (k, s.2.1 + tot, s.2.2.1 - tot, hasExt') (consOfs s.2.1)

/-! ## LHA: `skip_sfx`, extended-header walks, null decoder, member walk (LhaFrame) -/

open Xmp.Container in
def sfxStep (f : Bytes) (s : Nat × Nat) : Out (Nat × Nat) (Option Nat) :=
  let i := s.1
  let skipFiles := s.2
  if i + 13 > f.length ∨ i ≥ lhaSfxLimit then .done none
  else if lhaHdrMatch f i ∧ skipFiles = 0 then .done (some i)
  else
    let sk := if lhaHdrMatch f i then skipFiles - 1 else skipFiles
    .next (i + 1, if lhaSfxId f i then 1 else sk)

open Xmp.Container in
/-- state = (header, offset, bytes available) -/
def extStep (fs : Nat) (s : LhaHeader × Nat × Nat) : Out (LhaHeader × Nat × Nat) (Option LhaHeader) :=
  let h := s.1
  let off := s.2.1
  let avail := s.2.2
  if off + fs > h.raw.length then .done (some h)
  else
    let el := if fs = 4 then u32At h.raw off else u16At h.raw off
    if el = 0 then .done (some h)
    else if el < fs + 1 ∨ el > avail then .done none
    else .next (extDecode h (off + fs) (el - fs), off + el, avail - el)

open Xmp.Container in
def l1ExtStep (s : LhaHeader × Bytes) : Out (LhaHeader × Bytes) (Option (LhaHeader × Bytes)) :=
  let h := s.1
  let el := u16At h.raw (h.raw.length - 2)
  if el = 0 then .done (some (h, s.2))
  else
    match extendRaw h s.2 el with
    | none => .done none
    | some (h, s) =>
      if h.csize < el then .done none
      else if el < 3 then .done none
      else .next ({ h with csize := h.csize - el }, s)

/-- state = (stream, compressed bytes remaining, bytes wanted, output so far) -/
def nullStep (s : Bytes × Nat × Nat × Bytes) : Out (Bytes × Nat × Nat × Bytes) (Option Bytes) :=
  let st := s.1
  let remaining := s.2.1
  let want := s.2.2.1
  let acc := s.2.2.2
  if want = 0 then .done (some acc)
  else
    let blk := min 1024 remaining
    if blk = 0 then .done none
    else if st.length < blk then .done none
    else .next (st.drop blk, remaining - blk, want - min want blk, acc ++ (st.take blk).take want)

open Xmp.Container in
def lhaStep (dec : Bytes → Bool → Bytes → Nat → Option Bytes) (s : Bytes) : Out Bytes (Option Bytes) :=
  match lhaReadHeader s with
  | none => .done none
  | some (h, s) =>
    if h.method = lhaDirMethod ∨ excludeMatch (cstr (h.filename.getD [])) then
      .next (s.drop h.csize)
    else if h.length = 0 ∨ h.length > depackLimit then .done none
    else if lhaIsStored h.method ∧ h.osType ≠ 0x6d then .done (lhaNullRead (h.length + 1) s h.csize h.length [])
    else if ¬ (lhaIsStored h.method ∨ lhaKnownPacked.contains h.method) then .done none
    else
      .done (match dec h.method (h.osType == 0x6d) (s.take h.csize) h.length with
             | some out => if out.length = h.length then some out else none
             | none => none)

/-! ## compress(1) LZW: the code loop (Lzw.decGo) and the string-table walk (Lzw.chainRev) -/

open Xmp.Lzw in
def lzwStep (a : Array UInt8) (maxbits : Nat) (blockMode : Bool) (d : Dec) : Out Dec (Option Bytes) :=
  if d.w.pos + d.w.nBits > 8 * a.size then .done (some d.out.reverse)
  else if 256 + d.tab.size > d.w.maxcode then
    .next { d with w := d.w.bump maxbits }
  else
    match decCode maxbits blockMode { d with w := d.w.adv } (readCode a d.w.pos d.w.nBits) with
    | none => .done none
    | some d' => .next d'

def consSuf (suf : UInt8) (r : Option (List UInt8 × UInt8)) : Option (List UInt8 × UInt8) :=
  r.map (fun r => (suf :: r.1, r.2))

def chainStep (tab : Array (Nat × UInt8)) (code : Nat) : Out Nat (Option (List UInt8 × UInt8)) :=
  if code < 256 then .done (some ([UInt8.ofNat code], UInt8.ofNat code))
  else
    match tab[code - 256]? with
    | none => .done none
    | some (pre, suf) => .wrap pre (consSuf suf)

/-! ## PowerPacker: count groups (`readCount`) and the main loop (`ppDecrunch`) -/

open Xmp.PowerPacker in
def countStep (n : Nat) (s : BR × Nat) : Out (BR × Nat) (Option (Nat × BR)) :=
  match readBits n s.1 with
  | none => .done none
  | some (x, br) => if x = 2 ^ n - 1 then .next (br, s.2 + x) else .done (some (s.2 + x, br))

open Xmp.PowerPacker in
def ppStep (offsetLens : Bytes) (destLen : Nat) (s : BR × Bytes) : Out (BR × Bytes) (Option Bytes) :=
  let br := s.1
  let acc := s.2
  if acc.length ≥ destLen then .done (some acc)
  else
    match readBits 1 br with
    | none => .done none
    | some (x, br) =>
      if x = 0 then
        match readCount 2 (bitsAvail br + 1) br 1 with
        | none => .done none
        | some (todo, br) =>
          match copyLits destLen todo br acc with
          | none => .done none
          | some (br, acc) =>
            if acc.length = destLen then .done (some acc)
            else
              match doMatch offsetLens destLen br acc with
              | none => .done none
              | some (br, acc) => .next (br, acc)
      else
        match doMatch offsetLens destLen br acc with
        | none => .done none
        | some (br, acc) => .next (br, acc)

end Xmp.Work
