import XmpModel.Basic
import XmpModel.Gen.Limits
/-!
# Model of the common post-load path of libxmp (property C03)

`load_module` (src/load.c) runs, after the format loader returned success:

    sanity gate  →  libxmp_adjust_string on every name  →  libxmp_load_epilogue
                 →  libxmp_prepare_scan  →  libxmp_scan_sequences

This file mirrors those functions over a record (`Module`) that mirrors the
part of `struct module_data` / `struct xmp_module` they read or write.  A value
of `Module` handed to `finish` is a *raw* module: whatever a format loader left
behind, including NULL entries and out-of-range numbers.

Conventions
* C `int` fields are `Int` (no wrap-around occurs on this path: only
  comparisons, assignments of constants and of other fields).
* A NULL pointer is `none`.  An array is a `List`; the loaders' contract is that
  an array has at least as many entries as the count that indexes it
  (`calloc(count, …)` in `libxmp_init_pattern` / `libxmp_init_instrument`); the
  model treats a missing entry like NULL (the C would read out of bounds).  Two
  dereferences in the C are not NULL-checked (`mod->xxt[t]` in the gate when
  `mod->xxt == NULL`, `xxi[i].sub[j]` in the epilogue when `sub == NULL`,
  `nsm > 0` and QUIRK_INSVOL is clear); the model treats the first as a failed
  check and the second as a no-op, the harness generator never produces them.
* Flag words are decoded into the bits this path tests or clears (`Bool`s) plus
  the untouched rest (`other`), see `Envelope.ofFlg` / `toFlg`.
* `scan_module` (the 600-line pattern walker) is *abstract*: `scan k` is what
  its `k`-th call did — the orders it tried to mark, in order, and the time it
  returned.  The marking rule itself (`ep != 0 && sequence_control[ord] != 0xff`
  → not marked) and all the bookkeeping of `libxmp_scan_sequences` are modelled.
-/
namespace Xmp.LoadPost
open Xmp.Gen.Limits

/-- C `CLAMP(x,a,b)` of src/common.h: lower bound tested first. -/
def clampC (x a b : Int) : Int := if x < a then a else if x > b then b else x

/-- `for (i = 0; i < n; i++)` over an `int` bound: all iterations satisfy `p`. -/
def allBelow (n : Int) (p : Nat → Bool) : Bool := (List.range n.toNat).all p

/-! ## Records -/

structure Envelope where
  on : Bool        -- XMP_ENVELOPE_ON
  fsus : Bool      -- XMP_ENVELOPE_SUS
  floop : Bool     -- XMP_ENVELOPE_LOOP
  other : Nat      -- remaining flag bits, untouched
  npt : Int
  sus : Int
  sue : Int
  lps : Int
  lpe : Int
  data : List Int  -- `short data[XMP_MAX_ENV_POINTS * 2]`
  deriving Repr, DecidableEq, Inhabited

structure Instrument where
  name : List UInt8          -- `char name[32]`
  vol : Int
  nsm : Int
  sub : Option (List Int)    -- `gvl` of every allocated sub-instrument; `none` = NULL
  sids : List Int := []      -- `sid` (sample id) of every allocated sub-instrument (untouched by this path)
  aei : Envelope
  pei : Envelope
  fei : Envelope
  deriving Repr, DecidableEq, Inhabited

structure Sample where
  name : List UInt8          -- `char name[32]`
  len : Int
  lps : Int
  lpe : Int
  floop : Bool               -- XMP_SAMPLE_LOOP
  floopBidir : Bool := false -- XMP_SAMPLE_LOOP_BIDIR
  fsloop : Bool              -- XMP_SAMPLE_SLOOP
  fsloopBidir : Bool         -- XMP_SAMPLE_SLOOP_BIDIR
  other : Nat                -- remaining flag bits
  hasData : Bool             -- `data != NULL`
  guardOK : Bool := true     -- observed on a real module: the guard frames around `data` are readable
  deriving Repr, DecidableEq, Inhabited

structure Xtra where         -- `struct extra_sample_data` (sustain loop)
  sus : Int
  sue : Int
  deriving Repr, DecidableEq, Inhabited

structure Pattern where
  rows : Int
  index : List Int           -- `int index[chn]`
  deriving Repr, DecidableEq, Inhabited

structure Track where
  rows : Int
  deriving Repr, DecidableEq, Inhabited

structure Channel where
  pan : Int
  vol : Int
  flg : Int
  deriving Repr, DecidableEq, Inhabited

structure Module where
  name : List UInt8                         -- `char name[XMP_NAME_SIZE]`
  typ : List UInt8 := [0]                   -- `char type[XMP_NAME_SIZE]` (not touched by this path)
  pat : Int
  trk : Int
  chn : Int
  ins : Int
  smp : Int
  spd : Int
  bpm : Int
  len : Int
  rst : Int
  gvl : Int
  xxp : Option (List (Option Pattern))      -- `struct xmp_pattern **xxp`
  xxt : Option (List (Option Track))        -- `struct xmp_track **xxt`
  xxi : List Instrument
  xxs : List Sample
  xtra : List Xtra                          -- `m->xtra`
  xxc : List Channel                        -- `xxc[XMP_MAX_CHANNELS]`
  xxo : List Nat                            -- `unsigned char xxo[XMP_MAX_MOD_LENGTH]`
  insvol : Bool                             -- `m->quirk & QUIRK_INSVOL`
  volbase : Int                             -- `m->volbase`
  gvol : Int                                -- `m->gvol`
  /- written by libxmp_scan_sequences -/
  numSeq : Nat := 0                         -- `m->num_sequences`
  seqData : List (Nat × Int) := []          -- `m->seq_data[0 .. num_sequences)`
  seqCtl : List Nat := []                   -- `p->sequence_control[0 .. XMP_MAX_MOD_LENGTH)`
  deriving Repr, DecidableEq, Inhabited

/-- Failures of the post-load path (`load_module` return codes). -/
inductive Err where
  | load      -- `-XMP_ERROR_LOAD`  (gate, NULL tables, scan without any valid order)
  | system    -- `-XMP_ERROR_SYSTEM` (allocation failure; not produced by the model)
  deriving Repr, DecidableEq, Inhabited

def Err.code : Err → Int
  | .load => -(xmpErrorLoad : Int)
  | .system => -(xmpErrorSystem : Int)

/-! ## Lookups (missing entry = NULL) -/

def Module.pattern? (m : Module) (i : Nat) : Option Pattern :=
  match m.xxp with
  | none => none
  | some ps => (ps[i]?).join

def Module.track? (m : Module) (t : Nat) : Option Track :=
  match m.xxt with
  | none => none
  | some ts => (ts[t]?).join

/-- `t >= 0 && t < mod->trk && mod->xxt[t] != NULL` (negation of the gate's test). -/
def Module.trackOK (m : Module) (t : Int) : Bool :=
  decide (0 ≤ t) && decide (t < m.trk) && (m.track? t.toNat).isSome

/-- the gate's inner loop for pattern `i`. -/
def Module.patOK (m : Module) (i : Nat) : Bool :=
  match m.pattern? i with
  | none => false
  | some p => allBelow m.chn fun j =>
      match p.index[j]? with
      | none => false
      | some t => m.trackOK t

def chanOK (c : Channel) : Bool :=
  decide (0 ≤ c.vol) && decide (c.vol ≤ 0xff) && decide (0 ≤ c.pan) && decide (c.pan ≤ 0xff)

/-! ## The sanity gate, load.c -/

/-- `true` iff `load_module` does not `goto err_load` in its sanity block. -/
def gate (m : Module) : Bool :=
  !(decide (m.chn > (xmpMaxChannels : Int)) || decide (m.len > (xmpMaxModLength : Int)))
  && allBelow m.chn (fun i => match m.xxc[i]? with | some c => chanOK c | none => false)
  && m.xxp.isSome
  && allBelow m.pat m.patOK

/-! ## libxmp_adjust_string -/

def isPrintAscii (b : UInt8) : Bool := 0x20 ≤ b.toNat && b.toNat ≤ 0x7e

/-- the C string held by a `char[]`: the bytes before the first NUL -/
def cstr (s : List UInt8) : List UInt8 := s.takeWhile (· ≠ 0)

/-- drop trailing spaces -/
def rtrim (s : List UInt8) : List UInt8 := (s.reverse.dropWhile (· = 0x20)).reverse

/-- `libxmp_adjust_string` on a `char[]` of fixed size: characters that are not
printable ASCII become spaces, trailing spaces become NULs; the bytes from the
first NUL on are untouched.  (If the array holds no NUL the C reads on past it;
the model then treats the whole array as the string.) -/
def adjustString (s : List UInt8) : List UInt8 :=
  let body := (cstr s).map fun b => if isPrintAscii b then b else 0x20
  let kept := rtrim body
  kept ++ List.replicate (body.length - kept.length) 0 ++ s.drop body.length

def adjustNames (m : Module) : Module :=
  { m with
    name := adjustString m.name
    xxi := m.xxi.mapIdx fun i x => if (i : Int) < m.ins then { x with name := adjustString x.name } else x
    xxs := m.xxs.mapIdx fun i x => if (i : Int) < m.smp then { x with name := adjustString x.name } else x }

/-! ## libxmp_load_epilogue -/

/-- `check_envelope`: three independent tests, each clearing one flag bit -/
def checkEnvelope (e : Envelope) : Envelope :=
  { e with
    on := e.on && !(decide (e.npt ≤ 0) || decide (e.npt > (xmpMaxEnvPoints : Int)))
    floop := e.floop && !(decide (e.lps ≥ e.npt) || decide (e.lpe ≥ e.npt))
    fsus := e.fsus && !(decide (e.sus ≥ e.npt) || decide (e.sue ≥ e.npt)) }

/-- `clamp_volume_envelope`: the value of every point `i < npt` is `data[2i+1]`. -/
def clampVolumeEnvelope (volbase : Int) (e : Envelope) : Envelope :=
  { e with data :=
      if e.on then
        e.data.mapIdx fun k v =>
          if k % 2 = 1 ∧ ((k / 2 : Nat) : Int) < e.npt then clampC v 0 volbase else v
      else e.data }

/-- the two instrument loops of the epilogue for one instrument -/
def epilogueIns (volbase : Int) (insvol : Bool) (x : Instrument) : Instrument :=
  { x with
    vol := if insvol then x.vol else volbase
    sub := if insvol then x.sub
           else x.sub.map fun l => l.mapIdx fun j g => if (j : Int) < x.nsm then volbase else g
    aei := clampVolumeEnvelope volbase (checkEnvelope x.aei)
    fei := checkEnvelope x.fei
    pei := checkEnvelope x.pei }

/-- the sustain-loop block (`xtra->sus/sue` against `xxs->len`) -/
def epilogueSmp (s : Sample) (x : Xtra) : Sample × Xtra :=
  let sus := if x.sus < 0 then 0 else x.sus
  let sue := if x.sue > s.len then s.len else x.sue
  if sus ≥ s.len ∨ sus ≥ sue then
    ({ s with fsloop := false, fsloopBidir := false }, { sus := 0, sue := 0 })
  else (s, { sus := sus, sue := sue })

/-- "Never leave a loop flagged that lies outside the data of a loaded sample, nor loop
points of an unlooped sample that lie outside it": the epilogue's loop block for one sample -/
def epilogueLoop (s : Sample) : Sample :=
  if s.hasData && (decide (s.lps < 0) || decide (s.lpe > s.len) || decide (s.lps > s.lpe)
                   || (s.floop && decide (s.lps ≥ s.lpe))) then
    { s with lps := 0, lpe := 0, floop := false, floopBidir := false }
  else s

/-- the two per-sample loops of the epilogue (loop block, then sustain-loop block): the sample side … -/
def smpStepS (smp : Int) (xtra : List Xtra) (i : Nat) (s : Sample) : Sample :=
  if (i : Int) < smp then
    (match xtra[i]? with | some x => (epilogueSmp (epilogueLoop s) x).1 | none => epilogueLoop s)
  else s

/-- … and the `m->xtra[i]` side -/
def smpStepX (smp : Int) (xxs : List Sample) (i : Nat) (x : Xtra) : Xtra :=
  if (i : Int) < smp then (match xxs[i]? with | some s => (epilogueSmp (epilogueLoop s) x).2 | none => x) else x

def epilogue (m : Module) : Module :=
  let len := clampC m.len 0 xmpMaxModLength
  let pat := clampC m.pat 0 epiPatMax
  let ins := clampC m.ins 0 epiInsMax
  let smp := clampC m.smp 0 maxSamples
  let chn := clampC m.chn 0 xmpMaxChannels
  let rst := if m.rst ≥ len then 0 else m.rst
  let spd := if m.spd ≤ 0 ∨ m.spd > (epiSpdMax : Int) then (epiSpdDefault : Int) else m.spd
  let bpm := clampC m.bpm xmpMinBpm epiBpmMax
  let xxi := m.xxi.mapIdx fun i x => if (i : Int) < ins then epilogueIns m.volbase m.insvol x else x
  let xxs := m.xxs.mapIdx (smpStepS smp m.xtra)
  let xtra := m.xtra.mapIdx (smpStepX smp m.xxs)
  { m with
    gvl := m.gvol, len := len, pat := pat, ins := ins, smp := smp, chn := chn
    rst := rst, spd := spd, bpm := bpm, xxi := xxi, xxs := xxs, xtra := xtra }

/-! ## libxmp_prepare_scan -/

/-- first order `ord < len` with `xxo[ord] < pat`, else `len` (the `while` loop) -/
def firstValidOrder (m : Module) : Nat :=
  ((List.range m.len.toNat).find? fun o => decide ((m.xxo.getD o 0 : Int) < m.pat)).getD m.len.toNat

/-- `libxmp_alloc_pattern(mod, num)` on a NULL slot: `calloc` ⇒ rows 0, indices 0. -/
def emptyPattern (chn : Int) : Pattern := { rows := 0, index := List.replicate (max chn.toNat 1) 0 }

/-- every order whose pattern number is `< pat` but whose slot is NULL gets an
empty pattern (dead code after the gate, kept because the C has it) -/
def prepareXxp (m : Module) : Option (List (Option Pattern)) :=
  m.xxp.map fun ps => ps.mapIdx fun i p =>
    match p with
    | some q => some q
    | none =>
      if decide ((i : Int) < m.pat) && (List.range m.len.toNat).any (fun o => m.xxo.getD o 0 == i)
      then some (emptyPattern m.chn) else none

/-- `calloc(1, pat->rows)` for the scan counters of an order: a negative row
count cannot be allocated (`-XMP_ERROR_SYSTEM`) -/
def negRows (m : Module) : Bool :=
  (List.range m.len.toNat).any fun o =>
    match m.pattern? (m.xxo.getD o 0) with
    | some p => decide ((m.xxo.getD o 0 : Int) < m.pat) && decide (p.rows < 0)
    | none => false

def prepareScan (m : Module) : Except Err Module :=
  if m.xxp.isNone || m.xxt.isNone then .error .load
  else if (firstValidOrder m : Int) ≥ m.len then .ok { m with len := 0 }
  else if negRows m then .error .system
  else .ok { m with xxp := prepareXxp m }

/-! ## libxmp_scan_sequences -/

/-- what one call of `scan_module(ctx, ep, chain)` did: the orders it reached
(after its entry point, in the order it reached them) and its return value -/
structure ScanRes where
  marks : List Nat
  time : Int
  deriving Repr, DecidableEq, Inhabited

/-- `scan_module` line `if (ep != 0 && p->sequence_control[ord] != 0xff) …;
else p->sequence_control[ord] = chain;` for an order inside the list -/
def markOne (len : Nat) (ep chain : Nat) (ctl : List Nat) (ord : Nat) : List Nat :=
  if ord < len then
    if ep ≠ 0 ∧ ctl.getD ord 0xff ≠ 0xff then ctl else ctl.set ord chain
  else ctl

/-- a whole call: the entry point is always reached first (unless the order
list is empty: `if (mod->len == 0) return 0;`). -/
def applyScan (len : Nat) (ep chain : Nat) (ctl : List Nat) (r : ScanRes) : List Nat :=
  (ep :: r.marks).foldl (markOne len ep chain) ctl

/-- `for (i = 0; i < mod->len; i++) if (p->sequence_control[i] == 0xff) break;` -/
def firstFree (len : Nat) (ctl : List Nat) : Option Nat :=
  (List.range len).find? fun i => ctl.getD i 0xff == 0xff

structure SeqState where
  ctl : List Nat
  seq : Nat
  eps : List Nat        -- temp_ep[0 .. seq)
  times : List Int      -- p->scan[0 .. seq).time
  calls : Nat           -- number of scan_module calls made so far
  trace : List (Nat × Nat) := []   -- (ep, chain) of every call, for the correspondence
  deriving Repr, DecidableEq, Inhabited

/-- the `while (1)` loop; `fuel` bounds the iterations (each one consumes a free order). -/
def seqLoop (scan : Nat → ScanRes) (len : Nat) : Nat → SeqState → SeqState
  | 0, st => st
  | fuel + 1, st =>
    match firstFree len st.ctl with
    | none => st
    | some ep =>
      if st.seq < maxSequences then
        let r := scan st.calls
        let ctl := applyScan len ep st.seq st.ctl r
        let st' : SeqState := { st with ctl := ctl, calls := st.calls + 1, trace := st.trace ++ [(ep, st.seq)] }
        if r.time > 0 then
          seqLoop scan len fuel { st' with seq := st.seq + 1, eps := st.eps ++ [ep], times := st.times ++ [r.time] }
        else seqLoop scan len fuel st'
      else st

/-- "Orders visited only by discarded scans don't belong to any sequence." -/
def cleanup (len seq : Nat) (ctl : List Nat) : List Nat :=
  ctl.mapIdx fun i c => if i < len ∧ c ≥ seq then 0xff else c

def ctlInit : List Nat := List.replicate xmpMaxModLength 0xff

/-- the first call, `scan_module(ctx, 0, 0)`; its first statement is
`if (mod->len == 0) return 0;` (nothing marked, time 0) -/
def firstScan (scan : Nat → ScanRes) (len : Nat) : ScanRes :=
  if len = 0 then { marks := [], time := 0 } else scan 0

def scanSequencesCore (scan : Nat → ScanRes) (len : Nat) : Except Err SeqState :=
  let r0 := firstScan scan len
  let ctl0 := applyScan len 0 0 ctlInit r0
  if r0.time < 0 then .error .load
  else
    let st := seqLoop scan len (len + 1)
      { ctl := ctl0, seq := 1, eps := [0], times := [r0.time], calls := 1, trace := [(0, 0)] }
    .ok { st with ctl := cleanup len st.seq st.ctl }

def scanSequences (scan : Nat → ScanRes) (m : Module) : Except Err Module :=
  match scanSequencesCore scan m.len.toNat with
  | .error e => .error e
  | .ok st => .ok { m with numSeq := st.seq, seqData := st.eps.zip st.times, seqCtl := st.ctl }

/-- the (ep, chain) arguments of the scan_module calls `scanSequences` makes -/
def scanTrace (scan : Nat → ScanRes) (len : Nat) : List (Nat × Nat) :=
  match scanSequencesCore scan len with
  | .error _ => [(0, 0)]
  | .ok st => st.trace

/-! ## The whole post-load path -/

def finish (scan : Nat → ScanRes) (raw : Module) : Except Err Module :=
  if gate raw then
    match prepareScan (epilogue (adjustNames raw)) with
    | .error e => .error e
    | .ok m => scanSequences scan m
  else .error .load

/-! ## compare_vblank_scan (scan.c)

For long Protracker modules (`m->compare_vblank`, VBlank flag clear, first scan
≥ `VBLANK_TIME_THRESHOLD` ms) `libxmp_scan_sequences` scans order 0 a second time
with the other timing, from a reset `sequence_control`, and keeps the shorter
result (time, marks and all).  For the bookkeeping that follows this is the same
as one first call with the kept result: `vblankScan cv scan` is the behaviour of
`scan_module` as the rest of `libxmp_scan_sequences` sees it. -/

def vblankScan (cv : Bool) (scan : Nat → ScanRes) : Nat → ScanRes :=
  if cv && decide ((scan 0).time ≥ (vblankTimeThreshold : Int)) then
    fun k => if k = 0 then (if (scan 1).time ≥ (scan 0).time then scan 0 else scan 1) else scan (k + 1)
  else scan

/-- the post-load path with the CIA/VBlank comparison (`cv` = `m->compare_vblank &&
!(p->flags & XMP_FLAGS_VBLANK)`) -/
def finishV (cv : Bool) (scan : Nat → ScanRes) (raw : Module) : Except Err Module :=
  finish (vblankScan cv scan) raw

/-! ## Allocation helpers of loaders/common.c (row ranges) -/

/-- `libxmp_alloc_track(mod, num, rows)`: the rows of the new track, or failure -/
def allocTrack (trk : Int) (slotFree : Bool) (num rows : Int) : Option Track :=
  if num < 0 ∨ num ≥ trk ∨ !slotFree ∨ rows ≤ 0 then none else some { rows := rows }

/-- `libxmp_alloc_pattern_tracks(_long)`: the pattern and its `chn` new tracks
(`limit` = 256 or 32768); `free t` says whether track slot `t` is still NULL. -/
def allocPatternTracks (limit : Int) (pat trk chn : Int) (slotFree : Bool) (free : Int → Bool)
    (num rows : Int) : Option (Pattern × List Track) :=
  if rows ≤ 0 ∨ rows > limit then none
  else if num < 0 ∨ num ≥ pat ∨ !slotFree then none
  else
    let ts := (List.range chn.toNat).map fun (i : Nat) => allocTrack trk (free (num * chn + (i : Int))) (num * chn + (i : Int)) rows
    if ts.all Option.isSome then
      some ({ rows := rows, index := (List.range chn.toNat).map fun (i : Nat) => num * chn + (i : Int) },
            ts.filterMap id)
    else none

/-! ## The property, clause by clause (decidable, executable)

`wfClauses m` lists every clause of the statement of C03 with its truth value
on `m`; the driver prints the names of the false ones for a dump of a really
loaded module, the theorems in `XmpProps/C03.lean` are about the same
definitions. -/

def hasNul (s : List UInt8) : Bool := s.any (· == 0)

def countsOK (m : Module) : Bool :=
  decide (0 ≤ m.chn) && decide (m.chn ≤ (xmpMaxChannels : Int))
  && decide (0 ≤ m.len) && decide (m.len ≤ (xmpMaxModLength : Int))
  && decide (0 ≤ m.pat) && decide (m.pat ≤ (epiPatMax : Int))
  && decide (0 ≤ m.ins) && decide (m.ins ≤ (epiInsMax : Int))
  && decide (0 ≤ m.smp) && decide (m.smp ≤ (maxSamples : Int))

/-- every pattern exists and every track it references exists -/
def patternsOK (m : Module) : Bool := allBelow m.pat m.patOK

/-- … with at least one row (pattern and each referenced track) -/
def rowsOK (m : Module) : Bool :=
  allBelow m.pat fun i =>
    match m.pattern? i with
    | none => false
    | some p => decide (1 ≤ p.rows) && allBelow m.chn fun j =>
        match p.index[j]? with
        | none => false
        | some t => match m.track? t.toNat with
          | none => false
          | some tr => decide (1 ≤ tr.rows)

def subsOK (m : Module) : Bool :=
  allBelow m.ins fun i =>
    match m.xxi[i]? with
    | none => false
    | some x => decide (x.nsm ≤ 0) || x.sub.isSome

def sampleOK (s : Sample) : Bool :=
  !s.hasData ||
    (decide (0 ≤ s.lps) && decide (s.lps ≤ s.lpe) && decide (s.lpe ≤ s.len)
     && (!s.floop || decide (s.lps < s.lpe)) && s.guardOK)

/-- a sample that has data and the LOOP flag has `0 ≤ lps < lpe ≤ len` (guaranteed on
the common path by the epilogue's loop block) -/
def sampleLoopOK (s : Sample) : Bool :=
  !(s.hasData && s.floop) || (decide (0 ≤ s.lps) && decide (s.lps < s.lpe) && decide (s.lpe ≤ s.len))

/-- what the epilogue's loop block establishes for EVERY sample with data whose length is
not negative: ordered loop points inside the data, strictly ordered when flagged as looped -/
def sampleRangeOK (s : Sample) : Bool :=
  !s.hasData || decide (s.len < 0) ||
    (decide (0 ≤ s.lps) && decide (s.lps ≤ s.lpe) && decide (s.lpe ≤ s.len) && (!s.floop || decide (s.lps < s.lpe)))

def sampleRangesOK (m : Module) : Bool :=
  allBelow m.smp fun i => match m.xxs[i]? with | none => true | some s => sampleRangeOK s

def sampleLoopsOK (m : Module) : Bool :=
  allBelow m.smp fun i => match m.xxs[i]? with | none => true | some s => sampleLoopOK s

def samplesOK (m : Module) : Bool :=
  allBelow m.smp fun i => match m.xxs[i]? with | none => false | some s => sampleOK s

/-- upper bounds only: what `check_envelope` establishes for arbitrary input -/
def envUpperOK (e : Envelope) : Bool :=
  (!e.on || (decide (1 ≤ e.npt) && decide (e.npt ≤ (xmpMaxEnvPoints : Int))))
  && (!e.floop || (decide (e.lps < e.npt) && decide (e.lpe < e.npt)))
  && (!e.fsus || (decide (e.sus < e.npt) && decide (e.sue < e.npt)))

/-- the statement's clause: an enabled envelope has 1..32 points and its loop /
sustain points (when flagged) lie inside -/
def envOK (e : Envelope) : Bool :=
  !e.on ||
    (decide (1 ≤ e.npt) && decide (e.npt ≤ (xmpMaxEnvPoints : Int))
     && (!e.floop || (decide (0 ≤ e.lps) && decide (e.lps < e.npt) && decide (0 ≤ e.lpe) && decide (e.lpe < e.npt)))
     && (!e.fsus || (decide (0 ≤ e.sus) && decide (e.sus < e.npt) && decide (0 ≤ e.sue) && decide (e.sue < e.npt))))

/-- volume-envelope values of an enabled envelope lie in `[0, volbase]` -/
def volEnvOK (volbase : Int) (e : Envelope) : Bool :=
  !e.on || allBelow e.npt fun k =>
    match e.data[2 * k + 1]? with
    | none => true
    | some v => decide (0 ≤ v) && decide (v ≤ volbase)

def envelopesOK (m : Module) : Bool :=
  allBelow m.ins fun i =>
    match m.xxi[i]? with
    | none => false
    | some x => envOK x.aei && envOK x.pei && envOK x.fei

def envelopesUpperOK (m : Module) : Bool :=
  allBelow m.ins fun i =>
    match m.xxi[i]? with
    | none => true
    | some x => envUpperOK x.aei && envUpperOK x.pei && envUpperOK x.fei
                && (decide (m.volbase < 0) || volEnvOK m.volbase x.aei)

/-- the sustain-loop block's postcondition -/
def xtraOK (s : Sample) (x : Xtra) : Bool :=
  (decide (x.sus = 0) && decide (x.sue = 0) && !s.fsloop && !s.fsloopBidir)
  || (decide (0 ≤ x.sus) && decide (x.sus < x.sue) && decide (x.sue ≤ s.len))

def sustainOK (m : Module) : Bool :=
  allBelow m.smp fun i =>
    match m.xxs[i]?, m.xtra[i]? with
    | some s, some x => xtraOK s x
    | _, _ => true

def namesOK (m : Module) : Bool :=
  hasNul m.name && hasNul m.typ
  && allBelow m.ins (fun i => match m.xxi[i]? with | none => false | some x => hasNul x.name)
  && allBelow m.smp (fun i => match m.xxs[i]? with | none => false | some s => hasNul s.name)

def rstUpperOK (m : Module) : Bool := decide (m.rst < m.len) || decide (m.len = 0)
def rstOK (m : Module) : Bool := decide (0 ≤ m.rst) && rstUpperOK m
def spdOK (m : Module) : Bool := decide (1 ≤ m.spd) && decide (m.spd ≤ 255)
def bpmOK (m : Module) : Bool := decide ((xmpMinBpm : Int) ≤ m.bpm) && decide (m.bpm ≤ (epiBpmMax : Int))
def channelsOK (m : Module) : Bool :=
  allBelow m.chn fun i => match m.xxc[i]? with | some c => chanOK c | none => false

/-- the order list is empty or contains a valid pattern -/
def ordersOK (m : Module) : Bool :=
  decide (m.len = 0) || (List.range m.len.toNat).any fun o => decide ((m.xxo.getD o 0 : Int) < m.pat)

/-- unless the order list is empty: at least one sequence (at most
MAX_SEQUENCES), entry points distinct and inside the order list, durations
non-negative -/
def sequencesOK (m : Module) : Bool :=
  decide (m.len ≤ 0) ||
    (decide (1 ≤ m.numSeq) && decide (m.numSeq ≤ maxSequences)
     && decide (m.seqData.length = m.numSeq)
     && m.seqData.all (fun p => decide ((p.1 : Int) < m.len) && decide (0 ≤ p.2))
     && decide (m.seqData.map (·.1)).Nodup)

/-- the clause seeking relies on: every order belongs to no sequence or to an
existing one -/
def seqCtlOK (m : Module) : Bool :=
  allBelow m.len fun o => match m.seqCtl[o]? with
    | none => false
    | some c => c == 0xff || decide (c < m.numSeq)

/-- The full statement of C03 (every clause, including the per-loader ones). -/
def wfClauses (m : Module) : List (String × Bool) :=
  [ ("counts", countsOK m), ("patterns", patternsOK m), ("rows", rowsOK m), ("subinstruments", subsOK m),
    ("samples", samplesOK m), ("envelopes", envelopesOK m), ("names", namesOK m), ("rst", rstOK m),
    ("spd", spdOK m), ("bpm", bpmOK m), ("sequences", sequencesOK m), ("sequence_control", seqCtlOK m),
    ("channels", channelsOK m), ("orders", ordersOK m), ("sustain", sustainOK m),
    ("envelopes_upper", envelopesUpperOK m), ("rst_upper", rstUpperOK m),
    ("sample_loops", sampleLoopsOK m), ("sample_ranges", sampleRangesOK m) ]

def WF (m : Module) : Bool := (wfClauses m).all (·.2)

/-- What the common post-load path guarantees for *arbitrary* raw modules. -/
def WFCommon (m : Module) : Bool :=
  countsOK m && patternsOK m && rstUpperOK m && spdOK m && bpmOK m && channelsOK m
  && envelopesUpperOK m && sustainOK m && ordersOK m && sequencesOK m && seqCtlOK m && sampleLoopsOK m
  && sampleRangesOK m

/-! ## Loader obligations

What the common post-load path does NOT establish and every format loader
therefore owes (`LoaderOblig raw`, evaluated by the check on the raw module —
the state between the loader's `return 0` and the sanity gate — of every real
load).  Together with a successful `finish` it gives the full `WF`
(`C03_finish_full`).  The clauses are phrased over the counts the epilogue's
CLAMPs will leave (`clampCounts`), so a table may be longer than its final
count but never shorter. -/

/-- the raw module seen with the counts the epilogue's CLAMPs leave -/
def clampCounts (raw : Module) : Module :=
  { raw with pat := clampC raw.pat 0 epiPatMax, ins := clampC raw.ins 0 epiInsMax,
             smp := clampC raw.smp 0 maxSamples, chn := clampC raw.chn 0 xmpMaxChannels }

/-- a sample with data: non-negative length and readable guard frames (`libxmp_load_sample`
establishes both, C20).  The loop points are repaired by the epilogue (`sampleRangesOK`). -/
def sampleOblig (s : Sample) : Bool :=
  !s.hasData || (decide (0 ≤ s.len) && s.guardOK)

def samplesOblig (m : Module) : Bool :=
  allBelow m.smp fun i => match m.xxs[i]? with | none => false | some s => sampleOblig s

/-- `check_envelope` only tests upper bounds: loop / sustain points whose flag
survives it must not be negative -/
def envLowerOblig (e : Envelope) : Bool :=
  !(e.on && decide (1 ≤ e.npt) && decide (e.npt ≤ (xmpMaxEnvPoints : Int)))
  || ((!(e.floop && decide (e.lps < e.npt) && decide (e.lpe < e.npt)) || (decide (0 ≤ e.lps) && decide (0 ≤ e.lpe)))
      && (!(e.fsus && decide (e.sus < e.npt) && decide (e.sue < e.npt)) || (decide (0 ≤ e.sus) && decide (0 ≤ e.sue))))

def envelopesLowerOblig (m : Module) : Bool :=
  allBelow m.ins fun i =>
    match m.xxi[i]? with
    | none => false
    | some x => envLowerOblig x.aei && envLowerOblig x.pei && envLowerOblig x.fei

/-- the loader obligations, clause by clause -/
def obligClauses (raw : Module) : List (String × Bool) :=
  let c := clampCounts raw
  [ ("rows", rowsOK c), ("subinstruments", subsOK c), ("samples", samplesOblig c),
    ("envelopes_lower", envelopesLowerOblig c), ("names", namesOK c), ("rst_nonneg", decide (0 ≤ raw.rst)) ]

def LoaderOblig (raw : Module) : Bool := (obligClauses raw).all (·.2)

/-! ## Flag words -/

def bit (f mask : Nat) : Bool := f &&& mask != 0

def Envelope.ofFlg (flg : Nat) (npt sus sue lps lpe : Int) (data : List Int) : Envelope :=
  { on := bit flg xmpEnvelopeOn, fsus := bit flg xmpEnvelopeSus, floop := bit flg xmpEnvelopeLoop
    other := flg &&& (0xffffffff ^^^ (xmpEnvelopeOn ||| xmpEnvelopeSus ||| xmpEnvelopeLoop))
    npt := npt, sus := sus, sue := sue, lps := lps, lpe := lpe, data := data }

def Envelope.toFlg (e : Envelope) : Nat :=
  e.other ||| (if e.on then xmpEnvelopeOn else 0) ||| (if e.fsus then xmpEnvelopeSus else 0)
  ||| (if e.floop then xmpEnvelopeLoop else 0)

def Sample.flagsOf (flg : Nat) : Bool × Bool × Bool × Bool × Nat :=
  (bit flg xmpSampleLoop, bit flg xmpSampleLoopBidir, bit flg xmpSampleSloop, bit flg xmpSampleSloopBidir,
   flg &&& (0xffffffff ^^^ (xmpSampleLoop ||| xmpSampleLoopBidir ||| xmpSampleSloop ||| xmpSampleSloopBidir)))

def Sample.toFlg (s : Sample) : Nat :=
  s.other ||| (if s.floop then xmpSampleLoop else 0) ||| (if s.floopBidir then xmpSampleLoopBidir else 0)
  ||| (if s.fsloop then xmpSampleSloop else 0)
  ||| (if s.fsloopBidir then xmpSampleSloopBidir else 0)

end Xmp.LoadPost
