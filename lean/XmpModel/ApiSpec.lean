import XmpModel.Api
/-!
# The documented contract of the public API (C05) — written from docs/libxmp.rst only

For every call the documentation gives (a) the player states in which it is refused
(`-XMP_ERROR_STATE`, or *ignored* for `void` functions), (b) the argument ranges outside which it is
refused (`-XMP_ERROR_INVALID`), (c) other failure codes (resource / format errors), (d) the value
returned and the effect on success.  `Spec.cell` is that table; `Cell.ok` is the common reading rule:

* if a documented refusal condition holds, the call must return one of the codes whose condition
  holds (any order of the checks is accepted) and **must not have any effect**;
* otherwise it must succeed with the documented value/effect, or fail with one of the other
  documented codes, or — only where the documentation is silent or contradicts itself
  (`mayState` / `mayInvalid`) — be refused without effect.

Numbers come from `Xmp.Api.Doc` (quoted from libxmp.rst by tools/gen_exports.py) and from the
public header (`XMP_*`).  Nothing here looks at the C.
-/
namespace Xmp.Api
open Xmp.Api.Gen

structure Cell where
  void : Bool := false              -- no return value: a refusal is "the call is ignored"
  stateErr : Bool := false          -- the state forbids the call
  invalid : Bool := false           -- an argument is outside its documented range
  invCode : Int := -XMP_ERROR_INVALID
  mayState : Bool := false          -- documentation silent/contradictory: -XMP_ERROR_STATE tolerated
  mayInvalid : Bool := false        -- documentation silent: -XMP_ERROR_INVALID tolerated
  other : Int → Obs → Bool := fun _ _ => false   -- other documented failures (code, state after)
  succ : Int → Obs → Bool           -- documented success (value, state after)

def Cell.ok (c : Cell) (o : Obs) (ret : Int) (o' : Obs) : Bool :=
  if c.stateErr || c.invalid then
    (c.void || ((c.stateErr || c.mayState) && ret == -XMP_ERROR_STATE) || ((c.invalid || c.mayInvalid) && ret == c.invCode))
      && decide (o' = o)
  else
    c.succ ret o' || c.other ret o'
      || (!c.void && ((c.mayState && ret == -XMP_ERROR_STATE) || (c.mayInvalid && ret == c.invCode)) && decide (o' = o))

def inRange (v lo hi : Int) : Bool := lo ≤ v && v ≤ hi
def isOneOf (v : Int) (l : List Int) : Bool := l.contains v

/-- "the new position index": a valid order number (0 when the module has no orders) -/
def posIndex (o : Obs) (ret : Int) : Bool := 0 ≤ ret && (ret < o.len || ret == 0)

/-- fields that no documented call but load/release/start changes -/
def Obs.withModule (o : Obs) (st chn len ins cflags mode : Int) : Obs :=
  { o with st := st, chn := chn, len := len, ins := ins, cflags := cflags, mode := mode }

/-- the settings `xmp_start_player` establishes; everything else is kept -/
def Obs.started (o : Obs) (e : Env) (mix dsp : Int) : Obs :=
  { o with st := XMP_STATE_PLAYING, amp := Doc.ampDefault, mix := mix, interp := XMP_INTERP_LINEAR, dsp := dsp,
           volume := 100, smixVol := 100, mute := startMute o.chn e.xmute, vol := List.replicate 64 100 }

/-- a failed `xmp_start_player` leaves a loaded, non-playing context; per-run settings are unspecified -/
def Obs.startFailed (o o' : Obs) : Bool :=
  decide (o' = { o with st := XMP_STATE_LOADED, amp := o'.amp, mix := o'.mix, interp := o'.interp, dsp := o'.dsp,
                        volume := o'.volume, smixVol := o'.smixVol, mute := o'.mute, vol := o'.vol })

def flagBitsKnown (v known : Int) : Bool := 0 ≤ v && v ≤ known   -- coarse: no bit above the documented ones

def unchanged (o : Obs) (ret : Int) (want : Int) (o' : Obs) : Bool := ret == want && decide (o' = o)

def Spec.setPlayer (o : Obs) (parm val : Int) : Cell :=
  let notPlaying := o.st < XMP_STATE_PLAYING
  if parm == XMP_PLAYER_AMP then
    { stateErr := notPlaying, invalid := !inRange val Doc.ampLo Doc.ampHi,
      succ := fun r o' => r == 0 && decide (o' = { o with amp := val }) }
  else if parm == XMP_PLAYER_MIX then     -- "percentual left/right channel separation"
    { stateErr := notPlaying, invalid := !inRange val (-100) 100, mayInvalid := val < 0,
      succ := fun r o' => r == 0 && decide (o' = { o with mix := val }) }
  else if parm == XMP_PLAYER_INTERP then
    { stateErr := notPlaying, invalid := !inRange val XMP_INTERP_NEAREST XMP_INTERP_SPLINE,
      succ := fun r o' => r == 0 && decide (o' = { o with interp := val }) }
  else if parm == XMP_PLAYER_DSP then
    { stateErr := notPlaying, mayInvalid := !flagBitsKnown val XMP_DSP_ALL,
      succ := fun r o' => r == 0 && decide (o' = { o with dsp := val }) }
  else if parm == XMP_PLAYER_FLAGS then
    { stateErr := notPlaying, mayInvalid := !flagBitsKnown val 15,
      succ := fun r o' => r == 0 && decide (o' = { o with flags := val }) }
  else if parm == XMP_PLAYER_CFLAGS then
    { stateErr := notPlaying, mayInvalid := !flagBitsKnown val 15,
      succ := fun r o' => r == 0 && decide (o' = { o with cflags := val }) }
  else if parm == XMP_PLAYER_SMPCTL then   -- "must be set before loading the module"
    { stateErr := o.st ≥ XMP_STATE_LOADED, mayInvalid := !flagBitsKnown val 1,
      succ := fun r o' => r == 0 && decide (o' = { o with smpctl := val }) }
  else if parm == XMP_PLAYER_DEFPAN then
    { stateErr := o.st ≥ XMP_STATE_LOADED, invalid := !inRange val 0 100,
      succ := fun r o' => r == 0 && decide (o' = { o with defpan := val }) }
  else if parm == XMP_PLAYER_VOLUME then   -- documented 0..volHi; larger values: documentation drift, tolerated either way
    { stateErr := notPlaying, invalid := val < Doc.volLo, mayInvalid := val > Doc.volHi,
      succ := fun r o' => r == 0 && decide (o' = { o with volume := val }) }
  else if parm == XMP_PLAYER_SMIX_VOLUME then
    { stateErr := notPlaying, invalid := val < Doc.volLo, mayInvalid := val > Doc.volHi,
      succ := fun r o' => r == 0 && decide (o' = { o with smixVol := val }) }
  else if parm == XMP_PLAYER_MODE then
    -- a mode under whose reading of the order list nothing of this module is playable may be refused
    -- (never together with an effect)
    { stateErr := notPlaying, invalid := !inRange val XMP_MODE_AUTO XMP_MODE_ITSMP, mayInvalid := true,
      succ := fun r o' => r == 0 && decide (o' = { o with mode := val }) }
  else if parm == XMP_PLAYER_VOICES then
    -- the general "-XMP_ERROR_STATE if the player is not in playing state" cannot apply to a voice count that
    -- the player allocates when it starts: either reading of the state rule is accepted, but never an
    -- error code together with an effect
    -- no maximum is documented ("if set too high … excessive CPU usage"): counts above the default may be refused
    { mayState := true, invalid := val < 0, mayInvalid := val > Doc.voicesDefault,
      succ := fun r o' => r == 0 && decide (o' = { o with voices := val }) }
  else  -- XMP_PLAYER_STATE, XMP_PLAYER_MIXER_TYPE (read only) and unknown numbers
    { invalid := true, mayState := true, succ := fun _ _ => false }

def Spec.getPlayer (o : Obs) (parm : Int) : Cell :=
  let notPlaying := o.st < XMP_STATE_PLAYING
  let rd (v : Int) : Cell := { stateErr := notPlaying, succ := fun r o' => unchanged o r v o' }
  if parm == XMP_PLAYER_STATE then { succ := fun r o' => unchanged o r o.st o' }
  else if parm == XMP_PLAYER_AMP then rd o.amp
  else if parm == XMP_PLAYER_MIX then rd o.mix
  else if parm == XMP_PLAYER_INTERP then rd o.interp
  else if parm == XMP_PLAYER_DSP then rd o.dsp
  else if parm == XMP_PLAYER_FLAGS then rd o.flags
  else if parm == XMP_PLAYER_CFLAGS then rd o.cflags
  else if parm == XMP_PLAYER_VOLUME then rd o.volume
  else if parm == XMP_PLAYER_SMIX_VOLUME then rd o.smixVol
  else if parm == XMP_PLAYER_MODE then rd o.mode
  else if parm == XMP_PLAYER_VOICES then rd o.voices
  -- set before loading, so readable before playing; the general state rule is tolerated
  else if parm == XMP_PLAYER_SMPCTL then { mayState := notPlaying, succ := fun r o' => unchanged o r o.smpctl o' }
  else if parm == XMP_PLAYER_DEFPAN then { mayState := notPlaying, succ := fun r o' => unchanged o r o.defpan o' }
  else if parm == XMP_PLAYER_MIXER_TYPE then
    { stateErr := notPlaying,
      succ := fun r o' => isOneOf r [XMP_MIXER_STANDARD, XMP_MIXER_A500, XMP_MIXER_A500F] && decide (o' = o) }
  else { invalid := true, mayState := notPlaying, succ := fun _ _ => false }

def loadErrors : List Int := [-XMP_ERROR_FORMAT, -XMP_ERROR_LOAD, -XMP_ERROR_DEPACK, -XMP_ERROR_SYSTEM]
def testResults : List Int := [0, -XMP_ERROR_FORMAT, -XMP_ERROR_DEPACK, -XMP_ERROR_SYSTEM]

def Spec.smixPlay (o : Obs) (nins ins note vol chn : Int) : Cell :=
  { stateErr := o.st < XMP_STATE_PLAYING,
    invalid := chn < 0 || chn ≥ o.sxChn || ins < 0 || ins ≥ nins,
    -- documented: "0 to the maximum volume value used by the current module"; whatever that maximum is, the
    -- value must fit the byte fields of `struct xmp_event` (volume is stored as vol + 1)
    mayInvalid := !inRange note 0 255 || !inRange vol 0 254,
    succ := fun r o' => unchanged o r 0 o' }

def Spec.cell (o : Obs) (c : Call) (e : Env) : Cell :=
  let notPlaying := o.st < XMP_STATE_PLAYING
  let same : Int → Obs → Bool := fun r o' => unchanged o r 0 o'
  match c with
  | .recreate =>
    { void := true, succ := fun _ o' => o'.st == XMP_STATE_UNLOADED && o'.defpan == Doc.defpanDefault
        && o'.voices == Doc.voicesDefault && o'.smpctl == 0 && o'.sxChn == 0 && o'.sxIns == 0 }
  | .version | .getFormatList | .syserrno => { succ := same }
  | .testModule _ =>       -- "does not affect the current player context or any currently loaded module"
    { succ := fun r o' => isOneOf r testResults && decide (o' = o) }
  | .load k size =>
    { mayInvalid := k == .mem && size ≤ 0,
      -- personality: "Autodetect mode (default)", or the one a known module is forced to
      succ := fun r o' => r == 0 && decide (o' = o.withModule XMP_STATE_LOADED e.mchn e.mlen e.mins e.mcflags o'.mode)
        && inRange o'.mode XMP_MODE_AUTO XMP_MODE_ITSMP,
      -- a failed load leaves the context as it was, or without a module
      other := fun r o' => isOneOf r loadErrors &&
        (decide (o' = o) || decide (o' = o.withModule XMP_STATE_UNLOADED o'.chn o'.len o'.ins o'.cflags o'.mode)) }
  | .release => { void := true, succ := fun _ o' => decide (o' = { o with st := XMP_STATE_UNLOADED }) }
  | .scan | .getModuleInfo | .getFrameInfo => { void := true, stateErr := o.st < XMP_STATE_LOADED, succ := same }
  | .start rate _ =>
    { stateErr := o.st < XMP_STATE_LOADED,
      invalid := rate < XMP_MIN_SRATE || rate > XMP_MAX_SRATE,
      -- rst: "8kHz to 48kHz", header: XMP_MIN_SRATE..XMP_MAX_SRATE; more channels than the tables hold
      mayInvalid := rate < Doc.rateLoK * 1000 || rate > Doc.rateHiK * 1000 || o.chn + o.sxChn > XMP_MAX_CHANNELS,
      other := fun r o' => isOneOf r [-XMP_ERROR_INTERNAL, -XMP_ERROR_SYSTEM] && o.startFailed o',
      succ := fun r o' => r == 0 && o.chn + o.sxChn ≤ XMP_MAX_CHANNELS
        && decide (o' = o.started e o'.mix o'.dsp) && inRange o'.mix (-100) 100 && flagBitsKnown o'.dsp XMP_DSP_ALL }
  | .playFrame => { stateErr := notPlaying, succ := fun r o' => isOneOf r [0, -XMP_END] && decide (o' = o) }
  | .playBuffer null _ _ =>
    if null then { mayState := notPlaying, succ := same }
    else { stateErr := notPlaying, succ := fun r o' => isOneOf r [0, -XMP_END] && decide (o' = o) }
  | .endPlayer =>
    { void := true, stateErr := notPlaying, succ := fun _ o' => decide (o' = { o with st := XMP_STATE_LOADED }) }
  | .nextPos | .prevPos | .seekTime _ =>
    { stateErr := notPlaying, succ := fun r o' => posIndex o r && decide (o' = o) }
  | .setPos pos =>
    { stateErr := notPlaying, invalid := pos < 0 || pos ≥ o.len, succ := fun r o' => posIndex o r && decide (o' = o) }
  | .setRow row =>
    { stateErr := notPlaying, invalid := row < 0 || e.rows < 0 || row ≥ e.rows, succ := fun r o' => unchanged o r row o' }
  | .setTempo positive =>
    { stateErr := notPlaying, invalid := !positive, invCode := -1, mayInvalid := true, succ := same }
  | .stop | .restart => { void := true, stateErr := notPlaying, succ := same }
  | .chanMute chn status =>
    let old := getAt o.mute chn
    { stateErr := notPlaying, invalid := chn < 0 || chn ≥ XMP_MAX_CHANNELS,
      mayInvalid := chn ≥ o.chn + o.sxChn || status < -1,
      succ := fun r o' => r == old &&
        (if status == 0 || status == 1 then decide (o' = { o with mute := setAt o.mute chn status })
         else if status == 2 then decide (o' = { o with mute := setAt o.mute chn (if old == 0 then 1 else 0) })
         else if status == -1 then decide (o' = o)
         -- undocumented status values: a query, or an inversion
         else decide (o' = o) || decide (o' = { o with mute := setAt o.mute chn (if old == 0 then 1 else 0) })) }
  | .chanVol chn vol =>
    let old := getAt o.vol chn
    { stateErr := notPlaying, invalid := chn < 0 || chn ≥ XMP_MAX_CHANNELS,
      mayInvalid := chn ≥ o.chn + o.sxChn || vol < -1 || vol > Doc.chanVolHi,
      succ := fun r o' => r == old &&
        (if inRange vol Doc.chanVolLo Doc.chanVolHi then decide (o' = { o with vol := setAt o.vol chn vol })
         else decide (o' = o)) }
  | .inject chn =>
    { void := true, stateErr := notPlaying, invalid := chn < 0 || chn ≥ XMP_MAX_CHANNELS, succ := same }
  | .setPlayer parm val => Spec.setPlayer o parm val
  | .getPlayer parm => Spec.getPlayer o parm
  | .setInsPath _ => { succ := fun r o' => isOneOf r [0, -XMP_ERROR_SYSTEM] && decide (o' = o) }
  | .startSmix nch nsmp =>
    { stateErr := o.st ≥ XMP_STATE_PLAYING,
      invalid := nch < 0 || nch > Doc.smixChHi || nsmp < 0,
      mayInvalid := nch < Doc.smixChLo || nsmp > 255 || (o.st ≥ XMP_STATE_LOADED && o.chn + nch > XMP_MAX_CHANNELS),
      other := fun r o' => isOneOf r [-XMP_ERROR_SYSTEM, -XMP_ERROR_INTERNAL] &&
        (decide (o' = o) || decide (o' = { o with sxChn := 0, sxIns := 0 })),
      succ := fun r o' => r == 0 && decide (o' = { o with sxChn := nch, sxIns := nsmp }) }
  | .smixPlayIns ins note vol chn => Spec.smixPlay o o.ins ins note vol chn
  | .smixPlaySmp ins note vol chn => Spec.smixPlay o o.sxIns ins note vol chn
  | .smixPan chn pan =>
    { invalid := chn < 0 || chn ≥ o.sxChn || !inRange pan Doc.panLo Doc.panHi,
      mayState := notPlaying, succ := same }
  | .smixLoad num file =>
    { invalid := num < 0 || num ≥ o.sxIns,
      succ := fun r o' => file == 0 && unchanged o r 0 o',
      other := fun r o' => (file == 1 && unchanged o r (-XMP_ERROR_SYSTEM) o')
                        || (file != 0 && file != 1 && unchanged o r (-XMP_ERROR_FORMAT) o') }
  | .smixRelease num => { invalid := num < 0 || num ≥ o.sxIns, succ := same }
  | .endSmix =>
    -- "deinitialize": no reserved channels or slots afterwards; while playing the call may be ignored
    { void := true, succ := fun _ o' => decide (o' = { o with sxChn := 0, sxIns := 0 })
                                       || (o.st ≥ XMP_STATE_PLAYING && decide (o' = o)) }

/-- **The specification**: is `(ret, o')` an outcome the documentation allows for call `c` in `o`? -/
def Spec.ok (o : Obs) (c : Call) (e : Env) (ret : Int) (o' : Obs) : Bool := (Spec.cell o c e).ok o ret o'

/-- Assumptions about the inputs decided outside the modelled functions (checked on every real call
    by the driver; the ranges of module facts are C03's, the position range is C17's). -/
def EnvOk (s : State) (c : Call) (e : Env) : Bool :=
  match c with
  | .testModule _ => isOneOf e.res testResults
  | .load k size =>
    if k == .mem && size ≤ 0 then true
    else if e.early then isOneOf e.res [-XMP_ERROR_SYSTEM, -XMP_ERROR_DEPACK]
    else if e.res == 0 then inRange e.mchn 0 XMP_MAX_CHANNELS && inRange e.mlen 0 XMP_MAX_MOD_LENGTH && inRange e.mins 0 255
                            && inRange e.mmode XMP_MODE_AUTO XMP_MODE_ITSMP
    else isOneOf e.res loadErrors
  | .start _ _ => isOneOf e.res [0, -XMP_ERROR_INTERNAL, -XMP_ERROR_SYSTEM]
  | .playFrame => s.st < XMP_STATE_PLAYING || (isOneOf e.res [0, -XMP_END] && -2 ≤ e.newPos)
  | .playBuffer null size _ =>
    null || s.st < XMP_STATE_PLAYING || size ≤ 0 || (isOneOf e.res [0, -XMP_END] && -2 ≤ e.newPos)
  | .nextPos | .prevPos | .setPos _ | .seekTime _ =>
    s.st < XMP_STATE_PLAYING || (-2 ≤ e.newPos && (e.newPos < s.len || e.newPos ≤ 0))
  | .getPlayer _ => isOneOf e.mixerType [XMP_MIXER_STANDARD, XMP_MIXER_A500, XMP_MIXER_A500F]
  | .startSmix _ _ => isOneOf e.res [0, -XMP_ERROR_INTERNAL]
  | _ => true

end Xmp.Api
