import XmpModel.LoadPost
import XmpModel.Gen.C03Guards
/-!
# Player-side guards on instrument / sub-instrument / sample references (C03)

The module tables hold references the load path never validates: the instrument
number and note of an event, `xxi[i].map[key].ins` (key → sub-instrument) and
`sub[j].sid` (sub-instrument → sample).  The player does not trust them: every
lookup goes through the macros of src/player.h

    IS_VALID_INSTRUMENT(x)  ((uint32)(x) < mod->ins && mod->xxi[(x)].nsm > 0)
    IS_VALID_SAMPLE(x)      ((uint32)(x) < mod->smp && mod->xxs[(x)].data != NULL)
    IS_VALID_NOTE(x)        ((uint32)(x) < XMP_MAX_KEYS)

and `get_subinstrument` (src/read_event.c).  This file mirrors them; the texts of
the macros and the shape of `get_subinstrument` are checked against the sources
on every run (`Gen/C03Guards.lean`, theorem `guards_present`).
-/
namespace Xmp.LoadPost.Player
open Xmp.Gen.Limits

/-- C conversion `(uint32)(x)` of an `int` -/
def u32 (x : Int) : Nat := (x % 4294967296).toNat

/-- `IS_VALID_NOTE(x)` -/
def isValidNote (x : Int) : Bool := decide (u32 x < xmpMaxKeys)

/-- `IS_VALID_INSTRUMENT(x)`; `mod->ins` is converted to unsigned by the comparison -/
def isValidInstrument (m : Module) (x : Int) : Bool :=
  decide (u32 x < u32 m.ins) && (match m.xxi[u32 x]? with | some i => decide (i.nsm > 0) | none => false)

/-- `IS_VALID_SAMPLE(x)` -/
def isValidSample (m : Module) (x : Int) : Bool :=
  decide (u32 x < u32 m.smp) && (match m.xxs[u32 x]? with | some s => s.hasData | none => false)

/-- `get_subinstrument(ctx, ins, key)`: the instrument and sub-instrument index of the
`struct xmp_subinstrument *` it returns, `none` = NULL.  `map i k` = `xxi[i].map[k].ins`
(an `unsigned char`). -/
def getSub (m : Module) (map : Nat → Nat → Nat) (ins key : Int) : Option (Nat × Nat) :=
  if isValidInstrument m ins then
    match m.xxi[u32 ins]? with
    | none => none
    | some x =>
      if isValidNote key then
        let mapped := map (u32 ins) (u32 key)
        if mapped ≠ 0xff ∧ (mapped : Int) < x.nsm then some (u32 ins, mapped) else none
      else if x.nsm > 0 then some (u32 ins, 0) else none
  else none

/-- the guarded way from an event to a sample (read_event.c: `smp = sub->sid;
if (… !IS_VALID_SAMPLE(smp)) smp = -1; if (smp >= 0 && smp < mod->smp) set_patch(…)`) -/
def sampleOf (m : Module) (map : Nat → Nat → Nat) (ins key : Int) : Option Nat :=
  match getSub m map ins key with
  | none => none
  | some (i, j) =>
    match m.xxi[i]? with
    | none => none
    | some x =>
      let smp := x.sids.getD j 0
      let smp := if isValidSample m smp then smp else -1
      if smp ≥ 0 ∧ smp < m.smp then some smp.toNat else none

/-- the sample ids of the sub-instruments in use lie inside the sample table: what the
player's UNGUARDED uses of `sub->sid` (`Gen/C03Guards.trustedSidSites`) rely on -/
def sidsOK (m : Module) : Bool :=
  allBelow m.ins fun i =>
    match m.xxi[i]? with
    | none => true
    | some x => allBelow x.nsm fun j =>
        match x.sids[j]? with
        | none => true
        | some s => decide (0 ≤ s) && decide (s < m.smp)

/-- every sub-instrument array has at least `nsm` entries (observed on real modules through the
allocator: a shorter array is reported as not allocated) -/
def subsLenOK (m : Module) : Bool :=
  allBelow m.ins fun i =>
    match m.xxi[i]? with
    | none => true
    | some x => decide (x.nsm ≤ 0) || (match x.sub with | some l => decide (x.nsm ≤ l.length) | none => false)

end Xmp.LoadPost.Player
