import XmpModel.Basic
/-!
# compress(1) LZW as decoded by `src/depackers/uncompress.c` (model for C08)

`decrunch_compress` is the classic (N)compress 4.2 `decompress()`: 9..16 bit codes, LSB first, optional
block mode (code 256 = CLEAR), code width switching with the "groups of 8 codes" alignment quirk, the
KwKwK special case, the `FIRST - 1` trick after a CLEAR (the next code creates an unreachable entry 256).

What is mirrored
* the `input()` macro (`readCode`: 24-bit little-endian window, shift, mask);
* the width state machine (`W`): `free_ent > maxcode` → align `posbits` up to a multiple of `n_bits*8`
  *relative to the last alignment point*, `++n_bits`, `maxcode = (n_bits == maxbits) ? maxmaxcode :
  MAXCODE(n_bits)-1`; CLEAR → align, `n_bits = 9`; including the lineage quirk that `maxbits = 9`
  streams switch to 10 bits when the table is full;
* the string table as prefix/suffix pairs walked through `tab_prefixof` (`chainRev`, = the order in which
  bytes are pushed on `de_stack`), `finchar`, `oldcode`, the `code > free_ent` rejection, the first
  code `>= 256` rejection, table growth only while `free_ent < maxmaxcode`;
* header checks of `decrunch_compress` (magic, `maxbits` range, block-mode bit).

Abstractions (stated, tied by correspondence on streams longer than several input buffers)
* the input buffer refills (`IBUFSIZ` chunks, `resetbuf`) are not modelled: a refill happens only on a
  group boundary (`inbits = (insize - insize % n_bits) << 3`), so `posbits` relative to the last
  width change/CLEAR is unchanged modulo `n_bits*8`; the model keeps one absolute bit position `pos`
  and the position `base` of the last alignment point.  At end of input C stops when fewer than
  `n_bits` bits remain (`inbits = (insize<<3) - (n_bits-1)`), which is the model's stop test;
* the table is truncated at `free_ent` (`free_ent = 256 + tab.size`): entries at and above `free_ent` are
  stale in C but can never be read because `code > free_ent` is rejected and prefixes are older codes;
* output buffer growth (`realloc`) is not modelled; output is accumulated reversed.
-/
namespace Xmp.Lzw
open Xmp

/-! ## bit level -/

def byteAt (a : Array UInt8) (i : Nat) : Nat := (a[i]?.getD 0).toNat

/-- the `input(b,o,c,n,m)` macro: `p = &b[o>>3]; c = ((p[0] | p[1]<<8 | p[2]<<16) >> (o&7)) & m` with
    `m = (1<<n)-1`.  Bytes past the end are never part of a code that is used (stop test), read as 0 here. -/
def readCode (a : Array UInt8) (o n : Nat) : Nat :=
  ((byteAt a (o / 8) ||| (byteAt a (o / 8 + 1) <<< 8) ||| (byteAt a (o / 8 + 2) <<< 16)) >>> (o % 8)) &&& (2 ^ n - 1)

/-- `posbits = (posbits-1) + ((n_bits<<3) - (posbits-1+(n_bits<<3)) % (n_bits<<3))` in C `int`
    arithmetic (for `posbits = 0` the C expression evaluates to 0) -/
def alignUp (rel nb8 : Nat) : Nat :=
  if rel = 0 then 0 else (rel - 1) + (nb8 - (rel - 1 + nb8) % nb8)

/-- code-width state shared by decoder and encoder -/
structure W where
  pos : Nat            -- absolute bit position in the code area (after the 3 header bytes)
  base : Nat           -- bit position of the last alignment point
  nBits : Nat
  maxcode : Nat
  deriving Repr, DecidableEq

def W.init : W := { pos := 0, base := 0, nBits := 9, maxcode := 511 }

def W.aligned (w : W) : Nat := w.base + alignUp (w.pos - w.base) (w.nBits * 8)

/-- `free_ent > maxcode`: pad to the group boundary, one more bit per code -/
def W.bump (maxbits : Nat) (w : W) : W :=
  { pos := w.aligned, base := w.aligned, nBits := w.nBits + 1,
    maxcode := if w.nBits + 1 = maxbits then 2 ^ maxbits else 2 ^ (w.nBits + 1) - 1 }

/-- CLEAR: pad to the group boundary, back to 9 bits -/
def W.clear (w : W) : W := { pos := w.aligned, base := w.aligned, nBits := 9, maxcode := 511 }

def W.adv (w : W) : W := { w with pos := w.pos + w.nBits }

/-! ## decoder -/

/-- walk `tab_prefixof` from `code`: bytes in the order they are pushed on `de_stack`
    (last byte of the string first) and the final literal (the new `finchar`).
    `tab[i]` is the (prefix, suffix) pair of code `256 + i`. -/
def chainRev (tab : Array (Nat × UInt8)) : Nat → Nat → Option (List UInt8 × UInt8)
  | 0, _ => none
  | fuel + 1, code =>
    if code < 256 then some ([UInt8.ofNat code], UInt8.ofNat code)
    else
      match tab[code - 256]? with
      | none => none                      -- at/above free_ent: unreachable (see header)
      | some (pre, suf) => (chainRev tab fuel pre).map (fun r => (suf :: r.1, r.2))

structure Dec where
  w : W
  tab : Array (Nat × UInt8)
  oldcode : Option Nat        -- `none` = -1
  finchar : UInt8
  out : Bytes                 -- reversed
  deriving Repr

/-- what one code does to the decoder state after `input()` (`none` = "corrupt input", -1):
    first code, CLEAR, KwKwK, table walk, output, new table entry -/
def decCode (maxbits : Nat) (blockMode : Bool) (d : Dec) (code : Nat) : Option Dec :=
  match d.oldcode with
  | none =>
    if code ≥ 256 then none
    else some { d with oldcode := some code, finchar := UInt8.ofNat code, out := UInt8.ofNat code :: d.out }
  | some oc =>
    if code = 256 ∧ blockMode = true then some { d with w := d.w.clear, tab := #[] }
    else if code > 256 + d.tab.size then none
    else
      let stk? :=
        if code = 256 + d.tab.size then
          (chainRev d.tab (d.tab.size + 2) oc).map (fun r => (d.finchar :: r.1, r.2))
        else chainRev d.tab (d.tab.size + 2) code
      match stk? with
      | none => none
      | some (stk, fin) =>
        some { w := d.w,
               tab := if 256 + d.tab.size < 2 ^ maxbits then d.tab.push (oc, fin) else d.tab,
               oldcode := some code, finchar := fin, out := stk ++ d.out }

/-- the `while (inbits > posbits)` loop over the whole code area -/
def decGo (a : Array UInt8) (maxbits : Nat) (blockMode : Bool) : Nat → Dec → Option Bytes
  | 0, _ => none
  | fuel + 1, d =>
    if d.w.pos + d.w.nBits > 8 * a.size then some d.out.reverse
    else if 256 + d.tab.size > d.w.maxcode then
      decGo a maxbits blockMode fuel { d with w := d.w.bump maxbits }
    else
      match decCode maxbits blockMode { d with w := d.w.adv } (readCode a d.w.pos d.w.nBits) with
      | none => none
      | some d' => decGo a maxbits blockMode fuel d'

def initTab (blockMode : Bool) : Array (Nat × UInt8) := if blockMode then #[(0, 0)] else #[]

/-- `decrunch_compress` on the whole file -/
def unlzw (f : Bytes) : Option Bytes :=
  match f with
  | m1 :: m2 :: flags :: body =>
    if m1 ≠ 31 ∨ m2 ≠ 157 then none
    else
      let maxbits := flags.toNat % 32
      let blockMode := flags.toNat / 128 % 2 == 1
      if maxbits < 9 ∨ maxbits > 16 then none
      else
        decGo body.toArray maxbits blockMode (2 * body.length + 4)
          { w := W.init, tab := initTab blockMode, oldcode := none, finchar := 0, out := [] }
  | _ => none

/-! ## encoder (mirrors the decoder's width state, greedy parse bounded by `maxLen`, CLEAR policy `clr`) -/

def natToBits : Nat → Nat → List Bool
  | 0, _ => []
  | n + 1, c => (c % 2 == 1) :: natToBits n (c / 2)

def bitsToNat : List Bool → Nat
  | [] => 0
  | b :: r => (if b then 1 else 0) + 2 * bitsToNat r

def packGo : Nat → List Bool → Bytes
  | 0, _ => []
  | k + 1, l => UInt8.ofNat (bitsToNat (l.take 8)) :: packGo k (l.drop 8)

/-- LSB-first bit string to bytes, last byte zero padded -/
def packBits (bits : List Bool) : Bytes := packGo ((bits.length + 7) / 8) bits

/-- (value, width) emissions to bits -/
def emBits (ems : List (Nat × Nat)) : List Bool := ems.flatMap (fun e => natToBits e.2 e.1)

/-- one code as the decoder will read it: pad + width change if `free_ent > maxcode`, then the code -/
def emitCode (maxbits : Nat) (w : W) (freeEnt code : Nat) : List (Nat × Nat) × W :=
  if freeEnt > w.maxcode then
    ([(0, (w.bump maxbits).pos - w.pos), (code, (w.bump maxbits).nBits)], (w.bump maxbits).adv)
  else ([(code, w.nBits)], w.adv)

/-- first table entry `(cur, b)` at index ≥ `i` -/
def findChild (tab : Array (Nat × UInt8)) (cur : Nat) (b : UInt8) : Nat → Nat → Option Nat
  | 0, _ => none
  | fuel + 1, i =>
    match tab[i]? with
    | none => none
    | some e => if e.1 = cur ∧ e.2 = b then some (256 + i) else findChild tab cur b fuel (i + 1)

/-- extend the current match `cur` (of length `len`) along the input while a table entry exists -/
def matchGo (tab : Array (Nat × UInt8)) (lo maxLen : Nat) : Nat → Nat → Bytes → Nat × Bytes
  | cur, _, [] => (cur, [])
  | cur, len, b :: rem =>
    if len ≥ maxLen then (cur, b :: rem)
    else
      match findChild tab cur b tab.size (lo - 256) with
      | some c => matchGo tab lo maxLen c (len + 1) rem
      | none => (cur, b :: rem)

def loCode (blockMode : Bool) : Nat := if blockMode then 257 else 256

def encGo (maxbits : Nat) (bm : Bool) (clr : Nat → Bool) (maxLen : Nat) :
    Nat → Nat → W → Array (Nat × UInt8) → Nat → Bytes → List (Nat × Nat)
  | 0, _, _, _, _, _ => []
  | _, _, _, _, _, [] => []
  | fuel + 1, i, w, tab, oc, b :: rem =>
    if bm = true ∧ clr i = true then
      let e1 := emitCode maxbits w (256 + tab.size) 256
      let w2 := e1.2.clear
      let tabE : Array (Nat × UInt8) := #[(oc, b)]
      let m := matchGo tabE (loCode bm) maxLen b.toNat 1 rem
      let e2 := emitCode maxbits w2 256 m.1
      e1.1 ++ (0, w2.pos - e1.2.pos) :: e2.1 ++ encGo maxbits bm clr maxLen fuel (i + 1) e2.2 tabE m.1 m.2
    else
      let tabE := if 256 + tab.size < 2 ^ maxbits then tab.push (oc, b) else tab
      let m := matchGo tabE (loCode bm) maxLen b.toNat 1 rem
      let e2 := emitCode maxbits w (256 + tab.size) m.1
      e2.1 ++ encGo maxbits bm clr maxLen fuel (i + 1) e2.2 tabE m.1 m.2

/-- the emissions for a payload: the first code is a 9-bit literal -/
def lzwEms (maxbits : Nat) (bm : Bool) (clr : Nat → Bool) (maxLen : Nat) : Bytes → List (Nat × Nat)
  | [] => []
  | b :: rem => (b.toNat, 9) :: encGo maxbits bm clr maxLen rem.length 1 W.init.adv (initTab bm) b.toNat rem

/-- a complete `.Z` file -/
def lzwEncode (maxbits : Nat) (bm : Bool) (clr : Nat → Bool) (maxLen : Nat) (p : Bytes) : Bytes :=
  [31, 157, UInt8.ofNat (maxbits + (if bm then 128 else 0))] ++ packBits (emBits (lzwEms maxbits bm clr maxLen p))

end Xmp.Lzw
