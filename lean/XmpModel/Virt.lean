import XmpModel.Basic
import XmpModel.Gen.PlayerConsts
/-!
# Voice / virtual-channel bookkeeping of libxmp (src/virtual.c) — model for C16

State: `p->virt.{num_tracks, virt_channels, maxvoc, virt_used}`,
`voice_array[i].{chn, root, act, vol, ins, smp, key}` and
`virt_channel[c].{map, count}`.  `FREE = -1`.

Every function of virtual.c that writes one of these is modelled exactly:
`libxmp_virt_on` (table set-up), `libxmp_virt_reset`, `libxmp_virt_resetvoice`,
`free_voice`, `alloc_voice`, `libxmp_virt_resetchannel`, `libxmp_virt_setvol`
(release of a silent background voice), `check_dct`, `libxmp_virt_setpatch`
(incl. the NNA relocation loop), `libxmp_virt_pastnote` (CUT resets voices, OFF / FADE leave the
tables alone), `libxmp_virt_setnna`, `libxmp_virt_setsmp`, `libxmp_virt_queuepatch` (the branch
that is not a `setpatch`).  Not modelled: `libxmp_virt_off` (ends the life of the tables).
The mixer side effects on a voice (`libxmp_mixer_setvol`, `…_setpatch`,
`…_setnote`) are reduced to the fields above.

Out-of-range table accesses (undefined behaviour in C) are total here: reads
yield a free voice / free channel, writes are dropped.  The invariant `VInv`
(XmpProofs/Virt.lean) implies no such access happens.
-/
namespace Xmp.Virt
open Xmp.Gen.PlayerConsts

structure Voice where
  chn : Int := -1
  root : Int := -1
  act : Int := 0
  vol : Int := 0
  ins : Int := 0
  smp : Int := 0
  key : Int := 0
  deriving Repr, Inhabited, DecidableEq

structure Chan where
  map : Int := -1
  count : Int := 0
  deriving Repr, Inhabited, DecidableEq

structure VState where
  numTracks : Int
  virtChannels : Int
  maxvoc : Int
  virtUsed : Int
  voices : List Voice
  chans : List Chan
  deriving Repr, Inhabited, DecidableEq

def freeVoiceV : Voice := {}
def freeChan : Chan := {}

def VState.voice (s : VState) (i : Int) : Voice := if i < 0 then freeVoiceV else s.voices.getD i.toNat freeVoiceV
def VState.chan (s : VState) (c : Int) : Chan := if c < 0 then freeChan else s.chans.getD c.toNat freeChan

def VState.setVoice (s : VState) (i : Int) (v : Voice) : VState :=
  if i < 0 then s else { s with voices := s.voices.set i.toNat v }
def VState.setChan (s : VState) (c : Int) (v : Chan) : VState :=
  if c < 0 then s else { s with chans := s.chans.set c.toNat v }

/-- `libxmp_mixer_numvoices` -/
def numvoices (numvoc num : Int) : Int := if num > numvoc ∨ num < 0 then numvoc else num

/-- `libxmp_virt_on` (successful allocation) -/
def virtOn (numTracks numvoc : Int) (quirkVirtual : Bool) : VState :=
  let num := numvoices numvoc (-1)
  let vc := if quirkVirtual then numTracks + num else numTracks
  let num2 := if quirkVirtual then num else if num > numTracks then numTracks else num
  let maxvoc := numvoices numvoc num2
  { numTracks := numTracks, virtChannels := vc, maxvoc := maxvoc, virtUsed := 0,
    voices := List.replicate maxvoc.toNat freeVoiceV, chans := List.replicate vc.toNat freeChan }

/-- `libxmp_virt_reset` -/
def virtReset (s : VState) : VState :=
  if s.virtChannels < 1 then s else
  { s with voices := List.replicate s.maxvoc.toNat freeVoiceV,
           chans := List.replicate s.virtChannels.toNat freeChan, virtUsed := 0 }

/-- `libxmp_virt_resetvoice` (the `mute` flag only touches the voice that is wiped anyway) -/
def resetVoice (s : VState) (voc : Int) : VState :=
  if voc < 0 ∨ voc ≥ s.maxvoc then s else
  let vi := s.voice voc
  let s1 := { s with virtUsed := s.virtUsed - 1 }
  let s2 := s1.setChan vi.root { s1.chan vi.root with count := (s1.chan vi.root).count - 1 }
  let s3 := s2.setChan vi.chn { s2.chan vi.chn with map := -1 }
  s3.setVoice voc freeVoiceV

/-- the search loop of `free_voice`: background voice with the lowest volume
(`vol` starts at INT_MAX; the first strictly lower one wins). -/
def quietest (numTracks : Int) : List Voice → Int → Int → Int → Int
  | [], _, num, _ => num
  | v :: rest, i, num, vol =>
    if v.chn ≥ numTracks ∧ v.vol < vol then quietest numTracks rest (i + 1) i v.vol
    else quietest numTracks rest (i + 1) num vol

def intMax : Int := 2147483647

/-- `free_voice`: returns the stolen voice index (or −1) -/
def freeVoice (s : VState) : VState × Int :=
  let num := quietest s.numTracks s.voices 0 (-1) intMax
  if num ≥ 0 then
    let vi := s.voice num
    let s1 := s.setChan vi.chn { s.chan vi.chn with map := -1 }
    let s2 := s1.setChan vi.root { s1.chan vi.root with count := (s1.chan vi.root).count - 1 }
    ({ s2 with virtUsed := s2.virtUsed - 1 }, num)
  else (s, num)

/-- index of the first voice with `chn == FREE`, or `maxvoc` -/
def firstFree : List Voice → Int → Int
  | [], i => i
  | v :: rest, i => if v.chn = -1 then i else firstFree rest (i + 1)

/-- `alloc_voice` -/
def allocVoice (s : VState) (chn : Int) : VState × Int :=
  let i0 := firstFree s.voices 0
  let (s1, i) := if i0 = s.maxvoc then freeVoice s else (s, i0)
  if i ≥ 0 then
    let s2 := s1.setChan chn { s1.chan chn with count := (s1.chan chn).count + 1 }
    let s3 := { s2 with virtUsed := s2.virtUsed + 1 }
    let s4 := s3.setVoice i { s3.voice i with chn := chn, root := chn }
    (s4.setChan chn { s4.chan chn with map := i }, i)
  else (s1, i)

/-- `map_virt_channel` -/
def mapVirtChannel (s : VState) (chn : Int) : Int :=
  if chn < 0 ∨ chn ≥ s.virtChannels then -1 else
  let voc := (s.chan chn).map
  if voc < 0 ∨ voc ≥ s.maxvoc then -1 else voc

/-- `libxmp_virt_resetchannel` -/
def resetChannel (s : VState) (chn : Int) : VState :=
  let voc := mapVirtChannel s chn
  if voc < 0 then s else
  let root := (s.voice voc).root
  let s1 := { s with virtUsed := s.virtUsed - 1 }
  let s2 := s1.setChan root { s1.chan root with count := (s1.chan root).count - 1 }
  let s3 := s2.setChan chn { s2.chan chn with map := -1 }
  s3.setVoice voc freeVoiceV

/-- `libxmp_virt_setvol`; `muted` = `root < XMP_MAX_CHANNELS && p->channel_mute[root]` -/
def setVol (s : VState) (chn vol : Int) (muted : Bool) : VState :=
  let voc := mapVirtChannel s chn
  if voc < 0 then s else
  let vol' := if muted then 0 else vol
  let s1 := s.setVoice voc { s.voice voc with vol := vol' }
  if vol' = 0 ∧ chn ≥ s.numTracks then resetVoice s1 voc else s1

/-- `check_dct` for voice `i` -/
def checkDct (s : VState) (i chn ins smp key nna dct dca : Int) : VState :=
  let vi := s.voice i
  let voc := (s.chan chn).map
  if vi.root = chn ∧ vi.ins = ins then
    if nna = nnaCut then resetVoice s i
    else
      let vi1 := { vi with act := nna }
      if dct = dctInst ∨ (dct = dctSmp ∧ vi.smp = smp) ∨ (dct = dctNote ∧ vi.key = key) then
        if nna = nnaOff ∧ dca = dcaFade then s.setVoice i { vi1 with act := virtActionOff }
        else if dca ≠ 0 then
          if i ≠ voc ∨ vi1.act ≠ 0 then s.setVoice i { vi1 with act := dca } else s.setVoice i vi1
        else resetVoice (s.setVoice i vi1) i
      else s.setVoice i vi1
  else s

def checkDctAll (s : VState) (chn ins smp key nna dct dca : Int) : Nat → Int → VState
  | 0, _ => s
  | n + 1, i => checkDctAll (checkDct s i chn ins smp key nna dct dca) chn ins smp key nna dct dca n (i + 1)
termination_by n _ => n

/-- the relocation scan `for (chn = num_tracks; chn < virt_channels && map[chn++] > FREE;) ;`
followed by `--chn`: first background channel with a free map, else the last index reached. -/
def relocTarget (s : VState) : Nat → Int → Int
  | 0, c => c - 1
  | n + 1, c =>
    if c < s.virtChannels then
      if (s.chan c).map > -1 then relocTarget s n (c + 1) else c
    else c - 1

/-- `libxmp_virt_setpatch`; returns the new state and the return value (< 0: failed). -/
def setPatch (s0 : VState) (chn ins smp0 key nna dct dca : Int) : VState × Int :=
  if chn < 0 ∨ chn ≥ s0.virtChannels then (s0, -1) else
  let smp := if ins < 0 then -1 else smp0
  let s := if dct ≠ 0 then checkDctAll s0 chn ins smp key nna dct dca s0.maxvoc.toNat 0 else s0
  let voc := (s.chan chn).map
  let r : Option (VState × Int × Int) :=           -- state, voc, chn (possibly relocated)
    if voc > -1 then
      -- `if (p->virt.voice_array[voc].act [&& p->virt.virt_channels > p->virt.num_tracks])`: the bracketed guard as generated
      if (s.voice voc).act ≠ 0 ∧ (setpatchRelocNeedsSlots = false ∨ s.virtChannels > s.numTracks) then
        let (s1, vfree) := allocVoice s chn
        if vfree < 0 then none else
        let c := relocTarget s1 (s1.virtChannels - s1.numTracks + 1).toNat s1.numTracks
        let s2 := s1.setVoice voc { s1.voice voc with chn := c }
        let s3 := s2.setChan c { s2.chan c with map := voc }
        some (s3, vfree, c)
      else some (s, voc, chn)
    else
      let (s1, v) := allocVoice s chn
      if v < 0 then none else some (s1, v, chn)
  match r with
  | none => (s, -1)      -- alloc_voice failed: free_voice found nothing to steal, tables as check_dct left them
  | some (s1, v, c) =>
    if smp < 0 then (resetVoice s1 v, c)
    else (s1.setVoice v { s1.voice v with smp := smp, vol := 0, ins := ins, act := nna, key := key }, c)

/-- `libxmp_virt_pastnote(chn, VIRT_ACTION_CUT)`: reset every background voice whose root is `chn` -/
def pastNoteCut (s : VState) (chn : Int) : Nat → Int → VState
  | 0, _ => s
  | n + 1, c =>
    let voc := mapVirtChannel s c
    let s1 := if voc ≥ 0 ∧ (s.voice voc).root = chn then resetVoice s voc else s
    pastNoteCut s1 chn n (c + 1)
termination_by n _ => n

/-- `libxmp_virt_setnna` (`quirkVirtual` = `HAS_QUIRK(QUIRK_VIRTUAL)`): the pending new-note action
of the channel's voice -/
def setNna (s : VState) (chn nna : Int) (quirkVirtual : Bool) : VState :=
  if quirkVirtual = false then s else
  let voc := mapVirtChannel s chn
  if voc < 0 then s else s.setVoice voc { s.voice voc with act := nna }

/-- `libxmp_virt_setsmp` (HMN / MED synth instruments): `libxmp_mixer_setpatch(voc, smp, 0)` stores
the new sample and zeroes the voice volume unless the voice already plays `smp` -/
def setSmp (s : VState) (chn smp : Int) : VState :=
  let voc := mapVirtChannel s chn
  if voc < 0 then s else
  if (s.voice voc).smp = smp then s else s.setVoice voc { s.voice voc with smp := smp, vol := 0 }

/-- `libxmp_virt_queuepatch` on a channel that has a voice (`map > FREE`): the sample is queued in
the mixer, only the instrument number of the voice changes (when `ins >= 0`).  On a channel
without a voice the call is a `setPatch` (with `smp >= 0`) or does nothing. -/
def queueIns (s : VState) (chn ins : Int) : VState :=
  if chn < 0 ∨ chn ≥ s.virtChannels then s else
  let voc := (s.chan chn).map
  if voc > -1 ∧ ins ≥ 0 then s.setVoice voc { s.voice voc with ins := ins } else s

/-- One table-changing call of virtual.c, as spied by the harness. -/
inductive Op where
  | reset
  | resetVoice (voc : Int)
  | resetChannel (chn : Int)
  | setVol (chn vol : Int) (muted : Bool)
  | setPatch (chn ins smp key nna dct dca : Int)
  | pastNoteCut (chn : Int)
  /-- `libxmp_virt_pastnote` with `VIRT_ACTION_OFF` / `VIRT_ACTION_FADE` (or any other action
  value): `libxmp_player_set_release` / `…_set_fadeout` flag the channel, the tables stay -/
  | pastNoteOther (chn act : Int)
  | setNna (chn nna : Int) (quirkVirtual : Bool)
  | setSmp (chn smp : Int)
  | queueIns (chn ins : Int)
  deriving Repr, Inhabited

def step (s : VState) : Op → VState
  | .reset => virtReset s
  | .resetVoice v => resetVoice s v
  | .resetChannel c => resetChannel s c
  | .setVol c v m => setVol s c v m
  | .setPatch c i sm k n d a => (setPatch s c i sm k n d a).1
  | .pastNoteCut c => pastNoteCut s c (s.virtChannels - s.numTracks).toNat s.numTracks
  | .pastNoteOther _ _ => s
  | .setNna c n q => setNna s c n q
  | .setSmp c sm => setSmp s c sm
  | .queueIns c i => queueIns s c i

/-- number of voices in use -/
def usedCount (s : VState) : Nat := s.voices.countP (fun v => v.chn ≠ -1)
/-- number of voices whose root is `c` -/
def rootCount (s : VState) (c : Int) : Nat := s.voices.countP (fun v => v.root = c)

end Xmp.Virt
