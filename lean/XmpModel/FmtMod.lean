import XmpModel.Basic
/-!
# C19 — shared abstract song (`Xmp.Fmt.Module`) and the Protracker MOD codec

`Module` is the abstract song in the vocabulary of `xmp_get_module_info`: counts,
order list, per-cell note/instrument/volume, instrument and sample headers, loop
points, flags, PCM *after* the format's declared conversions (signed, native
little-endian 16-bit, interleaved stereo), names, initial speed/tempo.

* `Mod.write : Module → Opts → Bytes` is an independent encoder written from the
  Protracker/FastTracker MOD format description (period table, 30-byte sample
  headers, 4-byte cells, 8-bit signed PCM).
* `Mod.read : Bytes → Option Module` mirrors `mod_test`/`mod_load`
  (src/loaders/mod_load.c), `libxmp_decode_protracker_event`,
  `libxmp_period_to_note` (src/period.c), `libxmp_copy_adjust`,
  `libxmp_adjust_string`, `libxmp_load_sample` (loop sanity part) for the fields the
  property lists.  `none` = the model is silent (short file, ADPCM samples,
  Protracker song files with external samples, load error).
-/
namespace Xmp.Fmt

/-! ## abstract song -/

structure Cell where
  note : Nat := 0
  ins : Nat := 0
  vol : Nat := 0
  deriving DecidableEq, Repr, Inhabited

/-- `cells` is row-major: row `r`, channel `k` at `r*chn + k`. -/
structure Pat where
  rows : Nat
  cells : List Cell
  deriving DecidableEq, Repr, Inhabited

structure Sub where
  sid : Nat
  vol : Nat
  pan : Int
  xpo : Int
  fin : Int
  deriving DecidableEq, Repr, Inhabited

structure Ins where
  name : Bytes
  subs : List Sub          -- `nsm = subs.length`
  keymap : List Nat := []  -- sample index per key where the format has a keymap (0xff = none)
  deriving DecidableEq, Repr, Inhabited

/-- flags use the XMP_SAMPLE_* bits; loop points are reported as 0 when the
corresponding loop flag is clear (observation rule shared with the harness). -/
structure Smp where
  name : Bytes
  len : Nat
  lps : Nat
  lpe : Nat
  flg : Nat
  sus : Nat := 0
  sue : Nat := 0
  pcm : Bytes
  deriving DecidableEq, Repr, Inhabited

structure Module where
  name : Bytes
  chn : Nat
  orders : Bytes
  pats : List Pat
  ins : List Ins
  smps : List Smp
  spd : Nat
  bpm : Nat
  deriving DecidableEq, Repr, Inhabited

def F16BIT : Nat := 1
def FLOOP : Nat := 2
def FBIDIR : Nat := 4
def FSLOOP : Nat := 32
def FSBIDIR : Nat := 64
def FSTEREO : Nat := 128
def KEY_OFF : Nat := 0x81
def KEY_CUT : Nat := 0x82
def KEY_FADE : Nat := 0x83

/-! ## byte helpers -/

def u8 (n : Nat) : UInt8 := UInt8.ofNat n

def be16 (n : Nat) : Bytes := [u8 (n / 256), u8 (n % 256)]
def le16 (n : Nat) : Bytes := [u8 (n % 256), u8 (n / 256)]
def le32 (n : Nat) : Bytes := [u8 (n % 256), u8 (n / 256 % 256), u8 (n / 65536 % 256), u8 (n / 16777216)]

def rd16be : Bytes → Nat
  | [a, b] => a.toNat * 256 + b.toNat
  | _ => 0
def rd16le : Bytes → Nat
  | [a, b] => a.toNat + b.toNat * 256
  | _ => 0
def rd32le : Bytes → Nat
  | [a, b, c, d] => a.toNat + b.toNat * 256 + c.toNat * 65536 + d.toNat * 16777216
  | _ => 0

/-- take exactly `n` bytes or fail -/
def takeN (n : Nat) (bs : Bytes) : Option (Bytes × Bytes) :=
  if n ≤ bs.length then some (bs.take n, bs.drop n) else none

/-- zero-pad (or cut) to exactly `n` bytes -/
def padTo (n : Nat) (b : Bytes) : Bytes := (b ++ List.replicate n 0).take n

/-- decode `k` fixed-size records of `n` bytes -/
def decodeN {α : Type} (n : Nat) (dec : Bytes → α) : Nat → Bytes → List α
  | 0, _ => []
  | k + 1, bs => dec (bs.take n) :: decodeN n dec k (bs.drop n)

/-! ## names: `libxmp_copy_adjust` (loaders/common.c) then `libxmp_adjust_string` (load_helpers.c) -/

def cstr (b : Bytes) : Bytes := b.takeWhile (· ≠ 0)

def isPrintAscii (c : UInt8) : Bool := 32 ≤ c.toNat && c.toNat ≤ 126

def stripTrail (b : Bytes) : Bytes := (b.reverse.dropWhile (· == 32)).reverse

/-- `libxmp_copy_adjust(s, r, n)`: strncpy, non-printable → '.', trailing spaces removed -/
def copyAdjust (n : Nat) (r : Bytes) : Bytes :=
  stripTrail ((cstr (r.take n)).map fun c => if isPrintAscii c then c else 46)

/-- `libxmp_adjust_string`: non-printable → ' ', trailing spaces removed -/
def adjustString (s : Bytes) : Bytes :=
  stripTrail ((cstr s).map fun c => if isPrintAscii c then c else 32)

/-- a name that survives both: printable ASCII, no trailing blank -/
def NameOk (n : Nat) (b : Bytes) : Prop :=
  b.length ≤ n ∧ (∀ c ∈ b, isPrintAscii c = true) ∧ b.getLast? ≠ some 32

instance (n : Nat) (b : Bytes) : Decidable (NameOk n b) := by unfold NameOk; infer_instance

/-! ## sample loop sanity of `libxmp_load_sample` (loaders/sample.c) and the observation rule -/

/-- after `lpe > len → lpe = len`; `lps ≥ len ∨ lps ≥ lpe → no loop` -/
def loopSanity (len lps lpe flg : Nat) : Nat × Nat × Nat :=
  let lpe := if lpe > len then len else lpe
  if lps ≥ len ∨ lps ≥ lpe then (0, 0, flg &&& (0xffff - (FLOOP ||| FBIDIR)))
  else
    let flg := if flg &&& FBIDIR ≠ 0 ∧ flg &&& FLOOP = 0 then flg &&& (0xffff - FBIDIR) else flg
    (lps, lpe, flg)

/-- observation rule: loop points are only observed when the loop flag is set -/
def obsLoop (s : Smp) : Smp :=
  let s := if s.flg &&& FLOOP = 0 then { s with lps := 0, lpe := 0 } else s
  if s.flg &&& FSLOOP = 0 then { s with sus := 0, sue := 0 } else s

/-- `libxmp_prepare_scan`: when no order entry names a stored pattern the length becomes 0 -/
def fixOrders (pat : Nat) (ords : Bytes) : Bytes :=
  if ords.all (fun o => decide (o.toNat ≥ pat)) then [] else ords

end Xmp.Fmt

namespace Xmp.Fmt.Mod
open Xmp.Fmt

/-! ## period ↔ note -/

/-- `libxmp_period_to_note`: `round(12·log2(13696/p)) + 1`, evaluated exactly:
`round(x) ≥ k ⇔ x ≥ k − ½ ⇔ p²⁴·2^(2k−1) ≤ 13696²⁴`; no tie exists because
13696 = 2⁷·107 would need an odd power of two. -/
def periodToNote (p : Nat) : Nat :=
  if p = 0 then 0
  else
    let q := p ^ 24
    ((List.range 180).filter fun k => q * 2 ^ (2 * k) ≤ 2 * 13696 ^ 24).length

/-- Amiga period table of the MOD format description, five octaves; index 0 is
libxmp note 37 (period 1712), Protracker's C-1 (856) is note 49. -/
def periodTable : List Nat := [
  1712, 1616, 1525, 1440, 1357, 1281, 1209, 1141, 1077, 1017, 961, 907,
  856, 808, 762, 720, 678, 640, 604, 570, 538, 508, 480, 453,
  428, 404, 381, 360, 339, 320, 302, 285, 269, 254, 240, 226,
  214, 202, 190, 180, 170, 160, 151, 143, 135, 127, 120, 113,
  107, 101, 95, 90, 85, 80, 76, 71, 67, 64, 60, 57]

def noteBase : Nat := 37

/-- the writer's note → period (0 = no note) -/
def noteToPeriod (n : Nat) : Nat :=
  if n = 0 then 0 else periodTable.getD (n - noteBase) 0

def NoteOk (n : Nat) : Prop := n = 0 ∨ (noteBase ≤ n ∧ n < noteBase + 60)
instance (n : Nat) : Decidable (NoteOk n) := by unfold NoteOk; infer_instance

/-! ## cells -/

/-- writer: 4 bytes per cell; `fx` = (effect type nibble, parameter), opaque -/
def encCell (c : Cell) (fx : UInt8 × UInt8) : Bytes :=
  let p := noteToPeriod c.note
  [u8 ((c.ins / 16) * 16 + p / 256), u8 (p % 256), u8 ((c.ins % 16) * 16 + fx.1.toNat % 16), fx.2]

/-- `libxmp_decode_protracker_event` / `libxmp_decode_noisetracker_event`: note and
instrument (both decoders agree on them); volume column does not exist. -/
def decCell : Bytes → Cell
  | [b0, b1, b2, _] =>
    { note := periodToNote ((b0.toNat % 16) * 256 + b1.toNat),
      ins := (b0.toNat / 16) * 16 + b2.toNat / 16, vol := 0 }
  | _ => {}

def encCells : List Cell → (Nat → UInt8 × UInt8) → Nat → Bytes
  | [], _, _ => []
  | c :: cs, fx, i => encCell c (fx i) ++ encCells cs fx (i + 1)

/-! ## sample headers -/

/-- raw 30-byte MOD instrument header -/
structure Hdr where
  name : Bytes
  size : Nat
  fine : Nat
  vol : Nat
  lstart : Nat
  lsize : Nat
  deriving Repr, Inhabited

def decHdr (b : Bytes) : Hdr :=
  { name := b.take 22, size := rd16be ((b.drop 22).take 2), fine := (b.getD 24 0).toNat,
    vol := (b.getD 25 0).toNat, lstart := rd16be ((b.drop 26).take 2),
    lsize := rd16be ((b.drop 28).take 2) }

/-- loader: header → (instrument, sample without PCM) ; `i` = index -/
def hdrIns (i : Nat) (h : Hdr) : Ins :=
  { name := adjustString (copyAdjust 22 h.name),
    subs := if h.size > 0 then
      [{ sid := i, vol := h.vol, pan := 0x80, xpo := 0,
         fin := let f := (h.fine * 16) % 256; if f ≥ 128 then (f : Int) - 256 else f }] else [] }

def hdrSmp (h : Hdr) : Smp :=
  let len := 2 * h.size
  let lps := 2 * h.lstart
  let lpe := lps + 2 * h.lsize
  let lpe := if lpe > len then len else lpe
  let flg := if h.lsize > 1 ∧ lpe ≥ 4 then FLOOP else 0
  -- libxmp_load_sample runs only for len > 0
  let (lps, lpe, flg) := if len > 0 then loopSanity len lps lpe flg else (lps, lpe, flg)
  { name := [], len := len, lps := lps, lpe := lpe, flg := flg, pcm := [] }

/-- writer: sample header from the abstract instrument/sample -/
def encHdr (ins : Ins) (s : Smp) : Bytes :=
  let sub : Sub := ins.subs.headD { sid := 0, vol := 0, pan := 0x80, xpo := 0, fin := 0 }
  let looped := s.flg &&& FLOOP ≠ 0
  padTo 22 ins.name ++ be16 (s.len / 2) ++
    [u8 ((sub.fin.toNat + (if sub.fin < 0 then 256 - (-sub.fin).toNat else 0)) % 256 / 16), u8 sub.vol] ++
    be16 (if looped then s.lps / 2 else 0) ++
    be16 (if looped then (s.lpe - s.lps) / 2 else 0)

/-! ## magic -/

def str (s : String) : Bytes := s.toUTF8.toList

/-- `mod_magic[]`: magic, flag (detected), digital-tracker?, channels -/
def magicTable : List (Bytes × Bool × Bool × Nat) := [
  (str "M.K.", false, false, 4), (str "M!K!", true, false, 4), (str "M&K!", true, false, 4),
  (str "N.T.", true, false, 4), (str "6CHN", false, false, 6), (str "8CHN", false, false, 8),
  (str "CD61", true, false, 6), (str "CD81", true, false, 8), (str "TDZ1", true, false, 1),
  (str "TDZ2", true, false, 2), (str "TDZ3", true, false, 3), (str "TDZ4", true, false, 4),
  (str "FA04", true, true, 4), (str "FA06", true, true, 6), (str "FA08", true, true, 8),
  (str "LARD", true, false, 4), (str "NSMS", true, false, 4)]

def isDigit (c : UInt8) : Bool := 48 ≤ c.toNat && c.toNat ≤ 57

structure MagicInfo where
  chn : Nat
  detected : Bool
  digital : Bool
  sanity : Bool      -- `mod_test` went through the `mod_magic[]` branch (header sanity, UNIC and pattern validation apply)
  deriving Repr, DecidableEq

/-- `mod_test` + the magic part of `mod_load` -/
def magicInfo (m : Bytes) : Option MagicInfo :=
  match m with
  | [a, b, c, d] =>
    let nn := (a.toNat - 48) * 10 + (b.toNat - 48)
    -- the two digit tests of `mod_test` (they jump to `found`, skipping every sanity check)
    let quick := (c = 67 && d = 72 && isDigit a && isDigit b && 0 < nn && nn ≤ 32) ||
                 (b = 67 && c = 72 && d = 78 && isDigit a && a ≠ 48)
    match magicTable.find? (·.1 == m) with
    | some (_, det, dig, ch) => some { chn := ch, detected := det, digital := dig, sanity := !quick }
    | none =>
      if !quick then none
      else if c = 67 && d = 72 then some { chn := nn, detected := true, digital := false, sanity := false }
      else some { chn := a.toNat - 48, detected := true, digital := false, sanity := false }
  | _ => none

/-- writer's choice of signature: kind 0 = Protracker ("M.K." for 4 channels),
1 = "M!K!" (4 channels), otherwise FastTracker `nCHN` / `nnCH` -/
def magicFor (kind chn : Nat) : Bytes :=
  if kind = 0 ∧ chn = 4 then str "M.K."
  else if kind = 1 ∧ chn = 4 then str "M!K!"
  else if chn < 10 ∧ kind ≠ 3 then [u8 (48 + chn), 67, 72, 78]
  else [u8 (48 + chn / 10), u8 (48 + chn % 10), 67, 72]

/-! ## order list -/

/-- `mod->pat`: 1 + the largest entry of the 128-byte order table before the first entry > 0x7f -/
def patCount : Bytes → Nat → Nat
  | [], m => m + 1
  | o :: os, m => if o.toNat > 0x7f then m + 1 else patCount os (if o.toNat > m then o.toNat else m)

/-! ## writer -/

structure Opts where
  kind : Nat := 0                       -- signature kind, see `magicFor`
  restart : UInt8 := 0x7f
  fx : Nat → UInt8 × UInt8 := fun _ => (0, 0)   -- opaque effect per cell (global cell index)

def encPats : List Pat → (Nat → UInt8 × UInt8) → Nat → Bytes
  | [], _, _ => []
  | p :: ps, fx, i => encCells p.cells fx i ++ encPats ps fx (i + p.cells.length)

def encHdrs : List Ins → List Smp → Bytes
  | i :: is, s :: ss => encHdr i s ++ encHdrs is ss
  | _, _ => []

def write (s : Module) (o : Opts) : Bytes :=
  padTo 20 s.name ++ encHdrs s.ins s.smps ++
  [u8 s.orders.length, o.restart] ++ padTo 128 s.orders ++ magicFor o.kind s.chn ++
  encPats s.pats o.fx 0 ++ (s.smps.flatMap (·.pcm))

/-! ## reader -/

def decPats (chn : Nat) : Nat → Bytes → Option (List Pat × Bytes)
  | 0, bs => some ([], bs)
  | k + 1, bs =>
    match takeN (64 * 4 * chn) bs with
    | none => none
    | some (pb, rest) =>
      match decPats chn k rest with
      | none => none
      | some (ps, r) => some ({ rows := 64, cells := decodeN 4 decCell (64 * chn) pb } :: ps, r)

def adpcmTag : Bytes := str "ADPCM"

/-- sample bodies, in order, for samples with `len > 0`; `none` if the file ends
early (the loader truncates: not modelled) or an ADPCM tag follows -/
def decSmps : List Smp → Bytes → Option (List Smp)
  | [], _ => some []
  | s :: ss, bs =>
    if s.len = 0 then (decSmps ss bs).map (s :: ·)
    else if bs.take 5 = adpcmTag then none
    else match takeN s.len bs with
      | none => none
      | some (d, rest) => (decSmps ss rest).map ({ s with pcm := d } :: ·)

/-- `mod_test` header sanity for table magics: finetune high nibble clear (or 0x20), volume ≤ 0x40 -/
def hdrTestOk (h : Hdr) : Bool :=
  (h.fine / 16 = 0 || h.fine = 0x20) && h.vol ≤ 0x40

/-- `validate_pattern`: some cell of the 1 KiB block has a first byte with high nibble > 1 -/
def badBlock : Bytes → Bool
  | b0 :: _ :: _ :: _ :: rest => b0.toNat / 16 > 1 || badBlock rest
  | _ => false

def read (bs : Bytes) : Option Module := do
  let (name, r) ← takeN 20 bs
  let (hb, r) ← takeN (31 * 30) r
  let (lr, r) ← takeN 2 r
  let (ords, r) ← takeN 128 r
  let (magic, r) ← takeN 4 r
  let mi ← magicInfo magic
  let hdrs := decodeN 30 decHdr 31 hb
  if mi.sanity && !(hdrs.all hdrTestOk) then none
  -- `int8 volume`: a volume byte ≥ 0x80 loads as a negative volume (outside the abstract song): model silent
  if hdrs.any (fun h => decide (h.vol ≥ 128)) then none
  let r ← if mi.digital then (takeN 4 r).map (·.2) else some r
  let len := (lr.getD 0 0).toNat
  if len > 128 then none     -- the order table has 128 entries; longer lengths read zero entries: not modelled
  let restart := (lr.getD 1 0).toNat
  let pat := patCount ords 0
  let smpSize := (hdrs.map fun h => 2 * h.size).sum
  let size := bs.length
  let big := hdrs.any fun h => h.size ≥ 0x8000
  let detected := mi.detected || big
  -- FlexTrax probe, Mod's Grave (WOW) and Protracker song tests; UNIC rejection of `mod_test`
  let flexOff := 0x43c + pat * 4 * mi.chn * 0x40 + smpSize
  let flex := !detected && flexOff < size && (bs.drop flexOff).take 4 = str "FLEX"
  let isMK := magic = str "M.K."
  let maybeWow := restart = 0 ∧ hdrs.all fun h => h.size = 0 || (h.fine = 0 && h.vol = 64)
  let wow := !detected && !flex && isMK && maybeWow && (0x43c + pat * 32 * 0x40 + smpSize = size / 2 * 2)
  let ptsong := !detected && !flex && !wow && isMK && (0x43c + pat * 0x400 = size)
  -- `mod_test` for undetected table magics: UNIC size test, pattern validation (at most 2 bad 1 KiB blocks)
  if mi.sanity && !mi.detected then
    if 1084 + pat * 0x300 + smpSize = size then none
    if pat * 1024 + 1084 > size then none
    if ((List.range pat).filter fun i => badBlock ((bs.drop (1084 + 1024 * i)).take 1024)).length > 2 then none
  let chn := if wow then 8 else mi.chn
  if chn ≥ 64 then none
  let (pats, r) ← decPats chn pat r
  let smps0 := hdrs.map hdrSmp
  if ptsong ∧ smps0.any (·.len > 0) then none
  let smps ← decSmps smps0 r
  some { name := adjustString (cstr name), chn := chn, orders := fixOrders pat (ords.take len), pats := pats,
         ins := (List.range 31).zipWith hdrIns hdrs, smps := smps.map obsLoop, spd := 6, bpm := 125 }

/-! ## well-formed MOD songs (the domain of the round-trip theorem) -/

def CellOk (c : Cell) : Prop := NoteOk c.note ∧ c.ins < 32 ∧ c.vol = 0
instance (c : Cell) : Decidable (CellOk c) := by unfold CellOk; infer_instance

def PatOk (chn : Nat) (p : Pat) : Prop :=
  p.rows = 64 ∧ p.cells.length = 64 * chn ∧ ∀ c ∈ p.cells, CellOk c
instance (chn : Nat) (p : Pat) : Decidable (PatOk chn p) := by unfold PatOk; infer_instance

/-- exactly one sub-instrument, pointing at sample `i`, finetune a signed nibble × 16 -/
def SubsOk (i : Nat) : List Sub → Prop
  | [sub] => sub.sid = i ∧ sub.vol ≤ 64 ∧ sub.pan = 0x80 ∧ sub.xpo = 0 ∧
             -128 ≤ sub.fin ∧ sub.fin ≤ 112 ∧ sub.fin % 16 = 0
  | _ => False

instance (i : Nat) (l : List Sub) : Decidable (SubsOk i l) := by
  unfold SubsOk; split <;> infer_instance

/-- instrument `i` with its sample: empty slot, or one sub-instrument pointing at sample `i` -/
def SlotOk (i : Nat) (x : Ins) (m : Smp) : Prop :=
  NameOk 22 x.name ∧ x.keymap = [] ∧ m.name = [] ∧ m.sus = 0 ∧ m.sue = 0 ∧
  m.len % 2 = 0 ∧ m.len < 131072 ∧ m.pcm.length = m.len ∧
  (if m.len = 0 then x.subs = [] ∧ m.lps = 0 ∧ m.lpe = 0 ∧ m.flg = 0
   else SubsOk i x.subs ∧ m.pcm.take 5 ≠ adpcmTag ∧
        ((m.flg = 0 ∧ m.lps = 0 ∧ m.lpe = 0) ∨
         (m.flg = FLOOP ∧ m.lps % 2 = 0 ∧ m.lpe % 2 = 0 ∧ m.lps + 4 ≤ m.lpe ∧ m.lpe ≤ m.len)))

instance (i : Nat) (x : Ins) (m : Smp) : Decidable (SlotOk i x m) := by
  unfold SlotOk; infer_instance

def SlotsOk : Nat → List Ins → List Smp → Prop
  | _, [], [] => True
  | i, x :: xs, m :: ms => SlotOk i x m ∧ SlotsOk (i + 1) xs ms
  | _, _, _ => False

instance : (i : Nat) → (xs : List Ins) → (ms : List Smp) → Decidable (SlotsOk i xs ms)
  | _, [], [] => isTrue trivial
  | i, x :: xs, m :: ms => by
    unfold SlotsOk
    have := instDecidableSlotsOk (i + 1) xs ms
    infer_instance
  | _, [], _ :: _ => isFalse (by simp [SlotsOk])
  | _, _ :: _, [] => isFalse (by simp [SlotsOk])

/-- No sample body, read at its position in the file, starts with the ModPlug "ADPCM" tag: the loader
probes the next 5 bytes of the *file*, so short samples must not spell the tag together with their
successors (found by the round-trip proof: `SlotOk` alone is not sufficient). -/
def NoAdpcm : List Smp → Prop
  | [] => True
  | m :: ms => (m.len ≠ 0 → ((m :: ms).flatMap (·.pcm)).take 5 ≠ adpcmTag) ∧ NoAdpcm ms

def NoAdpcm.dec : (ms : List Smp) → Decidable (NoAdpcm ms)
  | [] => isTrue trivial
  | m :: ms => by
    unfold NoAdpcm
    have := NoAdpcm.dec ms
    infer_instance

instance (ms : List Smp) : Decidable (NoAdpcm ms) := NoAdpcm.dec ms

/-- Well-formed MOD song + writer options: 31 instrument slots, 64-row patterns, notes of the
five-octave period table, the order table reaches every stored pattern, speed 6 / tempo 125. -/
structure WellFormed (s : Module) (o : Opts) : Prop where
  name : NameOk 20 s.name
  chn : 1 ≤ s.chn ∧ s.chn ≤ 32
  kind : o.kind < 4
  olen : s.orders.length ≤ 128
  pcount : patCount (padTo 128 s.orders) 0 = s.pats.length
  pats : ∀ p ∈ s.pats, PatOk s.chn p
  nins : s.ins.length = 31
  slots : SlotsOk 0 s.ins s.smps
  spd : s.spd = 6
  bpm : s.bpm = 125
  oplay : ∀ x ∈ s.orders, x.toNat < s.pats.length

instance (s : Module) (o : Opts) : Decidable (WellFormed s o) :=
  decidable_of_iff (NameOk 20 s.name ∧ (1 ≤ s.chn ∧ s.chn ≤ 32) ∧ o.kind < 4 ∧ s.orders.length ≤ 128 ∧
      patCount (padTo 128 s.orders) 0 = s.pats.length ∧ (∀ p ∈ s.pats, PatOk s.chn p) ∧ s.ins.length = 31 ∧
      SlotsOk 0 s.ins s.smps ∧ s.spd = 6 ∧ s.bpm = 125 ∧ ∀ x ∈ s.orders, x.toNat < s.pats.length)
    ⟨fun ⟨a, b, c, d, e, f, g, h, i, j, k⟩ => ⟨a, b, c, d, e, f, g, h, i, j, k⟩,
     fun ⟨a, b, c, d, e, f, g, h, i, j, k⟩ => ⟨a, b, c, d, e, f, g, h, i, j, k⟩⟩

end Xmp.Fmt.Mod
