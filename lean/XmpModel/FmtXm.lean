import XmpModel.FmtS3m
/-!
# C19 — FastTracker II Extended Module (XM 1.04) codec

* `Xm.write` : independent encoder from the XM format description (60-byte + `hsz`-byte header,
  `hsz` = 276 by default, any size down to 20 + song length: the stored order table is `hsz - 20` bytes;
  per-pattern headers with packed/unpacked cells and every redundant packing-mask choice,
  instrument headers of any size the loader accepts — 263 by default, ≥ 241 with 96-key map, 33..240
  stripped, ≥ 29 for instruments without samples —, 40-byte sample headers, delta-encoded
  8/16-bit PCM, mono or stereo blocks).
* `Xm.read` mirrors `xm_test`/`xm_load`/`load_xm_pattern`/`load_instruments`
  (src/loaders/xm_load.c) for version 1.04 files.  `none` = model silent (short file,
  XM ≤ 1.03, OGG/ADPCM samples, load error).
* libxmp appends one empty 64-row pattern to every XM: `loaded` adds it to the abstract song.
-/
namespace Xmp.Fmt.Xm
open Xmp.Fmt

def str := Mod.str

/-! ## cell codec -/

/-- abstract note → XM note byte: 1..96 are stored as note − 12 … here libxmp notes 13..108; 97 = key off -/
def encNote (n : Nat) : Nat :=
  if n = 0 then 0 else if n = KEY_OFF ∨ n = KEY_FADE then 97 else n - 12

def NoteOk (c : Cell) : Prop :=
  c.note = 0 ∨ (13 ≤ c.note ∧ c.note ≤ 108) ∨ (c.note = KEY_OFF ∧ c.ins = 0) ∨ (c.note = KEY_FADE ∧ c.ins ≠ 0)
instance (c : Cell) : Decidable (NoteOk c) := by unfold NoteOk; infer_instance

def CellOk (c : Cell) : Prop := NoteOk c ∧ c.ins < 256 ∧ c.vol ≤ 65
instance (c : Cell) : Decidable (CellOk c) := by unfold CellOk; infer_instance

/-- the five stored bytes of a cell.  `volfx` is used when the cell has no set-volume (any byte
outside 0x10..0x50 is a volume-column effect or nothing); a key-off cell never carries the
`EDx` effect (libxmp turns key-off + EDx into a plain key-off regardless of the instrument). -/
def cellBytes (c : Cell) (fx : UInt8 × UInt8) (volfx : UInt8) : List Nat :=
  let vb := if c.vol ≠ 0 then c.vol + 0x0f
            else if 0x10 ≤ volfx.toNat ∧ volfx.toNat ≤ 0x50 then 0 else volfx.toNat
  let fxp := if encNote c.note = 97 ∧ fx.1.toNat = 0x0e ∧ fx.2.toNat / 16 = 0x0d then 0 else fx.2.toNat
  [encNote c.note, c.ins, vb, fx.1.toNat, fxp]

/-- `mode`: 32 = unpacked (five plain bytes); otherwise packed with mask = needed bits ∪ (mode mod 32) -/
def encCell (c : Cell) (fx : UInt8 × UInt8) (volfx : UInt8) (mode : Nat) : Bytes :=
  let f := cellBytes c fx volfx
  if mode = 32 then f.map u8
  else
    let bits := (List.range 5).map fun k => decide (f.getD k 0 ≠ 0 ∨ mode / 2 ^ k % 2 = 1)
    let mask := ((List.range 5).map fun k => if bits.getD k false then 2 ^ k else 0).sum
    u8 (0x80 + mask) :: ((List.range 5).filter fun k => bits.getD k false).map fun k => u8 (f.getD k 0)

/-- raw note/ins/vol bytes → event fields (the part of `load_xm_pattern` after unpacking) -/
def xlat (note ins vol fxt fxp : Nat) : Cell :=
  let fxt' := if fxt ∈ [18, 19, 22, 23, 24, 26, 28, 30, 31, 32] ∨ fxt > 34 then 0 else fxt
  let n := if note = 0x61 then
             (if fxt' = 0x0e ∧ fxp / 16 = 0x0d then KEY_OFF else if ins ≠ 0 then KEY_FADE else KEY_OFF)
           else if note > 0 then (note + 12) % 256 else 0
  { note := n, ins := ins, vol := if 0x10 ≤ vol ∧ vol ≤ 0x50 then vol - 0x0f else 0 }

/-- one cell from the pattern buffer: `(cell, rest)`; `none` = the data runs out (`--size < 0`) -/
def decCell : Bytes → Option (Cell × Bytes)
  | [] => none
  | b :: r =>
    if b.toNat ≥ 0x80 then
      let m := b.toNat
      let get (on : Bool) (r : Bytes) : Option (Nat × Bytes) :=
        if on then (match r with | x :: r' => some (x.toNat, r') | [] => none) else some (0, r)
      match get (m % 2 = 1) r with
      | none => none
      | some (n, r) =>
      match get (m / 2 % 2 = 1) r with
      | none => none
      | some (i, r) =>
      match get (m / 4 % 2 = 1) r with
      | none => none
      | some (v, r) =>
      match get (m / 8 % 2 = 1) r with
      | none => none
      | some (t, r) =>
      match get (m / 16 % 2 = 1) r with
      | none => none
      | some (p, r) => some (xlat n i v t p, r)
    else match r with
      | i :: v :: t :: p :: r' => some (xlat b.toNat i.toNat v.toNat t.toNat p.toNat, r')
      | _ => none

def decCells : Nat → Bytes → Option (List Cell)
  | 0, _ => some []
  | n + 1, bs =>
    match decCell bs with
    | none => none
    | some (c, r) => (decCells n r).map (c :: ·)

def encCells (fx : Nat → UInt8 × UInt8) (volfx : Nat → UInt8) (mode : Nat → Nat) : List Cell → Nat → Bytes
  | [], _ => []
  | c :: cs, i => encCell c (fx i) (volfx i) (mode i) ++ encCells fx volfx mode cs (i + 1)

/-! ## PCM -/

def loadPcm (flg len : Nat) (raw : Bytes) : Bytes :=
  let is16 := decide (flg &&& F16BIT ≠ 0)
  if flg &&& FSTEREO ≠ 0 then
    let n := len * chanBytes flg
    interleave (chanBytes flg) len (deltaDec is16 (raw.take n)) (deltaDec is16 (raw.drop n))
  else deltaDec is16 raw

def storePcm (flg len : Nat) (pcm : Bytes) : Bytes :=
  let is16 := decide (flg &&& F16BIT ≠ 0)
  if flg &&& FSTEREO ≠ 0 then
    let (l, r) := deinterleave (chanBytes flg) len pcm
    deltaEnc is16 l ++ deltaEnc is16 r
  else deltaEnc is16 pcm

/-! ## sample header codec -/

def i8 (x : Int) : UInt8 := u8 (x % 256).toNat
def s8 (b : UInt8) : Int := if b.toNat ≥ 128 then (b.toNat : Int) - 256 else b.toNat

def encSmpHdr (m : Smp) (sub : Sub) : Bytes :=
  let fb := frameBytes m.flg
  let typ := (if m.flg &&& FBIDIR ≠ 0 then 2 else if m.flg &&& FLOOP ≠ 0 then 1 else 0) +
             (if m.flg &&& F16BIT ≠ 0 then 0x10 else 0) + (if m.flg &&& FSTEREO ≠ 0 then 0x20 else 0)
  le32 (m.len * fb) ++ le32 (m.lps * fb) ++ le32 ((m.lpe - m.lps) * fb) ++
  [u8 sub.vol, i8 sub.fin, u8 typ, u8 sub.pan.toNat, i8 sub.xpo, 0] ++ padTo 22 m.name

structure SmpHdr where
  length : Nat
  lstart : Nat
  llen : Nat
  vol : Nat
  fin : Int
  typ : Nat
  pan : Nat
  rel : Int
  reserved : Nat
  name : Bytes
  deriving Repr, Inhabited

def decSmpHdr (b : Bytes) : SmpHdr :=
  { length := rd32le (b.take 4), lstart := rd32le ((b.drop 4).take 4), llen := rd32le ((b.drop 8).take 4),
    vol := (b.getD 12 0).toNat, fin := s8 (b.getD 13 0), typ := (b.getD 14 0).toNat, pan := (b.getD 15 0).toNat,
    rel := s8 (b.getD 16 0), reserved := (b.getD 17 0).toNat, name := (b.drop 18).take 22 }

def hdrSub (sid : Nat) (h : SmpHdr) : Sub := { sid := sid, vol := h.vol, pan := h.pan, xpo := h.rel, fin := h.fin }

/-- sample descriptor before the PCM is loaded -/
def hdrSmp (h : SmpHdr) : Smp :=
  let sh := (if h.typ / 16 % 2 = 1 then 2 else 1) * (if h.typ / 32 % 2 = 1 then 2 else 1)
  let flg := (if h.typ / 16 % 2 = 1 then F16BIT else 0) + (if h.typ / 32 % 2 = 1 then FSTEREO else 0) +
             (if h.typ % 2 = 1 ∨ h.typ / 2 % 2 = 1 then FLOOP else 0) + (if h.typ / 2 % 2 = 1 then FBIDIR else 0)
  { name := adjustString (copyAdjust 22 h.name), len := h.length / sh, lps := h.lstart / sh,
    lpe := (h.lstart + h.llen) / sh, flg := flg, pcm := [] }

/-! ## file level -/

structure Opts where
  tracker : Bytes := str "FastTracker v2.00   "
  restart : Nat := 0
  flags : Nat := 1
  emptyZero : Bool := false                      -- store empty patterns with data size 0
  emptyInsSize : Nat := 29                       -- header size written for instruments without samples (any size ≥ 29)
  fx : Nat → UInt8 × UInt8 := fun _ => (0, 0)
  volfx : Nat → UInt8 := fun _ => 0
  mode : Nat → Nat := fun _ => 0
  filler : Nat → UInt8 := fun _ => 0             -- envelopes, vibrato, fadeout, reserved bytes
  hsz : Nat := 276                               -- song header size stored at offset 60: the order table written is `hsz - 20` bytes
  insSize : Nat → Nat := fun _ => 263            -- header size of instrument `i` when it has samples: ≥ 241 full header
                                                 -- (key map, envelopes, …, `size - 241` skipped bytes), 33..240 stripped header

def isEmptyPat (p : Pat) : Bool := p.cells.all fun c => c.note = 0 && c.ins = 0 && c.vol = 0

def encPat (o : Opts) (p : Pat) (ci : Nat) : Bytes :=
  let d := if o.emptyZero && isEmptyPat p then [] else encCells o.fx o.volfx o.mode p.cells ci
  le32 9 ++ [0] ++ le16 p.rows ++ le16 d.length ++ d

def encPats (o : Opts) : List Pat → Nat → Bytes
  | [], _ => []
  | p :: ps, ci => encPat o p ci ++ encPats o ps (ci + p.cells.length)

/-- instrument `x` with its samples `ms` (in sub-instrument order); `sz` = header size when it has samples:
`sz ≥ 241` = 33 fixed bytes, 96-byte key map, `sz - 129` bytes of envelopes / vibrato / fadeout / reserved / skipped
space; `33 ≤ sz < 241` = stripped header (33 fixed bytes and `sz - 33` skipped bytes, no key map) -/
def encIns (o : Opts) (x : Ins) (ms : List Smp) (sz seed : Nat) : Bytes :=
  if x.subs.isEmpty then
    let sz := o.emptyInsSize
    le32 sz ++ padTo 22 x.name ++ [0] ++ le16 0 ++
      (if sz ≥ 33 then le32 40 ++ (List.range (sz - 33)).map (fun k => o.filler (seed + k))
       else (List.range (sz - 29)).map (fun k => o.filler (seed + k)))
  else
    le32 sz ++ padTo 22 x.name ++ [0] ++ le16 x.subs.length ++ le32 40 ++
    (if sz ≥ 241 then ((x.keymap.drop 12).take 96).map u8 ++ (List.range (sz - 129)).map (fun k => o.filler (seed + k))
     else (List.range (sz - 33)).map (fun k => o.filler (seed + k))) ++
    (ms.zip x.subs).flatMap (fun (m, sub) => encSmpHdr m sub) ++
    ms.flatMap (fun m => storePcm m.flg m.len m.pcm)

/-- samples of instrument `x`: the entries of `smps` named by its sub-instruments' `sid` -/
def insSmps (smps : List Smp) (x : Ins) : List Smp := x.subs.map fun sub => smps.getD sub.sid default

def write (s : Module) (o : Opts) : Bytes :=
  str "Extended Module: " ++ padTo 20 s.name ++ [0x1a] ++ padTo 20 o.tracker ++ le16 0x0104 ++
  le32 o.hsz ++ le16 s.orders.length ++ le16 o.restart ++ le16 s.chn ++ le16 s.pats.length ++ le16 s.ins.length ++
  le16 o.flags ++ le16 s.spd ++ le16 s.bpm ++ padTo (o.hsz - 20) s.orders ++
  encPats o s.pats 0 ++
  (s.ins.zipIdx.flatMap fun (x, i) => encIns o x (insSmps s.smps x) (o.insSize i) (1000 * i))

/-- the module as libxmp presents it: one extra empty 64-row pattern -/
def loaded (s : Module) : Module :=
  { s with pats := s.pats ++ [{ rows := 64, cells := List.replicate (64 * s.chn) {} }] }

def readPats (chn : Nat) (file : Bytes) : Nat → Nat → Option (List Pat × Nat)
  | 0, pos => some ([], pos)
  | n + 1, pos =>
    let h := (file.drop pos).take 9
    if h.length < 9 then none
    else
      let hl := rd32le (h.take 4)
      let rows := rd16le ((h.drop 5).take 2)
      let dsz := rd16le ((h.drop 7).take 2)
      if rows > 256 ∨ hl < 9 then none         -- (a header length < 9 seeks backwards: not modelled)
      else
        let r := if rows = 0 then 256 else rows
        let dpos := pos + hl
        if dpos > file.length then none
        else if dsz = 0 then
          (readPats chn file n dpos).map fun (ps, e) => ({ rows := r, cells := List.replicate (r * chn) {} } :: ps, e)
        else
          let d := (file.drop dpos).take dsz
          if d.length < dsz then none           -- short read is zero-filled by the loader: not modelled
          else match decCells (r * chn) d with
            | none => none
            | some cells => (readPats chn file n (dpos + dsz)).map fun (ps, e) => ({ rows := r, cells := cells } :: ps, e)

/-- sample bodies of one instrument, sequentially from `pos`; each sample comes with the raw `length` field (bytes)
of its 40-byte header.  `is_ogg_sample`: the OXM probe ("OggS" at offset 4) is made only for samples of at least
4 frames whose stored length is at least 8 bytes, i.e. it never looks beyond the sample's own stored bytes. -/
def readBodies (file : Bytes) : List (Smp × Nat) → Nat → Option (List Smp)
  | [], _ => some []
  | (m, raw) :: ms, pos =>
    if m.len = 0 then (readBodies file ms pos).map (m :: ·)
    else
      let n := m.len * frameBytes m.flg
      if m.len ≥ 4 ∧ raw ≥ 8 ∧ ((file.drop (pos + 4)).take 4 = str "OggS") then none
      else if pos + n > file.length then none
      else
        let (lps, lpe, flg) := loopSanity m.len m.lps m.lpe m.flg
        (readBodies file ms (pos + n)).map
          ({ m with lps := lps, lpe := lpe, flg := flg, pcm := loadPcm m.flg m.len ((file.drop pos).take n) } :: ·)

def emptyIns : Ins := { name := [], subs := [] }

def keymapOf (nsm : Nat) (full : Bool) (b : Bytes) : List Nat :=
  List.replicate 12 0 ++
  (if full then (b.take 96).map fun k => if k.toNat ≥ nsm then 0xff else k.toNat else List.replicate 96 0) ++
  List.replicate 13 0

/-- `load_instruments` for version > 1.03: returns instruments and samples -/
def readIns (file : Bytes) : (n : Nat) → (pos : Nat) → (sid : Nat) → Option (List Ins × List Smp)
  | 0, _, _ => some ([], [])
  | n + 1, pos, sid =>
    let h0 := (file.drop pos).take 33
    -- at least the 29-byte header must be there; the 4 bytes of "sample header size" may be cut off by EOF
    if h0.length < 29 then some (List.replicate (n + 1) emptyIns, [])   -- short read: remaining instruments stay empty
    else
      let h := padTo 33 h0
      let size := rd32le (h.take 4)
      let nsm := rd16le ((h.drop 27).take 2)
      let shsz := rd32le ((h.drop 29).take 4)
      let name := adjustString (copyAdjust 22 ((h.drop 4).take 22))
      if size < 29 ∨ size ≥ 0x80000000 then none
      else if nsm > 32 ∨ (nsm > 0 ∧ shsz > 0x100) then none
      else if nsm > 0 ∧ h0.length < 33 then none        -- truncated file: not modelled
      else if nsm = 0 then
        if pos + size > file.length then none
        else (readIns file n (pos + size) sid).map fun (is, ss) => ({ name := name, subs := [] } :: is, ss)
      else
        let full := decide (size ≥ 241)
        if full ∧ (file.drop (pos + 33)).length < 208 then none
        else
          let hpos := pos + size
          let hb := (file.drop hpos).take (40 * nsm)
          if hb.length < 40 * nsm then none
          else
            let hdrs := decodeN 40 decSmpHdr nsm hb
            if hdrs.any (fun h => h.length > 0x10000000) then none
            else if hdrs.any (fun h => h.lstart ≥ 0x80000000 ∨ h.llen ≥ 0x80000000 ∨ h.lstart + h.llen ≥ 0x80000000) then none
            else if hdrs.any (fun h => h.reserved = 0xad) then none      -- ADPCM: not modelled
            else
              let subs := hdrs.zipIdx.map fun (h, j) => hdrSub (sid + j) h
              let smps0 := hdrs.map fun h => (hdrSmp h, h.length)
              match readBodies file smps0 (hpos + 40 * nsm) with
              | none => none
              | some smps =>
                let total := (hdrs.map (·.length)).sum
                let next := hpos + 40 * nsm + total
                if next > file.length then none
                else (readIns file n next (sid + nsm)).map fun (is, ss) =>
                  ({ name := name, subs := subs, keymap := keymapOf nsm full (file.drop (pos + 33)) } :: is, smps ++ ss)

def read (bs : Bytes) : Option Module := do
  if bs.length < 80 then none
  if bs.take 17 ≠ str "Extended Module: " then none
  let version := rd16le ((bs.drop 58).take 2)
  let hsz := rd32le ((bs.drop 60).take 4)
  let songlen := rd16le ((bs.drop 64).take 2)
  let chn := rd16le ((bs.drop 68).take 2)
  let npat := rd16le ((bs.drop 70).take 2)
  let nins := rd16le ((bs.drop 72).take 2)
  let tempo := rd16le ((bs.drop 76).take 2)
  let bpm := rd16le ((bs.drop 78).take 2)
  if songlen > 256 ∨ npat > 256 ∨ nins > 255 ∨ chn > 64 then none
  if (tempo ≥ 32 ∨ bpm < 32 ∨ bpm > 1000) ∧ (bs.drop 38).take 6 ≠ str "MED2XM" then none
  if (bs.drop 38).take 6 = str "MED2XM" then none          -- MED2XM tempo rewriting: not modelled
  if hsz ≤ 20 ∨ hsz > 276 then none
  if chn = 0 then none
  let olen := hsz - 20
  if 80 + olen > bs.length then none
  if version ≤ 0x0103 then none                             -- old layout: not modelled
  let ords := ((bs.drop 80).take olen ++ List.replicate 256 0).take songlen
  let (pats, pos) ← readPats chn bs npat (60 + hsz)
  let (ins, smps) ← readIns bs nins pos 0
  let pat := npat + 1
  some { name := adjustString (cstr ((bs.drop 17).take 20)), chn := chn, orders := fixOrders pat ords,
         pats := pats ++ [{ rows := 64, cells := List.replicate (64 * chn) {} }],
         ins := ins, smps := smps.map obsLoop, spd := fixSpd tempo, bpm := fixBpm bpm }

/-! ## well-formed XM songs -/

def PatOk (chn : Nat) (p : Pat) : Prop :=
  1 ≤ p.rows ∧ p.rows ≤ 256 ∧ p.rows * chn * 6 ≤ 65535 ∧ p.cells.length = p.rows * chn ∧ ∀ c ∈ p.cells, CellOk c
instance (chn : Nat) (p : Pat) : Decidable (PatOk chn p) := by unfold PatOk; infer_instance

def SubOk (sid : Nat) (sub : Sub) : Prop :=
  sub.sid = sid ∧ sub.vol ≤ 64 ∧ 0 ≤ sub.pan ∧ sub.pan < 256 ∧ -128 ≤ sub.xpo ∧ sub.xpo ≤ 127 ∧ -128 ≤ sub.fin ∧ sub.fin ≤ 127
instance (sid : Nat) (sub : Sub) : Decidable (SubOk sid sub) := by unfold SubOk; infer_instance

def SubsOk : Nat → List Sub → Prop
  | _, [] => True
  | sid, x :: xs => SubOk sid x ∧ SubsOk (sid + 1) xs
instance : (sid : Nat) → (l : List Sub) → Decidable (SubsOk sid l)
  | _, [] => isTrue trivial
  | sid, x :: xs => by unfold SubsOk; have := instDecidableSubsOk (sid + 1) xs; infer_instance

/-- instruments own consecutive sample numbers; key map inside the instrument's samples -/
def InsOk (sid : Nat) (x : Ins) : Prop :=
  NameOk 22 x.name ∧ x.subs.length ≤ 32 ∧ SubsOk sid x.subs ∧
  (if x.subs = [] then x.keymap = []
   else x.keymap.length = 121 ∧ (∀ k ∈ x.keymap.take 12, k = 0) ∧ (∀ k ∈ x.keymap.drop 108, k = 0) ∧
        ∀ k ∈ (x.keymap.drop 12).take 96, k < x.subs.length)
instance (sid : Nat) (x : Ins) : Decidable (InsOk sid x) := by unfold InsOk; infer_instance

def InssOk : Nat → List Ins → Prop
  | _, [] => True
  | sid, x :: xs => InsOk sid x ∧ InssOk (sid + x.subs.length) xs
instance : (sid : Nat) → (l : List Ins) → Decidable (InssOk sid l)
  | _, [] => isTrue trivial
  | sid, x :: xs => by unfold InssOk; have := instDecidableInssOk (sid + x.subs.length) xs; infer_instance

def SmpOk (m : Smp) : Prop :=
  NameOk 22 m.name ∧ m.sus = 0 ∧ m.sue = 0 ∧ m.flg &&& (F16BIT ||| FLOOP ||| FBIDIR ||| FSTEREO) = m.flg ∧
  (m.flg &&& FBIDIR ≠ 0 → m.flg &&& FLOOP ≠ 0) ∧ m.len ≤ 0x100000 ∧ m.pcm.length = m.len * frameBytes m.flg ∧
  (if m.flg &&& FLOOP ≠ 0 then m.lps < m.lpe ∧ m.lpe ≤ m.len else m.lps = 0 ∧ m.lpe = 0) ∧
  (m.len ≥ 4 → ((storePcm m.flg m.len m.pcm).drop 4).take 4 ≠ str "OggS")
instance (m : Smp) : Decidable (SmpOk m) := by unfold SmpOk; infer_instance

/-- the stored sample bodies of one instrument, in file order -/
def bodies (ms : List Smp) : Bytes := ms.flatMap fun m => storePcm m.flg m.len m.pcm

/-- the header size chosen for instrument `i` (if it has samples) is one the loader accepts; a stripped header
(`< 241`) carries no key map, so the instrument's key map must be all zero -/
def SizeOk (o : Opts) (x : Ins) (i : Nat) : Prop :=
  x.subs ≠ [] → 33 ≤ o.insSize i ∧ o.insSize i < 0x80000000 ∧ (o.insSize i < 241 → ∀ k ∈ x.keymap, k = 0)
instance (o : Opts) (x : Ins) (i : Nat) : Decidable (SizeOk o x i) := by unfold SizeOk; infer_instance

def WellFormed (s : Module) (o : Opts) : Prop :=
  NameOk 20 s.name ∧ o.tracker.take 6 ≠ str "MED2XM" ∧ (1 ≤ s.chn ∧ s.chn ≤ 64) ∧
  (1 ≤ s.orders.length ∧ s.orders.length ≤ 256) ∧ (∀ x ∈ s.orders, x.toNat < s.pats.length) ∧
  s.pats.length ≤ 256 ∧ (∀ p ∈ s.pats, PatOk s.chn p) ∧ s.ins.length ≤ 255 ∧ InssOk 0 s.ins ∧
  s.smps.length = (s.ins.map (·.subs.length)).sum ∧ (∀ m ∈ s.smps, SmpOk m) ∧
  (1 ≤ s.spd ∧ s.spd ≤ 31) ∧ (32 ≤ s.bpm ∧ s.bpm ≤ 1000) ∧
  (29 ≤ o.emptyInsSize ∧ o.emptyInsSize < 0x80000000) ∧ o.restart < 65536 ∧ o.flags < 65536 ∧
  (20 + s.orders.length ≤ o.hsz ∧ o.hsz ≤ 276) ∧ (∀ p ∈ s.ins.zipIdx, SizeOk o p.1 p.2)

instance (s : Module) (o : Opts) : Decidable (WellFormed s o) := by unfold WellFormed; infer_instance

end Xmp.Fmt.Xm
