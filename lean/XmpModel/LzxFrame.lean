import XmpModel.Container
/-!
# LZX archives as read by `lzx_read` (src/depackers/lzx.c), model for C08

10-byte archive header, then entries: 31-byte entry header + file name + comment (header CRC-32 over all three with
its own field zeroed), compressed data.  `lzx_check_entry` with the merge state machine (merged groups share one
compressed stream that ends at the first entry with a non-zero compressed size), file selection (first entry that
is valid, not excluded and not empty), extraction (stored: the data itself, packed: through the parameter `dec`),
selection of the file inside a merged group, CRC-32 gate.  `crc c d` is `libxmp_crc32_A(d, len, c)`.
-/
namespace Xmp.Container
open Xmp

structure LzxEntry where
  usize : Nat
  csize : Nat
  method : Nat
  flags : Nat
  extractVer : Nat
  crc32 : Nat
  headerCrc : Nat
  filename : Bytes          -- C string
  computedCrc : Nat
  deriving Repr

/-- `lzx_read_entry` -/
def lzxReadEntry (crc : UInt32 → Bytes → UInt32) (s : Bytes) : Option (LzxEntry × Bytes) :=
  if s.length < 31 then none
  else
    let buf := s.take 31
    let s1 := s.drop 31
    let nameLen := bAt buf 30
    let commentLen := bAt buf 14
    let c0 := crc 0 (buf.take 26 ++ [0, 0, 0, 0] ++ buf.drop 30)
    if s1.length < nameLen then none
    else
      let name := s1.take nameLen
      let c1 := if nameLen ≠ 0 then crc c0 name else c0
      let s2 := s1.drop nameLen
      if s2.length < commentLen then none
      else
        let c2 := if commentLen ≠ 0 then crc c1 (s2.take commentLen) else c1
        some ({ usize := u32At buf 2, csize := u32At buf 6, method := bAt buf 11, flags := bAt buf 12,
                extractVer := bAt buf 15, crc32 := u32At buf 22, headerCrc := u32At buf 26,
                filename := cstr name, computedCrc := c2.toNat }, s2.drop commentLen)

inductive LzxMerge where
  | noMerge | inMerge | finalEntry
  deriving Repr, DecidableEq

structure LzxState where
  merge : LzxMerge := .noMerge
  invalid : Bool := false
  total : Nat := 0
  selected : Option (Nat × Nat × Nat) := none       -- offset, size, crc32
  deriving Repr

def LzxState.reset (_ : LzxState) : LzxState := {}

def LzxState.select (st : LzxState) (e : LzxEntry) : LzxState :=
  if st.selected.isSome then st else { st with selected := some (st.total, e.usize, e.crc32) }

/-- `lzx_check_entry`: new state and "extract now" -/
def lzxCheck (st : LzxState) (e : LzxEntry) (fileLen : Nat) : LzxState × Bool :=
  let junk := e.headerCrc ≠ e.computedCrc ∨ e.csize ≥ fileLen ∨ e.usize > depackLimit ∨ e.extractVer > 10 ∨
              ¬ (e.method = 0 ∨ e.method = 2) ∨ excludeMatch e.filename = true
  let st := if junk then { st with invalid := true } else st
  let selectable := !(decide junk) && e.usize != 0
  if e.flags % 2 = 1 then
    let st := if st.merge ≠ .inMerge then { st.reset with merge := .inMerge } else st
    -- (size_t overflow of the running total is impossible below the 512 MiB limit per entry and 2^32 entries)
    let bad := st.invalid || e.method != 2 || decide (st.total + e.usize > depackLimit)
    let st := if bad then { st with invalid := true } else st
    let selectable := selectable && !bad
    let st := if selectable then st.select e else st
    let st := { st with total := st.total + e.usize }
    if e.csize ≠ 0 then
      let st := { st with merge := .finalEntry }
      (st, st.selected.isSome && !st.invalid)
    else (st, false)
  else
    let st := st.reset
    if selectable then
      let st := st.select e
      ({ st with total := st.total + e.usize }, true)
    else (st, false)

/-- the loop of `lzx_read` after the archive header; `dec cdata outLen` stands for `lzx_unpack` -/
def lzxLoop (crc : UInt32 → Bytes → UInt32) (dec : Bytes → Nat → Option Bytes) (fileLen : Nat) :
    Nat → LzxState → Bytes → Option Bytes
  | 0, _, _ => none
  | fuel + 1, st, s =>
    match lzxReadEntry crc s with
    | none => none
    | some (e, s) =>
      let r := lzxCheck st e fileLen
      if !r.2 then lzxLoop crc dec fileLen fuel r.1 (s.drop e.csize)
      else if s.length < e.csize then none
      else
        let cdata := s.take e.csize
        let out? := if e.method ≠ 0 then dec cdata r.1.total else some cdata
        match out?, r.1.selected with
        | some out, some (off, size, c) =>
          let out := if size < out.length then
                       (if off ≠ 0 ∧ off ≤ out.length - size then (out.drop off).take size else out.take size)
                     else out
          if (crc 0 out).toNat ≠ c then none else some out
        | _, _ => none

/-- `lzx_read` -/
def lzxRead (crc : UInt32 → Bytes → UInt32) (dec : Bytes → Nat → Option Bytes) (f : Bytes) : Option Bytes :=
  if f.length < 10 then none
  else if !(memEqAt f 0 [0x4c, 0x5a, 0x58]) then none
  else lzxLoop crc dec f.length (f.length + 1) {} (f.drop 10)

def Env.withLzx (env : Env) (crcA : UInt32 → Bytes → UInt32) (dec : Bytes → Nat → Option Bytes) : Env :=
  { env with other := fun n f => if n = "lzx" then lzxRead crcA dec f else env.other n f }

/-! ## writer: stored, unmerged entries -/

structure LzxMember where
  name : Bytes
  data : Bytes
  comment : Bytes := []
  attrs : UInt8 := 0
  date : Nat := 0x12345678
  deriving Repr

def lzxHdr31 (crc : UInt32 → Bytes → UInt32) (m : LzxMember) (hcrc : Nat) : Bytes :=
  [m.attrs, 0] ++ le32 m.data.length ++ le32 m.data.length ++ [0x0a, 0, 0, 0] ++ [UInt8.ofNat m.comment.length, 0x0a] ++
  [0, 0] ++ le32 m.date ++ le32 (crc 0 m.data).toNat ++ le32 hcrc ++ [UInt8.ofNat m.name.length]

def lzxEntry (crc : UInt32 → Bytes → UInt32) (m : LzxMember) : Bytes :=
  let c0 := crc 0 (lzxHdr31 crc m 0)
  let c1 := if m.name.length ≠ 0 then crc c0 m.name else c0
  let c2 := if m.comment.length ≠ 0 then crc c1 m.comment else c1
  lzxHdr31 crc m c2.toNat ++ m.name ++ m.comment ++ m.data

def lzxWrap (crc : UInt32 → Bytes → UInt32) (ms : List LzxMember) : Bytes :=
  [0x4c, 0x5a, 0x58, 0, 0x0c, 0, 0x0a, 0x04, 0, 0] ++ ms.flatMap (lzxEntry crc)

end Xmp.Container
