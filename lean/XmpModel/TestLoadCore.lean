import XmpModel.TestLoad
/-!
# The `test` functions of the four core formats (C11)

`xm_test` (loaders/xm_load.c), `mod_test` (loaders/mod_load.c, full build: magic table, header
sanity loop, UNIC size test, pattern validation), `it_test` (loaders/it_load.c), `s3m_test`
(loaders/s3m_load.c), statement by statement over the stream model of `XmpModel.TestLoad`
(`hio_*` on the memory back-end: seeks clamp at the end of the data, a short fixed-width read
yields all ones and leaves the position at the end).

Each function is split the way the C is: a *probe* (everything up to the decision, it never
looks at the title pointer) and, on acceptance, the title read
`libxmp_read_title(f, t, n)` at the position the C has reached.

The magic numbers, the `mod_magic[]` table and the XM id text come from the sources
(`Gen.modMagic`, `Gen.MAGIC_SCRM`, `Gen.MAGIC_IMPM`, `Gen.xmIdText`); the sequence of `hio_*`
calls of each function is regenerated too and compared with the shape modelled here
(`XmpProps.C11Core.C11_core_calls`).

The concrete four-entry table `coreLoaders` is the head of `format_loaders[]` (generated fact:
the first four names of `Gen.formatLoaderNames`); the `loader` side stays a parameter except for
the bytes it stores in `mod->name`, which are modelled per format (`coreName`).
-/
namespace Xmp.TestLoad

/-! ## stream operations used by the probes (memory back-end of hio.c) -/

/-- `hio_seek(f, n, SEEK_SET)` (`mseek` clamps a target beyond the end) -/
def Stream.seekSet (s : Stream) (n : Nat) : Stream := { s with pos := min n s.data.length }

/-- `hio_seek(f, n, SEEK_CUR)`, `n ≥ 0` -/
def Stream.seekCur (s : Stream) (n : Nat) : Stream := { s with pos := min (s.pos + n) s.data.length }

/-- big-endian value of a byte string -/
def beNat (bs : Bytes) : Nat := bs.foldl (fun acc b => acc * 256 + b.toNat) 0

/-- `hio_read8` / `hio_read16b` / `hio_read32b` (`k` = 1, 2, 4): the value, or all ones when fewer
than `k` bytes are left (the position then stops at the end of the data) -/
def Stream.readBE (s : Stream) (k : Nat) : Nat × Stream :=
  let r := s.read k
  if r.1.length = k then (beNat r.1, r.2) else (2 ^ (8 * k) - 1, r.2)

/-- the bytes of an ASCII string literal of the C source -/
def asciiBytes (s : String) : Bytes := s.toList.map fun c => UInt8.ofNat c.toNat

/-- a probe that said no: `return -1` -/
def rejectOut (f : Stream) : TestOut := { rc := -1, st := f }

/-- `libxmp_read_title(f, t, n); return 0;` — with `t == NULL` the function returns at once -/
def titledOut (f : Stream) (n : Int) (want : Bool) : TestOut :=
  if want then { rc := 0, title := (readTitle f n).1, st := (readTitle f n).2 }
  else { rc := 0, st := f }

/-! ## xm_test -/

/-- `hio_read(buf, 1, 17, f) < 17 → -1; memcmp(buf, "Extended Module: ", 17) → -1` -/
def xmProbe (f : Stream) : Bool × Stream :=
  let r := f.read Gen.xmIdLen
  if r.1.length < Gen.xmIdLen then (false, r.2)
  else if r.1 ≠ (asciiBytes Gen.xmIdText).take Gen.xmIdLen then (false, r.2)
  else (true, r.2)

def xmTitleLen : Int := 20

def xmTest (f : Stream) (want : Bool) : TestOut :=
  let p := xmProbe f
  if p.1 then titledOut p.2 xmTitleLen want else rejectOut p.2

/-! ## it_test -/

def itProbe (f : Stream) : Bool × Stream :=
  let r := f.readBE 4
  (r.1 = Gen.MAGIC_IMPM, r.2)

def itTitleLen : Int := 26

def itTest (f : Stream) (want : Bool) : TestOut :=
  let p := itProbe f
  if p.1 then titledOut p.2 itTitleLen want else rejectOut p.2

/-! ## s3m_test -/

def s3mProbe (f : Stream) : Bool × Stream :=
  let r := (f.seekSet 44).readBE 4
  if r.1 ≠ Gen.MAGIC_SCRM then (false, r.2) else
  let q := (r.2.seekSet 29).readBE 1
  if q.1 ≠ 0x10 then (false, q.2) else (true, q.2.seekSet 0)

def s3mTitleLen : Int := 28

def s3mTest (f : Stream) (want : Bool) : TestOut :=
  let p := s3mProbe f
  if p.1 then titledOut p.2 s3mTitleLen want else rejectOut p.2

/-! ## mod_test (full build) -/

def isDigitCh (c : UInt8) : Bool := decide (48 ≤ c.toNat ∧ c.toNat ≤ 57)

/-- the two FastTracker-style signature tests at the head of `mod_test` (`nnCH` with
1 ≤ nn ≤ 32, `nCHN` with n ≠ 0): they `goto found` past every other check -/
def modQuick : Bytes → Bool
  | [a, b, c, d] =>
    (c = 67 && d = 72 && isDigitCh a && isDigitCh b &&
      decide (0 < (a.toNat - 48) * 10 + (b.toNat - 48) ∧ (a.toNat - 48) * 10 + (b.toNat - 48) ≤ 32)) ||
    (b = 67 && c = 72 && d = 78 && isDigitCh a && a != 48)
  | _ => false

/-- the `mod_magic[]` lookup: `some flag` for the first entry whose magic equals `buf` -/
def modMagicFlag (buf : Bytes) : Option Nat :=
  (Gen.modMagic.find? fun e => asciiBytes e.1 == buf).map (·.2)

/-- the header sanity loop: 31 instrument headers, finetune and volume tested -/
def modInsLoop : Nat → Stream → Bool × Stream
  | 0, f => (true, f)
  | n + 1, f =>
    let a := (f.seekCur 22).readBE 2          -- name skipped, sample size read and dropped
    let x := a.2.readBE 1                     -- finetune
    if x.1 &&& 0xf0 ≠ 0 ∧ x.1 ≠ 0x20 then (false, x.2) else
    let v := x.2.readBE 1                     -- volume
    if v.1 > 0x40 then (false, v.2) else
    let l1 := v.2.readBE 2
    let l2 := l1.2.readBE 2
    modInsLoop n l2.2

/-- `smp_size += 2 * hio_read16b(f)` over the 31 headers -/
def modSmpSize : Nat → Nat → Stream → Nat × Stream
  | 0, acc, f => (acc, f)
  | n + 1, acc, f =>
    let w := (f.seekCur 22).readBE 2
    modSmpSize n (acc + 2 * w.1) (w.2.seekCur 6)

/-- the order-table scan: the largest entry before the first one above 0x7f -/
def modMaxPat : Nat → Nat → Stream → Nat × Stream
  | 0, mx, f => (mx, f)
  | n + 1, mx, f =>
    let x := f.readBE 1
    if x.1 > 0x7f then (mx, x.2) else modMaxPat n (if x.1 > mx then x.1 else mx) x.2

/-- `validate_pattern`: some cell of the block starts with a byte whose high nibble exceeds 1 -/
def badPattern : Bytes → Bool
  | b0 :: _ :: _ :: _ :: rest => decide (b0.toNat / 16 > 1) || badPattern rest
  | _ => false

/-- the pattern validation loop: `none` when a pattern cannot be read in full, otherwise the
number of patterns that failed `validate_pattern` -/
def modPatLoop : Nat → Nat → Nat → Stream → Option Nat × Stream
  | 0, _, count, f => (some count, f)
  | n + 1, i, count, f =>
    let r := (f.seekSet (1084 + 1024 * i)).read 1024
    if r.1.length < 1024 then (none, r.2)
    else modPatLoop n (i + 1) (if badPattern r.1 then count + 1 else count) r.2

/-- the checks behind an undetected table magic ("M.K.", "6CHN", "8CHN"): UNIC size test and
pattern validation -/
def modUnic (f : Stream) : Bool × Stream :=
  let size := f.data.length
  let s := modSmpSize 31 0 (f.seekSet 20)
  let m := modMaxPat 128 0 (s.2.seekSet 952)
  let numPat := m.1 + 1
  if 1084 + numPat * 0x300 + s.1 = size then (false, m.2) else
  let p := modPatLoop numPat 0 0 m.2
  match p.1 with
  | none => (false, p.2)
  | some count => if count > 2 then (false, p.2) else (true, p.2)

/-- everything of `mod_test` up to the label `found` -/
def modProbe (f : Stream) : Bool × Stream :=
  let r := (f.seekSet 1080).read 4
  if r.1.length < 4 then (false, r.2)
  else if modQuick r.1 then (true, r.2)
  else match modMagicFlag r.1 with
    | none => (false, r.2)
    | some flag =>
      let c := modInsLoop 31 (r.2.seekSet 20)
      if !c.1 then (false, c.2)
      else if flag ≠ 0 then (true, c.2)
      else modUnic c.2

def modTitleLen : Int := 20

/-- `found: hio_seek(f, start + 0, SEEK_SET); libxmp_read_title(f, t, 20); return 0;` -/
def modTest (f : Stream) (want : Bool) : TestOut :=
  let p := modProbe f
  if p.1 then titledOut (p.2.seekSet 0) modTitleLen want else rejectOut p.2

/-! ## what the four loaders store in `mod->name` (an array of `XMP_NAME_SIZE` zero bytes before) -/

inductive CoreFmt where
  | xm | mod | it | s3m
  deriving DecidableEq, Repr

/-- offset and length of the title field in the file -/
def CoreFmt.titleOff : CoreFmt → Nat
  | .xm => 17 | .mod => 0 | .it => 4 | .s3m => 0

def CoreFmt.titleLen : CoreFmt → Nat
  | .xm => 20 | .mod => 20 | .it => 26 | .s3m => 28

/-- the title field as the loader's header read leaves it in its local header structure: the bytes
of the file, zero-filled when the file ends early (the header structures are zeroed or the
loader has failed before) -/
def CoreFmt.field (k : CoreFmt) (d : Bytes) : Bytes :=
  let raw := (d.drop k.titleOff).take k.titleLen
  raw ++ zeros (k.titleLen - raw.length)

/-- `mod->name` after the loader's header stage:
* xm, mod: `strncpy(mod->name, hdr.name, 20)`;
* it: `memcpy(mod->name, ifh.name, 26); mod->name[26] = 0`;
* s3m: `libxmp_copy_adjust(mod->name, sfh.name, 28)`. -/
def coreName (k : CoreFmt) (d : Bytes) : Bytes :=
  match k with
  | .xm | .mod => strncpyBuf (zeros nameSize) (k.field d ++ [0]) k.titleLen
  | .it => overlay (k.field d ++ [0]) (zeros nameSize)
  | .s3m => overlay (copyAdjustBuf (k.field d) k.titleLen) (zeros nameSize)

def CoreFmt.test : CoreFmt → Stream → Bool → TestOut
  | .xm => xmTest | .mod => modTest | .it => itTest | .s3m => s3mTest

def CoreFmt.probe : CoreFmt → Stream → Bool × Stream
  | .xm => xmProbe | .mod => modProbe | .it => itProbe | .s3m => s3mProbe

/-- position in `format_loaders[]` -/
def CoreFmt.index : CoreFmt → Nat
  | .xm => 0 | .mod => 1 | .it => 2 | .s3m => 3

/-- `format_loaders[k.index]->name` -/
def CoreFmt.lname (k : CoreFmt) : Bytes := asciiBytes (Gen.formatLoaderNames.getD k.index "")

/-- The loader of a core format: the modelled `test`, and a `loader` whose body is a parameter
(`body`: return value, sanity, scan results) but whose `mod->name` is the modelled one. -/
def coreLoader (k : CoreFmt) (body : Stream → LoadOut) : Loader where
  name := k.lname
  test := k.test
  load := fun s => { body s with name := coreName k s.data }

def coreOrder : List CoreFmt := [.xm, .mod, .it, .s3m]

/-- the head of `format_loaders[]` -/
def coreLoaders (body : CoreFmt → Stream → LoadOut) : List Loader :=
  coreOrder.map fun k => coreLoader k (body k)

/-- the verdict of a probe on a rewound handle -/
def CoreFmt.accepts (k : CoreFmt) (d : Bytes) : Bool := (k.probe { data := d }).1

end Xmp.TestLoad
