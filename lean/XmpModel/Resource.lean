import XmpModel.Gen.StartCfg
/-!
# Resource ledger and the context-level acquisition protocols of libxmp (property C04)

A `World` holds the process resources the property talks about:

* `live`   – the heap ledger: the multiset (a list) of blocks currently allocated,
* `bad`    – number of invalid operations so far (free / use of a block that is not live:
             double free, free of a dangling pointer, walking a NULL table),
* `oracle` – the outcome of the successive allocator calls (`false` = the call returns NULL);
             an exhausted oracle means success.  "The k-th allocation fails" is
             `List.replicate k true ++ [false]`, but all theorems hold for every oracle,
* `fds`, `files`, `closed` – open descriptors / FILE streams, temp files on disk, and the log of
             close operations on streams (caller's FILE, library-owned FILE, close callback).

Every C function that acquires or releases is mirrored statement by statement; pointers are
`Option Tok` (`none` = NULL); a pointer that was freed but not reset keeps its value (dangling).

Mirrored C (src/): smix.c `xmp_start_smix`, `xmp_smix_load_sample`, `xmp_smix_release_sample`,
`xmp_end_smix` (section "sound-effect mixer" at the end), mixer.c `libxmp_mixer_on/off`, virtual.c `libxmp_virt_on/off`,
player.c `xmp_start_player` (unwinding labels taken from the generated table
`Xmp.Gen.StartCfg`), `xmp_end_player`, load.c `xmp_release_module`, `load_module`,
`xmp_load_module*`, hio.c `hio_open*`, `hio_reopen_*`, `hio_close`, callbackio.h `cbopen/cbclose`,
tempfile.c `make_temp_file`, `unlink_temp_file`, depacker.c `decrunch_command`.
-/
namespace Xmp.Resource

/-! ## tokens and the world -/

inductive Kind
  | mixBuffer | mixBuf32 | voiceArray | paula | virtChannel | flowLoop | xcData | chanExtra
  | xxt | track | xxp | pattern | xxi | sub | insExtra | xxs | smpData | xtra | midi
  | scanCnt | scanRow | scan | comment | dirname | basename | modExtra | modExtraTab | modExtraEnt
  | hio | cbfile | mfile | depackBuf | tempName | loaderTmp
  | smixXxi | smixXxs | smixSub | smixData
  deriving DecidableEq, Repr, Inhabited

structure Tok where
  kind : Kind
  idx : Nat
  deriving DecidableEq, Repr, Inhabited

/-- streams whose closing the property constrains -/
inductive Stream
  | callerFile      -- the FILE* handed to xmp_load_module_from_file
  | ownedFile       -- a FILE* the library opened itself (path loads)
  | tempFile        -- the FILE* of a temp file created for an external helper
  | callback        -- the user's close callback (one event per invocation)
  deriving DecidableEq, Repr, Inhabited

structure World where
  oracle : List Bool := []
  live : List Tok := []
  bad : Nat := 0
  nalloc : Nat := 0
  closed : List Stream := []     -- log of fclose()/close_func() calls
  tempFiles : Nat := 0           -- files present in the temp directory
  openFds : Nat := 0             -- descriptors / FILE streams opened by the library and not yet closed
  deriving Repr

/-- one allocator call (malloc/calloc/realloc of a new block) -/
def World.alloc (w : World) (t : Tok) : Option Tok × World :=
  let w' := { w with oracle := w.oracle.tail, nalloc := w.nalloc + 1 }
  if w.oracle.headD true then (some t, { w' with live := t :: w.live }) else (none, w')

/-- `free(p)`; `free(NULL)` is a no-op, freeing a block that is not live is an invalid free -/
def World.free (w : World) : Option Tok → World
  | none => w
  | some t => if t ∈ w.live then { w with live := w.live.erase t } else { w with bad := w.bad + 1 }

/-- free every pointer of a list in order (a `for` loop of `free(tab[i])`) -/
def freeAll : List (Option Tok) → World → World
  | [], w => w
  | p :: ps, w => freeAll ps (w.free p)

/-- a `for` loop of `n` allocations `⟨k,i⟩, ⟨k,i+1⟩, …` that stops at the first failure; returns
the pointer table (`none` where nothing was stored), whether all succeeded, and the world -/
def allocLoop (k : Kind) : Nat → Nat → World → List (Option Tok) × Bool × World
  | 0, _, w => ([], true, w)
  | n + 1, i, w =>
    match w.alloc ⟨k, i⟩ with
    | (none, w1) => (List.replicate (n + 1) none, false, w1)
    | (some t, w1) =>
      let r := allocLoop k n (i + 1) w1
      (some t :: r.1, r.2.1, r.2.2)

/-- the blocks a pointer table refers to -/
def ptrs (l : List (Option Tok)) : List Tok := l.filterMap id

/-! ## player: mixer, virtual channels, xmp_start_player, xmp_end_player -/

inductive State | unloaded | loaded | playing
  deriving DecidableEq, Repr, Inhabited

def State.toNat : State → Nat
  | .unloaded => 0 | .loaded => 1 | .playing => 2

structure Player where
  buffer : Option Tok := none        -- s->buffer
  buf32 : Option Tok := none         -- s->buf32
  voiceArray : Option Tok := none    -- p->virt.voice_array
  paula : List (Option Tok) := []    -- p->virt.voice_array[i].paula, i < maxvoc
  virtChannel : Option Tok := none   -- p->virt.virt_channel
  flowLoop : Option Tok := none      -- p->flow.loop
  xcData : Option Tok := none        -- p->xc_data
  chanExtra : List (Option Tok) := []  -- p->xc_data[i].extra, i < virt_channels
  maxvoc : Nat := 0
  virtChannels : Nat := 0
  deriving Repr, DecidableEq

def Player.toks (p : Player) : List Tok :=
  ptrs [p.buffer, p.buf32, p.voiceArray] ++ ptrs p.paula ++ ptrs [p.virtChannel, p.flowLoop, p.xcData]
    ++ ptrs p.chanExtra

/-- what xmp_start_player computes from the module before allocating -/
structure StartParams where
  amiga : Bool := false     -- IS_AMIGA_MOD(): one Paula state per voice
  extras : Bool := false    -- module has MED/HMN/FAR extras: one block per virtual channel
  maxvoc : Nat := 0
  virtch : Nat := 0
  /-- `smix->chn >= 0 && mod->chn + smix->chn <= XMP_MAX_CHANNELS` (checked before anything is touched) -/
  smixOk : Bool := true
  deriving Repr

/-- libxmp_mixer_on -/
def mixerOn (p : Player) (w : World) : Int × Player × World :=
  match w.alloc ⟨.mixBuffer, 0⟩ with
  | (none, w1) => (-1, { p with buffer := none }, w1)
  | (some b, w1) =>
    match w1.alloc ⟨.mixBuf32, 0⟩ with
    | (none, w2) => (-1, { p with buffer := none, buf32 := none }, w2.free (some b))
    | (some c, w2) => (0, { p with buffer := some b, buf32 := some c }, w2)

/-- libxmp_mixer_off -/
def mixerOff (p : Player) (w : World) : Player × World :=
  ({ p with buffer := none, buf32 := none }, (w.free p.buffer).free p.buf32)

/-- libxmp_virt_on.  `maxvoc` / `virt_channels` are set before anything is allocated and stay set
when the function fails: the per-voice / per-channel tables then have that many (unreadable)
entries although `voice_array` / `xc_data` are NULL. -/
def virtInit (pp : StartParams) (p : Player) : Player :=
  { p with maxvoc := pp.maxvoc, virtChannels := pp.virtch,
           paula := List.replicate pp.maxvoc none,
           chanExtra := if pp.extras then List.replicate pp.virtch none else [] }

def virtAlloc (pp : StartParams) (p : Player) (w : World) : Int × Player × World :=
  match w.alloc ⟨.voiceArray, 0⟩ with
  | (none, w1) => (-1, { p with voiceArray := none }, w1)
  | (some va, w1) =>
    let r := if pp.amiga then allocLoop .paula pp.maxvoc 0 w1 else (List.replicate pp.maxvoc none, true, w1)
    if r.2.1 then
      match r.2.2.alloc ⟨.virtChannel, 0⟩ with
      | (some vc, w3) => (0, { p with voiceArray := some va, paula := r.1, virtChannel := some vc }, w3)
      | (none, w3) =>
        -- err2
        (-1, { p with voiceArray := none, virtChannel := none }, (freeAll r.1 w3).free (some va))
    else
      -- err2
      (-1, { p with voiceArray := none }, (freeAll r.1 r.2.2).free (some va))

def virtOn (pp : StartParams) (p : Player) (w : World) : Int × Player × World :=
  virtAlloc pp (virtInit pp p) w

/-- libxmp_virt_off; walking `voice_array[i].paula` through a NULL `voice_array` is invalid.
`virt_channels = 0` afterwards: the per-channel table `xc_data[i].extra`, `i < virt_channels`, has no
entries any more (entries still owned at that point are lost: a later release loop does not run) -/
def virtOff (p : Player) (w : World) : Player × World :=
  let w := if p.voiceArray.isNone ∧ p.paula ≠ [] then { w with bad := w.bad + 1 } else w
  ({ p with voiceArray := none, paula := [], virtChannel := none, maxvoc := 0, virtChannels := 0, chanExtra := [] },
   ((freeAll p.paula w).free p.voiceArray).free p.virtChannel)

/-! ### the unwinding table of xmp_start_player (from the generated file) -/

inductive Site | mixerOn | virtOn | flowLoop | xcData | chanExtras
  deriving DecidableEq, Repr, Inhabited

inductive Action | chanExtras | xcData | flowLoop | virtOff | mixerOff | unknown
  deriving DecidableEq, Repr, Inhabited

structure StartCfg where
  /-- release actions executed after a failure at the site, in order -/
  cleanup : Site → List Action
  /-- the function returns a negative value after a failure at the site -/
  retNeg : Site → Bool

def Action.ofString : String → Action
  | "channel_extras" => .chanExtras
  | "xc_data" => .xcData
  | "flow_loop" => .flowLoop
  | "virt_off" => .virtOff
  | "mixer_off" => .mixerOff
  | _ => .unknown

def Site.name : Site → String
  | .mixerOn => "mixer_on" | .virtOn => "virt_on" | .flowLoop => "flow_loop" | .xcData => "xc_data"
  | .chanExtras => "channel_extras"

/-- label blocks from `label` downwards (fall-through); an unknown label yields `[unknown]` -/
def fallThrough (labels : List (String × List String × Bool)) (label : String) :
    List String × Bool :=
  if label = "" then ([], false) else
  match labels.dropWhile (fun b => b.1 ≠ label) with
  | [] => (["?"], false)
  | bs => (bs.flatMap (fun b => b.2.1), bs.any (fun b => b.2.2))

def StartCfg.ofTables (sites : List (String × String × Bool))
    (labels : List (String × List String × Bool)) : StartCfg :=
  let look := fun (s : Site) =>
    match sites.find? (fun x => x.1 = s.name) with
    | some (_, label, retSet) =>
      let ft := fallThrough labels label
      (ft.1.map Action.ofString, retSet || ft.2)
    | none => ([Action.unknown], false)
  { cleanup := fun s => (look s).1, retNeg := fun s => (look s).2 }

/-- the table of the code as it is now -/
def startCfgNow : StartCfg := .ofTables Gen.StartCfg.startSites Gen.StartCfg.startLabels

def allSites : List Site := [.mixerOn, .virtOn, .flowLoop, .xcData, .chanExtras]

/-- abstract state of the unwinding: which resource groups are still held, and whether the two
tables that the release loops walk may be dereferenced (`voice_array[i]`, `xc_data[i]`) -/
structure Abs where
  mixer : Bool := false
  virt : Bool := false
  flow : Bool := false
  xc : Bool := false
  extras : Bool := false
  vaOk : Bool := true     -- voice_array != NULL or no voices to walk
  xcOk : Bool := true     -- xc_data != NULL or no channel extras to walk
  deriving DecidableEq, Repr

/-- the abstract state in which the failure branch of each site is entered.  When libxmp_mixer_on
fails nothing is held, but the context may be the residue of an earlier failed start: `maxvoc` /
`virt_channels` can be non-zero while `voice_array` / `xc_data` are NULL (libxmp_virt_on sets the
counts before it allocates; its failure path kept them until fix efb70c5, and the theorems do not rely
on that reset), so neither table may be walked. -/
def Site.entry : Site → Abs
  | .mixerOn => { vaOk := false, xcOk := false }
  | .virtOn => { mixer := true, vaOk := false, xcOk := false }
  | .flowLoop => { mixer := true, virt := true, xcOk := false }
  | .xcData => { mixer := true, virt := true, flow := true, xcOk := false }
  | .chanExtras => { mixer := true, virt := true, flow := true, xc := true, extras := true }

/-- one release action on the abstract state; `none` = the action is unsafe there (walks a NULL
table, drops blocks that are still owned, or is not understood) -/
def absStep (a : Action) (s : Abs) : Option Abs :=
  match a with
  | .mixerOff => some { s with mixer := false }
  | .virtOff => if s.vaOk && !s.extras then some { s with virt := false, vaOk := true, xcOk := true } else none
  | .flowLoop => some { s with flow := false }
  | .xcData => if s.extras then none else some { s with xc := false, xcOk := true }
  | .chanExtras => if s.xcOk then some { s with extras := false } else none
  | .unknown => none

def absRun : List Action → Abs → Option Abs
  | [], s => some s
  | a :: as, s => match absStep a s with
    | some s' => absRun as s'
    | none => none

def Abs.released (s : Abs) : Bool := !s.mixer && !s.virt && !s.flow && !s.xc && !s.extras

/-- decidable soundness of an unwinding table: from every failure site the label blocks release
every group that is held, never walk a NULL table, and the function returns a negative code -/
def StartCfg.soundAt (cfg : StartCfg) (s : Site) : Bool :=
  cfg.retNeg s && match absRun (cfg.cleanup s) s.entry with
    | some f => f.released
    | none => false

def StartCfg.Sound (cfg : StartCfg) : Bool := allSites.all cfg.soundAt

def doAction (a : Action) (p : Player) (w : World) : Player × World :=
  match a with
  | .chanExtras =>
    -- for (i < virt_channels) libxmp_release_channel_extras(&p->xc_data[i]); reads p->xc_data
    let w' := if p.xcData.isNone ∧ p.chanExtra ≠ [] then { w with bad := w.bad + 1 } else w
    -- the C leaves xc_data[i].extra dangling until xc_data is freed; running this block twice is
    -- excluded by `Sound`, so the entries are modelled as reset
    ({ p with chanExtra := p.chanExtra.map fun _ => none }, freeAll p.chanExtra w')
  | .xcData => ({ p with xcData := none, chanExtra := [] }, w.free p.xcData)
  | .flowLoop => ({ p with flowLoop := none }, w.free p.flowLoop)
  | .virtOff => virtOff p w
  | .mixerOff => mixerOff p w
  | .unknown => (p, { w with bad := w.bad + 1 })

def doActions : List Action → Player → World → Player × World
  | [], p, w => (p, w)
  | a :: as, p, w => let r := doAction a p w; doActions as r.1 r.2

structure Ctx where
  state : State := .unloaded
  player : Player := {}
  deriving Repr

/-- xmp_end_player -/
def endPlayer (c : Ctx) (w : World) : Ctx × World :=
  if c.state ≠ .playing then (c, w) else
  let p := c.player
  let w := freeAll p.chanExtra w
  let r := virtOff p w
  let p := r.1
  let w := (r.2.free p.xcData).free p.flowLoop
  let p := { p with xcData := none, flowLoop := none, chanExtra := [] }
  let r := mixerOff p w
  ({ state := .loaded, player := r.1 }, r.2)

def errInvalid : Int := -7
def errState : Int := -8
def errInternal : Int := -2
def errSystem : Int := -6

/-- failure exit of xmp_start_player at `site`: run the label blocks, return `ret` -/
def startFail (cfg : StartCfg) (site : Site) (code : Int) (c : Ctx) (p : Player) (w : World) :
    Int × Ctx × World :=
  let r := doActions (cfg.cleanup site) p w
  (if cfg.retNeg site then code else 0, { c with player := r.1 }, r.2)

/-- xmp_start_player after libxmp_mixer_on has succeeded (`p`, `w`: player and world at that point) -/
def startTail (cfg : StartCfg) (pp : StartParams) (c : Ctx) (p : Player) (w : World) :
    Int × Ctx × World :=
  let r2 := virtOn pp p w
  if r2.1 < 0 then startFail cfg .virtOn errInternal c r2.2.1 r2.2.2 else
  let p := r2.2.1
  match r2.2.2.alloc ⟨.flowLoop, 0⟩ with
  | (none, w) => startFail cfg .flowLoop errSystem c { p with flowLoop := none } w
  | (some fl, w) =>
    let p := { p with flowLoop := some fl }
    match w.alloc ⟨.xcData, 0⟩ with
    | (none, w) => startFail cfg .xcData errSystem c { p with xcData := none } w
    | (some xc, w) =>
      let p := { p with xcData := some xc }
      let r := if pp.extras then allocLoop .chanExtra pp.virtch 0 w
               else (List.replicate pp.virtch none, true, w)
      let p := { p with chanExtra := r.1 }
      if r.2.1 then (0, { state := .playing, player := p }, r.2.2)
      else startFail cfg .chanExtras errSystem c p r.2.2

/-- xmp_start_player -/
def startPlayer (cfg : StartCfg) (pp : StartParams) (rateOk : Bool) (c : Ctx) (w : World) :
    Int × Ctx × World :=
  if !rateOk then (errInvalid, c, w) else
  if c.state = .unloaded then (errState, c, w) else
  if !pp.smixOk then (errInvalid, c, w) else     -- module + smix channels exceed the channel tables
  let r := endPlayer c w            -- only acts when playing
  let c := r.1
  let w := r.2
  let r1 := mixerOn c.player w
  if r1.1 < 0 then startFail cfg .mixerOn errInternal c r1.2.1 r1.2.2 else
  startTail cfg pp c r1.2.1 r1.2.2

/-! ## the module and xmp_release_module -/

/-- a pointer table with one block per entry -/
structure Table where
  ptr : Option Tok := none
  entries : List (Option Tok) := []    -- `count` entries (NULL where nothing was stored)
  deriving Repr, DecidableEq

def Table.toks (t : Table) : List Tok := ptrs [t.ptr] ++ ptrs t.entries

/-- format-specific module extras (`m->extra`) -/
inductive ModExtra
  | none
  | flat (p : Tok)                               -- HMN / FAR: one block
  | med (p : Tok) (vol wav : Table)              -- MED: block + two pointer tables
  deriving Repr, DecidableEq

def ModExtra.toks : ModExtra → List Tok
  | .none => []
  | .flat p => [p]
  | .med p v wv => p :: (v.toks ++ wv.toks)

/-- the allocations hanging from `struct module_data`, in any partially built shape -/
structure Module where
  xxt : Table := {}
  xxp : Table := {}
  xxi : Option Tok := none
  subs : List (Option Tok) := []        -- xxi[i].sub
  insExtras : List (Option Tok) := []   -- xxi[i].extra
  xxs : Table := {}                     -- entries: xxs[i].data - 4
  xtra : Option Tok := none
  midi : Option Tok := none
  scanCnt : Table := {}
  scan : Option Tok := none             -- p->scan
  comment : Option Tok := none
  dirname : Option Tok := none
  basename : Option Tok := none
  extra : ModExtra := .none
  deriving Repr, DecidableEq

def Module.toks (m : Module) : List Tok :=
  m.xxt.toks ++ m.xxp.toks ++ ptrs [m.xxi] ++ ptrs m.subs ++ ptrs m.insExtras ++ m.xxs.toks
    ++ ptrs [m.xtra, m.midi] ++ m.scanCnt.toks ++ ptrs [m.scan, m.comment, m.dirname, m.basename]
    ++ m.extra.toks

structure MCtx extends Ctx where
  module : Module := {}
  deriving Repr

def MCtx.toks (c : MCtx) : List Tok := c.player.toks ++ c.module.toks

/-- `if (tab != NULL) { for (i < n) free(tab[i]); free(tab); tab = NULL; }` -/
def freeTable (t : Table) (w : World) : World :=
  match t.ptr with
  | none => w
  | some p => (freeAll t.entries w).free (some p)

/-- libxmp_release_module_extras -/
def releaseModExtra (e : ModExtra) (w : World) : World :=
  match e with
  | .none => w
  | .flat p => w.free (some p)
  | .med p v wv => ((freeTable v w) |> freeTable wv).free (some p)

/-- interleaved `free(xxi[i].sub); free(xxi[i].extra)` -/
def freeIns : List (Option Tok) → List (Option Tok) → World → World
  | s :: ss, e :: es, w => freeIns ss es ((w.free s).free e)
  | s :: ss, [], w => freeIns ss [] (w.free s)
  | [], es, w => freeAll es w

/-- xmp_release_module -/
def releaseModule (c : MCtx) (w : World) : MCtx × World :=
  let r := endPlayer c.toCtx w          -- `if (ctx->state > XMP_STATE_LOADED) xmp_end_player()`
  let m := c.module
  let w := releaseModExtra m.extra r.2
  let w := freeTable m.xxt w
  let w := freeTable m.xxp w
  let w := match m.xxi with
    | none => w
    | some p => (freeIns m.subs m.insExtras w).free (some p)
  let w := freeTable m.xxs w
  let w := (w.free m.xtra).free m.midi
  let w := freeTable m.scanCnt w        -- libxmp_free_scan
  let w := w.free m.scan
  let w := w.free m.comment
  let w := (w.free m.dirname).free m.basename
  ({ state := .unloaded, player := r.1.player, module := {} }, w)

/-- a module is well-formed for release when entry pointers only exist under a non-NULL table
(what the C relies on: the tables are calloc'ed and the entries live inside them) -/
def Table.wf (t : Table) : Bool := t.ptr.isSome || t.entries.all Option.isNone

def ModExtra.wf : ModExtra → Bool
  | .med _ v wv => v.wf && wv.wf
  | _ => true

def Module.wf (m : Module) : Bool :=
  m.xxt.wf && m.xxp.wf && m.xxs.wf && m.scanCnt.wf && m.extra.wf
    && (m.xxi.isSome || ((m.subs ++ m.insExtras).all Option.isNone))

/-! ## load_module and the xmp_load_module* wrappers with an arbitrary loader result -/

/-- what the format loader and the post-processing did; the module the loader left behind is
arbitrary (`built`) -/
inductive LoadOutcome
  | formatFail            -- no loader recognises the data: -XMP_ERROR_FORMAT
  | loaderFail            -- loader returned < 0 / sanity checks fail: -XMP_ERROR_LOAD
  | prepareScanFail       -- libxmp_prepare_scan < 0
  | scanFail              -- libxmp_scan_sequences < 0
  | ok
  deriving DecidableEq, Repr, Inhabited

def errFormat : Int := -3
def errLoad : Int := -4
def errDepack : Int := -5

/-- load_module: the loader builds `built` (any shape, all of it allocated in this call), then
on every failure path xmp_release_module runs -/
def loadModule (out : LoadOutcome) (built : Module) (c : MCtx) (w : World) : Int × MCtx × World :=
  -- libxmp_load_prologue resets the module; the loader then builds `built`;
  -- dirname/basename were set by the caller and stay
  let c1 : MCtx := { c with module := { built with dirname := c.module.dirname, basename := c.module.basename } }
  let w1 := { w with live := built.toks ++ w.live }
  match out with
  | .ok => (0, { c1 with state := .loaded }, w1)
  | .formatFail => let r := releaseModule c1 w1; (errFormat, r.1, r.2)
  | .loaderFail => let r := releaseModule c1 w1; (errLoad, r.1, r.2)
  | .prepareScanFail => let r := releaseModule c1 w1; (errSystem, r.1, r.2)
  | .scanFail => let r := releaseModule c1 w1; (errLoad, r.1, r.2)

/-! ## streams: hio handles, callbacks, temp files -/

inductive HType | file | mem | cb
  deriving DecidableEq, Repr, Inhabited

/-- an open HIO_HANDLE -/
structure Hio where
  h : Tok                      -- the HIO_HANDLE block
  type : HType
  noclose : Bool := false      -- FILE type: do not fclose (caller's FILE)
  stream : Stream := .ownedFile  -- FILE type: which stream `handle.file` is
  inner : Option Tok := none   -- MFILE / CBFILE block
  buf : Option Tok := none     -- memory buffer freed with the MFILE (free_after_use)
  deriving Repr, DecidableEq

def World.close (w : World) (s : Stream) : World := { w with closed := s :: w.closed }

/-- fclose of a stream the library opened (descriptor released) -/
def World.fcloseOwned (w : World) (s : Stream) : World :=
  { w with closed := s :: w.closed, openFds := w.openFds - 1 }

/-- user callbacks handed to the library -/
structure Callbacks where
  valid : Bool := true         -- priv and read/seek/tell are non-NULL
  hasClose : Bool := true
  sizeOk : Bool := true        -- tell/seek work (cbfilelength >= 0)
  deriving Repr, DecidableEq

/-- cbopen -/
def cbopen (cb : Callbacks) (w : World) : Option Tok × World :=
  if !cb.valid then (none, if cb.hasClose then w.close .callback else w)   -- err: close_func(priv)
  else match w.alloc ⟨.cbfile, 0⟩ with
    | (none, w1) => (none, if cb.hasClose then w1.close .callback else w1)
    | (some f, w1) => (some f, w1)

/-- cbclose -/
def cbclose (cb : Callbacks) (f : Tok) (w : World) : World :=
  let w := if cb.hasClose then w.close .callback else w
  w.free (some f)

/-- hio_open_callbacks -/
def hioOpenCallbacks (cb : Callbacks) (w : World) : Option Hio × World :=
  match cbopen cb w with
  | (none, w1) => (none, w1)
  | (some f, w1) =>
    match w1.alloc ⟨.hio, 0⟩ with
    | (none, w2) => (none, cbclose cb f w2)
    | (some h, w2) =>
      if cb.sizeOk then (some { h := h, type := .cb, inner := some f }, w2)
      else (none, (cbclose cb f w2).free (some h))

/-- hio_open_file (caller's FILE, `noclose = 1`) -/
def hioOpenFile (sizeOk : Bool) (w : World) : Option Hio × World :=
  match w.alloc ⟨.hio, 0⟩ with
  | (none, w1) => (none, w1)
  | (some h, w1) =>
    if sizeOk then (some { h := h, type := .file, noclose := true, stream := .callerFile }, w1)
    else (none, w1.free (some h))

/-- hio_open (path): fopen may fail, get_size may fail -/
def hioOpenPath (fopenOk sizeOk : Bool) (w : World) : Option Hio × World :=
  match w.alloc ⟨.hio, 0⟩ with
  | (none, w1) => (none, w1)
  | (some h, w1) =>
    if !fopenOk then (none, w1.free (some h))
    else
      let w2 := { w1 with openFds := w1.openFds + 1 }
      if sizeOk then (some { h := h, type := .file, noclose := false, stream := .ownedFile }, w2)
      else (none, (w2.fcloseOwned .ownedFile).free (some h))

/-- hio_open_const_mem: handle + MFILE -/
def hioOpenMem (w : World) : Option Hio × World :=
  match w.alloc ⟨.hio, 0⟩ with
  | (none, w1) => (none, w1)
  | (some h, w1) =>
    match w1.alloc ⟨.mfile, 0⟩ with
    | (none, w2) => (none, w2.free (some h))
    | (some m, w2) => (some { h := h, type := .mem, inner := some m }, w2)

/-- hio_close_internal: closes what the handle refers to (not the handle block) -/
def hioCloseInternal (cb : Callbacks) (x : Hio) (w : World) : World :=
  match x.type with
  | .file => if x.noclose then w else w.fcloseOwned x.stream
  | .mem => (w.free x.buf).free x.inner          -- mclose: free_after_use buffer + MFILE
  | .cb => match x.inner with
    | some f => cbclose cb f w
    | none => { w with bad := w.bad + 1 }

/-- hio_close -/
def hioClose (cb : Callbacks) (x : Hio) (w : World) : World :=
  (hioCloseInternal cb x w).free (some x.h)

/-- hio_reopen_mem(out, outlen, free_after_use = 1, h) as used by decrunch_internal; `buf` is
the depacker's output block (already allocated).  On failure the caller frees `buf`. -/
def hioReopenMem (cb : Callbacks) (buf : Tok) (x : Hio) (w : World) : Int × Hio × World :=
  match w.alloc ⟨.mfile, 1⟩ with
  | (none, w1) => (-1, x, w1)
  | (some m, w1) =>
    let w2 := hioCloseInternal cb x w1
    (0, { x with type := .mem, inner := some m, buf := some buf }, w2)

/-- hio_reopen_file(t, close_after_use = 1, h) as used by decrunch_command -/
def hioReopenFile (cb : Callbacks) (sizeOk : Bool) (x : Hio) (w : World) : Int × Hio × World :=
  if !sizeOk then (-1, x, w) else
  let w1 := hioCloseInternal cb x w
  (0, { x with type := .file, noclose := false, stream := .tempFile, inner := none, buf := none }, w1)

/-! ### temp files (tempfile.c, depacker.c decrunch_command, load.c callers) -/

inductive TSite | strdup | mkstemp | fdopen
  deriving DecidableEq, Repr, Inhabited
inductive TAction | closeFd | unlinkName | freeName | nullName | unknown
  deriving DecidableEq, Repr, Inhabited

def TAction.ofString : String → TAction
  | "close_fd" => .closeFd | "unlink_name" => .unlinkName | "free_name" => .freeName
  | "null_name" => .nullName | _ => .unknown

def TSite.name : TSite → String
  | .strdup => "strdup" | .mkstemp => "mkstemp" | .fdopen => "fdopen"

structure TempCfg where
  cleanup : TSite → List TAction

def TempCfg.ofTables (sites : List (String × String)) (labels : List (String × List String)) : TempCfg :=
  { cleanup := fun s =>
      match sites.find? (fun x => x.1 = s.name) with
      | some (_, label) =>
        (fallThrough (labels.map fun b => (b.1, b.2, false)) label).1.map TAction.ofString
      | none => [.unknown] }

def tempCfgNow : TempCfg := .ofTables Gen.StartCfg.tempSites Gen.StartCfg.tempLabels

/-- outcomes of the system calls inside make_temp_file -/
structure TempSys where
  mkstempOk : Bool := true
  fdopenOk : Bool := true
  deriving Repr, DecidableEq

def doTAction (a : TAction) (name : Option Tok) (w : World) : Option Tok × World :=
  match a with
  | .closeFd => (name, { w with openFds := w.openFds - 1 })
  | .unlinkName =>
    -- unlink(*filename): reads the string
    (name, match name with
      | some t => if t ∈ w.live then { w with tempFiles := w.tempFiles - 1 } else { w with bad := w.bad + 1 }
      | none => { w with bad := w.bad + 1 })
  | .freeName => (name, w.free name)        -- pointer keeps its value
  | .nullName => (none, w)
  | .unknown => (name, { w with bad := w.bad + 1 })

def doTActions : List TAction → Option Tok → World → Option Tok × World
  | [], n, w => (n, w)
  | a :: as, n, w => let r := doTAction a n w; doTActions as r.1 r.2

/-- make_temp_file(&name): returns (ok, name pointer as left in the caller's variable, world) -/
def makeTempFile (cfg : TempCfg) (sys : TempSys) (w : World) : Bool × Option Tok × World :=
  match w.alloc ⟨.tempName, 0⟩ with
  | (none, w1) => let r := doTActions (cfg.cleanup .strdup) none w1; (false, r.1, r.2)
  | (some n, w1) =>
    if !sys.mkstempOk then let r := doTActions (cfg.cleanup .mkstemp) (some n) w1; (false, r.1, r.2)
    else
      let w2 := { w1 with tempFiles := w1.tempFiles + 1, openFds := w1.openFds + 1 }
      if !sys.fdopenOk then let r := doTActions (cfg.cleanup .fdopen) (some n) w2; (false, r.1, r.2)
      else (true, some n, w2)

/-- unlink_temp_file(temp) -/
def unlinkTempFile (name : Option Tok) (w : World) : World :=
  match name with
  | none => w
  | some t =>
    let w := if t ∈ w.live then { w with tempFiles := w.tempFiles - 1 } else { w with bad := w.bad + 1 }
    w.free (some t)

/-- outcome of the external helper -/
structure HelperSys extends TempSys where
  execOk : Bool := true      -- execute_command >= 0 (helper present, exit status 0)
  seekOk : Bool := true
  sizeOk : Bool := true      -- get_size inside hio_reopen_file
  deriving Repr, DecidableEq

/-- decrunch_command: temp file, helper, reopen the handle on the temp FILE -/
def decrunchCommand (cfg : TempCfg) (sys : HelperSys) (x : Hio) (w : World) :
    Int × Hio × Option Tok × World :=
  match makeTempFile cfg sys.toTempSys w with
  | (false, name, w1) => (-1, x, name, w1)
  | (true, name, w1) =>
    if !sys.execOk || !sys.seekOk then (-1, x, name, w1.fcloseOwned .tempFile)      -- err2: fclose(t)
    else
      let r := hioReopenFile {} sys.sizeOk x w1
      if r.1 < 0 then (-1, r.2.1, name, r.2.2.fcloseOwned .tempFile)
      else (0, r.2.1, name, r.2.2)

/-- the part of xmp_load_module / xmp_test_module around an external helper: open by path,
decrunch with the helper, (load or test: `loadRc`), hio_close, unlink_temp_file -/
def pathOpWithHelper (cfg : TempCfg) (sys : HelperSys) (loadRc : Int) (w : World) : Int × World :=
  match hioOpenPath true true w with
  | (none, w1) => (errSystem, w1)
  | (some x, w1) =>
    let r := decrunchCommand cfg sys x w1
    (if r.1 < 0 then errDepack else loadRc, unlinkTempFile r.2.2.1 (hioClose {} r.2.1 r.2.2.2))

def TempCfg.Sound (cfg : TempCfg) : Bool :=
  cfg.cleanup .strdup = []
  && cfg.cleanup .mkstemp = [.freeName, .nullName]
  && (cfg.cleanup .fdopen = [.closeFd, .unlinkName, .freeName, .nullName]
      || cfg.cleanup .fdopen = [.unlinkName, .closeFd, .freeName, .nullName])

/-! ### stream life cycles through the four entry points -/

/-- which entry point opened the stream -/
inductive Entry | path | mem | file | cb
  deriving DecidableEq, Repr, Inhabited

/-- `open_x ; reopen* ; close` as the library performs it: every reopen is a depacker step
(`true` = internal depacker → memory, `false` = external helper → temp FILE); `ok` says whether
the reopen itself succeeds (on failure decrunch stops and the caller closes the handle) -/
def reopenSeq (cb : Callbacks) : List (Bool × Bool) → Hio → World → Hio × World
  | [], x, w => (x, w)
  | (toMem, ok) :: rest, x, w =>
    if toMem then
      -- decrunch_internal: depack() allocated `out`
      match w.alloc ⟨.depackBuf, rest.length⟩ with
      | (none, w1) => (x, w1)                      -- depack failed: stop
      | (some b, w1) =>
        if !ok then (x, w1.free (some b)) else
        let r := hioReopenMem cb b x w1
        if r.1 < 0 then (r.2.1, r.2.2.free (some b))    -- `free(out)`
        else reopenSeq cb rest r.2.1 r.2.2
    else
      -- decrunch_command after make_temp_file + helper: t is open
      let w1 := { w with openFds := w.openFds + 1 }
      let r := hioReopenFile cb ok x w1
      if r.1 < 0 then (r.2.1, r.2.2.fcloseOwned .tempFile)
      else reopenSeq cb rest r.2.1 r.2.2

def openEntry (e : Entry) (cb : Callbacks) (sizeOk : Bool) (w : World) : Option Hio × World :=
  match e with
  | .path => hioOpenPath true sizeOk w
  | .mem => hioOpenMem w
  | .file => hioOpenFile sizeOk w
  | .cb => hioOpenCallbacks cb w

/-- the whole life of a stream: open, any reopens, close -/
def streamLife (e : Entry) (cb : Callbacks) (sizeOk : Bool) (reopens : List (Bool × Bool)) (w : World) :
    Bool × World :=
  match openEntry e cb sizeOk w with
  | (none, w1) => (false, w1)
  | (some x, w1) =>
    let r := reopenSeq cb reopens x w1
    (true, hioClose cb r.1 r.2)

/-! ## sound-effect mixer tables (smix.c)

`struct smix_data`: two tables of `ins = smp` slots allocated by xmp_start_smix; slot `i` owns
`xxi[i].sub` (one sub-instrument) and `xxs[i].data - 4` (the sample) once xmp_smix_load_sample
succeeded for it. -/

structure Smix where
  xxi : Option Tok := none
  xxs : Option Tok := none
  subs : List (Option Tok) := []      -- xxi[i].sub,      i < ins
  datas : List (Option Tok) := []     -- xxs[i].data - 4, i < smp
  chn : Nat := 0
  ins : Nat := 0                      -- smix->ins = smix->smp
  deriving Repr, DecidableEq

def Smix.toks (s : Smix) : List Tok := ptrs [s.xxi, s.xxs] ++ ptrs s.subs ++ ptrs s.datas

/-- xmp_end_smix: refused (silently) while playing; walking the slots through a NULL table is invalid -/
def endSmix (st : State) (s : Smix) (w : World) : Smix × World :=
  if st = .playing then (s, w) else
  let w := if (s.xxs.isNone ∨ s.xxi.isNone) ∧ s.ins ≠ 0 then { w with bad := w.bad + 1 } else w
  -- xmp_smix_release_sample(i), i < smp: `libxmp_free_sample(&xxs[i]); free(xxi[i].sub)`
  let w := freeIns s.datas s.subs w
  ({}, (w.free s.xxs).free s.xxi)

/-- xmp_start_smix(chn, smp); `argsOk`: `0 <= chn <= XMP_MAX_CHANNELS && 0 <= smp <= 255` -/
def startSmix (st : State) (argsOk : Bool) (chn smp : Nat) (s : Smix) (w : World) : Int × Smix × World :=
  if st = .playing then (errState, s, w) else
  if !argsOk then (errInvalid, s, w) else
  -- already started: release the previous tables first
  let r := if s.xxi.isSome ∨ s.xxs.isSome then endSmix st s w else (s, w)
  let s := r.1
  match r.2.alloc ⟨.smixXxi, 0⟩ with
  | (none, w) => (errInternal, { s with xxi := none }, w)
  | (some a, w) =>
    match w.alloc ⟨.smixXxs, 0⟩ with
    | (none, w) => (errInternal, { s with xxi := none, xxs := none }, w.free (some a))      -- err1
    | (some b, w) =>
      (0, { xxi := some a, xxs := some b, subs := List.replicate smp none, datas := List.replicate smp none,
            chn := chn, ins := smp }, w)

/-- what the WAV file turns out to be -/
inductive Wav
  | headerBad     -- not RIFF / not mono / rate, bits or size 0 / a header seek fails
  | dataShort     -- the data seek or read fails after the sample buffer was allocated
  | ok
  deriving DecidableEq, Repr, Inhabited

/-- xmp_smix_load_sample(num, path).  The sub-instrument and the sample are built aside and the slot is
written only when everything was read (`commit`); `releaseOld`: the commit first releases what the slot
held (xmp_smix_release_sample), otherwise the old pointers are overwritten.  `fopenOk`/`sizeOk`: hio_open. -/
def smixLoadSample (num : Nat) (fopenOk sizeOk : Bool) (wav : Wav) (releaseOld : Bool) (s : Smix) (w : World) :
    Int × Smix × World :=
  if num ≥ s.ins then (errInvalid, s, w) else
  match hioOpenPath fopenOk sizeOk w with
  | (none, w) => (errSystem, s, w)
  | (some h, w) =>
    match w.alloc ⟨.smixSub, w.nalloc⟩ with
    | (none, w) => (errSystem, s, hioClose {} h w)                                   -- err1
    | (some sub, w) =>
      if wav = .headerBad then (errFormat, s, hioClose {} h (w.free (some sub))) else  -- err2 (data == NULL)
      match w.alloc ⟨.smixData, w.nalloc⟩ with
      | (none, w) => (errSystem, s, hioClose {} h (w.free (some sub)))               -- err2
      | (some d, w) =>
        if wav = .dataShort then (errSystem, s, hioClose {} h ((w.free (some d)).free (some sub))) else
        let w := hioClose {} h w
        -- commit
        let w := if releaseOld then (w.free (s.datas.getD num none)).free (s.subs.getD num none) else w
        (0, { s with subs := s.subs.set num (some sub), datas := s.datas.set num (some d) }, w)

/-- invariant of `struct smix_data`: the slot tables exist whenever there are slots -/
def Smix.wf (s : Smix) : Bool :=
  s.subs.length == s.ins && s.datas.length == s.ins && ((s.xxi.isSome && s.xxs.isSome) || s.ins == 0)

/-! ## closing can report an error (fclose / the close callback return < 0)

The stream is released whatever the close function reports (fclose frees the FILE, cbclose its
CBFILE).  `hio_reopen_*` look at the result: `switchAnyway = false` is the code that returns the error
and leaves the handle referring to the old stream; `true` the code that switches to the new stream in
any case (the flag of the current tree is generated: `Gen.StartCfg.reopenIgnoresCloseResult`). -/

/-- hio_close_internal with its return value; `fails`: the close function reports an error -/
def hioCloseInternalR (fails : Bool) (cb : Callbacks) (x : Hio) (w : World) : Int × World :=
  let w' := hioCloseInternal cb x w
  match x.type with
  | .mem => (0, w')                                                   -- mclose returns 0
  | .file => (if !x.noclose && fails then -1 else 0, w')
  | .cb => (if cb.hasClose && fails then -1 else 0, w')

def hioReopenMemR (switchAnyway fails : Bool) (cb : Callbacks) (buf : Tok) (x : Hio) (w : World) : Int × Hio × World :=
  match w.alloc ⟨.mfile, 1⟩ with
  | (none, w1) => (-1, x, w1)
  | (some m, w1) =>
    let r := hioCloseInternalR fails cb x w1
    if r.1 < 0 && !switchAnyway then
      -- `m->ptr_free = NULL; mclose(m); return ret;` - the handle still refers to the closed stream
      (-1, x, r.2.free (some m))
    else (0, { x with type := .mem, inner := some m, buf := some buf }, r.2)

def hioReopenFileR (switchAnyway fails : Bool) (cb : Callbacks) (sizeOk : Bool) (x : Hio) (w : World) : Int × Hio × World :=
  if !sizeOk then (-1, x, w) else
  let r := hioCloseInternalR fails cb x w
  if r.1 < 0 && !switchAnyway then (-1, x, r.2)
  else (0, { x with type := .file, noclose := false, stream := .tempFile, inner := none, buf := none }, r.2)

/-- `reopenSeq` where every step also says whether closing the old stream reports an error -/
def reopenSeqR (sw : Bool) (cb : Callbacks) : List (Bool × Bool × Bool) → Hio → World → Hio × World
  | [], x, w => (x, w)
  | (toMem, ok, fails) :: rest, x, w =>
    if toMem then
      match w.alloc ⟨.depackBuf, rest.length⟩ with
      | (none, w1) => (x, w1)
      | (some b, w1) =>
        if !ok then (x, w1.free (some b)) else
        let r := hioReopenMemR sw fails cb b x w1
        if r.1 < 0 then (r.2.1, r.2.2.free (some b))
        else reopenSeqR sw cb rest r.2.1 r.2.2
    else
      let w1 := { w with openFds := w.openFds + 1 }
      let r := hioReopenFileR sw fails cb ok x w1
      if r.1 < 0 then (r.2.1, r.2.2.fcloseOwned .tempFile)
      else reopenSeqR sw cb rest r.2.1 r.2.2

def streamLifeR (sw : Bool) (e : Entry) (cb : Callbacks) (sizeOk : Bool) (reopens : List (Bool × Bool × Bool)) (w : World) :
    Bool × World :=
  match openEntry e cb sizeOk w with
  | (none, w1) => (false, w1)
  | (some x, w1) =>
    let r := reopenSeqR sw cb reopens x w1
    (true, hioClose cb r.1 r.2)      -- the result of the final close is ignored by every caller

/-! ## rescans: libxmp_scan_sequences on a loaded / playing context (scan.c)

Called again by xmp_set_player(XMP_PLAYER_MODE / XMP_PLAYER_CFLAGS) and xmp_scan_module.  It
`realloc`s `p->scan` to `mod->len` entries, scans, and `realloc`s it down to the number of sequences;
compare_vblank_scan mallocs a backup of `xxo_info` and skips the comparison when that fails. -/

/-- `realloc(old, n)` of a live block: failure leaves the old block valid; success hands out the block
`t` (possibly moved) in place of `old` -/
def World.realloc (w : World) (old : Option Tok) (t : Tok) : Option Tok × World :=
  let w' := { w with oracle := w.oracle.tail, nalloc := w.nalloc + 1 }
  if w.oracle.headD true then
    (some t, { w' with live := t :: (match old with | some o => w.live.erase o | none => w.live) })
  else (none, w')

/-- compare_vblank_scan: mallocs a backup of `xxo_info`, frees it; without it the comparison is skipped -/
def compareVblank (on : Bool) (w : World) : World :=
  if on then
    match w.alloc ⟨.loaderTmp, 0⟩ with
    | (none, w1) => w1
    | (some b, w1) => w1.free (some b)
  else w

/-- libxmp_scan_sequences; `vblankCmp`: compare_vblank_scan runs, `valid`: the scan finds a valid order,
`shrink`: fewer sequences than orders.  Returns the code, `p->scan`, the world. -/
def scanSequences (vblankCmp valid shrink : Bool) (scan : Option Tok) (w : World) : Int × Option Tok × World :=
  match w.realloc scan ⟨.scan, w.nalloc + 1⟩ with
  | (none, w1) => (-1, scan, w1)
  | (some s, w1) =>
    let w2 := compareVblank vblankCmp w1
    if !valid then (-1, some s, w2) else
    if shrink then
      match w2.realloc (some s) ⟨.scan, w2.nalloc + 1⟩ with
      | (none, w3) => (0, some s, w3)              -- `if (s != NULL) p->scan = s;`
      | (some s', w3) => (0, some s', w3)
    else (0, some s, w2)

/-- what one run of libxmp_scan_sequences does under a given player mode -/
structure ScanP where
  vblankCmp : Bool := false
  valid : Bool := true
  shrink : Bool := false
  deriving Repr, DecidableEq

/-- xmp_set_player(XMP_PLAYER_MODE, val), `val` in range, on a PLAYING context (control.c): the new mode
and the six mode members are stored and the module is rescanned under them (`new`); when that rescan fails
(nothing playable under the new mode, or the growing realloc failed) the old mode and members are put back,
the module is rescanned a second time under them (`old`) and the call is refused with -XMP_ERROR_INVALID.
Returns: code, `p->mode`, whether the scan table belongs to the mode in force (the last rescan
succeeded), `p->scan`, world. -/
def setPlayerMode (new old : ScanP) (oldMode newMode : Nat) (scan : Option Tok) (w : World) :
    Int × Nat × Bool × Option Tok × World :=
  let r := scanSequences new.vblankCmp new.valid new.shrink scan w
  if r.1 < 0 then
    let r2 := scanSequences old.vblankCmp old.valid old.shrink r.2.1 r.2.2
    (errInvalid, oldMode, !(r2.1 < 0), r2.2.1, r2.2.2)
  else (0, newMode, true, r.2.1, r.2.2)

end Xmp.Resource
