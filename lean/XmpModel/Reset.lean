import XmpModel.Basic
import XmpModel.Gen.CtxFields
import XmpModel.Gen.Globals
/-!
# Reset — `struct context_data` as a record of all its leaf fields (C06)

The state of a libxmp context is a function from the *generated* field
enumeration `Xmp.Gen.CtxFields.Field` (one constructor per leaf member of
`struct context_data`, see tools/gen_ctx_fields.py) to values.  A value is a
function `Nat → Int`: element index ↦ element (scalars live at every index,
pointers carry `0/1` = NULL/non-NULL at index 0 and an abstract digest of the
pointee at index 1, doubles are in 1/1000 units).

The operations that reset state are field updates mirroring the C:

| model            | C                                                            |
|------------------|--------------------------------------------------------------|
| `createContext`  | `xmp_create_context` (src/control.c)                         |
| `prologue`       | `libxmp_load_prologue` (src/load_helpers.c)                  |
| `epilogue`       | `libxmp_load_epilogue` up to the quirk calls                 |
| `resetFlow`      | `libxmp_reset_flow` (src/player.c)                           |
| `mixerOn`        | `libxmp_mixer_on` (src/mixer.c)                              |
| `virtOn`         | `libxmp_virt_on` (src/virtual.c)                             |
| `startPlayer`    | `xmp_start_player` success path (src/player.c)               |
| `endPlayer`      | `xmp_end_player`, `libxmp_virt_off`, `libxmp_mixer_off`      |
| `release`        | `xmp_release_module` (src/load.c), `libxmp_free_scan`        |
| `load`           | `xmp_load_module*` + `load_module` success path (src/load.c) |

Code that is not modelled (format loaders, MD5, the quirk tables, the scan,
double arithmetic, what `calloc`'ed arrays are initialised to) enters through
`Ext`: every such computation is a function of the state *restricted* to an
explicit read set, which is how the model records what it may depend on.
-/
namespace Xmp.Reset
open Xmp.Gen.CtxFields

abbrev Val := Nat → Int
abbrev Ctx := Field → Val

/-- a scalar (or an array filled with one value) -/
@[inline] def cst (v : Int) : Val := fun _ => v
/-- NULL -/
@[inline] def null : Val := cst 0
/-- a non-NULL pointer whose pointee has digest `d` -/
@[inline] def ptr (d : Int) : Val := fun i => if i = 0 then 1 else d

/-- restriction of a state to a read set; what an external computation may look at -/
def restrict (R : Field → Bool) (s : Ctx) : Ctx := fun f => if R f then s f else cst 0

/-! ## Field classes -/

/-- Settings documented to persist across loads (docs/libxmp.rst: player flags, sample
control, default pan, voices, instrument path), the sound-effect mixer tables and the
random generator state. -/
def Persistent : Field → Bool
  | .p_player_flags | .m_smpctl | .m_defpan | .s_numvoc | .m_instrument_path
  | .smix_chn | .smix_ins | .smix_smp | .smix_xxi | .smix_xxs | .rng_state => true
  | _ => false

/-- written unconditionally from the caller's arguments: names and size by the `xmp_load_module*`
wrappers, the MD5 digest of the input by `load_module` -/
def NameField : Field → Bool
  | .m_filename | .m_dirname | .m_basename | .m_size | .m_md5 => true
  | _ => false

/-- `struct module_data` members a format loader (or `set_md5sum`) may write; a loader that does
not write one of them leaves what `libxmp_load_prologue` put there. -/
def LoaderMayWrite : Field → Bool
  | .m_mod_name | .m_mod_type | .m_mod_pat | .m_mod_trk | .m_mod_chn | .m_mod_ins | .m_mod_smp
  | .m_mod_spd | .m_mod_bpm | .m_mod_len | .m_mod_rst | .m_mod_gvl | .m_mod_xxp | .m_mod_xxt
  | .m_mod_xxi | .m_mod_xxs | .m_mod_xxc_pan | .m_mod_xxc_vol | .m_mod_xxc_flg | .m_mod_xxo
  | .m_comment | .m_rrate | .m_time_factor | .m_c4rate | .m_volbase | .m_gvolbase
  | .m_gvol | .m_mvolbase | .m_mvol | .m_vol_table | .m_quirk | .m_flow_mode
  | .m_read_event_type | .m_period_type | .m_extra | .m_xtra | .m_midi | .m_compare_vblank => true
  | _ => false

/-- written by `module_quirks` / `libxmp_set_player_mode` at the end of the epilogue -/
def QuirkField : Field → Bool
  | .p_flags | .p_mode | .m_c4rate | .m_quirk | .m_flow_mode | .m_read_event_type | .m_period_type => true
  | _ => false

/-- what the module-level code after the loader may read: the module, the names, the persistent
settings and the per-module player flags/mode -/
def ModuleReads (f : Field) : Bool :=
  LoaderMayWrite f || NameField f || Persistent f || f == .p_flags || f == .p_mode

/-- what `xmp_start_player` may read besides the fields it has just written: the loaded module,
the scan results that are always rewritten, the persistent settings -/
def StartReads (f : Field) : Bool :=
  ModuleReads f || f == .p_scan || f == .m_scan_cnt || f == .p_sequence_control
    || f == .m_num_sequences || f == .m_xxo_info_time

/-! ## External computations -/

structure Ext where
  /-- caller supplied names / size (`xmp_load_module*` wrappers) -/
  names : Field → Val
  /-- format loader + md5 of the input bytes; may read only the persistent settings -/
  loader : Ctx → Field → Option Val
  /-- `module_quirks` + `libxmp_set_player_mode` -/
  quirks : Ctx → Field → Val
  /-- `libxmp_prepare_scan` + `libxmp_scan_sequences` -/
  scan : Ctx → Field → Val
  /-- `xmp_start_player`: pattern row count, scan data pointee, initial contents of allocated arrays -/
  start : Ctx → Field → Val
  /-- `m->time_factor * m->rrate / p->bpm` in double arithmetic -/
  frameTime : Int → Int → Int → Int

/-! ## Operations -/

def createContext (rngState : Int) : Ctx
  | .state => cst K.XMP_STATE_UNLOADED
  | .m_defpan => cst 100
  | .s_numvoc => cst K.SMIX_NUMVOC
  | .rng_state => cst rngState
  | _ => cst 0

/-- members of `struct smix_data` (the sound-effect mixer session) -/
def SmixField : Field → Bool
  | .smix_chn | .smix_ins | .smix_smp | .smix_xxi | .smix_xxs => true
  | _ => false

/-- `xmp_end_smix` (src/smix.c): refused while playing; otherwise the slots are released, both tables freed
and every member of `smix_data` returns to the value `xmp_create_context` gave it. -/
def endSmix (s : Ctx) : Ctx :=
  if s .state 0 > K.XMP_STATE_LOADED then s else fun f => match f with
  | .smix_chn | .smix_ins | .smix_smp => cst 0
  | .smix_xxi | .smix_xxs => null
  | f => s f

/-- successful `xmp_start_smix chn smp` (arguments in range, allocations succeed): refused while playing; a
session that is still open is closed first; `tables` stands for the digest of two zeroed tables. -/
def startSmix (chn smp : Int) (tables : Field → Int) (s : Ctx) : Ctx :=
  if s .state 0 > K.XMP_STATE_LOADED then s else fun f => match f with
  | .smix_chn => cst chn
  | .smix_ins | .smix_smp => cst smp
  | .smix_xxi => ptr (tables .smix_xxi)
  | .smix_xxs => ptr (tables .smix_xxs)
  | f => endSmix s f

/-- `libxmp_load_prologue`.  C integer division truncates: `Int.tdiv`. -/
def prologue (s : Ctx) : Ctx
  | .m_mod_name | .m_mod_type => cst 0
  | .m_mod_pat | .m_mod_trk | .m_mod_ins | .m_mod_smp | .m_mod_len | .m_mod_rst | .m_mod_gvl => cst 0
  | .m_mod_chn => cst 4
  | .m_mod_spd => cst 6
  | .m_mod_bpm => cst 125
  | .m_mod_xxp | .m_mod_xxt | .m_mod_xxi | .m_mod_xxs => null
  | .m_mod_xxc_pan => fun i =>
      let pan : Int := (((i + 1) / 2) % 2 : Nat) * 0xff
      0x80 + ((pan - 0x80) * s .m_defpan 0).tdiv 100
  | .m_mod_xxc_vol => cst 0x40
  | .m_mod_xxc_flg => cst 0
  | .m_mod_xxo => cst 0
  | .m_rrate => cst K.PAL_RATE
  | .m_c4rate => cst K.C4_PAL_RATE
  | .m_volbase | .m_gvol | .m_gvolbase => cst 0x40
  | .m_mvol | .m_mvolbase => cst 0
  | .m_vol_table => null
  | .m_quirk => cst 0
  | .m_flow_mode => cst K.FLOW_MODE_GENERIC
  | .m_read_event_type => cst K.READ_EVENT_MOD
  | .m_period_type => cst K.PERIOD_AMIGA
  | .m_compare_vblank => cst 0
  | .m_comment | .m_scan_cnt | .m_midi | .m_extra => null
  | .m_time_factor => cst K.DEFAULT_TIME_FACTOR
  | f => s f

/-- names and size stored by the `xmp_load_module*` wrappers before `load_module` -/
def nameStep (X : Ext) (s : Ctx) : Ctx := fun f => if NameField f then X.names f else s f

def loaderStep (X : Ext) (s : Ctx) : Ctx := fun f =>
  if LoaderMayWrite f then (X.loader (restrict Persistent s) f).getD (s f) else s f

/-- `libxmp_load_epilogue` before `module_quirks` (pointee sanitising is not part of the image) -/
def epilogue (s : Ctx) : Ctx :=
  let len := clamp (s .m_mod_len 0) 0 K.XMP_MAX_MOD_LENGTH
  fun f => match f with
  | .m_mod_gvl => cst (s .m_gvol 0)
  | .m_mod_len => cst len
  | .m_mod_pat => cst (clamp (s .m_mod_pat 0) 0 257)
  | .m_mod_ins => cst (clamp (s .m_mod_ins 0) 0 255)
  | .m_mod_smp => cst (clamp (s .m_mod_smp 0) 0 K.MAX_SAMPLES)
  | .m_mod_chn => cst (clamp (s .m_mod_chn 0) 0 K.XMP_MAX_CHANNELS)
  | .m_mod_rst => cst (if s .m_mod_rst 0 ≥ len then 0 else s .m_mod_rst 0)
  | .m_mod_spd => cst (if s .m_mod_spd 0 ≤ 0 ∨ s .m_mod_spd 0 > 255 then 6 else s .m_mod_spd 0)
  | .m_mod_bpm => cst (clamp (s .m_mod_bpm 0) K.XMP_MIN_BPM 1000)
  | .p_pos | .p_ord | .p_row | .p_frame | .p_speed | .p_bpm | .p_gvol | .p_loop_count | .p_sequence
  | .p_current_time | .p_frame_time | .s_ticksize => cst 0
  | .p_filter => cst 0
  | .p_mode => cst K.XMP_MODE_AUTO
  | .p_flags => cst (s .p_player_flags 0)
  | f => s f

def quirkStep (X : Ext) (s : Ctx) : Ctx := fun f =>
  if QuirkField f then X.quirks (restrict ModuleReads s) f else s f

/-- `libxmp_prepare_scan` + `libxmp_scan_sequences`.  `reset_scan_data` sets every
`xxo_info[i].time` to −1 and every `sequence_control[i]` to 0xff before scanning, so those are
rewritten completely; the other `xxo_info` members are written only for orders the scan visits
(exactly those whose `time` is not −1 afterwards), `start_row` moreover only where it is still 0;
`seq_data[i]` only for `i < num_sequences`. -/
def scanStep (X : Ext) (s : Ctx) : Ctx :=
  let r := X.scan (restrict ModuleReads s)
  let visited : Nat → Bool := fun i => r .m_xxo_info_time i != -1
  fun f => match f with
  | .m_scan_cnt | .p_scan | .p_sequence_control | .m_num_sequences | .m_mod_len | .m_mod_xxp
  | .m_quirk | .m_xxo_info_time => r f
  | .m_xxo_info_speed | .m_xxo_info_bpm | .m_xxo_info_gvl | .m_xxo_info_st26_speed =>
      fun i => if visited i then r f i else s f i
  | .m_xxo_info_start_row =>
      fun i => if visited i && s f i == 0 && i != 0 then r f i else s f i
  | .m_seq_data_entry_point | .m_seq_data_duration =>
      fun i => if (i : Int) < r .m_num_sequences 0 then r f i else s f i
  | f => s f

def setState (v : Int) (s : Ctx) : Ctx
  | .state => cst v
  | f => s f

/-- `libxmp_virt_off`, the frees of `xmp_end_player`, `libxmp_mixer_off` -/
def endPlayer (s : Ctx) : Ctx :=
  if s .state 0 < K.XMP_STATE_PLAYING then s else fun f => match f with
  | .state => cst K.XMP_STATE_LOADED
  | .p_virt_virt_used | .p_virt_maxvoc | .p_virt_virt_channels | .p_virt_num_tracks => cst 0
  | .p_virt_voice_array | .p_virt_virt_channel | .p_xc_data | .p_flow_loop | .s_buffer | .s_buf32 => null
  | f => s f

/-- `xmp_release_module` -/
def release (s : Ctx) : Ctx :=
  let s1 := if s .state 0 > K.XMP_STATE_LOADED then endPlayer s else s
  fun f => match f with
  | .state => cst K.XMP_STATE_UNLOADED
  | .m_mod_xxt | .m_mod_xxp | .m_mod_xxi | .m_mod_xxs | .m_xtra | .m_midi | .m_scan_cnt | .p_scan
  | .m_comment | .m_dirname | .m_basename => null
  -- libxmp_release_module_extras: MED/HMN/FAR extras are freed and NULLed, other formats never set it
  | .m_extra => null
  | f => s1 f

/-- successful `xmp_load_module*` -/
def load (X : Ext) (s : Ctx) : Ctx :=
  let s0 := if s .state 0 > K.XMP_STATE_UNLOADED then release s else s
  setState K.XMP_STATE_LOADED (scanStep X (quirkStep X (epilogue (loaderStep X (prologue (nameStep X s0))))))

/-- `libxmp_reset_flow` -/
def resetFlow (s : Ctx) : Ctx
  | .p_flow_jumpline | .p_flow_pbreak | .p_flow_loop_count | .p_flow_loop_active_num | .p_flow_delay
  | .p_flow_rowdelay | .p_flow_rowdelay_set => cst 0
  | .p_flow_jump | .p_flow_loop_dest | .p_flow_loop_param | .p_flow_loop_start | .p_flow_jump_in_pat => cst (-1)
  | f => s f

/-- `libxmp_mixer_on`; the two buffers are `calloc`ed (digest of an all-zero buffer is external) -/
def mixerOn (X : Ext) (rate format : Int) (s : Ctx) : Ctx
  | .s_buffer => ptr (X.start (restrict (fun _ => false) s) .s_buffer 1)
  | .s_buf32 => ptr (X.start (restrict (fun _ => false) s) .s_buf32 1)
  | .s_freq => cst rate
  | .s_format => cst format
  | .s_amplify => cst K.DEFAULT_AMPLIFY
  | .s_mix => cst K.DEFAULT_MIX
  | .s_interp => cst K.XMP_INTERP_LINEAR
  | .s_dsp => cst K.XMP_DSP_LOWPASS
  | .s_dtright | .s_dtleft | .s_bidir_adjust | .s_ticksize => cst 0
  | f => s f

/-- first order at or after 0 holding a valid pattern (`while (p->ord < len && xxo[ord] >= pat) ord++`) -/
def firstValid (xxo : Val) (pat len : Int) : Nat → Nat → Nat
  | 0, ord => ord
  | fuel + 1, ord => if (ord : Int) < len ∧ xxo ord ≥ pat then firstValid xxo pat len fuel (ord + 1) else ord

/-- `libxmp_mixer_numvoices` -/
def numvoices (numvoc num : Int) : Int := if num > numvoc ∨ num < 0 then numvoc else num

/-- module length after the "skip invalid patterns at start" loop of `xmp_start_player` -/
def startLen (s : Ctx) : Int :=
  let len0 := s .m_mod_len 0
  let ord0 := firstValid (s .m_mod_xxo) (s .m_mod_pat 0) len0 256 0
  if (ord0 : Int) ≥ len0 then 0 else len0

/-- order the player starts at -/
def startOrd (s : Ctx) : Nat :=
  if startLen s = 0 then 0 else firstValid (s .m_mod_xxo) (s .m_mod_pat 0) (s .m_mod_len 0) 256 0

def isVirtual (s : Ctx) : Bool := (s .m_quirk 0).toNat &&& K.QUIRK_VIRTUAL.toNat != 0

/-- `libxmp_virt_on`: `p->virt.virt_channels` -/
def virtChannels (s : Ctx) : Int :=
  let numTracks := s .m_mod_chn 0 + s .smix_chn 0
  if isVirtual s then numTracks + numvoices (s .s_numvoc 0) (-1) else numTracks

/-- `libxmp_virt_on`: `p->virt.maxvoc` -/
def maxVoc (s : Ctx) : Int :=
  let numvoc := s .s_numvoc 0
  let num0 := numvoices numvoc (-1)
  let num := if isVirtual s then num0 else if num0 > virtChannels s then virtChannels s else num0
  numvoices numvoc num

/-- default mute status of channel `i` -/
def muteOf (s : Ctx) (i : Nat) : Int :=
  if (i : Int) < s .m_mod_chn 0 then
    (if (s .m_mod_xxc_flg i).toNat &&& K.XMP_CHANNEL_MUTE.toNat != 0 then 1 else 0)
  else 0

/-- everything `xmp_start_player` computes from the loaded module before it writes the player state -/
structure StartIn where
  ext : Field → Val
  len : Int
  ord : Nat
  speed : Int
  bpm : Int
  gvl : Int
  time : Int
  st26 : Int
  frameTime : Int
  numTracks : Int
  virtCh : Int
  maxvoc : Int
  mute : Val
  scan : Val

def startIn (X : Ext) (s : Ctx) : StartIn where
  ext := X.start (restrict StartReads s)
  len := startLen s
  ord := startOrd s
  -- update_from_ord_info
  speed := if s .m_xxo_info_speed (startOrd s) ≠ 0 then s .m_xxo_info_speed (startOrd s) else s .p_speed 0
  bpm := s .m_xxo_info_bpm (startOrd s)
  gvl := s .m_xxo_info_gvl (startOrd s)
  time := s .m_xxo_info_time (startOrd s)
  st26 := s .m_xxo_info_st26_speed (startOrd s)
  frameTime := X.frameTime (s .m_time_factor 0) (s .m_rrate 0) (s .m_xxo_info_bpm (startOrd s))
  -- libxmp_virt_on
  numTracks := s .m_mod_chn 0 + s .smix_chn 0
  virtCh := virtChannels s
  maxvoc := maxVoc s
  mute := muteOf s
  scan := s .p_scan

/-- the writes of `xmp_start_player` after `libxmp_mixer_on` and `libxmp_reset_flow` -/
def startWrite (a : StartIn) (base : Ctx) : Ctx
  | .p_master_vol | .p_smix_vol => cst 100
  | .p_pos | .p_row | .p_loop_count | .p_sequence | .p_filter => cst 0
  | .p_frame => cst (-1)
  | .p_ord => cst a.ord
  | .m_mod_len => cst a.len
  | .p_channel_mute => a.mute
  | .p_channel_vol => cst 100
  | .p_inject_event_note | .p_inject_event_ins | .p_inject_event_vol | .p_inject_event_fxt
  | .p_inject_event_fxp | .p_inject_event_f2t | .p_inject_event_f2p | .p_inject_event_flag => cst 0
  | .p_flow_num_rows => if a.len = 0 then cst 0 else cst (a.ext .p_flow_num_rows a.ord)
  | .p_flow_end_point => if a.len = 0 then cst 0 else cst (a.ext .p_flow_end_point 0)
  | .p_scan => if a.len = 0 then ptr (a.ext .p_scan 1) else a.scan
  | .p_speed => cst a.speed
  | .p_bpm => cst a.bpm
  | .p_gvol => cst a.gvl
  | .p_current_time => cst (a.time * 1000)
  | .p_frame_time => cst a.frameTime
  | .p_st26_speed => cst a.st26
  | .p_virt_num_tracks => cst a.numTracks
  | .p_virt_virt_channels => cst a.virtCh
  | .p_virt_maxvoc => cst a.maxvoc
  | .p_virt_virt_used => cst 0
  | .p_virt_voice_array => ptr (a.ext .p_virt_voice_array 1)
  | .p_virt_virt_channel => ptr (a.ext .p_virt_virt_channel 1)
  | .p_flow_loop => ptr (a.ext .p_flow_loop 1)
  | .p_xc_data => ptr (a.ext .p_xc_data 1)
  | .p_buffer_data_consumed | .p_buffer_data_in_size => cst 0
  | .state => cst K.XMP_STATE_PLAYING
  | f => base f

/-- `xmp_start_player` after `libxmp_mixer_on`: everything up to `ctx->state = XMP_STATE_PLAYING` -/
def startCore (X : Ext) (s : Ctx) : Ctx := startWrite (startIn X s) (resetFlow s)

/-- `xmp_start_player`, success path (rate accepted, allocations succeed), on a LOADED or PLAYING context -/
def startPlayer (X : Ext) (rate format : Int) (s0 : Ctx) : Ctx :=
  let s1 := if s0 .state 0 > K.XMP_STATE_LOADED then endPlayer s0 else s0
  startCore X (mixerOn X rate format s1)

/-! ## What a caller can observe of the reset -/

/-- Members that survive a reload but cannot influence anything a caller observes:
* `s.pbase` is never read or written (its only assignment is commented out in `libxmp_mixer_on`);
* `p.buffer_data.in_buffer` is read by `xmp_play_buffer` only while `consumed < in_size`, which
  `xmp_start_player` makes false; the next frame rewrites it first;
* `m.xxo_info[].start_row` is read only by the guard of its own assignment in `scan_module`. -/
def Dead : Field → Bool
  | .s_pbase | .p_buffer_data_in_buffer | .m_xxo_info_start_row => true
  | _ => false

/-- Array entries that are live after a load: `xxo_info[i]` for scanned orders, `seq_data[i]` for
existing sequences; everything else entirely. -/
def Live (s : Ctx) (f : Field) (i : Nat) : Bool :=
  match f with
  | .m_xxo_info_speed | .m_xxo_info_bpm | .m_xxo_info_gvl | .m_xxo_info_st26_speed => s .m_xxo_info_time i != -1
  | .m_seq_data_entry_point | .m_seq_data_duration => (i : Int) < s .m_num_sequences 0
  | f => !Dead f

/-- the part of a started context that playback and `xmp_get_frame_info` can depend on -/
def playerView (s : Ctx) : Field → Nat → Int := fun f i => if Live s f i then s f i else 0

/-! ## Field sets: what each step (re)writes, and the agreement sets of the proofs

They are part of the model (the driver prints them, the harness checks the real context images
against them): `B` is what must not change while a module is played. -/

/-- player resources that are NULL / 0 whenever the context is not playing -/
def IdleField : Field → Bool
  | .p_xc_data | .s_buffer | .p_virt_virt_channels | .p_virt_virt_used => true
  | _ => false

def PrologueWrites : Field → Bool
  | .m_mod_name | .m_mod_type | .m_mod_pat | .m_mod_trk | .m_mod_ins | .m_mod_smp | .m_mod_len | .m_mod_rst | .m_mod_gvl
  | .m_mod_chn | .m_mod_spd | .m_mod_bpm | .m_mod_xxp | .m_mod_xxt | .m_mod_xxi | .m_mod_xxs
  | .m_mod_xxc_pan | .m_mod_xxc_vol | .m_mod_xxc_flg | .m_mod_xxo | .m_rrate | .m_c4rate
  | .m_volbase | .m_gvol | .m_gvolbase | .m_mvol | .m_mvolbase | .m_vol_table | .m_quirk | .m_flow_mode
  | .m_read_event_type | .m_period_type | .m_compare_vblank | .m_comment | .m_scan_cnt | .m_midi | .m_extra
  | .m_time_factor => true
  | _ => false

def EpilogueWrites : Field → Bool
  | .p_pos | .p_ord | .p_row | .p_frame | .p_speed | .p_bpm | .p_gvol | .p_loop_count | .p_sequence
  | .p_current_time | .p_frame_time | .s_ticksize | .p_filter | .p_mode | .p_flags => true
  | _ => false

/-- rewritten completely by every scan -/
def ScanFull : Field → Bool
  | .m_scan_cnt | .p_scan | .p_sequence_control | .m_num_sequences | .m_xxo_info_time => true
  | _ => false

/-- written by the scan only at live indices -/
def PartialField : Field → Bool
  | .m_xxo_info_speed | .m_xxo_info_bpm | .m_xxo_info_gvl | .m_xxo_info_st26_speed
  | .m_seq_data_entry_point | .m_seq_data_duration => true
  | _ => false

def MixerWrites : Field → Bool
  | .s_buffer | .s_buf32 | .s_freq | .s_format | .s_amplify | .s_mix | .s_interp | .s_dsp
  | .s_dtright | .s_dtleft | .s_bidir_adjust | .s_ticksize => true
  | _ => false

/-- written by `xmp_start_player` after `libxmp_mixer_on` (including `libxmp_reset_flow`) -/
def StartWrites : Field → Bool
  | .p_master_vol | .p_smix_vol | .p_pos | .p_row | .p_loop_count | .p_sequence | .p_filter | .p_frame | .p_ord | .m_mod_len
  | .p_channel_mute | .p_channel_vol
  | .p_inject_event_note | .p_inject_event_ins | .p_inject_event_vol | .p_inject_event_fxt
  | .p_inject_event_fxp | .p_inject_event_f2t | .p_inject_event_f2p | .p_inject_event_flag
  | .p_flow_num_rows | .p_flow_end_point | .p_scan | .p_speed | .p_bpm | .p_gvol | .p_current_time | .p_frame_time
  | .p_st26_speed | .p_virt_num_tracks | .p_virt_virt_channels | .p_virt_maxvoc | .p_virt_virt_used
  | .p_virt_voice_array | .p_virt_virt_channel | .p_flow_loop | .p_xc_data
  | .p_buffer_data_consumed | .p_buffer_data_in_size | .state
  | .p_flow_jumpline | .p_flow_pbreak | .p_flow_loop_count | .p_flow_loop_active_num | .p_flow_delay
  | .p_flow_rowdelay | .p_flow_rowdelay_set
  | .p_flow_jump | .p_flow_loop_dest | .p_flow_loop_param | .p_flow_loop_start | .p_flow_jump_in_pat => true
  | _ => false

def A0 (f : Field) : Bool := Persistent f || IdleField f || f == .m_xtra
def A1 (f : Field) : Bool := A0 f || NameField f
def A2 (f : Field) : Bool := A1 f || PrologueWrites f
def A4 (f : Field) : Bool := A2 f || EpilogueWrites f
def A6 (f : Field) : Bool := A4 f || ScanFull f
/-- agreement after a load -/
def A7 (f : Field) : Bool := A6 f || f == .state
def A8 (f : Field) : Bool := A7 f || MixerWrites f

/-- what `xmp_start_player` needs from the state it starts on: the members it neither overwrites
nor lets `libxmp_mixer_on` overwrite, plus everything it reads -/
def B (f : Field) : Bool := (A7 f && !(StartWrites f || MixerWrites f)) || StartReads f
def B8 (f : Field) : Bool := B f || MixerWrites f

/-- Members a successful load gives a history-independent value whatever they held before (written
unconditionally by the wrappers, the prologue, the epilogue or the scan).  The harness *poisons*
every non-pointer member of this set on the reused context before the load (and `StartResets`
before `xmp_start_player`) and requires the image afterwards to equal the fresh context's:
reset completeness is thereby tested per member, independently of which modules a history played. -/
def LoadResets (f : Field) : Bool := NameField f || PrologueWrites f || EpilogueWrites f || ScanFull f

/-- Members `xmp_start_player` rewrites without reading them (so they may hold anything before) -/
def StartResets (f : Field) : Bool := (StartWrites f || MixerWrites f) && !StartReads f && f != .state


/-! ## Process-wide writable data: the two lazily filled tables -/

/-- one entry of the Vorbis CRC table: `crc32_init` (src/loaders/vorbis.c) computes
`s = i << 24; repeat 8: s = (s << 1) ^ (s >= 1<<31 ? POLY : 0)` in `uint32` -/
def crcShift (poly : Nat) (s : Nat) : Nat :=
  ((s <<< 1) % 2 ^ 32) ^^^ (if s ≥ 2 ^ 31 then poly else 0)

def iter (f : Nat → Nat) : Nat → Nat → Nat
  | 0, x => x
  | n + 1, x => iter f n (f x)

def crcEntry (poly : Nat) (i : Nat) : Nat :=
  iter (crcShift poly) 8 ((i <<< 24) % 2 ^ 32)

/-- `crc32_init`: writes all 256 entries unconditionally; nothing is read from the old table -/
def crcFill (poly : Nat) (_old : Nat → Nat) : Nat → Nat := fun i => if i < 256 then crcEntry poly i else _old i

/-- state of the table while a fill has stored the first `k` entries -/
def crcPartial (poly : Nat) (old : Nat → Nat) (k : Nat) : Nat → Nat :=
  fun i => if i < k ∧ i < 256 then crcEntry poly i else old i

/-- `format_list()` (src/format.c): fills `_farray` from the constant loader tables when slot 0 is
still NULL, otherwise leaves it alone.  `names` is the constant list it copies (non-empty). -/
def farrayFill (names : List String) (a : List (Option String)) : List (Option String) :=
  match a.head? with
  | some (some _) => a
  | _ => names.map some ++ [none]

end Xmp.Reset
