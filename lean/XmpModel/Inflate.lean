import XmpModel.Basic
/-!
# DEFLATE (RFC 1951) as decoded by `src/miniz_tinfl.c` (`libxmp_tinfl_decompress`) — model for C08 / C09

libxmp calls the decoder in two ways, both with `TINFL_FLAG_USING_NON_WRAPPING_OUTPUT_BUF` and without
`TINFL_FLAG_PARSE_ZLIB_HEADER`:
* `decrunch_gzip` → `tinfl_decompress_mem_to_heap(stream, len, &outlen, 0)` (whole stream in one input
  buffer, output buffer doubled on `TINFL_STATUS_HAS_MORE_OUTPUT`; success = `TINFL_STATUS_DONE`; bytes
  behind the final block are ignored);
* `mz_zip_reader_extract_to_mem_no_alloc1` → the member's bytes in ≤ 64 KiB pieces with
  `TINFL_FLAG_HAS_MORE_INPUT` on all but the last, output buffer of exactly the declared size.
(`muse_load.c` additionally passes `TINFL_FLAG_PARSE_ZLIB_HEADER`: `inflateZlib` below.)

The coroutine plumbing (suspend/resume on input or output exhaustion, look-ahead in the 64-bit bit buffer and
its push-back) is not modelled: the model works on the *logical* bit stream (`toBits`, LSB first per byte) and
an absolute bit position `pos`.  What is mirrored, in tinfl's order of tests:
* block header (BFINAL, BTYPE), type 3 → `fail`;
* stored blocks: skip to the byte boundary, LEN / NLEN (all four bytes read before they are compared), copy;
* fixed tables (288 literal/length codes, 32 distance codes, i.e. including the symbols RFC 1951 calls unused);
* dynamic tables: HLIT/HDIST/HCLEN, the dezigzag order, the code-length code, repeat codes 16/17/18
  (`16` with no previous length → `fail`; run past HLIT+HDIST → `fail`); HLIT up to 288 and HDIST up to 32 are
  *accepted* (no 286/30 limit), a missing end-of-block code is accepted;
* tinfl's table builder: a set of code lengths is accepted iff it is complete (`total = 65536`, Kraft sum 1) or
  has at most one used symbol.  For a complete set the look-up table + tree decode the canonical Huffman code
  (`decLoop`, the counting decoder).  For a set with **no** used symbol every look-up hits a zero entry: symbol 0
  with code length 0 (`zeroEntry`; needs 15 bits of look-ahead, else the input is "truncated"); for a set with
  **one** used symbol of length `n` its code is `n` zero bits, a 1 among the first 10 bits hits a zero entry and
  a 1 at bit `k ≥ 10` leaves the tree at a zero node: symbol 0, `k+1` bits (`singleDec`);
* a zero-length literal/length code → `fail` (the `code_len_hack` of miniz #229); a zero-length *distance* or
  *code-length* code is taken (distance symbol 0, no bits consumed);
* length symbols 286/287 have base 0 (a match of length 0: the distance is still decoded and checked), distance
  symbols 30/31 have base 0 → distance 0 → `fail`; distance 0, beyond the output so far, or on empty output →
  `fail` (the NON_WRAPPING test);
* end of input: any read beyond the last bit is `trunc` (`TINFL_STATUS_FAILED_CANNOT_MAKE_PROGRESS`, which both
  callers treat as failure); after the final block the position is rounded up to a byte (`consumed`).

`Err.fuel` is never returned for the fuel `inflate` uses, and any larger fuel gives the same result
(`XmpProofs.InflateBound`).  The second half of the file holds the writers (`deflate` over stored / fixed / dynamic
blocks, the dynamic header either with a flat code-length code or with any code-length code and repeat codes) and the
executable precondition checker `blocksOkB` of the round-trip theorem (`XmpProps.C08Inflate`).
-/
namespace Xmp.Inflate
open Xmp

abbrev Bits := List Bool

inductive Err | fail | trunc | fuel
  deriving DecidableEq, Repr

/-! ## bit level -/

def bitOf (b : UInt8) (i : Nat) : Bool := b.toNat / 2 ^ i % 2 == 1

/-- bits of a byte, least significant first (the order `TINFL_GET_BITS` hands them out) -/
def byteBits (b : UInt8) : Bits :=
  [bitOf b 0, bitOf b 1, bitOf b 2, bitOf b 3, bitOf b 4, bitOf b 5, bitOf b 6, bitOf b 7]

def toBits (p : Bytes) : Bits := p.flatMap byteBits

/-- `TINFL_GET_BITS(n)`: value of the next `n` bits, first bit = least significant; `none` = input exhausted -/
def readBits : Nat → Bits → Option (Nat × Bits)
  | 0, bs => some (0, bs)
  | _ + 1, [] => none
  | n + 1, b :: bs =>
    match readBits n bs with
    | none => none
    | some (v, r) => some (b.toNat + 2 * v, r)

/-! ## Huffman tables as tinfl builds them -/

/-- `next_code[l]` of the table builder (`next_code[1] = 0`, `next_code[l+1] = (next_code[l] + total_syms[l]) << 1`);
    `firstCode lens 16` is its `total` -/
def firstCode (lens : List Nat) : Nat → Nat
  | 0 => 0
  | l + 1 => (firstCode lens l + (if l = 0 then 0 else lens.count l)) * 2

/-- index of the `r`-th symbol (in symbol order) whose code length is `l` -/
def nthLen : List Nat → Nat → Nat → Nat → Nat
  | [], _, _, i => i
  | x :: xs, l, r, i =>
    if x = l then (match r with | 0 => i | r' + 1 => nthLen xs l r' (i + 1)) else nthLen xs l r (i + 1)

/-- first used symbol and its length -/
def firstUsed : List Nat → Nat → Nat × Nat
  | [], _ => (0, 0)
  | x :: xs, i => if x ≠ 0 then (i, x) else firstUsed xs (i + 1)

structure Huff where
  lens : List Nat
  /-- `total_syms[1..15]` -/
  cnts : List Nat
  /-- `used_syms`: sum of `total_syms[1..15]` -/
  used : Nat
  single : Nat × Nat
  deriving Repr

def huffOf (lens : List Nat) : Huff :=
  let cnts := (List.range' 1 15).map (fun l => lens.count l)
  Huff.mk lens cnts cnts.sum (firstUsed lens 0)

/-- the table builder: `if ((65536 != total) && (used_syms > 1)) FAILED` -/
def mkHuff (lens : List Nat) : Option Huff :=
  if firstCode lens 16 ≠ 65536 ∧ (huffOf lens).used > 1 then none else some (huffOf lens)

/-- a zero look-up entry: symbol 0, zero bits; `TINFL_HUFF_BITBUF_FILL` keeps reading until 15 bits are there -/
def zeroEntry (bits : Bits) : Except Err (Nat × Nat × Bits) :=
  if (bits.drop 14).isEmpty then .error .trunc else .ok (0, 0, bits)

/-- table with one used symbol `s` of length `n` (code = `n` zero bits); arguments: bits still to match, bits
    matched, rest -/
def singleDec (s : Nat) (orig : Bits) : Nat → Nat → Bits → Except Err (Nat × Nat × Bits)
  | 0, k, cur => .ok (s, k, cur)
  | _ + 1, _, [] => .error .trunc
  | m + 1, k, b :: rest =>
    if b then (if k < 10 then zeroEntry orig else .ok (0, k + 1, rest))
    else singleDec s orig m (k + 1) rest

/-- complete table: canonical Huffman decoding, one bit at a time (`code` = bits so far, MSB first;
    `first` = first code of length `l`; `c` = number of codes of length `l`) -/
def decLoop (lens : List Nat) : List Nat → Nat → Nat → Nat → Bits → Except Err (Nat × Nat × Bits)
  | [], _, _, _, _ => .error .fail
  | _ :: _, _, _, _, [] => .error .trunc
  | c :: cs, l, code, first, b :: bs =>
    if code * 2 + b.toNat < first + c then .ok (nthLen lens l (code * 2 + b.toNat - first) 0, l, bs)
    else decLoop lens cs (l + 1) (code * 2 + b.toNat) ((first + c) * 2) bs

/-- `TINFL_HUFF_DECODE`: (symbol, code length, remaining bits) -/
def decodeSym (h : Huff) (bits : Bits) : Except Err (Nat × Nat × Bits) :=
  if h.used = 0 then zeroEntry bits
  else if h.used = 1 then singleDec h.single.1 bits h.single.2 0 bits
  else decLoop h.lens h.cnts 1 0 0 bits

/-! ## tables of the format -/

def lenBase : List Nat := [3, 4, 5, 6, 7, 8, 9, 10, 11, 13, 15, 17, 19, 23, 27, 31, 35, 43, 51, 59, 67, 83, 99, 115, 131, 163, 195, 227, 258, 0, 0]
def lenExtra : List Nat := [0, 0, 0, 0, 0, 0, 0, 0, 1, 1, 1, 1, 2, 2, 2, 2, 3, 3, 3, 3, 4, 4, 4, 4, 5, 5, 5, 5, 0, 0, 0]
def distBase : List Nat := [1, 2, 3, 4, 5, 7, 9, 13, 17, 25, 33, 49, 65, 97, 129, 193, 257, 385, 513, 769, 1025, 1537, 2049, 3073, 4097, 6145, 8193, 12289, 16385, 24577, 0, 0]
def distExtra : List Nat := [0, 0, 0, 0, 1, 1, 2, 2, 3, 3, 4, 4, 5, 5, 6, 6, 7, 7, 8, 8, 9, 9, 10, 10, 11, 11, 12, 12, 13, 13, 0, 0]
def dezigzag : List Nat := [16, 17, 18, 0, 8, 7, 9, 6, 10, 5, 11, 4, 12, 3, 13, 2, 14, 1, 15]

def fixedLitLens : List Nat := List.replicate 144 8 ++ List.replicate 112 9 ++ List.replicate 24 7 ++ List.replicate 8 8
def fixedDistLens : List Nat := List.replicate 32 5

/-! ## LZ77 copy -/

/-- `counter` bytes from `dist` back, byte by byte (overlap repeats) -/
def copyMatch (out : Array UInt8) (d : Nat) : Nat → Array UInt8
  | 0 => out
  | n + 1 => copyMatch (out.push (out.getD (out.size - d) 0)) d n

/-! ## the symbol loop of a compressed block -/

/-- state: remaining bits, absolute bit position, output -/
abbrev St := Bits × Nat × Array UInt8

/-- one iteration of the literal/length loop: `(true, st)` = go on, `(false, st)` = end-of-block symbol -/
def symStep (lit dist : Huff) (bits : Bits) (pos : Nat) (out : Array UInt8) : Except Err (Bool × St) :=
  match decodeSym lit bits with
  | .error e => .error e
  | .ok (sym, cl, b1) =>
    if cl = 0 then .error .fail
    else if sym < 256 then .ok (true, b1, pos + cl, out.push (UInt8.ofNat sym))
    else if sym = 256 then .ok (false, b1, pos + cl, out)
    else
      match readBits (lenExtra.getD (sym - 257) 0) b1 with
      | none => .error .trunc
      | some (le, b2) =>
        match decodeSym dist b2 with
        | .error e => .error e
        | .ok (ds, dl, b3) =>
          match readBits (distExtra.getD ds 0) b3 with
          | none => .error .trunc
          | some (de, b4) =>
            if distBase.getD ds 0 + de = 0 ∨ distBase.getD ds 0 + de > out.size then .error .fail
            else .ok (true, b4, pos + cl + lenExtra.getD (sym - 257) 0 + dl + distExtra.getD ds 0,
              copyMatch out (distBase.getD ds 0 + de) (lenBase.getD (sym - 257) 0 + le))

def symLoop (lit dist : Huff) : Nat → Bits → Nat → Array UInt8 → Except Err St
  | 0, _, _, _ => .error .fuel
  | f + 1, bits, pos, out =>
    match symStep lit dist bits pos out with
    | .error e => .error e
    | .ok (true, b, p, o) => symLoop lit dist f b p o
    | .ok (false, st) => .ok st

/-! ## stored blocks -/

def bitsByte (b0 b1 b2 b3 b4 b5 b6 b7 : Bool) : UInt8 :=
  UInt8.ofNat (b0.toNat + 2 * b1.toNat + 4 * b2.toNat + 8 * b3.toNat + 16 * b4.toNat + 32 * b5.toNat +
    64 * b6.toNat + 128 * b7.toNat)

/-- copy `n` whole bytes from the bit stream to the output -/
def copyStored : Nat → Bits → Array UInt8 → Option (Bits × Array UInt8)
  | 0, bs, out => some (bs, out)
  | n + 1, b0 :: b1 :: b2 :: b3 :: b4 :: b5 :: b6 :: b7 :: r, out =>
    copyStored n r (out.push (bitsByte b0 b1 b2 b3 b4 b5 b6 b7))
  | _ + 1, _, _ => none

def alignSkip (pos : Nat) : Nat := (8 - pos % 8) % 8

def storedBlock (bits : Bits) (pos : Nat) (out : Array UInt8) : Except Err St :=
  let k := alignSkip pos
  match readBits 16 (bits.drop k) with
  | none => .error .trunc
  | some (len, b1) =>
    match readBits 16 b1 with
    | none => .error .trunc
    | some (nlen, b2) =>
      if len ≠ 65535 - nlen then .error .fail
      else
        match copyStored len b2 out with
        | none => .error .trunc
        | some (b3, out') => .ok (b3, pos + k + 32 + 8 * len, out')

/-! ## dynamic block header -/

/-- HCLEN+4 three-bit lengths in dezigzag order -/
def readClLens : Nat → List Nat → Bits → List (Nat × Nat) → Option (List (Nat × Nat) × Bits)
  | 0, _, bs, acc => some (acc, bs)
  | _ + 1, [], bs, acc => some (acc, bs)
  | n + 1, z :: zs, bs, acc =>
    match readBits 3 bs with
    | none => none
    | some (v, r) => readClLens n zs r ((z, v) :: acc)

def clLensOf (pairs : List (Nat × Nat)) : List Nat :=
  (List.range 19).map (fun i => match pairs.find? (fun p => p.1 == i) with | some p => p.2 | none => 0)

/-- one code-length symbol: the new (reversed) length list -/
def lensStep (cl : Huff) (bits : Bits) (pos : Nat) (lens : List Nat) : Except Err (List Nat × Bits × Nat) :=
  match decodeSym cl bits with
  | .error e => .error e
  | .ok (sym, k, b1) =>
    if sym < 16 then .ok (sym :: lens, b1, pos + k)
    else if sym = 16 ∧ lens.length = 0 then .error .fail
    else
      let nx := if sym = 16 then 2 else if sym = 17 then 3 else 7
      match readBits nx b1 with
      | none => .error .trunc
      | some (s, b2) =>
        let rep := s + (if sym = 18 then 11 else 3)
        let v := if sym = 16 then lens.headD 0 else 0
        .ok (List.replicate rep v ++ lens, b2, pos + k + nx)

/-- the loop that decodes the HLIT+HDIST code lengths (`lens` is kept reversed) -/
def readLens (cl : Huff) (total : Nat) : Nat → Bits → Nat → List Nat → Except Err (List Nat × Bits × Nat)
  | 0, _, _, _ => .error .fuel
  | f + 1, bits, pos, lens =>
    if total ≤ lens.length then .ok (lens, bits, pos)
    else
      match lensStep cl bits pos lens with
      | .error e => .error e
      | .ok (lens', b, p) => readLens cl total f b p lens'

def readDynHeader (bits : Bits) (pos : Nat) : Except Err (Huff × Huff × Bits × Nat) :=
  match readBits 5 bits with
  | none => .error .trunc
  | some (hlit, b1) =>
    match readBits 5 b1 with
    | none => .error .trunc
    | some (hdist, b2) =>
      match readBits 4 b2 with
      | none => .error .trunc
      | some (hclen, b3) =>
        match readClLens (hclen + 4) dezigzag b3 [] with
        | none => .error .trunc
        | some (pairs, b4) =>
          match mkHuff (clLensOf pairs) with
          | none => .error .fail
          | some cl =>
            match readLens cl (hlit + 257 + hdist + 1) (hlit + 257 + hdist + 1 + 1) b4 (pos + 14 + 3 * (hclen + 4)) [] with
            | .error e => .error e
            | .ok (rl, b5, pos5) =>
              if rl.length ≠ hlit + 257 + hdist + 1 then .error .fail
              else
                let lens := rl.reverse
                match mkHuff ((lens.drop (hlit + 257)).take (hdist + 1)) with
                | none => .error .fail
                | some dh =>
                  match mkHuff (lens.take (hlit + 257)) with
                  | none => .error .fail
                  | some lh => .ok (lh, dh, b5, pos5)

/-! ## block loop -/

def fixedLit : Option Huff := mkHuff fixedLitLens
def fixedDist : Option Huff := mkHuff fixedDistLens

def blockBody (f : Nat) (btype : Nat) (bits : Bits) (pos : Nat) (out : Array UInt8) : Except Err St :=
  if btype = 0 then storedBlock bits pos out
  else if btype = 1 then
    match fixedLit, fixedDist with
    | some lh, some dh => symLoop lh dh f bits pos out
    | _, _ => .error .fail
  else if btype = 2 then
    match readDynHeader bits pos with
    | .error e => .error e
    | .ok (lh, dh, b1, pos1) => symLoop lh dh f b1 pos1 out
  else .error .fail

def blockLoop : Nat → Bits → Nat → Array UInt8 → Except Err St
  | 0, _, _, _ => .error .fuel
  | f + 1, bits, pos, out =>
    match readBits 3 bits with
    | none => .error .trunc
    | some (hdr, b1) =>
      match blockBody f (hdr / 2) b1 (pos + 3) out with
      | .error e => .error e
      | .ok (b2, pos2, out2) =>
        if hdr % 2 = 1 then .ok (b2, pos2, out2) else blockLoop f b2 pos2 out2

/-- `tinfl_decompress` on a raw deflate stream held completely in memory, non-wrapping output:
    `ok (output, bytes consumed)` = `TINFL_STATUS_DONE`; `error fail` = `TINFL_STATUS_FAILED`;
    `error trunc` = `TINFL_STATUS_FAILED_CANNOT_MAKE_PROGRESS` -/
def inflateE (input : Bytes) : Except Err (Bytes × Nat) :=
  match blockLoop (8 * input.length + 1) (toBits input) 0 #[] with
  | .error e => .error e
  | .ok (_, pos, out) => .ok (out.toList, (pos + 7) / 8)

def inflate (input : Bytes) : Option (Bytes × Nat) :=
  match inflateE input with
  | .ok r => some r
  | .error _ => none

/-- the decoder parameter of `Container.gunzip` / `Container.Env.inflate` -/
def inflateDec (input : Bytes) : Option Bytes := (inflate input).map (·.1)

/-- the decoder parameter of `Gates.zipExtract` (`inflate comp cap`): output buffer of `cap` bytes; more output
    ends the extraction with `TINFL_STATUS_HAS_MORE_OUTPUT`, which is not `DONE` -/
def inflateCap (input : Bytes) (cap : Nat) : Option Bytes :=
  match inflate input with
  | some (o, _) => if o.length ≤ cap then some o else none
  | none => none

/-! ## zlib wrapper (`TINFL_FLAG_PARSE_ZLIB_HEADER`, used by `muse_load.c`) -/

def adlerStep (s : Nat × Nat) (b : UInt8) : Nat × Nat :=
  ((s.1 + b.toNat) % 65521, (s.2 + (s.1 + b.toNat) % 65521) % 65521)

def adler32 (d : Bytes) : Nat :=
  let s := d.foldl adlerStep (1, 0)
  s.2 * 65536 + s.1

/-- two header bytes (CM = 8, FDICT clear, FCHECK; the window size is not checked with a non-wrapping output
    buffer), the deflate stream, four bytes Adler-32 big endian after the byte boundary -/
def inflateZlib (input : Bytes) : Except Err (Bytes × Nat) :=
  match input with
  | h0 :: h1 :: body =>
    if (h0.toNat * 256 + h1.toNat) % 31 ≠ 0 ∨ h1.toNat / 32 % 2 = 1 ∨ h0.toNat % 16 ≠ 8 then .error .fail
    else
      match inflateE body with
      | .error e => .error e
      | .ok (out, used) =>
        match body.drop used with
        | a0 :: a1 :: a2 :: a3 :: _ =>
          if a0.toNat * 16777216 + a1.toNat * 65536 + a2.toNat * 256 + a3.toNat = adler32 out then .ok (out, used + 6)
          else .error .fail
        | _ => .error .trunc
  | _ => .error .trunc

/-! ## encoders (writers for the round-trip theorems and for the correspondence) -/

/-- `n` bits of `v`, least significant first (header fields, extra bits) -/
def bitsLSB : Nat → Nat → Bits
  | 0, _ => []
  | n + 1, v => (v % 2 == 1) :: bitsLSB n (v / 2)

/-- `n` bits of `v`, most significant first (Huffman codes) -/
def bitsMSB : Nat → Nat → Bits
  | 0, _ => []
  | n + 1, v => (v / 2 ^ n % 2 == 1) :: bitsMSB n v

/-- pack bits into bytes, zero padding in the last byte -/
def fromBits : Bits → Bytes
  | [] => []
  | b0 :: b1 :: b2 :: b3 :: b4 :: b5 :: b6 :: b7 :: r => bitsByte b0 b1 b2 b3 b4 b5 b6 b7 :: fromBits r
  | b0 :: r => [bitsByte b0 (r.getD 0 false) (r.getD 1 false) (r.getD 2 false) (r.getD 3 false) (r.getD 4 false)
      (r.getD 5 false) false]

/-- canonical code of symbol `sym`: `next_code[len]` + number of earlier symbols of the same length -/
def codeOf (lens : List Nat) (sym : Nat) : Nat :=
  firstCode lens (lens.getD sym 0) + (lens.take sym).count (lens.getD sym 0)

def codeBits (lens : List Nat) (sym : Nat) : Bits := bitsMSB (lens.getD sym 0) (codeOf lens sym)

/-- LZ77 tokens -/
inductive Tok
  | lit (b : UInt8)
  | mat (len dist : Nat)
  deriving Repr, DecidableEq

/-- (index into `lenBase`, extra value) of a match length 3..258 -/
def lenCode (n : Nat) : Nat × Nat :=
  if n < 4 then (0, 0) else if n < 5 then (1, 0) else if n < 6 then (2, 0) else if n < 7 then (3, 0)
  else if n < 8 then (4, 0) else if n < 9 then (5, 0) else if n < 10 then (6, 0) else if n < 11 then (7, 0)
  else if n < 13 then (8, n - 11) else if n < 15 then (9, n - 13) else if n < 17 then (10, n - 15)
  else if n < 19 then (11, n - 17) else if n < 23 then (12, n - 19) else if n < 27 then (13, n - 23)
  else if n < 31 then (14, n - 27) else if n < 35 then (15, n - 31) else if n < 43 then (16, n - 35)
  else if n < 51 then (17, n - 43) else if n < 59 then (18, n - 51) else if n < 67 then (19, n - 59)
  else if n < 83 then (20, n - 67) else if n < 99 then (21, n - 83) else if n < 115 then (22, n - 99)
  else if n < 131 then (23, n - 115) else if n < 163 then (24, n - 131) else if n < 195 then (25, n - 163)
  else if n < 227 then (26, n - 195) else if n < 258 then (27, n - 227) else (28, 0)

/-- (distance symbol, extra value) of a distance 1..32768 -/
def distCode (d : Nat) : Nat × Nat :=
  if d < 2 then (0, 0) else if d < 3 then (1, 0) else if d < 4 then (2, 0) else if d < 5 then (3, 0)
  else if d < 7 then (4, d - 5) else if d < 9 then (5, d - 7) else if d < 13 then (6, d - 9)
  else if d < 17 then (7, d - 13) else if d < 25 then (8, d - 17) else if d < 33 then (9, d - 25)
  else if d < 49 then (10, d - 33) else if d < 65 then (11, d - 49) else if d < 97 then (12, d - 65)
  else if d < 129 then (13, d - 97) else if d < 193 then (14, d - 129) else if d < 257 then (15, d - 193)
  else if d < 385 then (16, d - 257) else if d < 513 then (17, d - 385) else if d < 769 then (18, d - 513)
  else if d < 1025 then (19, d - 769) else if d < 1537 then (20, d - 1025) else if d < 2049 then (21, d - 1537)
  else if d < 3073 then (22, d - 2049) else if d < 4097 then (23, d - 3073) else if d < 6145 then (24, d - 4097)
  else if d < 8193 then (25, d - 6145) else if d < 12289 then (26, d - 8193) else if d < 16385 then (27, d - 12289)
  else if d < 24577 then (28, d - 16385) else (29, d - 24577)

/-- one token with the literal/length code `ll` and the distance code `dl` (code length lists) -/
def encTok (ll dl : List Nat) : Tok → Bits
  | .lit b => codeBits ll b.toNat
  | .mat len dist =>
    codeBits ll (257 + (lenCode len).1) ++ bitsLSB (lenExtra.getD (lenCode len).1 0) (lenCode len).2 ++
    codeBits dl (distCode dist).1 ++ bitsLSB (distExtra.getD (distCode dist).1 0) (distCode dist).2

def encToks (ll dl : List Nat) (toks : List Tok) : Bits :=
  toks.flatMap (encTok ll dl) ++ codeBits ll 256

/-- what a token does to the output -/
def applyTok (out : Array UInt8) : Tok → Array UInt8
  | .lit b => out.push b
  | .mat len dist => copyMatch out dist len

def applyToks (out : Array UInt8) (toks : List Tok) : Array UInt8 := toks.foldl applyTok out

/-- code-length-code tokens of a dynamic header -/
inductive ClTok
  /-- symbols 0..15: one code length -/
  | len (l : Nat)
  /-- symbol 16: the previous length 3..6 more times -/
  | rep (n : Nat)
  /-- symbol 17 (3..10 zeros) or 18 (11..138 zeros) -/
  | zeros (n : Nat)
  deriving Repr, DecidableEq

def encClTok (cll : List Nat) : ClTok → Bits
  | .len l => codeBits cll l
  | .rep n => codeBits cll 16 ++ bitsLSB 2 (n - 3)
  | .zeros n => if n ≤ 10 then codeBits cll 17 ++ bitsLSB 3 (n - 3) else codeBits cll 18 ++ bitsLSB 7 (n - 11)

/-- effect of a token on the reversed list of code lengths -/
def applyClTok (acc : List Nat) : ClTok → List Nat
  | .len l => l :: acc
  | .rep n => List.replicate n (acc.headD 0) ++ acc
  | .zeros n => List.replicate n 0 ++ acc

/-- the code lengths a token list transmits -/
def clExpand (toks : List ClTok) : List Nat := (toks.foldl applyClTok []).reverse

/-- blocks of a deflate stream -/
inductive Block
  | stored (data : Bytes)
  | fixed (toks : List Tok)
  /-- dynamic block with literal/length code lengths `ll` (257..288 entries) and distance code lengths `dl`
      (1..32 entries); the lengths are transmitted one by one with a flat 4-bit code-length code -/
  | dyn (ll dl : List Nat) (toks : List Tok)
  /-- dynamic block with an arbitrary code-length code `cll` (19 lengths ≤ 7) and an arbitrary run-length coded
      transmission `cltoks` of the HLIT+HDIST lengths (repeat codes 16/17/18); the first `nlit` lengths are the
      literal/length code -/
  | dynG (cll : List Nat) (cltoks : List ClTok) (nlit : Nat) (toks : List Tok)
  deriving Repr

/-- the code-length code the dynamic writer uses: symbols 0..15 with 4 bits each, no repeat codes -/
def flatClLens : List Nat := List.replicate 16 4 ++ [0, 0, 0]

def encDynHeader (ll dl : List Nat) : Bits :=
  bitsLSB 5 (ll.length - 257) ++ bitsLSB 5 (dl.length - 1) ++ bitsLSB 4 15 ++
  dezigzag.flatMap (fun z => bitsLSB 3 (flatClLens.getD z 0)) ++
  (ll ++ dl).flatMap (fun l => codeBits flatClLens l)

def encDynHeaderG (cll : List Nat) (cltoks : List ClTok) (nlit : Nat) : Bits :=
  bitsLSB 5 (nlit - 257) ++ bitsLSB 5 ((clExpand cltoks).length - nlit - 1) ++ bitsLSB 4 15 ++
  dezigzag.flatMap (fun z => bitsLSB 3 (cll.getD z 0)) ++ cltoks.flatMap (encClTok cll)

/-- block body behind the three header bits, written at bit position `pos` -/
def encBody (pos : Nat) : Block → Bits
  | .stored d =>
    List.replicate (alignSkip pos) false ++ bitsLSB 16 d.length ++ bitsLSB 16 (65535 - d.length) ++ toBits d
  | .fixed toks => encToks fixedLitLens fixedDistLens toks
  | .dyn ll dl toks => encDynHeader ll dl ++ encToks ll dl toks
  | .dynG cll cltoks nlit toks =>
    encDynHeaderG cll cltoks nlit ++ encToks ((clExpand cltoks).take nlit) ((clExpand cltoks).drop nlit) toks

def Block.btype : Block → Nat
  | .stored _ => 0
  | .fixed _ => 1
  | .dyn _ _ _ => 2
  | .dynG _ _ _ _ => 2

def encBlock (pos : Nat) (final : Bool) (b : Block) : Bits :=
  [final] ++ bitsLSB 2 b.btype ++ encBody (pos + 3) b

/-- all blocks, the last one marked final -/
def encBlocks : Nat → List Block → Bits
  | _, [] => []
  | pos, [b] => encBlock pos true b
  | pos, b :: b' :: bs =>
    encBlock pos false b ++ encBlocks (pos + (encBlock pos false b).length) (b' :: bs)

def deflate (bs : List Block) : Bytes := fromBits (encBlocks 0 bs)

def applyBlock (out : Array UInt8) : Block → Array UInt8
  | .stored d => out ++ d.toArray
  | .fixed toks => applyToks out toks
  | .dyn _ _ toks => applyToks out toks
  | .dynG _ _ _ toks => applyToks out toks

/-- the bytes a block list stands for -/
def expand (bs : List Block) : Bytes := (bs.foldl applyBlock #[]).toList

/-! ## decidable versions of the encoders' preconditions (`XmpProofs.InflateStream`: `blocksOkB_sound`) -/

def tokSize : Tok → Nat
  | .lit _ => 1
  | .mat len _ => len

def symOkB (lens : List Nat) (s : Nat) : Bool := decide (s < lens.length) && lens.getD s 0 != 0

def codeOkB (lens : List Nat) : Bool := firstCode lens 16 == 65536 && lens.all (fun x => decide (x ≤ 15))

def tokOkB (ll dl : List Nat) (size : Nat) : Tok → Bool
  | .lit b => symOkB ll b.toNat
  | .mat len dist =>
    decide (3 ≤ len) && decide (len ≤ 258) && decide (1 ≤ dist) && decide (dist ≤ 32768) && decide (dist ≤ size) &&
      symOkB ll (257 + (lenCode len).1) && symOkB dl (distCode dist).1

def toksOkB (ll dl : List Nat) : Nat → List Tok → Bool
  | _, [] => true
  | size, t :: ts => tokOkB ll dl size t && toksOkB ll dl (size + tokSize t) ts

def clTokOkB (cll acc : List Nat) : ClTok → Bool
  | .len l => decide (l ≤ 15) && symOkB cll l
  | .rep n => decide (3 ≤ n) && decide (n ≤ 6) && !acc.isEmpty && symOkB cll 16
  | .zeros n => decide (3 ≤ n) && decide (n ≤ 138) && (if n ≤ 10 then symOkB cll 17 else symOkB cll 18)

def clToksOkB (cll : List Nat) : List Nat → List ClTok → Bool
  | _, [] => true
  | acc, t :: ts => clTokOkB cll acc t && clToksOkB cll (applyClTok acc t) ts

def blockOkB (size : Nat) : Block → Bool
  | .stored d => decide (d.length ≤ 65535)
  | .fixed toks => toksOkB fixedLitLens fixedDistLens size toks
  | .dyn ll dl toks =>
    decide (257 ≤ ll.length) && decide (ll.length ≤ 288) && decide (1 ≤ dl.length) && decide (dl.length ≤ 32) &&
      codeOkB ll && codeOkB dl && symOkB ll 256 && toksOkB ll dl size toks
  | .dynG cll cltoks nlit toks =>
    codeOkB cll && decide (cll.length = 19) && cll.all (fun x => decide (x ≤ 7)) && clToksOkB cll [] cltoks &&
      decide (257 ≤ nlit) && decide (nlit ≤ 288) && decide (nlit + 1 ≤ (clExpand cltoks).length) &&
      decide ((clExpand cltoks).length ≤ nlit + 32) &&
      codeOkB ((clExpand cltoks).take nlit) && codeOkB ((clExpand cltoks).drop nlit) &&
      symOkB ((clExpand cltoks).take nlit) 256 &&
      toksOkB ((clExpand cltoks).take nlit) ((clExpand cltoks).drop nlit) size toks

/-- all preconditions of the round-trip theorem for a block list, by evaluation -/
def blocksOkB (out : Array UInt8) : List Block → Bool
  | [] => true
  | b :: bs => blockOkB out.size b && blocksOkB (applyBlock out b) bs

def deflateStored (chunks : List Bytes) : Bytes := deflate (chunks.map .stored)
def deflateFixed (toks : List Tok) : Bytes := deflate [.fixed toks]

end Xmp.Inflate
