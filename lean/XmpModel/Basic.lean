/-! Shared basic definitions for all libxmp models (core Lean only). -/
namespace Xmp

abbrev Bytes := List UInt8

/-- C `MIN`. -/
def imin (a b : Int) : Int := if a < b then a else b
/-- C `MAX`. -/
def imax (a b : Int) : Int := if a > b then a else b
/-- C `CLAMP(x,lo,hi)` as in common.h: upper bound tested first. -/
def clamp (x lo hi : Int) : Int := if x > hi then hi else if x < lo then lo else x

end Xmp
