import XmpModel.Container
/-!
# ARC / Spark archives with sub-directories (writer side of the framing theorem for C08)

A sub-directory is an entry whose data is a nested archive: Spark: method 0x82 with RISC OS file type 0xDDC in the
load address, closed by an end-of-archive marker (`1a 80`); ARC 6: type 30, closed by an end-of-directory marker
(`1a 1f`).  `arc_read` (model: `arcReadFuel`) reads the nested entries as if they belonged to the parent and keeps
a directory level.  The writer works on a flat item list: files, directory headers, closing markers.
-/
namespace Xmp.Container
open Xmp Xmp.Gen.Depackers

/-- header bytes between the method byte and the data, with explicit size / CRC field values -/
def arcHdrTailG (m : ArcMember) (cs kv us : Nat) : Bytes :=
  (m.name ++ List.replicate (13 - m.name.length) 0) ++ (le32 cs ++ (le16 m.date ++ (le16 m.time ++
  (le16 kv ++ ((if m.method % 128 = arcUnpackedOld then [] else le32 us) ++
  (if m.method ≥ 128 then m.attrs else []))))))

/-- an entry header with explicit field values (directory entries: the fields describe the nested archive) -/
def arcHdrG (m : ArcMember) (cs kv us : Nat) : Bytes := 0x1a :: UInt8.ofNat m.method :: arcHdrTailG m cs kv us

inductive ArcItem where
  | file (m : ArcMember)
  | dopen (h : ArcMember) (cs kv : Nat)      -- directory header; cs / kv = size and CRC-16 of the nested archive
  | dclose (marker : UInt8)                   -- `1a marker`: 0x80 / 0x00 end of archive, 0x1f end of directory
  deriving Repr

def arcItemBytes (crc : Bytes → UInt16) : ArcItem → Bytes
  | .file m => arcEntryBytes crc m
  | .dopen h cs kv => arcHdrG h cs kv cs
  | .dclose k => [0x1a, k]

def arcItemsBytes (crc : Bytes → UInt16) (items : List ArcItem) : Bytes := items.flatMap (arcItemBytes crc)

/-- items up to and including the marker that closes the current directory -/
def arcTakeNested : List ArcItem → Nat → List ArcItem
  | [], _ => []
  | .file m :: r, d => .file m :: arcTakeNested r d
  | .dopen h c k :: r, d => .dopen h c k :: arcTakeNested r (d + 1)
  | .dclose k :: r, d => .dclose k :: (if d = 0 then [] else arcTakeNested r (d - 1))

/-- fill in the size / CRC fields of the directory headers from the nested archives that follow them -/
def arcRealize (crc : Bytes → UInt16) : List ArcItem → List ArcItem
  | [] => []
  | .dopen h _ _ :: r =>
    let r' := arcRealize crc r
    let nested := arcItemsBytes crc (arcTakeNested r' 0)
    .dopen h nested.length (crc nested).toNat :: r'
  | x :: r => x :: arcRealize crc r

def arcWrapItems (crc : Bytes → UInt16) (items : List ArcItem) (spark : Bool) : Bytes :=
  arcItemsBytes crc items ++ [0x1a, if spark then 0x80 else 0]

/-- directory level after the items (`none`: a closing marker without an open directory ends the archive) -/
def arcLevel : Nat → List ArcItem → Option Nat
  | l, [] => some l
  | l, .file _ :: r => arcLevel l r
  | l, .dopen _ _ _ :: r => arcLevel (l + 1) r
  | l, .dclose _ :: r => if l = 0 then none else arcLevel (l - 1) r

end Xmp.Container
