import XmpModel.Basic
import XmpModel.Gen.SampleConsts
/-!
# Model of `libxmp_load_sample` (src/loaders/sample.c)

Two *different* executable definitions live here:

* `Xmp.Sample.load` mirrors the C pass by pass: the truncation block with its
  bit operations, loop sanity, the read (`memcpy` / ADPCM / `hio_read`+`memset`),
  every `convert_*` helper as a state-carrying sequential loop over the
  destination buffer, the interleave copy, the full-repeat flag and the two
  guard-fill loops in their exact index order.
* `Xmp.Sample.Spec.load` is the closed-form, element-wise specification
  (every output byte is given by a formula over the stored bytes); it is the
  reference decoder the property C20 talks about.

`XmpProofs/Sample.lean` proves stage by stage that the loops compute the closed
forms; `XmpProps/C20.lean` holds the property-level theorems.

Memory model.  `xxs->data - 4` (the allocation of `bytelen + extralen + 4`
bytes) is a `Bytes` list: 4 bytes written by `*(uint32 *)xxs->data = 0`, then
the PCM region, then the end guard which the model *appends* byte by byte in
the order the C writes it (every guard byte is written before it is read).
`dest` (either `xxs->data` or the `tmp` buffer of planar stereo samples) is a
`Bytes` of length `bytelen`; the single byte the ADPCM decoder may write at
`dest[bytelen]` (odd `bytelen`, always inside the allocation and always
overwritten by the guard fill) is not represented.  Little-endian host only.
-/
namespace Xmp.Sample
open Gen

abbrev Flg := BitVec 32

/-- the four `struct xmp_sample` fields the function reads and writes -/
structure Hdr where
  len : Int
  lps : Int
  lpe : Int
  flg : Flg
deriving DecidableEq, Repr

/-- `flags & MASK` (loader flags, `int flags`) -/
def fl (flags mask : Nat) : Bool := flags &&& mask != 0
/-- `xxs->flg & MASK` -/
def sf (g : Flg) (mask : Nat) : Bool := g &&& BitVec.ofNat 32 mask != 0
/-- `xxs->flg &= ~MASK` -/
def clr (g : Flg) (mask : Nat) : Flg := g &&& ~~~ BitVec.ofNat 32 mask
/-- `xxs->flg |= MASK` -/
def setf (g : Flg) (mask : Nat) : Flg := g ||| BitVec.ofNat 32 mask

inductive Result where
  /-- `return 0` before anything is allocated: header untouched, `data` untouched -/
  | skipped (h : Hdr) (consumed : Nat)
  /-- `return 0` with `alloc = data[-4 .. bytelen+extralen)` -/
  | ok (h : Hdr) (alloc : Bytes) (consumed : Nat)
  /-- `return -1` (short ADPCM read; allocation failure is not modelled) -/
  | error
deriving DecidableEq, Repr

/-! ## The conversion helpers, loop by loop -/

/-- `for (; l--; p++) *p <<= 1;` -/
def convert7bit : Nat → Bytes → Bytes
  | l + 1, x :: p => (x <<< 1) :: convert7bit l p
  | _, p => p

/-- one `int8 vdic_table[x >> 1]` lookup with sign in bit 0, stored back as `uint8` -/
def vidcByte (x : UInt8) : UInt8 :=
  let amp : Int := vdicTable.getD (x >>> 1).toNat 0
  UInt8.ofNat ((if x &&& 1 != 0 then -amp else amp) % 256).toNat

/-- `convert_vidc_to_linear` -/
def convertVidc : Nat → Bytes → Bytes
  | l + 1, x :: p => vidcByte x :: convertVidc l p
  | _, p => p

/-- `adpcm4_decoder(inp, outp, tab, len)` after `len = (len + 1) / 2`; `char delta`
    wraps modulo 256 and is stored as `uint8`, so `UInt8` arithmetic is exact. -/
def adpcm4 : Nat → UInt8 → Bytes → Bytes → Bytes
  | n + 1, delta, tab, b :: inp =>
    let d1 := delta + tab.getD (b &&& 0x0f).toNat 0
    let d2 := d1 + tab.getD ((b >>> 4) &&& 0x0f).toNat 0
    d1 :: d2 :: adpcm4 n d2 tab inp
  | _, _, _, _ => []

/-- inner loop of the 8-bit branch of `convert_delta` (`uint16 absval`) -/
def delta8Chan : Nat → Nat → Bytes → Bytes
  | n + 1, absval, x :: p =>
    let a := (x.toNat + absval) % 65536
    UInt8.ofNat a :: delta8Chan n a p
  | _, _, p => p

/-- inner loop of the 16-bit branch of `convert_delta` (little-endian words) -/
def delta16Chan : Nat → Nat → Bytes → Bytes
  | n + 1, absval, lo :: hi :: p =>
    let a := (lo.toNat + 256 * hi.toNat + absval) % 65536
    UInt8.ofNat (a % 256) :: UInt8.ofNat (a / 256) :: delta16Chan n a p
  | _, _, p => p

/-- outer `for (chn = 0; chn < channels; chn++) { absval = 0; … }`; the pointer keeps advancing -/
def convertDelta (frames : Nat) (is16 : Bool) : Nat → Bytes → Bytes
  | 0, p => p
  | c + 1, p =>
    if is16 then delta16Chan frames 0 (p.take (2 * frames)) ++ convertDelta frames is16 c (p.drop (2 * frames))
    else delta8Chan frames 0 (p.take frames) ++ convertDelta frames is16 c (p.drop frames)

/-- `for (; l--; p++) *p += 0x80;` -/
def signal8 : Nat → Bytes → Bytes
  | l + 1, x :: p => (x + 0x80) :: signal8 l p
  | _, p => p

/-- `for (; l--; w++) *w += 0x8000;` -/
def signal16 : Nat → Bytes → Bytes
  | l + 1, lo :: hi :: p =>
    let w := (lo.toNat + 256 * hi.toNat + 0x8000) % 65536
    UInt8.ofNat (w % 256) :: UInt8.ofNat (w / 256) :: signal16 l p
  | _, p => p

def convertSignal (l : Nat) (is16 : Bool) (p : Bytes) : Bytes :=
  if is16 then signal16 l p else signal8 l p

/-- `convert_endian` -/
def convertEndian : Nat → Bytes → Bytes
  | l + 1, a :: b :: p => b :: a :: convertEndian l p
  | _, p => p

/-- 8-bit branch of `convert_stereo_interleaved` (`in_l`, `in_r = in_l + frames`) -/
def interleave8 : Nat → Bytes → Bytes → Bytes
  | n + 1, l :: ls, r :: rs => l :: r :: interleave8 n ls rs
  | _, _, _ => []

/-- 16-bit branch -/
def interleave16 : Nat → Bytes → Bytes → Bytes
  | n + 1, l0 :: l1 :: ls, r0 :: r1 :: rs => l0 :: l1 :: r0 :: r1 :: interleave16 n ls rs
  | _, _, _ => []

def stereoInterleave (frames : Nat) (is16 : Bool) (tmp : Bytes) : Bytes :=
  if is16 then interleave16 frames tmp (tmp.drop (2 * frames))
  else interleave8 frames tmp (tmp.drop frames)

/-- The conversion passes between the read and the interleave, in source order. -/
def convert (flags : Nat) (is16 : Bool) (len channels : Nat) (dest : Bytes) : Bytes :=
  let d := if fl flags SAMPLE_FLAG_7BIT then convert7bit (len * channels) dest else dest
  let d := if is16 && fl flags SAMPLE_FLAG_BIGEND then convertEndian (len * channels) d else d
  let d := if fl flags SAMPLE_FLAG_DIFF then convertDelta len is16 channels d
           else if fl flags SAMPLE_FLAG_8BDIFF then convertDelta (if is16 then len * 2 else len) false channels d
           else d
  let d := if fl flags SAMPLE_FLAG_UNS then convertSignal (len * channels) is16 d else d
  let d := if fl flags SAMPLE_FLAG_VIDC then convertVidc (len * channels) d else d
  d

/-- the loader flags in the order `load` applies the steps they control: early return, read source,
    the `convert` passes, interleave, full-repeat (compared with the generated `Gen.flagOrder` in
    XmpProps/C20.lean) -/
def modelFlagOrder : List String :=
  ["ADLIB", "NOLOAD", "ADPCM", "7BIT", "BIGEND", "DIFF", "8BDIFF", "UNS", "VIDC", "INTERLEAVED", "FULLREP"]

/-! ## Truncation block, loop sanity, read, guards -/

/-- `if (~flags & SAMPLE_FLAG_NOLOAD) { … }` for a non-NULL handle with `remaining = file_len - file_pos`.
    `none` = `return 0`; `some (bytelen, len)`. -/
def truncBlock (flags : Nat) (is16 stereo : Bool) (framelen bytelen : Nat) (len : Int) (remaining : Nat) :
    Option (Nat × Int) :=
  if remaining = 0 then none
  else
    let r : Option (Nat × Nat) :=
      if fl flags SAMPLE_FLAG_ADPCM then
        let bound := 16 + ((bytelen + 1) >>> 1)
        if remaining < 16 then none
        else if bound > remaining then some ((remaining - 16) <<< 1, bound - remaining)
        else some (bytelen, 0)
      else if bytelen > remaining then some (remaining, bytelen - remaining)
      else some (bytelen, 0)
    match r with
    | none => none
    | some (bytelen, over) =>
      if over ≠ 0 then
        let bytelen := bytelen - (bytelen &&& (framelen - 1))
        let l := bytelen
        let l := if is16 then l >>> 1 else l
        let l := if stereo then l >>> 1 else l
        some (bytelen, (l : Int))
      else some (bytelen, len)

/-- `truncated = 1`, set inside `if (over)`: the sample extends past the end of the stream
    (`over` is `bound - remaining` resp. `bytelen - remaining` when positive).  `bytelen` is the declared size. -/
def truncOver (flags : Nat) (bytelen remaining : Nat) : Bool :=
  if fl flags SAMPLE_FLAG_ADPCM then decide (16 + ((bytelen + 1) >>> 1) > remaining)
  else decide (bytelen > remaining)

/-- "Loop parameters sanity check" and the two bidirectional-flag fixes -/
def loopSanity (h : Hdr) : Hdr :=
  let h := if h.lps < 0 then { h with lps := 0 } else h
  let h := if h.lpe > h.len then { h with lpe := h.len } else h
  let h := if h.lps ≥ h.len ∨ h.lps ≥ h.lpe then
             { h with lps := 0, lpe := 0, flg := clr h.flg (XMP_SAMPLE_LOOP ||| XMP_SAMPLE_LOOP_BIDIR) }
           else h
  let h := if sf h.flg XMP_SAMPLE_LOOP_BIDIR then
             (if !sf h.flg XMP_SAMPLE_LOOP then { h with flg := clr h.flg XMP_SAMPLE_LOOP_BIDIR } else h)
           else h
  let h := if sf h.flg XMP_SAMPLE_SLOOP_BIDIR then
             (if !sf h.flg XMP_SAMPLE_SLOOP then { h with flg := clr h.flg XMP_SAMPLE_SLOOP_BIDIR } else h)
           else h
  h

/-- "Check for full loop samples" -/
def fullRep (flags : Nat) (h : Hdr) : Hdr :=
  if fl flags SAMPLE_FLAG_FULLREP then
    (if h.lps = 0 ∧ h.len > h.lpe then { h with flg := setf h.flg XMP_SAMPLE_LOOP_FULL } else h)
  else h

/-- The read into `dest`: `some (dest[0..bytelen), consumed)` or `none` for `goto err2`.
    `f` are the bytes `hio_size` promises from the current position on; `limit` is the number of bytes
    the back-end's read function really delivers before it comes back short (a failing callback / an
    I/O error; `limit ≥ f.length`: every promised byte arrives).  `hio_read(p, 1, n, f)` then stores
    and returns `min n (what is left of limit)` bytes. -/
def readDestS (flags : Nat) (bytelen : Nat) (f : Bytes) (limit : Nat) (buffer : Bytes) : Option (Bytes × Nat) :=
  if fl flags SAMPLE_FLAG_NOLOAD then
    some (buffer.take bytelen, 0)                       -- memcpy(dest, buffer, bytelen)
  else if fl flags SAMPLE_FLAG_ADPCM then
    let x2 := (bytelen + 1) >>> 1
    let table := f.take (min 16 limit)                   -- hio_read(table, 1, 16, f)
    if table.length ≠ 16 then none
    else
      let inp := (f.drop 16).take (min x2 (limit - 16))  -- hio_read(dest + x2, 1, x2, f)
      if inp.length ≠ x2 then none
      else some ((adpcm4 ((bytelen + 1) / 2) 0 table inp).take bytelen, 16 + x2)
  else
    let got := f.take (min bytelen limit)                -- x = hio_read(dest, 1, bytelen, f)
    some (got ++ List.replicate (bytelen - got.length) 0, got.length)   -- memset(dest + x, 0, bytelen - x)

/-- the read on a stream that delivers everything it promised -/
def readDest (flags : Nat) (bytelen : Nat) (f : Bytes) (buffer : Bytes) : Option (Bytes × Nat) :=
  readDestS flags bytelen f f.length buffer

/-- `for (i = 0; i < extralen; i++) data[bytelen + i] = data[bytelen - framelen + i];`
    on the allocation list (`a.length = 4 + bytelen + i`). -/
def guardEnd : Nat → Nat → Bytes → Bytes
  | 0, _, a => a
  | n + 1, framelen, a => guardEnd n framelen (a ++ [a.getD (a.length - framelen) 0])

/-- `for (i = -1; i >= -4; i--) data[i] = data[framelen + i];` (allocation index = 4 + i) -/
def guardStart (framelen : Nat) (a : Bytes) : Bytes :=
  let a := a.set 3 (a.getD (3 + framelen) 0)
  let a := a.set 2 (a.getD (2 + framelen) 0)
  let a := a.set 1 (a.getD (1 + framelen) 0)
  let a := a.set 0 (a.getD (0 + framelen) 0)
  a

def frameLen (is16 stereo : Bool) : Nat := (if is16 then 2 else 1) * (if stereo then 2 else 1)

/-- The part of `libxmp_load_sample` after the truncation block: loop sanity, allocation, read,
    conversions, interleave, full-repeat flag, guard fill.  `bytelen`/`len` are the values the
    truncation block left; `is16`/`stereo`/`framelen` were computed from `xxs->flg` before. -/
def loadCoreS (flags : Nat) (h : Hdr) (is16 stereo : Bool) (bytelen : Nat) (len : Int) (truncated : Bool) (f : Bytes)
    (limit : Nat) (buffer : Bytes) :
    Result :=
  let framelen := frameLen is16 stereo
  let channels := if stereo then 2 else 1
  let extralen := 4 * framelen
  let h := loopSanity { h with len := len }
  let planar := stereo && !fl flags SAMPLE_FLAG_INTERLEAVED
  match readDestS flags bytelen f limit buffer with
  | none => .error
  | some (dest, consumed) =>
    let n := h.len.toNat
    let dest := convert flags is16 n channels dest
    let pcm := if planar then stereoInterleave n is16 dest else dest
    let h := fullRep flags h
    let a := ([0, 0, 0, 0] : Bytes) ++ pcm
    let a := guardEnd extralen framelen a
    let a := guardStart framelen a
    -- `if (truncated) hio_seek(f, 0, SEEK_END);` (right after the read): a truncated sample owns the rest of the file
    .ok h a (if truncated then f.length else consumed)

def loadCore (flags : Nat) (h : Hdr) (is16 stereo : Bool) (bytelen : Nat) (len : Int) (f : Bytes) (buffer : Bytes) :
    Result := loadCoreS flags h is16 stereo bytelen len false f f.length buffer

/-- `libxmp_load_sample(m, f, flags, xxs, buffer)`.
    `skip` = `m && (m->smpctl & XMP_SMPCTL_SKIP)`; `f` = the bytes from the handle's current
    position to its end (`none`: NULL handle); `buffer` is only used with `SAMPLE_FLAG_NOLOAD`
    and must then hold at least `len * framelen` bytes (caller's obligation); `limit`: see `readDestS`
    (a read that comes back short although the size check passed). -/
def loadS (flags : Nat) (h : Hdr) (skip : Bool) (f : Option Bytes) (limit : Nat) (buffer : Bytes) : Result :=
  if fl flags SAMPLE_FLAG_ADLIB then .skipped h 0
  else if h.len ≤ 0 then .skipped h 0
  else if h.len > MAX_SAMPLE_SIZE ∨ skip then
    -- hio_seek(f, xxs->len, SEEK_CUR): the memory back-end clamps at the end of the data
    .skipped h (if fl flags SAMPLE_FLAG_NOLOAD then 0 else
      match f with
      | some av => min h.len.toNat av.length
      | none => 0)
  else
    let is16 := sf h.flg XMP_SAMPLE_16BIT
    let stereo := sf h.flg XMP_SAMPLE_STEREO
    let framelen := frameLen is16 stereo
    let bytelen := h.len.toNat * framelen
    let tr : Option (Nat × Int) :=
      if fl flags SAMPLE_FLAG_NOLOAD then some (bytelen, h.len)
      else match f with
        | none => none
        | some av => truncBlock flags is16 stereo framelen bytelen h.len av.length
    let truncated := !fl flags SAMPLE_FLAG_NOLOAD && truncOver flags bytelen (f.getD []).length
    match tr with
    -- NULL handle, nothing left, or fewer than the 16 bytes of an ADPCM table: in the last case the C seeks to the
    -- end of the stream first (`hio_seek(f, 0, SEEK_END)`), in the others it is there already / has no stream
    | none => .skipped h (f.getD []).length
    | some (bytelen, len) => loadCoreS flags h is16 stereo bytelen len truncated (f.getD []) limit buffer

/-- `libxmp_load_sample` on a stream that delivers every byte `hio_size` promised (memory and regular
    file handles) -/
def load (flags : Nat) (h : Hdr) (skip : Bool) (f : Option Bytes) (buffer : Bytes) : Result :=
  loadS flags h skip f (f.getD []).length buffer

/-- Every buffer access of the C function as `(buffer, lo, hi)` half-open byte ranges relative to
    the start of the buffer's allocation (`0` = `xxs->data - 4`, `1` = `tmp`), expressed in the
    model's quantities; used by `Sample.writes_in_bounds`. -/
def accesses (flags : Nat) (is16 stereo : Bool) (bytelen len : Nat) : List (Nat × Nat × Nat) :=
  let framelen := frameLen is16 stereo
  let channels := if stereo then 2 else 1
  let extralen := 4 * framelen
  let planar := stereo && !fl flags SAMPLE_FLAG_INTERLEAVED
  let b := if planar then 1 else 0
  let o := if planar then 0 else 4
  let x2 := (bytelen + 1) >>> 1
  [ (0, 0, 4) ] ++
  (if fl flags SAMPLE_FLAG_NOLOAD then [(b, o, o + bytelen)]
   else if fl flags SAMPLE_FLAG_ADPCM then [(b, o + x2, o + x2 + x2), (b, o, o + 2 * ((bytelen + 1) / 2))]
   else [(b, o, o + bytelen)]) ++
  (if fl flags SAMPLE_FLAG_7BIT then [(b, o, o + len * channels)] else []) ++
  (if is16 && fl flags SAMPLE_FLAG_BIGEND then [(b, o, o + 2 * (len * channels))] else []) ++
  (if fl flags SAMPLE_FLAG_DIFF then [(b, o, o + (if is16 then 2 else 1) * len * channels)]
   else if fl flags SAMPLE_FLAG_8BDIFF then [(b, o, o + (if is16 then len * 2 else len) * channels)] else []) ++
  (if fl flags SAMPLE_FLAG_UNS then [(b, o, o + (if is16 then 2 else 1) * (len * channels))] else []) ++
  (if fl flags SAMPLE_FLAG_VIDC then [(b, o, o + len * channels)] else []) ++
  (if planar then [(1, 0, (if is16 then 2 else 1) * 2 * len), (0, 4, 4 + (if is16 then 2 else 1) * 2 * len)] else []) ++
  [ (0, 4 + bytelen - framelen, 4 + bytelen + extralen), (0, 0, 4 + framelen) ]

/-- capacity of the two allocations: `malloc(bytelen + extralen + 4)` and `malloc(bytelen)` -/
def capacity (is16 stereo : Bool) (bytelen : Nat) : Nat → Nat
  | 0 => bytelen + 4 * frameLen is16 stereo + 4
  | _ => bytelen

/-! ## Closed-form specification -/
namespace Spec

/-- the list whose `i`-th element is `f i` -/
def build (n : Nat) (f : Nat → UInt8) : Bytes := (List.range n).map f

/-- `p[i]` (0 outside) -/
def nth (p : Bytes) (i : Nat) : UInt8 := p.getD i 0

/-- little-endian 16-bit word `k` of `p` -/
def word (p : Bytes) (k : Nat) : Nat := (nth p (2 * k)).toNat + 256 * (nth p (2 * k + 1)).toNat

/-- the first `cnt` bytes shifted left by one -/
def shl1 (cnt : Nat) (p : Bytes) : Bytes := build p.length fun i => if i < cnt then nth p i <<< 1 else nth p i

/-- the bytes of the first `cnt` 16-bit words exchanged -/
def bswap (cnt : Nat) (p : Bytes) : Bytes :=
  build p.length fun i => if i < 2 * cnt then (if i % 2 = 0 then nth p (i + 1) else nth p (i - 1)) else nth p i

/-- `g` applied to each of `channels` consecutive planes of `n` bytes, the rest unchanged -/
def planes (n : Nat) (g : Bytes → Bytes) : Nat → Bytes → Bytes
  | 0, p => p
  | c + 1, p => g (p.take n) ++ planes n g c (p.drop n)

/-- 8-bit delta decoding of one plane: `out[k] = (Σ_{j ≤ k} in[j]) mod 2^8` -/
def prefixSums8 (q : Bytes) : Bytes :=
  build q.length fun k => UInt8.ofNat (((List.range (k + 1)).map fun j => (nth q j).toNat).sum % 256)

/-- 16-bit delta decoding of one plane of little-endian words:
    `word_out[k] = (Σ_{j ≤ k} word_in[j]) mod 2^16` (an incomplete trailing word is left alone) -/
def prefixSums16 (q : Bytes) : Bytes :=
  build q.length fun i =>
    if i < 2 * (q.length / 2) then
      let w := ((List.range (i / 2 + 1)).map fun j => word q j).sum % 65536
      UInt8.ofNat (if i % 2 = 0 then w % 256 else w / 256)
    else nth q i

/-- 8-bit delta over `channels` consecutive planes of `frames` bytes -/
def delta8 (frames channels : Nat) (p : Bytes) : Bytes := planes frames prefixSums8 channels p

/-- 16-bit delta over `channels` consecutive planes of `frames` words -/
def delta16 (frames channels : Nat) (p : Bytes) : Bytes := planes (2 * frames) prefixSums16 channels p

/-- signed ↔ unsigned: the top bit of each of the first `cnt` samples is flipped -/
def unsign (cnt : Nat) (is16 : Bool) (p : Bytes) : Bytes :=
  build p.length fun i =>
    if is16 then (if i < 2 * cnt ∧ i % 2 = 1 then nth p i ^^^ 0x80 else nth p i)
    else (if i < cnt then nth p i ^^^ 0x80 else nth p i)

/-- The Acorn VIDC logarithmic amplitude law for the 7-bit magnitude `x >> 1` (values as published in
    "Audio File Formats" 2.5 and reproduced by libxmp's `vdic_table`).  This copy is deliberately
    independent of the regenerated `Gen.vdicTable`: the reference decoder must not follow an edit of the
    C table. -/
def vidcLaw : List Int := [
  0, 0, 0, 0, 0, 0, 0, 0, 0, 0, 0, 0, 0, 0, 0, 0,
  0, 0, 0, 0, 0, 0, 0, 0, 1, 1, 1, 1, 1, 1, 1, 1,
  1, 1, 1, 1, 2, 2, 2, 2, 2, 2, 2, 2, 3, 3, 3, 3,
  3, 3, 4, 4, 4, 4, 5, 5, 5, 5, 6, 6, 6, 6, 7, 7,
  7, 8, 8, 9, 9, 10, 10, 11, 11, 12, 12, 13, 13, 14, 14, 15,
  15, 16, 17, 18, 19, 20, 21, 22, 23, 24, 25, 26, 27, 28, 29, 30,
  31, 33, 34, 36, 38, 40, 42, 44, 46, 48, 50, 52, 54, 56, 58, 60,
  62, 65, 68, 72, 77, 80, 84, 91, 95, 98, 103, 109, 114, 120, 126, 127
]

/-- sign in bit 0, magnitude `vidcLaw[x / 2]`, as a two's-complement byte -/
def vidcLin (x : UInt8) : UInt8 :=
  let amp : Int := vidcLaw.getD (x.toNat / 2) 0
  UInt8.ofNat ((if x.toNat % 2 = 1 then -amp else amp) % 256).toNat

/-- VIDC logarithmic to linear on the first `cnt` bytes -/
def vidc (cnt : Nat) (p : Bytes) : Bytes := build p.length fun i => if i < cnt then vidcLin (nth p i) else nth p i

/-- planar → interleaved: `out[2i + c] = plane_c[i]` (samples of 1 or 2 bytes) -/
def interleave (frames : Nat) (is16 : Bool) (p : Bytes) : Bytes :=
  if is16 then build (4 * frames) fun i => nth p (2 * ((i / 2 % 2) * frames + i / 4) + i % 2)
  else build (2 * frames) fun i => nth p ((i % 2) * frames + i / 2)

/-- 4-bit ADPCM: nibble `k` is the low (even `k`) or high (odd `k`) half of byte `k/2`;
    `out[k] = (Σ_{j ≤ k} table[nibble j]) mod 2^8` -/
def adpcm (n : Nat) (tab inp : Bytes) : Bytes :=
  build n fun k =>
    UInt8.ofNat (((List.range (k + 1)).map fun j =>
      let b := nth inp (j / 2)
      (nth tab (if j % 2 = 0 then b.toNat % 16 else b.toNat / 16)).toNat).sum % 256)

/-- the per-sample conversions in the defined order (everything before the interleave) -/
def pre (flags : Nat) (is16 stereo : Bool) (len : Nat) (raw : Bytes) : Bytes :=
  let channels := if stereo then 2 else 1
  let cnt := len * channels
  let d := if fl flags SAMPLE_FLAG_7BIT then shl1 cnt raw else raw
  let d := if is16 && fl flags SAMPLE_FLAG_BIGEND then bswap cnt d else d
  let d := if fl flags SAMPLE_FLAG_DIFF then (if is16 then delta16 len channels d else delta8 len channels d)
           else if fl flags SAMPLE_FLAG_8BDIFF then delta8 (if is16 then len * 2 else len) channels d
           else d
  let d := if fl flags SAMPLE_FLAG_UNS then unsign cnt is16 d else d
  let d := if fl flags SAMPLE_FLAG_VIDC then vidc cnt d else d
  d

/-- the conversions in the defined order:
    `interleave? ∘ vidc? ∘ unsign? ∘ (delta | bytedelta)? ∘ bswap? ∘ shl1?` -/
def pcm (flags : Nat) (is16 stereo : Bool) (len : Nat) (raw : Bytes) : Bytes :=
  let d := pre flags is16 stereo len raw
  if stereo && !fl flags SAMPLE_FLAG_INTERLEAVED then interleave len is16 d else d

/-- number of PCM bytes actually present for a sample declared with `need` bytes when `remaining`
    bytes are left in the stream, rounded down to whole frames -/
def effBytes (adpcm : Bool) (framelen need remaining : Nat) : Nat :=
  (if adpcm then min need (2 * (remaining - 16)) else min need remaining) / framelen * framelen

/-- loop points clamped into `[0, len]`, loop dropped when empty or inverted -/
def loop (h : Hdr) : Hdr :=
  let s := max h.lps 0
  let e := min h.lpe h.len
  let h1 : Hdr := if s < e then { h with lps := s, lpe := e }
                  else { h with lps := 0, lpe := 0, flg := clr h.flg (XMP_SAMPLE_LOOP ||| XMP_SAMPLE_LOOP_BIDIR) }
  let g := h1.flg
  let g := if !sf g XMP_SAMPLE_LOOP then clr g XMP_SAMPLE_LOOP_BIDIR else g
  let g := if !sf g XMP_SAMPLE_SLOOP then clr g XMP_SAMPLE_SLOOP_BIDIR else g
  { h1 with flg := g }

/-- the whole allocation: 4 guard bytes replicating the first frame, PCM, 4 guard frames replicating
    the last frame; all guards 0 for an empty PCM region -/
def withGuards (framelen : Nat) (pcm : Bytes) : Bytes :=
  let n := pcm.length
  if n = 0 then List.replicate (4 + 4 * framelen) 0
  else build 4 (fun k => nth pcm ((k + 4 * framelen - 4) % framelen)) ++ pcm ++
       build (4 * framelen) (fun i => nth pcm (n - framelen + i % framelen))

/-- closed-form `libxmp_load_sample` -/
def load (flags : Nat) (h : Hdr) (skip : Bool) (f : Option Bytes) (buffer : Bytes) : Result :=
  let noload := fl flags SAMPLE_FLAG_NOLOAD
  let isAdpcm := fl flags SAMPLE_FLAG_ADPCM
  let avail := (f.getD []).length
  if fl flags SAMPLE_FLAG_ADLIB ∨ h.len ≤ 0 then .skipped h 0
  else if h.len > MAX_SAMPLE_SIZE ∨ skip then
    .skipped h (if noload ∨ f.isNone then 0 else min h.len.toNat avail)
  else if !noload ∧ (avail = 0 ∨ f.isNone ∨ (isAdpcm ∧ avail < 16)) then .skipped h avail
  else
    let is16 := sf h.flg XMP_SAMPLE_16BIT
    let stereo := sf h.flg XMP_SAMPLE_STEREO
    let framelen := frameLen is16 stereo
    let need := h.len.toNat * framelen
    let bytelen := if noload then need else effBytes isAdpcm framelen need avail
    let len := bytelen / framelen
    let raw : Bytes :=
      if noload then buffer.take bytelen
      else if isAdpcm then adpcm bytelen ((f.getD []).take 16) ((f.getD []).drop 16)
      else (f.getD []).take bytelen
    -- a sample cut short by the end of the stream consumes the rest of it (also the odd bytes of a last, partial frame)
    let consumed := if noload then 0 else if bytelen < need then avail else if isAdpcm then 16 + (bytelen + 1) / 2 else bytelen
    let h1 := loop { h with len := (len : Int) }
    let h2 := if fl flags SAMPLE_FLAG_FULLREP ∧ h1.lps = 0 ∧ h1.len > h1.lpe
              then { h1 with flg := setf h1.flg XMP_SAMPLE_LOOP_FULL } else h1
    .ok h2 (withGuards framelen (pcm flags is16 stereo len raw)) consumed

/-- the stored bytes of a plain (non-ADPCM) stream sample of `bytelen` bytes when the read delivered
    only `delivered` of them: **delivered bytes survive, the tail is zero** -/
def shortRaw (f : Bytes) (bytelen delivered : Nat) : Bytes :=
  build bytelen fun i => if i < delivered then nth f i else 0

/-- closed-form `libxmp_load_sample` on a stream whose reads deliver only `limit` bytes although
    `hio_size` promised `avail`: the header, `len'` and the loop are as for a complete read; a plain
    sample is decoded from the delivered bytes followed by zeros ("truncated to the data actually
    present"); an ADPCM sample whose table or packed data comes up short fails (`-1`, no PCM). -/
def loadS (flags : Nat) (h : Hdr) (skip : Bool) (f : Option Bytes) (limit : Nat) (buffer : Bytes) : Result :=
  let noload := fl flags SAMPLE_FLAG_NOLOAD
  let isAdpcm := fl flags SAMPLE_FLAG_ADPCM
  let avail := (f.getD []).length
  if fl flags SAMPLE_FLAG_ADLIB ∨ h.len ≤ 0 then .skipped h 0
  else if h.len > MAX_SAMPLE_SIZE ∨ skip then
    .skipped h (if noload ∨ f.isNone then 0 else min h.len.toNat avail)
  else if !noload ∧ (avail = 0 ∨ f.isNone ∨ (isAdpcm ∧ avail < 16)) then .skipped h avail
  else
    let is16 := sf h.flg XMP_SAMPLE_16BIT
    let stereo := sf h.flg XMP_SAMPLE_STEREO
    let framelen := frameLen is16 stereo
    let need := h.len.toNat * framelen
    let bytelen := if noload then need else effBytes isAdpcm framelen need avail
    let len := bytelen / framelen
    if !noload ∧ isAdpcm ∧ limit < 16 + (bytelen + 1) / 2 then .error
    else
      let delivered := min bytelen limit
      let raw : Bytes :=
        if noload then buffer.take bytelen
        else if isAdpcm then adpcm bytelen ((f.getD []).take 16) ((f.getD []).drop 16)
        else shortRaw (f.getD []) bytelen delivered
      let consumed := if noload then 0 else if bytelen < need then avail else if isAdpcm then 16 + (bytelen + 1) / 2 else delivered
      let h1 := loop { h with len := (len : Int) }
      let h2 := if fl flags SAMPLE_FLAG_FULLREP ∧ h1.lps = 0 ∧ h1.len > h1.lpe
                then { h1 with flg := setf h1.flg XMP_SAMPLE_LOOP_FULL } else h1
      .ok h2 (withGuards framelen (pcm flags is16 stereo len raw)) consumed

end Spec
end Xmp.Sample
