/-!
# Model of libxmp's position control (C17)

Mirrors, function by function, the C that exists in
* `src/control.c`: static `set_position`, `xmp_next_position`, `xmp_prev_position`,
  `xmp_set_position`, `xmp_set_row`, `xmp_stop_module`, `xmp_restart_module`, `xmp_seek_time`;
* `src/player.c`: the part of `xmp_play_frame` that runs before `read_row` (end checks, the
  reposition block, the tick/row advance), `next_order`, `next_row`, `update_from_ord_info`,
  `libxmp_reset_flow`, `check_end_of_module`, and the position fields of `xmp_get_frame_info`;
* `src/scan.c`: `libxmp_get_sequence` (a table lookup); the tables themselves
  (`sequence_control`, `seq_data[].entry_point`, `scan[].ord/row/num`, `xxo_info[]`) are *data*
  of the module description `CMod`, dumped from the real library by the harness.

C `int` is modelled by `Int` (no arithmetic here can overflow: all values are bounded by 256
or come from the module tables).  Array reads use `getI` (default for out-of-range indices; the
theorems only use in-range reads).  The two unbounded C loops (marker skipping in
`set_position`, the `do … while` of `next_order`) are fuelled and return `none` when the fuel
runs out (= the C would still be looping); sufficiency of the fuel is proved in XmpProofs/Control.
Not modelled: per-channel `f->loop[]`, `QUIRK_PERPAT` flag reset, `libxmp_virt_reset`,
`reset_channels`, everything from `read_row` on (effects), `current_time += frame_time`.
-/
namespace Xmp.Control

/-- `a[i]` with a default for indices outside the list. -/
def getI {α : Type} (l : List α) (i : Int) (d : α) : α :=
  if i < 0 then d else l.getD i.toNat d

/-- `struct ord_data` (the fields used by the player). -/
structure OrdInfo where
  speed : Int := 6
  bpm : Int := 125
  gvl : Int := 64
  time : Int := 0
  st26 : Int := 0
deriving Repr, DecidableEq, Inhabited

/-- per sequence: `seq_data[q].entry_point`, `scan[q].ord/row/num`. -/
structure SeqInfo where
  entry : Int := 0
  scanOrd : Int := 0
  scanRow : Int := 0
  scanNum : Int := 0
deriving Repr, DecidableEq, Inhabited

/-- What the control code reads of a loaded and scanned module. -/
structure CMod where
  len : Int
  pat : Int
  rst : Int := 0
  marker : Bool := false      -- QUIRK_MARKER
  protrack : Bool := false    -- QUIRK_PROTRACK
  lpReset : Bool := false     -- FLOW_LOOP_PATTERN_RESET
  numSeq : Int := 1
  xxo : List Int              -- order list (256 entries in C)
  rows : List Int             -- rows of each pattern
  ctl : List Int              -- sequence_control (256 entries, 0xff = none)
  seqs : List SeqInfo
  info : List OrdInfo
deriving Repr, Inhabited

def CMod.xxoAt (m : CMod) (i : Int) : Int := getI m.xxo i 0
def CMod.rowsOf (m : CMod) (p : Int) : Int := getI m.rows p 0
/-- `libxmp_get_sequence`. -/
def CMod.seqOf (m : CMod) (i : Int) : Int := getI m.ctl i 0xff
def CMod.seqAt (m : CMod) (q : Int) : SeqInfo := getI m.seqs q {}
def CMod.entry (m : CMod) (q : Int) : Int := (m.seqAt q).entry
def CMod.infoAt (m : CMod) (i : Int) : OrdInfo := getI m.info i {}

/-- `struct flow_control` without the per-channel loop array. -/
structure Flow where
  pbreak : Int := 0
  jump : Int := -1
  delay : Int := 0
  jumpline : Int := 0
  loopDest : Int := -1
  loopParam : Int := -1
  loopStart : Int := -1
  loopCount : Int := 0
  loopActiveNum : Int := 0
  jumpInPat : Int := -1
  numRows : Int := 0
  endPoint : Int := 0
  rowdelay : Int := 0
  rowdelaySet : Int := 0
deriving Repr, DecidableEq, Inhabited

/-- The sequencing part of `struct player_data` (+ `ctx->state ≥ XMP_STATE_PLAYING`).
`time` is the integer part assigned from `xxo_info[].time`. -/
structure St where
  playing : Bool := true
  ord : Int := 0
  pos : Int := 0
  row : Int := 0
  frame : Int := 0
  speed : Int := 6
  bpm : Int := 125
  gvol : Int := 64
  time : Int := 0
  loopCount : Int := 0
  sequence : Int := 0
  st26 : Int := 0
  f : Flow := {}
  flags : Int := 0      -- `p->flags`: player flags of the current module (XMP_PLAYER_CFLAGS)
deriving Repr, DecidableEq, Inhabited

def errInvalid : Int := -7   -- -XMP_ERROR_INVALID
def errState : Int := -8     -- -XMP_ERROR_STATE
def rcEnd : Int := -1        -- -XMP_END

/-- `libxmp_reset_flow`. -/
def resetFlow (f : Flow) : Flow :=
  { f with jumpline := 0, jump := -1, pbreak := 0, loopDest := -1, loopParam := -1,
           loopStart := -1, loopCount := 0, loopActiveNum := 0, delay := 0, rowdelay := 0,
           rowdelaySet := 0, jumpInPat := -1 }

/-- The marker-skipping `while` of `set_position` (control.c). `none` = fuel exhausted. -/
def skipMarkers (m : CMod) (dir start : Int) : Nat → Int → Option Int
  | 0, _ => none
  | fuel + 1, pos =>
    if m.marker = true ∧ m.xxoAt pos = 0xfe then
      if dir < 0 then
        if pos > start then skipMarkers m dir start fuel (pos - 1) else some pos
      else
        if pos + 1 ≥ m.len then some (pos + 1) else skipMarkers m dir start fuel (pos + 1)
    else some pos

def skipFuel (m : CMod) : Nat := m.len.toNat + 1

/-- the second `while` of `set_position` (only for `dir > 0`): pass over orders without a
pattern that are not the end marker.  `pos` only grows and stops at `len`, so the fuel
`len - pos` suffices (`skipInvalid_exit` in XmpProofs/Control). -/
def skipInvalid (m : CMod) : Nat → Int → Int
  | 0, pos => pos
  | fuel + 1, pos =>
    if pos < m.len ∧ m.xxoAt pos ≥ m.pat ∧ ¬(m.marker = true ∧ m.xxoAt pos = 0xff) then
      skipInvalid m fuel (pos + 1)
    else pos

/-- tail of `set_position`: `if (pos < mod->len) { p->pos = …; libxmp_reset_flow(ctx); }`. -/
def setPositionFin (m : CMod) (s2 : St) (pos2 : Int) : St :=
  if pos2 < m.len then
    { s2 with pos := (if pos2 = 0 then -1 else pos2), f := resetFlow s2.f }
  else s2

/-- `set_position` after the marker loop ended at `pos1` (`s1` already has `p->sequence = seq`). -/
def setPositionAt (m : CMod) (s1 : St) (seq dir pos1 : Int) : St :=
  let pos2 := if dir > 0 then skipInvalid m (skipFuel m) pos1 else pos1
  let pat := if pos2 < m.len then m.xxoAt pos2 else 0xff
  if dir ≠ 0 ∧ (pos2 ≥ m.len ∨ (m.marker = true ∧ pat = 0xff) ∨ m.seqOf pos2 ≠ seq) then s1
  else
    let sc := m.seqAt seq
    let s2 := { s1 with f := { s1.f with endPoint := (if pos2 > sc.scanOrd then 0 else sc.scanNum) } }
    if pat < m.pat then
      if m.marker = true ∧ pat = 0xff then s2
      else if pos2 > sc.scanOrd then
        setPositionFin m { s2 with f := { s2.f with endPoint := 0 } } pos2
      else
        setPositionFin m { s2 with f := { s2.f with endPoint := sc.scanNum, jumpline := 0 } } pos2
    else setPositionFin m s2 pos2

/-- static `set_position(ctx, pos, dir)`; `none` = the marker loop ran out of fuel. -/
def setPosition (m : CMod) (s : St) (pos dir : Int) : Option St :=
  let seq := if dir = 0 then m.seqOf pos else s.sequence
  if seq = 0xff then some s
  else if seq < 0 then some s
  else
    let s1 := { s with sequence := seq }
    if 0 ≤ pos ∧ pos < m.len then
      (skipMarkers m dir (m.entry seq) (skipFuel m) pos).map (setPositionAt m s1 seq dir)
    else some (setPositionFin m s1 pos)

/-- `xmp_set_position`: return value and new state. -/
def xmpSetPosition (m : CMod) (s : St) (pos : Int) : Option (Int × St) :=
  if s.playing = false then some (errState, s)
  else if pos < 0 ∨ pos ≥ m.len then some (errInvalid, s)
  else (setPosition m s pos 0).map fun s' => (s'.pos, s')

/-- `xmp_next_position`. -/
def xmpNextPosition (m : CMod) (s : St) : Option (Int × St) :=
  if s.playing = false then some (errState, s)
  else if s.pos < m.len then (setPosition m s (s.pos + 1) 1).map fun s' => (s'.pos, s')
  else some (s.pos, s)

/-- `xmp_prev_position`. -/
def xmpPrevPosition (m : CMod) (s : St) : Option (Int × St) :=
  if s.playing = false then some (errState, s)
  else
    let e := m.entry s.sequence
    let r : Option St :=
      if s.pos = e then setPosition m s (-1) (-1)
      else if s.pos > e then setPosition m s (s.pos - 1) (-1)
      else some s
    r.map fun s' => ((if s'.pos < 0 then 0 else s'.pos), s')

/-- `xmp_set_row`. -/
def xmpSetRow (m : CMod) (s : St) (row : Int) : Int × St :=
  let pos0 := if s.pos < 0 ∨ s.pos ≥ m.len then 0 else s.pos
  let pattern := m.xxoAt pos0
  if s.playing = false then (errState, s)
  else if pattern ≥ m.pat ∨ row < 0 ∨ row ≥ m.rowsOf pattern then (errInvalid, s)
  else
    let pos1 := if s.pos < 0 then 0 else s.pos
    (row, { s with pos := pos1, ord := pos1, row := row, frame := -1,
                   f := { s.f with numRows := m.rowsOf (m.xxoAt pos1) } })

/-! ### xmp_set_player parameters that may re-run the scan

`libxmp_scan_sequences` itself is not modelled (its result is the module description dumped
after the call); what is modelled is *when* it runs and what the call does to the sequencing
state.  `newNumSeq` is `m->num_sequences` after the rescan (an input: result of the external
call). -/

def flagVblank : Int := 1          -- XMP_FLAGS_VBLANK
def modeMax : Int := 10            -- XMP_MODE_ITSMP

/-- result of a parameter call: return code, new state, did `libxmp_scan_sequences` run. -/
structure ParamRes where
  ret : Int
  st : St
  rescan : Bool
deriving Repr, DecidableEq

/-- `if (p->sequence >= m->num_sequences) p->sequence = 0;` -/
def clampSequence (s : St) (newNumSeq : Int) : St :=
  if s.sequence ≥ newNumSeq then { s with sequence := 0 } else s

/-- `xmp_set_player(XMP_PLAYER_FLAGS, v)`: sets the defaults for the next load only. -/
def xmpSetFlags (s : St) (_v : Int) : ParamRes :=
  if s.playing = false then ⟨errState, s, false⟩ else ⟨0, s, false⟩

/-- `xmp_set_player(XMP_PLAYER_CFLAGS, v)`: stores the flags of the current module and re-runs
the scan exactly when their VBLANK bit changes (the order times depend on the timing mode). -/
def xmpSetCflags (s : St) (v newNumSeq : Int) : ParamRes :=
  if s.playing = false then ⟨errState, s, false⟩
  else
    let s1 := { s with flags := v }
    if s.flags % 2 ≠ v % 2 then ⟨0, clampSequence s1 newNumSeq, true⟩ else ⟨0, s1, false⟩

/-- `xmp_set_player(XMP_PLAYER_MODE, v)`: a valid mode always re-runs the scan (`scanOk` = the
first rescan found something playable; otherwise the old mode is restored, the scan repeated and
the call refused); the sequencing state only has its sequence clamped. -/
def xmpSetMode (s : St) (v newNumSeq : Int) (scanOk : Bool) : ParamRes :=
  if s.playing = false then ⟨errState, s, false⟩
  else if 0 ≤ v ∧ v ≤ modeMax then
    ⟨(if scanOk then 0 else errInvalid), clampSequence s newNumSeq, true⟩
  else ⟨errInvalid, s, false⟩

/-- `xmp_stop_module`. -/
def xmpStop (s : St) : St := if s.playing = false then s else { s with pos := -2 }

/-- `xmp_restart_module`. -/
def xmpRestart (s : St) : St :=
  if s.playing = false then s else { s with loopCount := 0, pos := -1, f := resetFlow s.f }

/-- The `for (i = len-1; i >= 0; i--)` search of `xmp_seek_time`; `seekFind m q t n` looks at
orders `n-1, …, 0`. -/
def seekFind (m : CMod) (q t : Int) : Nat → Option Nat
  | 0 => none
  | k + 1 =>
    if m.xxoAt k < m.pat ∧ m.seqOf k = q ∧ (m.infoAt k).time ≤ t then some k
    else seekFind m q t k

/-- `xmp_seek_time`. -/
def xmpSeekTime (m : CMod) (s : St) (t : Int) : Option (Int × St) :=
  if s.playing = false then some (errState, s)
  else
    let r : Option St :=
      match seekFind m s.sequence t m.len.toNat with
      | some i => setPosition m s i 1
      | none => (xmpSetPosition m s 0).map Prod.snd
    r.map fun s' => ((if s'.pos < 0 then 0 else s'.pos), s')

/-! ## player.c: sequencing kernel -/

/-- one iteration of the `do … while` in `next_order`: new `ord`, `reset_gvol`. -/
def nextOrderStep (m : CMod) (seq ord : Int) (rg : Bool) : Int × Bool :=
  let ord1 := ord + 1
  let mark := m.marker = true ∧ ord1 < m.len ∧ m.xxoAt ord1 = 0xff
  if ord1 ≥ m.len ∨ mark then
    let e := m.entry seq
    if m.rst > m.len ∨ m.xxoAt m.rst ≥ m.pat ∨ ord1 < e then (e, true)
    else if m.seqOf m.rst = seq then (m.rst, true) else (e, true)
  else (ord1, rg)

/-- the `do … while (mod->xxo[p->ord] >= mod->pat)` loop; `none` = fuel exhausted. -/
def nextOrderLoop (m : CMod) (seq : Int) : Nat → Int → Bool → Option (Int × Bool)
  | 0, _, _ => none
  | fuel + 1, ord, rg =>
    let r := nextOrderStep m seq ord rg
    if m.xxoAt r.1 ≥ m.pat then nextOrderLoop m seq fuel r.1 r.2 else some r

def orderFuel : Nat := 600

/-- `next_order`. -/
def nextOrder (m : CMod) (s : St) : Option St :=
  (nextOrderLoop m s.sequence orderFuel s.ord false).map fun (ord, rg) =>
    let gvol := if rg then (m.infoAt ord).gvl else s.gvol
    let time := if s.f.jumpInPat ≠ ord then (m.infoAt ord).time else s.time
    let nr := m.rowsOf (m.xxoAt ord)
    let jl := if s.f.jumpline ≥ nr then 0 else s.f.jumpline
    let f1 := { s.f with numRows := nr, jumpline := 0, jumpInPat := -1 }
    let f2 := if m.lpReset then { f1 with loopStart := -1, loopCount := 0 } else f1
    { s with ord := ord, gvol := gvol, time := time, row := jl, pos := ord, frame := 0, f := f2 }

/-- `next_row`. -/
def nextRow (m : CMod) (s : St) : Option St :=
  let s0 := { s with frame := 0, f := { s.f with delay := 0, loopParam := -1 } }
  if s0.f.pbreak ≠ 0 then
    let s1 := { s0 with f := { s0.f with pbreak := 0 } }
    let s2 := if s1.f.jump ≠ -1 then
                { s1 with ord := s1.f.jump - 1, f := { s1.f with jump := -1 } } else s1
    nextOrder m s2
  else
    let s1 := if s0.f.rowdelay = 0 then
                { s0 with row := s0.row + 1, f := { s0.f with rowdelaySet := 0 } }
              else { s0 with f := { s0.f with rowdelay := s0.f.rowdelay - 1 } }
    let s2 := if s1.f.loopDest ≥ 0 then
                { s1 with row := s1.f.loopDest, f := { s1.f with loopDest := -1 } } else s1
    if s2.row ≥ s2.f.numRows then nextOrder m s2 else some s2

/-- `update_from_ord_info` (without `frame_time`). -/
def updateFromOrdInfo (m : CMod) (s : St) : St :=
  let o := m.infoAt s.ord
  { s with speed := (if o.speed ≠ 0 then o.speed else s.speed), bpm := o.bpm, gvol := o.gvl,
           time := o.time, st26 := o.st26 }

/-- `check_end_of_module`. -/
def checkEnd (m : CMod) (s : St) : St :=
  let sc := m.seqAt s.sequence
  if s.ord = sc.scanOrd ∧ s.row = sc.scanRow then
    if s.f.endPoint = 0 then
      { s with loopCount := s.loopCount + 1, f := { s.f with endPoint := sc.scanNum - 1 } }
    else { s with f := { s.f with endPoint := s.f.endPoint - 1 } }
  else s

/-- `while (p->ord < mod->len && mod->xxo[p->ord] >= mod->pat) p->ord++;` of
`xmp_start_player`; `ord` only grows up to `len`, fuel `len - ord` suffices
(`startSkip_exit` in XmpProofs/Control). -/
def startSkip (m : CMod) : Nat → Int → Int
  | 0, ord => ord
  | fuel + 1, ord =>
    if ord < m.len ∧ m.xxoAt ord ≥ m.pat then startSkip m fuel (ord + 1) else ord

/-- What a successful `xmp_start_player` establishes in the sequencing state (on a loaded or on
a playing context: the latter ends the player first, which does not touch these fields):
sequence 0, position 0 with the leading pattern-less orders skipped in `ord`, row 0, frame -1,
loop count 0, tempo data of that order, a reset flow state.  `speed` survives from the previous
run when the scan recorded speed 0.  Not modelled: the `mod->len = 0` mutation when no order
holds a pattern (a module that loaded has one), mixer/voice set-up, the error returns. -/
def xmpStartPlayer (m : CMod) (s : St) : St :=
  let ord := startSkip m (skipFuel m) 0
  let s1 : St := { s with playing := true, pos := 0, ord := ord, frame := -1, row := 0, time := 0,
                          loopCount := 0, sequence := 0 }
  let s2 : St :=
    if ord ≥ m.len ∨ m.len = 0 then
      { s1 with ord := 0, row := 0, f := { s1.f with endPoint := 0, numRows := 0 } }
    else
      { s1 with f := { s1.f with numRows := m.rowsOf (m.xxoAt ord), endPoint := (m.seqAt 0).scanNum } }
  let s3 := updateFromOrdInfo m s2
  { s3 with f := resetFlow s3.f }

/-- Result of the modelled part of `xmp_play_frame`: return code, the state right after the
reposition block (`mid`, only when a reposition was consumed) and the state when `read_row`
is about to run (after `check_end_of_module` if this is the first tick of a row). -/
structure FrameRes where
  rc : Int
  mid : Option St
  st : St
deriving Repr, DecidableEq

/-- The reposition block of `xmp_play_frame` (taken when `p->ord != p->pos`, `p->pos != -2`). -/
def reposition (m : CMod) (s : St) : Option St :=
  let sc := m.seqAt s.sequence
  let start := sc.entry
  let pos1 := if s.pos = -1 then start else s.pos
  let ep1 := if pos1 = start then sc.scanNum else s.f.endPoint
  let ep2 := if pos1 > sc.scanOrd then 0 else ep1
  let ord0 := pos1 - 1
  let ord1 := if ord0 < start then start - 1 else ord0
  let s1 := { s with pos := pos1, ord := ord1,
                     f := { s.f with endPoint := ep2, jumpline := 0, jump := -1 } }
  (nextOrder m s1).map (updateFromOrdInfo m)

/-- `xmp_play_frame` up to (not including) `read_row`. -/
def playFrame (m : CMod) (s : St) : Option FrameRes :=
  if s.playing = false then some ⟨errState, none, s⟩
  else if m.len ≤ 0 then some ⟨rcEnd, none, s⟩
  else if m.marker = true ∧ m.xxoAt s.ord = 0xff then some ⟨rcEnd, none, s⟩
  else if s.ord ≠ s.pos then
    if s.pos = -2 then some ⟨rcEnd, none, s⟩
    else (reposition m s).map fun s' =>
      ⟨0, some s', if s'.frame = 0 then checkEnd m s' else s'⟩
  else
    let s1 := { s with frame := s.frame + 1 }
    let r : Option St :=
      if s1.frame ≥ s1.speed * (1 + s1.f.delay) then
        if m.protrack = true ∧ s1.f.delay ≠ 0 ∧ s1.f.pbreak ≠ 0 then
          (nextRow m s1).bind fun s2 => nextRow m (checkEnd m s2)
        else nextRow m s1
      else some s1
    r.map fun s' => ⟨0, none, if s'.frame = 0 then checkEnd m s' else s'⟩

/-- position fields of `xmp_get_frame_info`. -/
structure FrameInfo where
  pos : Int
  pattern : Int
  row : Int
  numRows : Int
  frame : Int
  loopCount : Int
  sequence : Int
deriving Repr, DecidableEq

def frameInfo (m : CMod) (s : St) : FrameInfo :=
  let pos := if 0 ≤ s.pos ∧ s.pos < m.len then s.pos else 0
  let pattern := m.xxoAt pos
  { pos := pos, pattern := pattern, row := s.row,
    numRows := (if pattern < m.pat then m.rowsOf pattern else 0),
    frame := s.frame, loopCount := s.loopCount, sequence := s.sequence }

end Xmp.Control
