import XmpModel.Basic
import XmpModel.Gen.TestLoadConsts
/-!
# Model of format recognition: `test_module` / `load_module` and their wrappers (src/load.c)

What is modelled (C → Lean):

* `libxmp_copy_adjust` (loaders/common.c), `libxmp_adjust_string` (load_helpers.c),
  `libxmp_read_title` (loaders/common.c), `pw_read_title` (prowizard/prowiz.c): byte exact,
  at buffer level (`…Buf`, every byte of the destination) and at C-string level.
* `test_module` and `load_module` (load.c) over an ARBITRARY loader table: the same walk over
  the table in the same order with `hio_seek(h, 0, SEEK_SET)` before each probe, the
  `name`/`type` reset, the uninitialised local `buf[XMP_NAME_SIZE]`, the bounded copies,
  the ProWizard special case (second `pw_check` that writes `info` directly), and for
  loading: the loader call, the sanity checks, `libxmp_adjust_string(mod->name)`,
  `libxmp_prepare_scan`, `libxmp_scan_sequences`.
* the eight public wrappers (`xmp_test_module*`, `xmp_load_module*`): argument checks,
  open failures, the depack step (only where the C has it), closing of the handle with the
  `noclose` rule of hio.c.

External code is a parameter: every loader's `test`/`load`, `pw_check`, `libxmp_decrunch`.
-/
namespace Xmp.TestLoad

/-! ## constants (generated from the headers) -/

def nameSize : Nat := Gen.XMP_NAME_SIZE
def eFormat : Int := -(Gen.XMP_ERROR_FORMAT : Int)
def eLoad : Int := -(Gen.XMP_ERROR_LOAD : Int)
def eDepack : Int := -(Gen.XMP_ERROR_DEPACK : Int)
def eSystem : Int := -(Gen.XMP_ERROR_SYSTEM : Int)
def eInvalid : Int := -(Gen.XMP_ERROR_INVALID : Int)

/-! ## C strings -/

/-- `isprint(c) && c <= 127` in the "C" locale -/
def isPrint (c : UInt8) : Bool := decide (32 ≤ c.toNat ∧ c.toNat ≤ 126)

/-- the C string stored at the start of a buffer: bytes before the first NUL -/
def cstr : Bytes → Bytes
  | [] => []
  | c :: cs => if c = 0 then [] else c :: cstr cs

/-- a buffer holds a NUL within its bounds -/
def hasNul (b : Bytes) : Bool := b.any (· = 0)

/-- `while (*s && s[strlen(s)-1] == ' ') s[strlen(s)-1] = 0;` at string level -/
def trimR : Bytes → Bytes
  | [] => []
  | c :: cs =>
    let t := trimR cs
    if t.isEmpty ∧ c = 32 then [] else c :: t

def zeros (n : Nat) : Bytes := List.replicate n 0

/-- replacement used by `libxmp_copy_adjust` -/
def dotCh (c : UInt8) : UInt8 := if isPrint c then c else 46
/-- replacement used by `libxmp_adjust_string` -/
def spCh (c : UInt8) : UInt8 := if isPrint c then c else 32

/-- `strncpy(dst, src, n)`: exactly `n` bytes of `dst` are overwritten (copy, then zero padding). -/
def strncpyBuf (dst src : Bytes) (n : Nat) : Bytes :=
  let c := (cstr src).take n
  c ++ zeros (n - c.length) ++ dst.drop n

/-- `libxmp_copy_adjust(s, r, n)`, string level (the C string left at `s`) -/
def copyAdjust (r : Bytes) (n : Nat) : Bytes :=
  trimR ((cstr (r.take n)).map dotCh)

/-- `libxmp_copy_adjust(s, r, n)`, buffer level: the `n+1` bytes of `s` it defines -/
def copyAdjustBuf (r : Bytes) (n : Nat) : Bytes :=
  let t := copyAdjust r n
  t ++ zeros (n + 1 - t.length)

/-- `libxmp_adjust_string(s)`, string level -/
def adjustString (s : Bytes) : Bytes :=
  trimR ((cstr s).map spCh)

/-- `libxmp_adjust_string(s)`, buffer level: the whole array `b` that holds the string -/
def adjustStringBuf (b : Bytes) : Bytes :=
  let s := cstr b
  let t := adjustString b
  t ++ zeros (s.length - t.length) ++ b.drop s.length

/-- `pw_read_title(b, t, s)` with `t ≠ NULL`: `some src` for `b ≠ NULL`; what is written at `t` -/
def pwReadTitle (b : Option Bytes) (s : Nat) : Bytes :=
  match b with
  | none => [0]
  | some src => src.take (min s 20) ++ [0]

/-! ## streams -/

structure Stream where
  data : Bytes
  pos : Nat := 0
  deriving Repr, DecidableEq

/-- `hio_seek(h, 0, SEEK_SET)` -/
def Stream.rewind (s : Stream) : Stream := { s with pos := 0 }

/-- `hio_read(buf, 1, n, f)`: bytes delivered and the advanced stream -/
def Stream.read (s : Stream) (n : Nat) : Bytes × Stream :=
  let got := (s.data.drop s.pos).take n
  (got, { s with pos := s.pos + got.length })

/-- `libxmp_read_title(f, t, s)` with `t ≠ NULL`: `none` when nothing is written (`s < 0`),
otherwise the `s'+1` bytes written at `t` (`s' = min s 63`) and the advanced stream. -/
def readTitle (f : Stream) (s : Int) : Option Bytes × Stream :=
  if s < 0 then (none, f) else
  let s1 := if s ≥ (nameSize : Int) then nameSize - 1 else s.toNat
  let (got, f') := f.read s1
  -- memset(t, 0, s1 + 1); copy_adjust(t, buf, got.length) rewrites the first got.length+1 bytes
  let t := copyAdjustBuf (got ++ [0]) got.length
  (some (t ++ zeros (s1 + 1 - t.length)), f')

/-! ## the loader table -/

/-- result of `loader->test(h, t, 0)` -/
structure TestOut where
  /-- return value -/
  rc : Int
  /-- bytes stored at `t` (only meaningful when `t ≠ NULL`); `none`: `t` left untouched -/
  title : Option Bytes := none
  /-- the handle afterwards (the position moved) -/
  st : Stream

/-- result of `loader->loader(m, h, 0)` followed by the checks of `load_module` -/
structure LoadOut where
  /-- return value of the loader -/
  rc : Int
  /-- `mod->name` (array of `XMP_NAME_SIZE` bytes) as the loader leaves it -/
  name : Bytes
  /-- the sanity checks of `load_module` (channels, length, pan, volume, patterns, tracks) pass -/
  sane : Bool := true
  /-- return value of `libxmp_prepare_scan` -/
  prep : Int := 0
  /-- return value of `libxmp_scan_sequences` -/
  scan : Int := 0

structure Loader where
  /-- `format_loaders[i]->name` (C string contents) -/
  name : Bytes
  /-- `->test(h, t, 0)`; the flag says whether `t ≠ NULL` -/
  test : Stream → Bool → TestOut
  /-- `->loader(m, h, 0)` and what the rest of `load_module` observes of the result -/
  load : Stream → LoadOut

/-- "prowizard" (the bytes of the C string literal compared by `strcmp` in `test_module`) -/
def prowizardName : Bytes := [112, 114, 111, 119, 105, 122, 97, 114, 100]

/-- a successful `pw_check`: the matching `pw_formats[i]` -/
structure PwHit where
  /-- what the detector stored in the local `title[21]`; `none`: it never wrote it -/
  title : Option Bytes
  /-- `pw_formats[i]->name` -/
  fname : Bytes

/-- `xmp_test_info`: two arrays of `XMP_NAME_SIZE` bytes -/
structure Info where
  name : Bytes
  type : Bytes
  deriving Repr, DecidableEq

/-- `*p = 0` -/
def set0 : Bytes → Bytes
  | [] => []
  | _ :: t => 0 :: t

/-- store `w` at the start of buffer `b` (`b` keeps its length if `w` fits) -/
def overlay (w : Bytes) (b : Bytes) : Bytes := w ++ b.drop w.length

def overlayOpt (w : Option Bytes) (b : Bytes) : Bytes :=
  match w with
  | none => b
  | some w => overlay w b

/-- `strncpy(d, s, XMP_NAME_SIZE - 1); d[XMP_NAME_SIZE - 1] = '\0';` -/
def boundedCopy (d s : Bytes) : Bytes :=
  (strncpyBuf d s (nameSize - 1)).take (nameSize - 1) ++ [0] ++ d.drop nameSize

/-- the local `char title[21]` of `pw_check` before the detectors run: stack garbage unless
the (generated) source facts say it is initialised -/
def pwTitleInit (garbage : Bytes) : Bytes :=
  if Gen.pwTitleInitAll then zeros Gen.pwTitleBuf
  else if Gen.pwTitleInitFirst then set0 (garbage.take Gen.pwTitleBuf)
  else garbage.take Gen.pwTitleBuf

/-- what `pw_check(f, info)` does to `info` on a hit:
`memcpy(info->name, title, 21); strncpy(info->type, name, XMP_NAME_SIZE - 1);` -/
def pwFill (garbage : Bytes) (hit : Option PwHit) (i : Info) : Info :=
  match hit with
  | none => i
  | some h =>
    let title := overlayOpt h.title (pwTitleInit garbage)
    { name := overlay (title.take Gen.pwTitleCopy) i.name,
      type := strncpyBuf i.type h.fname (nameSize - 1) }

/-- Everything outside load.c that the two walks consult. -/
structure Env where
  loaders : List Loader
  /-- `pw_check` on a rewound handle -/
  pw : Stream → Option PwHit
  /-- initial contents of `buf[XMP_NAME_SIZE]` in `test_module` (uninitialised in C) -/
  bufGarbage : Bytes
  /-- initial contents of `title[21]` in `pw_check` (uninitialised in C) -/
  pwGarbage : Bytes

/-- the loop of `test_module`; `info = none` is `info == NULL` -/
def testWalk (e : Env) : List Loader → Stream → Bytes → Option Info → Int × Option Info × Stream
  | [], s, _, info => (eFormat, info, s)
  | l :: ls, s, buf, info =>
    let t := l.test s.rewind true
    -- `buf[0] = 0` before the probe, if the source has it (generated fact)
    let buf' := overlayOpt t.title (if Gen.testBufInit = 2 then set0 buf else buf)
    if t.rc = 0 then
      if l.name = prowizardName then
        -- hio_seek(h, 0, SEEK_SET); pw_test_format(h, buf, 0, info);  (result ignored)
        (0, info.map (pwFill e.pwGarbage (e.pw t.st.rewind)), t.st.rewind)
      else
        (0, info.map (fun i => { name := boundedCopy i.name buf', type := boundedCopy i.type l.name }), t.st)
    else testWalk e ls t.st buf' info

/-- `*info->name = 0; *info->type = 0;` -/
def resetInfo (info : Option Info) : Option Info :=
  info.map fun i => { name := set0 i.name, type := set0 i.type }

/-- `test_module(info, h)` -/
def testModule (e : Env) (s : Stream) (info : Option Info) : Int × Option Info × Stream :=
  testWalk e e.loaders s (if Gen.testBufInit = 1 then set0 e.bufGarbage else e.bufGarbage) (resetInfo info)

/-- what the recognition loop of `load_module` leaves: `test_result`, the selected loader
with the outcome of its `loader()` call (`load_result` and the module), the handle -/
def loadWalk : List Loader → Stream → Int → Int × Option (Loader × LoadOut) × Stream
  | [], s, tr => (tr, none, s)
  | l :: ls, s, _ =>
    let t := l.test s.rewind false
    if t.rc = 0 then (0, some (l, l.load t.st.rewind), t.st.rewind)
    else loadWalk ls t.st t.rc

/-- outcome of `load_module` -/
structure Loaded where
  rc : Int
  /-- a loader's `test` returned 0 and its `loader` was entered -/
  recognized : Bool
  /-- `mod->name` when the context ends in `XMP_STATE_LOADED` -/
  name : Option Bytes := none
  /-- name of the loader that took the module -/
  fmt : Option Bytes := none
  deriving Repr, DecidableEq

/-- `load_module(ctx, h)` -/
def loadModule (e : Env) (s : Stream) : Loaded :=
  match loadWalk e.loaders s (-1) with
  | (tr, sel, _) =>
    if tr < 0 then { rc := eFormat, recognized := false }
    else match sel with
      | none => { rc := eLoad, recognized := false }      -- load_result still −1
      | some (l, o) =>
        if o.rc < 0 then { rc := eLoad, recognized := true, fmt := some l.name }
        else if !o.sane then { rc := eLoad, recognized := true, fmt := some l.name }
        else if o.prep < 0 then { rc := o.prep, recognized := true, fmt := some l.name }
        else if o.scan < 0 then { rc := eLoad, recognized := true, fmt := some l.name }
        else { rc := 0, recognized := true, name := some (adjustStringBuf o.name), fmt := some l.name }

/-! ## the public wrappers -/

/-- `libxmp_decrunch(h, path, &temp)` -/
inductive Decr where
  /-- returns 0 and leaves the handle as it is -/
  | notPacked
  /-- returns 0 after `hio_reopen_mem`/`hio_reopen_file` with the unpacked data -/
  | depacked (data : Bytes)
  /-- returns < 0 -/
  | fail

/-- the operating-system side of one call: which `FILE`s got `fclose`d -/
structure World where
  closed : List Nat := []
  deriving Repr, DecidableEq

/-- the kind of `HIO_HANDLE` in use -/
inductive Handle where
  | file (id : Nat) (noclose : Bool)
  | mem
  | cb
  deriving Repr, DecidableEq

/-- `hio_close_internal` -/
def closeInternal (w : World) : Handle → World
  | .file id false => { w with closed := id :: w.closed }
  | _ => w

/-- `libxmp_decrunch` acting on handle and world: a successful depack closes the old handle
internally (`hio_reopen_*`) and continues on a handle the library owns. -/
def applyDecr (w : World) (h : Handle) (s : Stream) : Decr → Option (World × Handle × Stream)
  | .notPacked => some (w, h, s.rewind)
  | .depacked d => some (closeInternal w h, .mem, { data := d })
  | .fail => none

/-- how a wrapper is called -/
inductive Source where
  /-- `path`: `none` = no such file, `some (isDir, openOk, id, data)` -/
  | path (st : Option (Bool × Bool × Nat × Bytes))
  /-- `mem, size` -/
  | memory (data : Bytes) (size : Int)
  /-- caller's `FILE *`: id, data, whether `get_size` works -/
  | file (id : Nat) (data : Bytes) (sizeOk : Bool)
  /-- callbacks: `cbopen` accepts them (non-NULL priv/read/seek/tell, size ≥ 0), data -/
  | callbacks (ok : Bool) (data : Bytes)

/-- the common prefix of the test and load wrappers: open the handle.
`Except rc (handle, stream)` -/
def openSource : Source → Except Int (Handle × Stream)
  | .path none => .error eSystem
  | .path (some (isDir, openOk, id, data)) =>
    if isDir then .error eSystem else if !openOk then .error eSystem
    else .ok (.file id false, { data := data })
  | .memory data size =>
    if size ≤ 0 then .error eInvalid else .ok (.mem, { data := data.take size.toNat })
  | .file id data sizeOk => if sizeOk then .ok (.file id true, { data := data }) else .error eSystem
  | .callbacks ok data => if ok then .ok (.cb, { data := data }) else .error eSystem

/-- does the *test* wrapper for this source run `libxmp_decrunch`? (path and FILE) -/
def testDepacks : Source → Bool
  | .path _ => true
  | .file .. => true
  | _ => false

/-- does the *load* wrapper for this source run `libxmp_decrunch`? (path only) -/
def loadDepacks : Source → Bool
  | .path _ => true
  | _ => false

structure TestResult where
  rc : Int
  info : Option Info
  world : World
  deriving Repr, DecidableEq

/-- `xmp_test_module`, `xmp_test_module_from_memory`, `…_from_file`, `…_from_callbacks` -/
def xmpTest (e : Env) (decr : Stream → Decr) (src : Source) (info0 : Option Info) (w : World) : TestResult :=
  -- the wrappers empty the strings before anything can fail, if the source has it (generated fact)
  let info := if Gen.wrappersResetInfo then resetInfo info0 else info0
  match openSource src with
  | .error rc => { rc := rc, info := info, world := w }
  | .ok (h, s) =>
    let after := if testDepacks src then applyDecr w h s (decr s) else some (w, h, s)
    match after with
    | none => { rc := eDepack, info := info, world := closeInternal w h }
    | some (w1, h1, s1) =>
      let r := testModule e s1 info
      { rc := r.1, info := r.2.1, world := closeInternal w1 h1 }

structure LoadResult where
  rc : Int
  loaded : Option Loaded
  world : World
  deriving Repr, DecidableEq

/-- `xmp_load_module`, `xmp_load_module_from_memory`, `…_from_file`, `…_from_callbacks`
(the `dirname`/`basename` allocations of the path variant are assumed to succeed) -/
def xmpLoad (e : Env) (decr : Stream → Decr) (src : Source) (w : World) : LoadResult :=
  match openSource src with
  | .error rc => { rc := rc, loaded := none, world := w }
  | .ok (h, s) =>
    let after := if loadDepacks src then applyDecr w h s (decr s) else some (w, h, s)
    match after with
    | none => { rc := eDepack, loaded := none, world := closeInternal w h }
    | some (w1, h1, s1) =>
      let r := loadModule e s1
      { rc := r.rc, loaded := some r, world := closeInternal w1 h1 }

/-! ## the relation between a test title and a loaded title -/

/-- the class of characters the library may replace, or produce as a replacement -/
def canonCh (c : UInt8) : UInt8 := if isPrint c ∧ c ≠ 46 then c else 32

/-- Canonical form of a title: every unprintable byte and every replacement character
(`'.'` from `libxmp_copy_adjust`, `' '` from `libxmp_adjust_string`) becomes a space, trailing
spaces are dropped.  Two titles "match up to the library's replacement of unprintable
characters" when their canonical forms are equal. -/
def canon (s : Bytes) : Bytes := trimR ((cstr s).map canonCh)

def titleMatch (t l : Bytes) : Bool := canon t == canon l

/-- the string does not end in a blank (what both library normalisations guarantee) -/
def noTrailingSpace (s : Bytes) : Bool := trimR (cstr s) == cstr s

/-- The relation for titles that went through the library's normalisation on both sides (every
loader except ProWizard, whose detector reports the raw bytes): same canonical form, and
neither side keeps trailing blanks. -/
def titleMatchStrict (t l : Bytes) : Bool := titleMatch t l && noTrailingSpace t && noTrailingSpace l

end Xmp.TestLoad
