import XmpModel.Basic
import XmpModel.Gen.OpenSites
/-!
# PathSafe — which files and programs a load may touch (property C10)

Model of the C that decides *which path is handed to `fopen`/`opendir`/`execvp`*
while a module is tested or loaded:

* `copyName`            = `libxmp_copy_name_for_fopen`        (src/loaders/common.c)
* `strcasecmpEq`, `checkFilenameCase`
                        = `libxmp_check_filename_case`, dirent variant (common.c)
* `findInstrumentFile`  = `libxmp_find_instrument_file` + `libxmp_get_instrument_path`
* `getDirname`, `getBasename` = the statics of src/load.c
* `fltCompanions`, `mfpCompanions` = the `snprintf`ed companion names of
  flt_load.c / mfp_load.c (`dirname ++ basename ++ fixed suffix`)
* `decrunchDecision`    = the decision part of `libxmp_decrunch` (depackers/depacker.c)

Strings are `Bytes`; a *C string argument* is a raw buffer of which only the
bytes before the first NUL count (`cstr`).  The operating system is a
parameter: a directory is its `readdir` listing (`none` = `opendir` failed).
-/
namespace Xmp.PathSafe

/-! ## C string helpers -/

/-- the C string stored in a buffer: bytes before the first NUL -/
def cstr (b : Bytes) : Bytes := b.takeWhile (· != 0)

def cDot : UInt8 := 0x2e      -- '.'
def cSlash : UInt8 := 0x2f    -- '/'
def cBack : UInt8 := 0x5c     -- '\\'
def cColon : UInt8 := 0x3a    -- ':'
def cDash : UInt8 := 0x2d     -- '-'

/-- `strstr(s, "..") != NULL` -/
def hasDotDot : Bytes → Bool
  | [] => false
  | a :: rest => (a == cDot && rest.head? == some cDot) || hasDotDot rest

def isSep (c : UInt8) : Bool := c == cSlash || c == cBack

/-! ## `libxmp_copy_name_for_fopen` -/

/-- The `for (i = 0; i < n - 1; i++)` loop.  `fuel` = remaining iterations
(`n-1-i`), `first` = (`i == 0`), `conv` = `converted_colon`, the list is
`name + i` (no NUL inside: the caller passes `cstr name`).  `none` = `return -1`. -/
def copyLoop : Nat → Bool → Bool → Bytes → Option Bytes
  | 0, _, _, _ => some []
  | _ + 1, _, _, [] => some []                     -- `if (!t) break;`
  | k + 1, first, conv, t :: rest =>
    if t < 32 || t ≥ 0x7f then none
    else if !first && t == cColon && !conv then
      match rest.head? with                         -- t2 = name[i+1]
      | none => none                                -- `!t2`
      | some t2 =>
        if isSep t2 then none
        else (copyLoop k false true rest).map (cSlash :: ·)   -- dest[i] = '/'; continue
    else if t == cBack then (copyLoop k false conv rest).map (cSlash :: ·)
    else (copyLoop k false conv rest).map (t :: ·)

/-- the test in front of the loop -/
def rejectedUpFront (s : Bytes) : Bool :=
  s == [cDot] || hasDotDot s ||
  (match s.head? with
   | none => true                                   -- name[0] == '\0'
   | some c => c == cBack || c == cSlash || c == cColon)

/-- `libxmp_copy_name_for_fopen(dest, name, n)`: `none` = −1, `some d` = 0 with
`dest` holding the C string `d`.  (Non-Amiga build: a single `:` becomes `/`.) -/
def copyName (name : Bytes) (n : Nat) : Option Bytes :=
  let s := cstr name
  if rejectedUpFront s then none else copyLoop (n - 1) true false s

/-! ## `libxmp_check_filename_case` (dirent variant) -/

/-- `tolower` of the C locale -/
def lower (c : UInt8) : UInt8 := if 65 ≤ c && c ≤ 90 then c + 32 else c

/-- `strcasecmp(a, b) == 0` for two C strings without NUL -/
def strcasecmpEq (a b : Bytes) : Bool := a.map lower == b.map lower

/-- `readdir` loop: first entry equal to `name` ignoring case; the result is
copied with `snprintf(new_name, size, "%s", d_name)` and accepted iff it fits.
`listing = none`: `opendir` failed. -/
def checkFilenameCase (listing : Option (List Bytes)) (name : Bytes) (size : Nat) : Option Bytes :=
  match listing with
  | none => none
  | some es =>
    match es.find? (fun e => strcasecmpEq e name) with
    | none => none
    | some e => if e.length < size then some e else none

/-! ## `libxmp_find_instrument_file` -/

/-- a directory as the library sees it: the path string it was configured with
and what `opendir`/`readdir` on it (on `"."` when the string is empty) yields -/
structure Dir where
  path : Bytes
  listing : Option (List Bytes)

/-- size of the local `char name[256]` -/
def nameBufSize : Nat := 256

/-- an empty setting means the current directory: `""` is replaced by `"."`
(the listing of `""` already is the listing of `"."`) -/
def normIns (d : Dir) : Dir := if d.path.isEmpty then { d with path := [cDot] } else d

/-- `libxmp_get_instrument_path`: the context's setting wins over the environment -/
def instrumentPath (ctxPath envPath : Option Dir) : Option Dir :=
  match ctxPath with
  | some d => some (normIns d)
  | none => envPath.map normIns

/-- `libxmp_find_instrument_file(m, path_dest, path_dest_len, ins_name)`;
`none` = 0 (nothing to open), `some p` = 1 with `path_dest = p`.
A name found in the instrument path whose joined path does not fit is *not*
retried in the module directory (the C returns there). -/
def findInstrumentFile (insPath : Option Dir) (modDir : Option Dir) (destLen : Nat)
    (insName : Bytes) : Option Bytes :=
  let viaMod : Option Bytes :=
    match modDir with
    | none => none
    | some d =>
      match checkFilenameCase d.listing insName nameBufSize with
      | none => none
      | some e => let p := d.path ++ e; if p.length < destLen then some p else none
  match insPath with
  | none => viaMod
  | some d =>
    match checkFilenameCase d.listing insName nameBufSize with
    | none => viaMod
    | some e => let p := d.path ++ [cSlash] ++ e; if p.length < destLen then some p else none

/-- what the song-only loaders (MOD, STM, MED2/3, MED4) do with an instrument
name taken from the file: sanitise into a 32 byte buffer, look it up, open. -/
def externalSamplePath (insPath modDir : Option Dir) (destLen : Nat) (rawName : Bytes) : Option Bytes :=
  match copyName rawName 32 with
  | none => none
  | some s => findInstrumentFile insPath modDir destLen s

/-! ## `get_dirname` / `get_basename` (src/load.c) -/

/-- index one past the last `/`, 0 if there is none (`strrchr`) -/
def afterLastSlash : Bytes → Nat
  | [] => 0
  | c :: rest =>
    let r := afterLastSlash rest
    if r > 0 then r + 1 else if c == cSlash then 1 else 0

def getDirname (path : Bytes) : Bytes := path.take (afterLastSlash path)
def getBasename (path : Bytes) : Bytes := path.drop (afterLastSlash path)

/-! ## companion files of Startrekker (flt_load.c) and Magnetic Fields (mfp_load.c) -/

def fltSuffixes : List Bytes :=
  [[0x2e, 0x4e, 0x54], [0x2e, 0x6e, 0x74], [0x2e, 0x41, 0x53], [0x2e, 0x61, 0x73]]   -- .NT .nt .AS .as

/-- `char filename[1024]` of `flt_load` (generated from the declaration) -/
def fltBufSize : Nat := Gen.OpenSites.fltBufSize

/-- the names `flt_load` tries, in order, until one opens; nothing when the
module was not loaded from a path (`m->dirname`/`m->basename` NULL).
`snprintf(filename, 1024, "%s%s.NT", …)` silently truncates; whether the code
tests the length first is a generated fact (`fltLengthChecked`). -/
def fltCompanions (modulePath : Option Bytes) : List Bytes :=
  match modulePath with
  | none => []
  | some p =>
    if Gen.OpenSites.fltLengthChecked && !(p.length + 3 < fltBufSize) then []
    else fltSuffixes.map (fun sfx => (getDirname p ++ getBasename p ++ sfx).take (fltBufSize - 1))

def smp : Bytes := [0x73, 0x6d, 0x70]
def dotSet : Bytes := [0x2e, 0x73, 0x65, 0x74]

/-- `strrchr(s, '-')` as a prefix length: `some k` when `s[k]` is the last `-` -/
def lastDash : Bytes → Option Nat
  | [] => none
  | c :: rest =>
    match lastDash rest with
    | some k => some (k + 1)
    | none => if c == cDash then some 0 else none

/-- the names `mfp_load` tries: `smp.<rest>` next to the module, then – when
the base name holds a `-` – the same with everything from the last `-` of the
whole path replaced by `.set`. -/
def mfpCompanions (modulePath : Option Bytes) : List Bytes :=
  match modulePath with
  | none => []
  | some p =>
    let b := getBasename p
    if b.length < 5 || b[3]? != some cDot then []
    else
      let b' := smp ++ b.drop 3
      let first := getDirname p ++ b'
      let second :=
        if b'.contains cDash then
          match lastDash first with
          | some k =>
            -- `".set"` and its NUL must fit `smp_filename[XMP_MAXPATH]`, otherwise the name is left alone
            if k + 5 ≤ Gen.OpenSites.mfpBufSize then first.take k ++ dotSet else first
          | none => first
        else first
      [first, second]

/-! ## `libxmp_decrunch`: which program, if any, is started -/

inductive Decision where
  | notPacked                         -- return 0, handle untouched
  | internal                          -- a built-in depacker runs in-process
  | skippedExternal                   -- helper signature, but no file name: return 0
  | external (argv : List Bytes)      -- fork + execvp(argv[0], argv), no shell
  deriving Repr, DecidableEq

def ascii (s : String) : Bytes := s.toList.map (fun c => UInt8.ofNat c.toNat)

def sigMO3 : Bytes := ascii "MO3"
def sigRar : Bytes := ascii "Rar"

def unmo3Argv (filename : Bytes) : List Bytes :=
  [ascii "unmo3", ascii "-s", filename, ascii "STDOUT"]

def unrarArgv (filename : Bytes) : List Bytes :=
  [ascii "unrar", ascii "p", ascii "-inul", ascii "-xreadme", ascii "-x*.diz", ascii "-x*.nfo",
   ascii "-x*.txt", ascii "-x*.exe", ascii "-x*.com", filename]

/-- `b`: the bytes `hio_read(b, 1, 1024, h)` delivered; `builtin`: whether one of
`depacker_list[]`'s tests accepted the header (they are parameters here, modelled
for C08/C09); `filename`: the argument (`NULL` for FILE/memory/callback entry points). -/
def decrunchDecision (b : Bytes) (builtin : Bool) (filename : Option Bytes) : Decision :=
  if b.length < Gen.OpenSites.decrunchMinHeader then .notPacked   -- "minimum valid packed file size", generated from the source
  else if builtin then .internal
  else
    let cmd : Option (Bytes → List Bytes) :=
      if b.take 3 == sigMO3 then some unmo3Argv
      else if b.take 3 == sigRar then some unrarArgv
      else none
    match cmd with
    | none => .notPacked
    | some mk =>
      match filename with
      | none => .skippedExternal
      | some f => .external (mk f)

/-- entry points of the library that read a module -/
inductive Entry where
  | path (p : Bytes) | file | memory | callbacks
  deriving Repr, DecidableEq

/-- the `filename` argument `libxmp_decrunch` receives from each entry point
(src/load.c; memory and callback entry points do not call it at all, which is
the same as passing no name for the purpose of starting helpers). -/
def Entry.filename : Entry → Option Bytes
  | .path p => some p
  | _ => none

/-- the module path the loaders see (`m->dirname`/`m->basename` are set from it) -/
def Entry.modulePath : Entry → Option Bytes
  | .path p => some p
  | _ => none

/-! ## histories on one context: what `m->dirname` / `m->basename` hold (src/load.c)

The loaders take "`m->dirname != NULL`" as "loaded from a path".  The fields live in
the context and survive from one load attempt to the next unless somebody clears them. -/

/-- the part of `struct context_data` that matters here -/
structure LoadCtx where
  loaded : Bool := false              -- `ctx->state > XMP_STATE_UNLOADED`
  dir : Option Bytes := none          -- `m->dirname`
  base : Option Bytes := none         -- `m->basename`
  deriving Repr, DecidableEq

/-- how a load attempt ends -/
inductive Outcome where
  | refusedEarly     -- −XMP_ERROR_SYSTEM / −XMP_ERROR_INVALID before the context is touched (no such file, size ≤ 0 …)
  | depackError      -- −XMP_ERROR_DEPACK (path loads only; returns before the context is touched)
  | formatError      -- no format test matched
  | loadError        -- a loader ran and failed, or the module was rejected afterwards
  | ok
  deriving Repr, DecidableEq

/-- `xmp_release_module` -/
def releaseCtx (_ : LoadCtx) : LoadCtx := { loaded := false, dir := none, base := none }

/-- the fields as the format loaders see them during this attempt (`none`: no loader ran) and the context afterwards.
Mirrors `xmp_load_module` / `_from_memory` / `_from_file` / `_from_callbacks` + `load_module`. -/
def loadStep (c : LoadCtx) (e : Entry) (o : Outcome) : Option (Option Bytes × Option Bytes) × LoadCtx :=
  match o with
  | .refusedEarly => (none, c)
  | .depackError => (none, c)
  | _ =>
    let c1 := if c.loaded then releaseCtx c else c           -- `if (ctx->state > XMP_STATE_UNLOADED) xmp_release_module`
    let c2 : LoadCtx := { c1 with dir := e.modulePath.map getDirname, base := e.modulePath.map getBasename }
    let seen := (c2.dir, c2.base)
    match o with
    | .ok => (some seen, { c2 with loaded := true })
    | _ => (some seen, releaseCtx c2)                         -- every failure path of `load_module` releases

inductive HistOp where
  | load (e : Entry) (o : Outcome)
  | release
  | play                                -- xmp_start_player / xmp_play_frame: leaves the fields alone
  deriving Repr, DecidableEq

def histStep (c : LoadCtx) : HistOp → LoadCtx
  | .load e o => (loadStep c e o).2
  | .release => releaseCtx c
  | .play => c

def runHist (c : LoadCtx) (h : List HistOp) : LoadCtx := h.foldl histStep c

end Xmp.PathSafe
