import XmpModel.FmtXm
/-!
# C19 — Impulse Tracker (IT) codec, sample mode and instrument mode

* `It.write` : independent encoder from ITTECH.TXT: 192-byte header, offset tables, optional edit history and
  MIDI configuration blocks, 80-byte `IMPS` sample headers, packed patterns with the channel-mask / last-value
  compression (every choice of re-sending the mask byte, of using "same as last" bits, of redundant instrument
  fields), 8/16-bit signed or unsigned PCM, mono or stereo blocks, plain or IT 2.14 / 2.15 compressed
  (independent width-switching compressor).  *Sample mode* (header flag bit 2 clear): one instrument per sample;
  *instrument mode*: 554-byte `IMPI` headers in the new (cmwt ≥ 0x200) or old format with 120-entry key tables.
* `It.read` mirrors `it_test`/`it_load`/`load_it_sample`/`load_it_pattern`/`load_new_it_instrument`/
  `load_old_it_instrument` (src/loaders/it_load.c) and `itsex.c` (namespace `Sex`).  `none` = model silent
  (short file, ADPCM samples, undersized compressed samples, load error).
-/
namespace Xmp.Fmt.It
open Xmp.Fmt

def str := Mod.str

/-! ## cells -/

def NoteOk (n : Nat) : Prop := n = 0 ∨ (1 ≤ n ∧ n ≤ 120) ∨ n = KEY_OFF ∨ n = KEY_CUT ∨ n = KEY_FADE
instance (n : Nat) : Decidable (NoteOk n) := by unfold NoteOk; infer_instance

def CellOk (c : Cell) : Prop := NoteOk c.note ∧ c.ins < 256 ∧ c.vol ≤ 65
instance (c : Cell) : Decidable (CellOk c) := by unfold CellOk; infer_instance

/-- writer: note byte; `fade` picks one of the "note fade" codes 120..253 -/
def encNote (n : Nat) (fade : Nat) : UInt8 :=
  if n = KEY_OFF then 255 else if n = KEY_CUT then 254 else if n = KEY_FADE then u8 (120 + fade % 134)
  else u8 (n - 1)

/-- loader: `load_it_pattern` note translation -/
def decNote (b : UInt8) : Nat :=
  if b = 255 then KEY_OFF else if b = 254 then KEY_CUT else if b.toNat > 119 then KEY_FADE else b.toNat + 1

/-- `xlat_volfx`: only 0..64 is a volume (stored + 1), everything else is a volume-column effect -/
def decVol (b : Nat) : Nat := if b ≤ 0x40 then b + 1 else 0

/-! ### reader: `load_it_pattern` -/

/-- per-channel decoder memory: `mask[c]`, `lastevent[c]` (note translated, volume raw) -/
structure ChanSt where
  mask : Nat := 0
  note : Nat := 0
  ins : Nat := 0
  vol : Nat := 0
  deriving Repr, Inhabited, DecidableEq

structure Acc where
  bs : Bytes
  e : Cell
  cs : ChanSt
  brk : Bool := false

def fNote (a : Acc) : Acc :=
  if a.brk ∨ a.cs.mask % 2 = 0 then a else
  match a.bs with
  | [] => { a with brk := true }
  | b :: r => let n := decNote b; { a with bs := r, e := { a.e with note := n }, cs := { a.cs with note := n } }

def fIns (a : Acc) : Acc :=
  if a.brk ∨ a.cs.mask / 2 % 2 = 0 then a else
  match a.bs with
  | [] => { a with brk := true }
  | b :: r => { a with bs := r, e := { a.e with ins := b.toNat }, cs := { a.cs with ins := b.toNat } }

def fVol (a : Acc) : Acc :=
  if a.brk ∨ a.cs.mask / 4 % 2 = 0 then a else
  match a.bs with
  | [] => { a with brk := true }
  | b :: r => { a with bs := r, e := { a.e with vol := decVol b.toNat }, cs := { a.cs with vol := b.toNat } }

def fFx (a : Acc) : Acc :=
  if a.brk ∨ a.cs.mask / 8 % 2 = 0 then a else
  match a.bs with
  | _ :: _ :: r => { a with bs := r }
  | _ => { a with brk := true }

def fLast (a : Acc) : Acc :=
  if a.brk then a else
  let e := a.e
  let e := if a.cs.mask / 16 % 2 = 1 then { e with note := a.cs.note } else e
  let e := if a.cs.mask / 32 % 2 = 1 then { e with ins := a.cs.ins } else e
  let e := if a.cs.mask / 64 % 2 = 1 then { e with vol := decVol a.cs.vol } else e
  { a with e := e }

def emptyRow (chn : Nat) : List Cell := List.replicate chn {}

/-- the decoding loop over the pattern's `pat_len` data bytes; `n` = rows still to produce,
`row` = the row being filled; a `break` (data exhausted inside an entry) leaves the rest empty -/
def unpackGo (chn : Nat) : (fuel : Nat) → Bytes → (n : Nat) → List Cell → List ChanSt → List (List Cell)
  | 0, _, n, row, _ => if n = 0 then [] else row :: List.replicate (n - 1) (emptyRow chn)
  | _ + 1, _, 0, _, _ => []
  | _ + 1, [], n + 1, row, _ => row :: List.replicate n (emptyRow chn)
  | f + 1, b :: bs, n + 1, row, st =>
    if b = 0 then row :: unpackGo chn f bs n (emptyRow chn) st
    else
      let c := (b.toNat - 1) % 64
      let cs := st.getD c {}
      -- channel mask
      let a0 : Acc :=
        if b.toNat ≥ 0x80 then
          match bs with
          | [] => { bs := [], e := {}, cs := cs, brk := true }
          | m :: r => { bs := r, e := row.getD c {}, cs := { cs with mask := m.toNat } }
        else { bs := bs, e := row.getD c {}, cs := cs }
      let a := fLast (fFx (fVol (fIns (fNote a0))))
      let st' := modAt st c fun _ => a.cs
      let row' := if c < chn then modAt row c fun _ => a.e else row
      if a.brk then row' :: List.replicate n (emptyRow chn)
      else unpackGo chn f a.bs (n + 1) row' st'

def unpackData (chn rows : Nat) (d : Bytes) : List (List Cell) :=
  unpackGo chn (d.length + 1) d rows (emptyRow chn) (List.replicate 64 {})

/-- highest channel number touched by the pattern data (first pass of `it_load`) -/
def scanGo : (fuel : Nat) → Bytes → (n : Nat) → List Nat → Nat → Nat
  | 0, _, _, _, mx => mx
  | _ + 1, _, 0, _, mx => mx
  | _ + 1, [], _, _, mx => mx
  | f + 1, b :: bs, n + 1, masks, mx =>
    if b = 0 then scanGo f bs n masks mx
    else
      let c := (b.toNat - 1) % 64
      let mx := if c > mx then c else mx
      if b.toNat ≥ 0x80 then
        match bs with
        | [] => mx
        | m :: r =>
          let mk := m.toNat
          let skip := (if mk % 2 = 1 then 1 else 0) + (if mk / 2 % 2 = 1 then 1 else 0) +
                      (if mk / 4 % 2 = 1 then 1 else 0) + (if mk / 8 % 2 = 1 then 2 else 0)
          scanGo f (r.drop skip) (n + 1) (modAt masks c fun _ => mk) mx
      else
        let mk := masks.getD c 0
        let skip := (if mk % 2 = 1 then 1 else 0) + (if mk / 2 % 2 = 1 then 1 else 0) +
                    (if mk / 4 % 2 = 1 then 1 else 0) + (if mk / 8 % 2 = 1 then 2 else 0)
        scanGo f (bs.drop skip) (n + 1) masks mx

/-! ### writer: packed pattern data -/

/-- writer's per-channel memory: last mask sent, last explicit note/instrument/volume bytes -/
structure WSt where
  mask : Option Nat := none
  note : Option UInt8 := none
  ins : Option UInt8 := none
  vol : Option UInt8 := none
  deriving Repr, Inhabited

/-- per-cell writer choices: `useLast` bit k = use "same as last" for field k when possible;
`forceMask` = resend the mask byte although unchanged; `forceIns` = store an explicit instrument 0;
`fx` = `some (cmd, param)` stores an (opaque) effect; `fade` = note-fade code selector;
`marker` = emit the entry even when it has no field (used to declare the channel count) -/
structure CellOpt where
  useLast : Nat := 0
  forceMask : Bool := false
  forceIns : Bool := false
  fx : Option (UInt8 × UInt8) := none
  fade : Nat := 0
  marker : Bool := false

def encEntry (k : Nat) (c : Cell) (o : CellOpt) (w : WSt) : Bytes × WSt :=
  let nb := encNote c.note o.fade
  let ib := u8 c.ins
  let vb := u8 (c.vol - 1)
  let hasN := decide (c.note ≠ 0)
  let hasI := decide (c.ins ≠ 0) || o.forceIns
  let hasV := decide (c.vol ≠ 0)
  let lastN := hasN && decide (o.useLast % 2 = 1) && decide (w.note = some nb)
  let lastI := hasI && decide (o.useLast / 2 % 2 = 1) && decide (w.ins = some ib)
  let lastV := hasV && decide (o.useLast / 4 % 2 = 1) && decide (w.vol = some vb)
  let m := (if hasN then (if lastN then 0x10 else 1) else 0) + (if hasI then (if lastI then 0x20 else 2) else 0) +
           (if hasV then (if lastV then 0x40 else 4) else 0) + (if o.fx.isSome then 8 else 0)
  if m = 0 ∧ ¬ o.marker then ([], w)
  else
    let resend := decide (w.mask ≠ some m) || o.forceMask
    let hd : Bytes := if resend then [u8 (k + 1 + 0x80), u8 m] else [u8 (k + 1)]
    let body : Bytes :=
      (if hasN && !lastN then [nb] else []) ++ (if hasI && !lastI then [ib] else []) ++
      (if hasV && !lastV then [vb] else []) ++ (match o.fx with | some (a, b) => [a, b] | none => [])
    (hd ++ body,
     { mask := some m, note := if hasN && !lastN then some nb else w.note,
       ins := if hasI && !lastI then some ib else w.ins, vol := if hasV && !lastV then some vb else w.vol })

/-- one row: channels `k, k+1, …`; `i` = global cell index into the option stream -/
def encRowFrom (opt : Nat → CellOpt) : List Cell → Nat → Nat → List WSt → Bytes × List WSt
  | [], _, _, ws => ([], ws)
  | c :: cs, k, i, ws =>
    let (b, w') := encEntry k c (opt i) (ws.getD k {})
    let (rest, ws') := encRowFrom opt cs (k + 1) (i + 1) (modAt ws k fun _ => w')
    (b ++ rest, ws')

def encRows (chn : Nat) (opt : Nat → CellOpt) : (rows : Nat) → List Cell → Nat → List WSt → Bytes
  | 0, _, _, _ => []
  | n + 1, cells, i, ws =>
    let (b, ws') := encRowFrom opt (cells.take chn) 0 i ws
    b ++ [0] ++ encRows chn opt n (cells.drop chn) (i + chn) ws'

def pack (chn : Nat) (p : Pat) (opt : Nat → CellOpt) (i : Nat) : Bytes :=
  encRows chn opt p.rows p.cells i (List.replicate 64 {})

/-! ## IT 2.14 / 2.15 sample compression (src/loaders/itsex.c)

Bit streams are lists of bits, least significant bit of each byte first (`read_bits`). -/
namespace Sex

def byteBits (b : UInt8) : List Bool := (List.range 8).map fun k => decide (b.toNat / 2 ^ k % 2 = 1)
def toBits (bs : Bytes) : List Bool := bs.flatMap byteBits

def bitsVal : List Bool → Nat
  | [] => 0
  | b :: r => (if b then 1 else 0) + 2 * bitsVal r

/-- `n` bits of `v`, least significant first -/
def valBits (n v : Nat) : List Bool := (List.range n).map fun k => decide (v / 2 ^ k % 2 = 1)

/-- `read_bits(in, n)`; `none` = error (invalid width, or the block's bits run out) -/
def readBits (n : Nat) (s : List Bool) : Option (Nat × List Bool) :=
  if n = 0 ∨ n ≥ 32 then none
  else
    let t := s.take n
    if t.length < n then none else some (bitsVal t, s.drop n)

/-- pack bits into `n` bytes, zero padded -/
def packBits : Nat → List Bool → Bytes
  | 0, _ => []
  | n + 1, bs => u8 (bitsVal (bs.take 8)) :: packBits n (bs.drop 8)

/-- the two flavours: 8-bit samples (widths 1..9) and 16-bit samples (widths 1..17) -/
structure Cfg where
  W : Nat          -- widest code: 9 / 17
  B : Nat          -- sample bits: 8 / 16
  esc : Nat        -- bits of the width field after the escape code of widths < 7: 3 / 4
  blk : Nat        -- samples per block: 0x8000 / 0x4000
  deriving Repr

def cfg (is16 : Bool) : Cfg :=
  if is16 then { W := 17, B := 16, esc := 4, blk := 0x4000 } else { W := 9, B := 8, esc := 3, blk := 0x8000 }

def Cfg.M (c : Cfg) : Nat := 2 ^ c.B
/-- upper / lower bound of the width-change codes of a width `7 ≤ left < W`: `(j, i]` -/
def Cfg.hi (c : Cfg) (left : Nat) : Nat := (2 ^ c.B - 1) / 2 ^ (c.W - left) + c.B / 2
def Cfg.lo (c : Cfg) (left : Nat) : Nat := (c.hi left + 2 ^ 16 - c.B) % 2 ^ 16

structure St where
  left : Nat
  temp : Nat := 0
  temp2 : Nat := 0
  deriving Repr

/-- new width after a change code `b` (1-based, skipping the current width) -/
def newWidth (left b : Nat) : Nat := if b % 256 < left then b % 256 else (b + 1) % 256

/-- sign-extend a `left`-bit code to a sample value modulo `2^B` -/
def signExt (c : Cfg) (left v : Nat) : Nat :=
  if left < c.B then (if v ≥ 2 ^ (left - 1) then v + c.M - 2 ^ left else v) % c.M else v % c.M

inductive Step where
  | fail
  | width (left : Nat) (s : List Bool)
  | out (x : Nat) (st : St) (s : List Bool)

/-- one iteration of the `do … while (pos < d)` loop -/
def step (c : Cfg) (it215 : Bool) (st : St) (s : List Bool) : Step :=
  match readBits st.left s with
  | none => .fail
  | some (v, s1) =>
    let unpack : Step :=
      let t := (signExt c st.left v + st.temp) % c.M
      let t2 := (st.temp2 + t) % c.M
      .out (if it215 then t2 else t) { st with temp := t, temp2 := t2 } s1
    if st.left < 7 then
      if v = 2 ^ (st.left - 1) then
        match readBits c.esc s1 with
        | none => .fail
        | some (w, s2) => .width (newWidth st.left (w + 1)) s2
      else unpack
    else if st.left < c.W then
      if v ≤ c.lo st.left ∨ v > c.hi st.left % 2 ^ 16 then unpack
      else .width (newWidth st.left (v - c.lo st.left)) s1
    else if st.left ≥ c.W + 1 then .out 0 st s1           -- `skip_byte`: the (zeroed) output is left untouched
    else if v ≥ c.M then .width ((v + 1) % 256) s1
    else unpack

/-- `n` samples from the bits of one block -/
def decBlock (c : Cfg) (it215 : Bool) : (fuel : Nat) → (n : Nat) → St → List Bool → Option (List Nat)
  | 0, n, _, _ => if n = 0 then some [] else none
  | _ + 1, 0, _, _ => some []
  | f + 1, n + 1, st, s =>
    match step c it215 st s with
    | .fail => none
    | .width l s' => decBlock c it215 f (n + 1) { st with left := l } s'
    | .out x st' s' => (decBlock c it215 f n st' s').map (x :: ·)

/-- `itsex_decompress8/16`: `len` samples of one channel from the stream; returns the samples and the rest of the stream -/
def decChan (c : Cfg) (it215 : Bool) : (fuel : Nat) → (len : Nat) → Bytes → Option (List Nat × Bytes)
  | 0, _, _ => none
  | f + 1, len, bs =>
    if len = 0 then some ([], bs)
    else
      let h := bs.take 2
      if h.length < 2 then none
      else
        let bl := rd16le h
        let body := (bs.drop 2).take bl
        if body.length < bl then none
        else
          let d := if c.blk > len then len else c.blk
          match decBlock c it215 (8 * bl + 8 + d) d { left := c.W } (toBits body) with
          | none => none
          | some xs => (decChan c it215 f (len - d) (bs.drop (2 + bl))).map fun (ys, r) => (xs ++ ys, r)

/-! ### the writer's compressor -/

/-- can the sample delta `d` (mod `2^B`) be sent as a `w`-bit code without colliding with a width-change code -/
def fits (c : Cfg) (w d : Nat) : Bool :=
  if w = c.W then true
  else if w = 0 ∨ w > c.W then false
  else
    let code := d % 2 ^ w
    let inRange := if w < c.B then decide (d < 2 ^ (w - 1) ∨ d + 2 ^ (w - 1) ≥ c.M) else true
    inRange && (if w < 7 then decide (code ≠ 2 ^ (w - 1)) else decide (code ≤ c.lo w ∨ code > c.hi w))

/-- code sequence that changes the width from `left` to `nw` (`nw ≠ left`, `1 ≤ nw ≤ W`) -/
def widthChange (c : Cfg) (left nw : Nat) : List Bool :=
  let k := if nw < left then nw else nw - 1
  if left < 7 then valBits left (2 ^ (left - 1)) ++ valBits c.esc (k - 1)
  else if left < c.W then valBits left (c.lo left + k)
  else valBits c.W (c.M + nw - 1)

/-- deltas of one block: IT 2.14 single, IT 2.15 double integration, both restarting from 0 -/
def deltas (c : Cfg) (it215 : Bool) : List Nat → (prev prevT : Nat) → List Nat
  | [], _, _ => []
  | x :: r, prev, prevT =>
    let t := (x + c.M - prev % c.M) % c.M
    (if it215 then (t + c.M - prevT % c.M) % c.M else t) :: deltas c it215 r x t

/-- bits of one block; `wsel i` = width the writer would like for sample `i` (0 = no wish) -/
def encDeltas (c : Cfg) (wsel : Nat → Nat) : List Nat → (i left : Nat) → List Bool
  | [], _, _ => []
  | d :: r, i, left =>
    let want := wsel i
    let target := if want ≠ 0 ∧ want ≤ c.W ∧ fits c want d then want else if fits c left d then left else c.W
    (if target ≠ left then widthChange c left target else []) ++ valBits target (d % 2 ^ target) ++
      encDeltas c wsel r (i + 1) target

def encBlock (c : Cfg) (it215 : Bool) (wsel : Nat → Nat) (xs : List Nat) (i : Nat) : Bytes :=
  let bits := encDeltas c wsel (deltas c it215 xs 0 0) i c.W
  let n := (bits.length + 7) / 8
  -- a block must fit its 16-bit length word: fall back to the plain widest-code form
  let bits := if n > 65535 then encDeltas c (fun _ => 0) (deltas c it215 xs 0 0) i c.W else bits
  let n := (bits.length + 7) / 8
  le16 n ++ packBits n bits

def encChan (c : Cfg) (it215 : Bool) (wsel : Nat → Nat) : (fuel : Nat) → List Nat → Nat → Bytes
  | 0, _, _ => []
  | f + 1, xs, i =>
    if xs.isEmpty then []
    else encBlock c it215 wsel (xs.take c.blk) i ++ encChan c it215 wsel f (xs.drop c.blk) (i + c.blk)

/-- sample values of one channel block of the in-file PCM layout -/
def chanVals (is16 : Bool) (b : Bytes) : List Nat := if is16 then words b else b.map (·.toNat)
def valsBytes (is16 : Bool) (v : List Nat) : Bytes := if is16 then unwords v else v.map u8

/-- compress the in-file layout (`left block ++ right block`) channel by channel -/
def compress (flg len : Nat) (it215 : Bool) (wsel : Nat → Nat) (raw : Bytes) : Bytes :=
  let is16 := decide (flg &&& F16BIT ≠ 0)
  let c := cfg is16
  let n := len * chanBytes flg
  let one (b : Bytes) (i : Nat) := encChan c it215 wsel (len / c.blk + 2) (chanVals is16 b) i
  if flg &&& FSTEREO ≠ 0 then one (raw.take n) 0 ++ one (raw.drop n) len else one raw 0

/-- `unpack_it_sample`: the decoded in-file layout -/
def decompress (flg len : Nat) (it215 : Bool) (stream : Bytes) : Option Bytes :=
  let is16 := decide (flg &&& F16BIT ≠ 0)
  let c := cfg is16
  match decChan c it215 (len / c.blk + 2) len stream with
  | none => none
  | some (l, rest) =>
    if flg &&& FSTEREO ≠ 0 then
      match decChan c it215 (len / c.blk + 2) len rest with
      | none => none
      | some (r, _) => some (valsBytes is16 l ++ valsBytes is16 r)
    else some (valsBytes is16 l)

end Sex

/-! ## sample headers -/

def FSMASK : Nat := F16BIT ||| FLOOP ||| FBIDIR ||| FSLOOP ||| FSBIDIR ||| FSTEREO

structure Opts where
  cwt : Nat := 0x0214
  cmwt : Nat := 0x0214                      -- instrument mode: `≥ 0x200` = new instrument format, below = old format
  flags : Nat := 0x09                       -- stereo + linear slides; bit 2 comes from `insMode`; bits 7.. (embedded MIDI configuration) are never written
  gv : UInt8 := 128
  mv : UInt8 := 48
  signed : Nat → Bool := fun _ => true      -- per sample: convert bit 0
  comp : Nat → Nat := fun _ => 0            -- per sample: 0 = plain PCM, 1 = IT 2.14 compression, 2 = IT 2.15 (double delta)
  wsel : Nat → Nat → Nat := fun _ _ => 0    -- per sample and sample position: code width the compressor should try (0 = none)
  c5spd : Nat → Nat := fun _ => 8363
  nullEmpty : Bool := false
  cell : Nat → CellOpt := fun _ => {}
  chpan : Nat → UInt8 := fun _ => 32
  chvol : Nat → UInt8 := fun _ => 64
  -- instrument mode (header flag bit 2): `IMPI` instrument headers with key maps; the sample headers then carry
  -- their own name, default volume and (optional) default pan
  insMode : Bool := false
  smpVol : Nat → Nat := fun _ => 64             -- default volume of sample `i`
  smpPan : Nat → Option Nat := fun _ => none    -- default pan of sample `i` (`some p` = bit 7 set, pan `p`)
  insPan : Nat → Option Nat := fun _ => none    -- default pan of instrument `i` (new format; `none` = bit 7 set = don't use)
  keyOff : Nat → Nat → Bool := fun _ _ => false -- instrument `i`, key `j` has no sample
  keyNote : Nat → Nat → UInt8 := fun _ j => u8 j -- note byte of the key table (transposition, not observed)
  envNodes : Nat → Nat := fun _ => 0            -- old format: envelope nodes before the 0xff terminator (< 25)
  filler : Nat → UInt8 := fun _ => 0            -- every other byte of an instrument header (envelopes, NNA, filter, MIDI …)
  -- blocks between the offset tables and the first header: they are skipped / read by the loader but never observed
  history : Option Nat := none                  -- edit history with `n` 8-byte entries (header `special` bit 1)
  midi : Nat := 0                               -- embedded MIDI configuration (4896 bytes): 0 = none, 1 = `special` bit 3,
                                                -- 2 = header flag bit 7, 3 = both

/-- 80-byte `IMPS` header with explicit name / default volume / default-pan byte -/
def encSmpHdrG (name : Bytes) (vol dfp : Nat) (m : Smp) (signed : Bool) (comp : Nat) (c5 ptr : Nat) : Bytes :=
  let fl := (if m.len ≠ 0 then 1 else 0) + (if m.flg &&& F16BIT ≠ 0 then 2 else 0) + (if m.flg &&& FSTEREO ≠ 0 then 4 else 0) +
            (if comp ≠ 0 ∧ m.len > 1 then 8 else 0) +
            (if m.flg &&& FLOOP ≠ 0 then 0x10 else 0) + (if m.flg &&& FSLOOP ≠ 0 then 0x20 else 0) +
            (if m.flg &&& FBIDIR ≠ 0 then 0x40 else 0) + (if m.flg &&& FSBIDIR ≠ 0 then 0x80 else 0)
  str "IMPS" ++ List.replicate 12 0 ++ [0, 64, u8 fl, u8 vol] ++ padTo 25 name ++ [0] ++
  [u8 ((if signed then 1 else 0) + (if comp = 2 ∧ m.len > 1 then 4 else 0)), u8 dfp] ++ le32 m.len ++ le32 m.lps ++ le32 m.lpe ++ le32 c5 ++
  le32 m.sus ++ le32 m.sue ++ le32 ptr ++ [0, 0, 0, 0]

/-- sample mode: name, volume and pan come from the sample's instrument -/
def encSmpHdr (x : Ins) (m : Smp) (signed : Bool) (comp : Nat) (c5 ptr : Nat) : Bytes :=
  let sub : Sub := x.subs.headD { sid := 0, vol := 0, pan := 0, xpo := 0, fin := 0 }
  encSmpHdrG x.name sub.vol (0x80 + sub.pan.toNat / 4) m signed comp c5 ptr

/-- `fix_name` + `libxmp_copy_adjust(…, 25)` + `libxmp_adjust_string` -/
def fixName (b : Bytes) : Bytes :=
  let a := stripTrail ((b.take 25).map fun c => if c = 0 then 32 else c)
  adjustString (copyAdjust 25 a)

structure SmpHdr where
  magic : Bytes
  flags : Nat
  vol : Nat
  name : Bytes
  cvt : Nat
  dfp : Nat
  len : Nat
  lps : Nat
  lpe : Nat
  sus : Nat
  sue : Nat
  ptr : Nat
  deriving Repr, Inhabited

def decSmpHdr (b : Bytes) : SmpHdr :=
  { magic := b.take 4, flags := (b.getD 18 0).toNat, vol := (b.getD 19 0).toNat, name := (b.drop 20).take 26,
    cvt := (b.getD 46 0).toNat, dfp := (b.getD 47 0).toNat, len := rd32le ((b.drop 48).take 4),
    lps := rd32le ((b.drop 52).take 4), lpe := rd32le ((b.drop 56).take 4), sus := rd32le ((b.drop 64).take 4),
    sue := rd32le ((b.drop 68).take 4), ptr := rd32le ((b.drop 72).take 4) }

def hdrFlg (h : SmpHdr) : Nat :=
  (if h.flags / 2 % 2 = 1 then F16BIT else 0) + (if h.flags / 4 % 2 = 1 then FSTEREO else 0) +
  (if h.flags / 16 % 2 = 1 then FLOOP else 0) + (if h.flags / 64 % 2 = 1 then FBIDIR else 0) +
  (if h.flags / 32 % 2 = 1 then FSLOOP else 0) + (if h.flags / 128 % 2 = 1 then FSBIDIR else 0)

/-- `libxmp_load_epilogue` sustain-loop clamp -/
def susFix (m : Smp) : Smp :=
  let sue := if m.sue > m.len then m.len else m.sue
  if m.sus ≥ m.len ∨ m.sus ≥ sue then { m with sus := 0, sue := 0, flg := m.flg &&& (0xffff - (FSLOOP ||| FSBIDIR)) }
  else { m with sue := sue }

/-- `load_it_sample` after the magic test: flags, loops, sustain loop and PCM (name left empty);
`none` = not modelled / load error -/
def loadSmpCore (file : Bytes) (h : SmpHdr) : Option Smp :=
  if h.len ≥ 0x80000000 ∨ h.lps ≥ 0x80000000 ∨ h.lpe ≥ 0x80000000 ∨ h.sus ≥ 0x80000000 ∨ h.sue ≥ 0x80000000 then none else
  let flg := hdrFlg h
  let (sus, sue) := if h.flags / 32 % 2 = 1 then (h.sus, h.sue) else (0, 0)
  let m0 : Smp := { name := [], len := h.len, lps := h.lps, lpe := h.lpe, flg := flg, sus := sus, sue := sue, pcm := [] }
  if h.flags % 2 = 1 ∧ h.len > 1 then
    if h.len > 0x10000000 then none
    else if h.cvt = 0xff then none                   -- ADPCM: not modelled
    else
      let flg1 := if h.lpe > h.len ∨ h.lps ≥ h.lpe then flg &&& (0xffff - FLOOP) else flg
      let n := h.len * frameBytes flg
      let fin (raw : Bytes) : Option Smp :=
        let (lps, lpe, flg2) := loopSanity h.len h.lps h.lpe flg1
        let flg3 := if flg2 &&& FSBIDIR ≠ 0 ∧ flg2 &&& FSLOOP = 0 then flg2 &&& (0xffff - FSBIDIR) else flg2
        some (susFix { m0 with lps := lps, lpe := lpe, flg := flg3,
                               pcm := S3m.loadPcm (h.cvt % 2 = 0) flg h.len raw })
      if h.flags / 8 % 2 = 1 then
        -- compressed: lower bound test of the loader (resizing short samples is not modelled)
        if h.ptr ≥ file.length ∨ file.length - h.ptr < h.len * (if flg &&& FSTEREO ≠ 0 then 2 else 1) / 8 then none
        else match Sex.decompress flg h.len (h.cvt / 4 % 2 = 1) (file.drop h.ptr) with
          | none => none                             -- stream error: the loader keeps a partial sample, not modelled
          | some raw => fin raw
      else if h.ptr + n > file.length then none           -- truncated sample: not modelled
      else fin ((file.drop h.ptr).take n)
  else some (susFix m0)

/-- sample mode: the instrument made for sample `i` -/
def smpModeIns (i : Nat) (h : SmpHdr) : Ins :=
  let pan : Int := if h.dfp ≥ 0x80 then ((h.dfp % 128 * 4 : Nat) : Int) else -1
  { name := fixName h.name, subs := if h.len ≠ 0 then [{ sid := i, vol := h.vol, pan := pan, xpo := 0, fin := 0 }] else [] }

def emptySmp : Smp := { name := [], len := 0, lps := 0, lpe := 0, flg := 0, pcm := [] }

/-- sample-mode instrument + sample from one `IMPS` header; `none` = not modelled / load error -/
def loadSmp (file : Bytes) (i : Nat) (b : Bytes) : Option (Ins × Smp) :=
  let h := decSmpHdr b
  if h.magic ≠ str "IMPS" then some ({ name := [], subs := [] }, emptySmp)
  else (loadSmpCore file h).map fun m => (smpModeIns i h, m)

/-! ## instrument mode: `IMPI` headers (`load_new_it_instrument` / `load_old_it_instrument`) -/

/-- the `inst_map` construction of both instrument loaders: the sample numbers of the key table (0 or > 120 =
no sample, coded `noSmp` in the key map) are numbered in order of first appearance.
Returns (sample ids of the sub-instruments, sub-instrument index per key). -/
def keyScan (noSmp : Nat) : List Nat → List Nat → List Nat × List Nat
  | [], seen => (seen, [])
  | c :: cs, seen =>
    if c = 0 ∨ c > 120 then
      let (s, m) := keyScan noSmp cs seen
      (s, noSmp :: m)
    else
      let idx := seen.idxOf (c - 1)
      let (s, m) := keyScan noSmp cs (if idx < seen.length then seen else seen ++ [c - 1])
      (s, idx :: m)

/-- old format: the volume envelope node table must contain its 0xff terminator within 25 nodes -/
def enodeOk (e : Bytes) : Bool := (List.range 25).any fun k => e.getD (2 * k) 0 == 0xff

structure InsHdr where
  name : Bytes          -- after `fix_name` / `copy_adjust` / `adjust_string`
  sids : List Nat       -- sample id of each sub-instrument
  keymap : List Nat     -- 121 entries
  pan : Int             -- instrument default pan, -1 = none
  deriving Repr, Inhabited

/-- one instrument header at offset `pp`; `none` = short file, bad magic, unterminated old envelope -/
def readInsHdr (isNew : Bool) (file : Bytes) (pp : Nat) : Option InsHdr :=
  let need := if isNew then 550 else 554
  let b := (file.drop pp).take need
  if b.length < need then none
  else if b.take 4 ≠ str "IMPI" then none
  else if !isNew && !(enodeOk ((b.drop 504).take 50)) then none
  else
    let keys := (List.range 120).map fun j => (b.getD (64 + 2 * j + 1) 0).toNat
    let (sids, km) := keyScan (if isNew then 0xff else 0) keys []
    let dfp := (b.getD 25 0).toNat
    some { name := fixName ((b.drop 32).take 26), sids := sids, keymap := km ++ [0],
           pan := if isNew ∧ dfp < 0x80 then ((dfp * 4 : Nat) : Int) else -1 }

def readInsHdrs (isNew : Bool) (file : Bytes) : List Nat → Option (List InsHdr)
  | [] => some []
  | pp :: rest =>
    match readInsHdr isNew file pp with
    | none => none
    | some h => (readInsHdrs isNew file rest).map (h :: ·)

/-- instrument mode: sample `i` and what it hands to the sub-instruments that use it: `(volume, default-pan byte)`;
`none` for a header without the `IMPS` magic (the loader skips it) -/
def readSmpsI (file : Bytes) : List Nat → Option (List (Option (Nat × Nat) × Smp))
  | [] => some []
  | pp :: rest =>
    let b := (file.drop pp).take 80
    if b.length < 80 then none
    else
      let h := decSmpHdr b
      if h.magic ≠ str "IMPS" then (readSmpsI file rest).map ((none, emptySmp) :: ·)
      else match loadSmpCore file h with
        | none => none
        | some m => (readSmpsI file rest).map ((some (h.vol, h.dfp), { m with name := fixName h.name }) :: ·)

/-- the instrument as `load_it_sample` leaves it: every sub-instrument takes volume (and pan, if the sample has
one) from its sample -/
def mkIns (infos : List (Option (Nat × Nat))) (h : InsHdr) : Ins :=
  { name := h.name, keymap := h.keymap,
    subs := h.sids.map fun sid =>
      match infos.getD sid none with
      | some (vol, dfp) => { sid := sid, vol := vol, pan := if dfp ≥ 0x80 then ((dfp % 128 * 4 : Nat) : Int) else h.pan, xpo := 0, fin := 0 }
      | none => { sid := sid, vol := 0, pan := h.pan, xpo := 0, fin := 0 } }

/-- writer: the 554-byte instrument header of instrument `i` (both formats share the positions the loader
observes: magic, name at 32, key table at 64; the default-pan byte at 25 exists in the new format only;
the old format's envelope node table at 504 gets its terminator) -/
def encIns (o : Opts) (isNew : Bool) (smpNo : Nat → Nat) (x : Ins) (i : Nat) : Bytes :=
  let f (k : Nat) : UInt8 := o.filler (1000 * i + k)
  let dfp : UInt8 := if isNew then (match o.insPan i with | some p => u8 p | none => u8 (0x80 + (f 25).toNat % 128)) else f 25
  let keys : Bytes := (List.range 120).flatMap fun j =>
    [o.keyNote i j, u8 (if o.keyOff i j then 0 else smpNo j)]
  let n := o.envNodes i
  let enode : Bytes := (List.range 50).map fun k =>
    if k = 2 * n then 0xff else if k % 2 = 0 ∧ k < 2 * n then u8 ((f (504 + k)).toNat % 255) else f (504 + k)
  str "IMPI" ++ (List.range 21).map (fun k => f (4 + k)) ++ [dfp] ++ (List.range 6).map (fun k => f (26 + k)) ++
  padTo 25 x.name ++ [0] ++ (List.range 6).map (fun k => f (58 + k)) ++ keys ++
  (List.range 200).map (fun k => f (304 + k)) ++ (if isNew then (List.range 50).map (fun k => f (504 + k)) else enode)

/-! ## file level -/

def isEmptyPat (p : Pat) : Bool := p.cells.all fun c => c.note = 0 && c.ins = 0 && c.vol = 0

/-- offsets of consecutive blobs starting at `base` -/
def offsets (base : Nat) : List Bytes → List Nat
  | [] => []
  | b :: bs => base :: offsets (base + b.length) bs

/-! ### layout of the written file

192-byte header · order list · instrument offsets (instrument mode) · sample-header offsets · pattern offsets ·
554-byte `IMPI` headers (instrument mode) · 80-byte `IMPS` headers · pattern blobs · sample blobs (no alignment). -/

/-- per-cell options of pattern number `pi` whose first cell has global index `ci`: the first pattern
declares the channel count by a (possibly field-less) entry for channel `chn-1` in row 0 -/
def patOpt (chn : Nat) (o : Opts) (pi ci : Nat) : Nat → CellOpt :=
  fun j => if pi = 0 ∧ j = ci + chn - 1 then { o.cell j with marker := true } else o.cell j

/-- one stored pattern (8-byte header + packed data); `[]` = not stored (offset 0) -/
def patBlob (chn : Nat) (o : Opts) (p : Pat) (pi ci : Nat) : Bytes :=
  if pi ≠ 0 ∧ o.nullEmpty ∧ isEmptyPat p ∧ p.rows = 64 then [] else
    let d := pack chn p (patOpt chn o pi ci) ci
    le16 d.length ++ le16 p.rows ++ [0, 0, 0, 0] ++ d

def patBlobs (chn : Nat) (o : Opts) : List Pat → Nat → Nat → List Bytes
  | [], _, _ => []
  | p :: ps, pi, ci => patBlob chn o p pi ci :: patBlobs chn o ps (pi + 1) (ci + p.cells.length)

/-- offsets of consecutive pattern blobs starting at `base`; an empty blob gets offset 0 -/
def patOffsOf (base : Nat) : List Bytes → List Nat
  | [] => []
  | b :: bs => (if b.isEmpty then 0 else base) :: patOffsOf (base + b.length) bs

/-- stored bytes of sample number `i` -/
def smpBlob (o : Opts) (m : Smp) (i : Nat) : Bytes :=
  let raw := S3m.storePcm (!(o.signed i)) m.flg m.len m.pcm
  if o.comp i ≠ 0 ∧ m.len > 1 then Sex.compress m.flg m.len (o.comp i = 2) (o.wsel i) raw else raw

def smpBlobs (o : Opts) : List Smp → Nat → List Bytes
  | [], _ => []
  | m :: ms, i => smpBlob o m i :: smpBlobs o ms (i + 1)

/-- sample mode: the `IMPS` headers of the slots `(x, m)` whose data lies at offset `off`; `i` = slot number -/
def encSmpHdrs (o : Opts) : List Ins → List Smp → List Nat → Nat → Bytes
  | x :: xs, m :: ms, off :: offs, i =>
    encSmpHdr x m (o.signed i) (o.comp i) (o.c5spd i) off ++ encSmpHdrs o xs ms offs (i + 1)
  | _, _, _, _ => []

/-- the default-pan byte of sample `i` in instrument mode -/
def smpDfp (o : Opts) (i : Nat) : Nat := match o.smpPan i with | some p => 0x80 + p | none => 0

/-- instrument mode: the `IMPS` headers -/
def encSmpHdrsI (o : Opts) : List Smp → List Nat → Nat → Bytes
  | m :: ms, off :: offs, i =>
    encSmpHdrG m.name (o.smpVol i) (smpDfp o i) m (o.signed i) (o.comp i) (o.c5spd i) off ++ encSmpHdrsI o ms offs (i + 1)
  | _, _, _ => []

/-- sample number (1-based) that key `j` of instrument `x` names -/
def keySmp (x : Ins) (j : Nat) : Nat := ((x.subs.getD (x.keymap.getD j 0) default).sid + 1)

def encInss (o : Opts) : List Ins → Nat → List Bytes
  | [], _ => []
  | x :: xs, i => encIns o (decide (o.cmwt ≥ 0x200)) (keySmp x) x i :: encInss o xs (i + 1)

/-- number of `IMPI` headers in the file -/
def nIns (s : Module) (o : Opts) : Nat := if o.insMode then s.ins.length else 0

/-- edit history and MIDI configuration, as they follow the offset tables -/
def extraBlock (o : Opts) : Bytes :=
  (match o.history with
   | some n => le16 n ++ (List.range (8 * n)).map (fun k => o.filler (500000 + k))
   | none => []) ++
  (if o.midi ≠ 0 then (List.range 4896).map (fun k => o.filler (600000 + k)) else [])

def specialOf (o : Opts) : Nat := (if o.history.isSome then 2 else 0) + (if o.midi % 2 = 1 then 8 else 0)

def fileHdr (s : Module) (o : Opts) : Bytes :=
  str "IMPM" ++ padTo 26 s.name ++ [4, 16] ++ le16 s.orders.length ++ le16 (nIns s o) ++ le16 s.smps.length ++ le16 s.pats.length ++
    le16 o.cwt ++ le16 o.cmwt ++
    le16 (o.flags % 128 / 8 * 8 + o.flags % 4 + (if o.insMode then 4 else 0) + (if o.midi / 2 % 2 = 1 then 128 else 0)) ++
    le16 (specialOf o) ++
    [o.gv, o.mv, u8 s.spd, u8 s.bpm, 128, 0] ++ le16 0 ++ le32 0 ++ le32 0 ++
    (List.range 64).map o.chpan ++ (List.range 64).map o.chvol

/-- offset of the first `IMPI` header / first `IMPS` header / first pattern blob / first sample blob -/
def insBase (s : Module) (o : Opts) : Nat :=
  192 + s.orders.length + 4 * nIns s o + 4 * s.smps.length + 4 * s.pats.length + (extraBlock o).length
def hdrBase (s : Module) (o : Opts) : Nat := insBase s o + 554 * nIns s o
def patBase (s : Module) (o : Opts) : Nat := hdrBase s o + 80 * s.smps.length
def smpBase (s : Module) (o : Opts) : Nat := patBase s o + ((patBlobs s.chn o s.pats 0 0).map (·.length)).sum

/-- size of the written file, from the sizes of its parts (the headers have fixed sizes) -/
def fileSize (s : Module) (o : Opts) : Nat := smpBase s o + ((smpBlobs o s.smps 0).map (·.length)).sum

def patOffs (s : Module) (o : Opts) : List Nat := patOffsOf (patBase s o) (patBlobs s.chn o s.pats 0 0)
def smpOffs (s : Module) (o : Opts) : List Nat := offsets (smpBase s o) (smpBlobs o s.smps 0)

def write (s : Module) (o : Opts) : Bytes :=
  fileHdr s o ++ s.orders ++ (List.range (nIns s o)).flatMap (fun i => le32 (insBase s o + 554 * i)) ++
  (List.range s.smps.length).flatMap (fun i => le32 (hdrBase s o + 80 * i)) ++
  (patOffs s o).flatMap le32 ++ extraBlock o ++
  (if o.insMode then (encInss o s.ins 0).flatten else []) ++
  (if o.insMode then encSmpHdrsI o s.smps (smpOffs s o) 0 else encSmpHdrs o s.ins s.smps (smpOffs s o) 0) ++
  (patBlobs s.chn o s.pats 0 0).flatten ++ (smpBlobs o s.smps 0).flatten

def readSmps (file : Bytes) : List Nat → Nat → Option (List (Ins × Smp))
  | [], _ => some []
  | pp :: rest, i =>
    let b := (file.drop pp).take 80
    if b.length < 80 then none
    else match loadSmp file i b with
      | none => none
      | some r => (readSmps file rest (i + 1)).map (r :: ·)

/-- instruments and samples of an instrument-mode file -/
def readInsMode (file : Bytes) (cmwt : Nat) (ppIns ppSmp : List Nat) : Option (List Ins × List Smp) :=
  match readInsHdrs (decide (cmwt ≥ 0x200)) file ppIns with
  | none => none
  | some hs =>
    match readSmpsI file ppSmp with
    | none => none
    | some sl => some (hs.map (mkIns (sl.map (·.1))), sl.map (·.2))

/-- pattern header at `pp`: `(rows, data)`; `none` when the block is cut short -/
def patBlock (file : Bytes) (pp : Nat) : Option (Nat × Bytes) :=
  let h := (file.drop pp).take 8
  if h.length < 8 then none
  else
    let plen := rd16le (h.take 2)
    let rows := rd16le ((h.drop 2).take 2)
    let d := (file.drop (pp + 8)).take plen
    if d.length < plen then none else some (rows, d)

def read (bs : Bytes) : Option Module := do
  if bs.length < 192 then none
  if bs.take 4 ≠ str "IMPM" then none
  let ordnum := rd16le ((bs.drop 32).take 2)
  let insnum := rd16le ((bs.drop 34).take 2)
  let smpnum := rd16le ((bs.drop 36).take 2)
  let patnum := rd16le ((bs.drop 38).take 2)
  let cmwt := rd16le ((bs.drop 42).take 2)
  let flags := rd16le ((bs.drop 44).take 2)
  let special := rd16le ((bs.drop 46).take 2)
  if (bs.getD 48 0).toNat > 0x80 then none
  if insnum > 255 ∨ smpnum > 255 ∨ patnum > 255 then none
  let olen := if ordnum > 256 then 256 else ordnum
  let tab := 192 + ordnum + 4 * insnum
  if tab + 4 * smpnum + 4 * patnum > bs.length then none
  -- edit history (skipped) and embedded MIDI configuration (read, never observed) follow the tables: the load
  -- fails when the history's length word or the 9 + 16 + 128 macros of 32 bytes are not in the file
  let p0 := tab + 4 * smpnum + 4 * patnum
  let p1 := if special / 2 % 2 = 1 then p0 + 2 + 8 * rd16le ((bs.drop p0).take 2) else p0
  if special / 2 % 2 = 1 ∧ p0 + 2 > bs.length then none
  if (flags / 128 % 2 = 1 ∨ special / 8 % 2 = 1) ∧ p1 + 4896 > bs.length then none
  let ords := (bs.drop 192).take olen
  if !(S3m.scanStarts patnum ords) then none   -- `libxmp_scan_sequences`: the scan from order 0 reaches no stored pattern
  let ppIns := decodeN 4 rd32le insnum (bs.drop (192 + ordnum))
  let ppSmp := decodeN 4 rd32le smpnum (bs.drop tab)
  let ppPat := decodeN 4 rd32le patnum (bs.drop (tab + 4 * smpnum))
  -- instruments and samples: instrument mode (header flag bit 2) or one instrument per sample
  let (ins, smps) ← (if flags / 4 % 2 = 1 then readInsMode bs cmwt ppIns ppSmp
                     else (readSmps bs ppSmp 0).map fun sl => (sl.map (·.1), sl.map (·.2)))
  -- first pass: channel count; patterns with more than 1024 rows are dropped
  let blocks ← ppPat.mapM fun pp =>
    if pp = 0 then some none
    else match patBlock bs pp with
      | none => none
      | some (rows, d) => if rows = 0 then none   -- `libxmp_alloc_track` refuses 0 rows: load error
                          else some (if rows > 1024 then none else some (rows, d))
  let maxCh := blocks.foldl (fun (mx : Nat) blk => match blk with
    | none => mx
    | some (rows, d) => scanGo (d.length + 1) d rows (List.replicate 64 0) mx) 0
  let chn := maxCh + 1
  let pats := blocks.map fun blk => match blk with
    | none => ({ rows := 64, cells := List.replicate (64 * chn) {} } : Pat)
    | some (rows, d) => { rows := rows, cells := (unpackData chn rows d).flatten }
  some { name := adjustString (cstr ((bs.drop 4).take 26)), chn := chn, orders := fixOrders patnum ords,
         pats := pats, ins := ins, smps := smps.map obsLoop,
         spd := fixSpd (bs.getD 50 0).toNat, bpm := fixBpm (bs.getD 51 0).toNat }

/-! ## well-formed IT songs -/

def PatOk (chn : Nat) (p : Pat) : Prop :=
  1 ≤ p.rows ∧ p.rows ≤ 200 ∧ p.cells.length = p.rows * chn ∧ ∀ c ∈ p.cells, CellOk c
instance (chn : Nat) (p : Pat) : Decidable (PatOk chn p) := by unfold PatOk; infer_instance

def SubsOk (i : Nat) : List Sub → Prop
  | [sub] => sub.sid = i ∧ sub.vol ≤ 64 ∧ 0 ≤ sub.pan ∧ sub.pan ≤ 256 ∧ sub.pan % 4 = 0 ∧ sub.xpo = 0 ∧ sub.fin = 0
  | _ => False
instance (i : Nat) (l : List Sub) : Decidable (SubsOk i l) := by unfold SubsOk; split <;> infer_instance

/-- the sample's own fields (both modes); the name is constrained by the mode -/
def SmpOk (m : Smp) : Prop :=
  m.flg &&& FSMASK = m.flg ∧
  (m.flg &&& FBIDIR ≠ 0 → m.flg &&& FLOOP ≠ 0) ∧ (m.flg &&& FSBIDIR ≠ 0 → m.flg &&& FSLOOP ≠ 0) ∧
  m.len ≤ 0x100000 ∧ m.len ≠ 1 ∧ m.pcm.length = m.len * frameBytes m.flg ∧
  (if m.len = 0 then m.flg = 0 ∧ m.lps = 0 ∧ m.lpe = 0 ∧ m.sus = 0 ∧ m.sue = 0
   else
     (if m.flg &&& FLOOP ≠ 0 then m.lps < m.lpe ∧ m.lpe ≤ m.len else m.lps = 0 ∧ m.lpe = 0) ∧
     (if m.flg &&& FSLOOP ≠ 0 then m.sus < m.sue ∧ m.sue ≤ m.len else m.sus = 0 ∧ m.sue = 0))
instance (m : Smp) : Decidable (SmpOk m) := by unfold SmpOk; infer_instance

def SlotOk (i : Nat) (x : Ins) (m : Smp) : Prop :=
  NameOk 25 x.name ∧ x.keymap = [] ∧ m.name = [] ∧ m.flg &&& FSMASK = m.flg ∧
  (m.flg &&& FBIDIR ≠ 0 → m.flg &&& FLOOP ≠ 0) ∧ (m.flg &&& FSBIDIR ≠ 0 → m.flg &&& FSLOOP ≠ 0) ∧
  m.len ≤ 0x100000 ∧ m.len ≠ 1 ∧ m.pcm.length = m.len * frameBytes m.flg ∧
  (if m.len = 0 then x.subs = [] ∧ m.flg = 0 ∧ m.lps = 0 ∧ m.lpe = 0 ∧ m.sus = 0 ∧ m.sue = 0
   else SubsOk i x.subs ∧
     (if m.flg &&& FLOOP ≠ 0 then m.lps < m.lpe ∧ m.lpe ≤ m.len else m.lps = 0 ∧ m.lpe = 0) ∧
     (if m.flg &&& FSLOOP ≠ 0 then m.sus < m.sue ∧ m.sue ≤ m.len else m.sus = 0 ∧ m.sue = 0))
instance (i : Nat) (x : Ins) (m : Smp) : Decidable (SlotOk i x m) := by unfold SlotOk; infer_instance

def SlotsOk : Nat → List Ins → List Smp → Prop
  | _, [], [] => True
  | i, x :: xs, m :: ms => SlotOk i x m ∧ SlotsOk (i + 1) xs ms
  | _, _, _ => False

instance : (i : Nat) → (xs : List Ins) → (ms : List Smp) → Decidable (SlotsOk i xs ms)
  | _, [], [] => isTrue trivial
  | i, x :: xs, m :: ms => by
    unfold SlotsOk
    have := instDecidableSlotsOk (i + 1) xs ms
    infer_instance
  | _, [], _ :: _ => isFalse (by simp [SlotsOk])
  | _, _ :: _, [] => isFalse (by simp [SlotsOk])

/-- the key map numbers the sub-instruments in order of first appearance: walking over the keys with `t`
sub-instruments met so far, a key either has no sample (`noSmp`), or names one of the `t` known ones, or the next
one; returns the number of sub-instruments met -/
def keyOrder (noSmp : Nat) (off : Nat → Bool) : List Nat → Nat → Nat → Option Nat
  | [], _, t => some t
  | k :: ks, j, t =>
    if off j then (if k = noSmp then keyOrder noSmp off ks (j + 1) t else none)
    else if k < t then keyOrder noSmp off ks (j + 1) t
    else if k = t then keyOrder noSmp off ks (j + 1) (t + 1)
    else none

/-- the pan a sub-instrument of instrument `i` using sample `sid` ends up with -/
def subPan (o : Opts) (isNew : Bool) (i sid : Nat) : Int :=
  match o.smpPan sid with
  | some p => ((p * 4 : Nat) : Int)
  | none => if isNew then (match o.insPan i with | some q => ((q * 4 : Nat) : Int) | none => -1) else -1

/-- instrument `i` in instrument mode -/
def InsOkI (o : Opts) (nsmp i : Nat) (x : Ins) : Prop :=
  let isNew := decide (o.cmwt ≥ 0x200)
  NameOk 25 x.name ∧ x.keymap.length = 121 ∧ x.keymap.getD 120 0 = 0 ∧
  keyOrder (if isNew then 0xff else 0) (o.keyOff i) (x.keymap.take 120) 0 0 = some x.subs.length ∧
  (x.subs.map (·.sid)).Nodup ∧
  (∀ sub ∈ x.subs, sub.sid < nsmp ∧ sub.sid < 120 ∧ sub.vol = o.smpVol sub.sid ∧ sub.pan = subPan o isNew i sub.sid ∧
     sub.xpo = 0 ∧ sub.fin = 0) ∧
  (match o.insPan i with | some q => q < 128 | none => True) ∧ o.envNodes i < 25

instance (o : Opts) (nsmp i : Nat) (x : Ins) : Decidable (InsOkI o nsmp i x) := by
  unfold InsOkI
  cases o.insPan i <;> infer_instance

def InssOkI (o : Opts) (nsmp : Nat) : Nat → List Ins → Prop
  | _, [] => True
  | i, x :: xs => InsOkI o nsmp i x ∧ InssOkI o nsmp (i + 1) xs

instance (o : Opts) (nsmp : Nat) : (i : Nat) → (xs : List Ins) → Decidable (InssOkI o nsmp i xs)
  | _, [] => isTrue trivial
  | i, x :: xs => by
    unfold InssOkI
    have := instDecidableInssOkI o nsmp (i + 1) xs
    infer_instance

/-- sample `i` in instrument mode -/
def SmpOkI (o : Opts) (i : Nat) (m : Smp) : Prop :=
  NameOk 25 m.name ∧ SmpOk m ∧ o.smpVol i ≤ 64 ∧ (match o.smpPan i with | some p => p ≤ 64 | none => True)

instance (o : Opts) (i : Nat) (m : Smp) : Decidable (SmpOkI o i m) := by
  unfold SmpOkI
  cases o.smpPan i <;> infer_instance

def SmpsOkI (o : Opts) : Nat → List Smp → Prop
  | _, [] => True
  | i, m :: ms => SmpOkI o i m ∧ SmpsOkI o (i + 1) ms

instance (o : Opts) : (i : Nat) → (ms : List Smp) → Decidable (SmpsOkI o i ms)
  | _, [] => isTrue trivial
  | i, m :: ms => by
    unfold SmpsOkI
    have := instDecidableSmpsOkI o (i + 1) ms
    infer_instance

def WellFormed (s : Module) (o : Opts) : Prop :=
  NameOk 25 s.name ∧ S3m.startsValid s.pats.length s.orders = true ∧ (1 ≤ s.chn ∧ s.chn ≤ 64) ∧
  s.orders.length ≤ 256 ∧
  (1 ≤ s.pats.length ∧ s.pats.length ≤ 200) ∧ (∀ p ∈ s.pats, PatOk s.chn p) ∧
  s.smps.length ≤ 255 ∧
  -- sample mode: one instrument per sample; instrument mode: instruments with key maps (the loader accepts up to 255 of each)
  (if o.insMode then s.ins.length ≤ 255 ∧ o.cmwt < 0x10000 ∧ InssOkI o s.smps.length 0 s.ins ∧ SmpsOkI o 0 s.smps
   else SlotsOk 0 s.ins s.smps) ∧
  (1 ≤ s.spd ∧ s.spd ≤ 255) ∧ (32 ≤ s.bpm ∧ s.bpm ≤ 255) ∧
  o.gv.toNat ≤ 128 ∧ (match o.history with | some n => n < 65536 | none => True) ∧ o.midi < 4 ∧
  -- the format's field widths: 16-bit packed-pattern length (worst case 7 bytes per cell), 32-bit file offsets
  (∀ p ∈ s.pats, p.rows * (7 * s.chn + 1) ≤ 65535) ∧ fileSize s o < 0x100000000

instance (s : Module) (o : Opts) : Decidable (WellFormed s o) := by
  unfold WellFormed
  cases o.history <;> infer_instance

end Xmp.Fmt.It
