import XmpModel.Container
import XmpModel.Lzw
/-!
# MMCMP ("ziRCONia") files as read by `decrunch_mmcmp` (src/depackers/mmcmp.c), model for C08

24-byte header, block offset table, per block a 20-byte header and a sub-block table; blocks without the
`MMCMP_COMP` flag are copied sub-block by sub-block into the zero-filled output buffer (`block_copy`, fully
modelled); compressed blocks (8/16-bit adaptive bit coder, delta, translation table) go through the parameter `dec`.
The C reads the 32-bit size fields into `int`: values from 2^31 on are negative there and refused.
-/
namespace Xmp.Container
open Xmp

/-- `hio_read(out->buf + pos, 1, size, in)` into the output buffer -/
def mmWriteAt (out : Bytes) (pos : Nat) (d : Bytes) : Bytes := out.take pos ++ d ++ out.drop (pos + d.length)

/-- `block_copy`: sub-blocks (pos, size) are filled from consecutive input bytes -/
def mmBlockCopy : List (Nat × Nat) → Bytes → Bytes → Option Bytes
  | [], _, out => some out
  | (pos, size) :: subs, s, out =>
    if pos ≥ out.length ∨ size > out.length - pos then none
    else if s.length < size then none
    else mmBlockCopy subs (s.drop size) (mmWriteAt out pos (s.take size))

/-- read `n` sub-block descriptors at `ofs`; `budget` = `h.filesize - total_unpk`: the sizes of all sub-blocks of all
    blocks together must not exceed the unpacked file size (/repo 353a4b5).  Returns the descriptors and the budget left. -/
def mmSubs (f : Bytes) : Nat → Nat → Nat → Option (List (Nat × Nat) × Nat)
  | 0, _, budget => some ([], budget)
  | n + 1, ofs, budget =>
    if f.length < ofs + 8 then none
    else if u32At f ofs ≥ 2 ^ 31 ∨ u32At f (ofs + 4) ≥ 2 ^ 31 then none
    else if u32At f (ofs + 4) > budget then none
    else (mmSubs f n (ofs + 8) (budget - u32At f (ofs + 4))).map (fun r => ((u32At f ofs, u32At f (ofs + 4)) :: r.1, r.2))

/-- the block loop; `dec flags numBits ttEntries subs stream out` = `block_unpack_8bit/16bit` -/
def mmBlocks (dec : Nat → Nat → Nat → List (Nat × Nat) → Bytes → Bytes → Option Bytes) (f : Bytes) :
    List Nat → Nat → Bytes → Option Bytes
  | [], _, out => some out
  | bo :: rest, budget, out =>
    if f.length < bo + 20 then none
    else
      let unpk := u32At f bo
      let pk := u32At f (bo + 4)
      let nsub := u16At f (bo + 12)
      let flags := u16At f (bo + 14)
      let tt := u16At f (bo + 16)
      let numBits := u16At f (bo + 18)
      if unpk = 0 ∨ unpk ≥ 2 ^ 31 ∨ pk = 0 ∨ pk ≥ 2 ^ 31 then none
      else if pk ≤ tt then none
      else if nsub = 0 then none
      else if flags % 2 = 1 ∧ ((flags / 4 % 2 = 1 ∧ numBits ≥ 16) ∨ (flags / 4 % 2 = 0 ∧ numBits ≥ 8)) then none
      else
        match mmSubs f nsub (bo + 20) budget with
        | none => none
        | some (subs, budget) =>
          let stream := f.drop (bo + 20 + 8 * nsub)
          let out? := if flags % 2 = 0 then mmBlockCopy subs stream out else dec flags numBits tt subs stream out
          match out? with
          | none => none
          | some out => mmBlocks dec f rest budget out

/-! ## compressed blocks (`block_unpack_8bit`, `block_unpack_16bit`)

`get_bits` delivers the input LSB first; `hio_read8` returns 0xFF past the end of the file.  The 32-bit window
`bb.buffer` (refilled to ≥ 24 bits before every read of ≤ 16 bits) is abstracted to a bit position.  `mem_write8`
drops bytes once `out->pos` has reached the buffer size (the C ignores its return value). -/

def mmBitAt (s : Array UInt8) (i : Nat) : Nat := (match s[i / 8]? with | some b => b.toNat | none => 0xff) / 2 ^ (i % 8) % 2

/-- `get_bits(in, n, &bb)` at bit position `pos` -/
def mmGet (s : Array UInt8) : Nat → Nat → Nat
  | _, 0 => 0
  | pos, n + 1 => mmBitAt s pos + 2 * mmGet s (pos + 1) n

structure MmSt where
  pos : Nat                -- bit position in the packed stream
  numbits : Nat
  j : Nat                  -- current sub-block
  p : Nat                  -- `pos`: bytes produced for the current sub-block
  oldval : Nat             -- delta predictor: carried through the whole block
  opos : Nat               -- `out->pos`
  out : Array UInt8

def mmWrite8 (st : MmSt) (v : Nat) : MmSt :=
  if st.opos ≥ st.out.size then st else { st with out := st.out.set! st.opos (UInt8.ofNat v), opos := st.opos + 1 }

/-- end of a loop iteration: `if (pos >= size) { if (++j >= sub_blk) break; pos = 0; mem_seek(out, sub[j].unpk_pos) }`;
    `none` = mem_seek failed (-1), `some (st, true)` = the block is complete -/
def mmNextSub (subs : List (Nat × Nat)) (st : MmSt) : Option (MmSt × Bool) :=
  if st.p ≥ (subs.getD st.j (0, 0)).2 then
    if st.j + 1 ≥ subs.length then some (st, true)
    else
      let np := (subs.getD (st.j + 1) (0, 0)).1
      if np ≥ st.out.size then none else some ({ st with j := st.j + 1, p := 0, opos := np }, false)
  else some (st, false)

/-- the code reader shared by both widths at bit position `pos` with code width `numbits`: result
    `some none` = width change, `some (some v)` = a value, `none` = end marker; then the new position and width.
    `esc` = number of bits of the escape code (3 / 4), `top` = first value coded by the escape. -/
def mmReadCode (s : Array UInt8) (cmd fetch : List Nat) (mask esc top : Nat) (pos numbits : Nat) :
    Option (Option Nat) × Nat × Nat :=
  let d := mmGet s pos (numbits + 1)
  let pos := pos + numbits + 1
  let c := cmd.getD numbits 0
  if d ≥ c then
    let f := fetch.getD numbits 0
    let nb := mmGet s pos f + (d - c) * 2 ^ f
    let pos := pos + f
    if nb ≠ numbits then (some none, pos, nb % mask)
    else
      let d2 := mmGet s pos esc
      let pos := pos + esc
      if d2 = 2 ^ esc - 1 then
        (if mmGet s pos 1 = 1 then (none, pos + 1, numbits) else (some (some (top + 2 ^ esc - 1)), pos + 1, numbits))
      else (some (some (top + d2)), pos, numbits)
  else (some (some d), pos, numbits)

/-- a decoded value of an 8-bit block: translation table, delta predictor, output -/
def mmPut8 (ptable : Array UInt8) (delta : Bool) (st : MmSt) (v : Nat) : MmSt :=
  let n0 := (ptable[v]?.getD 0).toNat
  let n := if delta then (n0 + st.oldval) % 256 else n0
  mmWrite8 { st with oldval := if delta then n else st.oldval, p := st.p + 1 } n

/-- a decoded value of a 16-bit block: sign folding, delta predictor or sign bit flip, two output bytes -/
def mmPut16 (delta abs16 : Bool) (st : MmSt) (v : Nat) : MmSt :=
  let z := if v % 2 = 1 then (65536 - (v + 1) / 2 % 65536) % 65536 else v / 2
  let n := if delta then (z + st.oldval) % 65536 else if abs16 then z else (if z / 32768 % 2 = 1 then z - 32768 else z + 32768)
  mmWrite8 (mmWrite8 { st with oldval := if delta then n else st.oldval, p := st.p + 2 } (n % 256)) (n / 256)

def mmLoop8 (s : Array UInt8) (ptable : Array UInt8) (delta : Bool) (subs : List (Nat × Nat)) : Nat → MmSt → Option (Array UInt8)
  | 0, _ => none
  | fuel + 1, st =>
    match mmReadCode s Xmp.Gen.Depackers.mmCmd8 Xmp.Gen.Depackers.mmFetch8 8 3 0xf8 st.pos st.numbits with
    | (none, _, _) => some st.out
    | (some v?, pos, nb) =>
      let st := { st with pos := pos, numbits := nb }
      let st := match v? with
        | none => st
        | some v => mmPut8 ptable delta st v
      match mmNextSub subs st with
      | none => none
      | some (st, true) => some st.out
      | some (st, false) => mmLoop8 s ptable delta subs fuel st

def mmLoop16 (s : Array UInt8) (delta abs16 : Bool) (subs : List (Nat × Nat)) : Nat → MmSt → Option (Array UInt8)
  | 0, _ => none
  | fuel + 1, st =>
    match mmReadCode s Xmp.Gen.Depackers.mmCmd16 Xmp.Gen.Depackers.mmFetch16 16 4 0xfff0 st.pos st.numbits with
    | (none, _, _) => some st.out
    | (some v?, pos, nb) =>
      let st := { st with pos := pos, numbits := nb }
      let st := match v? with
        | none => st
        | some v => mmPut16 delta abs16 st v
      match mmNextSub subs st with
      | none => none
      | some (st, true) => some st.out
      | some (st, false) => mmLoop16 s delta abs16 subs fuel st

/-- `block_unpack_8bit` / `block_unpack_16bit` as the decoder parameter of `mmBlocks` -/
def mmDec (flags numBits tt : Nat) (subs : List (Nat × Nat)) (stream out : Bytes) : Option Bytes :=
  let delta := flags / Xmp.Gen.Depackers.mmFlagDelta % 2 = 1
  let fuel := 8 * stream.length + (subs.map (·.2)).sum + 64
  match subs with
  | [] => none
  | (p0, _) :: _ =>
    if flags / Xmp.Gen.Depackers.mmFlag16Bit % 2 = 1 then
      if p0 ≥ out.length then none
      else
        (mmLoop16 (stream.drop tt).toArray delta (flags / Xmp.Gen.Depackers.mmFlagAbs16 % 2 = 1) subs fuel
          { pos := 0, numbits := numBits % 256, j := 0, p := 0, oldval := 0, opos := p0, out := out.toArray }).map (·.toList)
    else
      let tab := stream.take 256
      if tab.length < tt then none
      else if p0 ≥ out.length then none
      else
        (mmLoop8 (stream.drop tt).toArray (tab ++ List.replicate (256 - tab.length) 0).toArray delta subs fuel
          { pos := 0, numbits := numBits % 256, j := 0, p := 0, oldval := 0, opos := p0, out := out.toArray }).map (·.toList)

def mmTable (f : Bytes) : Nat → Nat → Option (List Nat)
  | 0, _ => some []
  | n + 1, ofs => if f.length < ofs + 4 then none else (mmTable f n (ofs + 4)).map (fun r => u32At f ofs :: r)

/-- `decrunch_mmcmp` -/
def decrunchMmcmp (dec : Nat → Nat → Nat → List (Nat × Nat) → Bytes → Bytes → Option Bytes) (f : Bytes) : Option Bytes :=
  if f.length < 24 then none
  else if !(memEqAt f 0 [0x7a, 0x69, 0x52, 0x43, 0x4f, 0x4e, 0x69, 0x61]) then none
  else if u16At f 8 ≠ 14 then none
  else
    let nblocks := u16At f 12
    let filesize := u32At f 14
    let blktable := u32At f 18
    if nblocks = 0 ∨ filesize < 16 ∨ filesize > depackLimit then none
    else
      match mmTable f nblocks blktable with
      | none => none
      | some table => mmBlocks dec f table filesize (List.replicate filesize 0)

def Env.withMmcmp (env : Env) (dec : Nat → Nat → Nat → List (Nat × Nat) → Bytes → Bytes → Option Bytes) : Env :=
  { env with other := fun n f => if n = "mmcmp" then decrunchMmcmp dec f else env.other n f }

/-! ## writer: stored blocks -/

/-- sub-block table of a block whose first byte goes to output position `pos` -/
def mmSubTable : Nat → List Bytes → Bytes
  | _, [] => []
  | pos, d :: ds => le32 pos ++ le32 d.length ++ mmSubTable (pos + d.length) ds

def mmBlockBytes (pos : Nat) (subs : List Bytes) : Bytes :=
  le32 subs.flatten.length ++ le32 subs.flatten.length ++ le32 0 ++ le16 subs.length ++ le16 0 ++ le16 0 ++ le16 0 ++
  mmSubTable pos subs ++ subs.flatten

def mmBody : Nat → List (List Bytes) → Bytes
  | _, [] => []
  | pos, b :: bs => mmBlockBytes pos b ++ mmBody (pos + b.flatten.length) bs

def mmOffsets : Nat → Nat → List (List Bytes) → List Nat
  | _, _, [] => []
  | ofs, pos, b :: bs => ofs :: mmOffsets (ofs + (mmBlockBytes pos b).length) (pos + b.flatten.length) bs

/-- a complete file: `blocks` = list of blocks, each a list of sub-block contents; payload = their concatenation -/
def mmcmpWrap (blocks : List (List Bytes)) : Bytes :=
  let body := mmBody 0 blocks
  let payloadLen := (blocks.map List.flatten).flatten.length
  [0x7a, 0x69, 0x52, 0x43, 0x4f, 0x4e, 0x69, 0x61] ++ le16 14 ++ le16 0x1300 ++ le16 blocks.length ++ le32 payloadLen ++
  le32 (24 + body.length) ++ [0, 0] ++ body ++ (mmOffsets 24 0 blocks).flatMap le32


/-! ## a simple encoder for 8-bit packed blocks: identity translation table, code width fixed at 8 bits -/

/-- symbols of an 8-bit block: the bytes themselves, or their differences to the previous byte of the *block*
    (the predictor is not reset between sub-blocks) -/
def mmSyms (delta : Bool) : Nat → Bytes → List Nat
  | _, [] => []
  | prev, b :: r => (if delta then (b.toNat + 256 - prev) % 256 else b.toNat) :: mmSyms delta b.toNat r

/-- code of one symbol at width 7 (8 bits per plain code): values from 0xF8 on use the escape -/
def mmCode8 (v : Nat) : List Bool :=
  if v < 0xf8 then Lzw.natToBits 8 v
  else Lzw.natToBits 8 0xff ++ Lzw.natToBits 3 (v - 0xf8) ++ (if v = 0xff then [false] else [])

def mmIdentity : Bytes := (List.range 256).map UInt8.ofNat

/-- packed data of an 8-bit block for the concatenated sub-block contents `data` -/
def mmEncode8 (delta : Bool) (data : Bytes) : Bytes :=
  mmIdentity ++ Lzw.packBits ((mmSyms delta 0 data).flatMap mmCode8)

/-! ## writer: blocks of mixed kinds.  `none` = stored, `some delta` = 8-bit packed by `mmEncode8` (with/without DELTA) -/

def mmPayloadK : Option Bool → Bytes → Bytes
  | none, data => data
  | some delta, data => mmEncode8 delta data

def mmFlagsK : Option Bool → Nat
  | none => 0
  | some delta => Xmp.Gen.Depackers.mmFlagComp + (if delta then Xmp.Gen.Depackers.mmFlagDelta else 0)

def mmTtK : Option Bool → Nat
  | none => 0
  | some _ => 256

def mmBitsK : Option Bool → Nat
  | none => 0
  | some _ => 7

def mmBlockBytesK (kind : Option Bool) (pos : Nat) (subs : List Bytes) : Bytes :=
  le32 subs.flatten.length ++ le32 (mmPayloadK kind subs.flatten).length ++ le32 0 ++ le16 subs.length ++
  le16 (mmFlagsK kind) ++ le16 (mmTtK kind) ++ le16 (mmBitsK kind) ++ mmSubTable pos subs ++ mmPayloadK kind subs.flatten

def mmBodyK : Nat → List (Option Bool × List Bytes) → Bytes
  | _, [] => []
  | pos, b :: bs => mmBlockBytesK b.1 pos b.2 ++ mmBodyK (pos + b.2.flatten.length) bs

def mmOffsetsK : Nat → Nat → List (Option Bool × List Bytes) → List Nat
  | _, _, [] => []
  | ofs, pos, b :: bs => ofs :: mmOffsetsK (ofs + (mmBlockBytesK b.1 pos b.2).length) (pos + b.2.flatten.length) bs

/-- a complete file of stored and packed blocks; payload = concatenation of all sub-block contents -/
def mmcmpWrapK (blocks : List (Option Bool × List Bytes)) : Bytes :=
  let body := mmBodyK 0 blocks
  let payloadLen := (blocks.map (fun b => b.2.flatten)).flatten.length
  [0x7a, 0x69, 0x52, 0x43, 0x4f, 0x4e, 0x69, 0x61] ++ le16 14 ++ le16 0x1300 ++ le16 blocks.length ++ le32 payloadLen ++
  le32 (24 + body.length) ++ [0, 0] ++ body ++ (mmOffsetsK 24 0 blocks).flatMap le32

end Xmp.Container
