import XmpModel.Container
/-!
# MMCMP ("ziRCONia") files as read by `decrunch_mmcmp` (src/depackers/mmcmp.c), model for C08

24-byte header, block offset table, per block a 20-byte header and a sub-block table; blocks without the
`MMCMP_COMP` flag are copied sub-block by sub-block into the zero-filled output buffer (`block_copy`, fully
modelled); compressed blocks (8/16-bit adaptive bit coder, delta, translation table) go through the parameter `dec`.
The C reads the 32-bit size fields into `int`: values from 2^31 on are negative there and refused.
-/
namespace Xmp.Container
open Xmp

/-- `hio_read(out->buf + pos, 1, size, in)` into the output buffer -/
def mmWriteAt (out : Bytes) (pos : Nat) (d : Bytes) : Bytes := out.take pos ++ d ++ out.drop (pos + d.length)

/-- `block_copy`: sub-blocks (pos, size) are filled from consecutive input bytes -/
def mmBlockCopy : List (Nat × Nat) → Bytes → Bytes → Option Bytes
  | [], _, out => some out
  | (pos, size) :: subs, s, out =>
    if pos ≥ out.length ∨ size > out.length - pos then none
    else if s.length < size then none
    else mmBlockCopy subs (s.drop size) (mmWriteAt out pos (s.take size))

/-- read `n` sub-block descriptors at `ofs` -/
def mmSubs (f : Bytes) : Nat → Nat → Option (List (Nat × Nat))
  | 0, _ => some []
  | n + 1, ofs =>
    if f.length < ofs + 8 then none
    else if u32At f ofs ≥ 2 ^ 31 ∨ u32At f (ofs + 4) ≥ 2 ^ 31 then none
    else (mmSubs f n (ofs + 8)).map (fun r => (u32At f ofs, u32At f (ofs + 4)) :: r)

/-- the block loop; `dec flags numBits ttEntries subs stream out` = `block_unpack_8bit/16bit` -/
def mmBlocks (dec : Nat → Nat → Nat → List (Nat × Nat) → Bytes → Bytes → Option Bytes) (f : Bytes) :
    List Nat → Bytes → Option Bytes
  | [], out => some out
  | bo :: rest, out =>
    if f.length < bo + 20 then none
    else
      let unpk := u32At f bo
      let pk := u32At f (bo + 4)
      let nsub := u16At f (bo + 12)
      let flags := u16At f (bo + 14)
      let tt := u16At f (bo + 16)
      let numBits := u16At f (bo + 18)
      if unpk = 0 ∨ unpk ≥ 2 ^ 31 ∨ pk = 0 ∨ pk ≥ 2 ^ 31 then none
      else if pk ≤ tt then none
      else if nsub = 0 then none
      else if flags % 2 = 1 ∧ ((flags / 4 % 2 = 1 ∧ numBits ≥ 16) ∨ (flags / 4 % 2 = 0 ∧ numBits ≥ 8)) then none
      else
        match mmSubs f nsub (bo + 20) with
        | none => none
        | some subs =>
          let stream := f.drop (bo + 20 + 8 * nsub)
          let out? := if flags % 2 = 0 then mmBlockCopy subs stream out else dec flags numBits tt subs stream out
          match out? with
          | none => none
          | some out => mmBlocks dec f rest out

def mmTable (f : Bytes) : Nat → Nat → Option (List Nat)
  | 0, _ => some []
  | n + 1, ofs => if f.length < ofs + 4 then none else (mmTable f n (ofs + 4)).map (fun r => u32At f ofs :: r)

/-- `decrunch_mmcmp` -/
def decrunchMmcmp (dec : Nat → Nat → Nat → List (Nat × Nat) → Bytes → Bytes → Option Bytes) (f : Bytes) : Option Bytes :=
  if f.length < 24 then none
  else if !(memEqAt f 0 [0x7a, 0x69, 0x52, 0x43, 0x4f, 0x4e, 0x69, 0x61]) then none
  else if u16At f 8 ≠ 14 then none
  else
    let nblocks := u16At f 12
    let filesize := u32At f 14
    let blktable := u32At f 18
    if nblocks = 0 ∨ filesize < 16 ∨ filesize > depackLimit then none
    else
      match mmTable f nblocks blktable with
      | none => none
      | some table => mmBlocks dec f table (List.replicate filesize 0)

def Env.withMmcmp (env : Env) (dec : Nat → Nat → Nat → List (Nat × Nat) → Bytes → Bytes → Option Bytes) : Env :=
  { env with other := fun n f => if n = "mmcmp" then decrunchMmcmp dec f else env.other n f }

/-! ## writer: stored blocks -/

/-- sub-block table of a block whose first byte goes to output position `pos` -/
def mmSubTable : Nat → List Bytes → Bytes
  | _, [] => []
  | pos, d :: ds => le32 pos ++ le32 d.length ++ mmSubTable (pos + d.length) ds

def mmBlockBytes (pos : Nat) (subs : List Bytes) : Bytes :=
  le32 subs.flatten.length ++ le32 subs.flatten.length ++ le32 0 ++ le16 subs.length ++ le16 0 ++ le16 0 ++ le16 0 ++
  mmSubTable pos subs ++ subs.flatten

def mmBody : Nat → List (List Bytes) → Bytes
  | _, [] => []
  | pos, b :: bs => mmBlockBytes pos b ++ mmBody (pos + b.flatten.length) bs

def mmOffsets : Nat → Nat → List (List Bytes) → List Nat
  | _, _, [] => []
  | ofs, pos, b :: bs => ofs :: mmOffsets (ofs + (mmBlockBytes pos b).length) (pos + b.flatten.length) bs

/-- a complete file: `blocks` = list of blocks, each a list of sub-block contents; payload = their concatenation -/
def mmcmpWrap (blocks : List (List Bytes)) : Bytes :=
  let body := mmBody 0 blocks
  let payloadLen := (blocks.map List.flatten).flatten.length
  [0x7a, 0x69, 0x52, 0x43, 0x4f, 0x4e, 0x69, 0x61] ++ le16 14 ++ le16 0x1300 ++ le16 blocks.length ++ le32 payloadLen ++
  le32 (24 + body.length) ++ [0, 0] ++ body ++ (mmOffsets 24 0 blocks).flatMap le32

end Xmp.Container
