import XmpModel.WorkBound
/-!
# The IFF-style chunk walker `libxmp_iff_load` / `iff_chunk` / `iff_process` (src/loaders/iff.c), model for C02

Used by the OKT, DBM, MDL, GAL4/5, MASI, EMOD, PT3, DT, ARCH … loaders.  One loop iteration:

    while (!hio_eof(f)) {                                  -- position at/after the end: stop, return 0
      hio_read(id, 1, id_size, f) short      → return 0    -- (`iff_chunk` returns 1)
      IFF_SKIP_EMBEDDED and id = "RIFF"      → skip two 32-bit words, read the id again (short → return 0)
      size = hio_read32l/b(f); hio_error     → return -1   -- fewer than 4 bytes left
      IFF_CHUNK_ALIGN2: size > 0xfffffffe → -1 ; size = (size + 1) & ~1      (unsigned 32-bit)
      IFF_CHUNK_ALIGN4: size > 0xfffffffc → -1 ; size = (size + 3) & ~3
      IFF_FULL_CHUNK_SIZE and id ≠ "PTDT": size < id_size + 4 → -1 ; size -= id_size + 4
      pos = hio_tell(f)
      first registered id equal to id (id_size bytes compared):
          size > IFF_MAX_CHUNK_SIZE → -1 ;  loader(m, size, f, parm) < 0 → -1
      hio_seek(f, pos + size, SEEK_SET) < 0 → -1           -- `pos + size` in `long` (LP64: no wrap)
    }

`pos + size` is computed in `long` from an `int` position and an `unsigned` size, so on the LP64 target it
is a non-negative number below 2^31 + 2^32: the seek never fails for that reason and never goes backwards.
Memory handles clamp the target to the size of the data (`mseek`), FILE handles keep it (the next read is
then short); both are covered by `clamp`.  What the loaders read or where they leave the position is
irrelevant: the walker seeks to `pos + size` afterwards.  The only thing a loader contributes is whether it
fails (`Handler.ok`).

`IFF_CHUNK_TRUNC4` is set by the GAL4 loader but not used by iff.c.
-/
namespace Xmp.Iff
open Xmp Xmp.Work

def fLittle : Nat := 0x01
def fFull : Nat := 0x02
def fAlign2 : Nat := 0x04
def fAlign4 : Nat := 0x08
def fSkipEmb : Nat := 0x10
/-- `IFF_MAX_CHUNK_SIZE` -/
def maxChunk : Nat := 0x800000

structure Cfg where
  idSize : Nat          -- `data->id_size`: 4, or 2 (MDL)
  flags : Nat           -- `data->flags`
  clamp : Bool          -- memory handle (`mseek` clamps the target to the data size)
  deriving Repr

def Cfg.has (c : Cfg) (bit : Nat) : Bool := c.flags &&& bit != 0

/-- one `libxmp_iff_register` entry: the id (4 bytes, NUL padded) and whether its loader succeeds for (size, pos) -/
structure Handler where
  id : Bytes
  ok : Nat → Nat → Bool

def u8 (f : Bytes) (p : Nat) : Nat := (f.getD p 0).toNat
def be32 (f : Bytes) (p : Nat) : Nat := 16777216 * u8 f p + 65536 * u8 f (p + 1) + 256 * u8 f (p + 2) + u8 f (p + 3)
def le32 (f : Bytes) (p : Nat) : Nat := u8 f p + 256 * u8 f (p + 1) + 65536 * u8 f (p + 2) + 16777216 * u8 f (p + 3)
def slice (f : Bytes) (p n : Nat) : Bytes := (f.drop p).take n

/-- the first four bytes of `char id[17] = ""` after `id_size` bytes were read into it -/
def pad4 (id : Bytes) : Bytes := (id ++ [0, 0, 0, 0]).take 4

def idRIFF : Bytes := [0x52, 0x49, 0x46, 0x46]
def idPTDT : Bytes := [0x50, 0x54, 0x44, 0x54]

/-- what `iff_process` does with one chunk, in the order it happens -/
structure Visit where
  pos : Nat                 -- `hio_tell` at the start of `iff_process` (first byte of the chunk body)
  id : Bytes
  size : Nat                -- the size after alignment / full-size correction
  loaderCalled : Bool       -- a registered loader ran (`size ≤ IFF_MAX_CHUNK_SIZE`)
  seek : Option Nat         -- target of `hio_seek(f, pos + size, SEEK_SET)`, if reached
  deriving Repr, DecidableEq

/-- result of `libxmp_iff_load`: `true` = 0, `false` = −1; the chunks visited -/
abbrev Res := Bool × List Visit

def consV (v : Visit) (r : Res) : Res := (r.1, v :: r.2)

/-- the chunk id: `id_size` bytes, with the embedded-RIFF hack (skip two 32-bit words, read the next id instead).
    `none` = a short read (`iff_chunk` returns 1, the walk ends with 0); `some (id, position after the id)` -/
def readId (c : Cfg) (f : Bytes) (p : Nat) : Option (Bytes × Nat) :=
  let n := f.length
  if n - p < c.idSize then none
  else
    let id0 := slice f p c.idSize
    let p0 := p + c.idSize
    if c.has fSkipEmb && pad4 id0 == idRIFF then
      let q := min n (min n (p0 + 4) + 4)            -- two `hio_read32b`, each advances by what is left, at most 4
      if n - q < c.idSize then none else some (slice f q c.idSize, q + c.idSize)
    else some (id0, p0)

/-- the corrections `iff_chunk` applies to the 32-bit size field (`unsigned` arithmetic); `none` = return −1 -/
def chunkSize (c : Cfg) (id : Bytes) (raw : Nat) : Option Nat :=
  if c.has fAlign2 && decide (raw > 0xfffffffe) then none
  else
    let s1 := if c.has fAlign2 then ((raw + 1) % 2 ^ 32) &&& 0xfffffffe else raw
    if c.has fAlign4 && decide (s1 > 0xfffffffc) then none
    else
      let s2 := if c.has fAlign4 then ((s1 + 3) % 2 ^ 32) &&& 0xfffffffc else s1
      if c.has fFull && pad4 id != idPTDT then
        (if s2 < c.idSize + 4 then none else some (s2 - (c.idSize + 4)))
      else some s2

/-- `iff_process` for the chunk whose body starts at `p2` -/
def process (c : Cfg) (hs : List Handler) (f : Bytes) (id : Bytes) (p2 size : Nat) : Out Nat Res :=
  let h := hs.find? (fun e => e.id.take c.idSize == id)
  let tgt := p2 + size
  if h.isSome && decide (size > maxChunk) then
    .done (false, [{ pos := p2, id := id, size := size, loaderCalled := false, seek := none }])
  else if (match h with | some e => !(e.ok size p2) | none => false) then
    .done (false, [{ pos := p2, id := id, size := size, loaderCalled := true, seek := none }])
  else
    .wrap (if c.clamp then min f.length tgt else tgt)
      (consV { pos := p2, id := id, size := size, loaderCalled := h.isSome, seek := some tgt })

/-- one iteration of the `while (!hio_eof(f))` loop of `libxmp_iff_load` at position `p` -/
def chunkStep (c : Cfg) (hs : List Handler) (f : Bytes) (p : Nat) : Out Nat Res :=
  if f.length ≤ p then .done (true, [])
  else
    match readId c f p with
    | none => .done (true, [])
    | some (id, p1) =>
      if f.length - p1 < 4 then .done (false, [])          -- size field cut short: `hio_error` → −1
      else
        match chunkSize c id (if c.has fLittle then le32 f p1 else be32 f p1) with
        | none => .done (false, [])
        | some size => process c hs f id (p1 + 4) size

/-- the fuel `iffLoad` gives its loop: every iteration consumes at least `id_size + 4` bytes -/
def iffFuel (c : Cfg) (f : Bytes) : Nat := f.length / (c.idSize + 4) + 2

/-- `libxmp_iff_load` on a stream positioned at `start` (the loaders call it after their own header) -/
def iffLoad (c : Cfg) (hs : List Handler) (f : Bytes) (start : Nat) : Run Res :=
  run (chunkStep c hs f) (iffFuel c f) start

end Xmp.Iff
