import XmpModel.Basic
import XmpModel.Gen.Depackers
import XmpModel.Md5
import XmpModel.Lzw
import XmpModel.PowerPacker
/-!
# Container layer of the built-in depackers (model for C08)

What is modelled (mirrors the C that exists, entropy decoders are parameters):
* `libxmp_exclude_match` over the generated globs with the `fnmatch(…, 0)` subset they use
  (`*`, `?`, `\c`, literals);
* the signature tests (generated `Magic` terms, `is_arc_archive` by hand over generated method
  lists) and the dispatch loop of `libxmp_decrunch` (first match in `depacker_list` order, sniff
  buffer zero-filled, minimum size);
* `decrunch_gzip`: RFC 1952 header options, hand-over of exactly the deflate stream, CRC-32/ISIZE gate;
* `arc_read`: ARC/Spark entry walk (directories, end markers, skipping of unsupported / junk /
  excluded members), stored methods, RLE90 (`arc_unrle90_block`, fully modelled), CRC-16 gate;
* member selection of the zip / LHA / ArcFS walks on the parsed member list, zip central-directory
  walk on bytes (`zipMembers`);
* `decrunch_compress` completely (`XmpModel.Lzw`: header, LZW decoder) and `decrunch_pp` completely
  (`XmpModel.PowerPacker`: header checks, bit reader, literal runs and matches);
* `hio_reopen_mem` (empty output refused) and the pipeline `loadByPath` = loader ∘ decrunch with the
  MD5 of the stream the loader read.
-/
namespace Xmp.Container
open Xmp Xmp.Gen.Depackers

/-! ## fnmatch subset and `libxmp_exclude_match` -/

def cStar : UInt8 := 0x2a
def cQmark : UInt8 := 0x3f
def cBslash : UInt8 := 0x5c

/-- does `f` hold for some suffix of the string (the `*` loop of fnmatch) -/
def anySuffix (f : Bytes → Bool) : Bytes → Bool
  | [] => f []
  | c :: s => f (c :: s) || anySuffix f s

/-- `fnmatch(pattern, string, 0) == 0` for patterns made of `*`, `?`, `\c` and literals -/
def globFn : Bytes → Bytes → Bool
  | [] => fun s => s.isEmpty
  | [c] => fun s =>
    if c = cStar then true
    else if c = cQmark then s.length == 1
    else s == [c]
  | c :: c2 :: p =>
    let k1 := globFn (c2 :: p)
    let k2 := globFn p
    fun s =>
      if c = cStar then anySuffix k1 s
      else if c = cQmark then (match s with | [] => false | _ :: t => k1 t)
      else if c = cBslash then (match s with | [] => false | x :: t => x == c2 && k2 t)
      else (match s with | [] => false | x :: t => x == c && k1 t)

/-- `libxmp_exclude_match(name)` -/
def excludeMatch (name : Bytes) : Bool := excludeGlobs.any (fun g => globFn g name)

/-! ## signature tests and dispatch -/

def bAt (b : Bytes) (i : Nat) : Nat := (b.getD i 0).toNat

/-- the filename scan of `is_arc_archive`: a NUL within 13 bytes, only printable bytes before it -/
def arcNameScan (b : Bytes) : Nat → Nat → Bool
  | _, 0 => false
  | i, fuel + 1 =>
    let c := bAt b (i + 2)
    if c == 0 then true
    else if c < 32 || c == 0x7f then false
    else arcNameScan b (i + 1) fuel

def arcTest (b : Bytes) : Bool :=
  bAt b 0 == 0x1a && arcNameScan b 0 13 &&
  (arcTestPlain.contains (bAt b 1) || (bAt b 1 ≥ 0x80 && arcTestSpark.contains (bAt b 1 - 0x80)))

def memEqAt (b : Bytes) (off : Nat) : List Nat → Bool
  | [] => true
  | v :: vs => bAt b off == v && memEqAt b (off + 1) vs

def evalMagic : Magic → Bytes → Bool
  | .tt, _ => true
  | .ff, _ => false
  | .byteEq off v, b => bAt b off == v
  | .byteLe off v, b => bAt b off ≤ v
  | .memEq off vs, b => memEqAt b off vs
  | .not a, b => !(evalMagic a b)
  | .and a c, b => evalMagic a b && evalMagic c b
  | .or a c, b => evalMagic a b || evalMagic c b
  | .arcTest, b => arcTest b

/-- the first `sniffSize` bytes (the rest of `b[]` is zero: `getD … 0`) -/
def sniff (file : Bytes) : Bytes := file.take sniffSize

/-- which built-in depacker `libxmp_decrunch` selects (`none`: not packed) -/
def dispatch (file : Bytes) : Option String :=
  if (sniff file).length < minHeaderSize then none
  else (depackerList.find? (fun e => evalMagic e.2.2 (sniff file))).map (·.1)

/-! ## check codes (bitwise definitions; the theorems hold for any check function) -/

def crc32Step (c : UInt32) (b : UInt8) : UInt32 :=
  (List.range 8).foldl (fun c _ => if c &&& 1 = 1 then (c >>> 1) ^^^ 0xEDB88320 else c >>> 1)
    (c ^^^ b.toUInt32)

def crc32From (c0 : UInt32) (d : Bytes) : UInt32 := ~~~ (d.foldl crc32Step (~~~ c0))
def crc32 (d : Bytes) : UInt32 := crc32From 0 d

def crc16Step (c : UInt16) (b : UInt8) : UInt16 :=
  (List.range 8).foldl (fun c _ => if c &&& 1 = 1 then (c >>> 1) ^^^ 0xA001 else c >>> 1)
    (c ^^^ b.toUInt16)

def crc16 (d : Bytes) : UInt16 := d.foldl crc16Step 0

def u16le (a b : UInt8) : Nat := a.toNat + 256 * b.toNat
def u32le (a b c d : UInt8) : Nat := a.toNat + 256 * b.toNat + 65536 * c.toNat + 16777216 * d.toNat
def u32At (b : Bytes) (i : Nat) : Nat :=
  u32le (b.getD i 0) (b.getD (i+1) 0) (b.getD (i+2) 0) (b.getD (i+3) 0)
def u16At (b : Bytes) (i : Nat) : Nat := u16le (b.getD i 0) (b.getD (i+1) 0)

def le16 (n : Nat) : Bytes := [UInt8.ofNat (n % 256), UInt8.ofNat (n / 256 % 256)]
def le32 (n : Nat) : Bytes :=
  [UInt8.ofNat (n % 256), UInt8.ofNat (n / 256 % 256), UInt8.ofNat (n / 65536 % 256), UInt8.ofNat (n / 16777216 % 256)]

/-! ## gzip (`decrunch_gzip`) -/

/-- skip a NUL-terminated field (`do c = hio_read8 while c != 0`); `none`: EOF before the NUL -/
def skipZ : Bytes → Option Bytes
  | [] => none
  | c :: r => if c = 0 then some r else skipZ r

def hasFlag (flg : UInt8) (bit : Nat) : Bool := flg.toNat &&& bit != 0

/-- FEXTRA: `xlen = hio_read16l; hio_seek(xlen, SEEK_CUR)` (a seek past the end fails later) -/
def gzSkipExtra : Bytes → Option Bytes
  | x0 :: x1 :: r => if u16le x0 x1 ≤ r.length then some (r.drop (u16le x0 x1)) else none
  | _ => none

/-- FHCRC: `hio_read16l`, value ignored -/
def gzSkip2 (r : Bytes) : Option Bytes := if 2 ≤ r.length then some (r.drop 2) else none

/-- header parse: returns the bytes that follow the header (deflate stream ++ trailer) -/
def gzipBody (f : Bytes) : Option Bytes :=
  match f with
  | _id1 :: _id2 :: cm :: flg :: _m0 :: _m1 :: _m2 :: _m3 :: _xfl :: _os :: r0 =>
    if cm ≠ 8 then none else
    (if hasFlag flg gzFEXTRA then gzSkipExtra r0 else some r0) >>= fun r1 =>
    (if hasFlag flg gzFNAME then skipZ r1 else some r1) >>= fun r2 =>
    (if hasFlag flg gzFCOMMENT then skipZ r2 else some r2) >>= fun r3 =>
    (if hasFlag flg gzFHCRC then gzSkip2 r3 else some r3)
  | _ => none

/-- the CRC-32 / ISIZE gate of `decrunch_gzip` -/
def gzipGate (crc : Bytes → UInt32) (trailer : Bytes) (out : Bytes) : Option Bytes :=
  if u32At trailer 0 ≠ (crc out).toNat then none
  else if u32At trailer 4 ≠ out.length ∨ ¬ out.length < 2^31 then none
  else some out

/-- `decrunch_gzip` with the inflate routine as parameter -/
def gunzip (crc : Bytes → UInt32) (dec : Bytes → Option Bytes) (f : Bytes) : Option Bytes :=
  match gzipBody f with
  | none => none
  | some r =>
    if r.length < 8 then none
    else
      match dec (r.take (r.length - 8)) with
      | none => none
      | some out => gzipGate crc (r.drop (r.length - 8)) out

/-- what the real code hands to `tinfl_decompress_mem_to_heap`: (offset, length) of the deflate stream -/
def gzipStream (f : Bytes) : Option (Nat × Nat) :=
  match gzipBody f with
  | none => none
  | some r => if r.length < 8 then none else some (f.length - r.length, r.length - 8)

/-- encoder-side options of a gzip member (RFC 1952) -/
structure GzOpts where
  ftext : Bool := false
  reserved : Nat := 0              -- reserved flag bits 5..7 (0..7), ignored by the reader
  mtime : Nat := 0
  xfl : UInt8 := 0
  os : UInt8 := 3
  extra : Option Bytes := none
  name : Option Bytes := none
  comment : Option Bytes := none
  hcrc : Option (UInt8 × UInt8) := none      -- the reader does not verify the header CRC
  deriving Repr

def GzOpts.flg (o : GzOpts) : Nat :=
  (if o.ftext then gzFTEXT else 0) + (if o.hcrc.isSome then gzFHCRC else 0) +
  (if o.extra.isSome then gzFEXTRA else 0) + (if o.name.isSome then gzFNAME else 0) +
  (if o.comment.isSome then gzFCOMMENT else 0) + 32 * (o.reserved % 8)

def noNul (b : Bytes) : Prop := ∀ x ∈ b, x ≠ 0

def GzOpts.Legal (o : GzOpts) : Prop :=
  (∀ e, o.extra = some e → e.length < 65536) ∧
  (∀ n, o.name = some n → noNul n) ∧ (∀ c, o.comment = some c → noNul c)

def optField (x : Option Bytes) (f : Bytes → Bytes) : Bytes :=
  match x with | none => [] | some b => f b

def hcrcField : Option (UInt8 × UInt8) → Bytes
  | none => []
  | some (a, b) => [a, b]

def gzipHeader (o : GzOpts) : Bytes :=
  [0x1f, 0x8b, 8, UInt8.ofNat o.flg] ++ le32 o.mtime ++ [o.xfl, o.os] ++
  optField o.extra (fun e => le16 e.length ++ e) ++
  optField o.name (fun n => n ++ [0]) ++
  optField o.comment (fun c => c ++ [0]) ++
  hcrcField o.hcrc

/-- a gzip member around the deflate stream `cdata` of payload `p` -/
def gzipWrap (crc : Bytes → UInt32) (o : GzOpts) (cdata p : Bytes) : Bytes :=
  gzipHeader o ++ cdata ++ le32 (crc p).toNat ++ le32 p.length

/-! ## RLE90 (`arc_unrle90_block` + `arc_unpack_rle90`), fully modelled -/

/-- state: remaining room in `dest`, output so far (reversed), `last_byte`, `in_rle_code`,
    "inside a literal block that already started" -/
def unrle90Go : Bytes → Nat → Bytes → UInt8 → Bool → Bool → Option (Nat × Bytes)
  | [], room, acc, _, _, _ => some (room, acc)
  | b :: src, room, acc, last, true, _ =>
    if b = 0 then
      if room = 0 then none else unrle90Go src (room - 1) (0x90 :: acc) 0x90 false false
    else
      let len := b.toNat - 1
      if len > room then none
      else unrle90Go src (room - len) (List.replicate len last ++ acc) last false false
  | b :: src, room, acc, last, false, blk =>
    if b = 0x90 then unrle90Go src room acc last true false
    else if room > 0 then unrle90Go src (room - 1) (b :: acc) b false true
    else if blk then unrle90Go src room acc b false true      -- tail of a truncated block is dropped
    else some (room, acc)                                     -- `break`: no room at the start of a block

/-- `arc_unpack(dest, dest_len, src, …, ARC_M_PACKED)` -/
def unrle90 (destLen : Nat) (src : Bytes) : Option Bytes :=
  match unrle90Go src destLen [] 0 false false with
  | some (0, acc) => some acc.reverse
  | _ => none

/-- tokens of an RLE90 stream (what any encoder emits) -/
inductive Tok where
  | lit (b : UInt8)        -- a byte other than 0x90
  | lit90                  -- `90 00`
  | rep (n : UInt8)        -- `90 n`, n ≥ 1: n-1 further copies of the previous output byte
  deriving Repr, DecidableEq

def Tok.render : Tok → Bytes
  | .lit b => [b]
  | .lit90 => [0x90, 0]
  | .rep n => [0x90, n]

/-- meaning of a token stream: (output reversed, last byte) -/
def expandGo : List Tok → Bytes → UInt8 → Bytes
  | [], acc, _ => acc
  | .lit b :: ts, acc, _ => expandGo ts (b :: acc) b
  | .lit90 :: ts, acc, _ => expandGo ts (0x90 :: acc) 0x90
  | .rep n :: ts, acc, last => expandGo ts (List.replicate (n.toNat - 1) last ++ acc) last

def expand (ts : List Tok) : Bytes := (expandGo ts [] 0).reverse
def render (ts : List Tok) : Bytes := ts.flatMap Tok.render

def Tok.Ok : Tok → Prop
  | .lit b => b ≠ 0x90
  | .lit90 => True
  | .rep n => n ≠ 0

/-- a simple concrete encoder (runs of ≥ 3 equal bytes other than 0x90 become `b 90 n`) -/
def runLen (b : UInt8) : Bytes → Nat → Nat
  | [], n => n
  | c :: r, n => if c = b ∧ n < 255 then runLen b r (n + 1) else n

def rle90EncFuel : Nat → Bytes → List Tok
  | 0, _ => []
  | _, [] => []
  | fuel + 1, b :: r =>
    if b = 0x90 then .lit90 :: rle90EncFuel fuel r
    else
      let n := runLen b r 1
      if n ≥ 3 then .lit b :: .rep (UInt8.ofNat n) :: rle90EncFuel fuel (r.drop (n - 1))
      else .lit b :: rle90EncFuel fuel r

def rle90Enc (p : Bytes) : List Tok := rle90EncFuel p.length p

/-! ## ARC / Spark (`arc_read`) -/

def arcHeaderLength (method : Nat) : Nat :=
  if method % 128 = arcEndOfArchive ∨ method = arc6EndOfDir then 2
  else
    (if method % 128 = arcUnpackedOld then arcHeaderSize - 4 else arcHeaderSize) +
    (if method ≥ 128 then sparkHeaderExtra else 0)

def arcIsPacked (method : Nat) : Bool :=
  !(method % 128 = arcUnpacked || method % 128 = arcUnpackedOld)

/-- C string of a fixed field: bytes up to the first NUL -/
def cstr (b : Bytes) : Bytes := b.takeWhile (· ≠ 0)

structure ArcEntry where
  method : Nat
  filename : Bytes := []
  csize : Nat := 0
  crc : Nat := 0
  usize : Nat := 0
  loadAddr : Nat := 0
  deriving Repr

/-- `arc_read_entry`: returns the entry and the rest of the stream -/
def arcReadEntry (f : Bytes) : Option (ArcEntry × Bytes) :=
  match f with
  | m0 :: m1 :: r =>
    if m0 ≠ 0x1a then none else
    let method := m1.toNat
    let hl := arcHeaderLength method
    if hl ≤ 2 then some ({ method := method }, r)
    else if r.length < hl - 2 then none
    else
      let buf := m0 :: m1 :: r.take (hl - 2)
      let cs := u32At buf 15
      some ({ method := method, filename := cstr ((buf.drop 2).take 12), csize := cs, crc := u16At buf 23,
              usize := if arcIsPacked method then u32At buf 25 else cs,
              loadAddr := if method ≥ 128 then u32At buf (hl - sparkHeaderExtra) else 0 },
            r.drop (hl - 2))
  | _ => none

def arcIsDirectory (e : ArcEntry) : Bool :=
  e.method = arc6Dir || (e.method = 128 + arcUnpacked && e.loadAddr / 256 = 0xfffddc)

def depackLimit : Nat := 512 * 1048576

/-- `arc_read`.  `dec method cdata usize` stands for `arc_unpack` on the methods that are not modelled
    (squeezed, crunched, squashed, compressed).  Result: `none` = -1. -/
def arcReadFuel (crc : Bytes → UInt16) (dec : Nat → Bytes → Nat → Option Bytes) (fileLen : Nat) :
    Nat → Bytes → Nat → Option Bytes
  | 0, _, _ => none
  | fuel + 1, f, level =>
    match arcReadEntry f with
    | none => none
    | some (e, r) =>
      if e.method % 128 = arcEndOfArchive ∨ e.method = arc6EndOfDir then
        if level > 0 then arcReadFuel crc dec fileLen fuel r (level - 1) else none
      else if arcIsDirectory e then arcReadFuel crc dec fileLen fuel r (level + 1)
      else if !(arcSupported.contains (e.method % 128)) || e.csize > fileLen || e.usize > depackLimit
              || excludeMatch e.filename then
        -- hio_seek(f, compressed_size, SEEK_CUR): seeking past the end makes the next header read fail
        if e.csize ≤ r.length then arcReadFuel crc dec fileLen fuel (r.drop e.csize) level else none
      else if r.length < e.csize then none
      else
        let cdata := r.take e.csize
        let out? :=
          if arcIsPacked e.method then
            (if e.method % 128 = arcPacked then unrle90 e.usize cdata else dec (e.method % 128) cdata e.usize)
          else some cdata
        match out? with
        | none => none
        | some out => if (crc out).toNat ≠ e.crc then none else some out

def arcRead (crc : Bytes → UInt16) (dec : Nat → Bytes → Nat → Option Bytes) (f : Bytes) : Option Bytes :=
  arcReadFuel crc dec f.length (f.length + 1) f 0

/-- encoder side: one ARC/Spark member -/
structure ArcMember where
  name : Bytes            -- ≤ 12 bytes, no NUL
  method : Nat            -- 1, 2, 3 (+128 for Spark)
  data : Bytes
  date : Nat := 0
  time : Nat := 0
  attrs : Bytes := List.replicate 12 0     -- Spark: load, exec, attributes
  toks : List Tok := []                    -- method 3: the encoder's token stream, expand toks = data
  deriving Repr

def ArcMember.cdata (m : ArcMember) : Bytes :=
  if m.method % 128 = arcPacked then render m.toks else m.data

def arcEntryBytes (crc : Bytes → UInt16) (m : ArcMember) : Bytes :=
  [0x1a, UInt8.ofNat m.method] ++ (m.name ++ List.replicate (13 - m.name.length) 0) ++
  le32 m.cdata.length ++ le16 m.date ++ le16 m.time ++ le16 (crc m.data).toNat ++
  (if m.method % 128 = arcUnpackedOld then [] else le32 m.data.length) ++
  (if m.method ≥ 128 then m.attrs else []) ++ m.cdata

def arcWrap (crc : Bytes → UInt16) (ms : List ArcMember) (spark : Bool) : Bytes :=
  ms.flatMap (arcEntryBytes crc) ++ [0x1a, if spark then 0x80 else 0]

/-! ## member selection on a parsed member list (zip / LHA / ArcFS walks) -/

structure Member where
  name : Bytes
  isDir : Bool := false
  supported : Bool := true
  method : Nat := 0
  cdata : Bytes := []
  usize : Nat := 0
  check : Nat := 0
  deriving Repr, DecidableEq

/-- the walk shared by decrunch_zip / decrunch_lha / arcfs_read: first member that is a regular,
    supported file whose name is not excluded -/
def selectMember (ms : List Member) : Option Member :=
  ms.find? (fun m => !m.isDir && m.supported && !excludeMatch m.name)

/-- index version (what the spy log shows) -/
def selectIndex (ms : List Member) : Option Nat :=
  let i := ms.findIdx (fun m => !m.isDir && m.supported && !excludeMatch m.name)
  if i < ms.length then some i else none

/-- extraction + integrity gate of the selected member (`stored` copied, other methods through `dec`) -/
def extractMember (crc : Bytes → Nat) (dec : Nat → Bytes → Option Bytes) (m : Member) : Option Bytes :=
  let out? := if m.method = 0 then some m.cdata else dec m.method m.cdata
  match out? with
  | none => none
  | some out => if out.length ≠ m.usize ∨ crc out ≠ m.check then none else some out

def unpackMembers (crc : Bytes → Nat) (dec : Nat → Bytes → Option Bytes) (ms : List Member) : Option Bytes :=
  match selectMember ms with
  | none => none
  | some m => extractMember crc dec m

/-! ## zip central directory walk on bytes (miniz `mz_zip_reader_init` + the loop of `decrunch_zip`) -/

def sigAt (f : Bytes) (i : Nat) (a b c d : Nat) : Bool :=
  bAt f i == a && bAt f (i+1) == b && bAt f (i+2) == c && bAt f (i+3) == d

/-- plain backward search for the end-of-central-directory record (specification of `locateEocd`) -/
def findEocd (f : Bytes) : Nat → Option Nat
  | 0 => if sigAt f 0 0x50 0x4b 5 6 then some 0 else none
  | i + 1 => if sigAt f (i + 1) 0x50 0x4b 5 6 then some (i + 1) else findEocd f i

structure ZipEntry where
  name : Bytes
  method : Nat
  flags : Nat
  crc : Nat
  csize : Nat
  usize : Nat
  extAttr : Nat
  localOfs : Nat
  deriving Repr

def zipCdEntries (f : Bytes) : Nat → Nat → List ZipEntry
  | 0, _ => []
  | n + 1, ofs =>
    if !sigAt f ofs 0x50 0x4b 1 2 then []
    else
      let nl := u16At f (ofs + 28)
      let el := u16At f (ofs + 30)
      let cl := u16At f (ofs + 32)
      { name := (f.drop (ofs + 46)).take nl, method := u16At f (ofs + 10), flags := u16At f (ofs + 8),
        crc := u32At f (ofs + 16), csize := u32At f (ofs + 20), usize := u32At f (ofs + 24),
        extAttr := u32At f (ofs + 38), localOfs := u32At f (ofs + 42) } :: zipCdEntries f n (ofs + 46 + nl + el + cl)

/-- `for (i = n - 4; i >= 0; --i)` of `mz_zip_reader_locate_header_sig` over the window that starts at `cur`:
    the highest of the `k` candidate offsets with the signature and a whole 22-byte record behind it -/
def scanWin (f : Bytes) (cur : Nat) : Nat → Option Nat
  | 0 => none
  | k + 1 =>
    if sigAt f (cur + k) 0x50 0x4b 5 6 && decide (cur + k + 22 ≤ f.length) then some (cur + k)
    else scanWin f cur k

/-- the window loop of `mz_zip_reader_locate_header_sig` (as fixed in /repo 956fc91: `cur - 4093` is clamped at 0):
    4096-byte windows from the end of the file, consecutive windows overlap by 3 bytes, give up at offset 0 or
    once 65535 + 22 bytes from the end have been searched -/
def locateGo (f : Bytes) : Nat → Nat → Option Nat
  | 0, _ => none
  | fuel + 1, cur =>
    match scanWin f cur (min 4096 (f.length - cur) - 3) with
    | some p => some p
    | none => if cur = 0 ∨ f.length - cur ≥ 65535 + 22 then none else locateGo f fuel (cur - 4093)

/-- `mz_zip_reader_locate_header_sig(pZip, END_OF_CENTRAL_DIR_SIG, 22, &ofs)` -/
def locateEocd (f : Bytes) : Option Nat :=
  if f.length < 22 then none else locateGo f (f.length / 4093 + 2) (f.length - 4096)

/-- central directory entries (no zip64 here: those archives are outside the byte-level model) -/
def zipEntries (f : Bytes) : Option (List ZipEntry) :=
  match locateEocd f with
  | none => none
  | some e => some (zipCdEntries f (u16At f (e + 10)) (u32At f (e + 16)))

def ZipEntry.isDir (z : ZipEntry) : Bool :=
  (match z.name.getLast? with | some c => c == 0x2f | none => false) || (z.extAttr &&& 0x10 != 0)

/-- `mz_zip_reader_is_file_supported`: stored/deflated, not encrypted, no patch data -/
def ZipEntry.supported (z : ZipEntry) : Bool :=
  (z.method == 0 || z.method == 8) && (z.flags &&& (1 ||| 32 ||| 64 ||| 8192)) == 0

def ZipEntry.toMember (f : Bytes) (z : ZipEntry) : Member :=
  let lo := z.localOfs
  let dataOfs := lo + 30 + u16At f (lo + 26) + u16At f (lo + 28)
  { name := cstr z.name, isDir := z.isDir, supported := z.supported, method := z.method,
    cdata := (f.drop dataOfs).take z.csize, usize := z.usize, check := z.crc }

def zipMembers (f : Bytes) : Option (List Member) :=
  (zipEntries f).map (fun es => es.map (ZipEntry.toMember f))

def unzip (crc : Bytes → Nat) (dec : Nat → Bytes → Option Bytes) (f : Bytes) : Option Bytes :=
  match zipMembers f with
  | none => none
  | some ms => unpackMembers crc dec ms

/-! ## `libxmp_decrunch` and the load pipeline -/

/-- entropy decoders and check codes the pipeline is parameterised over -/
structure Env where
  crc32 : Bytes → UInt32
  crc16 : Bytes → UInt16
  inflate : Bytes → Option Bytes
  arcDec : Nat → Bytes → Nat → Option Bytes
  /-- every depacker whose framing is not modelled: whole-file decoder by depacker name -/
  other : String → Bytes → Option Bytes

/-- `decrunch_internal` tail: `hio_reopen_mem` refuses an empty output -/
def reopenMem (out : Option Bytes) : Option Bytes :=
  match out with
  | some o => if o.length = 0 then none else some o
  | none => none

/-- `libxmp_decrunch`: `none` = error (-1); `some s` = the stream the loader will read -/
def decrunch (env : Env) (file : Bytes) : Option Bytes :=
  match dispatch file with
  | none => some file
  | some "gzip" => reopenMem (gunzip env.crc32 env.inflate file)
  | some "arc" => reopenMem (arcRead env.crc16 env.arcDec file)
  | some "compress" => reopenMem (Lzw.unlzw file)          -- fully modelled (XmpModel.Lzw), no parameter
  | some "pp" => reopenMem (PowerPacker.decrunchPP file)   -- fully modelled (XmpModel.PowerPacker)
  | some "zip" => reopenMem (unzip (fun b => (env.crc32 b).toNat) (fun m c => if m = 8 then env.inflate c else none) file)
  | some n => reopenMem (env.other n file)

/-- `xmp_load_module(path)`: decrunch, run the loader on the resulting stream, MD5 of that stream
    (`set_md5sum` reads it in `md5ReadChunk`-byte pieces) -/
def loadByPath {β : Type} (env : Env) (loader : Bytes → β) (file : Bytes) : Option (β × Bytes) :=
  (decrunch env file).map (fun s => (loader s, Md5.md5sumLoop md5ReadChunk s))

/-- `xmp_load_module_from_memory(payload)` -/
def loadFromMemory {β : Type} (loader : Bytes → β) (p : Bytes) : β × Bytes :=
  (loader p, Md5.md5sumLoop md5ReadChunk p)

end Xmp.Container
