import XmpModel.Basic
/-!
# Model of libxmp's stream layer `hio_*` (src/hio.c) over its three back-ends

* `File`  — `FILE *` (src/dataio.c `read8..read32b`, glibc `fread/fseek/ftell/feof`
            on a regular file opened "rb"),
* `Mem`   — `MFILE` (src/memio.c, src/mdataio.h),
* `Cb`    — `CBFILE` (src/callbackio.h) over *user supplied* callbacks
            (`Callbacks σ`; `Legal` is the contract a callback has to honour,
            `memCb` the concrete family used by the harness),

all over the same byte string `bytes`, plus `Spec`, the abstract stream that is
defined exactly where the three back-ends cannot be told apart.

Observable results are normalised the way the property compares them:
`hio_error` and `hio_eof` as zero/non-zero, `hio_seek` as 0 / -1.  The error
field `h->error` is kept three-valued (`0`, `EOF`, anything else) because
`hio_seek` clears exactly the value `EOF`.

`StreamProg α` is the free monad over the operations: any loader or test
function that touches its handle only through `hio_*` is such a program
(checked premise: `XmpModel/Gen/HioUsers.lean`).
-/
namespace Xmp.Stream

/-- `h->error`: 0, `EOF` (-1), or any other value (`errno`, `EINVAL`, `-2`). -/
inductive Err where
  | none | eof | other
  deriving DecidableEq, Repr, Inhabited

inductive Whence where
  | set | cur | end_
  deriving DecidableEq, Repr, Inhabited

/-- the eight fixed-width reads `hio_read8 … hio_read32b` -/
inductive Word where
  | u8 | s8 | l16 | b16 | l24 | b24 | l32 | b32
  deriving DecidableEq, Repr, Inhabited

inductive Op where
  | word (w : Word)
  /-- `hio_read(buf, size, num, h)` -/
  | read (size num : Nat)
  | seek (off : Int) (w : Whence)
  | tell | eof | error | size
  deriving DecidableEq, Repr, Inhabited

/-- What the caller can observe of one operation. -/
inductive Out where
  /-- numeric result (value read, seek status 0 or -1, position, size, eof 0/1, error 0/1) -/
  | val (v : Int)
  /-- `hio_read`: return value, the bytes of the complete items, the bytes of a
  trailing partial item left in `buf` -/
  | data (ret : Nat) (items tail : Bytes)
  deriving DecidableEq, Repr, Inhabited

def Word.len : Word → Nat
  | .u8 | .s8 => 1
  | .l16 | .b16 => 2
  | .l24 | .b24 => 3
  | .l32 | .b32 => 4

def leVal : Bytes → Nat
  | [] => 0
  | b :: bs => b.toNat + 256 * leVal bs

def beVal (bs : Bytes) : Nat := bs.foldl (fun acc b => acc * 256 + b.toNat) 0

/-- value of a successful read from exactly `w.len` bytes (`readmem16l` …) -/
def Word.decode (w : Word) (bs : Bytes) : Int :=
  match w with
  | .u8 => (leVal bs : Int)
  | .s8 => if leVal bs ≥ 128 then (leVal bs : Int) - 256 else (leVal bs : Int)
  | .l16 | .l24 | .l32 => (leVal bs : Int)
  | .b16 | .b24 | .b32 => (beVal bs : Int)

/-- value returned on a failed read by all three back-ends (dataio.c, mdataio.h,
callbackio.h): all ones; `(int8)0xff = -1` for `read8s` (dataio.c's `read8s` used to
return 0 — divergence D1, repaired in libxmp). -/
def Word.failOnes : Word → Int
  | .u8 => 0xff
  | .s8 => -1
  | .l16 | .b16 => 0xffff
  | .l24 | .b24 | .l32 | .b32 => 0xffffffff

/-- `bytes[pos .. pos+n)` (shorter at the end of the data) -/
def slice (bytes : Bytes) (pos n : Nat) : Bytes := (bytes.drop pos).take n

/-- seek target `offset + base(whence)` -/
def target (size pos : Nat) (off : Int) : Whence → Int
  | .set => off
  | .cur => off + pos
  | .end_ => off + size

def b2i (b : Bool) : Int := if b then 1 else 0

/-- `hio_seek`: a successful seek clears exactly `EOF` -/
def Err.afterSeek : Err → Err
  | .eof => .none
  | e => e

/-! ## FILE back-end -/
namespace File

structure St where
  pos : Nat := 0
  /-- stdio's end-of-file indicator -/
  eofF : Bool := false
  err : Err := .none
  deriving DecidableEq, Repr, Inhabited

/-- `n` consecutive `fgetc` (the `read_byte` macro, `goto error` on the first
failure): bytes read so far in `acc` (reversed). -/
def getcs (bytes : Bytes) : Nat → St → Bytes → Option Bytes × St
  | 0, t, acc => (some acc.reverse, t)
  | n + 1, t, acc =>
    match bytes[t.pos]? with
    | some b => getcs bytes n { t with pos := t.pos + 1 } (b :: acc)
    | none => (none, { t with eofF := true })

/-- `fread(buf, size, num, f)`: (return value, bytes stored, new state) -/
def fread (bytes : Bytes) (t : St) (size num : Nat) : Nat × Bytes × St :=
  let total := size * num
  if total = 0 then (0, [], t) else
  let got := slice bytes t.pos total
  let t' := { t with pos := t.pos + got.length, eofF := t.eofF || decide (got.length < total) }
  (got.length / size, got, t')

def step (bytes : Bytes) (t : St) : Op → Out × St
  | .word w =>
    match getcs bytes w.len t [] with
    | (some bs, t') => (.val (w.decode bs), t')            -- set_error(0): h->error untouched
    | (none, t') => (.val w.failOnes, { t' with err := .eof })  -- ferror(f) ? errno : EOF
  | .read size num =>
    let (ret, got, t') := fread bytes t size num
    let t'' := if ret ≠ num then { t' with err := if t'.eofF then .eof else .other } else t'
    (.data ret (got.take (ret * size)) (got.drop (ret * size)), t'')
  | .seek off w =>
    let tg := target bytes.length t.pos off w
    if tg < 0 then (.val (-1), { t with err := .other })    -- EINVAL; indicator and position kept
    else (.val 0, { pos := tg.toNat, eofF := false, err := t.err.afterSeek })
  | .tell => (.val t.pos, t)
  | .eof => (.val (b2i t.eofF), t)
  | .error => (.val (b2i (t.err != .none)), { t with err := .none })
  | .size => (.val bytes.length, t)

end File

/-! ## memory back-end -/
namespace Mem

structure St where
  pos : Nat := 0
  err : Err := .none
  deriving DecidableEq, Repr, Inhabited

/-- `CAN_READ(m)` (`m->pos >= 0` always: `mseek` refuses negative targets) -/
def canRead (bytes : Bytes) (t : St) : Nat := bytes.length - t.pos

/-- `mread` -/
def mread (bytes : Bytes) (t : St) (size num : Nat) : Nat × Bytes × St :=
  let should := size * num
  let can := canRead bytes t
  if size = 0 ∨ num = 0 ∨ can = 0 then (0, [], t)
  else if should > can then (can / size, slice bytes t.pos can, { t with pos := t.pos + can })
  else (num, slice bytes t.pos should, { t with pos := t.pos + should })

def step (bytes : Bytes) (t : St) : Op → Out × St
  | .word w =>
    let can := canRead bytes t
    if can ≥ w.len then (.val (w.decode (slice bytes t.pos w.len)), { t with pos := t.pos + w.len })
    else (.val w.failOnes, { pos := t.pos + can, err := .eof })
  | .read size num =>
    let (ret, got, t') := mread bytes t size num
    let t'' := if ret ≠ num then { t' with err := .eof } else t'
    (.data ret (got.take (ret * size)) (got.drop (ret * size)), t'')
  | .seek off w =>
    let tg := target bytes.length t.pos off w
    if tg < 0 then (.val (-1), { t with err := .other })
    else (.val 0, { pos := min tg.toNat bytes.length, err := t.err.afterSeek })  -- clamped
  | .tell => (.val t.pos, t)
  | .eof => (.val (b2i (canRead bytes t = 0)), t)
  | .error => (.val (b2i (t.err != .none)), { t with err := .none })
  | .size => (.val bytes.length, t)

end Mem

/-! ## callback back-end -/

/-- The user's `struct xmp_callbacks` over a private state `σ`.
`read u len nmemb = (items returned, bytes stored into dest, new state)`. -/
structure Callbacks (σ : Type) where
  read : σ → Nat → Nat → Nat × Bytes × σ
  seek : σ → Int → Whence → Int × σ
  tell : σ → Int

/-- `l₁` is a prefix of `l₂` (computable, Prop-valued wrapper over `List.isPrefixOf`) -/
def IsPre (l₁ l₂ : Bytes) : Prop := l₂.take l₁.length = l₁

/-- The contract of the public API ("same semantics as fread/fseek/ftell") for
a callback set that serves the byte string `bytes`; `posOf` is its current
position.  Nothing is required for seeks beyond the end (a callback may allow,
clamp or refuse them), for the contents of a partial trailing item (C leaves it
indeterminate) or for states positioned beyond the end. -/
structure Legal {σ : Type} (bytes : Bytes) (cb : Callbacks σ) (posOf : σ → Nat) : Prop where
  tell_eq : ∀ u, posOf u ≤ bytes.length → cb.tell u = posOf u
  /-- zero-sized request: returns 0, nothing stored, stream unchanged -/
  read_zero : ∀ u len n, posOf u ≤ bytes.length → len * n = 0 →
    (cb.read u len n).1 = 0 ∧ (cb.read u len n).2.1 = [] ∧ posOf (cb.read u len n).2.2 = posOf u
  /-- enough data: all items -/
  read_full : ∀ u len n, 0 < len * n → posOf u + len * n ≤ bytes.length →
    (cb.read u len n).1 = n ∧ (cb.read u len n).2.1 = slice bytes (posOf u) (len * n) ∧
    posOf (cb.read u len n).2.2 = posOf u + len * n
  /-- not enough data: the complete items that exist, some prefix of the remaining
  bytes stored (at least the complete items), stream left at the end -/
  read_short : ∀ u len n, posOf u ≤ bytes.length → bytes.length < posOf u + len * n →
    (cb.read u len n).1 = (bytes.length - posOf u) / len ∧
    IsPre (cb.read u len n).2.1 (slice bytes (posOf u) (bytes.length - posOf u)) ∧
    (cb.read u len n).1 * len ≤ (cb.read u len n).2.1.length ∧
    posOf (cb.read u len n).2.2 = bytes.length
  seek_ok : ∀ u off w, posOf u ≤ bytes.length → 0 ≤ target bytes.length (posOf u) off w →
    target bytes.length (posOf u) off w ≤ bytes.length →
    (cb.seek u off w).1 = 0 ∧ (posOf (cb.seek u off w).2 : Int) = target bytes.length (posOf u) off w
  seek_neg : ∀ u off w, posOf u ≤ bytes.length → target bytes.length (posOf u) off w < 0 →
    (cb.seek u off w).1 < 0 ∧ posOf (cb.seek u off w).2 = posOf u

namespace Cb

structure St (σ : Type) where
  u : σ
  /-- `CBFILE.eof` -/
  eof : Bool := false
  err : Err := .none

def step {σ : Type} (cb : Callbacks σ) (size : Nat) (t : St σ) : Op → Out × St σ
  | .word w =>
    let (r, buf, u') := cb.read t.u w.len 1
    let ok := decide (r = 1)
    -- cbread8: `x = 0xff` is the destination itself; wider reads decode `buf` when r != 0
    let v := if r ≠ 0 ∧ buf.length ≥ w.len then w.decode (buf.take w.len) else w.failOnes
    (.val v, { u := u', eof := !ok, err := if ok then t.err else .eof })
  | .read len num =>
    let (r, buf, u') := cb.read t.u len num
    let short := decide (r < num)
    (.data r (buf.take (r * len)) (buf.drop (r * len)),
     { u := u', eof := short, err := if r ≠ num then .eof else t.err })
  | .seek off w =>
    let (ret, u') := cb.seek t.u off w
    if ret < 0 then (.val (-1), { u := u', eof := false, err := .other })
    else (.val ret, { u := u', eof := false, err := t.err.afterSeek })
  | .tell =>
    let p := cb.tell t.u
    (.val p, if p < 0 then { t with err := .other } else t)
  | .eof => (.val (b2i t.eof), t)
  | .error => (.val (b2i (t.err != .none)), { t with err := .none })
  | .size => (.val size, t)

end Cb

/-! ### the callback family used by the harness -/

inductive SeekPast where
  | allow | clamp | fail
  deriving DecidableEq, Repr, Inhabited

structure CbPolicy where
  /-- what `seek_func` does with a target beyond the end -/
  seekPast : SeekPast := .allow
  /-- whether the bytes of a trailing partial item are stored -/
  partialTail : Bool := true
  /-- the callback moves data in pieces of this many bytes (0 = in one piece) -/
  chunk : Nat := 0
  deriving DecidableEq, Repr, Inhabited

/-- copy `n` bytes from `pos` in pieces of `chunk` bytes (`fuel` ≥ number of pieces) -/
def copyChunks (bytes : Bytes) (chunk : Nat) : Nat → Nat → Nat → Bytes
  | 0, pos, n => slice bytes pos n
  | fuel + 1, pos, n =>
    if chunk = 0 ∨ n ≤ chunk then slice bytes pos n
    else slice bytes pos chunk ++ copyChunks bytes chunk fuel (pos + chunk) (n - chunk)

/-- memory-backed callbacks with policy `pol`; state = position -/
def memCb (bytes : Bytes) (pol : CbPolicy) : Callbacks Nat where
  read := fun pos len n =>
    let total := len * n
    if total = 0 then (0, [], pos) else
    let avail := bytes.length - pos
    let got := min total avail
    let r := got / len
    let stored := if got = total ∨ pol.partialTail then got else r * len
    (r, copyChunks bytes pol.chunk stored pos stored, pos + got)
  seek := fun pos off w =>
    let tg := target bytes.length pos off w
    if tg < 0 then (-1, pos)
    else if tg.toNat ≤ bytes.length then (0, tg.toNat)
    else match pol.seekPast with
      | .allow => (0, tg.toNat)
      | .clamp => (0, bytes.length)
      | .fail => (-1, pos)
  tell := fun pos => pos

/-! ## the abstract stream -/
namespace Spec

structure St where
  pos : Nat := 0
  err : Err := .none
  /-- a read came up short since the last successful seek -/
  sticky : Bool := false
  deriving DecidableEq, Repr, Inhabited

/-- `none`: the operation is outside the agreeing fragment in this state. -/
def step (bytes : Bytes) (s : St) : Op → Option (Out × St)
  | .word w =>
    if s.pos + w.len ≤ bytes.length then
      some (.val (w.decode (slice bytes s.pos w.len)), { s with pos := s.pos + w.len })
    else some (.val w.failOnes, { pos := bytes.length, err := .eof, sticky := true })
  | .read size num =>
    if num = 0 then (if s.sticky then none else some (.data 0 [] [], s))
    else if size = 0 then (if s.sticky then some (.data 0 [] [], { s with err := .eof }) else none)
    else if s.pos + size * num ≤ bytes.length then
      some (.data num (slice bytes s.pos (size * num)) [], { s with pos := s.pos + size * num })
    else
      let rest := bytes.drop s.pos
      let r := rest.length / size
      some (.data r (rest.take (r * size)) (rest.drop (r * size)),
            { pos := bytes.length, err := .eof, sticky := true })
  | .seek off w =>
    let tg := target bytes.length s.pos off w
    if tg < 0 then (if s.sticky then none else some (.val (-1), { s with err := .other }))
    else if tg.toNat ≤ bytes.length then
      some (.val 0, { pos := tg.toNat, err := s.err.afterSeek, sticky := false })
    else none
  | .tell => some (.val s.pos, s)
  | .eof => if s.sticky then some (.val 1, s) else if s.pos < bytes.length then some (.val 0, s) else none
  | .error => some (.val (b2i (s.err != .none)), { s with err := .none })
  | .size => some (.val bytes.length, s)

/-- reachable abstract states -/
def Inv (bytes : Bytes) (s : St) : Prop := s.pos ≤ bytes.length ∧ (s.sticky = true → s.pos = bytes.length)

end Spec

/-! ## programs -/

/-- Free monad over the stream operations. -/
inductive StreamProg (α : Type) where
  | ret : α → StreamProg α
  | op : Op → (Out → StreamProg α) → StreamProg α

/-- run a program on a back-end given by its step function -/
def run {σ α : Type} (step : σ → Op → Out × σ) : StreamProg α → σ → α
  | .ret a, _ => a
  | .op o k, t => run step (k (step t o).1) (step t o).2

/-- the observable trace of a straight-line operation list -/
def trace {σ : Type} (step : σ → Op → Out × σ) : List Op → σ → List Out
  | [], _ => []
  | o :: os, t => (step t o).1 :: trace step os (step t o).2

/-- What a program may *not* look at: the bytes of a trailing partial item after a
short `hio_read` (callback dependent; C leaves them indeterminate).
`Agree out out'`: `out'` is a possible concrete result where the abstract stream says
`out`.  (Until libxmp's `read8s` was aligned with the other back-ends the value of
`hio_read8s` at end of data was a second relaxation; it is now specified: -1.) -/
def Agree (out out' : Out) : Prop :=
  out' = out ∨ (∃ r items t t', out = .data r items t ∧ out' = .data r items t')

/-- **The agreeing fragment**: every operation is defined by `Spec` in the state
in which it is issued, and the continuation does not depend on the unspecified
parts of its result. -/
inductive InFrag {α : Type} (bytes : Bytes) : Spec.St → StreamProg α → Prop where
  | ret (s : Spec.St) (a : α) : InFrag bytes s (.ret a)
  | op (s s' : Spec.St) (o : Op) (out : Out) (k : Out → StreamProg α) :
      Spec.step bytes s o = some (out, s') →
      (∀ out', Agree out out' → k out' = k out) →
      InFrag bytes s' (k out) → InFrag bytes s (.op o k)

/-- does operation `o`, issued in abstract state `s`, come up short (a read that asks for
at least one byte and gets fewer than it asked for)? -/
def isShortRead (bytes : Bytes) (s : Spec.St) : Op → Bool
  | .word w => decide (bytes.length < s.pos + w.len)
  | .read size num => decide (num ≠ 0 ∧ size ≠ 0 ∧ bytes.length < s.pos + size * num)
  | _ => false

/-- **The `hio_eof` discipline**: a program that consults `eof` *only directly after a read
that came up short* (`js` = "the previous operation was such a read") and whose other
operations are defined by `Spec`.  This is what a loader must look like for its result not
to depend on divergence D3 (`eof` at `pos = size` without a short read: true from memory,
false from stdio and callbacks): `while (!hio_eof(f))` loops and `x = hio_read..(f); if
(hio_eof(f))` tests after a complete read are outside it. -/
inductive EofGuarded {α : Type} (bytes : Bytes) : Bool → Spec.St → StreamProg α → Prop where
  | ret (js : Bool) (s : Spec.St) (a : α) : EofGuarded bytes js s (.ret a)
  | eof (s : Spec.St) (k : Out → StreamProg α) :
      EofGuarded bytes true s (k (.val 1)) → EofGuarded bytes true s (.op .eof k)
  | op (js : Bool) (s s' : Spec.St) (o : Op) (out : Out) (k : Out → StreamProg α) :
      o ≠ .eof → Spec.step bytes s o = some (out, s') →
      (∀ out', Agree out out' → k out' = k out) →
      EofGuarded bytes (isShortRead bytes s o) s' (k out) → EofGuarded bytes js s (.op o k)

/-- run on the abstract stream (`none` when the program leaves the fragment) -/
def Spec.run {α : Type} (bytes : Bytes) : StreamProg α → Spec.St → Option α
  | .ret a, _ => some a
  | .op o k, s =>
    match Spec.step bytes s o with
    | some (out, s') => Spec.run bytes (k out) s'
    | none => none

/-! ## `load.c`: the four entry points in front of the one core -/

inductive Entry where
  | path | file | memory | callbacks
  deriving DecidableEq, Repr, Inhabited

/-- which back-end an entry point opens (`hio_open`, `hio_open_file`,
`hio_open_const_mem`, `hio_open_callbacks`) -/
inductive Backend where
  | file | mem | cb
  deriving DecidableEq, Repr, Inhabited

def Entry.backend : Entry → Backend
  | .path | .file => .file
  | .memory => .mem
  | .callbacks => .cb

/-- the fields of `struct module_data` the wrappers set before `load_module` -/
structure PathInfo where
  filename : Option String
  dirname : Option String
  basename : Option String
  size : Nat
  deriving DecidableEq, Repr

/-- `get_dirname` / `get_basename` -/
def dirnameOf (path : String) : String :=
  match path.splitOn "/" with
  | [] | [_] => ""
  | parts => String.intercalate "/" parts.dropLast ++ "/"

def basenameOf (path : String) : String := (path.splitOn "/").getLastD ""

def Entry.pathInfo (e : Entry) (path : String) (size : Nat) : PathInfo :=
  match e with
  | .path => { filename := some path, dirname := some (dirnameOf path), basename := some (basenameOf path), size := size }
  | _ => { filename := none, dirname := none, basename := none, size := size }

/-- a format's `test` and `loader` functions as programs over the handle; the
loader additionally receives the path fields.  `Res` is whatever the loader
builds (the module tables). -/
structure Loader (Res : Type) where
  name : String
  test : StreamProg Bool
  load : PathInfo → StreamProg (Option Res)

/-- sequencing of programs -/
def StreamProg.bind {α β : Type} : StreamProg α → (α → StreamProg β) → StreamProg β
  | .ret a, f => f a
  | .op o k, f => .op o (fun out => (k out).bind f)

def rewind {α : Type} (p : StreamProg α) : StreamProg α := .op (.seek 0 .set) (fun _ => p)

/-- `test_module`: walk the table, rewind before each probe, first match wins. -/
def testModule {Res : Type} : List (Loader Res) → StreamProg (Int × String)
  | [] => .ret (-3, "")                     -- -XMP_ERROR_FORMAT
  | l :: ls => rewind (l.test.bind fun ok => if ok then .ret (0, l.name) else testModule ls)

/-- `load_module` up to the format-independent epilogue: probe in table order,
rewind, run the first matching loader; `-XMP_ERROR_FORMAT` (-3) if none
matches, `-XMP_ERROR_LOAD` (-4) if the loader fails. -/
def loadModule {Res : Type} (pi : PathInfo) : List (Loader Res) → StreamProg (Int × Option Res)
  | [] => .ret (-3, none)
  | l :: ls => rewind (l.test.bind fun ok =>
      if ok then rewind ((l.load pi).bind fun r => .ret (if r.isSome then 0 else -4, r))
      else loadModule pi ls)

/-- `xmp_load_module*`: open the entry point's back-end, set the path fields,
run the common core.  The program handed to the back-end is the same for all
four entry points except for `PathInfo`. -/
def loadEntry {Res : Type} (e : Entry) (path : String) (size : Nat) (tbl : List (Loader Res)) :
    StreamProg (Int × Option Res) := loadModule (e.pathInfo path size) tbl

def testEntry {Res : Type} (_e : Entry) (tbl : List (Loader Res)) : StreamProg (Int × String) :=
  testModule tbl

end Xmp.Stream
