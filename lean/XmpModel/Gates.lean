import XmpModel.Crc
/-!
# Integrity gates of the built-in depackers (C09)

For every container format whose check the library implements, the code that decides
*whether the unpacked stream is accepted* is modelled here with the entropy decoder as a
**parameter** (`dec`, `unpack`): inflate, bzip2's BWT/Huffman stage, LZMA2, the ARC
`arc_unpack` methods and `lzx_unpack` are not modelled; whatever they return, the gate
below decides acceptance exactly as the C does.

* gzip   — `decrunch_gzip` (gunzip.c): header walk, trailer CRC-32 and ISIZE
* ARC    — `arc_read` (arc.c): entry walk (directories, skipped entries), CRC-16
* ArcFS  — `arcfs_read` (arcfs.c): header, entry table, CRC-16 (skipped when stored CRC = 0)
* LZX    — `lzx_read` (lzx.c): entry header CRC-32 selects entries, data CRC-32 gates output
* zip    — `mz_zip_reader_extract_to_mem_no_alloc1` (miniz_zip.c), given the central-directory record
* bzip2  — block CRCs / stream CRC logic of `write_bunzip_data` + `decrunch_bzip2`
* xz     — stream header / block check / index / footer CRC-32 comparisons (xz_dec_stream.c)

`Option Bytes`: `none` = the depacker returns −1 (load fails with −XMP_ERROR_DEPACK),
`some out` = the stream handed to the format loaders (and hashed into `md5`).
-/
namespace Xmp.Gates
open Xmp Xmp.Crc

/-! ## byte access (reads past the end fail: every `hio_read*` past EOF raises the handle's
error flag, which all callers below test before succeeding) -/

def u8 (f : Bytes) (p : Nat) : Nat := (f.getD p 0).toNat
def le16 (f : Bytes) (p : Nat) : Nat := u8 f p + 256 * u8 f (p + 1)
def le32 (f : Bytes) (p : Nat) : Nat := u8 f p + 256 * u8 f (p + 1) + 65536 * u8 f (p + 2) + 16777216 * u8 f (p + 3)
def slice (f : Bytes) (p n : Nat) : Bytes := (f.drop p).take n

/-- C string stored in a fixed field: bytes up to the first NUL -/
def cstr (b : Bytes) : Bytes := b.takeWhile (· ≠ 0)

/-! ## gzip (gunzip.c) -/

/-- position after the next NUL at or after `p` (`do c = hio_read8 … while (c != 0)`) -/
def skipZ (f : Bytes) (p : Nat) : Option Nat :=
  match (f.drop p).findIdx? (· == 0) with
  | some k => some (p + k + 1)
  | none => none

/-- header walk of `decrunch_gzip`: offset of the deflate data -/
def gzipDataStart (f : Bytes) : Option Nat :=
  if f.length < 10 then none else
  if u8 f 2 ≠ 8 then none else
  let flg := u8 f 3
  let p : Nat := 10
  let p1 : Option Nat := if flg &&& 4 ≠ 0 then (if p + 2 ≤ f.length then some (p + 2 + le16 f p) else none) else some p
  match p1 with
  | none => none
  | some p =>
  match (if flg &&& 8 ≠ 0 then skipZ f p else some p) with
  | none => none
  | some p =>
  match (if flg &&& 16 ≠ 0 then skipZ f p else some p) with
  | none => none
  | some p =>
  match (if flg &&& 2 ≠ 0 then (if p + 2 ≤ f.length then some (p + 2) else none) else some p) with
  | none => none
  | some p => if f.length < p + 8 then none else some p

/-- `(size_t)(int)val`: the 32-bit ISIZE is read into an `int` and compared with a `size_t` -/
def sext32 (v : Nat) : Nat := if v < 2 ^ 31 then v else v + (2 ^ 64 - 2 ^ 32)

/-- the acceptance test after inflation: trailer CRC-32, then ISIZE -/
def gzipGate (out : Bytes) (crcIn isize : Nat) : Bool :=
  crcIn == (crc32A out 0).toNat && sext32 isize == out.length

def gzipDepack (dec : Bytes → Option Bytes) (f : Bytes) : Option Bytes :=
  match gzipDataStart f with
  | none => none
  | some p =>
    match dec (slice f p (f.length - p - 8)) with
    | none => none
    | some out =>
      if gzipGate out (le32 f (f.length - 8)) (le32 f (f.length - 4)) then some out else none

/-! ## ARC / Spark (arc.c) -/

def arcIsPacked (method : Nat) : Bool := !((method &&& 0x7f) == 2 || (method &&& 0x7f) == 1)
def arcIsSpark (method : Nat) : Bool := method &&& 0x80 != 0
def arcHeaderLength (method : Nat) : Nat :=
  if (method &&& 0x7f) == 0 || method == 31 then 2 else
  (if (method &&& 0x7f) == 1 then 25 else 29) + (if arcIsSpark method then 12 else 0)
/-- `arc_method_is_supported` -/
def arcSupported (method : Nat) : Bool :=
  let m := method &&& 0x7f
  m == 1 || m == 2 || m == 3 || m == 4 || m == 8 || m == 9 || m == 0x7f

/-- parameters: `unpack method maxWidth input outLen` = `arc_unpack` (none = error string),
    `excl name` = `libxmp_exclude_match`, `limit` = `LIBXMP_DEPACK_LIMIT` -/
structure ArcEnv where
  unpack : Nat → Nat → Bytes → Nat → Option Bytes
  excl : Bytes → Bool
  limit : Nat

/-- the accept test shared by ARC and ArcFS: CRC-16 of the unpacked data -/
def crc16Gate (out : Bytes) (stored : Nat) : Bool := stored == (crc16IBM out 0).toNat

/-- `arc_read`: `fuel` bounds the entry loop (every iteration consumes ≥ 2 bytes) -/
def arcLoop (env : ArcEnv) (f : Bytes) : Nat → Nat → Nat → Option Bytes
  | 0, _, _ => none
  | fuel + 1, pos, level =>
    if f.length < pos + 2 then none else
    if u8 f pos ≠ 0x1a then none else
    let method := u8 f (pos + 1)
    let hlen := arcHeaderLength method
    if hlen ≤ 2 then
      (if level > 0 then arcLoop env f fuel (pos + 2) (level - 1) else none)
    else if f.length < pos + hlen then none else
    let name := cstr (slice f (pos + 2) 12)
    let csize := le32 f (pos + 15)
    let crc := le16 f (pos + 23)
    let usize := if arcIsPacked method then le32 f (pos + 25) else csize
    let loadAddr := if arcIsSpark method then le32 f (pos + hlen - 12) else 0
    let isDir := method == 30 || (method == 0x82 && loadAddr / 256 == 0xfffddc)
    if isDir then arcLoop env f fuel (pos + hlen) (level + 1)
    else if !arcSupported method || csize > f.length || usize > env.limit || env.excl name then
      arcLoop env f fuel (pos + hlen + csize) level
    else if f.length < pos + hlen + csize then none else
    let inp := slice f (pos + hlen) csize
    let out? := if arcIsPacked method then env.unpack method 0 inp usize else some inp
    match out? with
    | none => none
    | some out => if crc16Gate out crc then some out else none

def arcDepack (env : ArcEnv) (f : Bytes) : Option Bytes := arcLoop env f (f.length + 1) 0 0

/-! ## ArcFS (arcfs.c) -/

/-- `arcfs_read_header` + the `data_offset > file_len` test: `(entries_length, data_offset)` -/
def arcfsHeader (f : Bytes) : Option (Nat × Nat) :=
  if f.length < 96 then none else
  if slice f 0 8 ≠ [0x41, 0x72, 0x63, 0x68, 0x69, 0x76, 0x65, 0x00] then none else
  let el := le32 f 8
  let dofs := le32 f 12
  if el % 36 ≠ 0 then none else
  if dofs < 96 || dofs - 96 < el then none else
  if le32 f 16 > 260 || le32 f 20 > 260 || le32 f 24 > 0x0a then none else
  if dofs > f.length then none else some (el, dofs)

/-- ArcFS accept test: a stored CRC of 0 means "not recorded" and is not compared -/
def arcfsGate (out : Bytes) (stored : Nat) : Bool := stored == 0 || crc16Gate out stored

/-- the entry loop of `arcfs_read`; `n` entries remain, the next one is at `pos` -/
def arcfsLoop (env : ArcEnv) (f : Bytes) (dofs : Nat) : Nat → Nat → Option Bytes
  | 0, _ => none
  | n + 1, pos =>
    if f.length < pos + 36 then none else
    let method := u8 f pos &&& 0x7f
    if method == 0 then arcfsLoop env f dofs n (pos + 36) else
    let name := cstr (slice f (pos + 1) 11)
    let usize := le32 f (pos + 12)
    let bits := u8 f (pos + 25)
    let crc := le16 f (pos + 26)
    let csize := if method == 2 then usize else le32 f (pos + 28)
    let vofs := le32 f (pos + 32) % 2 ^ 31
    let isDir := u8 f (pos + 35) / 128 == 1
    if method == 1 || isDir then arcfsLoop env f dofs n (pos + 36) else
    if vofs ≥ f.length - dofs then arcfsLoop env f dofs n (pos + 36) else
    let offset := dofs + vofs
    if csize > f.length - offset then arcfsLoop env f dofs n (pos + 36) else
    if usize > env.limit then arcfsLoop env f dofs n (pos + 36) else
    if !arcSupported method then arcfsLoop env f dofs n (pos + 36) else
    if env.excl name then arcfsLoop env f dofs n (pos + 36) else
    let inp := slice f offset csize
    let out? := if method != 2 then env.unpack method bits inp usize else some inp
    match out? with
    | none => none
    | some out => if arcfsGate out crc then some out else none

def arcfsDepack (env : ArcEnv) (f : Bytes) : Option Bytes :=
  match arcfsHeader f with
  | none => none
  | some (el, dofs) => arcfsLoop env f dofs (el / 36) 96

/-! ## LZX (lzx.c) -/

structure LzxEnv where
  unpack : Nat → Bytes → Nat → Option Bytes      -- method, input, output length
  excl : Bytes → Bool
  limit : Nat

structure LzxMerge where
  inMerge : Bool := false        -- merge_state == IN_MERGE (FINAL_MERGE_ENTRY behaves like NO_MERGE here)
  invalid : Bool := false
  total : Nat := 0
  sel : Option (Nat × Nat × Nat) := none   -- selected (offset, size, crc32)

def lzxSupported (m : Nat) : Bool := m == 0 || m == 2

/-- CRC-32 of an entry header: the 31 fixed bytes with the header-CRC field zeroed, then the
    file name, then the comment (three chained `lzx_crc32` calls) -/
def lzxHeaderCrc (fixed name comment : Bytes) : Nat :=
  let z := fixed.take 26 ++ [0, 0, 0, 0] ++ fixed.drop 30
  (crc32A comment (crc32A name (crc32A z 0))).toNat

def lzxGate (out : Bytes) (stored : Nat) : Bool := stored == (crc32A out 0).toNat

/-- `lzx_check_entry`: the updated merge record, and whether the entry's data is to be extracted
    now (return 0) or skipped (return −1).  `bad` = the "unsupported or junk" filter (header CRC
    mismatch, sizes, version, method, excluded name). -/
def lzxCheckEntry (limit : Nat) (mg : LzxMerge) (bad : Bool) (usize csize method flags dcrc : Nat) :
    LzxMerge × Bool :=
  let mg := if bad then { mg with invalid := true } else mg
  let selectable := !bad && usize != 0
  if flags &&& 1 != 0 then
    -- a fresh merge forgets `invalid` (the C sets merge_invalid before lzx_reset_merge clears it)
    let mg := if !mg.inMerge then ({ inMerge := true } : LzxMerge) else mg
    let bad2 := mg.invalid || method != 2 || mg.total + usize > limit
    let mg := if bad2 then { mg with invalid := true } else mg
    let selectable := selectable && !bad2
    let mg := if selectable && mg.sel.isNone then { mg with sel := some (mg.total, usize, dcrc) } else mg
    let mg := { mg with total := mg.total + usize }
    if csize != 0 then
      let mg := { mg with inMerge := false }
      (mg, mg.sel.isSome && !mg.invalid)
    else (mg, false)
  else
    if selectable then ({ sel := some (0, usize, dcrc), total := usize }, true) else ({}, false)

/-- the extraction tail of `lzx_read` -/
def lzxExtract (env : LzxEnv) (f : Bytes) (dpos csize method : Nat) (mg : LzxMerge) : Option Bytes :=
  match mg.sel with
  | none => none
  | some (sofs, ssize, scrc) =>
    if f.length < dpos + csize then none else
    let inp := slice f dpos csize
    let out? := if method != 0 then env.unpack method inp mg.total else some inp
    match out? with
    | none => none
    | some out =>
      let out := if ssize < out.length then
          (if sofs != 0 && sofs ≤ out.length - ssize then slice out sofs ssize else out.take ssize)
        else out
      if lzxGate out scrc then some out else none

/-- the "unsupported or junk" filter of `lzx_check_entry` for the entry at `pos`:
    header CRC mismatch, sizes, extract version, method, excluded name -/
def lzxEntryBad (env : LzxEnv) (f : Bytes) (pos : Nat) : Bool :=
  let nlen := u8 f (pos + 30)
  let name := slice f (pos + 31) nlen
  let comment := slice f (pos + 31 + nlen) (u8 f (pos + 14))
  le32 f (pos + 26) != lzxHeaderCrc (slice f pos 31) name comment || le32 f (pos + 6) ≥ f.length
    || le32 f (pos + 2) > env.limit || u8 f (pos + 15) > 0x0a
    || !lzxSupported (u8 f (pos + 11)) || env.excl (cstr name)

/-- `lzx_read` entry loop (`fuel`: every entry consumes ≥ 31 bytes). -/
def lzxLoop (env : LzxEnv) (f : Bytes) : Nat → Nat → LzxMerge → Option Bytes
  | 0, _, _ => none
  | fuel + 1, pos, mg =>
    if f.length < pos + 31 then none else
    let csize := le32 f (pos + 6)
    let method := u8 f (pos + 11)
    let dpos := pos + 31 + u8 f (pos + 30) + u8 f (pos + 14)
    if f.length < dpos then none else
    let r := lzxCheckEntry env.limit mg (lzxEntryBad env f pos) (le32 f (pos + 2)) csize method (u8 f (pos + 12))
                (le32 f (pos + 22))
    if r.2 then lzxExtract env f dpos csize method r.1
    else lzxLoop env f fuel (dpos + csize) r.1

def lzxDepack (env : LzxEnv) (f : Bytes) : Option Bytes :=
  if f.length < 10 then none else
  if slice f 0 3 ≠ [0x4c, 0x5a, 0x58] then none else
  lzxLoop env f (f.length + 1) 10 {}

/-! ## zip (miniz_zip.c, `mz_zip_reader_extract_to_mem_no_alloc1` with `flags = 0`) -/

structure ZipStat where
  method : Nat
  bitFlag : Nat
  compSize : Nat
  uncompSize : Nat
  crc32 : Nat

/-- `tail` = the archive bytes from the member's data offset to the end of the archive
    (`none`: bad local header, or `compSize` bytes do not fit); `inflate comp cap` = tinfl into a
    buffer of `cap` bytes (`none` unless it ends with TINFL_STATUS_DONE); `junk` = contents of the
    freshly `malloc`ed output buffer, which is returned untouched when `compSize = 0`. -/
def zipExtract (inflate : Bytes → Nat → Option Bytes) (junk : Bytes) (st : ZipStat) (tail : Option Bytes) :
    Option Bytes :=
  if st.compSize == 0 then some junk else
  if st.bitFlag &&& (1 ||| 64 ||| 32) != 0 then none else
  if st.method != 0 && st.method != 8 then none else
  match tail with
  | none => none
  | some t =>
    if t.length < st.compSize then none else
    if st.method == 0 then
      -- stored: `needed_size = uncompSize` bytes are read at the data offset
      (if t.length < st.uncompSize then none else
       let out := t.take st.uncompSize
       if (crc32A out 0).toNat == st.crc32 then some out else none)
    else
      match inflate (t.take st.compSize) st.uncompSize with
      | none => none
      | some out =>
        if out.length != st.uncompSize then none
        else if (crc32A out 0).toNat != st.crc32 then none else some out

/-- the part of `mz_zip_reader_init`'s central-directory sanity test that closes the
    `compSize = 0` bypass: `decomp_size && !comp_size` is refused (unless a size is 0xFFFFFFFF,
    the zip64 escape) -/
def zipCdirOk (st : ZipStat) : Bool :=
  !(st.compSize != 0xFFFFFFFF && st.uncompSize != 0xFFFFFFFF && st.uncompSize != 0 && st.compSize == 0)

/-- reader initialisation test, then extraction of the member -/
def zipMember (inflate : Bytes → Nat → Option Bytes) (junk : Bytes) (st : ZipStat) (tail : Option Bytes) :
    Option Bytes :=
  if zipCdirOk st then zipExtract inflate junk st tail else none

/-! ## bzip2 (bunzip2.c) -/

/-- `write_bunzip_data(bd, bw, out, 0, 0)` over the decoded blocks `(headerCRC, bytes)` followed
    by the end-of-stream header carrying `streamCrc`, then the test in `decrunch_bzip2`.

    As the code is: when `read_bunzip_data` meets the end-of-stream header, `write_bunzip_data`
    sets `writeCount = RETVAL_LAST_BLOCK` and **returns `gotcount` (= 0 in file mode)**, so
    `decrunch_bzip2`'s `if (i == RETVAL_LAST_BLOCK) { headerCRC == totalCRC ? … }` is not reached on
    this path: the stored stream CRC is read but never compared.  `RETVAL_LAST_BLOCK` is only
    returned after a block CRC mismatch (with `totalCRC` forced to `headerCRC + 1`).
    This state of the source is the generated fact `Gen.bzStreamCrcDead` (recognised textually by
    tools/gen_crc_tables.py; the two-sided correspondence on stream-CRC faults validates it); should
    the comparison be repaired the model follows: `streamCrc ≠ total` then refuses. -/
def bzRun (total : BitVec 32) (acc : Bytes) : List (BitVec 32 × Bytes) → BitVec 32 → Option Bytes
  | [], streamCrc => if !Gen.bzStreamCrcDead && streamCrc ≠ total then none else some acc
  | (hc, d) :: rest, streamCrc =>
    let dc := bzBlockCrc d
    if dc ≠ hc then
      -- `totalCRC = headerCRC + 1; return RETVAL_LAST_BLOCK;` then `headerCRC == totalCRC ?`
      (if hc = hc + 1 then some (acc ++ d) else none)
    else bzRun (bzCombine total dc) (acc ++ d) rest streamCrc

def bzDepack (blocks : List (BitVec 32 × Bytes)) (streamCrc : BitVec 32) : Option Bytes :=
  bzRun 0 [] blocks streamCrc

/-- the stream CRC the format defines for a list of block payloads -/
def bzStreamCrc (total : BitVec 32) : List Bytes → BitVec 32
  | [] => total
  | d :: rest => bzStreamCrc (bzCombine total (bzBlockCrc d)) rest

/-! ## xz (xz_dec_stream.c), check type CRC-32 -/

/-- `dec_stream_header`: 12 bytes; returns the check type -/
def xzStreamHeader (h : Bytes) : Option Nat :=
  if slice h 0 6 ≠ [0xfd, 0x37, 0x7a, 0x58, 0x5a, 0x00] then none else
  if (crc32A (slice h 6 2) 0).toNat ≠ le32 h 8 then none else
  if u8 h 6 ≠ 0 then none else
  if u8 h 7 > 15 then none else some (u8 h 7)

/-- block data is produced in pieces (`dec_block` per `xz_dec_run` call); the running value
    `s->crc` is fed back as start value; `crc_validate` compares it byte-wise with the 4
    stored bytes -/
def xzBlockCheck (chunks : List Bytes) (stored : Nat) : Bool :=
  (chunks.foldl (fun c d => crc32A d c) 0).toNat == stored

/-- `dec_block_header`: CRC-32 over the header bytes without their last four -/
def xzBlockHeaderOk (h : Bytes) : Bool :=
  (crc32A (h.take (h.length - 4)) 0).toNat == le32 h (h.length - 4)

/-- Index: CRC-32 over indicator, records and padding -/
def xzIndexOk (index : Bytes) (stored : Nat) : Bool := (crc32A index 0).toNat == stored

/-- `dec_stream_footer`: 12 bytes; `indexSize` = size of the Index without its CRC field -/
def xzFooterOk (ft : Bytes) (indexSize checkType : Nat) : Bool :=
  slice ft 10 2 == [0x59, 0x5a] && (crc32A (slice ft 4 6) 0).toNat == le32 ft 0
    && indexSize / 4 == le32 ft 4 && u8 ft 8 == 0 && u8 ft 9 == checkType

/-- single-block stream with check type CRC-32: everything `xz_dec_run` compares before it
    returns XZ_STREAM_END, given the decoded pieces -/
def xzAccept (hdr blockHdr : Bytes) (chunks : List Bytes) (check : Nat) (index : Bytes)
    (indexCrc : Nat) (footer : Bytes) : Option Bytes :=
  match xzStreamHeader hdr with
  | some 1 =>
    if xzBlockHeaderOk blockHdr && xzBlockCheck chunks check && xzIndexOk index indexCrc
        && xzFooterOk footer index.length 1 then some chunks.flatten else none
  | _ => none

end Xmp.Gates
