import XmpModel.Crc
/-!
# Integrity gates of the built-in depackers (C09)

For every container format whose check the library implements, the code that decides
*whether the unpacked stream is accepted* is modelled here with the entropy decoder as a
**parameter** (`dec`, `unpack`): inflate, bzip2's BWT/Huffman stage, LZMA2, the ARC
`arc_unpack` methods and `lzx_unpack` are not modelled; whatever they return, the gate
below decides acceptance exactly as the C does.

* gzip   — `decrunch_gzip` (gunzip.c): header walk, trailer CRC-32 and ISIZE
* ARC    — `arc_read` (arc.c): entry walk (directories, skipped entries), CRC-16
* ArcFS  — `arcfs_read` (arcfs.c): header, entry table, CRC-16 (skipped when stored CRC = 0)
* LZX    — `lzx_read` (lzx.c): entry header CRC-32 selects entries, data CRC-32 gates output
* zip    — `mz_zip_reader_extract_to_mem_no_alloc1` (miniz_zip.c), given the central-directory record
* bzip2  — block CRCs / stream CRC logic of `write_bunzip_data` + `decrunch_bzip2`
* xz     — stream header / block check / index / footer CRC-32 comparisons (xz_dec_stream.c)

`Option Bytes`: `none` = the depacker returns −1 (load fails with −XMP_ERROR_DEPACK),
`some out` = the stream handed to the format loaders (and hashed into `md5`).
-/
namespace Xmp.Gates
open Xmp Xmp.Crc

/-! ## byte access (reads past the end fail: every `hio_read*` past EOF raises the handle's
error flag, which all callers below test before succeeding) -/

def u8 (f : Bytes) (p : Nat) : Nat := (f.getD p 0).toNat
def le16 (f : Bytes) (p : Nat) : Nat := u8 f p + 256 * u8 f (p + 1)
def le32 (f : Bytes) (p : Nat) : Nat := u8 f p + 256 * u8 f (p + 1) + 65536 * u8 f (p + 2) + 16777216 * u8 f (p + 3)
def slice (f : Bytes) (p n : Nat) : Bytes := (f.drop p).take n

/-- C string stored in a fixed field: bytes up to the first NUL -/
def cstr (b : Bytes) : Bytes := b.takeWhile (· ≠ 0)

/-! ## gzip (gunzip.c) -/

/-- position after the next NUL at or after `p` (`do c = hio_read8 … while (c != 0)`) -/
def skipZ (f : Bytes) (p : Nat) : Option Nat :=
  match (f.drop p).findIdx? (· == 0) with
  | some k => some (p + k + 1)
  | none => none

/-- header walk of `decrunch_gzip`: offset of the deflate data -/
def gzipDataStart (f : Bytes) : Option Nat :=
  if f.length < 10 then none else
  if u8 f 2 ≠ 8 then none else
  let flg := u8 f 3
  let p : Nat := 10
  let p1 : Option Nat := if flg &&& 4 ≠ 0 then (if p + 2 ≤ f.length then some (p + 2 + le16 f p) else none) else some p
  match p1 with
  | none => none
  | some p =>
  match (if flg &&& 8 ≠ 0 then skipZ f p else some p) with
  | none => none
  | some p =>
  match (if flg &&& 16 ≠ 0 then skipZ f p else some p) with
  | none => none
  | some p =>
  match (if flg &&& 2 ≠ 0 then (if p + 2 ≤ f.length then some (p + 2) else none) else some p) with
  | none => none
  | some p => if f.length < p + 8 then none else some p

/-- `(size_t)(int)val`: the 32-bit ISIZE is read into an `int` and compared with a `size_t` -/
def sext32 (v : Nat) : Nat := if v < 2 ^ 31 then v else v + (2 ^ 64 - 2 ^ 32)

/-- the acceptance test after inflation: trailer CRC-32, then ISIZE -/
def gzipGate (out : Bytes) (crcIn isize : Nat) : Bool :=
  crcIn == (crc32A out 0).toNat && sext32 isize == out.length

def gzipDepack (dec : Bytes → Option Bytes) (f : Bytes) : Option Bytes :=
  match gzipDataStart f with
  | none => none
  | some p =>
    match dec (slice f p (f.length - p - 8)) with
    | none => none
    | some out =>
      if gzipGate out (le32 f (f.length - 8)) (le32 f (f.length - 4)) then some out else none

/-! ## ARC / Spark (arc.c) -/

def arcIsPacked (method : Nat) : Bool := !((method &&& 0x7f) == 2 || (method &&& 0x7f) == 1)
def arcIsSpark (method : Nat) : Bool := method &&& 0x80 != 0
def arcHeaderLength (method : Nat) : Nat :=
  if (method &&& 0x7f) == 0 || method == 31 then 2 else
  (if (method &&& 0x7f) == 1 then 25 else 29) + (if arcIsSpark method then 12 else 0)
/-- `arc_method_is_supported` -/
def arcSupported (method : Nat) : Bool :=
  let m := method &&& 0x7f
  m == 1 || m == 2 || m == 3 || m == 4 || m == 8 || m == 9 || m == 0x7f

/-- parameters: `unpack method maxWidth input outLen` = `arc_unpack` (none = error string),
    `excl name` = `libxmp_exclude_match`, `limit` = `LIBXMP_DEPACK_LIMIT` -/
structure ArcEnv where
  unpack : Nat → Nat → Bytes → Nat → Option Bytes
  excl : Bytes → Bool
  limit : Nat

/-- the accept test shared by ARC and ArcFS: CRC-16 of the unpacked data -/
def crc16Gate (out : Bytes) (stored : Nat) : Bool := stored == (crc16IBM out 0).toNat

/-- `arc_read`: `fuel` bounds the entry loop (every iteration consumes ≥ 2 bytes) -/
def arcLoop (env : ArcEnv) (f : Bytes) : Nat → Nat → Nat → Option Bytes
  | 0, _, _ => none
  | fuel + 1, pos, level =>
    if f.length < pos + 2 then none else
    if u8 f pos ≠ 0x1a then none else
    let method := u8 f (pos + 1)
    let hlen := arcHeaderLength method
    if hlen ≤ 2 then
      (if level > 0 then arcLoop env f fuel (pos + 2) (level - 1) else none)
    else if f.length < pos + hlen then none else
    let name := cstr (slice f (pos + 2) 12)
    let csize := le32 f (pos + 15)
    let crc := le16 f (pos + 23)
    let usize := if arcIsPacked method then le32 f (pos + 25) else csize
    let loadAddr := if arcIsSpark method then le32 f (pos + hlen - 12) else 0
    let isDir := method == 30 || (method == 0x82 && loadAddr / 256 == 0xfffddc)
    if isDir then arcLoop env f fuel (pos + hlen) (level + 1)
    else if !arcSupported method || csize > f.length || usize > env.limit || env.excl name then
      arcLoop env f fuel (pos + hlen + csize) level
    else if f.length < pos + hlen + csize then none else
    let inp := slice f (pos + hlen) csize
    let out? := if arcIsPacked method then env.unpack method 0 inp usize else some inp
    match out? with
    | none => none
    | some out => if crc16Gate out crc then some out else none

def arcDepack (env : ArcEnv) (f : Bytes) : Option Bytes := arcLoop env f (f.length + 1) 0 0

/-! ## ArcFS (arcfs.c) -/

/-- `arcfs_read_header` + the `data_offset > file_len` test: `(entries_length, data_offset)` -/
def arcfsHeader (f : Bytes) : Option (Nat × Nat) :=
  if f.length < 96 then none else
  if slice f 0 8 ≠ [0x41, 0x72, 0x63, 0x68, 0x69, 0x76, 0x65, 0x00] then none else
  let el := le32 f 8
  let dofs := le32 f 12
  if el % 36 ≠ 0 then none else
  if dofs < 96 || dofs - 96 < el then none else
  if le32 f 16 > 260 || le32 f 20 > 260 || le32 f 24 > 0x0a then none else
  if dofs > f.length then none else some (el, dofs)

/-- ArcFS accept test: a stored CRC of 0 means "not recorded" and is not compared -/
def arcfsGate (out : Bytes) (stored : Nat) : Bool := stored == 0 || crc16Gate out stored

/-- the entry loop of `arcfs_read`; `n` entries remain, the next one is at `pos` -/
def arcfsLoop (env : ArcEnv) (f : Bytes) (dofs : Nat) : Nat → Nat → Option Bytes
  | 0, _ => none
  | n + 1, pos =>
    if f.length < pos + 36 then none else
    let method := u8 f pos &&& 0x7f
    if method == 0 then arcfsLoop env f dofs n (pos + 36) else
    let name := cstr (slice f (pos + 1) 11)
    let usize := le32 f (pos + 12)
    let bits := u8 f (pos + 25)
    let crc := le16 f (pos + 26)
    let csize := if method == 2 then usize else le32 f (pos + 28)
    let vofs := le32 f (pos + 32) % 2 ^ 31
    let isDir := u8 f (pos + 35) / 128 == 1
    if method == 1 || isDir then arcfsLoop env f dofs n (pos + 36) else
    if vofs ≥ f.length - dofs then arcfsLoop env f dofs n (pos + 36) else
    let offset := dofs + vofs
    if csize > f.length - offset then arcfsLoop env f dofs n (pos + 36) else
    if usize > env.limit then arcfsLoop env f dofs n (pos + 36) else
    if !arcSupported method then arcfsLoop env f dofs n (pos + 36) else
    if env.excl name then arcfsLoop env f dofs n (pos + 36) else
    let inp := slice f offset csize
    let out? := if method != 2 then env.unpack method bits inp usize else some inp
    match out? with
    | none => none
    | some out => if arcfsGate out crc then some out else none

def arcfsDepack (env : ArcEnv) (f : Bytes) : Option Bytes :=
  match arcfsHeader f with
  | none => none
  | some (el, dofs) => arcfsLoop env f dofs (el / 36) 96

/-! ## LZX (lzx.c) -/

structure LzxEnv where
  unpack : Nat → Bytes → Nat → Option Bytes      -- method, input, output length
  excl : Bytes → Bool
  limit : Nat

structure LzxMerge where
  inMerge : Bool := false        -- merge_state == IN_MERGE (FINAL_MERGE_ENTRY behaves like NO_MERGE here)
  invalid : Bool := false
  total : Nat := 0
  sel : Option (Nat × Nat × Nat) := none   -- selected (offset, size, crc32)

def lzxSupported (m : Nat) : Bool := m == 0 || m == 2

/-- CRC-32 of an entry header: the 31 fixed bytes with the header-CRC field zeroed, then the
    file name, then the comment (three chained `lzx_crc32` calls) -/
def lzxHeaderCrc (fixed name comment : Bytes) : Nat :=
  let z := fixed.take 26 ++ [0, 0, 0, 0] ++ fixed.drop 30
  (crc32A comment (crc32A name (crc32A z 0))).toNat

def lzxGate (out : Bytes) (stored : Nat) : Bool := stored == (crc32A out 0).toNat

/-- `lzx_check_entry`: the updated merge record, and whether the entry's data is to be extracted
    now (return 0) or skipped (return −1).  `bad` = the "unsupported or junk" filter (header CRC
    mismatch, sizes, version, method, excluded name). -/
def lzxCheckEntry (limit : Nat) (mg : LzxMerge) (bad : Bool) (usize csize method flags dcrc : Nat) :
    LzxMerge × Bool :=
  let mg := if bad then { mg with invalid := true } else mg
  let selectable := !bad && usize != 0
  if flags &&& 1 != 0 then
    -- a fresh merge forgets `invalid` (the C sets merge_invalid before lzx_reset_merge clears it)
    let mg := if !mg.inMerge then ({ inMerge := true } : LzxMerge) else mg
    let bad2 := mg.invalid || method != 2 || mg.total + usize > limit
    let mg := if bad2 then { mg with invalid := true } else mg
    let selectable := selectable && !bad2
    let mg := if selectable && mg.sel.isNone then { mg with sel := some (mg.total, usize, dcrc) } else mg
    let mg := { mg with total := mg.total + usize }
    if csize != 0 then
      let mg := { mg with inMerge := false }
      (mg, mg.sel.isSome && !mg.invalid)
    else (mg, false)
  else
    if selectable then ({ sel := some (0, usize, dcrc), total := usize }, true) else ({}, false)

/-- the extraction tail of `lzx_read` -/
def lzxExtract (env : LzxEnv) (f : Bytes) (dpos csize method : Nat) (mg : LzxMerge) : Option Bytes :=
  match mg.sel with
  | none => none
  | some (sofs, ssize, scrc) =>
    if f.length < dpos + csize then none else
    let inp := slice f dpos csize
    let out? := if method != 0 then env.unpack method inp mg.total else some inp
    match out? with
    | none => none
    | some out =>
      let out := if ssize < out.length then
          (if sofs != 0 && sofs ≤ out.length - ssize then slice out sofs ssize else out.take ssize)
        else out
      if lzxGate out scrc then some out else none

/-- the "unsupported or junk" filter of `lzx_check_entry` for the entry at `pos`:
    header CRC mismatch, sizes, extract version, method, excluded name -/
def lzxEntryBad (env : LzxEnv) (f : Bytes) (pos : Nat) : Bool :=
  let nlen := u8 f (pos + 30)
  let name := slice f (pos + 31) nlen
  let comment := slice f (pos + 31 + nlen) (u8 f (pos + 14))
  le32 f (pos + 26) != lzxHeaderCrc (slice f pos 31) name comment || le32 f (pos + 6) ≥ f.length
    || le32 f (pos + 2) > env.limit || u8 f (pos + 15) > 0x0a
    || !lzxSupported (u8 f (pos + 11)) || env.excl (cstr name)

/-- `lzx_read` entry loop (`fuel`: every entry consumes ≥ 31 bytes). -/
def lzxLoop (env : LzxEnv) (f : Bytes) : Nat → Nat → LzxMerge → Option Bytes
  | 0, _, _ => none
  | fuel + 1, pos, mg =>
    if f.length < pos + 31 then none else
    let csize := le32 f (pos + 6)
    let method := u8 f (pos + 11)
    let dpos := pos + 31 + u8 f (pos + 30) + u8 f (pos + 14)
    if f.length < dpos then none else
    let r := lzxCheckEntry env.limit mg (lzxEntryBad env f pos) (le32 f (pos + 2)) csize method (u8 f (pos + 12))
                (le32 f (pos + 22))
    if r.2 then lzxExtract env f dpos csize method r.1
    else lzxLoop env f fuel (dpos + csize) r.1

def lzxDepack (env : LzxEnv) (f : Bytes) : Option Bytes :=
  if f.length < 10 then none else
  if slice f 0 3 ≠ [0x4c, 0x5a, 0x58] then none else
  lzxLoop env f (f.length + 1) 10 {}

/-! ## zip (miniz_zip.c, `mz_zip_reader_extract_to_mem_no_alloc1` with `flags = 0`) -/

structure ZipStat where
  method : Nat
  bitFlag : Nat
  compSize : Nat
  uncompSize : Nat
  crc32 : Nat

/-- `tail` = the archive bytes from the member's data offset to the end of the archive
    (`none`: bad local header, or `compSize` bytes do not fit); `inflate comp cap` = tinfl into a
    buffer of `cap` bytes (`none` unless it ends with TINFL_STATUS_DONE); `junk` = contents of the
    freshly `malloc`ed output buffer, which is returned untouched when `compSize = 0`. -/
def zipExtract (inflate : Bytes → Nat → Option Bytes) (junk : Bytes) (st : ZipStat) (tail : Option Bytes) :
    Option Bytes :=
  if st.compSize == 0 then some junk else
  if st.bitFlag &&& (1 ||| 64 ||| 32) != 0 then none else
  if st.method != 0 && st.method != 8 then none else
  match tail with
  | none => none
  | some t =>
    if t.length < st.compSize then none else
    if st.method == 0 then
      -- stored: `needed_size = uncompSize` bytes are read at the data offset
      (if t.length < st.uncompSize then none else
       let out := t.take st.uncompSize
       if (crc32A out 0).toNat == st.crc32 then some out else none)
    else
      match inflate (t.take st.compSize) st.uncompSize with
      | none => none
      | some out =>
        if out.length != st.uncompSize then none
        else if (crc32A out 0).toNat != st.crc32 then none else some out

/-- the part of `mz_zip_reader_init`'s central-directory sanity test that closes the
    `compSize = 0` bypass: `decomp_size && !comp_size` is refused (unless a size is 0xFFFFFFFF,
    the zip64 escape) -/
def zipCdirOk (st : ZipStat) : Bool :=
  !(st.compSize != 0xFFFFFFFF && st.uncompSize != 0xFFFFFFFF && st.uncompSize != 0 && st.compSize == 0)

/-- reader initialisation test, then extraction of the member -/
def zipMember (inflate : Bytes → Nat → Option Bytes) (junk : Bytes) (st : ZipStat) (tail : Option Bytes) :
    Option Bytes :=
  if zipCdirOk st then zipExtract inflate junk st tail else none

/-! ## bzip2 (bunzip2.c) -/

/-- `write_bunzip_data(bd, bw, out, 0, 0)` over the decoded blocks `(headerCRC, bytes)` followed
    by the end-of-stream header carrying `streamCrc`, then the test in `decrunch_bzip2`.

    Per block: `dataCRC` is compared with the block's `headerCRC`; on a mismatch
    `totalCRC = headerCRC + 1; return RETVAL_LAST_BLOCK`, which `decrunch_bzip2` turns into a data
    error (`headerCRC == totalCRC` cannot hold).  Otherwise `totalCRC = rotl(totalCRC,1) ^ dataCRC`.
    At the end-of-stream header `read_bunzip_data` has stored the stream CRC in `headerCRC` and
    returns RETVAL_LAST_BLOCK; since /repo b6ac87c `write_bunzip_data` passes that on in file mode
    (`return len_ ? gotcount : i`), so `decrunch_bzip2` compares `headerCRC == totalCRC`.

    Before that repair the function returned `gotcount` (= 0) there and the stored stream CRC was
    never compared; that state of the source is the generated fact `Gen.bzStreamCrcDead`
    (recognised textually by tools/gen_crc_tables.py, `false` at HEAD; the two-sided correspondence
    on stream-CRC faults validates it).  The model follows the fact. -/
def bzRun (total : BitVec 32) (acc : Bytes) : List (BitVec 32 × Bytes) → BitVec 32 → Option Bytes
  | [], streamCrc => if !Gen.bzStreamCrcDead && streamCrc ≠ total then none else some acc
  | (hc, d) :: rest, streamCrc =>
    let dc := bzBlockCrc d
    if dc ≠ hc then
      -- `totalCRC = headerCRC + 1; return RETVAL_LAST_BLOCK;` then `headerCRC == totalCRC ?`
      (if hc = hc + 1 then some (acc ++ d) else none)
    else bzRun (bzCombine total dc) (acc ++ d) rest streamCrc

def bzDepack (blocks : List (BitVec 32 × Bytes)) (streamCrc : BitVec 32) : Option Bytes :=
  bzRun 0 [] blocks streamCrc

/-- the stream CRC the format defines for a list of block payloads -/
def bzStreamCrc (total : BitVec 32) : List Bytes → BitVec 32
  | [] => total
  | d :: rest => bzStreamCrc (bzCombine total (bzBlockCrc d)) rest

/-! ## xz (xz_dec_stream.c), check type CRC-32 -/

/-- `dec_stream_header`: 12 bytes; returns the check type -/
def xzStreamHeader (h : Bytes) : Option Nat :=
  if slice h 0 6 ≠ [0xfd, 0x37, 0x7a, 0x58, 0x5a, 0x00] then none else
  if (crc32A (slice h 6 2) 0).toNat ≠ le32 h 8 then none else
  if u8 h 6 ≠ 0 then none else
  if u8 h 7 > 15 then none else some (u8 h 7)

/-- block data is produced in pieces (`dec_block` per `xz_dec_run` call); the running value
    `s->crc` is fed back as start value; `crc_validate` compares it byte-wise with the 4
    stored bytes -/
def xzBlockCheck (chunks : List Bytes) (stored : Nat) : Bool :=
  (chunks.foldl (fun c d => crc32A d c) 0).toNat == stored

/-- `dec_block_header`: CRC-32 over the header bytes without their last four -/
def xzBlockHeaderOk (h : Bytes) : Bool :=
  (crc32A (h.take (h.length - 4)) 0).toNat == le32 h (h.length - 4)

/-- Index: CRC-32 over indicator, records and padding -/
def xzIndexOk (index : Bytes) (stored : Nat) : Bool := (crc32A index 0).toNat == stored

/-- `dec_stream_footer`: 12 bytes; `indexSize` = size of the Index without its CRC field -/
def xzFooterOk (ft : Bytes) (indexSize checkType : Nat) : Bool :=
  slice ft 10 2 == [0x59, 0x5a] && (crc32A (slice ft 4 6) 0).toNat == le32 ft 0
    && indexSize / 4 == le32 ft 4 && u8 ft 8 == 0 && u8 ft 9 == checkType

/-- single-block stream with check type CRC-32: everything `xz_dec_run` compares before it
    returns XZ_STREAM_END, given the decoded pieces -/
def xzAccept (hdr blockHdr : Bytes) (chunks : List Bytes) (check : Nat) (index : Bytes)
    (indexCrc : Nat) (footer : Bytes) : Option Bytes :=
  match xzStreamHeader hdr with
  | some 1 =>
    if xzBlockHeaderOk blockHdr && xzBlockCheck chunks check && xzIndexOk index indexCrc
        && xzFooterOk footer index.length 1 then some chunks.flatten else none
  | _ => none

/-! ## xz container, byte level (`xz_dec_stream.c` as driven by `decrunch_xz`, unxz.c)

Build configuration of libxmp (xz_config.h): `XZ_DEC_ANY_CHECK` defined, `XZ_USE_CRC64` and the BCJ
filters not.  The LZMA2 decoder (`xz_dec_lzma2_reset` + the `xz_dec_lzma2_run` calls of one block) is
the parameter `lz props input`: `input` = the archive from the first byte of the block's compressed
data to its end; the answer `some (consumed, pieces)` = number of input bytes used when
`xz_dec_lzma2_run` returned XZ_STREAM_END and the output in the pieces it was produced in (one per
`dec_block` call: the running CRC-32 `s->crc` is fed piecewise); `none` = any error (reset refused
the dictionary byte, LZMA2 data error, input exhausted).

Everything else is modelled on the bytes of the file: Stream Header (magic, flags, CRC-32), Block
Header (size byte, CRC-32, flags, optional sizes as VLIs, filter flags, header padding), the size
comparisons of `dec_block`, Block Padding, the Check field (CRC-32 compared, other types skipped by
`check_sizes[]`), the Index (count = number of blocks, records, padding, the running
`xz_dec_hash` comparison, CRC-32), the Stream Footer (magic, CRC-32, Backward Size, flags = header
flags).  Input is consumed strictly left to right; needing a byte past the end of the file is a
failure (`hio_read` returns 0 → `goto err`).  Bytes after the Stream Footer are never read.
Not modelled: `XZ_MAX_OUTPUT` (the 512 MiB output ceiling of `decrunch_xz`) and allocation failures
(they only add ways to fail). -/

/-- `check_sizes[16]` -/
def xzCheckSize (t : Nat) : Nat :=
  if t == 0 then 0 else if t ≤ 3 then 4 else if t ≤ 6 then 8 else if t ≤ 9 then 16 else if t ≤ 12 then 32 else 64

/-- `dec_vli` on `f[p .. limit)`: at most `VLI_BYTES_MAX = 9` bytes, 7 bits each, least significant
    group first; a final zero byte after the first is a non-minimal encoding.  `(value, position
    after)`; `none` = XZ_DATA_ERROR or the input ran out. -/
def xzVliGo (f : Bytes) (limit : Nat) : Nat → Nat → Nat → Nat → Option (Nat × Nat)
  | 0, _, _, _ => none
  | fuel + 1, p, sh, acc =>
    if limit ≤ p then none else
    let b := u8 f p
    let acc := acc ||| ((b &&& 0x7f) <<< sh)
    if b &&& 0x80 == 0 then (if b == 0 && sh != 0 then none else some (acc, p + 1))
    else if sh + 7 == 63 then none else xzVliGo f limit fuel (p + 1) (sh + 7) acc

def xzVli (f : Bytes) (p limit : Nat) : Option (Nat × Nat) := xzVliGo f limit 9 p 0 0

def leBytes (n v : Nat) : Bytes := (List.range n).map fun i => UInt8.ofNat (v / 256 ^ i % 256)

/-- `struct xz_dec_hash { vli_type unpadded; vli_type uncompressed; uint32 crc32; }` -/
structure XzHash where
  unpadded : Nat := 0
  uncompressed : Nat := 0
  crc : BitVec 32 := 0
deriving DecidableEq

/-- `h.unpadded += a; h.uncompressed += b; h.crc32 = xz_crc32(&h, sizeof(h), h.crc32)`: the struct
    is 24 bytes on the LP64 little-endian target — two `uint64`, the `uint32`, four bytes of padding
    (zeroed by `xz_dec_reset`'s `memzero`, never written) -/
def xzHashUpd (h : XzHash) (a b : Nat) : XzHash :=
  let u := (h.unpadded + a) % 2 ^ 64
  let c := (h.uncompressed + b) % 2 ^ 64
  { unpadded := u, uncompressed := c,
    crc := crc32A (leBytes 8 u ++ leBytes 8 c ++ leBytes 4 h.crc.toNat ++ [0, 0, 0, 0]) h.crc }

structure XzBlockHdr where
  size : Nat             -- Block Header Size in bytes, incl. the CRC-32
  comp : Option Nat      -- Compressed Size field, if present
  uncomp : Option Nat    -- Uncompressed Size field, if present
  props : Nat            -- LZMA2 dictionary size byte
deriving DecidableEq

/-- optional VLI field of the block header -/
def xzOptVli (present : Bool) (f : Bytes) (q lim : Nat) : Option (Option Nat × Nat) :=
  if present then (match xzVli f q lim with
                   | none => none
                   | some (v, q') => some (some v, q'))
  else some (none, q)

/-- `dec_block_header` for the header starting at `p` (the caller saw `f[p] ≠ 0`) -/
def xzBlockHeaderAt (f : Bytes) (p : Nat) : Option XzBlockHdr :=
  let hs := (u8 f p + 1) * 4
  if f.length < p + hs then none else
  let lim := p + (hs - 4)
  if (crc32A (slice f p (hs - 4)) 0).toNat ≠ le32 f lim then none else
  let fl := u8 f (p + 1)
  if fl &&& 0x3F ≠ 0 then none else
  match xzOptVli (fl &&& 0x40 != 0) f (p + 2) lim with
  | none => none
  | some (comp, q) =>
  match xzOptVli (fl &&& 0x80 != 0) f q lim with
  | none => none
  | some (uncomp, q) =>
    if lim - q < 2 then none else
    if u8 f q ≠ 0x21 then none else
    if u8 f (q + 1) ≠ 0x01 then none else
    if lim - (q + 2) < 1 then none else
    if (slice f (q + 3) (lim - (q + 3))).any (· != 0) then none else
    some { size := hs, comp := comp, uncomp := uncomp, props := u8 f (q + 2) }

/-- one decoded Block -/
structure XzBlk where
  pos : Nat                -- offset of the Block Header
  hdr : XzBlockHdr
  consumed : Nat           -- compressed bytes used by the LZMA2 decoder
  chunks : List Bytes      -- its output, piecewise
  checkPos : Nat           -- offset of the Check field
  next : Nat               -- offset after the Check field

/-- `x == v` for a present header field (VLI_UNKNOWN compares as "anything") -/
def xzSizeOk (field : Option Nat) (seen : Nat) : Bool :=
  match field with
  | some v => v == seen
  | none => true

/-- SEQ_BLOCK_HEADER … SEQ_BLOCK_CHECK for the block at `p`; `ct` = check type of the stream -/
def xzBlockAt (lz : Nat → Bytes → Option (Nat × List Bytes)) (ct : Nat) (f : Bytes) (p : Nat) : Option XzBlk :=
  match xzBlockHeaderAt f p with
  | none => none
  | some h =>
    let d := p + h.size
    match lz h.props (f.drop d) with
    | none => none
    | some (c, chunks) =>
      if f.length < d + c then none else
      if !xzSizeOk h.comp c then none else
      if !xzSizeOk h.uncomp (chunks.map List.length).sum then none else
      let padn := (4 - c % 4) % 4
      if f.length < d + c + padn then none else
      if (slice f (d + c) padn).any (· != 0) then none else
      let cp := d + c + padn
      if ct == 1 then
        (if f.length < cp + 4 then none else
         if (chunks.foldl (fun crc x => crc32A x crc) 0).toNat ≠ le32 f cp then none else
         some { pos := p, hdr := h, consumed := c, chunks := chunks, checkPos := cp, next := cp + 4 })
      else
        (if f.length < cp + xzCheckSize ct then none else
         some { pos := p, hdr := h, consumed := c, chunks := chunks, checkPos := cp, next := cp + xzCheckSize ct })

/-- SEQ_BLOCK_START loop: blocks until the Index Indicator byte `0x00`; `(index position, blocks)`.
    `fuel`: every block consumes ≥ 8 bytes. -/
def xzBlocks (lz : Nat → Bytes → Option (Nat × List Bytes)) (ct : Nat) (f : Bytes) : Nat → Nat → Option (Nat × List XzBlk)
  | 0, _ => none
  | fuel + 1, p =>
    if f.length ≤ p then none else
    if u8 f p == 0 then some (p, []) else
    match xzBlockAt lz ct f p with
    | none => none
    | some b =>
      match xzBlocks lz ct f fuel b.next with
      | none => none
      | some (ip, bs) => some (ip, b :: bs)

/-- `s->block.hash` after the given blocks -/
def xzBlocksHash (ct : Nat) (bs : List XzBlk) : XzHash :=
  bs.foldl (fun h b => xzHashUpd h (b.hdr.size + b.consumed + xzCheckSize ct) (b.chunks.map List.length).sum) {}

/-- the Records of the Index (`dec_index`), `n` of them remain; `(position after, s->index.hash)` -/
def xzIndexRecords (f : Bytes) : Nat → Nat → XzHash → Option (Nat × XzHash)
  | 0, p, h => some (p, h)
  | n + 1, p, h =>
    match xzVli f p f.length with
    | none => none
    | some (unp, q) =>
      match xzVli f q f.length with
      | none => none
      | some (unc, r) => xzIndexRecords f n r (xzHashUpd h unp unc)

/-- SEQ_INDEX, SEQ_INDEX_PADDING, SEQ_INDEX_CRC32 for the Index at `ip` (`f[ip] = 0`), after `count`
    blocks with hash `bh`: offset of the Stream Footer -/
def xzIndexAt (f : Bytes) (ip count : Nat) (bh : XzHash) : Option Nat :=
  match xzVli f (ip + 1) f.length with
  | none => none
  | some (cnt, q) =>
    if cnt ≠ count then none else
    match xzIndexRecords f count q {} with
    | none => none
    | some (r, ih) =>
      let padn := (4 - (r - ip) % 4) % 4
      if f.length < r + padn then none else
      if (slice f r padn).any (· != 0) then none else
      let e := r + padn
      if ih ≠ bh then none else
      if f.length < e + 4 then none else
      if (crc32A (slice f ip (e - ip)) 0).toNat ≠ le32 f e then none else some (e + 4)

/-- the accepted structure of an xz file -/
structure XzParse where
  ct : Nat                 -- check type (Stream Flags byte 2)
  blocks : List XzBlk
  indexPos : Nat           -- offset of the Index Indicator
  footerPos : Nat          -- offset of the Stream Footer (the Index CRC-32 is at `footerPos - 4`)

/-- everything `xz_dec_run` does until XZ_STREAM_END -/
def xzParse (lz : Nat → Bytes → Option (Nat × List Bytes)) (f : Bytes) : Option XzParse :=
  if f.length < 12 then none else
  match xzStreamHeader f with
  | none => none
  | some ct =>
    match xzBlocks lz ct f f.length 12 with
    | none => none
    | some (ip, bs) =>
      match xzIndexAt f ip bs.length (xzBlocksHash ct bs) with
      | none => none
      | some fp =>
        if f.length < fp + 12 then none else
        if xzFooterOk (slice f fp 12) (fp - 4 - ip) ct then some { ct := ct, blocks := bs, indexPos := ip, footerPos := fp }
        else none

def XzParse.output (P : XzParse) : Bytes := (P.blocks.map (fun b => b.chunks.flatten)).flatten

/-- `decrunch_xz` -/
def xzDepack (lz : Nat → Bytes → Option (Nat × List Bytes)) (f : Bytes) : Option Bytes :=
  (xzParse lz f).map XzParse.output

/-! ## zip, the whole reader (`decrunch_zip` in unzip.c over miniz_zip.c)

`mz_zip_reader_init` (search of the End Of Central Directory record from the end of the file,
zip64 locator/header, central-directory walk with its sanity tests), the member selection loop of
`decrunch_zip` (directories, unsupported methods/flags, excluded names are skipped),
`mz_zip_file_stat_internal` (sizes possibly taken from a zip64 extended-information field),
`mz_zip_reader_extract_to_heap` → `mz_zip_reader_extract_to_mem_no_alloc1` (`zipExtract` above): the
**local file header** is only used for its signature and its name/extra lengths (to find the
data); its CRC/size fields and any **data descriptor** after the data are never read by this
reader — the central-directory record is the only authority for CRC-32 and sizes.

Parameters: `inflate comp cap` (tinfl over the member's compressed bytes into a buffer of `cap`
bytes, `none` unless TINFL_STATUS_DONE), `excl` (`libxmp_exclude_match`), `junk n` (contents of a
fresh `malloc(n)`, returned untouched for a member whose compressed size is 0).
Not modelled: allocation failures (they only add ways to fail). -/

def le64 (f : Bytes) (p : Nat) : Nat := le32 f p + 4294967296 * le32 f (p + 4)

/-- lower end of the region `mz_zip_reader_locate_header_sig` scans: 4096-byte windows from the end,
    each 4093 bytes further down, until offset 0 or ≥ 65535 + 22 bytes from the end -/
def zipWindowLo (size : Nat) : Nat → Nat → Nat
  | 0, w => w
  | fuel + 1, w => if w == 0 || size - w ≥ 65557 then w else zipWindowLo size fuel (w - 4093)

/-- highest position `p` with `lo ≤ p ≤ hi` holding the EOCD signature `PK\x05\x06` (the C scans
    downwards and stops at the first hit that leaves room for the 22-byte record) -/
def zipScanUp : Bytes → Nat → Nat → Option Nat → Option Nat
  | a :: b :: c :: d :: rest, p, hi, best =>
    if hi < p then best else
    zipScanUp (b :: c :: d :: rest) (p + 1) hi
      (if a == 0x50 && b == 0x4b && c == 0x05 && d == 0x06 then some p else best)
  | _, _, _, best => best

def zipFindEocd (f : Bytes) : Option Nat :=
  if f.length < 22 then none else
  let lo := zipWindowLo f.length 32 (f.length - 4096)
  zipScanUp (f.drop lo) lo (f.length - 22) none

structure ZipEocd where
  total : Nat
  onDisk : Nat
  thisDisk : Nat
  cdirDisk : Nat
  cdirSize : Nat
  cdirOfs : Nat

/-- the EOCD record, overridden by the zip64 EOCD record when a zip64 locator precedes it -/
def zipEocd (f : Bytes) : Option ZipEocd :=
  match zipFindEocd f with
  | none => none
  | some e =>
    let base : ZipEocd := { total := le16 f (e + 10), onDisk := le16 f (e + 8), thisDisk := le16 f (e + 4),
                            cdirDisk := le16 f (e + 6), cdirSize := le32 f (e + 12), cdirOfs := le32 f (e + 16) }
    if e ≥ 76 && le32 f (e - 20) == 0x07064b50 then
      let o := le64 f (e - 12)
      if o > f.length - 56 then none else
      if le32 f o == 0x06064b50 then
        (if le64 f (o + 4) < 44 then none else
         if le32 f (e - 4) ≠ 1 then none else
         if le64 f (o + 32) > 0xFFFFFFFF then none else
         if le64 f (o + 24) > 0xFFFFFFFF then none else
         if le64 f (o + 40) > 0xFFFFFFFF then none else
         some { total := le64 f (o + 32), onDisk := le64 f (o + 24), thisDisk := le32 f (o + 16),
                cdirDisk := le32 f (o + 20), cdirSize := le64 f (o + 40), cdirOfs := le64 f (o + 48) })
      else some base
    else some base

/-- walk over an extra-data area: `none` = malformed (MZ_ZIP_INVALID_HEADER_OR_CORRUPTED),
    `some (some d)` = data of the first zip64 extended-information field (id 1), `some none` = none found -/
def zipFindZip64 : Nat → Bytes → Option (Option Bytes)
  | 0, _ => some none
  | fuel + 1, x =>
    if x.length == 0 then some none else
    if x.length < 4 then none else
    if le16 x 2 + 4 > x.length then none else
    if le16 x 0 == 1 then some (some (slice x 4 (le16 x 2)))
    else zipFindZip64 fuel (x.drop (4 + le16 x 2))

/-- the per-record sanity tests of `mz_zip_reader_read_central_dir` on the record at `p`, of which
    `n` bytes of central directory remain; `hasExt` = `m_zip64_has_extended_info_fields`.
    `(total header size, hasExt')` -/
def zipCdirRecord (f : Bytes) (thisDisk p n : Nat) (hasExt : Bool) : Option (Nat × Bool) :=
  if n < 46 || le32 f p != 0x02014b50 then none else
  let comp := le32 f (p + 20)
  let decomp := le32 f (p + 24)
  let lho := le32 f (p + 42)
  let fn := le16 f (p + 28)
  let ext := le16 f (p + 30)
  let scan : Option Bool :=
    if !hasExt && ext != 0 && (max (max comp decomp) lho == 0xFFFFFFFF) then
      (if 46 + fn + ext > n then none else
       match zipFindZip64 (ext + 1) (slice f (p + 46 + fn) ext) with
       | none => none
       | some (some _) => some true
       | some none => some false)
    else some hasExt
  match scan with
  | none => none
  | some hasExt' =>
    if comp != 0xFFFFFFFF && decomp != 0xFFFFFFFF &&
        ((le32 f (p + 10) == 0 && decomp != comp) || (decomp != 0 && comp == 0)) then none else
    let disk := le16 f (p + 34)
    if disk == 0xFFFF || (disk != thisDisk && disk != 1) then none else
    if comp != 0xFFFFFFFF && lho + 30 + comp > f.length then none else
    if le16 f (p + 8) &&& 8192 != 0 then none else
    let tot := 46 + fn + ext + le16 f (p + 32)
    if tot > n then none else some (tot, hasExt')

/-- the record loop: offsets (in the file) of the `k` central-directory records -/
def zipCdirLoop (f : Bytes) (thisDisk : Nat) : Nat → Nat → Nat → Bool → Option (List Nat)
  | 0, _, _, _ => some []
  | k + 1, p, n, hasExt =>
    match zipCdirRecord f thisDisk p n hasExt with
    | none => none
    | some (tot, hasExt') =>
      match zipCdirLoop f thisDisk k (p + tot) (n - tot) hasExt' with
      | none => none
      | some l => some (p :: l)

/-- `mz_zip_reader_init`: the list of central-directory record offsets (`m_central_dir_offsets`) -/
def zipOpen (f : Bytes) : Option (List Nat) :=
  match zipEocd f with
  | none => none
  | some E =>
    if E.total != E.onDisk then none else
    if (E.thisDisk ||| E.cdirDisk) != 0 && (E.thisDisk != 1 || E.cdirDisk != 1) then none else
    if E.cdirSize < (E.total * 46) % 2 ^ 32 then none else
    if E.cdirOfs + E.cdirSize > f.length then none else
    zipCdirLoop f E.thisDisk E.total E.cdirOfs E.cdirSize false

def zipIsDir (f : Bytes) (p : Nat) : Bool :=
  (le16 f (p + 28) != 0 && u8 f (p + 46 + le16 f (p + 28) - 1) == 0x2f) || (le32 f (p + 38) &&& 0x10 != 0)

def zipSupported (f : Bytes) (p : Nat) : Bool :=
  (le16 f (p + 10) == 0 || le16 f (p + 10) == 8) && le16 f (p + 8) &&& (1 ||| 64) == 0 && le16 f (p + 8) &&& 32 == 0

/-- `mz_zip_reader_get_filename` into a 512-byte buffer, as a C string -/
def zipName (f : Bytes) (p : Nat) : Bytes := cstr (slice f (p + 46) (min (le16 f (p + 28)) 511))

/-- one optional 64-bit value of the zip64 extended-information field -/
def zipTake64 (need : Bool) (cur : Nat) (d : Bytes) : Option (Nat × Bytes) :=
  if need then (if d.length < 8 then none else some (le64 d 0, d.drop 8)) else some (cur, d)

/-- `mz_zip_file_stat_internal` on the record at `p`: the stat and the local header offset -/
def zipStat (f : Bytes) (p : Nat) : Option (ZipStat × Nat) :=
  let comp := le32 f (p + 20)
  let uncomp := le32 f (p + 24)
  let lho := le32 f (p + 42)
  let mk := fun (c u l : Nat) =>
    (({ method := le16 f (p + 10), bitFlag := le16 f (p + 8), compSize := c, uncompSize := u, crc32 := le32 f (p + 16) } : ZipStat), l)
  if max (max comp uncomp) lho == 0xFFFFFFFF && le16 f (p + 30) != 0 then
    match zipFindZip64 (le16 f (p + 30) + 1) (slice f (p + 46 + le16 f (p + 28)) (le16 f (p + 30))) with
    | none => none
    | some none => some (mk comp uncomp lho)
    | some (some d) =>
      match zipTake64 (uncomp == 0xFFFFFFFF) uncomp d with
      | none => none
      | some (u, d) =>
        match zipTake64 (comp == 0xFFFFFFFF) comp d with
        | none => none
        | some (c, d) =>
          match zipTake64 (lho == 0xFFFFFFFF) lho d with
          | none => none
          | some (l, _) => some (mk c u l)
  else some (mk comp uncomp lho)

/-- local header at `lho`: signature, then the data offset from its name and extra lengths; the
    compressed size must fit in the file.  Result: the file from the data offset on. -/
def zipTail (f : Bytes) (st : ZipStat) (lho : Nat) : Option Bytes :=
  if f.length < lho + 30 then none else
  if le32 f lho != 0x04034b50 then none else
  let d := lho + 30 + le16 f (lho + 26) + le16 f (lho + 28)
  if d + st.compSize > f.length then none else some (f.drop d)

structure ZipEnv where
  inflate : Bytes → Nat → Option Bytes
  excl : Bytes → Bool
  junk : Nat → Bytes

/-- the loop of `decrunch_zip`: first member that is a supported, non-excluded file; `none` = there
    is none or its stat fails -/
def zipSelect (env : ZipEnv) (f : Bytes) : List Nat → Option (Nat × ZipStat × Nat)
  | [] => none
  | p :: rest =>
    if zipIsDir f p || !zipSupported f p || env.excl (zipName f p) then zipSelect env f rest else
    match zipStat f p with
    | none => none
    | some (st, lho) => some (p, st, lho)

/-- `decrunch_zip` -/
def zipDepack (env : ZipEnv) (f : Bytes) : Option Bytes :=
  match zipOpen f with
  | none => none
  | some offs =>
    match zipSelect env f offs with
    | none => none
    | some (_, st, lho) => zipExtract env.inflate (env.junk st.uncompSize) st (zipTail f st lho)

end Xmp.Gates
