import XmpModel.LoadPost
import XmpModel.FmtMod
import XmpModel.FmtS3m
import XmpModel.FmtXm
import XmpModel.FmtIt
import XmpModel.Sample
/-!
# C03 × C19 — the raw module the four core loaders leave behind, as a function of what they read

C03's `finish` / `LoaderOblig` / `WF` (XmpModel/LoadPost.lean) speak about the *raw module*: the state of
`struct module_data` between a format loader's `return 0` and the sanity gate of `load_module`.  C19's byte-level
readers (`Xmp.Fmt.Mod.read`, `S3m.read`, `Xm.read`, `It.read` : `Bytes → Option Song`) mirror `mod_load`, `s3m_load`,
`xm_load`, `it_load`.  This file joins the two: `toRaw L s x` is the raw module that corresponds to the song `s` the
reader returned, for the table layout `L` of the format, with everything the abstract song does not carry collected
in `x : Extra`.

* What the song determines (compared field by field with the raw-module dump of the real load, tools/c03_core.py):
  counts `pat trk chn ins smp`, every pattern's row count and track indices, every track's row count, per instrument
  `nsm`, whether the sub-instrument array is allocated, the sample id of every sub-instrument, the (adjusted) name;
  per sample `len`, loop points (when flagged), flag bits, whether PCM is attached, the (adjusted) name; module
  name, order list, speed / tempo (after the epilogue's range rule).
* What it does not determine is a field of `Extra`, and the *type* of the field states what the loaders provably
  do: envelope scalars are unsigned bytes (`xi.v_start = *b++` in xm_load.c, `buf[2]` in it_load.c's
  `read_envelope`, `i1h.vls = buf[18]` in the old instrument loader) — `EnvB` has `UInt8` fields; the restart position
  is an unsigned header field — `rst : Nat`; the type string is written by `libxmp_set_type` = `vsnprintf(type,
  XMP_NAME_SIZE, …)` — `typeArray` truncates to 63 characters and terminates.  The theorems hold for EVERY `Extra`.
* Fixed-size name arrays: a name of `k` characters is stored in a zero-filled `char[n]` (`arr n`), so it is
  NUL-terminated iff `k < n` — the readers' names are proved shorter than the arrays (XmpProofs/LoadPostCore*.lean).
* Guard frames: the buffer around a sample's PCM is the one `libxmp_load_sample` builds, `Spec.withGuards` of C20
  (XmpModel/Sample.lean, read-only here): 4 bytes before and 4 frames after the data; `guardOf` asks that this buffer
  reaches as far as `xmp_sample.len` says, which holds because the readers' PCM is exactly `len` frames (`PcmOk`).
-/
namespace Xmp.LoadPost.Core
open Xmp Xmp.LoadPost Xmp.Gen.Limits

abbrev RawModule := Xmp.LoadPost.Module
abbrev Song := Xmp.Fmt.Module

/-- table layout choices that differ between the four loaders -/
structure Layout where
  /-- xm_load `load_patterns`: the last pattern is the appended empty one, all its channels share ONE track -/
  xmExtra : Bool
  /-- the sub-instrument array is allocated even for an instrument without samples (`nsm = 0`) -/
  subAlways : Bool
  deriving Repr, DecidableEq

def layMod : Layout := { xmExtra := false, subAlways := true }
def layS3m : Layout := { xmExtra := false, subAlways := true }
def layXm : Layout := { xmExtra := true, subAlways := false }
/-- IT, sample mode (header flag bit 2 clear): one instrument per sample, each with its one-entry array -/
def layItSmp : Layout := { xmExtra := false, subAlways := true }
/-- IT, instrument mode: `load_*_it_instrument` allocates the array only for `nsm > 0` -/
def layItIns : Layout := { xmExtra := false, subAlways := false }

/-- `ifh.flags & IT_USE_INST` of the 192-byte IT header -/
def itInsMode (b : Bytes) : Bool := decide (Fmt.rd16le ((b.drop 44).take 2) / 4 % 2 = 1)

def layIt (b : Bytes) : Layout := if itInsMode b then layItIns else layItSmp

/-- the scalars of one envelope as the loaders read them: unsigned bytes -/
structure EnvB where
  flg : Nat := 0
  npt : UInt8 := 0
  sus : UInt8 := 0
  sue : UInt8 := 0
  lps : UInt8 := 0
  lpe : UInt8 := 0
  data : List Int := []
  deriving Repr, Inhabited

def EnvB.toEnv (e : EnvB) : Envelope :=
  Envelope.ofFlg e.flg (e.npt.toNat : Int) (e.sus.toNat : Int) (e.sue.toNat : Int) (e.lps.toNat : Int) (e.lpe.toNat : Int)
    ((e.data ++ List.replicate (2 * xmpMaxEnvPoints) 0).take (2 * xmpMaxEnvPoints))

/-- everything of the raw module that the abstract song does not determine -/
structure Extra where
  rst : Nat := 0                                   -- restart position (unsigned header field, or 0)
  typ : List UInt8 := []                           -- characters handed to `libxmp_set_type`
  xxc : List Channel := List.replicate 64 { pan := 0x80, vol := 0x40, flg := 0 }
  env : Nat → EnvB × EnvB × EnvB := fun _ => ({}, {}, {})
  insVol : Nat → Int := fun _ => 0
  subGvl : Nat → Nat → Int := fun _ _ => 0
  insvol : Bool := false
  volbase : Int := 0x40
  gvol : Int := 0x40
  gvl : Int := 0
  xxoTail : List Nat := []                         -- the order table behind the order list
  rawLen : Option Nat := none                      -- header song length when `prepare_scan` will empty the list
  rawSpd : Option Int := none                      -- header speed / tempo when the epilogue will replace them
  rawBpm : Option Int := none

/-- a string stored in a zero-filled `char[n]` -/
def arr (n : Nat) (s : Bytes) : List UInt8 := s ++ List.replicate (n - s.length) 0

/-- `libxmp_set_type`: `vsnprintf(m->mod.type, XMP_NAME_SIZE, …)` -/
def typeArray (chars : List UInt8) : List UInt8 := arr xmpNameSize ((chars.takeWhile (· ≠ 0)).take (xmpNameSize - 1))

def trkCount (L : Layout) (chn npat : Nat) : Nat := if L.xmExtra then (npat - 1) * chn + 1 else npat * chn

def rawPattern (L : Layout) (chn npat i : Nat) (p : Fmt.Pat) : Pattern :=
  { rows := (p.rows : Int)
    index := (List.range chn).map fun j =>
      if L.xmExtra ∧ i + 1 = npat then ((i * chn : Nat) : Int) else ((i * chn + j : Nat) : Int) }

/-- track `t` belongs to pattern `t / chn` and has its row count -/
def rawTracks (L : Layout) (chn : Nat) (pats : List Fmt.Pat) : List (Option Track) :=
  (List.range (trkCount L chn pats.length)).map fun t =>
    some { rows := (((pats[t / chn]?).map (·.rows)).getD 0 : Nat) }

def rawIns (L : Layout) (x : Extra) (i : Nat) (ins : Fmt.Ins) : Instrument :=
  { name := arr 32 ins.name
    vol := x.insVol i
    nsm := (ins.subs.length : Int)
    sub := if L.subAlways ∨ ins.subs ≠ [] then some ((List.range ins.subs.length).map (x.subGvl i)) else none
    sids := ins.subs.map fun sb => (sb.sid : Int)
    aei := (x.env i).1.toEnv, pei := (x.env i).2.1.toEnv, fei := (x.env i).2.2.toEnv }

/-- bytes per frame of a sample with flag word `flg` -/
def frameLen (flg : Nat) : Nat := Fmt.frameBytes flg

/-- C20: the allocation `libxmp_load_sample` builds around the PCM (`Spec.withGuards`) is 4 bytes, `len` frames and
4 more frames long — the region `data[-4 .. len·framelen + 4·framelen)` that the player reads and that `c03_guards` of
the harness probes from `xmp_sample.len`; vacuous without PCM -/
def guardOf (flg len : Nat) (pcm : Bytes) : Bool :=
  pcm.isEmpty ||
    decide ((Sample.Spec.withGuards (frameLen flg) pcm).length = 4 + len * frameLen flg + 4 * frameLen flg)

def rawSmp (m : Fmt.Smp) : LoadPost.Sample :=
  let f := LoadPost.Sample.flagsOf m.flg
  { name := arr 32 m.name, len := (m.len : Int), lps := (m.lps : Int), lpe := (m.lpe : Int)
    floop := f.1, floopBidir := f.2.1, fsloop := f.2.2.1, fsloopBidir := f.2.2.2.1, other := f.2.2.2.2
    hasData := !m.pcm.isEmpty, guardOK := guardOf m.flg m.len m.pcm }

/-- **the raw module that corresponds to a song** -/
def toRaw (L : Layout) (s : Song) (x : Extra) : RawModule :=
  { name := arr xmpNameSize s.name
    typ := typeArray x.typ
    pat := (s.pats.length : Int)
    trk := (trkCount L s.chn s.pats.length : Int)
    chn := (s.chn : Int)
    ins := (s.ins.length : Int)
    smp := (s.smps.length : Int)
    spd := x.rawSpd.getD (s.spd : Int)
    bpm := x.rawBpm.getD (s.bpm : Int)
    len := ((x.rawLen.getD s.orders.length : Nat) : Int)
    rst := (x.rst : Int)
    gvl := x.gvl
    xxp := some (s.pats.mapIdx fun i p => some (rawPattern L s.chn s.pats.length i p))
    xxt := some (rawTracks L s.chn s.pats)
    xxi := s.ins.mapIdx (rawIns L x)
    xxs := s.smps.map rawSmp
    xtra := s.smps.map fun m => { sus := (m.sus : Int), sue := (m.sue : Int) }
    xxc := x.xxc
    xxo := ((s.orders.map UInt8.toNat) ++ x.xxoTail ++ List.replicate xmpMaxModLength 0).take xmpMaxModLength
    insvol := x.insvol, volbase := x.volbase, gvol := x.gvol }

def toRawMod := toRaw layMod
def toRawS3m := toRaw layS3m
def toRawXm := toRaw layXm
/-- IT: the layout depends on the file's instrument-mode flag -/
def toRawIt (b : Bytes) := toRaw (layIt b)

/-- what the readers guarantee about every song they return and `LoaderOblig` needs: every pattern has at least one
row; the names fit their arrays with room for the terminator -/
def SongOk (s : Song) : Prop :=
  (∀ p ∈ s.pats, 1 ≤ p.rows) ∧ s.name.length < xmpNameSize ∧ (∀ x ∈ s.ins, x.name.length < 32) ∧
  (∀ m ∈ s.smps, m.name.length < 32)

instance (s : Song) : Decidable (SongOk s) := by unfold SongOk; infer_instance

/-- every sample's PCM is exactly `len` frames (so the guard frames of C20 sit at `data[-4 .. 0)` and
`data[len·framelen ..)`, where `c03_guards` of the harness probes them), or no PCM is attached -/
def PcmOk (s : Song) : Prop := ∀ m ∈ s.smps, m.pcm = [] ∨ m.pcm.length = m.len * frameLen m.flg

instance (s : Song) : Decidable (PcmOk s) := by unfold PcmOk; infer_instance

end Xmp.LoadPost.Core
