import XmpModel.LoadPost
import XmpModel.Gen.C03Hdr
/-!
# Header-count validation of the four core format loaders (property C03)

`mod_load.c`, `s3m_load.c`, `xm_load.c`, `it_load.c`: which header counts
(channels, patterns, orders, instruments, samples, rows) each loader accepts and
which counts it then writes into `struct xmp_module`.  Header fields in →
`none` (the loader returns -1) or the resulting counts.  The limits are the
generated constants of `Gen/C03Hdr.lean` (regenerated from the loader sources on
every run); the check compares these functions with the real loaders on
generated files that probe every boundary.

Not modelled: everything else the loaders do (pattern / instrument / sample
bodies, I/O errors, tracker detection); a file can still be rejected for those
reasons, so the correspondence is one-sided where noted in the check.
-/
namespace Xmp.LoadPost.Hdr
open Xmp.Gen.Limits Xmp.Gen.C03Hdr

/-- the counts a loader writes into `struct xmp_module` -/
structure Counts where
  chn : Int
  pat : Int
  trk : Int
  ins : Int
  smp : Int
  len : Int
  rst : Int
  deriving Repr, DecidableEq, Inhabited

/-- the count part of the loaders' obligations: the gate's count test passes and the
epilogue's CLAMPs have nothing to do (so the counts the loader sized its tables for are the
counts the module exposes) -/
def CountOblig (c : Counts) : Bool :=
  decide (0 ≤ c.chn) && decide (c.chn ≤ (xmpMaxChannels : Int))
  && decide (0 ≤ c.len) && decide (c.len ≤ (xmpMaxModLength : Int))
  && decide (0 ≤ c.pat) && decide (c.pat ≤ (epiPatMax : Int))
  && decide (0 ≤ c.ins) && decide (c.ins ≤ (epiInsMax : Int))
  && decide (0 ≤ c.smp) && decide (c.smp ≤ (maxSamples : Int))
  && decide (0 ≤ c.trk) && decide (0 ≤ c.rst)

/-- the restart position lies inside the order list (or is 0): nothing left for the
epilogue's restart repair.  S3M, XM and IT loaders guarantee it; `mod_load` does not on the
path where `get_tracker_id` copies the restart byte unchecked. -/
def RstInside (c : Counts) : Bool := decide (c.rst < c.len) || decide (c.rst = 0)

def countsOf (m : Module) : Counts :=
  { chn := m.chn, pat := m.pat, trk := m.trk, ins := m.ins, smp := m.smp, len := m.len, rst := m.rst }

/-! ## Protracker and compatibles (mod_test + mod_load) -/

def isDigit (b : Nat) : Bool := decide (48 ≤ b) && decide (b ≤ 57)

/-- `mod_magic[]` lookup: (flag, channels) -/
def modTable (magic : List Nat) : Option (Nat × Nat) := (modMagic.find? fun e => e.1 == magic).map (·.2)

/-- the channel count `mod_test` + `mod_load` derive from the four magic bytes
(`wow`: the Mod's Grave size test fired, only possible for "M.K."); `none` =
the file is not loaded as a MOD -/
def modChannels (magic : List Nat) (wow : Bool) : Option Nat :=
  match magic with
  | [a, b, c, d] =>
    let two := decide (c = 67) && decide (d = 72) && isDigit a && isDigit b      -- "##CH"
    let one := decide (b = 67) && decide (c = 72) && decide (d = 78) && isDigit a -- "#CHN"
    let n2 := (a - 48) * 10 + (b - 48)
    let n1 := a - 48
    -- mod_test
    let testOK := (two && decide (0 < n2) && decide (n2 ≤ modTestChMax)) || (one && decide (n1 ≠ 0))
                  || (modTable magic).isSome
    if !testOK then none
    else
      -- mod_load: table first, then the digit forms
      match modTable magic with
      | some (_, ch) => if ch ≠ 0 then some (if wow && magic == [77, 46, 75, 46] then 8 else ch)
                        else if two then some n2 else if one then some n1 else none
      | none => if two then some n2 else if one then some n1 else none
  | _ => none

/-- `detected`: the tracker is known from the magic alone (table flag, or a digit form) -/
def modDetected (magic : List Nat) : Bool :=
  match modTable magic with
  | some (flag, ch) => decide (flag ≠ 0) || decide (ch = 0)
  | none => true

/-- highest pattern number in the order table before the first entry above 0x7f, plus one -/
def modPat (orders : List Nat) : Nat :=
  (((orders.take modOrders).takeWhile fun x => decide (x ≤ modOrderStop)).foldl max 0) + 1

/-- restart position.  `probe`: `get_tracker_id` ran (tracker not known from the magic, no
Mod's Grave / Protracker-song / FlexTrax match): it copies a restart byte below 0x7f that is neither
the pattern count nor 0x78 WITHOUT comparing it with the song length. -/
def modRst (probe : Bool) (pat len restart : Nat) : Nat :=
  if probe ∧ restart ≠ pat ∧ restart ≠ modRestartSkip ∧ restart < modRestartMax then restart
  else if restart < modRestartMax ∧ restart ≠ modRestartSkip ∧ restart < len then restart else 0

def modHeader (magic : List Nat) (wow probe : Bool) (len restart : Nat) (orders : List Nat) : Option Counts :=
  match modChannels magic wow with
  | none => none
  | some chn =>
    if chn ≥ modChnReject then none
    else
      let pat := modPat orders
      some { chn := chn, pat := pat, trk := chn * pat, ins := modIns, smp := modIns, len := len,
             rst := modRst (probe && !modDetected magic && !wow) pat len restart }

/-- an order count stored into `mod->len`: at most `XMP_MAX_MOD_LENGTH` entries are read -/
def capLen (ordnum : Nat) : Nat := if ordnum ≤ xmpMaxModLength then ordnum else xmpMaxModLength

/-! ## Scream Tracker 3 (s3m_load) -/

/-- `mod->chn = i + 1` for every channel setting that is not `S3M_CH_OFF` -/
def s3mChn (chset : List Nat) : Nat :=
  (List.range s3mChannels).foldl (fun acc i => if chset.getD i 255 = 255 then acc else i + 1) 0

/-- "Don't trust sfh.patnum": highest order entry below 0xfe, plus one, capped by the header count -/
def s3mPat (orders : List Nat) (len patnum : Nat) : Nat :=
  min (((orders.take len).filter fun x => decide (x < s3mOrderSkip)).foldl (fun a x => max a (x + 1)) 0) patnum

def s3mHeader (ffi ordnum insnum patnum : Nat) (magicOK : Bool) (chset orders : List Nat) : Option Counts :=
  if ffi ≠ 1 ∧ ffi ≠ 2 then none
  else if ordnum > s3mOrdMax ∨ insnum > s3mInsMax ∨ patnum > s3mPatMax then none
  else if !magicOK then none
  else
    let chn := s3mChn chset
    let len := capLen ordnum
    let pat := s3mPat orders len patnum
    if pat = 0 then none
    else some { chn := chn, pat := pat, trk := pat * chn, ins := insnum, smp := insnum, len := len, rst := 0 }

/-! ## Fast Tracker II (xm_load) -/

/-- `smp` is not a header count: `load_instruments` counts the samples it allocates
(capped by `MAX_SAMPLES`); it is passed through -/
def xmRst (songlen restart : Nat) : Nat := if restart ≥ songlen then 0 else restart

def xmHeader (songlen restart channels patterns instruments tempo bpm headersz : Nat) (med2xm : Bool)
    (smp : Nat) : Option Counts :=
  if songlen > xmLenMax then none
  else if patterns > xmPatMax then none
  else if instruments > xmInsMax then none
  else if channels > xmChnMax then none
  else if (tempo ≥ xmTempoReject ∨ bpm < xmBpmMin ∨ bpm > xmBpmMax) ∧ med2xm = false then none
  else if headersz < xmHdrBase ∨ headersz - xmHdrBase > xmHdrLenMax then none
  else if headersz - xmHdrBase = 0 then none   -- `hio_read(xfh.order, 0, 1, f) != 1`: an empty order table is a read error
  else some { chn := channels, pat := patterns + 1, trk := channels * patterns + 1, ins := instruments, smp := smp,
              len := songlen, rst := xmRst songlen restart }

/-- rows of one XM pattern (`load_xm_pattern`): 16-bit field from version 1.03 on, byte + 1 before;
`none` = the loader fails -/
def xmPatRows (version field : Nat) : Option Nat :=
  let rows := if version > 0x0102 then field else field + 1
  if rows > xmRowsMax then none
  else
    let r := if rows = 0 then xmRowsZero else rows
    if r = 0 ∨ r > helperRowsMax then none else some r     -- libxmp_alloc_pattern_tracks

/-! ## Impulse Tracker (it_load) -/

/-- `maxCh`: highest channel (0-based) the pattern scan found -/
def itHeader (ordnum insnum smpnum patnum gv : Nat) (sampleMode : Bool) (maxCh : Nat) : Option Counts :=
  if gv > itGvMax then none
  else if insnum > itInsMax ∨ smpnum > itSmpMax ∨ patnum > itPatMax then none
  else
    let chn := maxCh + 1
    let ins : Nat := if sampleMode then smpnum else insnum
    some { chn := chn, pat := patnum, trk := patnum * chn, ins := ins, smp := smpnum, len := capLen ordnum, rst := 0 }

/-- rows of one IT pattern: offset 0 or more than 1024 rows → an empty 64-row pattern; 0 rows →
`libxmp_alloc_track` refuses (the loader fails) -/
def itPatRows (offset numRows : Nat) : Option Nat :=
  if offset = 0 ∨ numRows > itRowsMax then some itEmptyRows
  else if numRows = 0 then none else some numRows

end Xmp.LoadPost.Hdr
