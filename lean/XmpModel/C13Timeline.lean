import XmpModel.Downmix
/-!
# Model of `xmp_set_tempo_factor` (src/control.c) and `libxmp_mixer_get_ticksize` (src/mixer.c) — C13

`xmp_set_tempo_factor` is the one control call whose *acceptance* looks at the output
configuration: the tick that results from the new factor must fit the frame buffer.  The
property (C13) allows this to depend on the sampling rate (the tick size in frames is
proportional to it — documented in the function), never on the sample format: mono/stereo,
8/16 bit, signedness.

| C                                                                 | model            |
|-------------------------------------------------------------------|------------------|
| `double` values (`val`, `m->time_factor`, `m->rrate`)             | `D` (exact `m·2^e`, `m = 0`: zero), IEEE `*` and `/` rounded to nearest-even at 53 bits (`D.mul`, `D.div`) |
| `libxmp_mixer_get_ticksize(freq, time_factor, rrate, bpm)`        | `getTicksize`    |
| `xmp_set_tempo_factor(ctx, val)`                                  | `setTempoFactor` |

The double arithmetic is modelled exactly for positive normal numbers of any exponent (no
overflow to infinity, no subnormals): results beyond `INT_MAX` are refused either way and
results below 1 truncate to 0 either way.  `val` enters as `Val` (`bad`: NaN or `≤ 0`).

Constants: `XMP_MAX_FRAMESIZE / 4` is `ticksizeCap` of `Gen/MixerConsts.lean`; the translator
recognises the bound of `xmp_set_tempo_factor` separately (`tempoFactorCap`) and
`XmpProofs/Downmix.lean` proves the two equal.

Tie: harness/c13_timeline.c records every real `xmp_set_tempo_factor` call of the lockstep
contexts (all 8 formats, rates 4000…49170, factors around the acceptance limit) as a `tfc`
line; the driver answers with return value and stored `time_factor`.
-/
namespace Xmp.C13Timeline
open Xmp.Gen.MixerConsts
open Xmp.Downmix (Fmt)

/-! ## Non-negative doubles, exactly -/

/-- the double `m · 2^e` (`m = 0`: zero) -/
structure D where
  m : Nat
  e : Int
  deriving Repr, DecidableEq

def bitLen (n : Nat) : Nat := if n = 0 then 0 else Nat.log2 n + 1

/-- round `M · 2^e` to 53 significant bits, ties to even -/
def round53 (M : Nat) (e : Int) : D :=
  let k := bitLen M - 53
  if k = 0 then { m := M, e := e } else
  let q := M >>> k
  let r := M % 2 ^ k
  let half := 2 ^ (k - 1)
  let q' := if r > half ∨ (r = half ∧ q % 2 = 1) then q + 1 else q
  { m := q', e := e + k }

def D.ofNat (n : Nat) : D := { m := n, e := 0 }

/-- IEEE `a * b` -/
def D.mul (a b : D) : D := round53 (a.m * b.m) (a.e + b.e)

/-- IEEE `a / b` (`b ≠ 0`): the quotient with 64 extra bits and a sticky bit, rounded -/
def D.div (a b : D) : D :=
  if a.m = 0 then { m := 0, e := 0 } else
  let k := 64 + bitLen b.m
  let q := (a.m * 2 ^ k) / b.m
  let sticky := if (a.m * 2 ^ k) % b.m = 0 then 0 else 1
  round53 (2 * q + sticky) (a.e - b.e - k - 1)

/-- `(int)d` (truncation) as an unbounded integer -/
def D.floor (d : D) : Nat := if 0 ≤ d.e then d.m * 2 ^ d.e.toNat else d.m / 2 ^ (-d.e).toNat

/-- `d > n` for an integer `n ≥ 0` -/
def D.gtNat (d : D) (n : Nat) : Bool :=
  if 0 ≤ d.e then decide (d.m * 2 ^ d.e.toNat > n) else decide (d.m > n * 2 ^ (-d.e).toNat)

/-- canonical form for comparison: odd mantissa (or `0 · 2^0`) -/
def D.canon (d : D) : D :=
  if d.m = 0 then { m := 0, e := 0 } else
  let rec go (fuel : Nat) (m : Nat) (e : Int) : D :=
    match fuel with
    | 0 => { m := m, e := e }
    | f + 1 => if m % 2 = 0 then go f (m / 2) (e + 1) else { m := m, e := e }
  go 2200 d.m d.e

/-! ## `libxmp_mixer_get_ticksize` -/

def intMax : Nat := 2147483647

/-- `libxmp_mixer_get_ticksize(freq, time_factor, rrate, bpm)`: −1 for invalid parameters or a
quotient above `INT_MAX`, else `(int)(freq * time_factor * rrate / bpm / 1000)` raised to
`1 << ANTICLICK_SHIFT`.  (`tf`, `rrate` non-negative; zero is "`<= 0.0`".) -/
def getTicksize (freq : Int) (tf rrate : D) (bpm : Int) : Int :=
  if freq ≤ 0 ∨ bpm ≤ 0 ∨ tf.m = 0 ∨ rrate.m = 0 then -1 else
  let quot := D.div (D.div (D.mul (D.mul (D.ofNat freq.toNat) tf) rrate) (D.ofNat bpm.toNat)) (D.ofNat 1000)
  if quot.gtNat intMax then -1 else
  let t : Int := quot.floor
  if t < 2 ^ anticlickShift then 2 ^ anticlickShift else t

/-! ## `xmp_set_tempo_factor` -/

/-- the `double val` argument -/
inductive Val where
  /-- NaN, zero or negative -/
  | bad
  /-- `+inf` -/
  | inf
  | pos (d : D)
  deriving Repr, DecidableEq

/-- the output configuration of a context (`xmp_start_player` arguments and `xmp_set_player` settings) -/
structure OutCfg where
  rate : Int
  fmt : Fmt
  interp : Int := 1
  amp : Int := 1
  mix : Int := 100
  vol : Int := 100
  dsp : Int := 1
  deriving Repr, DecidableEq

/-- what the call reads and writes besides the configuration: the sequencer side -/
structure SeqSide where
  /-- `ctx->state >= XMP_STATE_PLAYING` -/
  playing : Bool
  /-- `p->bpm` -/
  bpm : Int
  /-- `m->rrate` -/
  rrate : D
  /-- `m->time_factor` -/
  timeFactor : D
  deriving Repr, DecidableEq

/-- `xmp_set_tempo_factor(ctx, val)`: return value and the sequencer side after the call -/
def setTempoFactor (c : OutCfg) (s : SeqSide) (v : Val) : Int × SeqSide :=
  if ¬ s.playing then (-(errorState : Int), s) else
  match v with
  | .bad => (-1, s)
  | .inf => (-1, s)   -- `inf * 10 = inf`, the quotient exceeds INT_MAX
  | .pos d =>
    if d.m = 0 then (-1, s) else
    let val := D.mul d (D.ofNat (tempoFactorScale.getD 10).toNat)
    let ticksize := getTicksize c.rate val s.rrate s.bpm
    if ticksize < 0 ∨ ticksize > (ticksizeCap : Int) then (-1, s)
    else (0, { s with timeFactor := val })

end Xmp.C13Timeline
