import XmpModel.Container
/-!
# ArcFS archives as read by `arcfs_read` (src/depackers/arcfs.c), model for C08

Header (96 bytes: magic, entry table length, data offset, three version fields), the 36-byte entry table
walk (end-of-directory / deleted / directory entries, junk offsets and sizes, size limit, unsupported methods and
excluded names are skipped), extraction of the first remaining member from the data area (stored, RLE90 via the
fully modelled `unrle90`, other methods through the parameter `dec`), CRC-16 gate (a stored CRC of 0 is not checked).
-/
namespace Xmp.Container
open Xmp Xmp.Gen.Depackers

def arcfsHeaderSize : Nat := 96
def arcfsEntrySize : Nat := 36

structure ArcfsEntry where
  method : Nat
  filename : Bytes
  usize : Nat
  bits : Nat
  crc : Nat
  csize : Nat
  valueOfs : Nat
  isDir : Bool
  deriving Repr

/-- `arcfs_read_entry` on the 36 bytes at `ofs` (for method 0 the C code leaves the other fields untouched; they are
    not used then) -/
def arcfsEntryAt (f : Bytes) (ofs : Nat) : ArcfsEntry :=
  { method := bAt f ofs % 128, filename := cstr ((f.drop (ofs + 1)).take 11), usize := u32At f (ofs + 12),
    bits := bAt f (ofs + 25), crc := u16At f (ofs + 26), csize := u32At f (ofs + 28),
    valueOfs := u32At f (ofs + 32) % 2147483648, isDir := bAt f (ofs + 35) / 128 = 1 }

/-- the entry loop of `arcfs_read`; `n` = entries left, `ofs` = offset of the next entry -/
def arcfsWalk (crc : Bytes → UInt16) (dec : Nat → Nat → Bytes → Nat → Option Bytes) (f : Bytes) (dataOfs : Nat) :
    Nat → Nat → Option Bytes
  | 0, _ => none
  | n + 1, ofs =>
    let e := arcfsEntryAt f ofs
    if e.method = 0 ∨ e.method = 1 ∨ e.isDir then arcfsWalk crc dec f dataOfs n (ofs + arcfsEntrySize)
    else
      let csize := if e.method = arcUnpacked then e.usize else e.csize
      if e.valueOfs ≥ f.length - dataOfs then arcfsWalk crc dec f dataOfs n (ofs + arcfsEntrySize)
      else if csize > f.length - (dataOfs + e.valueOfs) then arcfsWalk crc dec f dataOfs n (ofs + arcfsEntrySize)
      else if e.usize > depackLimit then arcfsWalk crc dec f dataOfs n (ofs + arcfsEntrySize)
      else if !(arcSupported.contains e.method) then arcfsWalk crc dec f dataOfs n (ofs + arcfsEntrySize)
      else if excludeMatch e.filename then arcfsWalk crc dec f dataOfs n (ofs + arcfsEntrySize)
      else
        let cdata := (f.drop (dataOfs + e.valueOfs)).take csize
        let out? :=
          if e.method = arcUnpacked then some cdata
          else if e.method = arcPacked then unrle90 e.usize cdata
          else dec e.method e.bits cdata e.usize
        match out? with
        | none => none
        | some out => if e.crc ≠ 0 ∧ e.crc ≠ (crc out).toNat then none else some out

/-- `arcfs_read` -/
def arcfsRead (crc : Bytes → UInt16) (dec : Nat → Nat → Bytes → Nat → Option Bytes) (f : Bytes) : Option Bytes :=
  if f.length < arcfsHeaderSize then none
  else if !(memEqAt f 0 [0x41, 0x72, 0x63, 0x68, 0x69, 0x76, 0x65, 0]) then none
  else
    let entriesLen := u32At f 8
    let dataOfs := u32At f 12
    if entriesLen % arcfsEntrySize ≠ 0 then none
    else if dataOfs < arcfsHeaderSize ∨ dataOfs - arcfsHeaderSize < entriesLen then none
    else if u32At f 16 > 260 ∨ u32At f 20 > 260 ∨ u32At f 24 > 10 then none
    else if dataOfs > f.length then none
    else arcfsWalk crc dec f dataOfs (entriesLen / arcfsEntrySize) arcfsHeaderSize

/-- the pipeline environment with ArcFS modelled (`arcDec` as for ARC, with the compression-bits byte) -/
def Env.withArcfs (env : Env) (dec : Nat → Nat → Bytes → Nat → Option Bytes) : Env :=
  { env with other := fun n f => if n = "arcfs" then arcfsRead env.crc16 dec f else env.other n f }

/-! ## writer -/

structure ArcfsMember where
  name : Bytes               -- ≤ 11 bytes, no NUL
  method : Nat               -- 0x82 stored, 0x83 packed (RLE90)
  data : Bytes
  toks : List Tok := []      -- method 3: the RLE90 token stream, expand toks = data
  bits : UInt8 := 0
  load : Nat := 0xfffffd00
  exec : Nat := 0
  perms : UInt8 := 3
  deriving Repr

def ArcfsMember.cdata (m : ArcfsMember) : Bytes := if m.method % 128 = arcPacked then render m.toks else m.data

def arcfsEntry (crc : Bytes → UInt16) (m : ArcfsMember) (valueOfs : Nat) : Bytes :=
  [UInt8.ofNat m.method] ++ (m.name ++ List.replicate (11 - m.name.length) 0) ++ le32 m.data.length ++
  le32 m.load ++ le32 m.exec ++ [m.perms, m.bits] ++ le16 (crc m.data).toNat ++ le32 m.cdata.length ++ le32 valueOfs

def arcfsEntries (crc : Bytes → UInt16) : Nat → List ArcfsMember → Bytes
  | _, [] => []
  | ofs, m :: ms => arcfsEntry crc m ofs ++ arcfsEntries crc (ofs + m.cdata.length) ms

def arcfsBlob (ms : List ArcfsMember) : Bytes := ms.flatMap ArcfsMember.cdata

/-- a complete archive; `pad` extra zero entries (end-of-directory markers) after the members -/
def arcfsWrap (crc : Bytes → UInt16) (ms : List ArcfsMember) (pad : Nat) : Bytes :=
  let elen := arcfsEntrySize * (ms.length + pad)
  [0x41, 0x72, 0x63, 0x68, 0x69, 0x76, 0x65, 0] ++ le32 elen ++ le32 (arcfsHeaderSize + elen) ++ le32 260 ++ le32 260 ++
  le32 10 ++ List.replicate 68 0 ++ arcfsEntries crc 0 ms ++ List.replicate (arcfsEntrySize * pad) 0 ++ arcfsBlob ms

end Xmp.Container
