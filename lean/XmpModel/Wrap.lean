import XmpModel.Basic
/-!
# Model of the mixer's sample wrap-around patch (src/mixer.c)

`init_sample_wraparound` backs up one *prologue* frame before the loop start
and two *epilogue* frames after the loop end of the sample a voice plays, then
overwrites them with unrolled loop data so that the interpolating kernels can
read across the loop boundary; `reset_sample_wraparound` copies the backups
back.  `libxmp_mixer_softmixer` brackets every voice's rendering with this pair
(and re-does it on a Protracker sample swap and when the loop changes).

Memory model.  One sample allocation is a `List α` of *elements* (`α` = the
8-bit or 16-bit unit the C code indexes with `uint8 *` / `uint16 *`).  The C
pointer `sptr` (= `xxs->data`) points `base` elements into the allocation
(4 guard bytes in front: `base = 4` for 8-bit, `2` for 16-bit data).  Indices
are `Int`; reading outside the list yields `default`, writing outside is a
no-op (in C both are undefined behaviour — `XmpProps.C15` proves that neither
happens under the loader's guarantees `0 ≤ start ≤ end ≤ len`).

All of the voice state that `init_sample_wraparound` reads is in `Voice` /
`SampleHdr`; everything it writes is in `LoopData` and the returned memory.
-/
namespace Xmp.Wrap

variable {α : Type}

/-- `p[i]` for a C pointer `p` to the start of the allocation. -/
def getI [Inhabited α] (m : List α) (i : Int) : α :=
  if 0 ≤ i then m.getD i.toNat default else default

/-- `p[i] = v`. -/
def setI (m : List α) (i : Int) (v : α) : List α :=
  if 0 ≤ i then m.set i.toNat v else m

/-- `memcpy(backup, p + off, n * sizeof *p)` — the backup as a value. -/
def copyOut [Inhabited α] (m : List α) (off : Int) (n : Nat) : List α :=
  (List.range n).map fun (k : Nat) => getI m (off + (k : Int))

/-- `memcpy(p + off, vals, |vals| * sizeof *p)`. -/
def copyIn : List α → Int → List α → List α
  | m, _, [] => m
  | m, off, v :: vs => copyIn (setI m off v) (off + 1) vs

/-- A `for (i = 0; i < n; i++) p[idx i] = val(current memory, i)` loop, iterations
given as a list (`List.range n`). -/
def patchLoop (idx : Nat → Int) (val : List α → Nat → α) : List Nat → List α → List α
  | [], m => m
  | i :: is, m => patchLoop idx val is (setI m (idx i) (val m i))

/-- ```
for (i = 0; i < prologue_num; i++) {
    int j = i - prologue_num;
    start[j] = bidir ? start[-1 - j] : end[j];
}``` with `s`,`e` the allocation indices of `start[0]`, `end[0]`. -/
def patchPrologue [Inhabited α] (bidir : Bool) (s e : Int) (n : Nat) (m : List α) : List α :=
  patchLoop (fun i => s + ((i : Int) - (n : Int)))
    (fun m i => let j : Int := (i : Int) - (n : Int)
                if bidir then getI m (s + (-1 - j)) else getI m (e + j))
    (List.range n) m

/-- ```
for (i = 0; i < epilogue_num; i++)
    end[i] = bidir ? end[-1 - i] : start[i];``` -/
def patchEpilogue [Inhabited α] (bidir : Bool) (s e : Int) (n : Nat) (m : List α) : List α :=
  patchLoop (fun i => e + (i : Int))
    (fun m i => if bidir then getI m (e + (-1 - (i : Int))) else getI m (s + (i : Int)))
    (List.range n) m

/-- The fields of `struct mixer_voice` read by `init_sample_wraparound`. -/
structure Voice where
  /-- which sample `vi->sptr` points into (identity of the pointer) -/
  smp : Nat := 0
  /-- `vi->sptr == NULL` -/
  sptrNull : Bool := false
  /-- `vi->start`, `vi->end` in frames -/
  start : Int := 0
  «end» : Int := 0
  /-- `vi->flags & SAMPLE_LOOP` (the voice already passed its loop point once) -/
  sampleLoop : Bool := false
  /-- `vi->flags & VOICE_BIDIR` -/
  bidir : Bool := false
  deriving Repr, DecidableEq, Inhabited

/-- The bits of `xxs->flg` read by `init_sample_wraparound`. -/
structure SampleHdr where
  loop : Bool := false      -- XMP_SAMPLE_LOOP
  is16 : Bool := false      -- XMP_SAMPLE_16BIT
  stereo : Bool := false    -- XMP_SAMPLE_STEREO
  deriving Repr, DecidableEq, Inhabited

/-- `struct loop_data`. -/
structure LoopData (α : Type) where
  active : Bool := false
  smp : Nat := 0             -- `ld->sptr`
  start : Int := 0           -- in elements (already `<<= 1` for stereo)
  «end» : Int := 0
  firstLoop : Bool := false
  is16 : Bool := false
  pnum : Nat := 0
  enum : Nat := 0
  prologue : List α := []
  epilogue : List α := []
  deriving Repr

/-- Compile-time constants of the patch: `LOOP_PROLOGUE`, `LOOP_EPILOGUE`. -/
structure Consts where
  prologue : Nat
  epilogue : Nat
  deriving Repr, DecidableEq

/-- `init_sample_wraparound(s, ld, vi, xxs)` on the allocation `m` whose element
`base` is `vi->sptr[0]`.  `nearest` is `s->interp == XMP_INTERP_NEAREST`. -/
def initWrap [Inhabited α] (c : Consts) (nearest : Bool) (base : Nat) (vi : Voice) (xxs : SampleHdr)
    (m : List α) : LoopData α × List α :=
  if vi.sptrNull || nearest || !xxs.loop then
    ({ active := false }, m)
  else
    let sh : Nat := if xxs.stereo then 2 else 1
    let st : Int := vi.start * sh
    let en : Int := vi.end * sh
    let pnum := c.prologue * sh
    let enum := c.epilogue * sh
    let firstLoop := !vi.sampleLoop
    let s : Int := base + st
    let e : Int := base + en
    let ld : LoopData α :=
      { active := true, smp := vi.smp, start := st, «end» := en, firstLoop := firstLoop,
        is16 := xxs.is16, pnum := pnum, enum := enum,
        prologue := copyOut m (s - pnum) pnum,
        epilogue := copyOut m e enum }
    let m1 := if firstLoop then m else patchPrologue vi.bidir s e pnum m
    let m2 := patchEpilogue vi.bidir s e enum m1
    (ld, m2)

/-- `reset_sample_wraparound(ld)`. -/
def resetWrap (base : Nat) (ld : LoopData α) (m : List α) : List α :=
  if !ld.active then m
  else
    let s : Int := base + ld.start
    let e : Int := base + ld.end
    copyIn (copyIn m (s - ld.pnum) ld.prologue) e ld.epilogue

/-- Allocation indices that `init_sample_wraparound` / `reset_sample_wraparound`
may store to (prologue block, epilogue block). -/
def inRegion (base : Nat) (ld : LoopData α) (k : Int) : Prop :=
  ld.active = true ∧
  (((base : Int) + ld.start - ld.pnum ≤ k ∧ k < (base : Int) + ld.start) ∨
   ((base : Int) + ld.end ≤ k ∧ k < (base : Int) + ld.end + ld.enum))

/-! ## The sample table and the softmixer's per-voice control skeleton -/

/-- One sample allocation of the module (or smix) sample table: guard elements
in front (`base`), the element data. -/
structure Sample (α : Type) where
  base : Nat
  data : List α
  deriving Repr, DecidableEq

abbrev Mem (α : Type) := List (Sample α)

def Mem.modify (mem : Mem α) (smp : Nat) (f : Sample α → List α) : Mem α :=
  match mem[smp]? with
  | some s => mem.set smp { s with data := f s }
  | none => mem

/-- `init_sample_wraparound` on the sample the voice points into. -/
def initWrapM [Inhabited α] (c : Consts) (nearest : Bool) (vi : Voice) (xxs : SampleHdr) (mem : Mem α) :
    LoopData α × Mem α :=
  match mem[vi.smp]? with
  | some s =>
    let r := initWrap c nearest s.base vi xxs s.data
    (r.1, mem.set vi.smp { s with data := r.2 })
  | none => ({ active := false }, mem)

/-- `reset_sample_wraparound` (writes through `ld->sptr`, whatever the voice points to now). -/
def resetWrapM (ld : LoopData α) (mem : Mem α) : Mem α :=
  mem.modify ld.smp fun s => resetWrap s.base ld s.data

/-- The `continue`s of the voice loop in front of `init_sample_wraparound`. -/
inductive PreExit where
  | chnNeg          -- `vi->chn < 0`
  | periodLow       -- `vi->period < 1` → `libxmp_virt_resetvoice`
  | pausedNoQueue   -- `SAMPLE_PAUSED` without a valid queued sample
  | stepRange       -- `step < 0.001 || step > SHRT_MAX`
  deriving Repr, DecidableEq

/-- What one iteration of `for (size = usmp = s->ticksize; size > 0; )` does to
the control flow.  Voice parameters after a hot swap / loop change are
arbitrary (whatever `libxmp_mixer_setpatch`/`adjust_voice_end` compute). -/
inductive Step where
  /-- `if (--usmp <= 0) break;` -/
  | usmpBreak
  /-- the kernel call `mix_fn(vi, …)`: reads the sample, writes the mix buffer only -/
  | mix
  /-- one-shot sample ended: `size = 0; continue;` -/
  | oneShotEnd
  /-- queued sample invalid / one-shot → pause: `size = 0; continue;` -/
  | swapStop
  /-- Protracker sample swap: `reset; hotswap_sample; get_current_sample; init; continue;` -/
  | hotswap (vi : Voice) (xxs : SampleHdr)
  /-- `loop_reposition` returned 1: `reset; init;` with the voice's new end points -/
  | loopChange (vi : Voice)
  /-- `loop_reposition` returned 0, or the loop test was false -/
  | reposition
  deriving Repr

/-- State of one voice iteration between `init` and the final `reset`. -/
structure VState (α : Type) where
  ld : LoopData α
  vi : Voice
  xxs : SampleHdr
  mem : Mem α
  /-- what every kernel call saw: (voice, sample header, the sample table) -/
  seen : List (Voice × SampleHdr × Mem α) := []

/-- The inner loop; the script ends when `size` reaches 0. -/
def runInner [Inhabited α] (c : Consts) (nearest : Bool) : List Step → VState α → VState α
  | [], st => st
  | .usmpBreak :: _, st => st
  | .oneShotEnd :: _, st => st
  | .swapStop :: _, st => st
  | .mix :: rest, st =>
    runInner c nearest rest { st with seen := st.seen ++ [(st.vi, st.xxs, st.mem)] }
  | .reposition :: rest, st => runInner c nearest rest st
  | .hotswap vi' xxs' :: rest, st =>
    let m1 := resetWrapM st.ld st.mem
    let r := initWrapM c nearest vi' xxs' m1
    runInner c nearest rest { st with ld := r.1, vi := vi', xxs := xxs', mem := r.2 }
  | .loopChange vi' :: rest, st =>
    let m1 := resetWrapM st.ld st.mem
    let r := initWrapM c nearest vi' st.xxs m1
    runInner c nearest rest { st with ld := r.1, vi := vi', mem := r.2 }

/-- One iteration of `for (voc = 0; voc < maxvoc; voc++)`. -/
structure VoiceRun where
  pre : Option PreExit := none
  vi : Voice := {}
  xxs : SampleHdr := {}
  steps : List Step := []

def runVoice [Inhabited α] (c : Consts) (nearest : Bool) (mem : Mem α) (v : VoiceRun) :
    Mem α × List (Voice × SampleHdr × Mem α) :=
  match v.pre with
  | some _ => (mem, [])
  | none =>
    let r := initWrapM c nearest v.vi v.xxs mem
    let st := runInner c nearest v.steps { ld := r.1, vi := v.vi, xxs := v.xxs, mem := r.2 }
    (resetWrapM st.ld st.mem, st.seen)

/-- The voice loop of `libxmp_mixer_softmixer`. -/
def softmixer [Inhabited α] (c : Consts) (nearest : Bool) : Mem α → List VoiceRun → Mem α
  | mem, [] => mem
  | mem, v :: vs => softmixer c nearest (runVoice c nearest mem v).1 vs

/-! ## Where the voice's end points come from: `adjust_voice_end` (src/mixer.c) -/

/-- what `adjust_voice_end` reads of the sample (`xxs`, `xtra`) -/
structure SmpInfo where
  loop : Bool := false        -- XMP_SAMPLE_LOOP
  sloop : Bool := false       -- XMP_SAMPLE_SLOOP
  loopBidir : Bool := false   -- XMP_SAMPLE_LOOP_BIDIR
  sloopBidir : Bool := false  -- XMP_SAMPLE_SLOOP_BIDIR
  loopFull : Bool := false    -- XMP_SAMPLE_LOOP_FULL
  len : Int := 0
  lps : Int := 0
  lpe : Int := 0
  sus : Int := 0              -- xtra->sus, xtra->sue
  sue : Int := 0
  deriving Repr, DecidableEq

/-- `adjust_voice_end(ctx, vi, xxs, xtra)`: the voice end points and `VOICE_BIDIR` for the current loop state.
`isMod` is `vi->smp < mod->smp` (then and only then `xtra != NULL`), `release` is `VOICE_RELEASE`,
`sampleLoop` is `SAMPLE_LOOP`. -/
def adjustVoiceEnd (x : SmpInfo) (isMod release sampleLoop : Bool) : Int × Int × Bool :=
  if isMod && (isMod && x.sloop && !release) then (x.sus, x.sue, x.sloopBidir)
  else if x.loop then
    if x.loopFull && !sampleLoop then (x.lps, x.len, false) else (x.lps, x.lpe, x.loopBidir)
  else (0, x.len, false)

/-! ## Which sample invert-loop acts on: the channel's `xc->smp` versus the sample its voice plays

`update_invloop` writes into sample `xc->smp`.  The property allows that only for "the sample the effect is
applied to", i.e. the one sounding on that channel: the voice mapped to the channel plays it, or has it queued
by a Protracker sample swap (src/read_event.c `read_event_mod`, src/virtual.c `libxmp_virt_queuepatch`,
src/mixer.c hot swap). -/

/-- channel/voice agreement state -/
structure ChanVoice where
  chanSmp : Int := -1       -- xc->smp
  mapped : Bool := false    -- p->virt.virt_channel[chn].map > FREE
  voiceSmp : Int := -1      -- vi->smp
  queued : Bool := false    -- vi->flags & SAMPLE_QUEUED
  queuedSmp : Int := -1     -- vi->queued.smp
  paused : Bool := false    -- vi->flags & SAMPLE_PAUSED (the voice is silent)
  deriving Repr, DecidableEq

/-- Channel and voice agree on the sample: with a swap queued, the queued sample is the channel's (or "none":
the voice is about to stop); otherwise the voice plays the channel's sample or is paused.  A channel without a
voice cannot disagree. -/
def ChanVoice.coherent (s : ChanVoice) : Bool :=
  !s.mapped ||
    (if s.queued then decide (s.queuedSmp < 0) || s.queuedSmp == s.chanSmp else s.paused || s.voiceSmp == s.chanSmp)

/-! Note: the real `libxmp_mixer_queuepatch` ignores a swap to the sample that is already playing *without
cancelling an older pending swap* (`ptSwap a; ptSwap (voiceSmp)` leaves `a` queued while `xc->smp = voiceSmp`), so
after the later hot swap the voice plays `a` although the channel selects another sample — an audio defect reported
by the C15 check's author, not a module-data matter: invert-loop then still acts on the channel's own choice.  The
model below is the intended protocol (the latest swap wins); the harness accepts, besides `coherent`, a channel
sample that belongs to the channel's current instrument. -/

/-- what happens to the pair -/
inductive CVStep where
  /-- a note with a valid sample: `set_patch(ctx, chn, ins, smp, note); xc->smp = smp;`
      (`libxmp_mixer_setpatch` clears `SAMPLE_QUEUED | SAMPLE_PAUSED`) -/
  | noteOn (sid : Int)
  /-- Protracker sample swap (instrument number without note):
      `libxmp_virt_queuepatch(ctx, chn, e->ins - 1, sub->sid, xc->note); xc->smp = sub->sid;` -/
  | ptSwap (sid : Int)
  /-- an invalid instrument queues "no sample": `libxmp_virt_queuepatch(ctx, chn, -1, -1, 0)` -/
  | queueInvalid
  /-- the mixer takes a valid queued sample (loop end reached, paused voice, or position change): `hotswap_sample` -/
  | hotswap
  /-- the mixer drops an invalid / one-shot-for-one-shot queue and pauses the voice -/
  | swapStop
  /-- the voice is stolen / reset -/
  | unmap
  deriving Repr

def cvStep (s : ChanVoice) : CVStep → ChanVoice
  | .noteOn sid => { s with chanSmp := sid, mapped := true, voiceSmp := sid, queued := false, paused := false }
  | .ptSwap sid =>
    if s.mapped then { s with chanSmp := sid, queued := true, queuedSmp := sid }
    else { s with chanSmp := sid, mapped := true, voiceSmp := sid, queued := false, paused := false }  -- libxmp_virt_setpatch
  | .queueInvalid => if s.mapped then { s with queued := true, queuedSmp := -1 } else s
  | .hotswap =>
    if s.mapped && s.queued && decide (0 ≤ s.queuedSmp) then { s with voiceSmp := s.queuedSmp, queued := false, paused := false }
    else s
  | .swapStop => if s.mapped && s.queued then { s with queued := false, paused := true } else s
  | .unmap => { s with mapped := false, queued := false, paused := false }

def cvRun : ChanVoice → List CVStep → ChanVoice
  | s, [] => s
  | s, t :: r => cvRun (cvStep s t) r

/-! ## The one legal writer: `update_invloop` (src/player.c), Protracker invert-loop / funk repeat -/

/-- `xc->invloop` -/
structure InvState where
  speed : Nat := 0
  count : Int := 0
  pos : Int := 0
  deriving Repr, DecidableEq

/-- what `update_invloop` reads of the channel's sample (`xxs`, `m->xtra[xc->smp]`) -/
structure InvSample where
  loop : Bool := false      -- XMP_SAMPLE_LOOP
  sloop : Bool := false     -- XMP_SAMPLE_SLOOP
  is16 : Bool := false      -- XMP_SAMPLE_16BIT
  dataNull : Bool := false  -- xxs->data == NULL
  lps : Int := 0
  lpe : Int := 0
  sus : Int := 0
  sue : Int := 0
  deriving Repr, DecidableEq

/-- `lps`/`len` as computed by `update_invloop`: the loop, else the sustain loop, else `(0, -1)`. -/
def invRange : Option InvSample → Int × Int
  | none => (0, -1)
  | some s => if s.loop then (s.lps, s.lpe - s.lps) else if s.sloop then (s.sus, s.sue - s.sus) else (0, -1)

/-- the store `xxs->data[lps + pos] ^= 0xff` is reached: sample present, data present, 8 bit -/
def invCanStore : Option InvSample → Bool
  | none => false
  | some s => !(s.dataNull || s.is16)

/-- body of `update_invloop` once `lps`, `len` are known -/
def invloopCore (table : List Nat) (resetPos : Bool) (st : InvState) (lps len : Int) (canStore : Bool) :
    InvState × Option Int :=
  let pos0 : Int := if resetPos then 0 else st.pos
  let count : Int := st.count + (table.getD st.speed 0 : Nat)
  if count ≥ 128 then
    -- `xc->invloop.count = 0; if (len < 0) return;`
    if len < 0 then ({ st with count := 0, pos := pos0 }, none)
    else
      -- `if (++xc->invloop.pos >= len) xc->invloop.pos = 0;`
      let pos : Int := if pos0 + 1 ≥ len then 0 else pos0 + 1
      ({ st with count := 0, pos := pos }, if canStore then some (lps + pos) else none)
  else ({ st with count := count, pos := pos0 }, none)

/-- `update_invloop(ctx, xc)`.  `resetPos` is `ctx->p.frame == 0 && TEST(NEW_INS)`, `x = none` is
`libxmp_get_sample(..) == NULL`.  Returns the new `xc->invloop` and the index `i` of the one store
`xxs->data[i] ^= 0xff`, if it is made. -/
def invloopStep (table : List Nat) (resetPos : Bool) (st : InvState) (x : Option InvSample) : InvState × Option Int :=
  invloopCore table resetPos st (invRange x).1 (invRange x).2 (invCanStore x)

/-! ### the same function with the fields' declared C types

`xc->invloop.{speed,count,pos}` are C integers of some width; the loop bounds are `int`.  `invloopCoreW` is
`update_invloop` with every store into those fields truncated to the field's type (the conversion gcc/clang
perform: reduction modulo 2^bits).  `XmpProps.C15` proves that with the *generated* field types it coincides with
the unbounded `invloopCore` on every reachable state — which needs the position field to hold every loop length. -/

/-- a C integer type -/
structure CInt where
  bits : Nat
  signed : Bool
  deriving Repr, DecidableEq

def CInt.max (t : CInt) : Int := if t.signed then 2 ^ (t.bits - 1) - 1 else 2 ^ t.bits - 1
def CInt.min (t : CInt) : Int := if t.signed then -(2 ^ (t.bits - 1)) else 0

/-- conversion of `v` to type `t` -/
def CInt.wrap (t : CInt) (v : Int) : Int :=
  let r := v % (2 ^ t.bits : Int)
  if t.signed && decide (r > t.max) then r - 2 ^ t.bits else r

/-- types of `xc->invloop.count` and `xc->invloop.pos` -/
structure InvWidths where
  count : CInt
  pos : CInt
  deriving Repr, DecidableEq

def invloopCoreW (w : InvWidths) (table : List Nat) (resetPos : Bool) (st : InvState) (lps len : Int) (canStore : Bool) :
    InvState × Option Int :=
  let pos0 : Int := if resetPos then 0 else st.pos
  -- `xc->invloop.count += invloop_table[xc->invloop.speed];`
  let count : Int := w.count.wrap (st.count + (table.getD st.speed 0 : Nat))
  if count ≥ 128 then
    if len < 0 then ({ st with count := 0, pos := pos0 }, none)
    else
      -- `if (++xc->invloop.pos >= len) xc->invloop.pos = 0;`  (the incremented value is stored, then compared)
      let p1 : Int := w.pos.wrap (pos0 + 1)
      let pos : Int := if p1 ≥ len then 0 else p1
      ({ st with count := 0, pos := pos }, if canStore then some (lps + pos) else none)
  else ({ st with count := count, pos := pos0 }, none)

def invloopStepW (w : InvWidths) (table : List Nat) (resetPos : Bool) (st : InvState) (x : Option InvSample) :
    InvState × Option Int :=
  invloopCoreW w table resetPos st (invRange x).1 (invRange x).2 (invCanStore x)


end Xmp.Wrap
