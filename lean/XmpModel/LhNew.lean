import XmpModel.LhaFrame
/-!
# LHA -lh4- / -lh5- / -lh6- / -lh7-: the copy stage of `lh_new_decoder.c`, model for C08

`lha_lh_new_read` turns each command of the stream into output: a literal byte, or a copy of `count` bytes that start
`offset + 1` bytes back in the history ring.  **The ring is initialised with blanks** (`init_ring_buffer`:
`memset(ringbuf, ' ', RING_BUFFER_SIZE)`, fill value generated from the C as `lhNewFill`): LHA defines the dictionary in
front of the file as blanks, and encoders do emit matches that reach back before byte 0.

The Huffman stage (three code tables per block) that produces the commands is a parameter (`huff`).  The ring of
`2^HISTORY_BITS` bytes is represented by the reversed history `initial window ++ output` — equivalent for every
offset below the ring size, and the offset codes cannot express more.
-/
namespace Xmp.Container
open Xmp

/-- commands after the Huffman stage -/
inductive LhTok where
  | lit (b : UInt8)
  | copy (offset count : Nat)
  deriving Repr, DecidableEq

/-- the history in front of the file (`init_ring_buffer`) -/
def lhNewInitialWindow (n : Nat) : Bytes := List.replicate n (UInt8.ofNat Xmp.Gen.Depackers.lhNewFill)

/-- `copy_from_history` on the reversed history `rh` (head = most recent byte): `ringbuf[(pos - offset - 1 + i) % size]`,
    every copied byte is appended to the history before the next one is read -/
def lhCopy (offset : Nat) : Nat → Bytes → Bytes
  | 0, rh => rh
  | n + 1, rh => lhCopy offset n (rh.getD offset 0 :: rh)

def lhNewRun : List LhTok → Bytes → Bytes
  | [], rh => rh
  | .lit b :: ts, rh => lhNewRun ts (b :: rh)
  | .copy o n :: ts, rh => lhNewRun ts (lhCopy o n rh)

/-- output of a command list for a ring of `ringSize` bytes -/
def lhNewExpand (ringSize : Nat) (toks : List LhTok) : Bytes :=
  ((lhNewRun toks (lhNewInitialWindow ringSize)).reverse).drop ringSize

/-- ring size of a method name (HISTORY_BITS of lh5_decoder.c (also -lh4-), lh6_decoder.c, lh7_decoder.c) -/
def lhNewRing (method : Bytes) : Option Nat :=
  let bits := Xmp.Gen.Depackers.lhNewBits
  if method = [0x2d, 0x6c, 0x68, 0x34, 0x2d] ∨ method = [0x2d, 0x6c, 0x68, 0x35, 0x2d] then some (2 ^ (bits.getD 0 (0, 0)).1)
  else if method = [0x2d, 0x6c, 0x68, 0x36, 0x2d] then some (2 ^ (bits.getD 1 (0, 0)).1)
  else if method = [0x2d, 0x6c, 0x68, 0x37, 0x2d] then some (2 ^ (bits.getD 2 (0, 0)).1)
  else none

/-- the decoder parameter of `unlha` with the copy stage modelled: `huff method cdata` = the commands the Huffman stage
    reads from the packed data; `lha_decoder_read` stops after `length` bytes.  Other methods go to `rest`. -/
def lhaDecNew (huff : Bytes → Bytes → Option (List LhTok)) (rest : Bytes → Bool → Bytes → Nat → Option Bytes) :
    Bytes → Bool → Bytes → Nat → Option Bytes :=
  fun method mac cdata length =>
    match lhNewRing method with
    | none => rest method mac cdata length
    | some ring =>
      match huff method cdata with
      | none => none
      | some toks =>
        let out := lhNewExpand ring toks
        if out.length < length then none else some (out.take length)

/-- a simple encoder that uses the blank dictionary: a leading run of `k ≥ 3` blanks becomes copy commands from before
    the start of the file (offset `o`), everything else is literal -/
def lhLeadBlanks : Bytes → Nat
  | [] => 0
  | b :: r => if b = UInt8.ofNat Xmp.Gen.Depackers.lhNewFill then 1 + lhLeadBlanks r else 0

def lhCopies (o : Nat) : Nat → Nat → List LhTok
  | 0, _ => []
  | fuel + 1, k =>
    if k = 0 then []
    else if k ≤ 256 then [.copy o k]
    else .copy o 200 :: lhCopies o fuel (k - 200)      -- every command copies 3 … 256 bytes

def lhNewEncodeLead (o : Nat) (p : Bytes) : List LhTok :=
  let k := lhLeadBlanks p
  if k < 3 then p.map .lit else lhCopies o k k ++ (p.drop k).map .lit

end Xmp.Container
