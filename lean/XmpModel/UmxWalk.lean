import XmpModel.WorkBound
/-!
# The name-table walk of the Unreal package reader (`read_typname`, src/loaders/umx_load.c), model for C02

    if (idx >= hdr->name_count) return -1;
    memset(buf, 0, 64);
    for (i = 0, l = 0; i <= idx; i++) {
        if (hio_seek(f, hdr->name_offset + l, SEEK_SET) < 0) return -1;
        if (!hio_read(buf, 1, 63, f)) return -1;
        if (hdr->file_version >= 64) {
            s = *(signed char *)buf;               /* numchars including the terminator */
            if (s <= 0) return -1;
            l += s + 5;
        } else {
            l += strlen(buf) + 5;
        }
    }
    strcpy(out, (hdr->file_version >= 64) ? &buf[1] : buf);

`idx` is the type-name index of the export record (any value up to 2^31 − 2 can be declared, with a matching
declared `name_count`); what bounds the walk is that every iteration needs at least one byte of the file at
`name_offset + l` and moves `l` at least 5 bytes forward.  The 64-byte buffer is cleared once: a short read leaves
the tail of the previous entry in it, which the `strlen` of old-format packages sees (modelled).
-/
namespace Xmp.Umx
open Xmp Xmp.Work

def u8 (f : Bytes) (p : Nat) : Nat := (f.getD p 0).toNat
def sbyte (b : Nat) : Int := if b < 128 then (b : Int) else (b : Int) - 256
def cstr (b : Bytes) : Bytes := b.takeWhile (· ≠ 0)

/-- `hio_read(buf, 1, 63, f)` at position `pos`: number of bytes obtained, the buffer afterwards -/
def readBuf (f : Bytes) (pos : Nat) (buf : Bytes) : Nat × Bytes :=
  let k := min 63 (f.length - pos)
  (k, (f.drop pos).take k ++ buf.drop k)

structure St where
  left : Nat          -- iterations still to do (`idx + 1 - i`)
  l : Nat             -- offset into the name table
  buf : Bytes         -- `char buf[64]`
  deriving Repr

/-- one iteration of the `for` loop; `none` = return −1, `some name` = the C string copied to `out` -/
def nameStep (f : Bytes) (nameOfs : Nat) (v64 : Bool) (s : St) : Out St (Option Bytes) :=
  match s.left with
  | 0 => .done (some (cstr (if v64 then s.buf.drop 1 else s.buf)))
  | k + 1 =>
    let r := readBuf f (nameOfs + s.l) s.buf
    if r.1 = 0 then .done none
    else if v64 then
      (if sbyte (u8 r.2 0) ≤ 0 then .done none
       else .next { left := k, l := s.l + (sbyte (u8 r.2 0)).toNat + 5, buf := r.2 })
    else .next { left := k, l := s.l + (cstr r.2).length + 5, buf := r.2 }

def nameFuel (f : Bytes) : Nat := f.length / 5 + 3

/-- `read_typname(f, hdr, idx, out)` -/
def readTypname (f : Bytes) (nameCount nameOfs : Nat) (v64 : Bool) (idx : Nat) : Run (Option Bytes) :=
  if idx ≥ nameCount then ⟨some none, 0⟩
  else run (nameStep f nameOfs v64) (nameFuel f) { left := idx + 1, l := 0, buf := List.replicate 64 0 }

end Xmp.Umx
