import XmpModel.Basic
import XmpModel.Gen.MixerConsts
/-!
# Model of the output stage of the software mixer (property C13)

Mirrors, in `src/mixer.c`:

* `downmix_int_8bit` / `downmix_int_16bit` — shift the 32-bit accumulator right by
  `DOWNMIX_SHIFT (+ 8) − amp`, clamp to the sample range, store, then `*dest += offs`
  (performed in the destination type, i.e. modulo 2^8 / 2^16);
* the call site at the end of `libxmp_mixer_softmixer` ("Render final frame"):
  sample count `ticksize · (2 − mono)`, capped at `XMP_MAX_FRAMESIZE`, 8-bit or
  16-bit writer selected by `XMP_FORMAT_8BIT`, offset `0x80` / `0x8000` selected by
  `XMP_FORMAT_UNSIGNED`;
* the tick-size guard of `libxmp_mixer_prepare`;
* `buffer_size` as computed by `xmp_get_frame_info` (`src/player.c`).

and, for the timeline part of C13, the *shape* of `xmp_play_frame`: the sequencer
kernel is advanced first, from kernel state and control calls only; everything
that sees the output configuration (channels, voices, soft mixer) runs afterwards
and has no path back into the kernel (`Gen/SeqWriters.lean` ties that to the code).

All constants come from `XmpModel.Gen.MixerConsts`, regenerated from the C on every run.
Accumulators are `Int`; C's `int32 >> n` is the arithmetic shift `Int.shiftRight`
(gcc/clang semantics, little-endian x86-64 only).
-/
namespace Xmp.Downmix
open Xmp.Gen.MixerConsts

/-! ## per-sample functions -/

/-- `int shift = DOWNMIX_SHIFT + 8 - amp;` (`downmix_int_8bit`) -/
def shift8 (amp : Nat) : Nat := downmixShift + 8 - amp
/-- `int shift = DOWNMIX_SHIFT - amp;` (`downmix_int_16bit`) -/
def shift16 (amp : Nat) : Nat := downmixShift - amp

/-- `smp = *src >> shift` — the value entering the clamp (16-bit writer). -/
def pre16 (amp : Nat) (x : Int) : Int := x >>> shift16 amp
/-- `smp = *src >> shift` — the value entering the clamp (8-bit writer). -/
def pre8 (amp : Nat) (x : Int) : Int := x >>> shift8 amp

/-- `if (smp > LIM16_HI) … else if (smp < LIM16_LO) … else smp` -/
def clip16 (v : Int) : Int := if v > lim16Hi then lim16Hi else if v < lim16Lo then lim16Lo else v
/-- `if (smp > LIM8_HI) … else if (smp < LIM8_LO) … else smp` -/
def clip8 (v : Int) : Int := if v > lim8Hi then lim8Hi else if v < lim8Lo then lim8Lo else v

/-- value of a signed `w`-bit object after storing `v` (two's complement wrap) -/
def wrapS (w : Nat) (v : Int) : Int := (v + 2 ^ (w - 1)) % 2 ^ w - 2 ^ (w - 1)

/-- `downmix_int_16bit`, one sample: the `int16` left in `*dest`. -/
def d16 (amp : Nat) (offs : Int) (x : Int) : Int :=
  let s := clip16 (pre16 amp x)
  if offs ≠ 0 then wrapS 16 (s + offs) else s

/-- `downmix_int_8bit`, one sample: the (signed) `char` left in `*dest`. -/
def d8 (amp : Nat) (offs : Int) (x : Int) : Int :=
  let s := clip8 (pre8 amp x)
  if offs ≠ 0 then wrapS 8 (s + offs) else s

/-- the stored object read as an unsigned word (what an unsigned consumer sees) -/
def word (w : Nat) (v : Int) : Nat := (v % 2 ^ w).toNat

/-! ## buffers -/

/-- little-endian bytes of an `int16` -/
def le16 (v : Int) : Bytes :=
  let u := word 16 v
  [UInt8.ofNat (u % 256), UInt8.ofNat (u / 256)]

def byte8 (v : Int) : Bytes := [UInt8.ofNat (word 8 v)]

/-- `downmix_int_16bit(dest, src, num, amp, offs)`: the `num` samples written -/
def downmix16 (amp : Nat) (offs : Int) (src : List Int) (num : Nat) : List Int :=
  (src.take num).map (d16 amp offs)

/-- `downmix_int_8bit(dest, src, num, amp, offs)` -/
def downmix8 (amp : Nat) (offs : Int) (src : List Int) (num : Nat) : List Int :=
  (src.take num).map (d8 amp offs)

/-- output format flags (`s->format`) -/
structure Fmt where
  bits8 : Bool
  unsigned : Bool
  mono : Bool
deriving DecidableEq, Repr

def Fmt.ofNat (f : Nat) : Fmt :=
  { bits8 := f &&& fmt8bit ≠ 0, unsigned := f &&& fmtUnsigned ≠ 0, mono := f &&& fmtMono ≠ 0 }

/-- `libxmp_mixer_get_ticksize` after the floating-point quotient: `calc` is the value of
`freq * time_factor * rrate / bpm / 1000` truncated towards zero when it is representable
(`none`: invalid parameter, NaN or above `INT_MAX` → −1); small values are raised to
`1 << ANTICLICK_SHIFT`. The quotient itself (IEEE doubles) is not modelled. -/
def ticksizeOf (q : Option Int) : Int :=
  match q with
  | none => -1
  | some c => if c < 2 ^ anticlickShift then 2 ^ anticlickShift else c

/-- `libxmp_mixer_prepare`: guard applied to the value of `libxmp_mixer_get_ticksize`
(which is −1 for invalid parameters). -/
def prepareTicksize (t : Int) : Nat :=
  if t < 0 ∨ t > (ticksizeCap : Nat) then ticksizeCap else t.toNat

/-- number of accumulators consumed by the final stage ("Render final frame"):
`size = ticksize; if (~format & MONO) size *= 2; if (size > XMP_MAX_FRAMESIZE) size = XMP_MAX_FRAMESIZE` -/
def frameSamples (f : Fmt) (ticksize : Nat) : Nat :=
  let size := if f.mono then ticksize else ticksize * 2
  if size > maxFramesize then maxFramesize else size

/-- offset argument at the call site -/
def offsOf (f : Fmt) : Int :=
  if f.bits8 then (if f.unsigned then 0x80 else 0) else (if f.unsigned then 0x8000 else 0)

/-- the sample values the final stage leaves in `s->buffer` -/
def renderSamples (f : Fmt) (ticksize amp : Nat) (buf32 : List Int) : List Int :=
  if f.bits8 then downmix8 amp (offsOf f) buf32 (frameSamples f ticksize)
  else downmix16 amp (offsOf f) buf32 (frameSamples f ticksize)

/-- … and the bytes (`char *buffer`), little endian -/
def renderBytes (f : Fmt) (ticksize amp : Nat) (buf32 : List Int) : Bytes :=
  if f.bits8 then (renderSamples f ticksize amp buf32).flatMap byte8
  else (renderSamples f ticksize amp buf32).flatMap le16

/-- `xmp_get_frame_info`: `buffer_size = ticksize; if (~format & MONO) *= 2; if (~format & 8BIT) *= 2` -/
def bufferSize (f : Fmt) (ticksize : Nat) : Nat :=
  let a := if f.mono then ticksize else ticksize * 2
  if f.bits8 then a else a * 2

/-- bytes allocated for `s->buffer` in `libxmp_mixer_on`: `calloc(XMP_MAX_FRAMESIZE, sizeof(int16))` -/
def bufferAlloc : Nat := maxFramesize * sizeofInt16
/-- elements allocated for `s->buf32`: `calloc(XMP_MAX_FRAMESIZE, sizeof(int32))` -/
def buf32Alloc : Nat := maxFramesize

/-! ## the shape of `xmp_play_frame` (timeline part)

`K` — sequencer kernel state (`p->ord,row,pos,frame,speed,bpm,loop_count,current_time,
frame_time, flow.*`) together with the immutable module; `X` — everything else in the
context (channel data, voices, mixer buffers); `Cfg` — output configuration (rate,
format, interpolation, amplification, mix, master volume …); `Ctl` — the control call,
if any, made before the frame (`xmp_set_position`, `xmp_seek_time`, …). -/

/-- the per-frame fields of `xmp_frame_info` that C13 constrains -/
structure Timeline where
  pos : Int
  row : Int
  frame : Int
  speed : Int
  bpm : Int
  time : Int
  loopCount : Int
  totalTime : Int
deriving DecidableEq, Repr

structure Machine (K X Cfg Ctl : Type) where
  /-- control call + the sequencing half of `xmp_play_frame` (reposition / `next_row` /
  `read_row` flow effects / time accounting): no configuration, no mixer state -/
  seq : Ctl → K → K
  /-- `play_channel` for every virtual channel, then `libxmp_mixer_softmixer` -/
  rest : Cfg → K → X → X
  /-- `xmp_get_frame_info`, timeline fields -/
  info : K → Timeline
  /-- `xmp_get_frame_info`, `buffer_size` (depends on rate and format, and on bpm) -/
  bufSize : Cfg → K → Nat

variable {K X Cfg Ctl : Type}

/-- one `ctl; xmp_play_frame` -/
def Machine.step (m : Machine K X Cfg Ctl) (c : Cfg × Ctl) (s : K × X) : K × X :=
  let k' := m.seq c.2 s.1
  (k', m.rest c.1 k' s.2)

/-- the states after each frame -/
def Machine.run (m : Machine K X Cfg Ctl) : List (Cfg × Ctl) → K × X → List (K × X)
  | [], _ => []
  | c :: cs, s => let s' := m.step c s; s' :: m.run cs s'

/-- the observed per-frame timeline -/
def Machine.timeline (m : Machine K X Cfg Ctl) (cs : List (Cfg × Ctl)) (s : K × X) : List Timeline :=
  (m.run cs s).map (fun s => m.info s.1)

end Xmp.Downmix
