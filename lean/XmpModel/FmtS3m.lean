import XmpModel.FmtMod
/-!
# C19 — Scream Tracker 3 (S3M) codec, plus helpers shared by the S3M/XM/IT models

* shared: `libxmp_load_epilogue` / `libxmp_prepare_scan` fix-ups that touch the observed
  fields, PCM storage conversions (signedness, stereo block layout, delta), all written
  on bytes / little-endian words.
* `S3m.write` : independent encoder from the ST3 format description (96-byte header,
  parapointers, 80-byte sample headers, packed 64-row patterns with every choice of
  redundant `what`-byte flags, signed (ffi 1) or unsigned (ffi 2) PCM, 8/16 bit, mono/stereo).
* `S3m.read` mirrors `s3m_test`/`s3m_load` (src/loaders/s3m_load.c) and the parts of
  `libxmp_load_sample` that apply.  `none` = model silent (short file, AdLib instruments,
  ADPCM packing, load error).
-/
namespace Xmp.Fmt

/-! ## epilogue fix-ups (load_helpers.c) -/

/-- `libxmp_load_epilogue`: `spd ≤ 0 ∨ spd > 255 → 6` -/
def fixSpd (spd : Nat) : Nat := if spd = 0 ∨ spd > 255 then 6 else spd
/-- `CLAMP(bpm, XMP_MIN_BPM, 1000)` -/
def fixBpm (bpm : Nat) : Nat := if bpm > 1000 then 1000 else if bpm < 20 then 20 else bpm

/-! ## PCM storage conversions -/

/-- little-endian 16-bit words of a byte string (a trailing odd byte is dropped) -/
def words : Bytes → List Nat
  | a :: b :: r => (a.toNat + 256 * b.toNat) :: words r
  | _ => []

def unwords : List Nat → Bytes
  | [] => []
  | w :: r => u8 (w % 256) :: u8 (w / 256 % 256) :: unwords r

/-- `convert_signal`: flip the sign bit of every 8-bit sample / of every 16-bit word -/
def signFlip (is16 : Bool) (b : Bytes) : Bytes :=
  if is16 then unwords ((words b).map fun w => (w + 0x8000) % 0x10000)
  else b.map fun x => u8 ((x.toNat + 0x80) % 256)

/-- running sum modulo `m` (`convert_delta`): out[i] = in[i] + out[i-1] -/
def deltaDecN (m : Nat) : Nat → List Nat → List Nat
  | _, [] => []
  | acc, x :: r => let y := (x + acc) % m; y :: deltaDecN m y r

/-- differences modulo `m` (the writer's side) -/
def deltaEncN (m : Nat) : Nat → List Nat → List Nat
  | _, [] => []
  | prev, x :: r => ((x + m - prev % m) % m) :: deltaEncN m x r

def deltaDec (is16 : Bool) (b : Bytes) : Bytes :=
  if is16 then unwords (deltaDecN 0x10000 0 (words b)) else (deltaDecN 256 0 (b.map (·.toNat))).map u8
def deltaEnc (is16 : Bool) (b : Bytes) : Bytes :=
  if is16 then unwords (deltaEncN 0x10000 0 (words b)) else (deltaEncN 256 0 (b.map (·.toNat))).map u8

/-- split interleaved frames (`fs` bytes per channel sample) into the left and the right block -/
def deinterleave (fs : Nat) : (frames : Nat) → Bytes → Bytes × Bytes
  | 0, _ => ([], [])
  | n + 1, b =>
    let (l, r) := deinterleave fs n (b.drop (2 * fs))
    (b.take fs ++ l, (b.drop fs).take fs ++ r)

/-- `convert_stereo_interleaved`: left block, right block → interleaved frames -/
def interleave (fs : Nat) : (frames : Nat) → Bytes → Bytes → Bytes
  | 0, _, _ => []
  | n + 1, l, r => l.take fs ++ r.take fs ++ interleave fs n (l.drop fs) (r.drop fs)

def frameBytes (flg : Nat) : Nat := (if flg &&& F16BIT ≠ 0 then 2 else 1) * (if flg &&& FSTEREO ≠ 0 then 2 else 1)
def chanBytes (flg : Nat) : Nat := if flg &&& F16BIT ≠ 0 then 2 else 1

/-- in-memory (interleaved) → file (left block ++ right block) for stereo, identity for mono -/
def toBlocks (flg len : Nat) (pcm : Bytes) : Bytes :=
  if flg &&& FSTEREO ≠ 0 then let (l, r) := deinterleave (chanBytes flg) len pcm; l ++ r else pcm

def fromBlocks (flg len : Nat) (raw : Bytes) : Bytes :=
  if flg &&& FSTEREO ≠ 0 then
    interleave (chanBytes flg) len (raw.take (len * chanBytes flg)) (raw.drop (len * chanBytes flg))
  else raw

def pad16 (b : Bytes) : Bytes := b ++ List.replicate ((16 - b.length % 16) % 16) 0

def modAt {α : Type} : List α → Nat → (α → α) → List α
  | [], _, _ => []
  | x :: xs, 0, f => f x :: xs
  | x :: xs, n + 1, f => x :: modAt xs n f

end Xmp.Fmt

namespace Xmp.Fmt.S3m
open Xmp.Fmt

/-! ## pattern codec -/

/-- writer: note byte (hi nibble octave, lo nibble semitone; 255 empty, 254 key off) -/
def encNote (n : Nat) : UInt8 :=
  if n = 0 then 255 else if n = KEY_OFF then 254 else u8 (((n - 13) / 12) * 16 + (n - 13) % 12)

/-- loader: `13 + 12 * MSN(n) + LSN(n)`, truncated to the 8-bit event field -/
def decNote (b : UInt8) : Nat :=
  if b = 255 then 0 else if b = 254 then KEY_OFF else (13 + 12 * (b.toNat / 16) + b.toNat % 16) % 256

def NoteOk (n : Nat) : Prop := n = 0 ∨ n = KEY_OFF ∨ (13 ≤ n ∧ n ≤ 108)
instance (n : Nat) : Decidable (NoteOk n) := by unfold NoteOk; infer_instance

def CellOk (c : Cell) : Prop := NoteOk c.note ∧ c.ins < 256 ∧ c.vol ≤ 65
instance (c : Cell) : Decidable (CellOk c) := by unfold CellOk; infer_instance

/-- one packed entry for channel `k`; `force` bit 0/1/2 = emit the note+instrument / volume /
effect group although it is empty (every `what`-byte flag choice the format allows);
an entry with no group at all is omitted. -/
def encEntry (k : Nat) (c : Cell) (force : Nat) (fx : UInt8 × UInt8) : Bytes :=
  let ni := decide (c.note ≠ 0 ∨ c.ins ≠ 0 ∨ force % 2 = 1)
  let v := decide (c.vol ≠ 0 ∨ force / 2 % 2 = 1)
  let e := decide (force / 4 % 2 = 1)
  if !ni && !v && !e then []
  else
    [u8 (k + (if ni then 32 else 0) + (if v then 64 else 0) + (if e then 128 else 0))] ++
    (if ni then [encNote c.note, u8 c.ins] else []) ++
    (if v then [u8 (if c.vol = 0 then 255 else c.vol - 1)] else []) ++
    (if e then [fx.1, fx.2] else [])

/-- entries of one row for channels `k, k+1, …` ; `i` = global cell index for the option streams -/
def encRowFrom (force : Nat → Nat) (fx : Nat → UInt8 × UInt8) : List Cell → Nat → Nat → Bytes
  | [], _, _ => []
  | c :: cs, k, i => encEntry k c (force i) (fx i) ++ encRowFrom force fx cs (k + 1) (i + 1)

/-- rows of `chn` cells each, every row closed by the end-of-row byte 0 -/
def encRows (chn : Nat) (force : Nat → Nat) (fx : Nat → UInt8 × UInt8) : (rows : Nat) → List Cell → Nat → Bytes
  | 0, _, _ => []
  | n + 1, cells, i =>
    encRowFrom force fx (cells.take chn) 0 i ++ [0] ++ encRows chn force fx n (cells.drop chn) (i + chn)

/-- packed pattern data (without the 2-byte length) -/
def pack (chn : Nat) (p : Pat) (force : Nat → Nat) (fx : Nat → UInt8 × UInt8) (i : Nat) : Bytes :=
  encRows chn force fx p.rows p.cells i

def emptyRow (chn : Nat) : List Cell := List.replicate chn {}

/-- one packed entry after its non-zero `what` byte `b`: `(rest of the stream, bytes consumed, row)`;
`none` when the stream ends inside the entry -/
def entry (chn : Nat) (b : UInt8) (bs : Bytes) (row : List Cell) : Option (Bytes × Nat × List Cell) :=
  let c := b.toNat % 32
  let hasNi := b.toNat / 32 % 2 = 1
  let hasV := b.toNat / 64 % 2 = 1
  let hasE := b.toNat / 128 % 2 = 1
  let need := (if hasNi then 2 else 0) + (if hasV then 1 else 0) + (if hasE then 2 else 0)
  if bs.length < need then none
  else
    let (ni, bs1) := if hasNi then (bs.take 2, bs.drop 2) else ([], bs)
    let (v, bs2) := if hasV then (bs1.take 1, bs1.drop 1) else ([], bs1)
    let bs3 := if hasE then bs2.drop 2 else bs2
    let upd (e : Cell) : Cell :=
      let e := match ni with
        | [n, i] => { e with note := decNote n, ins := i.toNat }
        | _ => e
      match v with
        | [x] => { e with vol := (x.toNat + 1) % 256 }
        | _ => e
    some (bs3, need, if c < chn then modAt row c upd else row)

/-- body of the `while (pat_len >= 0 && r < rows)` loop until the row ends; the byte stream is
the rest of the file; returns the row, the remaining stream and `pat_len` (which only counts
the bytes that follow a `what` byte, exactly as the loader does). -/
def unpackRow (chn : Nat) : (fuel : Nat) → Bytes → Int → List Cell → Option (List Cell × Bytes × Int)
  | 0, _, _, _ => none
  | f + 1, bs, pl, row =>
    if pl < 0 then some (row, bs, pl)
    else match bs with
    | [] => none
    | b :: bs =>
      if b = 0 then some (row, bs, pl)
      else match entry chn b bs row with
        | none => none
        | some (bs3, need, row') => unpackRow chn f bs3 (pl - need) row'

def unpackRows (chn : Nat) : (rows : Nat) → Bytes → Int → Option (List (List Cell))
  | 0, _, _ => some []
  | n + 1, bs, pl =>
    if pl < 0 then some (List.replicate (n + 1) (emptyRow chn))
    else match unpackRow chn (bs.length + 1) bs pl (emptyRow chn) with
      | none => none
      | some (row, bs', pl') => (unpackRows chn n bs' pl').map (row :: ·)

/-- `hio_seek(pp*16); pat_len = read16l - 2; …` : stream positioned at the 2-byte length -/
def unpack (chn : Nat) (bs : Bytes) : Option Pat :=
  if bs.length < 2 then none
  else (unpackRows chn 64 (bs.drop 2) ((rd16le (bs.take 2) : Int) - 2)).map
    fun rows => { rows := 64, cells := rows.flatten }

/-! ## sample header codec -/

structure Opts where
  ffi : Nat := 2                                 -- 1 = signed samples, 2 = unsigned
  cwt : Nat := 0x1320
  flags : Nat := 0
  gv : UInt8 := 64
  mv : UInt8 := 0xb0
  pan : Option Bytes := none                     -- 32 default-pan bytes (dp = 0xfc)
  chset : Nat → UInt8 := fun k => u8 (k % 16)    -- channel settings of the enabled channels (≠ 0xff)
  c2spd : Nat → Nat := fun _ => 8363
  nullEmpty : Bool := false                      -- store entirely empty patterns as parapointer 0
  force : Nat → Nat := fun _ => 0                -- redundant `what` flags per cell
  fx : Nat → UInt8 × UInt8 := fun _ => (0, 0)    -- opaque effect bytes per cell

def str := Mod.str

/-- 80-byte sample header (type 1) or empty slot (type 0); `seg` = paragraph of the PCM -/
def encSmpHdr (x : Ins) (m : Smp) (seg c2spd : Nat) : Bytes :=
  let vol := (x.subs.headD { sid := 0, vol := 0, pan := 0x80, xpo := 0, fin := 0 }).vol
  let fl := (if m.flg &&& FLOOP ≠ 0 then 1 else 0) + (if m.flg &&& FSTEREO ≠ 0 then 2 else 0) +
            (if m.flg &&& F16BIT ≠ 0 then 4 else 0)
  [u8 (if m.len = 0 then 0 else 1)] ++ List.replicate 12 0 ++ [u8 (seg / 65536)] ++ le16 (seg % 65536) ++
  le32 m.len ++ le32 m.lps ++ le32 m.lpe ++ [u8 vol, 0, 0, u8 fl] ++ le32 c2spd ++ List.replicate 12 0 ++
  padTo 28 x.name ++ (if m.len = 0 then [0, 0, 0, 0] else str "SCRS")

structure SmpHdr where
  typ : Nat
  seg : Nat
  len : Nat
  lps : Nat
  lpe : Nat
  vol : Nat
  pack : Nat
  flags : Nat
  name : Bytes
  magic : Bytes
  deriving Repr, Inhabited

def decSmpHdr (b : Bytes) : SmpHdr :=
  { typ := (b.getD 0 0).toNat, seg := rd16le ((b.drop 14).take 2) + (b.getD 13 0).toNat * 65536,
    len := rd32le ((b.drop 16).take 4), lps := rd32le ((b.drop 20).take 4), lpe := rd32le ((b.drop 24).take 4),
    vol := (b.getD 28 0).toNat, pack := (b.getD 30 0).toNat, flags := (b.getD 31 0).toNat,
    name := (b.drop 48).take 28, magic := (b.drop 76).take 4 }

def hdrFlg (h : SmpHdr) : Nat :=
  (if h.flags % 2 = 1 then FLOOP else 0) + (if h.flags / 2 % 2 = 1 then FSTEREO else 0) +
  (if h.flags / 4 % 2 = 1 then F16BIT else 0)

def hdrIns (i : Nat) (h : SmpHdr) : Ins :=
  { name := adjustString (copyAdjust 28 h.name),
    subs := if h.len > 0 then [{ sid := i, vol := h.vol, pan := 0x80, xpo := 0, fin := 0 }] else [] }

/-- PCM of one sample as the loader stores it: `raw` = the bytes at the sample's paragraph -/
def loadPcm (unsigned : Bool) (flg len : Nat) (raw : Bytes) : Bytes :=
  let is16 := decide (flg &&& F16BIT ≠ 0)
  fromBlocks flg len (if unsigned then signFlip is16 raw else raw)

/-- writer's side -/
def storePcm (unsigned : Bool) (flg len : Nat) (pcm : Bytes) : Bytes :=
  let is16 := decide (flg &&& F16BIT ≠ 0)
  let b := toBlocks flg len pcm
  if unsigned then signFlip is16 b else b

def hdrSmp (file : Bytes) (unsigned : Bool) (h : SmpHdr) : Option Smp :=
  let flg := hdrFlg h
  if h.len = 0 then some { name := [], len := 0, lps := h.lps, lpe := h.lpe, flg := flg, pcm := [] }
  else
    let n := h.len * frameBytes flg
    let off := 16 * h.seg
    if off + n > file.length then none   -- truncated sample: not modelled
    else
      let (lps, lpe, flg') := loopSanity h.len h.lps h.lpe flg
      some { name := [], len := h.len, lps := lps, lpe := lpe, flg := flg',
             pcm := loadPcm unsigned flg h.len ((file.drop off).take n) }

/-! ## file level -/

/-- `mod->pat`: 1 + largest order below 0xfe, capped by the header's pattern count -/
def patCount (ords : Bytes) (patnum : Nat) : Nat :=
  let m := ords.foldl (fun (m : Nat) o => if o.toNat < 0xfe ∧ o.toNat + 1 > m then o.toNat + 1 else m) 0
  if m > patnum then patnum else m

/-- the first order entry that is not a skip marker (0xfe) names a stored pattern -/
def startsAtPattern (pat : Nat) (ords : Bytes) : Bool :=
  match ords.dropWhile (· == 0xfe) with
  | o :: _ => o.toNat < pat
  | [] => false

/-- the order list reaches a pattern before any end-of-song marker (0xff); 0xfe entries are skipped.
(Kept for reference: the precise rule of the loader is `scanStarts` below.) -/
def playable (ords : Bytes) : Bool :=
  match ords.dropWhile (· == 0xfe) with
  | o :: _ => o.toNat < 0xfe
  | [] => false

/-- `scan_module` from order 0 (S3M / IT: `QUIRK_MARKER`): entries that name no stored pattern (skip markers
0xfe included) are skipped, the end marker 0xff stops the scan; does the scan reach a stored pattern? -/
def startsValid (pat : Nat) (ords : Bytes) : Bool :=
  match ords.dropWhile (fun o => decide (o.toNat ≥ pat ∧ o.toNat ≠ 0xff)) with
  | o :: _ => decide (o.toNat < pat)
  | [] => false

/-- `libxmp_prepare_scan` + `libxmp_scan_sequences`: the load fails ("no valid orders") when the scan from order 0
ends without having played a row — unless no entry at all names a stored pattern: then the order list has been
emptied before and nothing is scanned. -/
def scanStarts (pat : Nat) (ords : Bytes) : Bool :=
  ords.all (fun o => decide (o.toNat ≥ pat)) || startsValid pat ords

def chnCount (chset : Bytes) : Nat :=
  (chset.zipIdx.foldl (fun (m : Nat) (c, i) => if c ≠ 0xff then i + 1 else m) 0)

def isEmptyPat (p : Pat) : Bool := p.cells.all fun c => c.note = 0 && c.ins = 0 && c.vol = 0

/-! ### layout of the written file

`head` (96-byte header, order list, parapointer tables, optional pan table; padded to a paragraph) ·
80-byte instrument headers · pattern blobs · sample blobs.  Every blob is padded to a multiple of 16
bytes, so every part starts on a paragraph boundary. -/

/-- one stored pattern: length word + packed data, padded; `[]` = not stored (parapointer 0);
`ci` = global index of the pattern's first cell (for the per-cell option streams) -/
def patBlob (chn : Nat) (o : Opts) (p : Pat) (ci : Nat) : Bytes :=
  if o.nullEmpty && isEmptyPat p then [] else
    let d := pack chn p o.force o.fx ci
    pad16 (le16 (d.length + 2) ++ d)

def patBlobs (chn : Nat) (o : Opts) : List Pat → Nat → List Bytes
  | [], _ => []
  | p :: ps, ci => patBlob chn o p ci :: patBlobs chn o ps (ci + p.cells.length)

def smpBlob (o : Opts) (m : Smp) : Bytes := pad16 (storePcm (o.ffi ≠ 1) m.flg m.len m.pcm)

/-- paragraph numbers of consecutive blobs starting at paragraph `base` -/
def parasOf (base : Nat) : List Bytes → List Nat
  | [] => []
  | b :: bs => base :: parasOf (base + b.length / 16) bs

/-- the same for patterns: an empty blob (pattern not stored) gets parapointer 0 -/
def patParasOf (base : Nat) : List Bytes → List Nat
  | [] => []
  | b :: bs => (if b.isEmpty then 0 else base) :: patParasOf (base + b.length / 16) bs

def panBytes (o : Opts) : Bytes := match o.pan with | some p => padTo 32 p | none => []

/-- first paragraph after the header tables -/
def basePara (s : Module) (o : Opts) : Nat :=
  (96 + s.orders.length + 2 * s.ins.length + 2 * s.pats.length + (panBytes o).length + 15) / 16

def patBase (s : Module) (o : Opts) : Nat := basePara s o + 5 * s.ins.length
def smpBase (s : Module) (o : Opts) : Nat := patBase s o + ((patBlobs s.chn o s.pats 0).map (·.length / 16)).sum

def patParas (s : Module) (o : Opts) : List Nat := patParasOf (patBase s o) (patBlobs s.chn o s.pats 0)
def smpParas (s : Module) (o : Opts) : List Nat := parasOf (smpBase s o) (s.smps.map (smpBlob o))

/-- the 80-byte headers of the slots `(x, m)` whose PCM lies at paragraph `seg`; `i` = slot number -/
def encSmpHdrs (o : Opts) : List Ins → List Smp → List Nat → Nat → Bytes
  | x :: xs, m :: ms, seg :: segs, i =>
    encSmpHdr x m (if m.len = 0 then 0 else seg) (o.c2spd i) ++ encSmpHdrs o xs ms segs (i + 1)
  | _, _, _, _ => []

def fileHdr (s : Module) (o : Opts) : Bytes :=
  let chset : Bytes := (List.range 32).map fun k => if k < s.chn then o.chset k else 0xff
  padTo 28 s.name ++ [0x1a, 16, 0, 0] ++ le16 s.orders.length ++ le16 s.ins.length ++ le16 s.pats.length ++
    le16 o.flags ++ le16 o.cwt ++
    le16 o.ffi ++ str "SCRM" ++ [o.gv, u8 s.spd, u8 s.bpm, o.mv, 0, (if o.pan.isSome then 0xfc else 0)] ++
    List.replicate 8 0 ++ [0, 0] ++ chset

def write (s : Module) (o : Opts) : Bytes :=
  pad16 (fileHdr s o ++ s.orders ++ (List.range s.ins.length).flatMap (fun i => le16 (basePara s o + 5 * i)) ++
         (patParas s o).flatMap le16 ++ panBytes o) ++
  encSmpHdrs o s.ins s.smps (smpParas s o) 0 ++ (patBlobs s.chn o s.pats 0).flatten ++ (s.smps.map (smpBlob o)).flatten

def readIns (file : Bytes) (unsigned : Bool) : List Nat → Nat → Option (List (Ins × Smp))
  | [], _ => some []
  | pp :: rest, i =>
    let b := (file.drop (16 * pp)).take 80
    if b.length < 80 then none
    else
      let h := decSmpHdr b
      if h.typ ≥ 2 then none                      -- AdLib instrument: not modelled
      else if h.len > 0x10000000 then none
      else if h.lps ≥ 0x80000000 ∨ h.lpe ≥ 0x80000000 then none   -- negative as C `int`: not modelled
      else if h.typ = 1 ∧ h.magic ≠ str "SCRS" then none
      else if h.pack = 4 then none                -- ADPCM: not modelled
      else match hdrSmp file unsigned h with
        | none => none
        | some m => (readIns file unsigned rest (i + 1)).map ((hdrIns i h, m) :: ·)

def read (bs : Bytes) : Option Module := do
  if bs.length < 96 then none
  let hdr := bs.take 96
  if (hdr.drop 44).take 4 ≠ str "SCRM" then none
  if hdr.getD 29 0 ≠ 0x10 then none
  let ordnum := rd16le ((hdr.drop 32).take 2)
  let insnum := rd16le ((hdr.drop 34).take 2)
  let patnum := rd16le ((hdr.drop 36).take 2)
  let ffi := rd16le ((hdr.drop 42).take 2)
  if ffi ≠ 1 ∧ ffi ≠ 2 then none
  if ordnum > 255 ∨ insnum > 255 ∨ patnum > 255 then none
  let chn := chnCount (hdr.drop 64)
  let (ords, r) ← takeN ordnum (bs.drop 96)
  let pat := patCount ords patnum
  if pat = 0 then none
  -- `libxmp_scan_sequences`: the scan from order 0 must reach a stored pattern before an end marker
  if !(scanStarts pat ords) then none
  let (ib, r) ← takeN (2 * insnum) r
  let (pb, _) ← takeN (2 * patnum) r
  let ppIns := decodeN 2 rd16le insnum ib
  let ppPat := decodeN 2 rd16le patnum pb
  let pats ← (ppPat.take pat).mapM fun pp =>
    if pp = 0 then some { rows := 64, cells := List.replicate (64 * chn) {} }
    else unpack chn (bs.drop (16 * pp))
  let sl ← readIns bs (ffi ≠ 1) ppIns 0
  some { name := adjustString (copyAdjust 28 (hdr.take 28)), chn := chn, orders := fixOrders pat ords,
         pats := pats, ins := sl.map (·.1), smps := sl.map (obsLoop ·.2),
         spd := fixSpd (hdr.getD 49 0).toNat, bpm := fixBpm (hdr.getD 50 0).toNat }

/-! ## well-formed S3M songs -/

def PatOk (chn : Nat) (p : Pat) : Prop :=
  p.rows = 64 ∧ p.cells.length = 64 * chn ∧ ∀ c ∈ p.cells, CellOk c
instance (chn : Nat) (p : Pat) : Decidable (PatOk chn p) := by unfold PatOk; infer_instance

def SubsOk (i : Nat) : List Sub → Prop
  | [sub] => sub.sid = i ∧ sub.vol ≤ 64 ∧ sub.pan = 0x80 ∧ sub.xpo = 0 ∧ sub.fin = 0
  | _ => False
instance (i : Nat) (l : List Sub) : Decidable (SubsOk i l) := by unfold SubsOk; split <;> infer_instance

def FlagsOk (allowed flg : Nat) : Prop := flg &&& allowed = flg
instance (a f : Nat) : Decidable (FlagsOk a f) := by unfold FlagsOk; infer_instance

def SlotOk (i : Nat) (x : Ins) (m : Smp) : Prop :=
  NameOk 28 x.name ∧ x.keymap = [] ∧ m.name = [] ∧ m.sus = 0 ∧ m.sue = 0 ∧
  FlagsOk (FLOOP ||| FSTEREO ||| F16BIT) m.flg ∧ m.len ≤ 0x100000 ∧ m.pcm.length = m.len * frameBytes m.flg ∧
  (if m.len = 0 then x.subs = [] ∧ m.lps = 0 ∧ m.lpe = 0 ∧ m.flg = 0
   else SubsOk i x.subs ∧
        (if m.flg &&& FLOOP ≠ 0 then m.lps < m.lpe ∧ m.lpe ≤ m.len else m.lps = 0 ∧ m.lpe = 0))
instance (i : Nat) (x : Ins) (m : Smp) : Decidable (SlotOk i x m) := by unfold SlotOk; infer_instance

def SlotsOk : Nat → List Ins → List Smp → Prop
  | _, [], [] => True
  | i, x :: xs, m :: ms => SlotOk i x m ∧ SlotsOk (i + 1) xs ms
  | _, _, _ => False

instance : (i : Nat) → (xs : List Ins) → (ms : List Smp) → Decidable (SlotsOk i xs ms)
  | _, [], [] => isTrue trivial
  | i, x :: xs, m :: ms => by
    unfold SlotsOk
    have := instDecidableSlotsOk (i + 1) xs ms
    infer_instance
  | _, [], _ :: _ => isFalse (by simp [SlotsOk])
  | _, _ :: _, [] => isFalse (by simp [SlotsOk])

/-- Well-formed S3M song + writer options -/
def WellFormed (s : Module) (o : Opts) : Prop :=
  NameOk 28 s.name ∧ startsValid s.pats.length s.orders = true ∧ (1 ≤ s.chn ∧ s.chn ≤ 32) ∧ (o.ffi = 1 ∨ o.ffi = 2) ∧
  (∀ k ∈ List.range s.chn, o.chset k ≠ 0xff) ∧ s.orders.length ≤ 255 ∧ s.ins.length ≤ 255 ∧
  (1 ≤ s.pats.length ∧ patCount s.orders s.pats.length = s.pats.length) ∧
  (∀ p ∈ s.pats, PatOk s.chn p) ∧ SlotsOk 0 s.ins s.smps ∧
  (1 ≤ s.spd ∧ s.spd ≤ 255) ∧ (20 ≤ s.bpm ∧ s.bpm ≤ 255) ∧
  (match o.pan with | some p => p.length = 32 | none => True) ∧
  -- the format's pointer widths: 16-bit pattern parapointers, 24-bit sample paragraphs
  (∀ pp ∈ patParas s o, pp < 0x10000) ∧ (∀ seg ∈ smpParas s o, seg < 0x1000000)

instance (s : Module) (o : Opts) : Decidable (WellFormed s o) := by
  unfold WellFormed
  cases o.pan <;> infer_instance

end Xmp.Fmt.S3m
