import XmpModel.Basic
/-!
# Linear-flow modules: the scan (`src/scan.c`) and the player (`src/player.c`)

`LinMod` is what the four core loaders (MOD, XM, S3M, IT) produce for a module
whose rows carry at most one *flow* effect out of

* `speed s`  — `FX_SPEED` with parameter `< 0x20` (or any parameter under
  `QUIRK_NOBPM`), `FX_S3M_SPEED`;
* `tempo t`  — `FX_SPEED` with parameter `≥ 0x20`, `FX_S3M_BPM`, `FX_IT_BPM` with
  parameter `≥ 0x20` (absolute tempo);
* `delay d`  — `FX_EXTENDED` / `EX_PATT_DELAY` (`EEx`, S3M `SEx`, IT `S6x`);
* `rowdelay x` — `FX_IT_ROWDELAY` (IT `SEx`, "pattern delay for x rows"): the row is entered
  `1 + x` times, each time for `speed` ticks at the *running* speed;
* `jump j`   — `FX_JUMP`.

Two **independent** interpreters of that vocabulary are modelled, mirroring
the two that exist in C:

* `Scan`  — `scan_module` (nested order / row loops, `row_count`,
  `frame_count`, `time` accounting, `scan_cnt`, `orders_since_last_valid`,
  restart / entry-point logic, `sequence_control`, `xxo_info` recording,
  `start_time`) and `libxmp_scan_sequences`;
* `Play`  — `xmp_play_frame` as a per-tick machine: `next_row`,
  `next_order`, `check_end_of_module`, the four effects as `effects.c`
  interprets them, `frame_time` accumulation.

Time is exact: the unit is `1/L` ms with `L = lcm(1..255)`, so one tick at
tempo `bpm ∈ 1..255` lasts exactly `tick bpm = 2500·L / bpm` units
(`time_factor · rrate / bpm` ms with `time_factor = 10`, `rrate = 250`).  The
`(int)` truncations of `ord_data.time` / `scan_data.time` are `toMs`.

The runaway guard is modelled: `row_count_total` (`rowCountTotal`) counts the rows of the
current order visit, is checked against `row_limit` (512; 3200 only in MED player mode, which none of
the four formats uses) at the top of every row — before the `scan_cnt` test, leaving through
`end_module` at that row without the `row_count--` — and is reset, together with `row_count`, only at
the bottom of the order loop (not by the `continue`s of skipped orders).

Not modelled (outside the vocabulary, constant in it): `break_row` (always 0
without pattern breaks), pattern loops (`inside_loop`, `loop_active_num`),
`line_jump`, global volume, ST2.6 / FAR / ULT
tempo modes, `QUIRK_PROTRACK`'s delay+break rule (needs two flow effects on a
row), IT tempo slides (`T0x` / `T1x`).
-/
namespace Xmp.LinFlow

inductive Fx where
  | none
  | speed (s : Nat)
  | tempo (t : Nat)
  | delay (d : Nat)
  | jump (j : Nat)
  | rowdelay (x : Nat)
  deriving Repr, DecidableEq, Inhabited

/-- The loaded module, as far as flow is concerned. -/
structure LinMod where
  /-- `mod->xxo[0..len)` -/
  xxo : List Nat
  /-- `mod->xxp[0..pat)`: one flow effect per row -/
  pats : List (List Fx)
  /-- `mod->rst` -/
  rst : Nat
  /-- `mod->spd`, `mod->bpm` -/
  spd : Nat
  bpm : Nat
  /-- `HAS_QUIRK(QUIRK_MARKER)`: order values 0xfe (skip) / 0xff (end) are markers -/
  marker : Bool
  deriving Repr, Inhabited

namespace LinMod
def len (m : LinMod) : Nat := m.xxo.length
def npat (m : LinMod) : Nat := m.pats.length
/-- `mod->xxo[ord]` -/
def patOf (m : LinMod) (ord : Nat) : Nat := m.xxo.getD ord 0
/-- the rows of pattern `pat` -/
def rowsOf (m : LinMod) (pat : Nat) : List Fx := m.pats.getD pat []
end LinMod

/-! ## exact time -/

/-- `lcm(1..255)` -/
def L : Nat := (List.range 255).foldl (fun a i => Nat.lcm a (i + 1)) 1

/-- duration of one tick at `bpm`, in units of `1/L` ms (`time_factor * rrate / bpm`). -/
def tick (bpm : Nat) : Nat := 2500 * L / bpm

/-- `(int) time` : whole milliseconds. -/
def toMs (t : Nat) : Nat := t / L

/-! ## the scan -/

/-- `struct ord_data` (flow part) + the exact time as a ghost field. -/
structure OrdInfo where
  /-- `time` in ms, `-1` = not recorded -/
  time : Int := -1
  /-- exact value before the `(int)` truncation -/
  timeX : Nat := 0
  speed : Nat := 0
  bpm : Nat := 0
  startRow : Nat := 0
  deriving Repr, Inhabited

/-- one scanned row: position, speed / tempo in force after the row's effect,
pattern delay of the row, exact time at which the row starts -/
structure RowRec where
  ord : Nat
  row : Nat
  speed : Nat
  bpm : Nat
  delay : Nat
  t0 : Nat
  deriving Repr, Inhabited, DecidableEq

structure ScanSt where
  speed : Nat
  bpm : Nat
  rowCount : Nat := 0
  /-- `row_count_total`: rows scanned in the current order visit (runaway guard) -/
  rowCountTotal : Nat := 0
  frameCount : Nat := 0
  time : Nat := 0
  startTime : Nat := 0
  /-- `orders_since_last_valid` -/
  osv : Nat := 0
  /-- `end_marker_ord`: the order of the `0xff` end marker that sends the next `++ord` past the end
  (`none` = -1); consumed and cleared by the wrap -/
  endMark : Option Nat := none
  anyValid : Bool := false
  /-- `m->scan_cnt[ord][row]` -/
  cnt : List (List Nat)
  /-- `p->sequence_control[]` (0xff = free) -/
  ctl : List Nat
  /-- `m->xxo_info[]` -/
  info : List OrdInfo
  /-- rows scanned so far, most recent first -/
  trace : List RowRec := []
  deriving Repr, Inhabited

def cntAt (c : List (List Nat)) (ord row : Nat) : Nat := (c.getD ord []).getD row 0

def cntInc (c : List (List Nat)) (ord row : Nat) : List (List Nat) :=
  c.set ord ((c.getD ord []).set row (cntAt c ord row + 1))

/-- `FX_IT_ROWDELAY` in the scan: `scan_cnt[ord][row] = MIN(scan_cnt[ord][row] + (p1 & 0x0f), 255)`
(scan.c:539-544); nothing for the other effects -/
def cntBump (c : List (List Nat)) (ord row : Nat) : Fx → List (List Nat)
  | .rowdelay x =>
    if x % 16 = 0 then c
    else c.set ord ((c.getD ord []).set row (min (cntAt c ord row + x % 16) 255))
  | _ => c

/-- `time + time_factor * frame_count * base_time / bpm` -/
def ScanSt.now (st : ScanSt) : Nat := st.time + st.frameCount * tick st.bpm

/-- the same, including the rows counted since the last speed change -/
def ScanSt.rowStart (st : ScanSt) : Nat :=
  st.time + (st.frameCount + st.rowCount * st.speed) * tick st.bpm

/-- The four effect blocks of the row loop (scan.c: `FX_SPEED` :362-378,
`FX_S3M_SPEED` :472-482, `FX_S3M_BPM` :484-493, `FX_IT_BPM` :496-530,
`EX_PATT_DELAY` :578-582 + :601-603). -/
def applyFx (fx : Fx) (st : ScanSt) : ScanSt :=
  match fx with
  | .speed s =>
    if s = 0 then st else
    { st with frameCount := st.frameCount + st.rowCount * st.speed, rowCount := 0, speed := s }
  | .tempo t =>
    let fc := st.frameCount + st.rowCount * st.speed
    { st with time := st.time + fc * tick st.bpm, frameCount := 0, rowCount := 0, bpm := t }
  | .delay d => { st with frameCount := st.frameCount + d * st.speed }
  | .rowdelay x => { st with frameCount := st.frameCount + (x % 16) * st.speed }
  | _ => st

def Fx.delayOf : Fx → Nat
  | .delay d => d
  | _ => 0

/-- `row_limit` of `scan_module` outside MED player mode -/
def rowLimit : Nat := 512

inductive RowsOut where
  /-- the `for` loop ended (last row, or `last_row = 0` after a jump); `ord2` -/
  | done (st : ScanSt) (ord2 : Option Nat)
  /-- `goto end_module` at `row` -/
  | endMod (st : ScanSt) (row : Nat)
  deriving Inhabited

/-- `for (row = break_row; row < last_row; row++, row_count++)` over the rows
`fxs` of the pattern at order `ord`, starting at index `row`. -/
def scanRows (ord : Nat) : List Fx → Nat → ScanSt → RowsOut
  | [], _, st => .done st none
  | fx :: rest, row, st0 =>
    let st := { st0 with bpm := if st0.bpm < 20 then 20 else st0.bpm }
    if st.rowCountTotal > rowLimit then
      .endMod st row
    else if cntAt st.cnt ord row ≠ 0 then
      .endMod { st with rowCount := st.rowCount - 1 } row
    else
      let st1 := { st with cnt := cntBump (cntInc st.cnt ord row) ord row fx, osv := 0, anyValid := true }
      let st2 := applyFx fx st1
      let r : RowRec := { ord := ord, row := row, speed := st2.speed, bpm := st2.bpm,
                          delay := fx.delayOf, t0 := st.rowStart }
      let st3 := { st2 with rowCount := st2.rowCount + 1, rowCountTotal := st2.rowCountTotal + 1,
                            trace := r :: st2.trace }
      match fx with
      | .jump j => .done st3 (some j)
      | _ => scanRows ord rest (row + 1) st3

/-- `end_marker_ord >= 0 && end_marker_ord < ep` -/
def belowEp (ep : Nat) : Option Nat → Bool
  | some x => decide (x < ep)
  | none => false

/-- restart target when `++ord >= len`: the same rule as `next_order` — an end marker met below the entry
point restarts at the entry point, not at the restart position (scan.c, since 4bf9f85) -/
def restartOrd (m : LinMod) (ep chain : Nat) (ctl : List Nat) (endMark : Option Nat) : Nat :=
  if m.rst > m.len ∨ m.patOf m.rst ≥ m.npat ∨ belowEp ep endMark = true then ep
  else if ctl.getD m.rst 0xff = chain then m.rst else ep

/-- `xxo_info[ord]` update at pattern entry (scan.c:235-253) -/
def recordInfo (ep ord : Nat) (st : ScanSt) : ScanSt :=
  let i := st.info.getD ord {}
  let i' : OrdInfo := if i.time < 0 then
      { i with time := (toMs st.now : Int), timeX := st.now, speed := st.speed, bpm := st.bpm }
    else i
  let st := { st with info := st.info.set ord i' }
  if i'.startRow = 0 ∧ ord ≠ 0 ∧ ord = ep then { st with startTime := st.now } else st

inductive Outcome where
  /-- reached `end_module` with these `ord`, `row` -/
  | finished (st : ScanSt) (ord row : Nat)
  | noFuel
  deriving Inhabited

/-- `while (42)`; `nord` is the value `++ord` will have. -/
def scanOrders (m : LinMod) (ep chain : Nat) : Nat → Nat → ScanSt → Outcome
  | 0, _, _ => .noFuel
  | fuel + 1, nord, st0 =>
    if st0.osv > 512 then .finished st0 (nord - 1) 0 else
    let st := { st0 with osv := st0.osv + 1, endMark := if nord ≥ m.len then none else st0.endMark }
    let wrapped := decide (nord ≥ m.len)
    let ord := if wrapped then restartOrd m ep chain st.ctl st0.endMark else nord
    let pat := m.patOf ord
    let isEnd := m.marker && pat == 0xff
    if wrapped && isEnd then .finished st ord 0 else
    let skipTo : Nat := if isEnd then m.len + 1 else ord + 1
    if ep ≠ 0 ∧ st.ctl.getD ord 0xff ≠ 0xff then
      if pat ≥ m.npat then
        scanOrders m ep chain fuel skipTo { st with endMark := if isEnd then some ord else st.endMark }
      else .finished st ord 0
    else
      let st := { st with ctl := st.ctl.set ord chain }
      if pat ≥ m.npat then
        scanOrders m ep chain fuel skipTo { st with endMark := if isEnd then some ord else st.endMark }
      else if cntAt st.cnt ord 0 ≠ 0 then .finished st ord 0
      else
        let st := recordInfo ep ord st
        match scanRows ord (m.rowsOf pat) 0 st with
        | .endMod st' row => .finished st' ord row
        | .done st' ord2 =>
          let st'' := { st' with frameCount := st'.frameCount + st'.rowCount * st'.speed,
                                 rowCount := 0, rowCountTotal := 0 }
          scanOrders m ep chain fuel (ord2.getD (ord + 1)) st''

/-- a fuel that `scan_module`'s outer loop never exhausts (`C18_scan_terminates`) -/
def scanFuel (m : LinMod) : Nat := (m.len + 1) * 514 + 1

/-- what `scan_module` leaves behind -/
structure ScanResult where
  /-- return value: `-1`, or the duration in ms -/
  ret : Int
  /-- exact duration (units of 1/L ms), meaningful when `ret ≥ 0` -/
  durX : Nat
  /-- `p->scan[chain].{ord,row,num}` -/
  endOrd : Nat
  endRow : Nat
  num : Nat
  ctl : List Nat
  info : List OrdInfo
  /-- scanned rows in order -/
  trace : List RowRec
  fuelOut : Bool := false
  /-- final `row_count_total` (> `rowLimit` iff the scan left through the runaway guard) -/
  rowTotal : Nat := 0
  deriving Repr, Inhabited

def initCnt (m : LinMod) : List (List Nat) :=
  m.xxo.map fun pat => List.replicate (if pat ≥ m.npat then 1 else max (m.rowsOf pat).length 1) 0

/-- `scan_module(ctx, ep, chain)` for `mod->len > 0`. -/
def scanModule (m : LinMod) (ep chain : Nat) (ctl : List Nat) (info : List OrdInfo) : ScanResult :=
  let st0 : ScanSt := { speed := m.spd, bpm := m.bpm, cnt := initCnt m, ctl := ctl, info := info }
  match scanOrders m ep chain (scanFuel m) ep st0 with
  | .noFuel => { ret := -1, durX := 0, endOrd := 0, endRow := 0, num := 0, ctl := ctl, info := info,
                 trace := [], fuelOut := true }
  | .finished st ord row0 =>
    if !st.anyValid then
      { ret := -1, durX := 0, endOrd := ord, endRow := row0, num := 0, ctl := st.ctl, info := st.info,
        trace := st.trace.reverse }
    else
      let pat := m.patOf ord
      let row := if pat ≥ m.npat ∨ row0 ≥ (m.rowsOf pat).length then 0 else row0
      let t := st.time - st.startTime
      let fc := st.frameCount + st.rowCount * st.speed
      let d := t + fc * tick st.bpm
      { ret := (toMs d : Int), durX := d, endOrd := ord, endRow := row, num := cntAt st.cnt ord row,
        ctl := st.ctl, info := st.info, trace := st.trace.reverse, rowTotal := st.rowCountTotal }

/-- one accepted sequence -/
structure SeqRec where
  ep : Nat
  res : ScanResult
  deriving Repr, Inhabited

structure SeqScan where
  ok : Bool
  seqs : List SeqRec
  ctl : List Nat
  info : List OrdInfo
  deriving Repr, Inhabited

def firstFree (ctl : List Nat) (len : Nat) : Option Nat :=
  (List.range len).find? fun i => ctl.getD i 0xff = 0xff

/-- the `while (1)` of `libxmp_scan_sequences` -/
def seqLoop (m : LinMod) : Nat → List SeqRec → List Nat → List OrdInfo → List SeqRec × List Nat × List OrdInfo
  | 0, acc, ctl, info => (acc, ctl, info)
  | fuel + 1, acc, ctl, info =>
    match firstFree ctl m.len with
    | none => (acc, ctl, info)
    | some ep =>
      if acc.length ≥ 255 then (acc, ctl, info) else
      let r := scanModule m ep acc.length ctl info
      let acc' := if r.ret > 0 then acc ++ [{ ep := ep, res := r }] else acc
      seqLoop m fuel acc' r.ctl r.info

/-- `libxmp_scan_sequences` (mod->len > 0) -/
def scanSequences (m : LinMod) : SeqScan :=
  let ctl0 := List.replicate 256 0xff
  let info0 : List OrdInfo := List.replicate 256 {}
  let r0 := scanModule m 0 0 ctl0 info0
  if r0.ret < 0 then { ok := false, seqs := [], ctl := r0.ctl, info := r0.info } else
  let (seqs, ctl, info) := seqLoop m (m.len + 1) [{ ep := 0, res := r0 }] r0.ctl r0.info
  let n := seqs.length
  { ok := true, seqs := seqs, ctl := ctl.map fun c => if c ≥ n then 0xff else c, info := info }

/-! ## the player -/

/-- what the player reads from the scan of its sequence -/
structure SeqInfo where
  /-- `p->sequence`, `seq_data[seq].entry_point` -/
  seq : Nat
  ep : Nat
  /-- `p->scan[seq].{ord,row,num}` -/
  endOrd : Nat
  endRow : Nat
  num : Nat
  deriving Repr, Inhabited

structure PlaySt where
  ord : Nat
  row : Nat
  frame : Nat
  speed : Nat
  bpm : Nat
  /-- `flow.delay`, `flow.pbreak`, `flow.jump` -/
  delay : Nat := 0
  pbreak : Bool := false
  jump : Option Nat := none
  /-- `flow.rowdelay`, `flow.rowdelay_set & ROWDELAY_ON` (IT row delay) -/
  rowdelay : Nat := 0
  rowdelaySet : Bool := false
  loopCount : Nat := 0
  endPoint : Int := 0
  /-- Σ frame_time of the frames rendered so far (exact) -/
  time : Nat := 0
  /-- `p->current_time` (exact units; reset to `xxo_info[ord].time` at every order change) -/
  ctime : Nat := 0
  deriving Repr, Inhabited

/-- `next_order`'s `do … while (xxo[ord] >= pat)`; `nord` is the value `p->ord++` will have. -/
def nextOrder (m : LinMod) (si : SeqInfo) (ctl : List Nat) : Nat → Nat → Option Nat
  | 0, _ => none
  | fuel + 1, nord =>
    let mark := m.marker && decide (nord < m.len) && m.patOf nord == 0xff
    let ord :=
      if nord ≥ m.len ∨ mark then
        if m.rst > m.len ∨ m.patOf m.rst ≥ m.npat ∨ nord < si.ep then si.ep
        else if ctl.getD m.rst 0xff = si.seq then m.rst else si.ep
      else nord
    if m.patOf ord ≥ m.npat then nextOrder m si ctl fuel (ord + 1) else some ord

def orderFuel (m : LinMod) : Nat := 2 * m.len + 4

/-- static environment of one playback -/
structure PlayEnv where
  m : LinMod
  si : SeqInfo
  ctl : List Nat
  info : List OrdInfo

/-- tail of `next_order`: land on row 0 of `ord` -/
def PlayEnv.enter (e : PlayEnv) (s : PlaySt) (nord : Nat) : Option PlaySt :=
  match nextOrder e.m e.si e.ctl (orderFuel e.m) nord with
  | none => none
  | some ord =>
    some { s with ord := ord, row := 0, frame := 0,
                  ctime := ((e.info.getD ord {}).time.toNat) * L }

/-- `next_row` -/
def PlayEnv.nextRow (e : PlayEnv) (s : PlaySt) : Option PlaySt :=
  let s := { s with frame := 0, delay := 0 }
  if s.pbreak then
    let nord := s.jump.getD (s.ord + 1)
    e.enter { s with pbreak := false, jump := none } nord
  else
    -- `if (f->rowdelay == 0) { p->row++; f->rowdelay_set = 0; } else f->rowdelay--;`
    let s := if s.rowdelay = 0 then { s with row := s.row + 1, rowdelaySet := false }
             else { s with rowdelay := s.rowdelay - 1 }
    if s.row ≥ (e.m.rowsOf (e.m.patOf s.ord)).length then e.enter s (s.ord + 1) else some s

/-- `check_end_of_module` -/
def PlayEnv.checkEnd (e : PlayEnv) (s : PlaySt) : PlaySt :=
  if s.ord = e.si.endOrd ∧ s.row = e.si.endRow then
    let s := if s.endPoint = 0 then { s with loopCount := s.loopCount + 1, endPoint := (e.si.num : Int) } else s
    { s with endPoint := s.endPoint - 1 }
  else s

/-- `read_row` → `libxmp_process_fx` for the four flow effects (effects.c:366-371,
450-451/499-504, 457-466, 506-525, 528-543) -/
def readFx (fx : Fx) (s : PlaySt) : PlaySt :=
  match fx with
  | .speed p => if p = 0 then s else { s with speed := p }
  | .tempo t => { s with bpm := if t < 20 then 20 else t }
  | .delay d => { s with delay := d }
  | .jump j => { s with pbreak := true, jump := some j }
  | .rowdelay x => if s.rowdelaySet then s else { s with rowdelay := x, rowdelaySet := true }
  | .none => s

def PlayEnv.fxAt (e : PlayEnv) (ord row : Nat) : Fx := (e.m.rowsOf (e.m.patOf ord)).getD row .none

/-- first frame of a row: `check_end_of_module` + `read_row` -/
def PlayEnv.newRow (e : PlayEnv) (s : PlaySt) : PlaySt :=
  let s := e.checkEnd s
  readFx (e.fxAt s.ord s.row) s

/-- the non-reposition branch at the top of `xmp_play_frame` -/
def PlayEnv.advance (e : PlayEnv) (s : PlaySt) : Option PlaySt :=
  let s := { s with frame := s.frame + 1 }
  if s.frame ≥ s.speed * (1 + s.delay) then e.nextRow s else some s

/-- the rest of `xmp_play_frame` after sequencing: new-row work, then
`frame_time = time_factor * rrate / bpm; current_time += frame_time` -/
def PlayEnv.render (e : PlayEnv) (s : PlaySt) : PlaySt :=
  let s := if s.frame = 0 then e.newRow s else s
  { s with time := s.time + tick s.bpm, ctime := s.ctime + tick s.bpm }

/-- one `xmp_play_frame` (no reposition pending) -/
def PlayEnv.frameStep (e : PlayEnv) (s : PlaySt) : Option PlaySt :=
  (e.advance s).map e.render

/-- `set_position`'s `while (has_marker && xxo[pos] == 0xfe) pos++` (dir = 0) -/
def skipMarkers (m : LinMod) : Nat → Nat → Nat
  | 0, pos => pos
  | fuel + 1, pos =>
    if m.marker ∧ pos < m.len ∧ m.patOf pos = 0xfe then skipMarkers m fuel (pos + 1) else pos

/-- `flow.end_point` after `xmp_set_position(entry point)` and the reposition
branch of the next `xmp_play_frame`: `set_position` stores
`pos > scan.ord ? 0 : scan.num` for the position it settles on (after skipping
0xfe markers; since fix 37bee1c also when that order holds no pattern);
`xmp_play_frame` stores `scan.num` if `p->pos` is the entry point, then 0 if
`p->pos > scan.ord`. -/
def PlayEnv.startEndPoint (e : PlayEnv) : Int :=
  let pos := skipMarkers e.m e.m.len e.si.ep
  let e1 : Int := if pos > e.si.endOrd then 0 else (e.si.num : Int)
  let e2 : Int := if pos = e.si.ep then (e.si.num : Int) else e1
  if pos > e.si.endOrd then 0 else e2

/-- State after `xmp_set_position(entry point)` and the reposition branch of the
following `xmp_play_frame` (before its new-row work): `next_order` from the
position `set_position` settled on, `update_from_ord_info`, `end_point`. -/
def PlayEnv.start (e : PlayEnv) : Option PlaySt :=
  match nextOrder e.m e.si e.ctl (orderFuel e.m) (skipMarkers e.m e.m.len e.si.ep) with
  | none => none
  | some ord =>
    let i := e.info.getD ord {}
    some { ord := ord, row := 0, frame := 0, speed := i.speed, bpm := i.bpm,
           endPoint := e.startEndPoint, ctime := i.time.toNat * L }

/-- Frames rendered until the loop counter increments (that frame excluded).
`s` is the state after sequencing of the frame about to be rendered. -/
def PlayEnv.frames (e : PlayEnv) : Nat → PlaySt → List PlaySt
  | 0, _ => []
  | fuel + 1, s =>
    let s1 := e.render s
    if s1.loopCount > 0 then [] else
    match e.advance s1 with
    | none => [s1]
    | some s2 => s1 :: e.frames fuel s2

/-- frames of one sequence from its entry point until `loop_count` first increments -/
def PlayEnv.run (e : PlayEnv) (fuel : Nat) : List PlaySt :=
  match e.start with
  | none => []
  | some s => e.frames fuel s

/-- the player environment for sequence number `k` of a scanned module -/
def SeqScan.env (sc : SeqScan) (m : LinMod) (k : Nat) : PlayEnv :=
  let r := sc.seqs.getD k default
  { m := m,
    si := { seq := k, ep := r.ep, endOrd := r.res.endOrd, endRow := r.res.endRow, num := r.res.num },
    ctl := sc.ctl, info := sc.info }

/-- rows entered (first frame of a row) in a list of rendered frames -/
def rowTrace (fs : List PlaySt) : List (Nat × Nat) :=
  (fs.filter fun s => s.frame = 0).map fun s => (s.ord, s.row)

/-- the scan-style record (`RowRec`) of a rendered frame that starts a row: position, speed /
tempo / pattern delay in force after the row's effect, Σ frame_time of all earlier frames -/
def recOf (s : PlaySt) : RowRec :=
  { ord := s.ord, row := s.row, speed := s.speed, bpm := s.bpm, delay := s.delay,
    t0 := s.time - tick s.bpm }

/-- the rows entered in a list of rendered frames, as scan-style records -/
def rowRecs (fs : List PlaySt) : List RowRec :=
  (fs.filter fun s => s.frame = 0).map recOf

/-! ## decidable hypotheses of the simulation theorem (`C18_scan_eq_play_seq`), evaluated by the driver -/

/-- effect parameters inside the class of the simulation theorems: speed ≥ 1, tempo ≥ 20
(`XMP_MIN_BPM`), no IT row delay (modelled in both interpreters and tied to the C, not yet in the
theorems) -/
def Fx.wfb : Fx → Bool
  | .speed s => decide (1 ≤ s)
  | .tempo t => decide (20 ≤ t)
  | .rowdelay _ => false
  | _ => true

/-- the module class: patterns of 1..256 rows (so that the 512-row runaway guard of the scan never fires)
with in-vocabulary parameters, initial speed ≥ 1 and tempo ≥ 20,
at most 256 orders, restart position inside the order list; in marker formats pattern numbers
0xfe / 0xff are never real patterns -/
def modWFb (m : LinMod) : Bool :=
  m.pats.all (fun p => !p.isEmpty && decide (p.length ≤ 256) && p.all Fx.wfb) && decide (1 ≤ m.spd) && decide (20 ≤ m.bpm) &&
  decide (m.len ≤ 256) && decide (m.rst < m.len) &&
  (!m.marker || decide (m.npat ≤ 254))

/-- the first order from `o` on that holds a pattern, if only skipped orders (no pattern, not an end
marker) lie before it -/
def firstPlay (m : LinMod) : Nat → Nat → Option Nat
  | 0, _ => none
  | f + 1, o =>
    if o ≥ m.len then none
    else if m.patOf o < m.npat then some o
    else if m.marker && m.patOf o == 0xff then none
    else firstPlay m f (o + 1)

/-- The hypotheses of the simulation theorem for `scan_module(ep, chain)` started from `ctl0` / `info0`
and the player environment `e` (module `e.m`): module class; the entry point leads to a playable
order; the orders below a secondary entry point are taken; the scan is accepted; `e` reads this scan's end point / visit count, agrees with it on
`sequence_control[rst]` and finds the module's initial speed / tempo at the first order. -/
def seqHypB (e : PlayEnv) (ep chain : Nat) (ctl0 : List Nat) (info0 : List OrdInfo) : Bool :=
  let m := e.m
  match firstPlay m (m.len + 1) ep with
  | none => false
  | some o1 =>
    let r := scanModule m ep chain ctl0 info0
    modWFb m && decide (ep < m.len) &&
    (decide (ep = 0) || (List.range ep).all (fun o => ctl0.getD o 0xff != 0xff)) &&
    decide (chain < 255) && decide (m.len ≤ ctl0.length) && decide (0 ≤ r.ret) &&
    decide (e.si.seq = chain) && decide (e.si.ep = ep) && decide (e.si.endOrd = r.endOrd) &&
    decide (e.si.endRow = r.endRow) && decide (e.si.num = r.num) &&
    (!(decide (m.patOf m.rst < m.npat)) ||
      (decide (e.ctl.getD m.rst 0xff = chain) == decide (r.ctl.getD m.rst 0xff = chain))) &&
    decide ((e.info.getD o1 {}).speed = m.spd) && decide ((e.info.getD o1 {}).bpm = m.bpm)

/-! ## `FX_SPEED` (MOD / XM `Fxx`) and the VBlank flag

`Fxx` is a speed or a tempo.  Both `scan.c` (FX_SPEED block of `scan_module`) and `effects.c`
(`case FX_SPEED`) decide it the same way: a speed if `HAS_QUIRK(QUIRK_NOBPM)`, or the module's flag word
`p->flags` has `XMP_FLAGS_VBLANK`, or the parameter is below 0x20; a tempo otherwise; nothing for
parameter 0.  The flag word can change at run time (`xmp_set_player(XMP_PLAYER_CFLAGS, …)`, which rescans)
or come from `XMP_PLAYER_FLAGS` / the quirk table at load time.  `RawMod` keeps `Fxx` undecoded; the scan
and the player each decode it with the flag they read (`XmpModel/Gen/C18Flags.lean`, generated from the C,
records that both read the same word). -/

/-- `FX_SPEED` with parameter `p`, decoded with `speedOnly = QUIRK_NOBPM || flags & XMP_FLAGS_VBLANK` -/
def decodeFxSpeed (speedOnly : Bool) (p : Nat) : Fx :=
  if p = 0 then .none else if speedOnly || decide (p < 0x20) then .speed p else .tempo p

/-- a pattern row before the `FX_SPEED` decision -/
inductive RawFx where
  | fx (f : Fx)
  | fspeed (p : Nat)
  deriving Repr, DecidableEq, Inhabited

def RawFx.decode (speedOnly : Bool) : RawFx → Fx
  | .fx f => f
  | .fspeed p => decodeFxSpeed speedOnly p

/-- the loaded module with `Fxx` undecoded; `nobpm` = `HAS_QUIRK(QUIRK_NOBPM)` -/
structure RawMod where
  xxo : List Nat
  pats : List (List RawFx)
  rst : Nat
  spd : Nat
  bpm : Nat
  marker : Bool
  nobpm : Bool
  deriving Repr, Inhabited

/-- the module as an interpreter that reads the flag value `vblank` sees it -/
def RawMod.decode (rm : RawMod) (vblank : Bool) : LinMod :=
  { xxo := rm.xxo, pats := rm.pats.map fun p => p.map (RawFx.decode (rm.nobpm || vblank)),
    rst := rm.rst, spd := rm.spd, bpm := rm.bpm, marker := rm.marker }

/-- `libxmp_scan_sequences` reading the flag value `vbScan`, and the player environment of its sequence `k`
for a player that reads the flag value `vbPlay` (the code must make these the same word) -/
def RawMod.env (rm : RawMod) (vbScan vbPlay : Bool) (k : Nat) : PlayEnv :=
  { (scanSequences (rm.decode vbScan)).env (rm.decode vbScan) k with m := rm.decode vbPlay }

/-- `seqLoop` again, recording for every accepted sequence the entry point and the
`sequence_control` / `xxo_info` its scan started from (`n` = number of sequences accepted so far) -/
def seqLoopPre (m : LinMod) : Nat → Nat → List Nat → List OrdInfo → List (Nat × List Nat × List OrdInfo)
  | 0, _, _, _ => []
  | fuel + 1, n, ctl, info =>
    match firstFree ctl m.len with
    | none => []
    | some ep =>
      if n ≥ 255 then [] else
      let r := scanModule m ep n ctl info
      if r.ret > 0 then (ep, ctl, info) :: seqLoopPre m fuel (n + 1) r.ctl r.info
      else seqLoopPre m fuel n r.ctl r.info

/-- for each sequence of `scanSequences m`: entry point, `sequence_control` and `xxo_info` before its scan -/
def seqPres (m : LinMod) : List (Nat × List Nat × List OrdInfo) :=
  let ctl0 := List.replicate 256 0xff
  let info0 : List OrdInfo := List.replicate 256 {}
  let r0 := scanModule m 0 0 ctl0 info0
  if r0.ret < 0 then [] else (0, ctl0, info0) :: seqLoopPre m (m.len + 1) 1 r0.ctl r0.info

end Xmp.LinFlow
