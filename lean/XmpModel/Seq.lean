import XmpModel.Basic
/-!
# Sequencer kernel of libxmp (src/player.c, src/control.c) — model for C16

Modelled exactly (one Lean definition per C function / block):

* `next_order`, `next_row`, `update_from_ord_info`, `libxmp_reset_flow`,
  `check_end_of_module`, the start-up of `xmp_start_player`, the reposition
  block and the ST2.6 speed step of `xmp_play_frame`            (src/player.c)
* `set_position`, `xmp_next_position`, `xmp_prev_position`, `xmp_set_position`,
  `xmp_set_row`, `xmp_stop_module`, `xmp_restart_module`, `xmp_seek_time`
                                                                 (src/control.c)

Not modelled effect by effect: what `read_row`, `inject_event` and
`play_channel` do to the flow variables.  One frame is
`kernelPre ; check_end ; effects A ; st26 step ; effects B ; frame_time`
where the two effect stages overwrite the effect-owned variables with
arbitrary values (`Eff`) that the theorems constrain by `EffOk` and the harness
monitors on every real frame.

C `int` variables are `Int`; arrays are lists read with `geti` (index out of
range reads 0 — the well-formedness predicate `WF` keeps every read in range).
Omitted C state (never read by the modelled code and not part of C16):
`current_time`, `jump_in_pat`, `rowdelay_set`, `loop_param/start/count`,
`loop[]`, `per_flags`, the voice reset of the reposition block (see `Virt`).
-/
namespace Xmp.Seq

def geti (l : List Int) (i : Int) : Int := l.getD i.toNat 0

/-- The loaded module + scan results, as far as the sequencer reads them. -/
structure SeqMod where
  len : Int                 -- mod->len
  pat : Int                 -- mod->pat
  rst : Int                 -- mod->rst
  xxo : List Int            -- mod->xxo[256]
  rows : List Int           -- mod->xxp[i]->rows, i < pat
  marker : Bool             -- HAS_QUIRK(QUIRK_MARKER)
  protrack : Bool           -- HAS_QUIRK(QUIRK_PROTRACK)
  seqCtl : List Int         -- p->sequence_control[256]
  numSeq : Int              -- m->num_sequences
  entry : List Int          -- m->seq_data[s].entry_point
  scanOrd : List Int        -- p->scan[s].ord
  scanRow : List Int        -- p->scan[s].row
  scanNum : List Int        -- p->scan[s].num
  oSpeed : List Int         -- m->xxo_info[o].speed
  oBpm : List Int           -- m->xxo_info[o].bpm
  oGvl : List Int           -- m->xxo_info[o].gvl
  oSt26 : List Int          -- m->xxo_info[o].st26_speed
  oTime : List Int          -- m->xxo_info[o].time
  volbase : Int             -- m->volbase
  deriving Repr, Inhabited

/-- Player + flow-control state read or written by the kernel. -/
structure St where
  ord : Int
  pos : Int
  row : Int
  frame : Int
  speed : Int
  bpm : Int
  gvol : Int
  st26 : Int                -- p->st26_speed
  loopCount : Int           -- p->loop_count
  sequence : Int
  pbreak : Int
  jump : Int
  delay : Int
  jumpline : Int
  loopDest : Int
  rowdelay : Int
  numRows : Int             -- f->num_rows
  endPoint : Int            -- f->end_point
  ftBpm : Int               -- the bpm value p->frame_time was last computed from
  deriving Repr, Inhabited, DecidableEq

inductive Res where
  | ok (s : St)
  | fin                     -- xmp_play_frame returns -XMP_END, state untouched
  | diverge                 -- fuel of the order-skipping loop exhausted (C: endless loop)
  deriving Repr, Inhabited, DecidableEq

namespace SeqMod
def xo (m : SeqMod) (o : Int) : Int := geti m.xxo o
def rowsOf (m : SeqMod) (p : Int) : Int := geti m.rows p
def entryOf (m : SeqMod) (s : Int) : Int := geti m.entry s
end SeqMod

/-! ## player.c -/

/-- the `do … while (mod->xxo[p->ord] >= mod->pat)` loop of `next_order`;
returns the new `p->ord` and `reset_gvol`. -/
def nextOrderLoop (m : SeqMod) (seq : Int) : Nat → Int → Bool → Option (Int × Bool)
  | 0, _, _ => none
  | fuel + 1, ord, rg =>
    let ord1 := ord + 1
    let mark := m.marker && decide (ord1 < m.len) && decide (m.xo ord1 = 0xff)
    let r : Int × Bool :=
      if ord1 ≥ m.len ∨ mark = true then
        if m.rst > m.len ∨ m.xo m.rst ≥ m.pat ∨ ord1 < m.entryOf seq then (m.entryOf seq, true)
        else if geti m.seqCtl m.rst = seq then (m.rst, true)
        else (m.entryOf seq, true)
      else (ord1, rg)
    if m.xo r.1 ≥ m.pat then nextOrderLoop m seq fuel r.1 r.2 else some r

/-- fuel: `len + 1 ≤ 257` iterations always suffice (`Xmp.Seq.nextOrderLoop_terminates`). -/
def orderFuel : Nat := 2 * 256 + 4

/-- `next_order` -/
def nextOrder (m : SeqMod) (s : St) : Option St :=
  match nextOrderLoop m s.sequence orderFuel s.ord false with
  | none => none
  | some (ord, rg) =>
    let numRows := m.rowsOf (m.xo ord)
    let jl := if s.jumpline ≥ numRows then 0 else s.jumpline
    some { s with ord := ord, gvol := if rg then geti m.oGvl ord else s.gvol,
                  numRows := numRows, row := jl, jumpline := 0, pos := ord, frame := 0 }

/-- `next_row` -/
def nextRow (m : SeqMod) (s0 : St) : Option St :=
  let s := { s0 with frame := 0, delay := 0 }
  if s.pbreak ≠ 0 then
    let s1 := { s with pbreak := 0 }
    let s2 := if s1.jump ≠ -1 then { s1 with ord := s1.jump - 1, jump := -1 } else s1
    nextOrder m s2
  else
    let s1 := if s.rowdelay = 0 then { s with row := s.row + 1 } else { s with rowdelay := s.rowdelay - 1 }
    let s2 := if s1.loopDest ≥ 0 then { s1 with row := s1.loopDest, loopDest := -1 } else s1
    if s2.row ≥ s2.numRows then nextOrder m s2 else some s2

/-- `update_from_ord_info` -/
def updateFromOrdInfo (m : SeqMod) (s : St) : St :=
  let sp := geti m.oSpeed s.ord
  { s with speed := if sp ≠ 0 then sp else s.speed, bpm := geti m.oBpm s.ord, gvol := geti m.oGvl s.ord,
           ftBpm := geti m.oBpm s.ord, st26 := geti m.oSt26 s.ord }

/-- `libxmp_reset_flow` -/
def resetFlow (s : St) : St :=
  { s with jumpline := 0, jump := -1, pbreak := 0, loopDest := -1, delay := 0, rowdelay := 0 }

/-- `check_end_of_module` -/
def checkEnd (m : SeqMod) (s : St) : St :=
  if s.ord = geti m.scanOrd s.sequence ∧ s.row = geti m.scanRow s.sequence then
    let s1 := if s.endPoint = 0 then
      { s with loopCount := s.loopCount + 1, endPoint := geti m.scanNum s.sequence } else s
    { s1 with endPoint := s1.endPoint - 1 }
  else s

/-- "Skip invalid patterns at start": first order `≥ o` with a real pattern, or `len`. -/
def skipInvalid (m : SeqMod) : Nat → Int → Int
  | 0, o => o
  | fuel + 1, o => if o < m.len ∧ m.xo o ≥ m.pat then skipInvalid m fuel (o + 1) else o

/-- `xmp_start_player` (sequencer part).  `none`: every position was skipped, the C sets
`mod->len = 0` and no frame will ever succeed.  `speed0` is whatever `p->speed` held before
(the C only overwrites it when `xxo_info[ord].speed ≠ 0`). -/
def start (m : SeqMod) (speed0 : Int) : Option St :=
  let ord := skipInvalid m 257 0
  if ord ≥ m.len then none else
  let s : St := { ord := ord, pos := 0, row := 0, frame := -1, speed := speed0, bpm := 0, gvol := m.volbase,
                  st26 := 0, loopCount := 0, sequence := 0, pbreak := 0, jump := -1, delay := 0,
                  jumpline := 0, loopDest := -1, rowdelay := 0, numRows := m.rowsOf (m.xo ord),
                  endPoint := geti m.scanNum 0, ftBpm := 0 }
  some (resetFlow (updateFromOrdInfo m s))

/-- the reposition block of `xmp_play_frame` up to the call of `next_order` (`p->pos ∉ {-2}`) -/
def reposPrep (m : SeqMod) (s : St) : St :=
  let start := m.entryOf s.sequence
  let pos1 := if s.pos = -1 then start else s.pos
  let ep1 := if pos1 = start then geti m.scanNum s.sequence else s.endPoint
  let ep2 := if pos1 > geti m.scanOrd s.sequence then 0 else ep1
  let ord1 := if pos1 - 1 < start then start - 1 else pos1 - 1
  { s with pos := pos1, endPoint := ep2, jumpline := 0, jump := -1, ord := ord1 }

/-- The part of `xmp_play_frame` before "check new row": reposition or tick/row advance. -/
def kernelPre (m : SeqMod) (s : St) : Res :=
  if m.len ≤ 0 then .fin else
  if m.marker = true ∧ m.xo s.ord = 0xff then .fin else
  if s.ord ≠ s.pos then
    if s.pos = -2 then .fin else
    match nextOrder m (reposPrep m s) with
    | none => .diverge
    | some s2 => .ok (updateFromOrdInfo m s2)
  else
    let s1 := { s with frame := s.frame + 1 }
    if s1.frame ≥ s1.speed * (1 + s1.delay) then
      if m.protrack = true ∧ s1.delay ≠ 0 ∧ s1.pbreak ≠ 0 then
        match nextRow m s1 with
        | none => .diverge
        | some s2 =>
          match nextRow m (checkEnd m s2) with
          | none => .diverge
          | some s3 => .ok s3
      else
        match nextRow m s1 with
        | none => .diverge
        | some s2 => .ok s2
    else .ok s1

/-- ST2.6 speed step (`if (p->st26_speed) …`). -/
def st26Step (s : St) : St :=
  if s.st26 ≠ 0 then
    let sp := if (s.st26 / 0x10000) % 2 = 1 then (s.st26 / 256) % 256 else s.st26 % 256
    { s with speed := sp, st26 := if (s.st26 / 0x10000) % 2 = 1 then s.st26 - 0x10000 else s.st26 + 0x10000 }
  else s

/-- What `read_row` (stage A) or `inject_event` + `play_channel` (stage B) wrote into the
effect-owned variables: `none` = left untouched, `some v` = overwritten with `v`. -/
structure Eff where
  pbreak : Option Int := none
  jump : Option Int := none
  delay : Option Int := none
  jumpline : Option Int := none
  loopDest : Option Int := none
  rowdelay : Option Int := none
  speed : Option Int := none
  bpm : Option Int := none
  gvol : Option Int := none
  st26 : Option Int := none
  deriving Repr, Inhabited

def applyEff (s : St) (e : Eff) : St :=
  { s with pbreak := e.pbreak.getD s.pbreak, jump := e.jump.getD s.jump, delay := e.delay.getD s.delay,
           jumpline := e.jumpline.getD s.jumpline, loopDest := e.loopDest.getD s.loopDest,
           rowdelay := e.rowdelay.getD s.rowdelay, speed := e.speed.getD s.speed, bpm := e.bpm.getD s.bpm,
           gvol := e.gvol.getD s.gvol, st26 := e.st26.getD s.st26 }

/-- the identity effect: leaves every variable as it is -/
def noEff : Eff := {}

/-- The deterministic kernel part of one `xmp_play_frame`: reposition or tick/row advance, then
`check_end_of_module` on the first tick of a row. -/
def kernelStep (m : SeqMod) (s : St) : Res :=
  match kernelPre m s with
  | .ok s1 => .ok (if s1.frame = 0 then checkEnd m s1 else s1)
  | r => r

/-- One successful/failed `xmp_play_frame`. -/
def playFrame (m : SeqMod) (s : St) (eA eB : Eff) : Res :=
  match kernelStep m s with
  | .ok s1 =>
    let s2 := if s1.frame = 0 then st26Step (applyEff s1 eA) else s1
    let s3 := applyEff s2 eB
    .ok { s3 with ftBpm := s3.bpm }
  | r => r

/-! ## control.c -/

/-- the marker-skipping loop of `set_position` (`xxo[pos] == 0xfe`) -/
def skipMarker (m : SeqMod) (start dir : Int) : Nat → Int → Int
  | 0, pos => pos
  | fuel + 1, pos =>
    if m.marker = true ∧ m.xo pos = 0xfe then
      if dir < 0 then
        if pos > start then skipMarker m start dir fuel (pos - 1) else pos
      else
        if pos + 1 ≥ m.len then pos + 1 else skipMarker m start dir fuel (pos + 1)
    else pos

/-- the `if (pat < mod->pat) { … }` block of `set_position`; `none` = the early `return` on a
0xff marker -/
def spBlock (m : SeqMod) (s1 : St) (seq pos' : Int) : Option St :=
  let patv := if pos' < m.len then m.xo pos' else 0xff
  if patv < m.pat then
    if m.marker = true ∧ patv = 0xff then none
    else if pos' > geti m.scanOrd seq then some { s1 with endPoint := 0 }
    else some { s1 with endPoint := geti m.scanNum seq, jumpline := 0 }
  else some s1

/-- the final `if (pos < mod->len) { p->pos = …; libxmp_reset_flow(ctx); }` of `set_position` -/
def spCommit (m : SeqMod) (s2 : St) (pos' : Int) : St :=
  if pos' < m.len then resetFlow { s2 with pos := if pos' = 0 then -1 else pos' } else s2

/-- `while (dir > 0 && pos < len && xxo[pos] >= pat && !(has_marker && xxo[pos] == 0xff)) pos++` -/
def skipNoPat (m : SeqMod) : Nat → Int → Int
  | 0, pos => pos
  | fuel + 1, pos =>
    if pos < m.len ∧ m.xo pos ≥ m.pat ∧ ¬ (m.marker = true ∧ m.xo pos = 0xff) then skipNoPat m fuel (pos + 1)
    else pos

/-- the order `set_position` finally aims at: 0xfe markers skipped in direction `dir`, then (moving
forward) orders without a pattern passed over -/
def spTarget (m : SeqMod) (seq pos dir : Int) : Int :=
  let pos1 := skipMarker m (m.entryOf seq) dir 258 pos
  if dir > 0 then skipNoPat m 258 pos1 else pos1

/-- the body of `if (pos >= 0 && pos < mod->len) { … }` after the skipping loops, plus the final
commit; `s1` already carries the new `p->sequence` -/
def spMove (m : SeqMod) (s1 : St) (seq pos' dir : Int) : St :=
  let patv := if pos' < m.len then m.xo pos' else 0xff
  -- relative moves never leave the sequence
  if dir ≠ 0 ∧ (pos' ≥ m.len ∨ (m.marker = true ∧ patv = 0xff) ∨ geti m.seqCtl pos' ≠ seq) then s1 else
  let s1b := { s1 with endPoint := if pos' > geti m.scanOrd seq then 0 else geti m.scanNum seq }
  match spBlock m s1b seq pos' with
  | none => s1b
  | some s2 => spCommit m s2 pos'

/-- `set_position(ctx, pos, dir)` -/
def setPosition (m : SeqMod) (s : St) (pos dir : Int) : St :=
  let seq := if dir = 0 then geti m.seqCtl pos else s.sequence
  if seq = 0xff then s else
  if seq < 0 then s else
  if 0 ≤ pos ∧ pos < m.len then spMove m { s with sequence := seq } seq (spTarget m seq pos dir) dir
  else spCommit m { s with sequence := seq } pos

/-- `xmp_next_position` -/
def nextPosition (m : SeqMod) (s : St) : St :=
  if s.pos < m.len then setPosition m s (s.pos + 1) 1 else s

/-- `xmp_prev_position` -/
def prevPosition (m : SeqMod) (s : St) : St :=
  if s.pos = m.entryOf s.sequence then setPosition m s (-1) (-1)
  else if s.pos > m.entryOf s.sequence then setPosition m s (s.pos - 1) (-1)
  else s

/-- `xmp_set_position`; `none` = refused with `-XMP_ERROR_INVALID`, state unchanged -/
def apiSetPosition (m : SeqMod) (s : St) (pos : Int) : Option St :=
  if pos < 0 ∨ pos ≥ m.len then none else some (setPosition m s pos 0)

/-- `xmp_set_row`; `none` = refused -/
def apiSetRow (m : SeqMod) (s : St) (row : Int) : Option St :=
  let pos := if s.pos < 0 ∨ s.pos ≥ m.len then 0 else s.pos
  let pattern := m.xo pos
  if pattern ≥ m.pat ∨ row < 0 ∨ row ≥ m.rowsOf pattern then none else
  let p1 := if s.pos < 0 then 0 else s.pos
  some { s with pos := p1, ord := p1, row := row, frame := -1, numRows := m.rowsOf (m.xo p1) }

/-- `xmp_stop_module` -/
def stopModule (s : St) : St := { s with pos := -2 }

/-- `xmp_restart_module`: restart requested, loop counter zeroed, and (since /repo ade59f8) the flow
state of the abandoned row dropped with `libxmp_reset_flow` -/
def restartModule (s : St) : St := resetFlow { s with loopCount := 0, pos := -1 }

/-- the `for (i = len-1; i >= 0; i--)` search of `xmp_seek_time`: `k` = i+1 -/
def seekLoop (m : SeqMod) (s : St) (time : Int) : Nat → Option Int
  | 0 => none
  | k + 1 =>
    let i : Int := k
    if m.xo i ≥ m.pat then seekLoop m s time k
    else if geti m.seqCtl i ≠ s.sequence then seekLoop m s time k
    else if time ≥ geti m.oTime i then some i
    else seekLoop m s time k

/-- `xmp_seek_time` -/
def seekTime (m : SeqMod) (s : St) (time : Int) : St :=
  match seekLoop m s time m.len.toNat with
  | some i => setPosition m s i 1
  | none => (apiSetPosition m s 0).getD s

/-- Position-control calls (C16 "position/row/seek call histories"). -/
inductive Ctl where
  | setPos (p : Int)
  | next
  | prev
  | setRow (r : Int)
  | seek (t : Int)
  | stop
  | restart
  | bufReset                -- xmp_play_buffer(ctx, NULL, 0, 0): the documented reset entry
  | rescan                  -- xmp_set_player(MODE / CFLAGS): the sequence fix-up after the rescan (module = the rescanned one)
  deriving Repr, Inhabited

/-- `xmp_play_buffer(ctx, NULL, 0, 0)`: "reset internal state" — zeroes `p->loop_count` (and the
buffer bookkeeping, which the sequencer does not read) -/
def bufferReset (s : St) : St := { s with loopCount := 0 }

/-- the player-state side of `xmp_set_player(ctx, XMP_PLAYER_MODE, v)` and of a
`XMP_PLAYER_CFLAGS` change that toggles vblank timing: `libxmp_scan_sequences` has rebuilt the scan
tables (`m` is the module AFTER the rescan: same orders and patterns, possibly other sequences,
markers, order info); "the rescan may find fewer sequences than before":
`if (p->sequence >= m->num_sequences) p->sequence = 0`. -/
def rescanFix (m : SeqMod) (s : St) : St :=
  { s with sequence := if s.sequence ≥ m.numSeq then 0 else s.sequence }

def ctl (m : SeqMod) (s : St) : Ctl → St
  | .setPos p => (apiSetPosition m s p).getD s
  | .next => nextPosition m s
  | .prev => prevPosition m s
  | .setRow r => (apiSetRow m s r).getD s
  | .seek t => seekTime m s t
  | .stop => stopModule s
  | .restart => restartModule s
  | .bufReset => bufferReset s
  | .rescan => rescanFix m s

/-- `xmp_play_buffer(ctx, out, size, loop)` with `out ≠ NULL`, as far as the sequencer sees it:
`xmp_play_frame` is called each time the internal frame buffer is used up while the caller's
buffer still wants data (`effs` = the effect outcomes of the frames it would ask for until `size`
bytes are filled; the byte accounting is the C12 model `PlayBuffer`); the run ends early at the
first frame that fails (`-XMP_END`, state untouched) and after the first frame that leaves
`loop > 0 ∧ loop_count ≥ loop` (that frame HAS been played).  Nothing else touches the player
state: in particular the `-XMP_END` return does not reset the loop counter.  Result: the states
after the successful frames, in order. -/
def playBuffer (m : SeqMod) (loop : Int) : St → List (Eff × Eff) → List St
  | _, [] => []
  | s, e :: rest =>
    match playFrame m s e.1 e.2 with
    | .ok s' => s' :: (if loop > 0 ∧ s'.loopCount ≥ loop then [] else playBuffer m loop s' rest)
    | _ => []

/-- the last state of a list, or `s` when it is empty (the state a buffer call leaves behind) -/
def lastOr (s : St) : List St → St
  | [] => s
  | x :: xs => lastOr x xs

/-- the stop rule of `xmp_play_buffer` on the loop counters reported after the frames it could
play: how many of them it does play (driver command `pbuf`) -/
def framesUntilLimit (loop : Int) : List Int → Nat
  | [] => 0
  | lc :: rest => if loop > 0 ∧ lc ≥ loop then 1 else 1 + framesUntilLimit loop rest

/-- what `xmp_get_frame_info` reports (the C16 fields) -/
structure Info where
  pos : Int
  pattern : Int
  numRows : Int
  row : Int
  speed : Int
  bpm : Int
  loopCount : Int
  sequence : Int
  deriving Repr, DecidableEq

def frameInfo (m : SeqMod) (s : St) : Info :=
  let pos := if s.pos ≥ 0 ∧ s.pos < m.len then s.pos else 0
  let pattern := m.xo pos
  { pos := pos, pattern := pattern, numRows := if pattern < m.pat then m.rowsOf pattern else 0,
    row := s.row, speed := s.speed, bpm := s.bpm, loopCount := s.loopCount, sequence := s.sequence }

/-! ## Well-formedness of the module data the kernel reads (evaluated by the driver on every
module the harness plays: a monitored assumption of the C16 theorems). -/

/-- `p->st26_speed` is 0 or holds two non-zero speed bytes (bit 16 = which one is next). -/
def st26ok (v : Int) : Bool :=
  v == 0 || (decide (0 < v) && decide (v < 0x20000) && decide (v % 256 ≠ 0) && decide ((v / 256) % 256 ≠ 0))

def allBelow (n : Nat) (f : Int → Bool) : Bool := (List.range n).all fun i => f (i : Int)

/-- every clause of `wfB` except the initial speed -/
def wfSongB (m : SeqMod) : Bool :=
  decide (0 < m.len) && decide (m.len ≤ 256) && decide (0 ≤ m.pat) && decide (m.pat ≤ 256) && decide (0 ≤ m.rst) && decide (m.rst < m.len) &&
  decide (m.xxo.length = 256) && decide (m.seqCtl.length = 256) && decide (m.rows.length = m.pat.toNat) &&
  decide (1 ≤ m.numSeq) && decide (m.numSeq ≤ 255) &&
  allBelow 256 (fun o => decide (0 ≤ m.xo o) && decide (m.xo o ≤ 255)) &&
  allBelow m.pat.toNat (fun p => decide (1 ≤ m.rowsOf p)) &&
  allBelow m.numSeq.toNat (fun s => decide (0 ≤ m.entryOf s) && decide (m.entryOf s < m.len)) &&
  allBelow m.len.toNat (fun o => geti m.seqCtl o == 0xff || (decide (0 ≤ geti m.seqCtl o) && decide (geti m.seqCtl o < m.numSeq))) &&
  allBelow m.len.toNat (fun o => decide (m.xo o ≥ m.pat) ||
    (decide (1 ≤ geti m.oBpm o) && decide (0 ≤ geti m.oSpeed o) && decide (geti m.oSpeed o ≤ 255) && st26ok (geti m.oSt26 o)))

/-- the initial speed: the first playable order (if any) records a speed of at least 1 — it is the
header speed `mod->spd`, which `libxmp_load_epilogue` keeps in 1..255 (C03 `spdOK`;
`XmpProps.C16Start`) -/
def wfStartSpeedB (m : SeqMod) : Bool :=
  decide (skipInvalid m 257 0 ≥ m.len) || decide (1 ≤ geti m.oSpeed (skipInvalid m 257 0))

def wfB (m : SeqMod) : Bool := wfSongB m && wfStartSpeedB m

/-! ## Order-list facts that bound the order-skipping loop of `next_order`

`libxmp_scan_sequences` only keeps a sequence whose scan played at least one row (`any_valid`,
src/scan.c): walking forward from its entry point the scan met an order holding a pattern before
the end of the list / an 0xff end marker, or it wrapped to a restart position that holds a pattern
and belongs to the sequence.  `ordWfB` states exactly that, in the form `next_order` needs it;
the driver evaluates it on every module the harness plays and the harness evaluates the same
clause in C on the live module. -/

/-- walking forward from order `o`: is an order holding a pattern met before the end of the list
or (marker modules) an 0xff end marker? -/
def reachFrom (m : SeqMod) : Nat → Int → Bool
  | 0, _ => false
  | fuel + 1, o =>
    if o ≥ m.len then false
    else if m.marker = true ∧ m.xo o = 0xff then false
    else if m.xo o < m.pat then true
    else reachFrom m fuel (o + 1)

/-- `next_order` wraps sequence `s` to the restart position, and that position holds a pattern -/
def rstOkB (m : SeqMod) (s : Int) : Bool :=
  decide (m.rst ≤ m.len) && decide (m.xo m.rst < m.pat) && decide (geti m.seqCtl m.rst = s)

/-- every sequence can reach a pattern: through the restart position, at its entry point, or by
walking forward from the entry point (`next_order` does not test the entry point itself for the
end marker when it wraps onto it) -/
def ordWfB (m : SeqMod) : Bool :=
  allBelow m.numSeq.toNat fun s =>
    rstOkB m s || decide (m.xo (m.entryOf s) < m.pat) || reachFrom m 256 (m.entryOf s + 1)

end Xmp.Seq
