import XmpModel.Basic
/-!
# PowerPacker PP20 as decoded by `src/depackers/ppdepack.c` (model for C08)

Mirrors `ppDecrunch` (bit reader `PP_READ_BITS`, `PP_BYTE_OUT`, literal runs, matches), `ppdepack` and the
checks of `decrunch_pp`.

* The bit reader pulls bytes from the END of the packed area backwards (`*--buf_src`); `BR.src` is the list of
  bytes not yet consumed *in that order* (so it starts as the reversed packed area).  C tests `buf_src < src`
  *before* the decrement, so one byte in front of the packed area can still be delivered: that byte is
  `data[7]`, the last efficiency byte (same heap object, no memory error) — mirrored by appending it.
* `bit_buffer` is `uint32`, `bits_left` is `uint8`: every read has `nbits ≤ 32`; the only reads above 15 bits
  are the initial skip (starts with an empty buffer: shifts 0, 8, 16, 24); all later reads have `nbits ≤ 15`
  because `decrunch_pp` refuses efficiency bytes above 15, and `bits_left ≤ 7` between reads, so no shift
  leaves 32 bits and `bits_left` never exceeds 39.  The model uses unbounded `Nat` for both.
* `todo` is `uint32` in C; overflowing it needs more than 2^32/7 count groups (a > 1 GiB packed area): `Nat` here.
* Output is written from the end of `dest` backwards: `acc` is the part of `dest` written so far (its head is
  `out[0]`, the most recent byte), so `out[offset] = acc[offset]` and "match overflow"
  `(out + offset) >= dest_end` is `offset ≥ acc.length`.
-/
namespace Xmp.PowerPacker
open Xmp

/-! ## bit reader -/

structure BR where
  buf : Nat          -- bit_buffer
  left : Nat         -- bits_left
  src : Bytes        -- bytes still to be delivered by `*--buf_src`, next first
  deriving Repr

/-- `while (bits_left < bit_cnt) { if (buf_src < src) return 0; bit_buffer |= (*--buf_src << bits_left); bits_left += 8; }` -/
def fill (n : Nat) : Bytes → Nat → Nat → Option BR
  | [], buf, left => if left < n then none else some { buf := buf, left := left, src := [] }
  | b :: r, buf, left =>
    if left < n then fill n r (buf ||| (b.toNat <<< left)) (left + 8)
    else some { buf := buf, left := left, src := b :: r }

/-- `while (bit_cnt--) { var = (var << 1) | (bit_buffer & 1); bit_buffer >>= 1; }` : (var, bit_buffer) -/
def takeBits : Nat → Nat → Nat → Nat × Nat
  | 0, var, buf => (var, buf)
  | k + 1, var, buf => takeBits k ((var <<< 1) ||| (buf &&& 1)) (buf >>> 1)

/-- `PP_READ_BITS(nbits, var)`; `none` = out of source bits -/
def readBits (n : Nat) (br : BR) : Option (Nat × BR) :=
  match fill n br.src br.buf br.left with
  | none => none
  | some b =>
    let r := takeBits n 0 b.buf
    some (r.1, { buf := r.2, left := b.left - n, src := b.src })

/-- `do { PP_READ_BITS(n, x); todo += x; } while (x == 2^n - 1);`  (fuel ≥ number of available bits / n) -/
def readCount (n : Nat) : Nat → BR → Nat → Option (Nat × BR)
  | 0, _, _ => none
  | fuel + 1, br, todo =>
    match readBits n br with
    | none => none
    | some (x, br) => if x = 2 ^ n - 1 then readCount n fuel br (todo + x) else some (todo + x, br)

def bitsAvail (br : BR) : Nat := br.left + 8 * br.src.length

/-- `while (todo--) { PP_READ_BITS(8, x); PP_BYTE_OUT(x); }` -/
def copyLits (destLen : Nat) : Nat → BR → Bytes → Option (BR × Bytes)
  | 0, br, acc => some (br, acc)
  | todo + 1, br, acc =>
    match readBits 8 br with
    | none => none
    | some (x, br) =>
      if acc.length ≥ destLen then none          -- output overflow
      else copyLits destLen todo br (UInt8.ofNat x :: acc)

/-- `while (todo--) { x = out[offset]; PP_BYTE_OUT(x); }` -/
def copyMatch (destLen offset : Nat) : Nat → Bytes → Option Bytes
  | 0, acc => some acc
  | todo + 1, acc =>
    if acc.length ≥ destLen then none
    else copyMatch destLen offset todo (acc.getD offset 0 :: acc)

/-- the match part of one loop iteration -/
def doMatch (offsetLens : Bytes) (destLen : Nat) (br : BR) (acc : Bytes) : Option (BR × Bytes) :=
  match readBits 2 br with
  | none => none
  | some (x, br) =>
    let offbits := (offsetLens.getD x 0).toNat
    let todo := x + 2
    let r :=
      if x = 3 then
        match readBits 1 br with
        | none => none
        | some (y, br) =>
          match readBits (if y = 0 then 7 else offbits) br with
          | none => none
          | some (offset, br) =>
            match readCount 3 (bitsAvail br + 1) br todo with
            | none => none
            | some (todo, br) => some (offset, todo, br)
      else
        match readBits offbits br with
        | none => none
        | some (offset, br) => some (offset, todo, br)
    match r with
    | none => none
    | some (offset, todo, br) =>
      if offset ≥ acc.length then none             -- match overflow
      else (copyMatch destLen offset todo acc).map (fun a => (br, a))

/-- `while (written < dest_len) { … }` -/
def mainLoop (offsetLens : Bytes) (destLen : Nat) : Nat → BR → Bytes → Option Bytes
  | 0, _, _ => none
  | fuel + 1, br, acc =>
    if acc.length ≥ destLen then some acc
    else
      match readBits 1 br with
      | none => none
      | some (x, br) =>
        if x = 0 then
          match readCount 2 (bitsAvail br + 1) br 1 with
          | none => none
          | some (todo, br) =>
            match copyLits destLen todo br acc with
            | none => none
            | some (br, acc) =>
              if acc.length = destLen then some acc
              else
                match doMatch offsetLens destLen br acc with
                | none => none
                | some (br, acc) => mainLoop offsetLens destLen fuel br acc
        else
          match doMatch offsetLens destLen br acc with
          | none => none
          | some (br, acc) => mainLoop offsetLens destLen fuel br acc

/-- `ppDecrunch(src, dest, offset_lens, src_len, dest_len, skip_bits)`; `before` = the byte at `src[-1]` -/
def ppDecrunch (src offsetLens : Bytes) (before : UInt8) (destLen skipBits : Nat) : Option Bytes :=
  if skipBits > 32 then none
  else
    match readBits skipBits { buf := 0, left := 0, src := src.reverse ++ [before] } with
    | none => none
    | some (_, br) => mainLoop offsetLens destLen (destLen + 1) br []

def be24 (a b c : UInt8) : Nat := a.toNat * 65536 + b.toNat * 256 + c.toNat

/-- `decrunch_pp` + `ppdepack` on the whole file (`none` = -1) -/
def decrunchPP (file : Bytes) : Option Bytes :=
  let len := file.length
  if len % 2 ≠ 0 ∨ len < 16 ∨ len % 4 ≠ 0 then none
  else if file.take 4 ≠ [0x50, 0x50, 0x32, 0x30] then none
  else
    let eff := (file.drop 4).take 4
    if eff.any (fun e => e.toNat < 9 ∨ e.toNat / 16 ≠ 0) then none
    else
      let destLen := be24 (file.getD (len - 4) 0) (file.getD (len - 3) 0) (file.getD (len - 2) 0)
      if destLen = 0 then none
      else ppDecrunch ((file.drop 8).take (len - 12)) eff (file.getD 7 0) destLen (file.getD (len - 1) 0).toNat

/-! ## a simple legal encoder: one literal run covering the whole payload -/

/-- `n` bits of `v`, most significant first (the order `PP_READ_BITS` assembles them) -/
def msbBits : Nat → Nat → List Bool
  | 0, _ => []
  | n + 1, v => (v / 2 ^ n % 2 == 1) :: msbBits n v

/-- run length code: `todo = 1 + Σ x`, groups of 2 bits, a group below 3 ends it -/
def countBits : Nat → Nat → List Bool
  | 0, _ => [false, false]
  | fuel + 1, m => if m ≥ 3 then true :: true :: countBits fuel (m - 3) else msbBits 2 m

def bitVal : List Bool → Nat
  | [] => 0
  | b :: r => (if b then 1 else 0) + 2 * bitVal r

def packGo : Nat → List Bool → Bytes
  | 0, _ => []
  | k + 1, l => UInt8.ofNat (bitVal (l.take 8)) :: packGo k (l.drop 8)

/-- the bit string the decoder consumes for payload `p` (without the skipped bits) -/
def litBits (p : Bytes) : List Bool :=
  false :: countBits p.length (p.length - 1) ++ p.reverse.flatMap (fun b => msbBits 8 b.toNat)

/-- file layout around a bit string: magic, efficiency table, the bits packed for the backwards reader (padded
    in front with `skip` zero bits to a multiple of 32), 24-bit length, skip byte -/
def ppPack (eff : Bytes) (bits : List Bool) (destLen : Nat) : Bytes :=
  let skip := (32 - bits.length % 32) % 32
  let all := List.replicate skip false ++ bits
  let packed := (packGo (all.length / 8) all).reverse
  [0x50, 0x50, 0x32, 0x30] ++ eff.take 4 ++ packed ++
    [UInt8.ofNat (destLen / 65536 % 256), UInt8.ofNat (destLen / 256 % 256), UInt8.ofNat (destLen % 256), UInt8.ofNat skip]

def ppEncode (eff : Bytes) (p : Bytes) : Bytes := ppPack eff (litBits p) p.length

/-! ## token streams (what any PowerPacker encoder emits): literal runs and matches -/

/-- one loop iteration of the decoder: an optional literal run (bytes in the order they are written, i.e. the
    payload backwards) followed by a match (`mlen = 0`: no match — only possible when the run completes the output) -/
structure PPItem where
  lits : Bytes := []
  mlen : Nat := 0
  moff : Nat := 0
  short : Bool := false        -- long matches: 7-bit offset instead of `offset_lens[3]` bits
  deriving Repr

/-- length extension of long matches: `todo = 5 + Σ x`, groups of 3 bits, a group below 7 ends it -/
def count3Bits : Nat → Nat → List Bool
  | 0, _ => [false, false, false]
  | fuel + 1, m => if m ≥ 7 then true :: true :: true :: count3Bits fuel (m - 7) else msbBits 3 m

def matchBits (eff : Bytes) (len off : Nat) (short : Bool) : List Bool :=
  let x := min len 5 - 2
  msbBits 2 x ++
    (if x = 3 then
      (if short then false :: msbBits 7 off else true :: msbBits (eff.getD 3 0).toNat off) ++ count3Bits len (len - 5)
     else msbBits (eff.getD x 0).toNat off)

def itemBits (eff : Bytes) (it : PPItem) : List Bool :=
  (if it.lits.length = 0 then [true]
   else false :: countBits it.lits.length (it.lits.length - 1) ++ it.lits.flatMap (fun b => msbBits 8 b.toNat)) ++
  (if it.mlen = 0 then [] else matchBits eff it.mlen it.moff it.short)

/-- `len` copies of `out[offset]` (overlapping copies repeat a pattern) -/
def copyM (off : Nat) : Nat → Bytes → Bytes
  | 0, acc => acc
  | k + 1, acc => copyM off k (acc.getD off 0 :: acc)

def itemExpand (acc : Bytes) (it : PPItem) : Bytes := copyM it.moff it.mlen (it.lits.reverse ++ acc)

/-- the payload a token stream stands for -/
def ppExpand (items : List PPItem) : Bytes := items.foldl itemExpand []

def ppRender (eff : Bytes) (items : List PPItem) : Bytes :=
  ppPack eff (items.flatMap (itemBits eff)) (ppExpand items).length

end Xmp.PowerPacker
