import XmpModel.Basic
import XmpModel.Gen.MixLinearConsts
/-!
# Model of the software mixer's linear structure (C14)

Mirrors, from the libxmp working tree:

* `libxmp_mixer_prepare` + the voice loop of `libxmp_mixer_softmixer` (src/mixer.c):
  a zeroed 32-bit buffer into which every voice *adds* (`MIX_OUT`: `*(buffer++) += …`,
  `do_anticlick`: `*buf++ += …`) with wrap-around — `addInto`, `tick`;
* the volume / pan stage of the voice loop (`vol`, mix volume `mvol/mvolbase`,
  `vol_l`, `vol_r`, surround, `vol_l >> 8`, the ramp `delta_l`) — `mixVol`, `volLR`,
  `level`, `rampDelta`;
* the shape shared by all kernels of src/mix_all.c (`MIX_*`/`MIX_*_AC`): output =
  (interpolated, filtered) sample × level, the first `count - ramp` frames with the
  ramping level `old_v >> 8` — `kernel`; the sample sequence `smps` is data of the
  voice alone (sample window, position, step, filter memory);
* `do_anticlick` — `anticlickRamp`;
* one voice's whole tick (`voiceTick`): anticlick discharge, volume stage, the spans,
  end-of-sample ramp-out, `old_vl/old_vr/sleft/sright` update;
* the tail of `process_volume` (src/player.c): channel volume, master / effects-mixer
  volume by channel class — `masterStage` — *as the code is*: on the pinned tree the test is
  `chn < mod.chn`, so background (NNA) voices, whose virtual channel number is
  `≥ num_tracks ≥ mod.chn`, are scaled by `smix_vol` (finding F6); the translator
  regenerates `nnaRootRule` from the shape of that test;
* the mute rule of `libxmp_virt_setvol` (src/virtual.c) — `virtSetVol`;
* the tail of `process_pan` (src/player.c): `finalpan = (finalpan - 0x80) * mix / 100`
  with C's truncating division — `finalPan`, `voicePan`;
* `downmix_int_16bit/8bit` for the quantisation bound — `down`.

C `int` values are modelled as unbounded `Int`; the accumulator is `BitVec 32`.
Ranges are checked dynamically by the harness (harness/c14_mixlinear.c).
-/
namespace Xmp.MixLinear
open Xmp.Gen.MixLinearConsts

/-! ## The accumulator -/

abbrev Acc := BitVec 32
abbrev Buf := List Acc

/-- `memset(s->buf32, 0, …)` of `libxmp_mixer_prepare`. -/
def zeros (n : Nat) : Buf := List.replicate n 0

/-- `*(buffer++) += c[i]` over a span starting at the buffer start: pointwise wrapping
add; positions beyond the contribution are untouched, a contribution never grows the
buffer. -/
def addInto : Buf → Buf → Buf
  | [], _ => []
  | x :: b, [] => x :: b
  | x :: b, y :: c => (x + y) :: addInto b c

/-- One tick of the voice loop: every voice adds its contribution into the zeroed buffer,
in voice order. `cs` are the per-voice contributions. -/
def tick (n : Nat) (cs : List Buf) : Buf := cs.foldl addInto (zeros n)

/-- The same with an explicit `contrib` function of the voice alone. -/
def mix {V : Type} (contrib : V → Buf) (n : Nat) (vs : List V) : Buf := tick n (vs.map contrib)

/-- The solo mix of one voice. -/
def solo (n : Nat) (c : Buf) : Buf := tick n [c]

/-- Pointwise wrapping sum of buffers (the "sum of the solo mixes"). -/
def bsum (n : Nat) (bs : List Buf) : Buf := bs.foldl addInto (zeros n)

/-- 32-bit wrap of a C `int` expression stored into / read from the buffer. -/
def wrap32 (x : Int) : Int := (BitVec.ofInt 32 x).toInt

def toAcc (x : Int) : Acc := BitVec.ofInt 32 x

/-! ## Volume / pan stage (mixer.c) -/

def PAN_SURROUND : Int := panSurround

/-- `if (m->mvolbase > 0 && m->mvol != m->mvolbase) vol = vol * m->mvol / m->mvolbase` -/
def mixVol (vol mvol mvolbase : Int) : Int :=
  if mvolbase > 0 ∧ mvol ≠ mvolbase then Int.tdiv (vol * mvol) mvolbase else vol

/-- `(vol_l, vol_r)` from the (scaled) voice volume and the voice pan. -/
def volLR (vol pan : Int) : Int × Int :=
  if pan = PAN_SURROUND then (vol * 0x80, -vol * 0x80)
  else (vol * (0x80 - pan), vol * (0x80 + pan))

/-- `vol_l >> 8`: the level handed to the kernel. -/
def level (v : Int) : Int := v >>> 8

/-- `delta_l = (vol_l - vi->old_vl) / rampsize` (C division truncates). -/
def rampDelta (v old rampsize : Int) : Int := Int.tdiv (v - old) rampsize

/-! ## Kernels (mix_all.c): output = sample × level -/

/-- What the voice loop hands to a kernel besides the sample window. -/
structure KArgs where
  vl : Int
  vr : Int
  oldVl : Int
  oldVr : Int
  dl : Int
  dr : Int
  /-- the kernel's `ramp` argument: the last `rsize` frames use the fixed level -/
  rsize : Nat
  /-- the kernel has a `LOOP_AC` part (all but the nearest-neighbour and Paula kernels) -/
  ac : Bool
  /-- Paula kernels: `vl <<= 8` -/
  lsh : Nat := 0
  deriving Repr

/-- Frames `i ≥ nAC` use `(vl, vr)`, frames `i < nAC` the ramping `old_v >> 8`. -/
def kernelAux (k : KArgs) (nAC : Nat) : Nat → List (Int × Int) → List (Int × Int)
  | _, [] => []
  | i, (sl, sr) :: rest =>
    (if i < nAC then (sl * ((k.oldVl + i * k.dl) >>> 8), sr * ((k.oldVr + i * k.dr) >>> 8))
     else (sl * (k.vl * 2 ^ k.lsh), sr * (k.vr * 2 ^ k.lsh))) :: kernelAux k nAC (i + 1) rest

/-- Frames added by one kernel call over the sample frames `smps` (`count = smps.length`);
`LOOP_AC` runs while `count > ramp`. For mono samples `smps` has equal components, for mono
output only the first component is used. -/
def kernel (k : KArgs) (smps : List (Int × Int)) : List (Int × Int) :=
  kernelAux k (if k.ac then smps.length - k.rsize else 0) 0 smps

/-! ## do_anticlick -/

/-- the `j`-th added frame (j = 1 … count-1) of `do_anticlick` with `count` steps -/
def anticlickStep (count : Nat) (sl sr : Int) (j : Nat) : Int × Int :=
  let stepval : Nat := 2 ^ anticlickFpShift / count
  let stepmul : Nat := stepval * (count - j)
  let sq : Nat := ((stepmul >>> (anticlickFpShift - 16)) ^ 2) % 2 ^ 32
  (((sq : Int) * sl) >>> 32, ((sq : Int) * sr) >>> 32)

/-- The frames added by `do_anticlick` with an effective `count` (after the `discharge`
limit): nothing when both residues are 0 or `count ≤ 0`, else `count - 1` frames. -/
def anticlickRamp (count : Nat) (sl sr : Int) : List (Int × Int) :=
  if sl = 0 ∧ sr = 0 then [] else
  (List.range (count - 1)).map fun j => anticlickStep count sl sr (j + 1)

/-! ## One voice, one tick -/

/-- The mixer-side per-voice memory that the volume machinery uses. -/
structure VState where
  oldVl : Int := 0
  oldVr : Int := 0
  sleft : Int := 0
  sright : Int := 0
  /-- `vi->flags & ANTICLICK` -/
  ac : Bool := false
  deriving Repr, DecidableEq

/-- One span of the `for (size = usmp = s->ticksize; size > 0; )` loop. -/
structure Seg where
  /-- interpolated/filtered sample frames of the span (`samples = smps.length`) -/
  smps : List (Int × Int)
  /-- `vi->sptr != NULL` and `mix_fn != NULL` -/
  hasData : Bool := true
  /-- `do_anticlick(ctx, voc, buf_pos, size)` follows the span, with this `size` -/
  acAfter : Option Nat := none
  /-- "Next sample should ramp": `vol_l = vol_r = 0` (sample end / stopped swap) -/
  stop : Bool := false
  deriving Repr

/-- How the voice loop treats the voice this tick. -/
inductive VKind where
  /-- `vi->chn < 0` (free voice) -/
  | free
  /-- `vi->period < 1`: `libxmp_virt_resetvoice(ctx, voc, 1)` clears the voice -/
  | reset
  /-- paused sample / out-of-range step: `continue` before the span loop -/
  | skip
  /-- the span loop runs -/
  | run
  deriving Repr, DecidableEq

structure VIn where
  kind : VKind := .run
  /-- `vi->vol`, `vi->pan` as left by the player -/
  vol : Int
  pan : Int
  mvol : Int := 0
  mvolbase : Int := 0
  /-- kernels with `LOOP_AC` -/
  acKernel : Bool := true
  lsh : Nat := 0
  segs : List Seg
  deriving Repr

structure TickCfg where
  ticksize : Nat
  /-- `s->interp > XMP_INTERP_NEAREST` -/
  interpAbove : Bool := true
  deriving Repr

/-- add `fr` into `buf` starting at frame offset `off` (frames beyond the buffer are dropped
— in C they cannot occur: spans and ramps end within the tick). -/
def addAt (buf : List (Int × Int)) (off : Nat) (fr : List (Int × Int)) : List (Int × Int) :=
  buf.take off ++ (List.zipWith (fun a b => (a.1 + b.1, a.2 + b.2)) (buf.drop off) fr
    ++ (buf.drop off).drop fr.length)

/-- State of the span loop. -/
structure Loop where
  buf : List (Int × Int)
  pos : Nat := 0
  rampsize : Nat
  oldVl : Int
  oldVr : Int
  sleft : Int
  sright : Int
  volL : Int
  volR : Int
  deriving Repr

def lastOr (l : List (Int × Int)) (d : Int × Int) : Int × Int := l.getLast?.getD d

/-- the kernel call of a span (`if (vi->vol) { … if (samples > 0 && vi->sptr != NULL) … }`) -/
def spanMix (i : VIn) (dl dr : Int) (lp : Loop) (sg : Seg) : Loop :=
  if i.vol ≠ 0 ∧ sg.smps.length > 0 ∧ sg.hasData = true then
    let samples := sg.smps.length
    let rsize0 := if lp.rampsize > samples then 0 else samples - lp.rampsize
    let ramp' := if lp.rampsize > samples then lp.rampsize - samples else 0
    let rsize := if dl = 0 ∧ dr = 0 then samples else rsize0
    let out := kernel { vl := level lp.volL, vr := level lp.volR, oldVl := lp.oldVl, oldVr := lp.oldVr,
                        dl := dl, dr := dr, rsize := rsize, ac := i.acKernel, lsh := i.lsh } sg.smps
    let last := lastOr out (0, 0)
    { lp with buf := addAt lp.buf lp.pos out, pos := lp.pos + samples, rampsize := ramp',
              oldVl := lp.oldVl + samples * dl, oldVr := lp.oldVr + samples * dr,
              sleft := wrap32 last.1, sright := wrap32 last.2 }
  else lp

/-- `do_anticlick(ctx, voc, buf_pos, size)` after a span -/
def spanAc (cfg : TickCfg) (lp : Loop) (sg : Seg) : Loop :=
  match sg.acAfter with
  | none => lp
  | some size =>
    { lp with buf := addAt lp.buf lp.pos
                (anticlickRamp (min size (cfg.ticksize >>> anticlickShift)) lp.sleft lp.sright),
              sleft := 0, sright := 0 }

/-- "Next sample should ramp." -/
def spanStop (lp : Loop) (sg : Seg) : Loop :=
  if sg.stop = true then { lp with volL := 0, volR := 0 } else lp

/-- one span -/
def segStep (cfg : TickCfg) (i : VIn) (dl dr : Int) (lp : Loop) (sg : Seg) : Loop :=
  spanStop (spanAc cfg (spanMix i dl dr lp sg) sg) sg

/-- `if (vi->flags & ANTICLICK) { if (s->interp > XMP_INTERP_NEAREST) do_anticlick(ctx, voc, NULL, 0); … }`:
the frames discharged at the start of the buffer -/
def acPre (cfg : TickCfg) (st : VState) : List (Int × Int) :=
  if st.ac = true ∧ cfg.interpAbove = true then
    anticlickRamp (cfg.ticksize >>> anticlickShift) st.sleft st.sright
  else []

/-- … and the voice state after it (`vi->flags &= ~ANTICLICK`) -/
def acState (cfg : TickCfg) (st : VState) : VState :=
  if st.ac = true then
    (if cfg.interpAbove = true then { st with sleft := 0, sright := 0, ac := false } else { st with ac := false })
  else st

/-- volume stage + span loop + `vi->old_vl = vol_l; vi->old_vr = vol_r` -/
def runVoice (cfg : TickCfg) (st1 : VState) (i : VIn) (buf0 : List (Int × Int)) : List (Int × Int) × VState :=
  let lr := volLR (mixVol i.vol i.mvol i.mvolbase) i.pan
  let rampsize := cfg.ticksize >>> anticlickShift
  let dl := rampDelta lr.1 st1.oldVl rampsize
  let dr := rampDelta lr.2 st1.oldVr rampsize
  let lp := i.segs.foldl (segStep cfg i dl dr)
    { buf := buf0, rampsize := rampsize, oldVl := st1.oldVl, oldVr := st1.oldVr,
      sleft := st1.sleft, sright := st1.sright, volL := lr.1, volR := lr.2 }
  (lp.buf, { oldVl := lp.volL, oldVr := lp.volR, sleft := lp.sleft, sright := lp.sright, ac := st1.ac })

/-- The whole treatment of one voice in one tick of `libxmp_mixer_softmixer`: returns the
frames it adds to the buffer (`ticksize` frames) and its new state. -/
def voiceTick (cfg : TickCfg) (st : VState) (i : VIn) : List (Int × Int) × VState :=
  let buf0 := addAt (List.replicate cfg.ticksize (0, 0)) 0 (acPre cfg st)
  let st1 := acState cfg st
  match i.kind with
  | .free => (buf0, st1)
  | .reset => (buf0, {})
  | .skip => (buf0, st1)
  | .run => runVoice cfg st1 i buf0

/-- a voice over several ticks: the frames of every tick and the final state -/
def voiceRun (cfg : TickCfg) : VState → List VIn → List (List (Int × Int)) × VState
  | st, [] => ([], st)
  | st, i :: rest =>
    let r := voiceTick cfg st i
    let rr := voiceRun cfg r.2 rest
    (r.1 :: rr.1, rr.2)

/-- interleave stereo frames into accumulator words (`*buf++ += l; *buf++ += r`) -/
def interleave : List (Int × Int) → Buf
  | [] => []
  | (l, r) :: rest => toAcc l :: toAcc r :: interleave rest

/-- mono output uses the left component only -/
def monoBuf (fr : List (Int × Int)) : Buf := fr.map fun p => toAcc p.1

/-! ## Left/right mirror of the per-voice data (used by the separation theorems) -/

def swapF (fr : List (Int × Int)) : List (Int × Int) := fr.map Prod.swap

def VState.swap (s : VState) : VState :=
  { oldVl := s.oldVr, oldVr := s.oldVl, sleft := s.sright, sright := s.sleft, ac := s.ac }

def Seg.swap (sg : Seg) : Seg := { sg with smps := swapF sg.smps }

/-- the same voice input with the pan negated (and, for stereo samples, channels exchanged) -/
def VIn.mirror (i : VIn) : VIn := { i with pan := -i.pan, segs := i.segs.map Seg.swap }

def Loop.swap (l : Loop) : Loop :=
  { l with buf := swapF l.buf, oldVl := l.oldVr, oldVr := l.oldVl, sleft := l.sright, sright := l.sleft,
           volL := l.volR, volR := l.volL }

/-- every span of the input plays a mono sample (both components equal) -/
def VIn.monoSample (i : VIn) : Prop := ∀ sg ∈ i.segs, ∀ p ∈ sg.smps, p.1 = p.2

/-! ## Player side: volume tail of `process_volume`, mute rule, pan tail -/

structure PlayerVol where
  /-- `m->mod.chn` -/
  modChn : Nat
  /-- `p->virt.num_tracks` (= mod.chn + effects-mixer channels); virtual channels `≥ numTracks`
  carry background (NNA) voices -/
  numTracks : Nat
  masterVol : Int
  smixVol : Int
  deriving Repr

/-- Which volume scales virtual channel `chn` (root channel `root`): the music volume
`master_vol` (`true`) or the effects-mixer volume `smix_vol`.  Pinned code: `chn < m->mod.chn`
only (`nnaRootRule = false`, finding F6: background voices, `chn ≥ num_tracks`, get `smix_vol`);
repaired code: also background voices whose root is a module channel.  `nnaRootRule` is
regenerated from src/player.c on every run. -/
def usesMaster (c : PlayerVol) (chn root : Nat) : Bool :=
  decide (chn < c.modChn) || (nnaRootRule && decide (c.numTracks ≤ chn) && decide (root < c.modChn))

/-- `if (…) finalvol = finalvol * p->master_vol / 100; else finalvol = finalvol * p->smix_vol / 100` -/
def masterStage (c : PlayerVol) (chn root : Nat) (fv : Int) : Int :=
  if usesMaster c chn root then Int.tdiv (fv * c.masterVol) (masterDiv.getD 100)
  else Int.tdiv (fv * c.smixVol) (smixDiv.getD 100)

/-- `libxmp_virt_setvol`: `if (root < XMP_MAX_CHANNELS && p->channel_mute[root]) vol = 0` -/
def virtSetVol (muted : Nat → Bool) (root : Nat) (vol : Int) : Int :=
  if root < maxChannels ∧ muted root = true then 0 else vol

/-- the voice volume `vi->vol` the player leaves for virtual channel `chn` with root `root` -/
def voiceVol (c : PlayerVol) (muted : Nat → Bool) (chn root : Nat) (fv : Int) : Int :=
  virtSetVol muted root (masterStage c chn root fv)

/-- shift of the volume-table lookup: `m->volbase == 0xff ? … >> 2 … : … >> 4 …` -/
def volTableShift (volbaseFF : Bool) : Nat := if volbaseFF then volTableShiftFF.getD 2 else volTableShiftElse.getD 4

/-- index into `m->vol_table[]` -/
def volTableIndex (volbaseFF : Bool) (fv : Int) : Int := fv >>> volTableShift volbaseFF

/-- the volume translation table stage of `process_volume` (PTM, Archimedes Tracker, Coconizer):
`finalvol = m->vol_table[finalvol >> s] << s`; no table: unchanged -/
def volTableStage (table : Option (Int → Int)) (volbaseFF : Bool) (fv : Int) : Int :=
  match table with
  | none => fv
  | some t => t (volTableIndex volbaseFF fv) * 2 ^ volTableShift volbaseFF

/-- the tail of `process_volume` in the order of the code: volume table first, then the master / effects-mixer
scaling, then the mute lookup of `libxmp_virt_setvol` -/
def volumeTail (c : PlayerVol) (muted : Nat → Bool) (chn root : Nat) (table : Option (Int → Int)) (volbaseFF : Bool)
    (fv : Int) : Int :=
  voiceVol c muted chn root (volTableStage table volbaseFF fv)

/-- Amiga split channel (`xc->split`, Oktalyzer pairs): `libxmp_virt_setvol(ctx, xc->pair, finalvol)` at the very end
of `process_volume` — the partner's voice gets the volume *after* the master / effects-mixer scaling of the channel
that computed it, through the partner's own mute lookup -/
def splitPairVol (c : PlayerVol) (muted : Nat → Bool) (chn root pairRoot : Nat) (fv : Int) : Int :=
  virtSetVol muted pairRoot (masterStage c chn root fv)

/-- `process_pan` tail: `finalpan` is the clamped 0..255 pan before separation. -/
def finalPan (fp mix : Int) (mono surround : Bool) : Int :=
  if mono ∨ surround then 0 else Int.tdiv ((fp - 0x80) * mix) (mixDiv.getD 100)

/-- what `libxmp_virt_setpan` receives -/
def voicePan (fp mix : Int) (mono surround : Bool) : Int :=
  if surround then PAN_SURROUND else finalPan fp mix mono surround

/-! ## `process_pan` (src/player.c): the pan sources, their sum, the clamp -/

/-- the pan sources `process_pan` adds up -/
structure PanSrc where
  /-- `xc->pan.val`: channel pan, instrument / sample default pan, set-pan effects, pan slides, pitch-pan separation -/
  panVal : Int
  /-- `libxmp_lfo_get(&xc->panbrello.lfo) / 512` when the panbrello effect is active, else 0 -/
  panbrello : Int
  /-- `get_envelope(&instrument->pei, xc->p_idx, 32)`: 32 when there is no pan envelope -/
  penv : Int
  /-- `xc->rpv`: IT random pan swing -/
  rpv : Int
  /-- `IS_PLAYER_MODE_IT()` -/
  itMode : Bool
  deriving Repr, DecidableEq

/-- `finalpan = channel_pan + panbrello + (pan_envelope - 32) * (128 - abs(xc->pan.val - 128)) / 32;`
`if (IS_PLAYER_MODE_IT()) finalpan = finalpan + xc->rpv * 4;` -/
def panSum (p : PanSrc) : Int :=
  p.panVal + p.panbrello + Int.tdiv ((p.penv - 32) * (128 - ((p.panVal - 128).natAbs : Int))) 32
    + (if p.itMode then p.rpv * 4 else 0)

/-- `CLAMP(finalpan, 0, 255)` -/
def clampPan (x : Int) : Int := if x < 0 then 0 else if x > 255 then 255 else x

/-- **`process_pan`**: what it hands to `libxmp_virt_setpan` — every pan source goes through the clamp
*before* the separation scaling `* s->mix / 100` -/
def processPan (p : PanSrc) (mix : Int) (mono surround : Bool) : Int :=
  voicePan (clampPan (panSum p)) mix mono surround

/-- `xc->info_finalpan` -/
def infoFinalPan (p : PanSrc) (mix : Int) (mono surround : Bool) : Int :=
  finalPan (clampPan (panSum p)) mix mono surround + 0x80

/-! ## Downmix (for the quantisation bound) -/

/-- `smp = *src >> shift` then the clamp, 16-bit: `shift = DOWNMIX_SHIFT - amp`;
8-bit: `shift = DOWNMIX_SHIFT + 8 - amp`. -/
def downShift (eight : Bool) (amp : Nat) : Nat :=
  if eight then downmixShift + 8 - amp else downmixShift - amp

def limHi (eight : Bool) : Int := if eight then (lim8Hi : Int) else (lim16Hi : Int)
def limLo (eight : Bool) : Int := if eight then lim8Lo else lim16Lo

/-- signed output sample for accumulator value `a` -/
def down (eight : Bool) (amp : Nat) (a : Acc) : Int :=
  let smp := a.toInt >>> downShift eight amp
  if smp > limHi eight then limHi eight else if smp < limLo eight then limLo eight else smp

/-- no clamp triggers -/
def noClamp (eight : Bool) (amp : Nat) (a : Acc) : Prop :=
  limLo eight ≤ a.toInt >>> downShift eight amp ∧ a.toInt >>> downShift eight amp ≤ limHi eight

/-- the sample as stored: `*dest += offs` for unsigned formats (value read as unsigned) -/
def outSample (eight unsigned : Bool) (amp : Nat) (a : Acc) : Int :=
  down eight amp a + (if unsigned then (if eight then 0x80 else 0x8000) else 0)

/-- mid-scale constant of a format: digital silence -/
def midScale (eight unsigned : Bool) : Int := if unsigned then (if eight then 0x80 else 0x8000) else 0

end Xmp.MixLinear
