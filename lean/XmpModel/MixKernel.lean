import XmpModel.MixLinear
import XmpModel.Gen.MixKernelConsts
import XmpModel.Gen.MixKernelVoiceMembers
/-!
# Bit-exact model of the mix kernels of src/mix_all.c (C14)

Every `MIXER(...)` function of src/mix_all.c is an instance of one loop, selected by five
switches (`KSpec`): interpolation (nearest / linear / spline), 8- or 16-bit sample, mono or
stereo sample, mono or stereo output, IT filter.  The model mirrors the macros the functions
are assembled from:

| C (mix_all.c)                                   | model                         |
|-------------------------------------------------|-------------------------------|
| `VAR_NORM`: `pos = (int)vi->pos * chn`, `frac = (1 << SMIX_SHIFT) * (vi->pos - (int)vi->pos)` | `posInt`, `posFrac`, `St.init` |
| `NEAREST_ROUND`                                 | `nearestRound`                |
| `NEAREST_/LINEAR_/SPLINE_ 8BIT/16BIT`           | `fetch`                       |
| `FILTER_LEFT/RIGHT`, `MIX_FILTER_CLAMP`         | `filt`, `filterClamp`         |
| `AVERAGE`, `MIX_MONO(_AC)`, `MIX_STEREO(_AC)`, `MIX_MONO_AVG(_AC)` | `outWords`, `levels`, `rampStep` |
| `UPDATE_POS`                                    | `updatePos`                   |
| `MIX_OUT`: `*(buffer++) += smp * level`         | `store` (reads the word, adds with 32-bit wrap, writes it back) |
| `LOOP_AC { … } LOOP { … }`                      | `loopBuf` (threads the buffer), `loop` (the words only) |
| `SAVE_FILTER_MONO/STEREO`                       | `saveFilter`                  |
| the kernel tables of mixer.c (`nearest_mixers[]`, `linear_mixers[]`, `spline_mixers[]`) indexed by `fidx & FIDX_FLAGMASK` | `specOf` |

C `int` / `int64` expressions are evaluated in unbounded `Int` (`>>` = floor shift, `&
SMIX_MASK` = `% 2^16`); `XmpProofs/MixKernel.lean` proves that under the ranges the mixer
guarantees every intermediate value fits its C type, so no wrap-around is hidden.  The only
wrapping operation is the accumulation into the 32-bit buffer (`store`), as in
`XmpModel/MixLinear.lean`.

The sample memory is a function `Int → Int` (`sptr[i]`, already sign-extended by the C type
`int8` / `int16` of the pointer); the kernels read it at `pos + off + k·chn`, `k ∈ {-1,0,1,2}`.

Tie: harness/c14_kernel.c calls every real kernel through the tables of mixer.c on random
voices / buffers and compares buffer and filter memory after the call with `run`.
-/
namespace Xmp.MixKernel
open Xmp.Gen.MixKernelConsts
open Xmp.MixLinear (Acc Buf toAcc addInto zeros)

inductive Interp where
  | nearest | linear | spline
  deriving Repr, DecidableEq

/-- which `MIXER(...)` function -/
structure KSpec where
  interp : Interp
  /-- `FLAG_16_BITS`: `int16 *sptr` (else `int8 *sptr`) -/
  s16 : Bool
  /-- `FLAG_STEREO`: `chn = 2`, two fetches per frame -/
  stereoSmp : Bool
  /-- `FLAG_STEREOOUT`: two words per frame -/
  stereoOut : Bool
  /-- `_filter` variant -/
  filter : Bool
  deriving Repr, DecidableEq

/-- `vi->filter` -/
structure Flt where
  l1 : Int := 0
  l2 : Int := 0
  r1 : Int := 0
  r2 : Int := 0
  a0 : Int := 0
  b0 : Int := 0
  b1 : Int := 0
  deriving Repr, DecidableEq

/-- what a kernel reads of `*vi` -/
structure KVoice where
  /-- `((T *)vi->sptr)[i]` -/
  smp : Int → Int
  /-- `(int)vi->pos` -/
  pos : Int
  /-- `(1 << SMIX_SHIFT) * (vi->pos - (int)vi->pos)` converted to `int` -/
  frac : Int
  oldVl : Int
  oldVr : Int
  flt : Flt

/-- the scalar arguments of a kernel -/
structure KArgs where
  count : Nat
  vl : Int
  vr : Int
  step : Int
  ramp : Nat
  dl : Int
  dr : Int
  deriving Repr, DecidableEq

/-! ## `VAR_NORM`: the position as the kernel sees it

`vi->pos` is a `double`; every finite double is `m · 2^e` exactly.  `(int)x` truncates toward
zero; `x - (int)x` and the product with `2^16` are exact in double arithmetic for
`|x| < 2^31`, and the conversion of the product to `int` truncates again. -/

/-- `(int)(m · 2^e)` -/
def posInt (m e : Int) : Int :=
  if 0 ≤ e then m * 2 ^ e.toNat else Int.tdiv m (2 ^ (-e).toNat)

/-- `(int)((1 << SMIX_SHIFT) * (x - (int)x))` for `x = m · 2^e` -/
def posFrac (m e : Int) : Int :=
  if 0 ≤ e then 0 else Int.tdiv ((m - posInt m e * 2 ^ (-e).toNat) * 2 ^ smixShift) (2 ^ (-e).toNat)

/-! ## Loop state -/

/-- the local variables a kernel updates in its loop -/
structure St where
  /-- `pos` (already multiplied by `chn`) -/
  pos : Int
  frac : Int
  oldVl : Int
  oldVr : Int
  fl1 : Int
  fl2 : Int
  fr1 : Int
  fr2 : Int
  deriving Repr, DecidableEq

def chnOf (k : KSpec) : Int := if k.stereoSmp then 2 else 1

/-- `frac += d; pos += (frac >> SMIX_SHIFT) * chn; frac &= SMIX_MASK` -/
def advance (k : KSpec) (d : Int) (s : St) : St :=
  let f := s.frac + d
  { s with pos := s.pos + (f >>> smixShift) * chnOf k, frac := f % (smixMask + 1 : Nat) }

/-- `UPDATE_POS()` -/
def updatePos (k : KSpec) (a : KArgs) (s : St) : St := advance k a.step s

/-- `NEAREST_ROUND()` -/
def nearestRound (k : KSpec) (s : St) : St := advance k (2 ^ (smixShift - 1) : Nat) s

/-- the declarations at the top of a kernel (`VAR_*`) followed, for the nearest-neighbour
kernels, by `NEAREST_ROUND()` -/
def St.init (k : KSpec) (v : KVoice) : St :=
  let s : St := { pos := v.pos * chnOf k, frac := v.frac, oldVl := v.oldVl, oldVr := v.oldVr,
                  fl1 := v.flt.l1, fl2 := v.flt.l2, fr1 := v.flt.r1, fr2 := v.flt.r2 }
  if k.interp = .nearest then nearestRound k s else s

/-! ## Interpolation -/

def splineRowsA : Array (Int × Int × Int × Int) := splineRows.toArray

/-- `(cubic_spline_lut0[f], …lut1[f], …lut2[f], …lut3[f])` -/
def splineRow (f : Int) : Int × Int × Int × Int := splineRowsA.getD f.toNat (0, 0, 0, 0)

/-- sample value widened as the 8-bit macros do: `(int16)sptr[i] << 8` -/
def widen8 (x : Int) : Int := x * 2 ^ nearest8Shift.getD 0

/-- `NEAREST_* / LINEAR_* / SPLINE_*` `(smp_in, off)` at position `pos`, fraction `frac` -/
def fetch (k : KSpec) (smp : Int → Int) (pos frac off : Int) : Int :=
  let c := chnOf k
  match k.interp with
  | .nearest => if k.s16 then smp (pos + off) else widen8 (smp (pos + off))
  | .linear =>
    let l1 := if k.s16 then smp (pos + off) else widen8 (smp (pos + off))
    let l2 := if k.s16 then smp (pos + off + c) else widen8 (smp (pos + off + c))
    let dt := l2 - l1
    l1 + (((frac >>> 1) * dt) >>> (smixShift - 1))
  | .spline =>
    let r := splineRow (frac >>> splineFracShift.getD 0)
    let acc := r.1 * smp (pos + off - c) + r.2.1 * smp (pos + off)
             + r.2.2.2 * smp (pos + off + c * 2) + r.2.2.1 * smp (pos + off + c)
    acc >>> (if k.s16 then splineShift else splineShift - spline8Shift.getD 0)

/-! ## IT filter -/

/-- `MIX_FILTER_CLAMP` -/
def filterClamp (x : Int) : Int := if x < filterMin then filterMin else if x > filterMax then filterMax else x

/-- `FILTER_LEFT` / `FILTER_RIGHT`: returns the new sample and the new `(f1, f2)` -/
def filt (f : Flt) (x f1 f2 : Int) : Int × Int × Int :=
  let s64 := (f.a0 * (x * 2 ^ preampBits) + f.b0 * f1 + f.b1 * f2) >>> filterShift
  let s := filterClamp s64
  (s >>> preampBits, s, f1)

/-! ## One loop iteration -/

/-- the frame after interpolation and filter: `(smpl, smpr)` (`smpr = smpl` for mono samples),
and the filter memory -/
def frame (k : KSpec) (v : KVoice) (s : St) : (Int × Int) × St :=
  let l0 := fetch k v.smp s.pos s.frac 0
  if k.stereoSmp then
    let r0 := fetch k v.smp s.pos s.frac 1
    if k.filter then
      let fl := filt v.flt l0 s.fl1 s.fl2
      let fr := filt v.flt r0 s.fr1 s.fr2
      ((fl.1, fr.1), { s with fl1 := fl.2.1, fl2 := fl.2.2, fr1 := fr.2.1, fr2 := fr.2.2 })
    else ((l0, r0), s)
  else
    if k.filter then
      let fl := filt v.flt l0 s.fl1 s.fl2
      ((fl.1, fl.1), { s with fl1 := fl.2.1, fl2 := fl.2.2 })
    else ((l0, l0), s)

/-- the levels of this iteration: the ramping `old_v >> 8` in the `LOOP_AC` part, else `(vl, vr)` -/
def levels (a : KArgs) (ac : Bool) (s : St) : Int × Int :=
  if ac then (s.oldVl >>> rampLevelShift.getD 0, s.oldVr >>> rampLevelShift.getD 0) else (a.vl, a.vr)

/-- `old_vl += delta_l` (and `old_vr += delta_r` for stereo output) in the `LOOP_AC` part -/
def rampStep (k : KSpec) (a : KArgs) (ac : Bool) (s : St) : St :=
  if ac then { s with oldVl := s.oldVl + a.dl, oldVr := if k.stereoOut then s.oldVr + a.dr else s.oldVr } else s

/-- the products handed to `MIX_OUT` in one iteration (1 word for mono output, 2 for stereo) -/
def outWords (k : KSpec) (fr : Int × Int) (lv : Int × Int) : List Int :=
  if k.stereoOut then [fr.1 * lv.1, fr.2 * lv.2]
  else if k.stereoSmp then [((fr.1 + fr.2) >>> 1) * lv.1]
  else [fr.1 * lv.1]

/-- one iteration without the buffer: the words it adds and the next state -/
def iter (k : KSpec) (v : KVoice) (a : KArgs) (ac : Bool) (s : St) : List Int × St :=
  let f := frame k v s
  (outWords k f.1 (levels a ac s), updatePos k a (rampStep k a ac f.2))

/-- the nearest-neighbour kernels have no `LOOP_AC` part -/
def hasAC (k : KSpec) : Bool := k.interp != .nearest

/-- number of `LOOP_AC` iterations: `for (; count > ramp; count--)` -/
def nAC (k : KSpec) (a : KArgs) : Nat := if hasAC k then a.count - a.ramp else 0

/-! ## The loop on the real buffer -/

/-- `*(buffer++) += w` for the words of one iteration: returns the words written and the rest
of the buffer (`buffer` after the increments).  A buffer that ends early is not extended. -/
def store : Buf → List Int → Buf × Buf
  | b, [] => ([], b)
  | [], _ :: _ => ([], [])
  | x :: b, w :: ws => let r := store b ws; ((x + toAcc w) :: r.1, r.2)

/-- `LOOP_AC { … } LOOP { … }` threading the buffer: `n` iterations left, of which the first
`nac` are in the `LOOP_AC` part; returns the buffer from the cursor on and the final state -/
def loopBuf (k : KSpec) (v : KVoice) (a : KArgs) : Nat → Nat → St → Buf → Buf × St
  | 0, _, s, buf => (buf, s)
  | n + 1, nac, s, buf =>
    let r := iter k v a (decide (0 < nac)) s
    let w := store buf r.1
    let rest := loopBuf k v a n (nac - 1) r.2 w.2
    (w.1 ++ rest.1, rest.2)

/-- `SAVE_FILTER_MONO()` / `SAVE_FILTER_STEREO()` -/
def saveFilter (k : KSpec) (f : Flt) (s : St) : Flt :=
  if k.filter then
    if k.stereoSmp then { f with l1 := s.fl1, l2 := s.fl2, r1 := s.fr1, r2 := s.fr2 }
    else { f with l1 := s.fl1, l2 := s.fl2, r1 := s.fl1, r2 := s.fl2 }
  else f

/-- **A whole kernel call**: the buffer (from `buffer` on) and `vi->filter` after it.  Nothing
else of `*vi` is written by a kernel (`old_vl`, `pos` are locals). -/
def run (k : KSpec) (v : KVoice) (a : KArgs) (buf : Buf) : Buf × Flt :=
  let r := loopBuf k v a a.count (nAC k a) (St.init k v) buf
  (r.1, saveFilter k v.flt r.2)

/-! ## The same loop without the buffer: the contribution of the call -/

/-- the words of `n` iterations and the final state -/
def loop (k : KSpec) (v : KVoice) (a : KArgs) : Nat → Nat → St → List Int × St
  | 0, _, s => ([], s)
  | n + 1, nac, s =>
    let r := iter k v a (decide (0 < nac)) s
    let rest := loop k v a n (nac - 1) r.2
    (r.1 ++ rest.1, rest.2)

/-- **The contribution of a kernel call**: a function of the voice and the scalar arguments
alone (exact integers, before the 32-bit wrap of the accumulation) -/
def contrib (k : KSpec) (v : KVoice) (a : KArgs) : List Int :=
  (loop k v a a.count (nAC k a) (St.init k v)).1

/-- … as accumulator words -/
def contribAcc (k : KSpec) (v : KVoice) (a : KArgs) : Buf := (contrib k v a).map toAcc

/-- `vi->filter` after the call -/
def fltAfter (k : KSpec) (v : KVoice) (a : KArgs) : Flt :=
  saveFilter k v.flt (loop k v a a.count (nAC k a) (St.init k v)).2

/-! ## The kernel tables of mixer.c -/

/-- `mixerset[fidx & FIDX_FLAGMASK]` for `s->interp`: the nearest table repeats the unfiltered
kernels in its filtered half; unknown `interp` values select the linear table. -/
def specOf (interp : Nat) (id : Nat) : KSpec :=
  let ip : Interp := if interp = interpSpline then .spline else if interp = 0 then .nearest else .linear
  { interp := ip, s16 := id &&& flag16Bits != 0, stereoSmp := id &&& flagStereo != 0,
    stereoOut := id &&& flagStereoOut != 0, filter := ip != .nearest && (id &&& flagFilter != 0) }

/-! ## Kernel calls inside a tick -/

/-- one kernel call of the voice loop: `mix_fn(vi, buf_pos, …)` with `buf_pos = buf32 + off` -/
structure Call where
  spec : KSpec
  voice : KVoice
  args : KArgs
  /-- `buf_pos - s->buf32` in words -/
  off : Nat

/-- the call on the whole tick buffer -/
def Call.exec (c : Call) (buf : Buf) : Buf :=
  buf.take c.off ++ (run c.spec c.voice c.args (buf.drop c.off)).1

/-- the call's contribution as a tick-buffer-relative word list -/
def Call.contrib (c : Call) : Buf := zeros c.off ++ contribAcc c.spec c.voice c.args

/-- a tick consisting of kernel calls only: zeroed buffer, calls in order -/
def mixCalls (n : Nat) (cs : List Call) : Buf := cs.foldl (fun b c => c.exec b) (zeros n)

/-! ## A freed voice: `libxmp_virt_resetvoice` / `libxmp_virt_resetchannel` / `libxmp_virt_reset` (src/virtual.c)

All three clear the whole `struct mixer_voice` (`memset`), keep the `paula` pointer (whose state is
re-initialised by `libxmp_paula_init`) and set `chn = root = FREE`.  The member list is generated from
the preprocessed src/mixer.h (`Gen/MixKernelVoiceMembers.lean`), so a member added to the struct is part
of the model — and of the tie, which compares every member of every free voice of the real player with
`resetValue` — without anybody remembering it. -/

/-- `FREE` (virtual.c) -/
def voiceFree : Int := -1

/-- value of a member of `struct mixer_voice` in a freed voice; `none`: kept (the `paula` pointer) -/
def resetValue (member : String) : Option Int :=
  if member = "paula" then none else if member = "chn" ∨ member = "root" then some voiceFree else some 0

/-- the image of a freed voice, member by member -/
def voiceReset : List (String × Option Int) :=
  Xmp.Gen.MixKernelVoiceMembers.voiceMembers.map fun m => (m.1, resetValue m.1)

/-- what `libxmp_paula_init` leaves in `*vi->paula` (pseudo-members of the tie): `global_output_level`,
`active_bleps`, and whether `remainder == fdiv` -/
def paulaResetValue (member : String) : Option Int :=
  if member = "paula.global_output_level" ∨ member = "paula.active_bleps" then some 0
  else if member = "paula.remainder_is_fdiv" then some 1 else none

/-- the members of `*vi` a kernel of mix_all.c / mix_paula.c reads (`VAR_*`, `PAULA_INPUT`) -/
def kernelReads : List String :=
  ["pos", "sptr", "end", "old_vl", "old_vr", "paula",
   "filter.r1", "filter.r2", "filter.l1", "filter.l2", "filter.a0", "filter.b0", "filter.b1"]

/-- the per-voice memory the voice loop of `libxmp_mixer_softmixer` reads besides (ramp, anticlick residue, flags,
queued sample) -/
def voiceLoopReads : List String := ["old_vl", "old_vr", "sleft", "sright", "flags", "queued.smp", "vol", "pan", "period"]

/-! ## The search for a free background (NNA) channel in `libxmp_virt_setpatch` (src/virtual.c)

`for (chn = num_tracks; chn < virt_channels && virt_channel[chn++].map > FREE;) ;  … = --chn;`
over `maps` = the `map` entries of the background channels `num_tracks … virt_channels - 1`. -/

/-- the value of `chn - num_tracks` when the loop stops (the `++` of the failing test included) -/
def bgLoop : List Int → Nat → Nat
  | [], chn => chn
  | m :: r, chn => if m > voiceFree then bgLoop r (chn + 1) else chn + 1

/-- the background channel the old voice is moved to (relative to `num_tracks`): the first free one, or —
when none is free — the last one examined -/
def bgSearch (maps : List Int) : Int := (bgLoop maps 0 : Int) - 1

/-! ## A voice slot over time: reuse by another channel -/

/-- the kernel-visible memory of a voice slot that survives from one call to the next -/
structure SlotMem where
  /-- `vi->filter.l1/l2/r1/r2` (the coefficients are set by the owner's channel before every tick) -/
  l1 : Int := 0
  l2 : Int := 0
  r1 : Int := 0
  r2 : Int := 0
  oldVl : Int := 0
  oldVr : Int := 0
  deriving Repr, DecidableEq

/-- what the owner channel supplies for one kernel call: sample side, coefficients, scalar arguments and the
ramp memory the voice loop stores afterwards -/
structure OwnerCall where
  spec : KSpec
  smp : Int → Int
  pos : Int
  frac : Int
  a0 : Int
  b0 : Int
  b1 : Int
  args : KArgs
  /-- `vi->old_vl`, `vi->old_vr` as the voice loop leaves them after the call -/
  nextOldVl : Int
  nextOldVr : Int

inductive SlotEv where
  /-- `libxmp_virt_resetvoice` & co.: the slot is freed -/
  | reset
  /-- a kernel call for the channel that owns the slot -/
  | call (c : OwnerCall)

def OwnerCall.voice (c : OwnerCall) (m : SlotMem) : KVoice :=
  { smp := c.smp, pos := c.pos, frac := c.frac, oldVl := m.oldVl, oldVr := m.oldVr,
    flt := { l1 := m.l1, l2 := m.l2, r1 := m.r1, r2 := m.r2, a0 := c.a0, b0 := c.b0, b1 := c.b1 } }

/-- one event: the words added and the slot memory afterwards -/
def slotStep (m : SlotMem) : SlotEv → List Int × SlotMem
  | .reset => ([], {})
  | .call c =>
    let v := c.voice m
    let f := fltAfter c.spec v c.args
    (contrib c.spec v c.args, { l1 := f.l1, l2 := f.l2, r1 := f.r1, r2 := f.r2, oldVl := c.nextOldVl, oldVr := c.nextOldVr })

/-- the contributions of a sequence of events on one slot -/
def slotRun : SlotMem → List SlotEv → List (List Int)
  | _, [] => []
  | m, e :: es => let r := slotStep m e; r.1 :: slotRun r.2 es

/-! ## Bounds -/

/-- bound of `|smpl|`, `|smpr|` after interpolation and filter -/
def sampleBound (k : KSpec) : Int :=
  if k.filter then 65536 else if k.interp = .spline then 40960 else 32768

/-- the sample memory holds values of the C element type -/
def SmpRange (k : KSpec) (smp : Int → Int) : Prop :=
  ∀ i, if k.s16 then -32768 ≤ smp i ∧ smp i ≤ 32767 else -128 ≤ smp i ∧ smp i ≤ 127

end Xmp.MixKernel
