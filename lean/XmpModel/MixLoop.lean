import XmpModel.Basic
/-!
# Control skeleton of the per-voice segment loop of `libxmp_mixer_softmixer`

    for (size = usmp = s->ticksize; size > 0; ) {
        … samples = 0  and  if (--usmp <= 0) break;      (voice at / past its end)
        … samples = min(size, ceil(…)) ≥ 1 ; size -= samples
        … one-shot end / pause / invalid queued sample:  size = 0; continue
    }

What the voice state makes each iteration do is left to an arbitrary oracle
(`List Step`): the bound holds for every behaviour of the sample/loop logic.
-/
namespace Xmp.MixLoop

inductive Step where
  /-- `samples = 0` branch: `if (--usmp <= 0) break;` -/
  | zero
  /-- a kernel call for `n` samples (clamped to `1 … size`) -/
  | some (n : Nat)
  /-- any of the paths that set `size = 0` / leave the loop -/
  | stop
  deriving Repr

/-- number of loop iterations executed -/
def iterations : List Step → (size usmp : Nat) → Nat
  | [], _, _ => 0
  | s :: rest, size, usmp =>
    if size = 0 then 0 else
    match s with
    | .stop => 1
    | .zero => if usmp ≤ 1 then 1 else 1 + iterations rest size (usmp - 1)
    | .some n => 1 + iterations rest (size - max 1 (min n size)) usmp

/-- total number of samples handed to kernels -/
def mixed : List Step → (size usmp : Nat) → Nat
  | [], _, _ => 0
  | s :: rest, size, usmp =>
    if size = 0 then 0 else
    match s with
    | .stop => 0
    | .zero => if usmp ≤ 1 then 0 else mixed rest size (usmp - 1)
    | .some n => max 1 (min n size) + mixed rest (size - max 1 (min n size)) usmp

/-- growth rule shared by the depackers that enlarge their output buffer:
a request above the ceiling is refused, never satisfied -/
def grow (limit cur need : Nat) : Option Nat :=
  if need ≤ limit then some (max cur need) else none

end Xmp.MixLoop
