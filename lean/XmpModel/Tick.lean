import XmpModel.Basic
import XmpModel.Gen.PlayerConsts
/-!
# Tick size / frame buffer size (src/mixer.c `libxmp_mixer_get_ticksize`,
`libxmp_mixer_prepare`; src/player.c `xmp_get_frame_info`) — model for C16

The C computes `freq * time_factor * rrate / bpm / 1000` in `double`.  The model is
exact rational arithmetic: `time_factor = tfN/tfD`, `rrate = rrN/rrD` (every
`double` is such a fraction with a power-of-two denominator; denominators are
positive).  Rounding of the four floating-point operations is *not* modelled;
the correspondence check brackets it (see tools/checks/c16.py).
-/
namespace Xmp.Tick
open Xmp.Gen.PlayerConsts

/-- `1 << ANTICLICK_SHIFT` -/
def minTicks : Int := 2 ^ anticlickShift.toNat

/-- ⌊freq·(p/q)/bpm/1000⌋ for positive arguments -/
def rawTicks (freq p q bpm : Int) : Int := (freq * p) / (q * bpm * 1000)

/-- `libxmp_mixer_get_ticksize` -/
def getTicksize (freq tfN tfD rrN rrD bpm : Int) : Int :=
  if freq ≤ 0 ∨ bpm ≤ 0 ∨ tfN ≤ 0 ∨ rrN ≤ 0 then -1 else
  if freq * (tfN * rrN) > intMax * ((tfD * rrD) * bpm * 1000) then -1 else     -- calc > INT_MAX
  let t := rawTicks freq (tfN * rrN) (tfD * rrD) bpm
  if t < minTicks then minTicks else t

/-- the frame cap in sample frames that `libxmp_mixer_prepare` tests against: `XMP_MAX_FRAMESIZE / N` with the divisor
as written in the C (generated; `XMP_MAX_FRAMESIZE` is in bytes and a frame has up to 4, so only `N ≥ 4` keeps
`buffer_size ≤ XMP_MAX_FRAMESIZE`: `Xmp.Tick.capTicks_eq`, `C16_ticksize`) -/
def capTicks : Int := maxFramesize / prepareCapTestDiv

/-- the tick size `libxmp_mixer_prepare` substitutes when the test fires -/
def capSetTicks : Int := maxFramesize / prepareCapSetDiv

/-- the cap `xmp_set_tempo_factor` tests against -/
def capFactorTicks : Int := maxFramesize / tempoFactorCapDiv

/-- `s->ticksize` after `libxmp_mixer_prepare` -/
def prepare (freq tfN tfD rrN rrD bpm : Int) : Int :=
  let t := getTicksize freq tfN tfD rrN rrD bpm
  if t < 0 ∨ t > capTicks then capSetTicks else t

/-- bytes per sample frame of the output format -/
def frameBytes (mono bit8 : Bool) : Int := (if mono then 1 else 2) * (if bit8 then 1 else 2)

/-- `info->buffer_size` in `xmp_get_frame_info` -/
def bufferSize (ticks : Int) (mono bit8 : Bool) : Int :=
  let b := ticks
  let b := if mono then b else b * 2
  if bit8 then b else b * 2

/-- `info->frame_time` = `p->frame_time * 1000` in µs (saturating conversion to `int`), `p->frame_time = time_factor * rrate / bpm` -/
def frameTimeUs (tfN tfD rrN rrD bpm : Int) : Int :=
  let v := (1000 * (tfN * rrN)) / ((tfD * rrD) * bpm)
  if v ≥ intMax then intMax else v          -- saturates at INT_MAX

/-- bytes cleared in `buf32` by `libxmp_mixer_prepare` -/
def buf32Bytes (ticks : Int) (mono : Bool) : Int := if mono then ticks * sizeofInt32 else ticks * sizeofInt32 * 2

/-- `xmp_set_tempo_factor(val)` in a playing context (src/control.c), `val = vN/vD` with `vD > 0`
(a NaN is not a fraction; the C refuses it like a non-positive value): `none` = refused with −1,
`m->time_factor` untouched; `some (n, d)` = accepted, `m->time_factor = n/d = 10·val`.  The C asks
`libxmp_mixer_get_ticksize` for the tick size at the CURRENT rate and tempo and refuses when that
is invalid or above `XMP_MAX_FRAMESIZE / 4` frames. -/
def setTempoFactor (freq rrN rrD bpm vN vD : Int) : Option (Int × Int) :=
  if vN ≤ 0 then none else
  let t := getTicksize freq (vN * 10) vD rrN rrD bpm
  if t < 0 ∨ t > capFactorTicks then none else some (vN * 10, vD)

end Xmp.Tick
