import XmpModel.Basic
import XmpModel.Gen.CrcTables
/-!
# CRC routines of libxmp's depackers (C09)

Three check codes are implemented by the library:

* `libxmp_crc32_A` / `libxmp_crc32_A_no_inv` (src/depackers/crc32.c) — reflected CRC-32,
  polynomial `0xEDB88320`; used by gzip, zip (miniz), xz, LZX;
* `libxmp_crc16_IBM` (crc32.c) — reflected CRC-16, polynomial `0xA001`; ARC, ArcFS/Spark, LHA;
* the inline, MSB-first CRC-32 of bunzip2.c (polynomial `0x04C11DB7`, table built at run
  time by `crc_init`).

Each is given twice: the **bitwise definition** (a serial LFSR, one message bit per step,
no table) and the **table-driven routine as the C has it** (same expression, same loop
structure incl. the 4× unrolled loop, tables *generated* from the working tree into
`XmpModel/Gen/CrcTables.lean`).  `XmpProofs/Crc.lean` proves them equal for all messages.
-/
namespace Xmp.Crc

/-! ## bitwise definitions -/

/-- One step of a *reflected* (LSB-first) LFSR with feedback decision `x`:
    `s' = (s >> 1) ^ (x ? P : 0)`. -/
def stepX {w : Nat} (P s : BitVec w) (x : Bool) : BitVec w :=
  (s >>> 1) ^^^ (if x then P else 0#w)

/-- Feed one message bit: the decision is `lsb(s) xor b`. -/
def stepBit {w : Nat} (P s : BitVec w) (b : Bool) : BitVec w :=
  stepX P s (s.getLsbD 0 ^^ b)

/-- Feed a bit string (transmission order). -/
def runBits {w : Nat} (P : BitVec w) : BitVec w → List Bool → BitVec w
  | s, [] => s
  | s, b :: bs => runBits P (stepBit P s b) bs

/-- bits `lo, lo+1, …` (`n` of them) of a number, least significant first -/
def natBits (v : Nat) : Nat → List Bool
  | 0 => []
  | n + 1 => v.testBit 0 :: natBits (v / 2) n

/-- the 8 bits of a byte, least significant first (transmission order of reflected CRCs) -/
def byteBitsLsb (b : UInt8) : List Bool := natBits b.toNat 8

/-- message bytes → bit string, LSB of each byte first -/
def bitsLsb : Bytes → List Bool
  | [] => []
  | b :: m => byteBitsLsb b ++ bitsLsb m

/-- **Bitwise reflected CRC register update** over a byte message (no pre/post inversion). -/
def crcBitwise {w : Nat} (P s : BitVec w) (m : Bytes) : BitVec w := runBits P s (bitsLsb m)

/-- MSB-first LFSR step (bzip2): `s' = (s << 1) ^ (x ? P : 0)`. -/
def stepXM {w : Nat} (P s : BitVec w) (x : Bool) : BitVec w :=
  (s <<< 1) ^^^ (if x then P else 0#w)

def stepBitM {w : Nat} (P s : BitVec w) (b : Bool) : BitVec w :=
  stepXM P s (s.msb ^^ b)

def runBitsM {w : Nat} (P : BitVec w) : BitVec w → List Bool → BitVec w
  | s, [] => s
  | s, b :: bs => runBitsM P (stepBitM P s b) bs

/-- the 8 bits of a byte, most significant first -/
def byteBitsMsb (b : UInt8) : List Bool := (natBits b.toNat 8).reverse

def bitsMsb : Bytes → List Bool
  | [] => []
  | b :: m => byteBitsMsb b ++ bitsMsb m

def crcBitwiseM {w : Nat} (P s : BitVec w) (m : Bytes) : BitVec w := runBitsM P s (bitsMsb m)

/-- the three generator polynomials -/
def P32 : BitVec 32 := 0xEDB88320#32
def P16 : BitVec 16 := 0xA001#16
def PBz : BitVec 32 := 0x04C11DB7#32

/-! ## table-driven routines as the C has them -/

def table32 : List (BitVec 32) := Gen.crc32ATable.map (BitVec.ofNat 32)
def table16 : List (BitVec 16) := Gen.crc16IBMTable.map (BitVec.ofNat 16)
def tableBz : List (BitVec 32) := Gen.bzCrcTable.map (BitVec.ofNat 32)

/-- `#define CRC(table) crc = table[*buf++ ^ (crc & 0xff)] ^ (crc >> 8)` -/
def tblStep {w : Nat} (T : List (BitVec w)) (crc : BitVec w) (b : UInt8) : BitVec w :=
  T.getD (b.toNat ^^^ (crc.toNat % 256)) 0#w ^^^ (crc >>> 8)

/-- the loops of `libxmp_crc32_A_no_inv` / `libxmp_crc16_IBM`: four bytes at a time while
    `size >= 4`, then the rest one by one -/
def tblLoop {w : Nat} (T : List (BitVec w)) : BitVec w → Bytes → BitVec w
  | crc, a :: b :: c :: d :: rest =>
      tblLoop T (tblStep T (tblStep T (tblStep T (tblStep T crc a) b) c) d) rest
  | crc, [a, b, c] => tblStep T (tblStep T (tblStep T crc a) b) c
  | crc, [a, b] => tblStep T (tblStep T crc a) b
  | crc, [a] => tblStep T crc a
  | crc, [] => crc

/-- `libxmp_crc32_A_no_inv(buf, size, crc)` -/
def crc32ANoInv (m : Bytes) (crc : BitVec 32) : BitVec 32 := tblLoop table32 crc m

/-- `libxmp_crc32_A(buf, size, crc)` = `~no_inv(buf, size, ~crc)` -/
def crc32A (m : Bytes) (crc : BitVec 32) : BitVec 32 := ~~~ crc32ANoInv m (~~~ crc)

/-- `libxmp_crc16_IBM(buf, size, crc)` -/
def crc16IBM (m : Bytes) (crc : BitVec 16) : BitVec 16 := tblLoop table16 crc m

/-- bunzip2.c: `dataCRC = (dataCRC << 8) ^ crc32Table[(dataCRC >> 24) ^ outbyte]` -/
def bzStep (T : List (BitVec 32)) (crc : BitVec 32) (b : UInt8) : BitVec 32 :=
  (crc <<< 8) ^^^ T.getD ((crc.toNat / 2 ^ 24) ^^^ b.toNat) 0#32

/-- CRC of one bzip2 block: `dataCRC = 0xffffffff; … ; dataCRC = ~dataCRC` -/
def bzBlockCrc (m : Bytes) : BitVec 32 := ~~~ (m.foldl (bzStep tableBz) 0xFFFFFFFF#32)

/-- `totalCRC = ((totalCRC << 1) | (totalCRC >> 31)) ^ dataCRC` -/
def bzCombine (total data : BitVec 32) : BitVec 32 := ((total <<< 1) ||| (total >>> 31)) ^^^ data

end Xmp.Crc
