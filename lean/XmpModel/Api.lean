import XmpModel.Basic
import XmpModel.Gen.Exports
/-!
# Model of the public API state machine (C05) — written from the C

`step : State → Call → Env → Res` mirrors, function by function, the guards, range checks, assignments
and state transitions of `src/control.c`, `src/player.c` (`xmp_start_player`, `xmp_end_player`,
`xmp_play_frame`, `xmp_play_buffer`, `xmp_get_*_info`), `src/load.c` (`xmp_load_module*`,
`xmp_test_module*`, `xmp_release_module`, `xmp_scan_module`) and `src/smix.c` **as they are now**.

What happens outside these functions (format loaders, allocator, sequencer, mixer) enters through
`Env`: the result of a load attempt and the module facts it leaves, whether an allocation inside
`xmp_start_player`/`xmp_start_smix` succeeded, the verdict of the sequencer for `xmp_play_frame`
(0 or −XMP_END), `p->pos` after a repositioning call, the number of rows of the current pattern.

`Res.fault` is set in the cells in which the C indexes an array out of bounds or dereferences a
NULL table (the sanitized build aborts there).
-/
namespace Xmp.Api
open Xmp.Api.Gen

/-- The documented, observable part of a context: player state, every `xmp_get_player` parameter,
    channel mute/volume, and the counts that argument ranges refer to. -/
structure Obs where
  st : Int := 0
  amp : Int := 0
  mix : Int := 0
  interp : Int := 0
  dsp : Int := 0
  flags : Int := 0          -- p->player_flags
  cflags : Int := 0         -- p->flags
  smpctl : Int := 0
  volume : Int := 0         -- p->master_vol
  smixVol : Int := 0
  defpan : Int := 100
  mode : Int := 0
  voices : Int := 128       -- s->numvoc
  mute : List Int := List.replicate 64 0
  vol : List Int := List.replicate 64 0
  chn : Int := 0            -- mod->chn
  len : Int := 0            -- mod->len
  ins : Int := 0            -- mod->ins
  sxChn : Int := 0          -- smix->chn
  sxIns : Int := 0          -- smix->ins = smix->smp
deriving DecidableEq, Repr

/-- Model state: the observable part plus what the C keeps besides. -/
structure State extends Obs where
  pos : Int := 0            -- p->pos
  sxAlive : Bool := false   -- smix->xxi / smix->xxs allocated
deriving DecidableEq, Repr

/-- `xmp_create_context` (calloc + defpan = 100, numvoc = SMIX_NUMVOC). -/
def State.init : State := { defpan := 100, voices := SMIX_NUMVOC }

inductive LoadKind | path | mem | file | cb
deriving DecidableEq, Repr

inductive Call
  | recreate                                   -- xmp_free_context; xmp_create_context
  | version                                    -- read xmp_version / xmp_vercode
  | getFormatList
  | syserrno
  | testModule (k : LoadKind)
  | load (k : LoadKind) (size : Int)           -- `size` is the `long size` of the memory variant
  | release
  | scan
  | getModuleInfo
  | getFrameInfo
  | start (rate format : Int)
  | playFrame
  | playBuffer (null : Bool) (size loop : Int)
  | endPlayer
  | nextPos
  | prevPos
  | setPos (pos : Int)
  | setRow (row : Int)
  | setTempo (positive : Bool)                 -- `val > 0.0` and not NaN
  | stop
  | restart
  | seekTime (t : Int)
  | chanMute (chn status : Int)
  | chanVol (chn vol : Int)
  | inject (chn : Int)
  | setPlayer (parm val : Int)
  | getPlayer (parm : Int)
  | setInsPath (null : Bool)
  | startSmix (chn smp : Int)
  | smixPlayIns (ins note vol chn : Int)
  | smixPlaySmp (ins note vol chn : Int)
  | smixPan (chn pan : Int)
  | smixLoad (num : Int) (file : Int)          -- file: 0 mono WAV, 1 missing file, 2 not a RIFF file
  | smixRelease (num : Int)
  | endSmix
deriving DecidableEq, Repr

/-- Inputs decided outside the modelled functions. -/
structure Env where
  early : Bool := false    -- load: failed before the context was touched (cannot open / depack)
  res : Int := 0           -- load, test, start (allocation), start_smix (allocation), play_frame/buffer verdict
  mchn : Int := 0          -- module facts left by a load attempt
  mlen : Int := 0
  mins : Int := 0
  mcflags : Int := 0       -- p->flags after the load epilogue (player flags + module quirks)
  mmode : Int := 0         -- p->mode after a load attempt (XMP_MODE_AUTO or the module_quirks entry)
  xmute : List Int := List.replicate 64 0   -- (xxc[i].flg & XMP_CHANNEL_MUTE) ? 1 : 0
  newPos : Int := 0        -- p->pos after a sequencer call
  rows : Int := -1         -- rows of the pattern at the current position, −1 when that pattern is invalid
  tempoOk : Bool := true   -- 0 ≤ ticksize ≤ XMP_MAX_FRAMESIZE/4 for the requested factor
  mixerType : Int := 0
deriving Repr

structure Res where
  ret : Int
  state : State
  fault : Bool := false

def ERR_STATE : Int := -XMP_ERROR_STATE
def ERR_INVALID : Int := -XMP_ERROR_INVALID
def ERR_INTERNAL : Int := -XMP_ERROR_INTERNAL
def ERR_SYSTEM : Int := -XMP_ERROR_SYSTEM
def ERR_FORMAT : Int := -XMP_ERROR_FORMAT
def INT_MAX : Int := 2147483647

def getAt (l : List Int) (i : Int) : Int := l.getD i.toNat 0
def setAt (l : List Int) (i : Int) (v : Int) : List Int := l.set i.toNat v

/-- defaults written by `xmp_start_player`: mute from the module's channel flags for `i < chn`, else 0 -/
def startMute (chn : Int) (xmute : List Int) : List Int :=
  (List.range 64).map fun (i : Nat) => if (i : Int) < chn then (if xmute.getD i 0 != 0 then 1 else 0) else 0

/-- `xmp_end_player` -/
def endPlayer (s : State) : State := if s.st < XMP_STATE_PLAYING then s else { s with st := XMP_STATE_LOADED }

/-- `xmp_release_module`: ends the player if needed, state UNLOADED; `mod->chn/len/ins` keep their values. -/
def release (s : State) : State := { (if s.st > XMP_STATE_LOADED then endPlayer s else s) with st := XMP_STATE_UNLOADED }

/-- `xmp_load_module*` after the handle was opened: release, `load_module`. -/
def loadModule (s : State) (e : Env) : Res :=
  let s1 := if s.st > XMP_STATE_UNLOADED then release s else s
  if e.res == 0 then
    -- load_prologue, loader, load_epilogue (p->mode = XMP_MODE_AUTO, p->flags = player_flags; module_quirks may
    -- replace both for modules of its md5 table; p->pos = 0), scan
    { ret := 0, state := { s1 with st := XMP_STATE_LOADED, chn := e.mchn, len := e.mlen, ins := e.mins,
                                    cflags := e.mcflags, mode := e.mmode, pos := 0 } }
  else
    -- every failure path ends in xmp_release_module
    { ret := e.res, state := { release s1 with chn := e.mchn, len := e.mlen, ins := e.mins,
                                               cflags := e.mcflags, mode := e.mmode, pos := e.newPos } }

/-- `xmp_start_player` -/
def startPlayer (s : State) (rate : Int) (e : Env) : Res :=
  if rate < XMP_MIN_SRATE || rate > XMP_MAX_SRATE then { ret := ERR_INVALID, state := s }
  else if s.st < XMP_STATE_LOADED then { ret := ERR_STATE, state := s }
  -- module channels and reserved smix channels share the 64-entry channel tables
  else if s.sxChn < 0 || s.chn + s.sxChn > XMP_MAX_CHANNELS then { ret := ERR_INVALID, state := s }
  else
    let s1 := if s.st > XMP_STATE_LOADED then endPlayer s else s
    -- libxmp_mixer_on: amplify, mix, interp, dsp; then volumes, position, mute/vol defaults
    let s2 : State := { s1 with amp := DEFAULT_AMPLIFY, mix := DEFAULT_MIX, interp := XMP_INTERP_LINEAR,
                                dsp := XMP_DSP_LOWPASS, volume := 100, smixVol := 100, pos := 0,
                                mute := startMute s1.chn e.xmute, vol := List.replicate 64 100 }
    -- libxmp_virt_on(mod->chn + smix->chn), calloc of loop/channel tables
    if e.res != 0 then { ret := e.res, state := s2 }     -- allocation failure paths (err, err1, err2)
    else { ret := 0, state := { s2 with st := XMP_STATE_PLAYING } }

/-- `xmp_set_player` -/
def setPlayer (s : State) (parm val : Int) (e : Env) : Res :=
  let stateErr : Bool :=
    if parm == XMP_PLAYER_SMPCTL || parm == XMP_PLAYER_DEFPAN then s.st >= XMP_STATE_LOADED
    else if parm == XMP_PLAYER_VOICES then s.st >= XMP_STATE_PLAYING
    else s.st < XMP_STATE_PLAYING
  if stateErr then { ret := ERR_STATE, state := s }
  else if parm == XMP_PLAYER_AMP then
    if val >= 0 && val <= 3 then { ret := 0, state := { s with amp := val } } else { ret := ERR_INVALID, state := s }
  else if parm == XMP_PLAYER_MIX then
    if val >= -100 && val <= 100 then { ret := 0, state := { s with mix := val } } else { ret := ERR_INVALID, state := s }
  else if parm == XMP_PLAYER_INTERP then
    if val >= XMP_INTERP_NEAREST && val <= XMP_INTERP_SPLINE then { ret := 0, state := { s with interp := val } }
    else { ret := ERR_INVALID, state := s }
  else if parm == XMP_PLAYER_DSP then { ret := 0, state := { s with dsp := val } }
  else if parm == XMP_PLAYER_FLAGS then { ret := 0, state := { s with flags := val } }
  else if parm == XMP_PLAYER_CFLAGS then { ret := 0, state := { s with cflags := val } }
  else if parm == XMP_PLAYER_SMPCTL then { ret := 0, state := { s with smpctl := val } }
  else if parm == XMP_PLAYER_VOLUME then
    if val >= 0 && val <= 200 then { ret := 0, state := { s with volume := val } } else { ret := ERR_INVALID, state := s }
  else if parm == XMP_PLAYER_SMIX_VOLUME then
    if val >= 0 && val <= 200 then { ret := 0, state := { s with smixVol := val } } else { ret := ERR_INVALID, state := s }
  else if parm == XMP_PLAYER_DEFPAN then
    if val >= 0 && val <= 100 then { ret := 0, state := { s with defpan := val } } else { ret := ERR_INVALID, state := s }
  else if parm == XMP_PLAYER_MODE then
    if val >= XMP_MODE_AUTO && val <= XMP_MODE_ITSMP then
      -- the sequences are rescanned under the new mode's reading of the order list; when nothing is
      -- playable that way (environment: `e.res ≠ 0`) the old mode is kept and the call refused
      if e.res != 0 then { ret := ERR_INVALID, state := s } else { ret := 0, state := { s with mode := val } }
    else { ret := ERR_INVALID, state := s }
  else if parm == XMP_PLAYER_VOICES then
    if val >= 0 && val <= 65536 then { ret := 0, state := { s with voices := val } } else { ret := ERR_INVALID, state := s }
  else { ret := ERR_INVALID, state := s }

/-- `xmp_get_player` -/
def getPlayer (s : State) (parm : Int) (e : Env) : Int :=
  if !(parm == XMP_PLAYER_SMPCTL || parm == XMP_PLAYER_DEFPAN) && parm != XMP_PLAYER_STATE
      && s.st < XMP_STATE_PLAYING then ERR_STATE
  else if parm == XMP_PLAYER_AMP then s.amp
  else if parm == XMP_PLAYER_MIX then s.mix
  else if parm == XMP_PLAYER_INTERP then s.interp
  else if parm == XMP_PLAYER_DSP then s.dsp
  else if parm == XMP_PLAYER_FLAGS then s.flags
  else if parm == XMP_PLAYER_CFLAGS then s.cflags
  else if parm == XMP_PLAYER_SMPCTL then s.smpctl
  else if parm == XMP_PLAYER_VOLUME then s.volume
  else if parm == XMP_PLAYER_SMIX_VOLUME then s.smixVol
  else if parm == XMP_PLAYER_STATE then s.st
  else if parm == XMP_PLAYER_DEFPAN then s.defpan
  else if parm == XMP_PLAYER_MODE then s.mode
  else if parm == XMP_PLAYER_MIXER_TYPE then e.mixerType
  else if parm == XMP_PLAYER_VOICES then s.voices
  else ERR_INVALID

/-- `xmp_smix_play_instrument` / `xmp_smix_play_sample` (`nins` = mod->ins resp. smix->ins) -/
def smixPlay (s : State) (nins ins note vol chn : Int) : Res :=
  if s.st < XMP_STATE_PLAYING then { ret := ERR_STATE, state := s }
  else if chn >= s.sxChn || chn < 0 || ins >= nins || ins < 0
          || note < 0 || note > 255 || vol < 0 || vol > 254 then { ret := ERR_INVALID, state := s }
  else { ret := 0, state := s,
         -- writes p->inject_event[mod->chn + chn], an array of XMP_MAX_CHANNELS entries
         fault := s.chn + chn >= XMP_MAX_CHANNELS || s.chn + chn < 0 }

def step (s : State) (c : Call) (e : Env) : Res :=
  match c with
  | .recreate => { ret := 0, state := State.init }
  | .version => { ret := 0, state := s }
  | .getFormatList => { ret := 0, state := s }
  | .syserrno => { ret := 0, state := s }
  | .testModule _ => { ret := e.res, state := s }
  | .load k size =>
    if k == .mem && size <= 0 then { ret := ERR_INVALID, state := s }
    else if e.early then { ret := e.res, state := s }
    else loadModule s e
  | .release => { ret := 0, state := release s }
  | .scan => { ret := 0, state := s }
  | .getModuleInfo => { ret := 0, state := s }
  | .getFrameInfo => { ret := 0, state := s }
  | .start rate _ => startPlayer s rate e
  | .playFrame =>
    if s.st < XMP_STATE_PLAYING then { ret := ERR_STATE, state := s }
    else { ret := e.res, state := { s with pos := e.newPos } }
  | .playBuffer null size _ =>
    if null then { ret := 0, state := s }
    else if s.st < XMP_STATE_PLAYING then { ret := ERR_STATE, state := s }
    else if size <= 0 then { ret := 0, state := s }
    else { ret := e.res, state := { s with pos := e.newPos } }
  | .endPlayer => { ret := 0, state := endPlayer s }
  | .nextPos =>
    if s.st < XMP_STATE_PLAYING then { ret := ERR_STATE, state := s }
    else { ret := e.newPos, state := { s with pos := e.newPos } }
  | .prevPos =>
    if s.st < XMP_STATE_PLAYING then { ret := ERR_STATE, state := s }
    else { ret := if e.newPos < 0 then 0 else e.newPos, state := { s with pos := e.newPos } }
  | .setPos pos =>
    if s.st < XMP_STATE_PLAYING then { ret := ERR_STATE, state := s }
    else if pos < 0 || pos >= s.len then { ret := ERR_INVALID, state := s }
    else { ret := e.newPos, state := { s with pos := e.newPos } }
  | .setRow row =>
    if s.st < XMP_STATE_PLAYING then { ret := ERR_STATE, state := s }
    else if e.rows < 0 || row < 0 || row >= e.rows then { ret := ERR_INVALID, state := s }
    else { ret := row, state := { s with pos := if s.pos < 0 then 0 else s.pos } }
  | .setTempo positive =>
    if s.st < XMP_STATE_PLAYING then { ret := ERR_STATE, state := s }
    else if !positive then { ret := -1, state := s }
    else if !e.tempoOk then { ret := -1, state := s }
    else { ret := 0, state := s }
  | .stop => if s.st < XMP_STATE_PLAYING then { ret := 0, state := s } else { ret := 0, state := { s with pos := -2 } }
  | .restart => if s.st < XMP_STATE_PLAYING then { ret := 0, state := s } else { ret := 0, state := { s with pos := -1 } }
  | .seekTime _ =>
    if s.st < XMP_STATE_PLAYING then { ret := ERR_STATE, state := s }
    else { ret := if e.newPos < 0 then 0 else e.newPos, state := { s with pos := e.newPos } }
  | .chanMute chn status =>
    if s.st < XMP_STATE_PLAYING then { ret := ERR_STATE, state := s }
    else if chn < 0 || chn >= XMP_MAX_CHANNELS then { ret := ERR_INVALID, state := s }
    else
      let old := getAt s.mute chn
      if status >= 2 then { ret := old, state := { s with mute := setAt s.mute chn (if old == 0 then 1 else 0) } }
      else if status >= 0 then { ret := old, state := { s with mute := setAt s.mute chn status } }
      else { ret := old, state := s }
  | .chanVol chn vol =>
    if s.st < XMP_STATE_PLAYING then { ret := ERR_STATE, state := s }
    else if chn < 0 || chn >= XMP_MAX_CHANNELS then { ret := ERR_INVALID, state := s }
    else
      let old := getAt s.vol chn
      if vol >= 0 && vol <= 100 then { ret := old, state := { s with vol := setAt s.vol chn vol } }
      else { ret := old, state := s }
  | .inject chn =>
    if s.st < XMP_STATE_PLAYING then { ret := 0, state := s }
    else if chn < 0 || chn >= XMP_MAX_CHANNELS then { ret := 0, state := s }
    else { ret := 0, state := s }                                  -- p->inject_event[channel] written
  | .setPlayer parm val => setPlayer s parm val e
  | .getPlayer parm => { ret := getPlayer s parm e, state := s }
  | .setInsPath _ => { ret := 0, state := s }
  | .startSmix chn smp =>
    if s.st > XMP_STATE_LOADED then { ret := ERR_STATE, state := s }
    else if chn < 0 || chn > XMP_MAX_CHANNELS || smp < 0 || smp > 255 then { ret := ERR_INVALID, state := s }
    else
      -- already started: xmp_end_smix first (state ≤ LOADED here, so it is not ignored)
      let s1 : State := if s.sxAlive then { s with sxAlive := false, sxChn := 0, sxIns := 0 } else s
      if e.res != 0 then { ret := ERR_INTERNAL, state := s1 }     -- calloc failure
      else { ret := 0, state := { s1 with sxChn := chn, sxIns := smp, sxAlive := true } }
  | .smixPlayIns ins note vol chn => smixPlay s s.ins ins note vol chn
  | .smixPlaySmp ins note vol chn => smixPlay s s.sxIns ins note vol chn
  | .smixPan chn pan =>
    if s.st < XMP_STATE_PLAYING then { ret := ERR_STATE, state := s }
    else if chn < 0 || chn >= s.sxChn || pan < 0 || pan > 255 then { ret := ERR_INVALID, state := s }
    else { ret := 0, state := s,
           -- p->xc_data[mod->chn + chn], a table of (at least) mod->chn + smix->chn entries
           fault := s.chn + chn >= XMP_MAX_CHANNELS }
  | .smixLoad num file =>
    if num < 0 || num >= s.sxIns then { ret := ERR_INVALID, state := s }
    else if !s.sxAlive then { ret := 0, state := s, fault := true }   -- &smix->xxi[num] on a NULL table
    else if file == 1 then { ret := ERR_SYSTEM, state := s }
    else if file == 0 then { ret := 0, state := s }
    else { ret := ERR_FORMAT, state := s }
  | .smixRelease num =>
    if num < 0 || num >= s.sxIns then { ret := ERR_INVALID, state := s }
    else if !s.sxAlive then { ret := 0, state := s, fault := true }
    else { ret := 0, state := s }
  | .endSmix =>
    -- ignored while playing (voices may reference the samples); otherwise
    -- for (i < smix->smp) xmp_smix_release_sample(i); free tables; counts := 0
    if s.st > XMP_STATE_LOADED then { ret := 0, state := s }
    else if s.sxIns > 0 && !s.sxAlive then { ret := 0, state := s, fault := true }
    else { ret := 0, state := { s with sxAlive := false, sxChn := 0, sxIns := 0 } }

/-! ## Exported symbols covered by the model -/

def Call.exports : Call → List String
  | .recreate => ["xmp_free_context", "xmp_create_context"]
  | .version => ["xmp_version", "xmp_vercode"]
  | .getFormatList => ["xmp_get_format_list"]
  | .syserrno => ["xmp_syserrno"]
  | .testModule .path => ["xmp_test_module"]
  | .testModule .mem => ["xmp_test_module_from_memory"]
  | .testModule .file => ["xmp_test_module_from_file"]
  | .testModule .cb => ["xmp_test_module_from_callbacks"]
  | .load .path _ => ["xmp_load_module"]
  | .load .mem _ => ["xmp_load_module_from_memory"]
  | .load .file _ => ["xmp_load_module_from_file"]
  | .load .cb _ => ["xmp_load_module_from_callbacks"]
  | .release => ["xmp_release_module"]
  | .scan => ["xmp_scan_module"]
  | .getModuleInfo => ["xmp_get_module_info"]
  | .getFrameInfo => ["xmp_get_frame_info"]
  | .start _ _ => ["xmp_start_player"]
  | .playFrame => ["xmp_play_frame"]
  | .playBuffer _ _ _ => ["xmp_play_buffer"]
  | .endPlayer => ["xmp_end_player"]
  | .nextPos => ["xmp_next_position"]
  | .prevPos => ["xmp_prev_position"]
  | .setPos _ => ["xmp_set_position"]
  | .setRow _ => ["xmp_set_row"]
  | .setTempo _ => ["xmp_set_tempo_factor"]
  | .stop => ["xmp_stop_module"]
  | .restart => ["xmp_restart_module"]
  | .seekTime _ => ["xmp_seek_time"]
  | .chanMute _ _ => ["xmp_channel_mute"]
  | .chanVol _ _ => ["xmp_channel_vol"]
  | .inject _ => ["xmp_inject_event"]
  | .setPlayer _ _ => ["xmp_set_player"]
  | .getPlayer _ => ["xmp_get_player"]
  | .setInsPath _ => ["xmp_set_instrument_path"]
  | .startSmix _ _ => ["xmp_start_smix"]
  | .smixPlayIns _ _ _ _ => ["xmp_smix_play_instrument"]
  | .smixPlaySmp _ _ _ _ => ["xmp_smix_play_sample"]
  | .smixPan _ _ => ["xmp_smix_channel_pan"]
  | .smixLoad _ _ => ["xmp_smix_load_sample"]
  | .smixRelease _ => ["xmp_smix_release_sample"]
  | .endSmix => ["xmp_end_smix"]

/-- one representative per constructor (and per load/test variant) -/
def Call.kinds : List Call :=
  [.recreate, .version, .getFormatList, .syserrno,
   .testModule .path, .testModule .mem, .testModule .file, .testModule .cb,
   .load .path 0, .load .mem 0, .load .file 0, .load .cb 0,
   .release, .scan, .getModuleInfo, .getFrameInfo, .start 0 0, .playFrame, .playBuffer false 0 0, .endPlayer,
   .nextPos, .prevPos, .setPos 0, .setRow 0, .setTempo true, .stop, .restart, .seekTime 0,
   .chanMute 0 0, .chanVol 0 0, .inject 0, .setPlayer 0 0, .getPlayer 0, .setInsPath false,
   .startSmix 0 0, .smixPlayIns 0 0 0 0, .smixPlaySmp 0 0 0 0, .smixPan 0 0, .smixLoad 0 0, .smixRelease 0, .endSmix]

def covered : List String := Call.kinds.flatMap Call.exports

/-- the model returns nothing for `void` functions: their `ret` is always 0 -/
def Call.isVoid : Call → Bool
  | .recreate | .version | .release | .scan | .getModuleInfo | .getFrameInfo | .endPlayer | .stop | .restart
  | .inject _ | .endSmix => true
  | _ => false

end Xmp.Api
