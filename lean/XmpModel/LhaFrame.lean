import XmpModel.Container
/-!
# LHA / LZH archives as read by `decrunch_lha` (unlha.c + the lhasa reader), model for C08

Mirrors
* `lha_input_stream.c`: the self-extractor skip (`skip_sfx`: first position, below ~256 KiB, where a file header
  signature `-l??-` / `-pm?-` starts and at least 13 bytes follow; the first hit after an SFX identification string
  is ignored).  The 24-byte lead-in buffer is not modelled separately: every header is at least 24 bytes long, so the
  buffer is empty before the first `skip`, and reads see one contiguous stream;
* `lha_file_header.c`: header levels 0, 1, 2 and 3 (length / checksum tests, method, sizes, path and file name,
  level-0 extended area → OS type, level-1 extended headers taken from the compressed size, extended header walk
  with file name 0x01, path 0x02 and common CRC 0x00 (field zeroed, CRC-16 over the raw header), the Amiga
  empty-file-is-directory rule, "file name required", the MS-DOS all-caps → lower case fix);
* `lha_basic_reader.c` / `lha_reader.c`: skip the rest of the current member, read the next header;
* `decrunch_lha`: skip `-lhd-` entries and excluded names, size tests, read `length` bytes through the decoder; the
  stored methods (`-lh0-`, `-lz4-`, `-pm0-`: null decoder, 1024-byte blocks) are modelled, every other method and the
  MacBinary pass-through (OS type `m`) go through the parameter `dec`.
Not modelled (no influence on the result): time stamps, permissions, `collapse_path` (acts on the path only, after
the all-caps decision), the `-lh7-` → `-lk7-` rename is included because it changes the decoder name.
-/
namespace Xmp.Container
open Xmp

/-! ## `skip_sfx` -/

def lhaHdrMatch (f : Bytes) (i : Nat) : Bool :=
  bAt f (i + 2) == 0x2d && bAt f (i + 6) == 0x2d &&
  ((bAt f (i + 3) == 0x6c && bAt f (i + 4) == 0x68) ||
   (bAt f (i + 3) == 0x6c && bAt f (i + 4) == 0x7a && (bAt f (i + 5) == 0x34 || bAt f (i + 5) == 0x35 || bAt f (i + 5) == 0x73)) ||
   (bAt f (i + 3) == 0x70 && bAt f (i + 4) == 0x6d && bAt f (i + 5) != 0x73))

def lhaSfxId (f : Bytes) (i : Nat) : Bool :=
  memEqAt f i [0x4c, 0x48, 0x41, 0x2d, 0x53, 0x46, 0x58] ||                                   -- "LHA-SFX"
  memEqAt f i [0x4c, 0x68, 0x41, 0x53, 0x46, 0x58, 0x20, 0x56, 0x31, 0x2e, 0x32, 0x2c]       -- "LhASFX V1.2,"

/-- positions are examined in increasing order while 13 bytes are available and the window start is below
    `MAX_SFX_HEADER_LEN` (windows advance by 12: the last examined position is 262151) -/
def lhaSfxLimit : Nat := 262152

def skipSfxGo (f : Bytes) : Nat → Nat → Nat → Option Nat
  | 0, _, _ => none
  | fuel + 1, i, skipFiles =>
    if i + 13 > f.length ∨ i ≥ lhaSfxLimit then none
    else if lhaHdrMatch f i ∧ skipFiles = 0 then some i
    else
      let sk := if lhaHdrMatch f i then skipFiles - 1 else skipFiles
      skipSfxGo f fuel (i + 1) (if lhaSfxId f i then 1 else sk)

def skipSfx (f : Bytes) : Option Nat := skipSfxGo f (f.length + 1) 0 0

/-! ## headers -/

structure LhaHeader where
  method : Bytes := []
  csize : Nat := 0
  length : Nat := 0
  level : Nat := 0
  osType : Nat := 0
  filename : Option Bytes := none       -- C strings (cut at the first NUL when used)
  path : Option Bytes := none
  commonCrc : Option Nat := none
  raw : Bytes := []
  deriving Repr

/-- `lha_input_stream_read`: all `n` bytes or failure -/
def sRead (s : Bytes) (n : Nat) : Option (Bytes × Bytes) :=
  if s.length < n then none else some (s.take n, s.drop n)

def lhaMaxExt : Nat := 1048576          -- LEVEL_3_MAX_HEADER_LEN, also the limit of `extend_raw_data`

/-- `extend_raw_data` -/
def extendRaw (h : LhaHeader) (s : Bytes) (n : Nat) : Option (LhaHeader × Bytes) :=
  if n > lhaMaxExt then none
  else (sRead s n).map (fun r => ({ h with raw := h.raw ++ r.1 }, r.2))

def bsToSlash (b : UInt8) : UInt8 := if b = 0x5c then 0x2f else b

/-- index of the last `/` -/
def lastSlash (s : Bytes) : Option Nat :=
  (s.zipIdx.filter (fun p => p.1 = 0x2f)).getLast?.map (·.2)

/-- `process_level0_path` + `split_header_filename` -/
def level0Path (h : LhaHeader) (data : Bytes) : LhaHeader :=
  if data.length = 0 then h
  else
    let s := cstr (data.map bsToSlash)
    match lastSlash s with
    | some k => { h with filename := some (s.drop (k + 1)), path := some (s.take (k + 1)) }
    | none => { h with filename := some s }

/-- `process_level0_extended_area` (OS type only) -/
def level0ExtArea (h : LhaHeader) (data : Bytes) : LhaHeader :=
  if h.method.take 3 = [0x2d, 0x70, 0x6d] then h
  else
    let d0 := bAt data 0
    if d0 = 0x55 ∨ d0 = 0x4b then                 -- 'U', 'K'
      (if data.length < 12 ∨ bAt data 1 ≠ 0 then h else { h with osType := d0 })
    else if d0 = 0x39 then                          -- '9'
      (if data.length < 22 ∨ bAt data 9 ≠ 0xcc ∨ bAt data 1 ≠ bAt data 17 ∨ bAt data 2 ≠ bAt data 18 then h
       else { h with osType := 0x39 })
    else h

def setAt (l : Bytes) (i : Nat) (v : UInt8) : Bytes := l.take i ++ (if i < l.length then [v] else []) ++ l.drop (i + 1)

/-- `lha_ext_header_decode` for the header body `raw[off .. off+len)` (type byte first) -/
def extDecode (h : LhaHeader) (off len : Nat) : LhaHeader :=
  let typ := bAt h.raw off
  let data := (h.raw.drop (off + 1)).take (len - 1)
  if typ = 0 then
    if data.length < 2 then h
    else { h with commonCrc := some (u16At data 0), raw := setAt (setAt h.raw (off + 1) 0) (off + 2) 0 }
  else if typ = 1 then
    if data.length < 1 then h
    else { h with filename := some ((cstr data).map (fun b => if b = 0x2f then 0x5f else b)) }
  else if typ = 2 then
    if data.length < 1 then h
    else
      let d := if data.getLast? = some 0xff then data else data ++ [0xff]
      { h with path := some (d.map (fun b => if b = 0xff then 0x2f else b)) }
  else h

/-- `decode_extended_headers`: `fs` = size of the length fields (2, level 3: 4) -/
def extWalk (fs : Nat) : Nat → LhaHeader → Nat → Nat → Option LhaHeader
  | 0, _, _, _ => none
  | fuel + 1, h, off, avail =>
    if off + fs > h.raw.length then some h
    else
      let el := if fs = 4 then u32At h.raw off else u16At h.raw off
      if el = 0 then some h
      else if el < fs + 1 ∨ el > avail then none
      else extWalk fs fuel (extDecode h (off + fs) (el - fs)) (off + el) (avail - el)

def decodeExt (fs : Nat) (h : LhaHeader) (off : Nat) : Option LhaHeader :=
  extWalk fs (h.raw.length + 1) h off (h.raw.length - off - fs)

/-- `decode_level0_header` (levels 0 and 1) -/
def decodeLevel0 (h : LhaHeader) (s : Bytes) : Option (LhaHeader × Bytes) :=
  let hlen := bAt h.raw 0
  let csum := bAt h.raw 1
  let minLen := if h.level = 0 then 22 else 25
  if hlen < minLen then none
  else
    match extendRaw h s (hlen + 2 - h.raw.length) with
    | none => none
    | some (h, s) =>
      if ((h.raw.drop 2).foldl (fun a b => a + b.toNat) 0) % 256 ≠ csum then none
      else
        let pathLen := bAt h.raw 21
        if minLen + pathLen > hlen then none
        else
          let h := { h with method := (h.raw.drop 2).take 5, csize := u32At h.raw 7, length := u32At h.raw 11,
                            osType := if h.level = 0 then 0 else bAt h.raw (24 + pathLen) }
          let h := level0Path h ((h.raw.drop 22).take pathLen)
          let h := if h.level = 0 ∧ hlen > 22 + pathLen
                   then level0ExtArea h ((h.raw.drop (24 + pathLen)).take (hlen - 22 - pathLen)) else h
          some (h, s)

/-- `read_l1_extended_headers` -/
def readL1Ext : Nat → LhaHeader → Bytes → Option (LhaHeader × Bytes)
  | 0, _, _ => none
  | fuel + 1, h, s =>
    let el := u16At h.raw (h.raw.length - 2)
    if el = 0 then some (h, s)
    else
      match extendRaw h s el with
      | none => none
      | some (h, s) =>
        if h.csize < el then none
        else if el < 3 then none
        else readL1Ext fuel { h with csize := h.csize - el } s

def lhaDirMethod : Bytes := [0x2d, 0x6c, 0x68, 0x64, 0x2d]      -- "-lhd-"
def lhaLh0 : Bytes := [0x2d, 0x6c, 0x68, 0x30, 0x2d]            -- "-lh0-"

def isLowerB (b : UInt8) : Bool := 0x61 ≤ b.toNat && b.toNat ≤ 0x7a
def toLowerB (b : UInt8) : UInt8 := if 0x41 ≤ b.toNat ∧ b.toNat ≤ 0x5a then b + 32 else b

/-- `fix_msdos_allcaps` -/
def fixAllCaps (h : LhaHeader) : LhaHeader :=
  let p := h.path.map cstr
  let n := h.filename.map cstr
  if (p.getD []).any isLowerB || (n.getD []).any isLowerB then h
  else { h with path := p.map (·.map toLowerB), filename := n.map (·.map toLowerB) }

/-- the checks and fix-ups of `lha_file_header_read` after the level-specific decoding: Amiga empty file =
    directory, "file name required" / "path required", `fix_msdos_allcaps`, common CRC, LHARK `-lh7-` → `-lk7-` -/
def lhaPost (h : LhaHeader) (s : Bytes) : Option (LhaHeader × Bytes) :=
  let h := if h.osType = 0x41 ∧ h.method = lhaLh0 ∧ h.length = 0 ∧ h.filename.isNone
           then { h with method := lhaDirMethod } else h
  if (h.method ≠ lhaDirMethod ∧ h.filename.isNone) ∨ (h.method = lhaDirMethod ∧ h.path.isNone) then none
  else
    let h := if h.osType = 0 ∨ h.osType = 0x4d ∨ h.osType = 0x61 ∨ h.osType = 0x20 ∨ h.osType = 0x32
             then fixAllCaps h else h
    if (match h.commonCrc with | some c => c != (crc16 h.raw).toNat | none => false) then none
    else
      let h := if h.level = 1 ∧ h.osType = 0x20 ∧ h.method = [0x2d, 0x6c, 0x68, 0x37, 0x2d]
               then { h with method := [0x2d, 0x6c, 0x6b, 0x37, 0x2d] } else h
      some (h, s)

/-- `lha_file_header_read` -/
def lhaReadHeader (s : Bytes) : Option (LhaHeader × Bytes) :=
  match sRead s 22 with
  | none => none
  | some (raw, s) =>
    let h : LhaHeader := { raw := raw, level := bAt raw 20 }
    let r : Option (LhaHeader × Bytes) :=
      if h.level = 0 then decodeLevel0 h s
      else if h.level = 1 then
        match decodeLevel0 h s with
        | none => none
        | some (h, s) =>
          let start := h.raw.length - 2
          match readL1Ext (s.length + 1) h s with
          | none => none
          | some (h, s) => (decodeExt 2 h start).map (fun h => (h, s))
      else if h.level = 2 then
        let hlen := u16At h.raw 0
        if hlen < 26 then none
        else
          match extendRaw h s (hlen - h.raw.length) with
          | none => none
          | some (h, s) =>
            let h := { h with method := (h.raw.drop 2).take 5, csize := u32At h.raw 7, length := u32At h.raw 11,
                              osType := bAt h.raw 23 }
            match (if h.osType = 0x4b then extendRaw h s 2 else some (h, s)) with
            | none => none
            | some (h, s) => (decodeExt 2 h 24).map (fun h => (h, s))
      else if h.level = 3 then
        if u16At h.raw 0 ≠ 4 then none
        else
          match extendRaw h s (32 - h.raw.length) with
          | none => none
          | some (h, s) =>
            let hlen := u32At h.raw 24
            if hlen > lhaMaxExt ∨ hlen < h.raw.length then none
            else
              match extendRaw h s (hlen - h.raw.length) with
              | none => none
              | some (h, s) =>
                let h := { h with method := (h.raw.drop 2).take 5, csize := u32At h.raw 7, length := u32At h.raw 11,
                                  osType := bAt h.raw 23 }
                (decodeExt 4 h 28).map (fun h => (h, s))
      else none
    match r with
    | none => none
    | some (h, s) => lhaPost h s

/-! ## the member walk and extraction -/

/-- null decoder: 1024-byte blocks through `lha_basic_reader_read_compressed` until `length` bytes are out -/
def lhaNullRead : Nat → Bytes → Nat → Nat → Bytes → Option Bytes
  | 0, _, _, _, _ => none
  | fuel + 1, s, remaining, want, acc =>
    if want = 0 then some acc
    else
      let blk := min 1024 remaining
      if blk = 0 then none
      else if s.length < blk then none
      else lhaNullRead fuel (s.drop blk) (remaining - blk) (want - min want blk) (acc ++ (s.take blk).take want)

def lhaIsStored (m : Bytes) : Bool :=
  m == lhaLh0 || m == [0x2d, 0x6c, 0x7a, 0x34, 0x2d] || m == [0x2d, 0x70, 0x6d, 0x30, 0x2d]

/-- `decoders[]` of lha_decoder.c: the names `lha_decoder_for_name` knows besides the stored ones
    (-lz5- -lzs- -lh1- -lh4- -lh5- -lh6- -lh7- -lhx- -lk7- -pm1- -pm2-) -/
def lhaKnownPacked : List Bytes := [
  [0x2d, 0x6c, 0x7a, 0x35, 0x2d], [0x2d, 0x6c, 0x7a, 0x73, 0x2d], [0x2d, 0x6c, 0x68, 0x31, 0x2d],
  [0x2d, 0x6c, 0x68, 0x34, 0x2d], [0x2d, 0x6c, 0x68, 0x35, 0x2d], [0x2d, 0x6c, 0x68, 0x36, 0x2d],
  [0x2d, 0x6c, 0x68, 0x37, 0x2d], [0x2d, 0x6c, 0x68, 0x78, 0x2d], [0x2d, 0x6c, 0x6b, 0x37, 0x2d],
  [0x2d, 0x70, 0x6d, 0x31, 0x2d], [0x2d, 0x70, 0x6d, 0x32, 0x2d]]

/-- the loop of `decrunch_lha` + extraction; `dec method isMac cdata length` stands for every non-stored decoder -/
def lhaWalk (dec : Bytes → Bool → Bytes → Nat → Option Bytes) : Nat → Bytes → Option Bytes
  | 0, _ => none
  | fuel + 1, s =>
    match lhaReadHeader s with
    | none => none
    | some (h, s) =>
      if h.method = lhaDirMethod ∨ excludeMatch (cstr (h.filename.getD [])) then
        lhaWalk dec fuel (s.drop h.csize)
      else if h.length = 0 ∨ h.length > depackLimit then none
      else if lhaIsStored h.method ∧ h.osType ≠ 0x6d then lhaNullRead (h.length + 1) s h.csize h.length []
      else if ¬ (lhaIsStored h.method ∨ lhaKnownPacked.contains h.method) then none     -- lha_decoder_for_name: NULL
      else
        match dec h.method (h.osType == 0x6d) (s.take h.csize) h.length with
        | some out => if out.length = h.length then some out else none
        | none => none

def unlha (dec : Bytes → Bool → Bytes → Nat → Option Bytes) (f : Bytes) : Option Bytes :=
  match skipSfx f with
  | none => none
  | some i => lhaWalk dec (f.length + 1) (f.drop i)

/-- the pipeline environment with the LHA container modelled: `decrunch` hands "lha" files to `unlha`
    (`lhaDec` stands for the LH1/4/5/6/7, LZ5/LZS, PM1/2 decoders and the MacBinary pass-through) -/
def Env.withLha (env : Env) (lhaDec : Bytes → Bool → Bytes → Nat → Option Bytes) : Env :=
  { env with other := fun n f => if n = "lha" then unlha lhaDec f else env.other n f }

/-! ## writer: `-lh0-` members with level 0 / 1 / 2 headers -/

structure LhaMember where
  name : Bytes
  data : Bytes
  level : Nat := 0
  osId : UInt8 := 0x55
  time : Nat := 0
  attr : UInt8 := 0x20
  deriving Repr

def lhaSum (b : Bytes) : UInt8 := UInt8.ofNat ((b.foldl (fun a x => a + x.toNat) 0) % 256)

def lhaEntry (crc : Bytes → UInt16) (m : LhaMember) : Bytes :=
  if m.level = 0 then
    let body := lhaLh0 ++ le32 m.data.length ++ le32 m.data.length ++ le32 m.time ++ [m.attr, 0] ++
      [UInt8.ofNat m.name.length] ++ m.name ++ le16 (crc m.data).toNat
    [UInt8.ofNat body.length, lhaSum body] ++ body ++ m.data
  else if m.level = 1 then
    let body := lhaLh0 ++ le32 m.data.length ++ le32 m.data.length ++ le32 m.time ++ [m.attr, 1] ++
      [UInt8.ofNat m.name.length] ++ m.name ++ le16 (crc m.data).toNat ++ [m.osId] ++ le16 0
    [UInt8.ofNat body.length, lhaSum body] ++ body ++ m.data
  else
    let fixed := lhaLh0 ++ le32 m.data.length ++ le32 m.data.length ++ le32 m.time ++ [m.attr, 2] ++
      le16 (crc m.data).toNat ++ [m.osId]
    let ext := le16 (3 + m.name.length) ++ [1] ++ m.name ++ le16 0
    let total := 2 + fixed.length + ext.length
    let pad : Bytes := if total % 256 = 0 then [0] else []
    le16 (total + pad.length) ++ fixed ++ ext ++ pad ++ m.data

def lhaWrap (crc : Bytes → UInt16) (ms : List LhaMember) : Bytes := ms.flatMap (lhaEntry crc) ++ [0]

end Xmp.Container
