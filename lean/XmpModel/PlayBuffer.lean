import XmpModel.Basic
/-!
# Model of `xmp_play_buffer` (src/player.c)

The carry-over logic between `xmp_play_frame` and the caller's buffer.  The
player itself is abstracted as a *frame stream* `frames : Nat → Frame`: the
result of the n-th call of `xmp_play_frame` (+ `xmp_get_frame_info`) made on
behalf of `xmp_play_buffer`.

C state modelled: `p->buffer_data.{in_buffer,in_size,consumed}` (`St.buf`,
`St.consumed`) and the number of frames fetched so far (`St.idx`).
-/
namespace Xmp.PlayBuffer

/-- What one `xmp_play_frame` + `xmp_get_frame_info` yields. -/
inductive Frame where
  /-- return value 0: `fi.buffer[0..fi.buffer_size)` and `fi.loop_count`. -/
  | data (b : Bytes) (lc : Nat)
  /-- return value < 0 (`-XMP_END`, or a state error). -/
  | fin
  deriving Repr, Inhabited

def Frame.bytes : Frame → Bytes
  | .data b _ => b
  | .fin => []

structure St where
  idx : Nat := 0
  buf : Bytes := []
  consumed : Nat := 0
  deriving Repr

/-- `ret < 0 || (loop > 0 && fi.loop_count >= loop)` -/
def terminating (loop : Int) : Frame → Bool
  | .fin => true
  | .data _ lc => decide (loop > 0 ∧ (lc : Int) ≥ loop)

/-- The `while (filled < size)` loop.  `need = size - filled`, `out` = bytes
written so far (so `filled = out.length`).  One recursion step is one loop
iteration: optional fetch, then copy.  `fuel` bounds the iterations; see
`XmpProps.C12` for the proof that `need` iterations always suffice when data
frames are non-empty. Returns (bytes written, return code, new state). -/
def fillLoop (frames : Nat → Frame) (loop : Int) : Nat → St → Nat → Bytes → Bytes × Int × St
  | 0, st, _, out => (out, 0, st)
  | fuel + 1, st, need, out =>
    if need = 0 then (out, 0, st) else
    if st.consumed = st.buf.length then
      let fr := frames st.idx
      if terminating loop fr then
        if out.isEmpty then
          ([], -1, { idx := st.idx + 1, buf := [], consumed := 0 })
        else
          (out ++ List.replicate need 0, 0, { st with idx := st.idx + 1 })
      else
        let b := fr.bytes
        let n := min need b.length
        fillLoop frames loop fuel { idx := st.idx + 1, buf := b, consumed := n } (need - n)
          (out ++ b.take n)
    else
      let n := min need (st.buf.length - st.consumed)
      fillLoop frames loop fuel { st with consumed := st.consumed + n } (need - n)
        (out ++ (st.buf.drop st.consumed).take n)

/-- `xmp_play_buffer(ctx, out_buffer != NULL, size, loop)` in state PLAYING.
`size ≤ 0` never enters the loop. -/
def playBuffer (frames : Nat → Frame) (loop : Int) (st : St) (size : Int) : Bytes × Int × St :=
  if size ≤ 0 then ([], 0, st) else fillLoop frames loop (size.toNat + 1) st size.toNat []

/-- `xmp_play_buffer(ctx, NULL, …)`: drop the carry-over (loop_count := 0 is
player state, outside this model). -/
def reset (st : St) : St := { st with buf := [], consumed := 0 }

/-- A sequence of calls; collects (bytes, ret) per call. -/
def runCalls (frames : Nat → Frame) (loop : Int) : St → List Int → List (Bytes × Int)
  | _, [] => []
  | st, s :: rest =>
    let r := playBuffer frames loop st s
    (r.1, r.2.1) :: runCalls frames loop r.2.2 rest

end Xmp.PlayBuffer
