import XmpModel.Basic
import XmpModel.Gen.Depackers
/-!
# MD5 as implemented by `src/md5.c` (model for C08)

`MD5Init` / `MD5Update` / `MD5Pad` / `MD5Final` with the 64-byte input buffer of `MD5_CTX`.
The 64 `MD5STEP` lines, the round functions and the initial state are *generated* from md5.c
(`Xmp.Gen.Depackers.md5Steps`, `md5Init`), so the compression function below executes the table
that the C source contains.

Modelling decisions
* `count` (bits, `uint64` in C) is an unbounded `Nat`; C only uses `(count >> 3) & 63` (unchanged by
  wrap-around, 2^64 is a multiple of 512) and the low 64 bits in `MD5Pad` (taken `% 2^64` there).
* `buf` holds exactly the valid bytes of `ctx->buffer` (the first `have` bytes); `WF` states
  `buf.length = (count / 8) % 64`, which is how C recomputes `have`.
-/
namespace Xmp.Md5
open Xmp

abbrev Block := Bytes            -- 64 bytes

structure H where
  a : UInt32
  b : UInt32
  c : UInt32
  d : UInt32
  deriving Repr, DecidableEq, Inhabited

def H.get (h : H) : Nat → UInt32
  | 0 => h.a | 1 => h.b | 2 => h.c | _ => h.d

def H.set (h : H) (i : Nat) (v : UInt32) : H :=
  match i with
  | 0 => { h with a := v } | 1 => { h with b := v } | 2 => { h with c := v } | _ => { h with d := v }

/-- `in[i]`: little-endian word `i` of the block (`memcpy(in, block, 64)` on a little-endian host) -/
def word (blk : Block) (i : Nat) : UInt32 :=
  (blk.getD (4*i) 0).toUInt32 ||| ((blk.getD (4*i+1) 0).toUInt32 <<< 8) |||
  ((blk.getD (4*i+2) 0).toUInt32 <<< 16) ||| ((blk.getD (4*i+3) 0).toUInt32 <<< 24)

def F1 (x y z : UInt32) : UInt32 := z ^^^ (x &&& (y ^^^ z))
def F2 (x y z : UInt32) : UInt32 := F1 z x y
def F3 (x y z : UInt32) : UInt32 := x ^^^ y ^^^ z
def F4 (x y z : UInt32) : UInt32 := y ^^^ (x ||| ~~~z)

def rotl (w : UInt32) (s : Nat) : UInt32 :=
  (w <<< (UInt32.ofNat s)) ||| (w >>> (UInt32.ofNat (32 - s)))

/-- one `MD5STEP(f, w, x, y, z, in[k] + const, s)` -/
def step (blk : Block) (h : H) (e : Nat × Nat × Nat × Nat × Nat × Nat × UInt32 × Nat) : H :=
  let (f, w, x, y, z, k, cst, s) := e
  let fx := match f with
    | 1 => F1 (h.get x) (h.get y) (h.get z)
    | 2 => F2 (h.get x) (h.get y) (h.get z)
    | 3 => F3 (h.get x) (h.get y) (h.get z)
    | _ => F4 (h.get x) (h.get y) (h.get z)
  let w1 := h.get w + fx + (word blk k + cst)
  let w2 := rotl w1 s
  h.set w (w2 + h.get x)

/-- `MD5Transform(state, block)` -/
def transform (st : H) (blk : Block) : H :=
  let r := Gen.Depackers.md5Steps.foldl (step blk) st
  { a := st.a + r.a, b := st.b + r.b, c := st.c + r.c, d := st.d + r.d }

structure Ctx where
  h : H
  count : Nat          -- bits
  buf : Bytes          -- valid prefix of ctx->buffer
  deriving Repr, DecidableEq

/-- `MD5Init` -/
def init : Ctx :=
  { h := { a := Gen.Depackers.md5Init.getD 0 0, b := Gen.Depackers.md5Init.getD 1 0,
           c := Gen.Depackers.md5Init.getD 2 0, d := Gen.Depackers.md5Init.getD 3 0 },
    count := 0, buf := [] }

def WF (s : Ctx) : Prop := s.buf.length = (s.count / 8) % 64

/-- the `while (len >= MD5_BLOCK_LENGTH)` loop: consume whole blocks, return the state and the rest -/
def blocks (h : H) (data : Bytes) : H × Bytes :=
  if data.length < 64 then (h, data)
  else blocks (transform h (data.take 64)) (data.drop 64)
termination_by data.length
decreasing_by simp [List.length_drop]; omega

/-- `MD5Update(ctx, input, len)` -/
def update (s : Ctx) (inp : Bytes) : Ctx :=
  let have_ := s.buf.length                      -- (count >> 3) & 63 under `WF`
  let need := 64 - have_
  let count' := s.count + 8 * inp.length
  if inp.length ≥ need then
    -- `if (have != 0) { memcpy(buffer + have, input, need); MD5Transform(state, buffer); … have = 0 }`
    let (h1, inp1) :=
      if have_ ≠ 0 then (transform s.h (s.buf ++ inp.take need), inp.drop need) else (s.h, inp)
    let (h2, rest) := blocks h1 inp1
    -- `if (len != 0) memcpy(buffer + have, input, len)` with have = 0
    { h := h2, count := count', buf := rest }
  else
    { h := s.h, count := count', buf := s.buf ++ inp }

def le32 (w : UInt32) : Bytes :=
  [w.toUInt8, (w >>> 8).toUInt8, (w >>> 16).toUInt8, (w >>> 24).toUInt8]

/-- `PUT_64BIT_LE(count, ctx->count)` -/
def le64 (n : Nat) : Bytes :=
  (List.range 8).map fun i => UInt8.ofNat ((n % 2^64) / 2^(8*i) % 256)

def padding (n : Nat) : Bytes := 0x80 :: List.replicate (n - 1) 0

/-- `MD5Pad` -/
def pad (s : Ctx) : Ctx :=
  let cnt := le64 s.count
  let padlen0 := 64 - ((s.count / 8) % 64)
  let padlen := if padlen0 < 1 + 8 then padlen0 + 64 else padlen0
  update (update s (padding (padlen - 8))) cnt

/-- `MD5Final`: the digest -/
def final (s : Ctx) : Bytes :=
  let t := pad s
  le32 t.h.a ++ le32 t.h.b ++ le32 t.h.c ++ le32 t.h.d

/-- MD5 of a byte string in one update -/
def md5 (m : Bytes) : Bytes := final (update init m)

/-- `set_md5sum`: read the stream in chunks of `n` bytes (the `hio_read(buf, 1, BUFLEN, f)` loop) -/
def chunksOf (n : Nat) (m : Bytes) : List Bytes :=
  if _h : n = 0 ∨ m.length = 0 then [] else (m.take n) :: chunksOf n (m.drop n)
termination_by m.length
decreasing_by simp [List.length_drop]; omega

def md5sumLoop (n : Nat) (m : Bytes) : Bytes :=
  final ((chunksOf n m).foldl update init)

/-- RFC 1321 style specification: pad the whole message, then fold the compression function -/
def specPadded (m : Bytes) : Bytes :=
  let bits := 8 * m.length
  let r := m.length % 64
  let padlen := if r < 56 then 56 - r else 120 - r
  m ++ padding padlen ++ le64 bits

def spec (m : Bytes) : Bytes :=
  let r := blocks init.h (specPadded m)
  le32 r.1.a ++ le32 r.1.b ++ le32 r.1.c ++ le32 r.1.d

end Xmp.Md5
