import XmpProofs.Api
namespace Xmp.Api
open Xmp.Api.Gen
attribute [local simp] ERR_STATE ERR_INVALID ERR_INTERNAL ERR_SYSTEM ERR_FORMAT inRange isOneOf unchanged posIndex
  flagBitsKnown loadErrors testResults

theorem refines_chanMute (s : State) (e : Env) (chn status : Int) :
    Spec.ok s.toObs (.chanMute chn status) e (step s (.chanMute chn status) e).ret
      (step s (.chanMute chn status) e).state.toObs = true ∧ (step s (.chanMute chn status) e).fault = false := by
  simp only [step]
  split
  · simp_all [Spec.ok, Spec.cell, Cell.ok]
  · split
    · simp_all [Spec.ok, Spec.cell, Cell.ok]
    · rename_i h1 h2
      have hc : ¬ (chn < 0 ∨ 64 ≤ chn) := by simpa using h2
      have hs : ¬ s.st < 2 := by simpa using h1
      split
      · rename_i h3
        simp only [Spec.ok, Spec.cell, Cell.ok]
        by_cases hs2 : status = 2
        · subst hs2; simp [hc, hs]
        · have : ¬ status = 0 := by omega
          have : ¬ status = 1 := by omega
          have : ¬ status = -1 := by omega
          simp [hc, hs, *]
      · split
        · rename_i h3 h4
          simp only [Spec.ok, Spec.cell, Cell.ok]
          have : status = 0 ∨ status = 1 := by omega
          rcases this with h | h <;> subst h <;> simp [hc, hs]
        · rename_i h3 h4
          simp only [Spec.ok, Spec.cell, Cell.ok]
          by_cases hs2 : status = -1
          · subst hs2; simp [hc, hs]
          · have : ¬ status = 0 := by omega
            have : ¬ status = 1 := by omega
            have : ¬ status = 2 := by omega
            have : status < -1 := by omega
            simp [hc, hs, *]
end Xmp.Api
