import XmpModel.ApiSpec
namespace Xmp.Api
open Xmp.Api.Gen

def ApiInv (s : State) : Prop :=
  (s.st = 0 ∨ s.st = 1 ∨ s.st = 2) ∧ s.mute.length = 64 ∧ s.vol.length = 64 ∧
  0 ≤ s.sxChn ∧ s.sxChn ≤ 64 ∧ 0 ≤ s.sxIns ∧ s.sxIns ≤ 255 ∧ (s.sxAlive = false → s.sxChn = 0 ∧ s.sxIns = 0) ∧
  (1 ≤ s.st → 0 ≤ s.chn ∧ s.chn ≤ 64 ∧ 0 ≤ s.len ∧ s.len ≤ 256 ∧ 0 ≤ s.ins ∧ s.ins ≤ 255) ∧
  (s.st = 2 → s.chn + s.sxChn ≤ 64)

attribute [local simp] ERR_STATE ERR_INVALID ERR_INTERNAL ERR_SYSTEM ERR_FORMAT inRange isOneOf unchanged posIndex flagBitsKnown

theorem t_chanVol (s : State) (e : Env) (chn vol : Int) (hi : ApiInv s) :
    Spec.ok s.toObs (.chanVol chn vol) e (step s (.chanVol chn vol) e).ret (step s (.chanVol chn vol) e).state.toObs = true := by
  simp only [step]
  split
  · simp [Spec.ok, Spec.cell, Cell.ok, *]
  · split
    · simp [Spec.ok, Spec.cell, Cell.ok, *]
    · split <;> simp [Spec.ok, Spec.cell, Cell.ok, *] <;> omega

theorem t_setPlayer (s : State) (e : Env) (parm val : Int) (hi : ApiInv s) :
    Spec.ok s.toObs (.setPlayer parm val) e (step s (.setPlayer parm val) e).ret (step s (.setPlayer parm val) e).state.toObs = true := by
  simp only [step, setPlayer]
  repeat' split
  all_goals simp [Spec.ok, Spec.cell, Spec.setPlayer, Cell.ok, *]
  all_goals (try omega)
  all_goals trace_state
  all_goals sorry
end Xmp.Api
