import XmpProofs.Container
open Xmp Xmp.Md5
namespace Xmp.Md5

theorem update_init_count (m : Bytes) : (update init m).count = 8 * m.length := by
  rw [update_spec init m (by simp [init])]; simp [init]

/-- the buffered implementation computes the RFC 1321 style definition -/
theorem md5_eq_spec (m : Bytes) : md5 m = spec m := by
  unfold md5 final pad spec specPadded
  have hb : (update init m).buf.length < 64 := update_buf_lt init m (by simp [init])
  rw [update_update _ _ _ hb, update_update init m _ (by simp [init]), update_init_count]
  rw [update_spec init _ (by simp [init])]
  have hk : (if 64 - 8 * m.length / 8 % 64 < 1 + 8 then 64 - 8 * m.length / 8 % 64 + 64 else 64 - 8 * m.length / 8 % 64) - 8
      = (if m.length % 64 < 56 then 56 - m.length % 64 else 120 - m.length % 64) := by
    have : 8 * m.length / 8 = m.length := by omega
    rw [this]
    split <;> split <;> omega
  simp only [hk, init, List.nil_append, List.append_assoc]
end Xmp.Md5
