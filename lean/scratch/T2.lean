import XmpModel.ApiSpec
namespace Xmp.Api
open Xmp.Api.Gen

attribute [local simp] ERR_STATE ERR_INVALID ERR_INTERNAL ERR_SYSTEM ERR_FORMAT inRange isOneOf unchanged posIndex flagBitsKnown

macro "sp_one" : tactic => `(tactic| (
  simp [step, setPlayer, Spec.ok, Spec.cell, Spec.setPlayer, Cell.ok]
  repeat' split
  all_goals (simp_all <;> try omega)))

theorem t_setPlayer (s : State) (e : Env) (parm val : Int) :
    Spec.ok s.toObs (.setPlayer parm val) e (step s (.setPlayer parm val) e).ret (step s (.setPlayer parm val) e).state.toObs = true := by
  by_cases h0 : parm = 0
  · subst h0; sp_one
  by_cases h1 : parm = 1
  · subst h1; sp_one
  by_cases h13 : parm = 13
  · subst h13; sp_one
  sorry
end Xmp.Api
