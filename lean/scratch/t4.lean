import XmpModel.Container
open Xmp Xmp.Container Xmp.Gen.Depackers
namespace Xmp.Container

def Tok.outLen : Tok → Nat
  | .lit _ => 1
  | .lit90 => 1
  | .rep n => n.toNat - 1

def outLen (ts : List Tok) : Nat := (ts.map Tok.outLen).sum

theorem expandGo_length (ts : List Tok) (acc : Bytes) (last : UInt8) :
    (expandGo ts acc last).length = acc.length + outLen ts := by
  induction ts generalizing acc last with
  | nil => simp [expandGo, outLen]
  | cons t ts ih =>
    cases t <;> simp [expandGo, ih, outLen, Tok.outLen] <;> omega

theorem unrle90Go_render (ts : List Tok) (room : Nat) (acc : Bytes) (last : UInt8) (blk : Bool)
    (hok : ∀ t ∈ ts, t.Ok) (hroom : outLen ts ≤ room) :
    unrle90Go (render ts) room acc last false blk = some (room - outLen ts, expandGo ts acc last) := by
  induction ts generalizing room acc last blk with
  | nil => simp [render, unrle90Go, expandGo, outLen]
  | cons t ts ih =>
    have hok' : ∀ t ∈ ts, t.Ok := fun t ht => hok t (by simp [ht])
    have ht : t.Ok := hok t (by simp)
    cases t with
    | lit b =>
      have hb : b ≠ 0x90 := ht
      have hr : outLen ts + 1 ≤ room := by simpa [outLen, Tok.outLen, Nat.add_comm] using hroom
      have hpos : room > 0 := by omega
      have := ih (room - 1) (b :: acc) b true hok' (by omega)
      simp only [render, List.flatMap_cons, Tok.render, List.cons_append, List.nil_append] at this ⊢
      simp only [unrle90Go, hb, if_false, hpos, if_true, expandGo]
      rw [this]; simp [outLen, Tok.outLen]; omega
    | lit90 =>
      have hr : outLen ts + 1 ≤ room := by simpa [outLen, Tok.outLen, Nat.add_comm] using hroom
      have hpos : ¬ room = 0 := by omega
      have := ih (room - 1) (0x90 :: acc) 0x90 false hok' (by omega)
      simp only [render, List.flatMap_cons, Tok.render, List.cons_append, List.nil_append] at this ⊢
      simp only [unrle90Go, if_true, hpos, if_false, expandGo]
      rw [this]; simp [outLen, Tok.outLen]; omega
    | rep n =>
      have hn : n ≠ 0 := ht
      have hr : outLen ts + (n.toNat - 1) ≤ room := by simpa [outLen, Tok.outLen, Nat.add_comm] using hroom
      have hle : ¬ n.toNat - 1 > room := by omega
      have := ih (room - (n.toNat - 1)) (List.replicate (n.toNat - 1) last ++ acc) last false hok' (by omega)
      simp only [render, List.flatMap_cons, Tok.render, List.cons_append, List.nil_append] at this ⊢
      simp only [unrle90Go, if_true, hn, if_false, hle, expandGo]
      rw [this]; simp [outLen, Tok.outLen]; omega

/-- RLE90: decoding any well-formed token stream into a buffer of exactly the right size yields its meaning -/
theorem unrle90_render (ts : List Tok) (hok : ∀ t ∈ ts, t.Ok) :
    unrle90 (expand ts).length (render ts) = some (expand ts) := by
  have hl : (expand ts).length = outLen ts := by
    simp [expand, expandGo_length]
  unfold unrle90
  rw [hl, unrle90Go_render ts (outLen ts) [] 0 false hok (Nat.le_refl _)]
  simp [expand]

def Skipped (m : Member) : Prop := m.isDir = true ∨ m.supported = false ∨ excludeMatch m.name = true

theorem selectMember_skip (pre post : List Member) (m : Member)
    (hpre : ∀ x ∈ pre, Skipped x) (hm : ¬ Skipped m) :
    selectMember (pre ++ m :: post) = some m := by
  unfold selectMember
  induction pre with
  | nil =>
    simp only [List.nil_append, List.find?_cons]
    unfold Skipped at hm
    have : (!m.isDir && m.supported && !excludeMatch m.name) = true := by
      cases h1 : m.isDir <;> cases h2 : m.supported <;> cases h3 : excludeMatch m.name <;> simp_all
    simp [this]
  | cons x pre ih =>
    have hx : Skipped x := hpre x (by simp)
    have : (!x.isDir && x.supported && !excludeMatch x.name) = false := by
      unfold Skipped at hx
      cases h1 : x.isDir <;> cases h2 : x.supported <;> cases h3 : excludeMatch x.name <;> simp_all
    simp only [List.cons_append, List.find?_cons, this]
    exact ih (fun y hy => hpre y (by simp [hy]))
end Xmp.Container
