import XmpModel.Container
open Xmp Xmp.Container Xmp.Gen.Depackers
namespace Xmp.Container

def mkFlg (t h e n c : Bool) (r : Nat) : Nat :=
  (if t then gzFTEXT else 0) + (if h then gzFHCRC else 0) + (if e then gzFEXTRA else 0) +
  (if n then gzFNAME else 0) + (if c then gzFCOMMENT else 0) + 32 * (r % 8)

theorem flg_bits : ∀ (t h e n c : Bool) (r : Fin 8),
    hasFlag (UInt8.ofNat (mkFlg t h e n c r.val)) gzFEXTRA = e ∧
    hasFlag (UInt8.ofNat (mkFlg t h e n c r.val)) gzFNAME = n ∧
    hasFlag (UInt8.ofNat (mkFlg t h e n c r.val)) gzFCOMMENT = c ∧
    hasFlag (UInt8.ofNat (mkFlg t h e n c r.val)) gzFHCRC = h := by decide

theorem flg_eq (o : GzOpts) :
    o.flg = mkFlg o.ftext o.hcrc.isSome o.extra.isSome o.name.isSome o.comment.isSome (o.reserved % 8) := by
  simp [GzOpts.flg, mkFlg]

theorem flg_bits' (o : GzOpts) :
    hasFlag (UInt8.ofNat o.flg) gzFEXTRA = o.extra.isSome ∧
    hasFlag (UInt8.ofNat o.flg) gzFNAME = o.name.isSome ∧
    hasFlag (UInt8.ofNat o.flg) gzFCOMMENT = o.comment.isSome ∧
    hasFlag (UInt8.ofNat o.flg) gzFHCRC = o.hcrc.isSome := by
  rw [flg_eq]
  exact flg_bits o.ftext o.hcrc.isSome o.extra.isSome o.name.isSome o.comment.isSome ⟨o.reserved % 8, by omega⟩

theorem skipZ_append (n rest : Bytes) (hn : noNul n) : skipZ (n ++ 0 :: rest) = some rest := by
  induction n with
  | nil => simp [skipZ]
  | cons c n ih =>
    have hc : c ≠ 0 := hn c (by simp)
    have hn' : noNul n := fun x hx => hn x (by simp [hx])
    simp [skipZ, hc, ih hn']

theorem u16le_le16 (n : Nat) (h : n < 65536) :
    u16le (UInt8.ofNat (n % 256)) (UInt8.ofNat (n / 256 % 256)) = n := by
  simp [u16le, UInt8.toNat_ofNat']
  omega

theorem u32At_le32 (n : Nat) (h : n < 2^32) (r : Bytes) : u32At (le32 n ++ r) 0 = n := by
  simp [u32At, le32, u32le, UInt8.toNat_ofNat']
  omega

theorem u32At_le32_4 (m n : Nat) (h : n < 2^32) (r : Bytes) : u32At (le32 m ++ (le32 n ++ r)) 4 = n := by
  simp [u32At, le32, u32le, UInt8.toNat_ofNat']
  omega

/-- the header parser skips exactly the header, for every legal option combination -/
theorem gzipBody_header (o : GzOpts) (ho : o.Legal) (rest : Bytes) :
    gzipBody (gzipHeader o ++ rest) = some rest := by
  obtain ⟨hE, hN, hC, hH⟩ := flg_bits' o
  obtain ⟨lE, lN, lC⟩ := ho
  unfold gzipBody gzipHeader
  simp only [le32, List.cons_append, List.nil_append, List.append_assoc]
  simp only [hE, hN, hC, hH, ne_eq, not_true_eq_false, if_false]
  have e1 : ∀ X : Bytes, (if o.extra.isSome = true then
       gzSkipExtra (optField o.extra (fun e => le16 e.length ++ e) ++ X)
     else some (optField o.extra (fun e => le16 e.length ++ e) ++ X)) = some X := by
    intro X
    rcases hx : o.extra with _ | e
    · simp [optField]
    · have := lE e hx
      simp [optField, le16, gzSkipExtra, u16le_le16 _ this]
  have e2 : ∀ X : Bytes, (if o.name.isSome = true then skipZ (optField o.name (fun n => n ++ [0]) ++ X)
      else some (optField o.name (fun n => n ++ [0]) ++ X)) = some X := by
    intro X
    rcases hx : o.name with _ | n
    · simp [optField]
    · simp [optField, skipZ_append n X (lN n hx)]
  have e3 : ∀ X : Bytes, (if o.comment.isSome = true then skipZ (optField o.comment (fun n => n ++ [0]) ++ X)
      else some (optField o.comment (fun n => n ++ [0]) ++ X)) = some X := by
    intro X
    rcases hx : o.comment with _ | n
    · simp [optField]
    · simp [optField, skipZ_append n X (lC n hx)]
  have e4 : ∀ X : Bytes, (if o.hcrc.isSome = true then gzSkip2 (hcrcField o.hcrc ++ X)
      else some (hcrcField o.hcrc ++ X)) = some X := by
    intro X
    rcases hx : o.hcrc with _ | ⟨a, b⟩
    · simp [hcrcField]
    · simp [hcrcField, gzSkip2]
  rw [e1]
  simp only [bind, Option.bind]
  rw [e2]
  simp only []
  rw [e3]
  simp only []
  rw [e4]

theorem u32At_le32_4' (m n : Nat) (h : n < 2^32) : u32At (le32 m ++ le32 n) 4 = n := by
  simp [u32At, le32, u32le, UInt8.toNat_ofNat']
  omega

theorem le32_length (n : Nat) : (le32 n).length = 4 := rfl

theorem gunzip_wrap (crc : Bytes → UInt32) (dec : Bytes → Option Bytes) (o : GzOpts) (cdata p : Bytes)
    (ho : o.Legal) (hp : p.length < 2^31) :
    gunzip crc dec (gzipWrap crc o cdata p) =
      (match dec cdata with
       | none => none
       | some out => if crc out = crc p ∧ out.length = p.length then some out else none) := by
  unfold gunzip gzipWrap
  rw [List.append_assoc, List.append_assoc, gzipBody_header o ho]
  have hl : (cdata ++ (le32 (crc p).toNat ++ le32 p.length)).length - 8 = cdata.length := by
    simp [le32_length]
  have hn : ¬ (cdata ++ (le32 (crc p).toNat ++ le32 p.length)).length < 8 := by
    simp [le32_length]
  simp only [hn, if_false, hl, List.take_left', List.drop_left']
  rcases dec cdata with _ | out
  · rfl
  · have hc : (crc p).toNat < 2^32 := (crc p).toNat_lt
    simp only [gzipGate, u32At_le32 _ hc, u32At_le32_4' _ _ (by omega : p.length < 2^32)]
    by_cases h1 : crc out = crc p
    · by_cases h2 : out.length = p.length
      · simp [h1, h2, hp]
      · have : ¬ p.length = out.length := fun h => h2 h.symm
        simp [h1, h2, this]
    · have : ¬ (crc p).toNat = (crc out).toNat := fun h => h1 (UInt32.toNat_inj.mp h.symm)
      simp [h1, this]

theorem gzipStream_wrap (crc : Bytes → UInt32) (o : GzOpts) (cdata p : Bytes) (ho : o.Legal) :
    gzipStream (gzipWrap crc o cdata p) = some ((gzipHeader o).length, cdata.length) := by
  unfold gzipStream gzipWrap
  rw [List.append_assoc, List.append_assoc, gzipBody_header o ho]
  simp [le32_length]

theorem bAt_sniff (f : Bytes) (i : Nat) (h : i < sniffSize) : bAt (sniff f) i = bAt f i := by
  unfold bAt sniff
  simp [List.getD_eq_getElem?_getD, h]

theorem dispatch_gzip (crc : Bytes → UInt32) (o : GzOpts) (cdata p : Bytes)
    (hlen : minHeaderSize ≤ (gzipWrap crc o cdata p).length) :
    dispatch (gzipWrap crc o cdata p) = some "gzip" := by
  have h0 : bAt (sniff (gzipWrap crc o cdata p)) 0 = 31 := by
    rw [bAt_sniff _ _ (by decide)]; simp [bAt, gzipWrap, gzipHeader]
  have h1 : bAt (sniff (gzipWrap crc o cdata p)) 1 = 139 := by
    rw [bAt_sniff _ _ (by decide)]; simp [bAt, gzipWrap, gzipHeader]
  have h2 : bAt (sniff (gzipWrap crc o cdata p)) 2 = 8 := by
    rw [bAt_sniff _ _ (by decide)]; simp [bAt, gzipWrap, gzipHeader]
  have hs : ¬ (sniff (gzipWrap crc o cdata p)).length < minHeaderSize := by
    have hm : minHeaderSize ≤ sniffSize := by decide
    unfold sniff; simp only [List.length_take]; omega
  unfold dispatch
  simp only [hs, if_false]
  simp [depackerList, List.find?, evalMagic, h0, h1, h2]
end Xmp.Container
