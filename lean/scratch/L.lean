example (l : List Int) (i : Nat) (h : ∀ x ∈ l, 0 ≤ x) : 0 ≤ l.getD i 0 := by
  rw [List.getD_eq_getElem?_getD]
  cases hh : l[i]? with
  | none => simp
  | some v => simp; exact h v (List.mem_of_getElem? hh)
example (l : List Int) (i : Nat) (v : Int) (h1 : i < l.length) : (l.set i v).getD i 0 = v := by
  simp [List.getD_eq_getElem?_getD, List.getElem?_set_self h1]
