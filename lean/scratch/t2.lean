import XmpModel.Container
open Xmp Xmp.Container Xmp.Gen.Depackers

def mkFlg (t h e n c : Bool) (r : Nat) : Nat :=
  (if t then gzFTEXT else 0) + (if h then gzFHCRC else 0) + (if e then gzFEXTRA else 0) +
  (if n then gzFNAME else 0) + (if c then gzFCOMMENT else 0) + 32 * (r % 8)

theorem flg_bits : ∀ (t h e n c : Bool) (r : Fin 8),
    hasFlag (UInt8.ofNat (mkFlg t h e n c r.val)) gzFEXTRA = e ∧
    hasFlag (UInt8.ofNat (mkFlg t h e n c r.val)) gzFNAME = n ∧
    hasFlag (UInt8.ofNat (mkFlg t h e n c r.val)) gzFCOMMENT = c ∧
    hasFlag (UInt8.ofNat (mkFlg t h e n c r.val)) gzFHCRC = h := by decide

theorem skipZ_append (n rest : Bytes) (hn : noNul n) : skipZ (n ++ 0 :: rest) = some rest := by
  induction n with
  | nil => simp [skipZ]
  | cons c n ih =>
    have hc : c ≠ 0 := hn c (by simp)
    have hn' : noNul n := fun x hx => hn x (by simp [hx])
    simp [skipZ, hc, ih hn']

theorem u16le_le16 (n : Nat) (h : n < 65536) (r : Bytes) :
    ∃ x0 x1, le16 n = [x0, x1] ∧ u16le x0 x1 = n := by
  refine ⟨_, _, rfl, ?_⟩
  simp [u16le, UInt8.toNat_ofNat']
  omega
#check @UInt8.toNat_ofNat'
