import XmpProofs.Api
namespace Xmp.Api
open Xmp.Api.Gen

/-! ## read-back over call histories -/

@[simp] theorem endPlayer_flags (s : State) : (endPlayer s).flags = s.flags := by unfold endPlayer; split <;> rfl
@[simp] theorem release_flags (s : State) : (release s).flags = s.flags := by unfold release; split <;> simp
@[simp] theorem endPlayer_smpctl (s : State) : (endPlayer s).smpctl = s.smpctl := by unfold endPlayer; split <;> rfl
@[simp] theorem release_smpctl (s : State) : (release s).smpctl = s.smpctl := by unfold release; split <;> simp
@[simp] theorem endPlayer_defpan (s : State) : (endPlayer s).defpan = s.defpan := by unfold endPlayer; split <;> rfl
@[simp] theorem release_defpan (s : State) : (release s).defpan = s.defpan := by unfold release; split <;> simp
@[simp] theorem endPlayer_voices (s : State) : (endPlayer s).voices = s.voices := by unfold endPlayer; split <;> rfl
@[simp] theorem release_voices (s : State) : (release s).voices = s.voices := by unfold release; split <;> simp
@[simp] theorem endPlayer_cflags (s : State) : (endPlayer s).cflags = s.cflags := by unfold endPlayer; split <;> rfl
@[simp] theorem release_cflags (s : State) : (release s).cflags = s.cflags := by unfold release; split <;> simp
@[simp] theorem endPlayer_mode (s : State) : (endPlayer s).mode = s.mode := by unfold endPlayer; split <;> rfl
@[simp] theorem release_mode (s : State) : (release s).mode = s.mode := by unfold release; split <;> simp
@[simp] theorem endPlayer_amp (s : State) : (endPlayer s).amp = s.amp := by unfold endPlayer; split <;> rfl
@[simp] theorem release_amp (s : State) : (release s).amp = s.amp := by unfold release; split <;> simp
@[simp] theorem endPlayer_mix (s : State) : (endPlayer s).mix = s.mix := by unfold endPlayer; split <;> rfl
@[simp] theorem release_mix (s : State) : (release s).mix = s.mix := by unfold release; split <;> simp
@[simp] theorem endPlayer_interp (s : State) : (endPlayer s).interp = s.interp := by unfold endPlayer; split <;> rfl
@[simp] theorem release_interp (s : State) : (release s).interp = s.interp := by unfold release; split <;> simp
@[simp] theorem endPlayer_dsp (s : State) : (endPlayer s).dsp = s.dsp := by unfold endPlayer; split <;> rfl
@[simp] theorem release_dsp (s : State) : (release s).dsp = s.dsp := by unfold release; split <;> simp
@[simp] theorem endPlayer_volume (s : State) : (endPlayer s).volume = s.volume := by unfold endPlayer; split <;> rfl
@[simp] theorem release_volume (s : State) : (release s).volume = s.volume := by unfold release; split <;> simp
@[simp] theorem endPlayer_smixVol (s : State) : (endPlayer s).smixVol = s.smixVol := by unfold endPlayer; split <;> rfl
@[simp] theorem release_smixVol (s : State) : (release s).smixVol = s.smixVol := by unfold release; split <;> simp
@[simp] theorem endPlayer_mute (s : State) : (endPlayer s).mute = s.mute := by unfold endPlayer; split <;> rfl
@[simp] theorem release_mute (s : State) : (release s).mute = s.mute := by unfold release; split <;> simp
@[simp] theorem endPlayer_vol (s : State) : (endPlayer s).vol = s.vol := by unfold endPlayer; split <;> rfl
@[simp] theorem release_vol (s : State) : (release s).vol = s.vol := by unfold release; split <;> simp
@[simp] theorem endPlayer_chn (s : State) : (endPlayer s).chn = s.chn := by unfold endPlayer; split <;> rfl
@[simp] theorem release_chn (s : State) : (release s).chn = s.chn := by unfold release; split <;> simp
@[simp] theorem endPlayer_len (s : State) : (endPlayer s).len = s.len := by unfold endPlayer; split <;> rfl
@[simp] theorem release_len (s : State) : (release s).len = s.len := by unfold release; split <;> simp
@[simp] theorem endPlayer_ins (s : State) : (endPlayer s).ins = s.ins := by unfold endPlayer; split <;> rfl
@[simp] theorem release_ins (s : State) : (release s).ins = s.ins := by unfold release; split <;> simp
@[simp] theorem endPlayer_sxChn (s : State) : (endPlayer s).sxChn = s.sxChn := by unfold endPlayer; split <;> rfl
@[simp] theorem release_sxChn (s : State) : (release s).sxChn = s.sxChn := by unfold release; split <;> simp
@[simp] theorem endPlayer_sxIns (s : State) : (endPlayer s).sxIns = s.sxIns := by unfold endPlayer; split <;> rfl
@[simp] theorem release_sxIns (s : State) : (release s).sxIns = s.sxIns := by unfold release; split <;> simp
@[simp] theorem release_st (s : State) : (release s).st = 0 := by unfold release; split <;> simp


/-- one executed call: the context before it, the call, its external inputs and what it returned -/
structure Event where
  pre : State
  c : Call
  e : Env
  ret : Int

/-- run a history from `s`, recording the executed calls (most recent first) -/
def exec : State → List Event → List (Call × Env) → State × List Event
  | s, evs, [] => (s, evs)
  | s, evs, (c, e) :: rest => exec (step s c e).state (⟨s, c, e, (step s c e).ret⟩ :: evs) rest

def creationDefault (p : Int) : Option Int :=
  if p = XMP_PLAYER_DEFPAN then some 100 else if p = XMP_PLAYER_VOICES then some SMIX_NUMVOC
  else if p = XMP_PLAYER_FLAGS then some 0 else if p = XMP_PLAYER_SMPCTL then some 0 else none

def startDefault (p : Int) : Option Int :=
  if p = XMP_PLAYER_AMP then some DEFAULT_AMPLIFY else if p = XMP_PLAYER_MIX then some DEFAULT_MIX
  else if p = XMP_PLAYER_INTERP then some XMP_INTERP_LINEAR else if p = XMP_PLAYER_DSP then some XMP_DSP_LOWPASS
  else if p = XMP_PLAYER_VOLUME then some 100 else if p = XMP_PLAYER_SMIX_VOLUME then some 100 else none

/-- the value event `ev` establishes for parameter `p`: context creation, a successful `xmp_start_player`
    (per-run defaults), a successful load (module flags and personality) or a successful `xmp_set_player` -/
def establishes (p : Int) (ev : Event) : Option Int :=
  match ev.c with
  | .recreate => creationDefault p
  | .setPlayer q v => if q = p ∧ ev.ret = 0 then some v else none
  | .start _ _ => if ev.ret = 0 then startDefault p else none
  | .load _ _ =>
    if ev.ret = 0 then
      (if p = XMP_PLAYER_CFLAGS then some ev.e.mcflags else if p = XMP_PLAYER_MODE then some ev.e.mmode else none)
    else none
  | _ => none

/-- default established by creation/start/load, or the last value successfully set since -/
def expected (p : Int) : List Event → Option Int
  | [] => creationDefault p
  | ev :: rest => match establishes p ev with
    | some v => some v
    | none => expected p rest

def Rel (s : State) (evs : List Event) : Prop :=
  expected XMP_PLAYER_FLAGS evs = some s.flags ∧ expected XMP_PLAYER_SMPCTL evs = some s.smpctl ∧
  expected XMP_PLAYER_DEFPAN evs = some s.defpan ∧ expected XMP_PLAYER_VOICES evs = some s.voices ∧
  (1 ≤ s.st → expected XMP_PLAYER_CFLAGS evs = some s.cflags ∧ expected XMP_PLAYER_MODE evs = some s.mode) ∧
  (s.st = 2 → expected XMP_PLAYER_AMP evs = some s.amp ∧ expected XMP_PLAYER_MIX evs = some s.mix ∧
              expected XMP_PLAYER_INTERP evs = some s.interp ∧ expected XMP_PLAYER_DSP evs = some s.dsp ∧
              expected XMP_PLAYER_VOLUME evs = some s.volume ∧ expected XMP_PLAYER_SMIX_VOLUME evs = some s.smixVol)

macro "rel_auto" : tactic => `(tactic| (
  unfold Rel ApiInv at *
  simp [expected, establishes, creationDefault, startDefault, step, startPlayer, loadModule, release, endPlayer, smixPlay,
        EnvOk, State.init, isOneOf, inRange, loadErrors, ERR_STATE, ERR_INVALID, ERR_INTERNAL, ERR_SYSTEM, ERR_FORMAT] at *
  repeat' split
  all_goals (simp_all <;> try omega)))

theorem rel_load (s : State) (evs : List Event) (e : Env) (k : LoadKind) (size : Int) (hi : ApiInv s) (hr : Rel s evs)
    (he : EnvOk s (.load k size) e = true) :
    Rel (step s (.load k size) e).state (⟨s, .load k size, e, (step s (.load k size) e).ret⟩ :: evs) := by
  unfold Rel ApiInv at *
  simp only [step, loadModule]
  repeat' split
  all_goals (simp_all [expected, establishes, EnvOk, isOneOf, inRange, loadErrors, ERR_INVALID] <;> try omega)
  all_goals (try have h0 : ¬ e.res = 0 := by omega)
  all_goals (simp_all <;> try omega)

theorem rel_start (s : State) (evs : List Event) (e : Env) (r f : Int) (hi : ApiInv s) (hr : Rel s evs)
    (he : EnvOk s (.start r f) e = true) :
    Rel (step s (.start r f) e).state (⟨s, .start r f, e, (step s (.start r f) e).ret⟩ :: evs) := by
  rel_auto
end Xmp.Api
