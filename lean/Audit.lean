/-
  Audit meta-program: for every module given on the command line, list each
  theorem declared in that module (and in the modules of this package that it
  imports transitively) together with the axioms its proof depends on.

  usage: lake env lean --run Audit.lean XmpProps.C12 [more modules…]
  output: one line per theorem
     THM <module> <name> <axiom,axiom,…|->
  and one line per definition that is `partial`/`unsafe`/implemented_by:
     DEF <module> <name> <flags>
-/
import Lean
open Lean

def ourPrefix (n : Name) : Bool :=
  let r := n.getRoot
  r == `XmpModel || r == `XmpProofs || r == `XmpProps

partial def closure (env : Environment) (todo : List Name) (seen : NameSet) : NameSet :=
  match todo with
  | [] => seen
  | m :: rest =>
    if seen.contains m then closure env rest seen else
    let seen := seen.insert m
    match env.getModuleIdx? m with
    | none => closure env rest seen
    | some idx =>
      let imps := (env.header.moduleData[idx.toNat]!).imports.toList.map (·.module)
      closure env (imps.filter ourPrefix ++ rest) seen

/-- Our own transitive axiom collection over the kernel environment (does not
    rely on the pre-computed per-module axiom tables). -/
partial def axiomsOf (env : Environment) (c : Name) : StateM (NameMap NameSet) NameSet := do
  if let some r := (← get).find? c then return r
  modify (·.insert c {})
  let exprs : List Expr := match env.find? c with
    | some (.axiomInfo v)  => [v.type]
    | some (.defnInfo v)   => [v.type, v.value]
    | some (.thmInfo v)    => [v.type, v.value]
    | some (.opaqueInfo v) => [v.type, v.value]
    | some (.ctorInfo v)   => [v.type]
    | some (.recInfo v)    => [v.type]
    | some (.inductInfo v) => [v.type]
    | _ => []
  let mut acc : NameSet := {}
  if let some (.axiomInfo _) := env.find? c then acc := acc.insert c
  for e in exprs do
    for d in e.getUsedConstants do
      let r ← axiomsOf env d
      acc := r.foldl (fun a x => a.insert x) acc
  modify (·.insert c acc)
  return acc

def main (args : List String) : IO UInt32 := do
  initSearchPath (← findSysroot)
  let mods := args.map String.toName
  let env ← importModules (mods.toArray.map (fun m => { module := m })) {}
  let want := closure env mods {}
  let mut n := 0
  let mut cache : NameMap NameSet := {}
  for (name, ci) in env.constants.map₁.toList do
    match env.getModuleIdxFor? name with
    | none => pure ()
    | some idx =>
      let m := env.header.moduleNames[idx.toNat]!
      if want.contains m then
        match ci with
        | .thmInfo _ =>
          if name.isInternal then pure () else
          let (axs, cache') := (axiomsOf env name).run cache
          cache := cache'
          let s := if axs.isEmpty then "-" else ",".intercalate (axs.toList.map toString)
          IO.println s!"THM {m} {name} {s}"
          n := n + 1
        | .axiomInfo _ => IO.println s!"AXIOM {m} {name}"
        | .opaqueInfo v =>
          if name.isInternal then pure () else
          IO.println s!"DEF {m} {name} opaque{if v.isUnsafe then ",unsafe" else ""}"
        | .defnInfo v =>
          if name.isInternal then pure () else
          if v.safety != .safe then IO.println s!"DEF {m} {name} {if v.safety == .unsafe then "unsafe" else "partial"}"
        | _ => pure ()
  IO.println s!"COUNT {n}"
  return 0
