import XmpModel.MixWindow
/-! Driver for the C01 window correspondence: evaluates the model's `windowOk`
and the hypotheses of `C01_window_forward` / `C01_window_reverse` on kernel calls
recorded by harness/c01_window.c. -/
open Xmp.MixWindow

def hypForward (D pn sn q0 stepfix e len r : Int) (samples : Nat) : Bool :=
  decide (0 < D) && decide (0 ≤ sn) && decide (0 ≤ q0) && decide (0 ≤ stepfix) &&
  decide (q0 * D ≤ S * pn + r * D) && decide (stepfix * D ≤ S * sn) && decide (e ≤ len) &&
  decide (((samples : Int) - 1) * sn < e * D - pn)

def hypReverse (D pn sn q0 stepfix st len : Int) (samples : Nat) : Bool :=
  decide (0 < D) && decide (0 ≤ sn) && decide (0 ≤ st) && decide (stepfix ≤ 0) &&
  decide (S * pn - D < q0 * D) && decide (-(S * sn) ≤ stepfix * D) && decide (q0 < (len + 2) * S) &&
  decide (((samples : Int) - 1) * sn < pn - st * D)

structure WAcc where
  total : Nat := 0
  bad : Nat := 0
  hyp : Nat := 0
  nohyp : Nat := 0
  rev : Nat := 0
  firstBad : List String := []

partial def loop (h : IO.FS.Stream) (a : WAcc) : IO WAcc := do
  let line ← h.getLine
  if line.isEmpty then return a
  let ws := line.trimAscii.toString.splitOn " "
  match ws with
  | ["w", q0, step, count, interp, len, rev, pn, sn, bound, d] =>
    let q0 := q0.toInt?.getD 0
    let step := step.toInt?.getD 0
    let count := count.toNat?.getD 0
    let interp := interp.toNat?.getD 1
    let len := len.toInt?.getD 0
    let rev := rev == "1"
    let pn := pn.toInt?.getD 0
    let sn := sn.toInt?.getD 0
    let bound := bound.toInt?.getD 0
    let d := d.toInt?.getD 1
    let ok := windowOk q0 step count interp len
    -- the nearest-neighbour rounding offset is already inside q0: r = 2^15 there, else 0
    let r : Int := if interp == 0 then 32768 else 0
    let hyp := if rev then hypReverse d pn sn (q0 - r) step bound len count || hypReverse d pn sn q0 step bound len count
               else hypForward d pn sn q0 step bound len r count
    let a := { a with total := a.total + 1, rev := a.rev + (if rev then 1 else 0),
                      hyp := a.hyp + (if hyp then 1 else 0), nohyp := a.nohyp + (if hyp then 0 else 1) }
    if ok then loop h a
    else loop h { a with bad := a.bad + 1, firstBad := if a.firstBad.length < 5 then a.firstBad ++ [line.trimAscii.toString] else a.firstBad }
  | _ => loop h a

def main : IO Unit := do
  let a ← loop (← IO.getStdin) {}
  IO.println s!"total {a.total} bad {a.bad} hyp {a.hyp} nohyp {a.nohyp} reverse {a.rev}"
  for l in a.firstBad do IO.println s!"badline {l}"
