import XmpModel.MixWindow
import XmpModel.VoicePos
import XmpModel.Gen.MixerVoice
/-! Driver for the C01 correspondence.

* `w` lines (kernel calls recorded by harness/c01_window.c): evaluates the model's
  `windowOk` and the hypotheses of `C01_window_forward` / `C01_window_reverse`.
* `T/L/K/E` lines (exact voice states around the tick prologue and every iteration of
  the segment loop) and `P/p A/a R/r Z/z` lines (voicepos, setpatch, reverse, release):
  recomputes every observed transition with XmpModel.VoicePos (`tickStart`, `segStep`,
  `voicepos`, `setpatch`, `reverse`, `release`, `q0Of`, `stepfixOf`, `samplesOf`) and
  evaluates `voiceInv`, `smpOk` and `callOk` on every observed loop-top state.

Positions are exact dyadic rationals over `D = 2^62`; the C code rounds to double after
every operation, so positions are compared with tolerance `2^-18` frame and a transition
that only matches with `samples ± 1` or a position nudged by the tolerance is counted as a
floating-point divergence (`fp`), not as a mismatch. -/
open Xmp.MixWindow Xmp.VoicePos

def hypForward (D pn sn q0 stepfix e len r : Int) (samples : Nat) : Bool :=
  decide (0 < D) && decide (0 ≤ sn) && decide (0 ≤ q0) && decide (0 ≤ stepfix) &&
  decide (q0 * D ≤ S * pn + r * D) && decide (stepfix * D ≤ S * sn) && decide (e ≤ len) &&
  decide (((samples : Int) - 1) * sn < e * D - pn)

def hypReverse (D pn sn q0 stepfix st len : Int) (samples : Nat) : Bool :=
  decide (0 < D) && decide (0 ≤ sn) && decide (0 ≤ st) && decide (stepfix ≤ 0) &&
  decide (S * pn - D < q0 * D) && decide (-(S * sn) ≤ stepfix * D) && decide (q0 < (len + 2) * S) &&
  decide (((samples : Int) - 1) * sn < pn - st * D)

def DD : Int := 4611686018427387904      -- 2^62
def tol : Int := 17592186044416          -- 2^44 = D / 2^18

structure DAcc where
  total : Nat := 0
  bad : Nat := 0
  hyp : Nat := 0
  nohyp : Nat := 0
  rev : Nat := 0
  firstBad : List String := []
  -- voice states
  tickOk : Nat := 0
  tickBad : Nat := 0
  stepOk : Nat := 0
  stepFp : Nat := 0
  stepBad : Nat := 0
  stepRev : Nat := 0
  stepRepos : Nat := 0
  stepSwap : Nat := 0
  endOk : Nat := 0
  endFp : Nat := 0
  endBad : Nat := 0
  endSkip : Nat := 0
  invOk : Nat := 0
  invTol : Nat := 0
  invBad : Nat := 0
  smpBad : Nat := 0
  noData : Nat := 0
  callOkN : Nat := 0
  callBad : Nat := 0
  kOk : Nat := 0
  kFp : Nat := 0
  kBad : Nat := 0
  apiOk : Nat := 0
  apiBad : Nat := 0
  apiSkip : Nat := 0
  msgs : List String := []
  -- per-voice tick context: voc ↦ (env, last loop-top state, size, usmp, ticksize)
  ctx : List (Nat × Env × Option (Voice × Nat × Nat)) := []
  pending : Option (String × Voice × Env × Bool × Int × Option Smp) := none   -- API pre line

def DAcc.msg (a : DAcc) (m : String) : DAcc :=
  if a.msgs.length < 12 then { a with msgs := a.msgs ++ [(m.replace "\n" " ").replace "  " " "] } else a

def tI (s : String) : Int := s.toInt?.getD 0
def tB (s : String) : Bool := s == "1"

/-- parses `S valid len lps lpe sus sue loop lbidir lfull sloop sbidir ismod synth hasdata` (15 tokens) -/
def parseSmp (t : List String) : Option (Bool × Smp) :=
  match t with
  | "S" :: valid :: len :: lps :: lpe :: sus :: sue :: loop :: lb :: lf :: sl :: sb :: im :: sy :: hd :: _ =>
    some (tB valid, { len := tI len, lps := tI lps, lpe := tI lpe, sus := tI sus, sue := tI sue, loop := tB loop,
                      lbidir := tB lb, lfull := tB lf, sloop := tB sl, sbidir := tB sb, isMod := tB im, synth := tB sy,
                      hasData := tB hd })
  | _ => none

/-- parses `V hi lo start end release sloopf rev bidir queued paused active chn S…` (13 + 15 tokens);
returns the voice, whether its sample index was valid, and the channel -/
def parseVoice (t : List String) : Option (Voice × Bool × Int) :=
  match t with
  | "V" :: hi :: lo :: st :: en :: rel :: sl :: rev :: bd :: qu :: pa :: ac :: chn :: rest =>
    match parseSmp rest with
    | some (valid, s) =>
      some ({ smp := s, pos := tI hi * DD + tI lo, start := tI st, end_ := tI en, release := tB rel, sloopf := tB sl,
              rev := tB rev, bidir := tB bd, queued := tB qu, paused := tB pa, active := tB ac }, valid, tI chn)
    | none => none
  | _ => none

def approx (a b : Int) : Bool := (a - b).natAbs ≤ tol.natAbs

/-- model state vs observed state: everything exact except the position -/
def sameVoice (m o : Voice) : Bool :=
  m.smp == o.smp && m.start == o.start && m.end_ == o.end_ && m.release == o.release && m.sloopf == o.sloopf &&
  m.rev == o.rev && m.bidir == o.bidir && m.queued == o.queued && m.paused == o.paused && m.active == o.active &&
  approx m.pos o.pos

def ctxGet (a : DAcc) (voc : Nat) : Option (Env × Option (Voice × Nat × Nat)) :=
  (a.ctx.find? (fun x => x.1 == voc)).map (fun x => x.2)

def ctxSet (a : DAcc) (voc : Nat) (e : Env) (s : Option (Voice × Nat × Nat)) : DAcc :=
  { a with ctx := (voc, e, s) :: a.ctx.filter (fun x => x.1 != voc) }

def ctxDel (a : DAcc) (voc : Nat) : DAcc := { a with ctx := a.ctx.filter (fun x => x.1 != voc) }

/-- candidate sample counts / nudged positions used to classify floating-point divergences -/
def altSteps (env : Env) (v : Voice) (size usmp : Nat) : List Step :=
  let nudges : List Int := [0, tol, -tol]
  nudges.foldr (fun d acc =>
    let v' := { v with pos := v.pos + d }
    let base := samplesOf env v' size
    let ns : List (Option Nat) := match base with
      | none => [none, some 1]
      | some n => [some n, some (n - 1), some (n + 1), none]
    ns.map (fun n => segStepWith env v' size usmp n) ++ acc) []

def invTolOk (env : Env) (v : Voice) : Bool :=
  voiceInvD env { v with pos := v.pos + tol } || voiceInvD env { v with pos := v.pos - tol }

def observeState (a : DAcc) (env : Env) (v : Voice) (size : Nat) (line : String) : DAcc :=
  -- SmpOk is claimed (and needed) only for samples that have data
  let a := if !v.smp.hasData then { a with noData := a.noData + 1 } else a
  let a := if !v.smp.hasData || smpOk v.smp then a
           else (a.msg ("smpOk fails: " ++ line)) |> fun a => { a with smpBad := a.smpBad + 1 }
  let a := if voiceInvD env v then { a with invOk := a.invOk + 1 }
           else if invTolOk env v then { a with invTol := a.invTol + 1 }
           else ({ a with invBad := a.invBad + 1 }).msg ("voiceInv fails: " ++ line)
  -- the window of the call the model predicts from this state (interp 2 = widest taps)
  -- frames the loop wrap-around patching touches (C01_wraparound_window), with the generated LOOP_PROLOGUE/EPILOGUE
  let pro := Xmp.Gen.MixerVoice.loopPrologue
  let epi := Xmp.Gen.MixerVoice.loopEpilogue
  let wrapOk := !v.smp.loop || (decide (-1 ≤ wrapLo v pro epi) && decide (wrapHi v pro epi ≤ v.smp.len + 3))
  if callOk env 2 v size && callOk env 0 v size && wrapOk then { a with callOkN := a.callOkN + 1 }
  else ({ a with callBad := a.callBad + 1 }).msg ("callOk / wrap-around window fails: " ++ line)

def handleStep (a : DAcc) (env : Env) (prev : Voice × Nat × Nat) (next : Voice) (nsize nusmp : Nat) (line : String) : DAcc :=
  let (v, size, usmp) := prev
  let a := if v.rev then { a with stepRev := a.stepRev + 1 } else a
  let a := if next.smp == v.smp && !v.queued then { a with stepRepos := a.stepRepos + 1 } else a
  let a := if v.queued then { a with stepSwap := a.stepSwap + 1 } else a
  let good (s : Step) : Bool := match s with
    | .cont v' s' u' => sameVoice v' next && s' == nsize && u' == nusmp
    | _ => false
  if good (segStep env v size usmp) then { a with stepOk := a.stepOk + 1 }
  else if (altSteps env v size usmp).any good then { a with stepFp := a.stepFp + 1 }
  else ({ a with stepBad := a.stepBad + 1 }).msg
    ("segStep mismatch: model " ++ reprStr (segStep env v size usmp) ++ " observed: " ++ line)

def handleEnd (a : DAcc) (env : Env) (prev : Voice × Nat × Nat) (fin : Voice) (line : String) : DAcc :=
  let (v, size, usmp) := prev
  let good (s : Step) : Bool := match s with
    | .done v' => sameVoice v' fin
    | .brk v' => sameVoice v' fin
    | _ => false
  if good (segStep env v size usmp) then { a with endOk := a.endOk + 1 }
  else if (altSteps env v size usmp).any good then { a with endFp := a.endFp + 1 }
  else ({ a with endBad := a.endBad + 1 }).msg
    ("loop exit mismatch: model " ++ reprStr (segStep env v size usmp) ++ " observed: " ++ line)

def handleLine (a : DAcc) (line : String) : DAcc :=
  let ws := line.splitOn " "
  match ws with
  | ["w", q0, step, count, interp, len, rev, pn, sn, bound, d] =>
    let q0 := tI q0
    let step := tI step
    let count := count.toNat?.getD 0
    let interp := interp.toNat?.getD 1
    let len := tI len
    let rev := rev == "1"
    let pn := tI pn
    let sn := tI sn
    let bound := tI bound
    let d := d.toInt?.getD 1
    let ok := windowOk q0 step count interp len
    -- the nearest-neighbour rounding offset is already inside q0: r = 2^15 there, else 0
    let r : Int := if interp == 0 then 32768 else 0
    let hyp := if rev then hypReverse d pn sn (q0 - r) step bound len count || hypReverse d pn sn q0 step bound len count
               else hypForward d pn sn q0 step bound len r count
    let a := { a with total := a.total + 1, rev := a.rev + (if rev then 1 else 0),
                      hyp := a.hyp + (if hyp then 1 else 0), nohyp := a.nohyp + (if hyp then 0 else 1) }
    if ok then a
    else { a with bad := a.bad + 1, firstBad := if a.firstBad.length < 5 then a.firstBad ++ [line] else a.firstBad }
  | "T" :: voc :: rest =>
    -- T voc <V 28> step_hi step_lo ticksize adj split Q <S 15>
    match parseVoice rest with
    | some (pre, valid, _) =>
      match rest.drop 28 with
      | shi :: slo :: _ts :: adj :: split :: "Q" :: qrest =>
        let q := match parseSmp qrest with
          | some (true, s) => some s
          | _ => none
        let env : Env := { D := DD, sn := tI shi * DD + tI slo, adj := tI adj, split := tB split, qsmp := q,
                           clampHi := Xmp.Gen.MixerVoice.tickClampHi }
        let a := ctxSet a (voc.toNat?.getD 0) env none
        if valid then
          -- remember the pre state: the first L line is compared with tickStart
          { a with pending := some ("T", pre, env, false, 0, none) }
        else { a with pending := none }
      | _ => a.msg ("unparsed: " ++ line)
    | none => a.msg ("unparsed: " ++ line)
  | "L" :: voc :: rest =>
    let vocn := voc.toNat?.getD 0
    match parseVoice rest, ctxGet a vocn with
    | some (v, _, _), some (env, prev) =>
      match rest.drop 28 with
      | [size, usmp] =>
        let size := size.toNat?.getD 0
        let usmp := usmp.toNat?.getD 0
        let a := observeState a env v size line
        let a := match prev with
          | some p => handleStep a env p v size usmp line
          | none =>
            match a.pending with
            | some ("T", pre, _, _, _, _) =>
              let a := { a with pending := none }
              match tickStart env pre with
              | some w =>
                if sameVoice w v then { a with tickOk := a.tickOk + 1 }
                else ({ a with tickBad := a.tickBad + 1 }).msg ("tickStart mismatch: model " ++ reprStr w ++ " observed: " ++ line)
              | none => ({ a with tickBad := a.tickBad + 1 }).msg ("tickStart = none but the loop ran: " ++ line)
            | _ => a
        ctxSet a vocn env (some (v, size, usmp))
      | _ => a.msg ("unparsed: " ++ line)
    | _, _ => a
  | ["K", voc, q0, stepfix, count, interp] =>
    match ctxGet a (voc.toNat?.getD 0) with
    | some (env, some (v, size, _)) =>
      let interp := interp.toNat?.getD 1
      let n := count.toNat?.getD 0
      let qok := q0Of env v interp == tI q0 && stepfixOf env v == tI stepfix
      match samplesOf env v size with
      | some m =>
        if qok && m == n then { a with kOk := a.kOk + 1 }
        else if qok && (m == n + 1 || m + 1 == n) then { a with kFp := a.kFp + 1 }
        else ({ a with kBad := a.kBad + 1 }).msg
          s!"kernel call mismatch: model q0={q0Of env v interp} stepfix={stepfixOf env v} samples={m} observed: {line}"
      | none =>
        -- the model says "already at the end" but the code mixed: only possible by rounding at the boundary
        if n ≤ 1 then { a with kFp := a.kFp + 1 }
        else ({ a with kBad := a.kBad + 1 }).msg ("kernel call where the model has samples = 0: " ++ line)
    | _ => a
  | "E" :: voc :: rest =>
    let vocn := voc.toNat?.getD 0
    match parseVoice rest, ctxGet a vocn with
    | some (fin, _, chn), some (env, some prev) =>
      let a := ctxDel a vocn
      if chn < 0 then { a with endSkip := a.endSkip + 1 }      -- voice freed inside the tick (QUIRK_RSTCHN)
      else handleEnd a env prev fin line
    | _, _ => ctxDel a vocn
  | "P" :: rest =>
    -- P <V 28> pos_hi pos_lo adj same Q <S 15>
    match parseVoice rest with
    | some (pre, valid, _) =>
      match rest.drop 28 with
      | phi :: plo :: adj :: same :: "Q" :: qrest =>
        let q := match parseSmp qrest with
          | some (true, s) => some s
          | _ => none
        let env : Env := { D := DD, sn := 1, adj := tI adj, split := false, qsmp := q,
                           clampHi := Xmp.Gen.MixerVoice.tickClampHi }
        if valid then { a with pending := some ("P", pre, env, tB same, tI phi * DD + tI plo, none) }
        else { a with pending := none, apiSkip := a.apiSkip + 1 }
      | _ => a.msg ("unparsed: " ++ line)
    | none => a.msg ("unparsed: " ++ line)
  | "A" :: rest =>
    -- A <V 28> adj N <S 15>
    match parseVoice rest with
    | some (pre, _, _) =>
      match rest.drop 28 with
      | adj :: "N" :: nrest =>
        match parseSmp nrest with
        | some (true, s) =>
          let env : Env := { D := DD, sn := 1, adj := tI adj, split := false, qsmp := none,
                             clampHi := Xmp.Gen.MixerVoice.tickClampHi }
          { a with pending := some ("A", pre, env, false, 0, some s) }
        | _ => { a with pending := none, apiSkip := a.apiSkip + 1 }
      | _ => a.msg ("unparsed: " ++ line)
    | none => a.msg ("unparsed: " ++ line)
  | "R" :: flag :: rest =>
    match parseVoice rest with
    | some (pre, _, _) => { a with pending := some ("R", pre, default, tB flag, 0, none) }
    | none => a.msg ("unparsed: " ++ line)
  | "Z" :: flag :: rest =>
    match parseVoice rest with
    | some (pre, valid, _) =>
      if valid then { a with pending := some ("Z", pre, default, tB flag, 0, none) }
      else { a with pending := none, apiSkip := a.apiSkip + 1 }
    | none => a.msg ("unparsed: " ++ line)
  | kind :: rest =>
    if kind == "p" || kind == "a" || kind == "r" || kind == "z" then
      match parseVoice rest, a.pending with
      | some (post, _, _), some (k, pre, env, flag, p, ns) =>
        let a := { a with pending := none }
        let model : Option Voice :=
          if k == "P" && kind == "p" then some (voicepos env pre flag p)
          else if k == "A" && kind == "a" then ns.map (fun s => setpatch env pre s)
          else if k == "R" && kind == "r" then some (reverse pre flag)
          else if k == "Z" && kind == "z" then some (release pre flag)
          else none
        match model with
        | some m =>
          if sameVoice m post then { a with apiOk := a.apiOk + 1 }
          else ({ a with apiBad := a.apiBad + 1 }).msg (k ++ " mismatch: model " ++ reprStr m ++ " observed: " ++ line)
        | none => a
      | _, _ => a
    else a
  | _ => a

partial def loop (h : IO.FS.Stream) (a : DAcc) : IO DAcc := do
  let line ← h.getLine
  if line.isEmpty then return a
  loop h (handleLine a line.trimAscii.toString)

def main : IO Unit := do
  let a ← loop (← IO.getStdin) {}
  IO.println s!"total {a.total} bad {a.bad} hyp {a.hyp} nohyp {a.nohyp} reverse {a.rev}"
  IO.println (s!"voice tickOk {a.tickOk} tickBad {a.tickBad} stepOk {a.stepOk} stepFp {a.stepFp} stepBad {a.stepBad} " ++
    s!"endOk {a.endOk} endFp {a.endFp} endBad {a.endBad} endSkip {a.endSkip} invOk {a.invOk} invTol {a.invTol} invBad {a.invBad} " ++
    s!"smpBad {a.smpBad} callOk {a.callOkN} callBad {a.callBad} kOk {a.kOk} kFp {a.kFp} kBad {a.kBad} " ++
    s!"apiOk {a.apiOk} apiBad {a.apiBad} apiSkip {a.apiSkip} stepRev {a.stepRev} stepRepos {a.stepRepos} stepSwap {a.stepSwap} noData {a.noData}")
  for l in a.firstBad do IO.println s!"badline {l}"
  for l in a.msgs do IO.println s!"msg {l}"
