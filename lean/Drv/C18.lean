import XmpModel.LinFlow
/-! Native driver for the C18 correspondence.  Reads loaded modules as dumped by
harness/c18_duration.c (`mod` / `xxo` / `pat` / `end` lines), runs
`Scan` (`scanSequences`) and `Play` (`PlayEnv.run`, the per-tick machine) and
prints the same canonical lines the harness prints for the real library. -/
open Xmp Xmp.LinFlow

def us (t : Nat) : Nat := t * 1000 / L

structure CaseIn where
  marker : Bool := false
  rst : Nat := 0
  spd : Nat := 6
  bpm : Nat := 125
  xxo : List Nat := []
  pats : Array (List RawFx) := #[]
  maxFrames : Nat := 200000
  /-- `QUIRK_NOBPM || p->flags & XMP_FLAGS_VBLANK` of the dumped (default) configuration -/
  speedOnly : Bool := false

def parseFx (code : String) (p : Nat) : RawFx :=
  match code with
  | "s" => .fx (.speed p)
  | "t" => .fx (.tempo p)
  | "d" => .fx (.delay p)
  | "j" => .fx (.jump p)
  | "r" => .fx (.rowdelay p)
  | "f" => .fspeed p
  | _ => .fx .none

def parsePat (nrows : Nat) (items : List String) : List RawFx :=
  let base : Array RawFx := Array.replicate nrows (RawFx.fx Fx.none)
  let a := items.foldl (fun (a : Array RawFx) it =>
    match it.splitOn ":" with
    | [r, c, p] => a.setIfInBounds (r.toNat?.getD 0) (parseFx c (p.toNat?.getD 0))
    | _ => a) base
  a.toList

/-- group frames into rows: (ord,row,speed,bpm,nframes,timeBefore,ctimeAfterFirst,regular) -/
structure RowG where
  ord : Nat
  row : Nat
  speed : Nat
  bpm : Nat
  n : Nat
  tBefore : Nat
  ctime : Nat
  regular : Bool

def groupRows (fs : List PlaySt) : Array RowG := Id.run do
  let mut out : Array RowG := #[]
  for s in fs do
    if s.frame == 0 then
      out := out.push { ord := s.ord, row := s.row, speed := s.speed, bpm := s.bpm, n := 1,
                        tBefore := s.time - tick s.bpm, ctime := s.ctime, regular := true }
    else
      match out.back? with
      | none => out := out.push { ord := s.ord, row := s.row, speed := s.speed, bpm := s.bpm, n := 1,
                                  tBefore := 0, ctime := s.ctime, regular := false }
      | some g =>
        let ok := g.regular && s.ord == g.ord && s.row == g.row && s.speed == g.speed && s.bpm == g.bpm
                  && s.frame == g.n
        out := out.pop.push { g with n := g.n + 1, regular := ok }
  return out

def runCase (a : CaseIn) : IO Unit := do
  -- `nobpm` of the raw module := the dumped configuration's `speedOnly`; its scan and player read flag `false`
  let rm : RawMod := { xxo := a.xxo, pats := a.pats.toList, rst := a.rst, spd := a.spd, bpm := a.bpm,
                       marker := a.marker, nobpm := a.speedOnly }
  let m : LinMod := rm.decode false
  let sc := scanSequences m
  -- the module class of C18_scan_eq_play (its only hypotheses are `ModWF m` and `sc.ok`)
  IO.println s!"modwf {modWFb m}"
  if !sc.ok then
    IO.println "scan fail"
    IO.println "endcase"
    return
  IO.println s!"scan ok nseq {sc.seqs.length}"
  IO.println ("ctl " ++ " ".intercalate ((sc.ctl.take m.len).map toString))
  let mut infoLine := "info"
  for i in [0:m.len] do
    let oi := sc.info.getD i {}
    if oi.time ≥ 0 then
      infoLine := infoLine ++ s!" {i}:{oi.time}:{us oi.timeX}:{oi.speed}:{oi.bpm}"
  IO.println infoLine
  let pres := seqPres m
  let mut k := 0
  for r in sc.seqs do
    IO.println s!"seq {k} ep {r.ep} dur {r.res.ret} durx {us r.res.durX} end {r.res.endOrd} {r.res.endRow} {r.res.num} scanrows {r.res.trace.length} fuelout {r.res.fuelOut}"
    -- the scan's own row trace
    let e := sc.env m k
    let fs := e.run a.maxFrames
    let rows := groupRows fs
    let total := fs.foldl (fun acc s => acc + tick s.bpm) 0
    -- does the frame after the last one increment the loop counter?  (re-run one more step)
    let lastOk : Bool := match fs.getLast? with
      | none => (match e.start with
                 | some s => (e.render s).loopCount > 0
                 | none => false)
      | some s => (match e.advance s with
                   | some s2 => (e.render s2).loopCount > 0
                   | none => false)
    IO.println s!"play {k} frames {fs.length} rows {rows.size} total {us total} loopinc {lastOk}"
    -- scan trace vs play trace inside the model (sanity, also proved)
    let scanT := r.res.trace.map fun x => (x.ord, x.row)
    let playT := rowTrace fs
    IO.println s!"tracesagree {decide (scanT = playT)}"
    -- full row records (position, speed, tempo, delay, exact start time): conclusion of C18_scan_eq_play_seq
    IO.println s!"recsagree {decide (rowRecs fs = r.res.trace)}"
    -- the decidable hypotheses of C18_scan_eq_play_seq for this sequence, and that the recorded
    -- pre-state reproduces this sequence's scan
    let (pep, pctl, pinfo) := pres.getD k (0, [], [])
    let r2 := scanModule m pep k pctl pinfo
    let same := pep == r.ep && r2.ret == r.res.ret && r2.endOrd == r.res.endOrd && r2.endRow == r.res.endRow &&
                r2.num == r.res.num && decide (r2.trace = r.res.trace) && r2.durX == r.res.durX
    IO.println s!"seqhyp {seqHypB e pep k pctl pinfo} pre {same && pres.length == sc.seqs.length}"
    let mut h : UInt64 := 0xcbf29ce484222325
    let mut idx := 0
    for g in rows do
      -- hash of exactly compared fields
      for v in [g.ord, g.row, g.speed, g.bpm, g.n, (if g.regular then 1 else 0)] do
        h := (h ^^^ UInt64.ofNat v) * 0x100000001b3
      if idx < 40 || idx + 5 ≥ rows.size || g.row == 0 then
        IO.println s!"r {idx} {g.ord} {g.row} {g.speed} {g.bpm} {g.n} {if g.regular then 1 else 0} {us g.tBefore} {us g.ctime}"
      idx := idx + 1
    IO.println s!"rowhash {h}"
    k := k + 1
  -- the rescan after XMP_PLAYER_CFLAGS |= XMP_FLAGS_VBLANK: the same raw module, scanned with the flag set
  let mv := rm.decode true
  let same := decide (mv.pats = m.pats)        -- no Fxx >= 0x20 (or QUIRK_NOBPM): the flag changes nothing
  let scv := if same then sc else scanSequences mv
  let capv := min a.maxFrames 20000
  if scv.ok then
    IO.println s!"vscan nseq {scv.seqs.length}"
    let mut kv := 0
    for r in scv.seqs do
      IO.println s!"vseq {kv} ep {r.ep} dur {r.res.ret} end {r.res.endOrd} {r.res.endRow} {r.res.num}"
      if same then
        IO.println "vrecsagree same"
        IO.println "xrecsagree same"
      else
        -- the simulation theorem with the SAME flag on both sides, evaluated
        let ev := rm.env true true kv
        let fsv := ev.run capv
        if fsv.length ≥ capv then IO.println "vrecsagree capped"
        else IO.println s!"vrecsagree {decide (rowRecs fsv = r.res.trace)}"
        -- … and with the player reading the other flag value (what a flag-word mix-up amounts to)
        let ex := rm.env true false kv
        let fsx := ex.run capv
        if fsx.length ≥ capv || fsv.length ≥ capv then IO.println "xrecsagree capped"
        else IO.println s!"xrecsagree {decide (rowRecs fsx = r.res.trace)}"
      kv := kv + 1
  else
    IO.println "vscan fail"
  IO.println "endcase"

partial def loop (h : IO.FS.Stream) (a : CaseIn) : IO Unit := do
  let line ← h.getLine
  if line.isEmpty then return ()
  let ws := line.trimAscii.toString.splitOn " "
  match ws with
  | "mod" :: mk :: rst :: spd :: bpm :: rest =>
    loop h { marker := mk == "1", rst := rst.toNat?.getD 0, spd := spd.toNat?.getD 6, bpm := bpm.toNat?.getD 125,
             maxFrames := (rest.head?.bind String.toNat?).getD 200000,
             speedOnly := (rest.drop 1).head? == some "1" }
  | "xxo" :: os => loop h { a with xxo := os.filterMap String.toNat? }
  | "pat" :: _ :: nrows :: items => loop h { a with pats := a.pats.push (parsePat (nrows.toNat?.getD 0) items) }
  | ["end"] => runCase a; loop h {}
  | _ => loop h a

def main : IO Unit := do loop (← IO.getStdin) {}
