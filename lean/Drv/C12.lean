import XmpModel.PlayBuffer
/-! Native driver for the C12 correspondence: replays the harness's case
script on the model `Xmp.PlayBuffer`. Line protocol in harness/c12_playbuffer.c. -/
open Xmp Xmp.PlayBuffer

def hexVal (c : Char) : Nat :=
  if c.isDigit then c.toNat - '0'.toNat else c.toNat - 'a'.toNat + 10

def parseHex (s : String) : Bytes :=
  if s == "-" then [] else
  let rec go : List Char → Bytes
    | a :: b :: rest => UInt8.ofNat (hexVal a * 16 + hexVal b) :: go rest
    | _ => []
  go s.toList

def hexDigit (n : Nat) : Char := if n < 10 then Char.ofNat (48 + n) else Char.ofNat (87 + n)

def toHex (b : Bytes) : String :=
  if b.isEmpty then "-" else
  String.ofList (b.flatMap fun x => [hexDigit (x.toNat / 16), hexDigit (x.toNat % 16)])

structure Case where
  loop : Int := 0
  frames : Array Frame := #[]
  ended : Bool := false          -- A's stream ended after `frames`
  stopAt : Option Nat := none
  st : St := {}
  exhausted : Bool := false

def Case.stream (c : Case) : Nat → Frame := fun i =>
  match c.stopAt with
  | some k => if i < k then c.frames.getD i .fin else .fin
  | none => c.frames.getD i .fin

partial def loop (h : IO.FS.Stream) (c : Case) : IO Unit := do
  let line ← h.getLine
  if line.isEmpty then return ()
  let ws := line.trimAscii.toString.splitOn " "
  match ws with
  | "begin" :: l :: _ => loop h { loop := l.toInt?.getD 0 }
  | ["frame", lc, hex] => loop h { c with frames := c.frames.push (.data (parseHex hex) (lc.toNat?.getD 0)) }
  | ["endframe"] => loop h { c with ended := true }
  | ["reset"] => loop h { c with st := reset c.st }
  | ["stop"] => loop h { c with stopAt := some c.st.idx }
  | ["call", sz] =>
    let size := sz.toInt?.getD 0
    let (out, ret, st') := playBuffer c.stream c.loop c.st size
    -- a fetch beyond the recorded reference stream (that did not really end) cannot be judged
    let beyond := !c.ended && c.stopAt.isNone && st'.idx > c.frames.size
    if beyond then IO.println "exhausted"
    else IO.println s!"{ret} {st'.consumed} {st'.buf.length} {toHex (if ret < 0 then [] else out)}"
    loop h { c with st := st' }
  | _ => loop h c

def main : IO Unit := do loop (← IO.getStdin) {}
