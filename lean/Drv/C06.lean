import XmpModel.Reset
/-! Native driver for the C06 correspondence: replays the `op` cases printed by
harness/c06_reset.c on the model `Xmp.Reset`.

input  (per case)   case <id> op <name> <module> rate <r> fmt <f> smix <n>
                    pre <ctor> v0 v1 …        complete image before the operation
                    ext patrows r0 r1 … | ext scan0num n | ext ret r | ext noop 1
                    post …                    (ignored)
                    end
output              begin <id> <name>
                    model <ctor> v0 v1 …      model's image after the operation, `?` = externally determined
                    done
-/
open Xmp Xmp.Reset Xmp.Gen.CtxFields

/-- marks externally determined values -/
def unk : Int := 4611686018427400000

structure Case where
  id : String := ""
  op : String := ""
  rate : Int := 0
  fmt : Int := 0
  pre : Array (Array Int) := Array.replicate 200 #[]
  smixArgs : Int × Int := (0, 0)
  patrows : Array Int := #[]
  scan0num : Int := 0
  active : Bool := false
  emitted : Bool := false

def fieldByName (n : String) : Option Field := Field.all.find? (fun f => f.name == n)

def Case.ctx (c : Case) : Ctx := fun f i =>
  let a := c.pre.getD f.idx #[]
  if a.size == 0 then 0 else if a.size == 1 then a[0]! else a.getD i 0

def Case.ext (c : Case) : Ext where
  names := fun _ => cst unk
  loader := fun _ _ => some (cst unk)
  quirks := fun _ _ => cst unk
  scan := fun _ _ => cst unk
  start := fun r f i =>
    match f with
    | .p_flow_num_rows => c.patrows.getD (r .m_mod_xxo i).toNat 0
    | .p_flow_end_point => c.scan0num
    | _ => unk
  frameTime := fun _ _ _ => unk

def runOp (c : Case) : Option Ctx :=
  let s := c.ctx
  let X := c.ext
  match c.op with
  | "create" => some (createContext unk)
  | "prologue" => some (prologue s)
  | "epilogue" => some (quirkStep X (epilogue s))
  | "resetflow" => some (resetFlow s)
  | "start" => some (startPlayer X c.rate c.fmt s)
  | "end" => some (endPlayer s)
  | "release" => some (release s)
  | "load" => some (load X s)
  | "endsmix" => some (endSmix s)
  | "startsmix" => some (startSmix c.smixArgs.1 c.smixArgs.2 (fun _ => unk) s)
  | _ => none

def showVal (v : Int) : String := if v == unk then "?" else toString v

def emit (c : Case) : IO Unit := do
  IO.println s!"begin {c.id} {c.op}"
  match runOp c with
  | none => IO.println "unsupported"
  | some s =>
    for f in Field.all do
      let n := if f.kind == .ptr then 1 else f.count
      -- after a load everything a loader may write is input-determined (the epilogue only sanitises it)
      let ext := c.op == "load" && LoaderMayWrite f
      let vals := (List.range n).map (fun i => if ext then "?" else showVal (s f i))
      IO.println s!"model {f.name} {" ".intercalate vals}"
  IO.println "done"

partial def loop (h : IO.FS.Stream) (c : Case) : IO Unit := do
  let line ← h.getLine
  if line.isEmpty then return ()
  let ws := line.trimAscii.toString.splitOn " "
  match ws with
  | "case" :: id :: "op" :: name :: _path :: "rate" :: r :: "fmt" :: f :: _ =>
    loop h { id := id, op := name, rate := r.toInt?.getD 0, fmt := f.toInt?.getD 0, active := true }
  | "case" :: _ => loop h {}
  | "pre" :: name :: vals =>
    if !c.active then loop h c else
    match fieldByName name with
    | some f => loop h { c with pre := c.pre.set! f.idx (vals.map (fun v => v.toInt?.getD 0)).toArray }
    | none => loop h c
  | "ext" :: "patrows" :: vals => loop h { c with patrows := (vals.map (fun v => v.toInt?.getD 0)).toArray }
  | ["ext", "scan0num", v] => loop h { c with scan0num := v.toInt?.getD 0 }
  | ["ext", "smixargs", a, b] => loop h { c with smixArgs := (a.toInt?.getD 0, b.toInt?.getD 0) }
  | "post" :: _ =>
    if c.active && !c.emitted then
      emit c
      loop h { c with emitted := true }
    else loop h c
  | ["end"] => loop h {}
  | ["sets"] =>
    let pr (tag : String) (p : Field → Bool) : IO Unit :=
      IO.println s!"{tag} {" ".intercalate ((Field.all.filter p).map Field.name)}"
    pr "setB" B
    pr "setDead" Dead
    pr "setPartial" PartialField
    pr "setPersistent" Persistent
    -- poison sets: scalar (non-pointer) members only
    pr "setLoadPoison" (fun f => LoadResets f && f.kind != .ptr)
    pr "setStartPoison" (fun f => StartResets f && f.kind != .ptr)
    loop h c
  | _ => loop h c

def main : IO Unit := do loop (← IO.getStdin) {}
