import XmpModel.Stream
/-! Native driver for the C07 correspondence: replays the case script of
harness/c07_streamops.c on the three back-end models and on `Spec`.
For every `op` line it prints
  F <out> | <errclass> <eof> <pos>
  M <out> | ...
  C <out> | ...
  S <out> <relax>      or   S none      (`Spec`; `none` from the first op outside the fragment on)
with <relax> one of `-`, `tail` (bytes of a partial trailing item unspecified). -/
open Xmp Xmp.Stream

def hexVal (c : Char) : Nat :=
  if c.isDigit then c.toNat - '0'.toNat else c.toNat - 'a'.toNat + 10

def parseHex (s : String) : Bytes :=
  if s == "-" then [] else
  let rec go : List Char → Bytes
    | a :: b :: rest => UInt8.ofNat (hexVal a * 16 + hexVal b) :: go rest
    | _ => []
  go s.toList

def hexDigit (n : Nat) : Char := if n < 10 then Char.ofNat (48 + n) else Char.ofNat (87 + n)

def toHex (b : Bytes) : String :=
  if b.isEmpty then "-" else
  String.ofList (b.flatMap fun x => [hexDigit (x.toNat / 16), hexDigit (x.toNat % 16)])

def showOut : Out → String
  | .val v => s!"v {v}"
  | .data r i t => s!"d {r} {toHex i} {toHex t}"

def errClass : Err → Nat
  | .none => 0 | .eof => 1 | .other => 2

def wordOf : Nat → Word
  | 0 => .u8 | 1 => .s8 | 2 => .l16 | 3 => .b16 | 4 => .l24 | 5 => .b24 | 6 => .l32 | _ => .b32

def whenceOf : Nat → Whence
  | 0 => .set | 1 => .cur | _ => .end_

def parseOp : List String → Option Op
  | ["w", k] => some (.word (wordOf (k.toNat?.getD 0)))
  | ["read", a, b] => some (.read (a.toNat?.getD 0) (b.toNat?.getD 0))
  | ["seek", a, b] => some (.seek (a.toInt?.getD 0) (whenceOf (b.toNat?.getD 0)))
  | ["tell"] => some .tell
  | ["eof"] => some .eof
  | ["error"] => some .error
  | ["size"] => some .size
  | _ => none

structure Case where
  bytes : Bytes := []
  pol : CbPolicy := {}
  f : File.St := {}
  m : Mem.St := {}
  c : Cb.St Nat := { u := 0 }
  s : Option Spec.St := some {}

def b01 (b : Bool) : Nat := if b then 1 else 0

/-! ### `core` lines (harness/c07_core.c): what load.c hands to a loader through each entry point -/

def entryOf : Nat → Entry
  | 0 => .path | 1 => .file | 2 => .memory | _ => .callbacks

def backendNo : Backend → Nat
  | .file => 0 | .mem => 1 | .cb => 2

def strHex (s : String) : String := toHex s.toUTF8.toList

def optHex : Option String → String
  | none => "NULL"
  | some s => if s.isEmpty then "-" else strHex s

/-- the harness's recording loader as programs: "R!" n:u8 n bytes -/
def recTable : List (Loader Unit) :=
  [{ name := "rec"
     test := .op (.word .b16) fun
       | .val v => .op (.read 1 0) fun _ => .ret (v == 0x5221)
       | _ => .ret false
     load := fun _ => .op (.word .b16) fun _ => .op (.word .u8) fun
       | .val n => .op (.read 1 n.toNat) fun
           | .data r _ _ => .ret (if r = n.toNat then some () else none)
           | _ => .ret none
       | _ => .ret none }]

def runOn {α : Type} (bytes : Bytes) (e : Entry) (p : StreamProg α) : α :=
  match e.backend with
  | .file => run (File.step bytes) p {}
  | .mem => run (Mem.step bytes) p {}
  | .cb => run (Cb.step (memCb bytes {}) bytes.length) p { u := 0 }

def coreCase (pathHex bytesHex : String) : IO Unit := do
  let bytes := parseHex bytesHex
  let path := String.ofList ((parseHex pathHex).map fun b => Char.ofNat b.toNat)
  for i in [0, 1, 2, 3] do
    let e := entryOf i
    let (rc, res) := runOn bytes e (loadEntry e path bytes.length recTable)
    if rc != -3 then
      let pi := e.pathInfo path bytes.length
      IO.println s!"seen {i} filename={optHex pi.filename} dirname={optHex pi.dirname} basename={optHex pi.basename} size={pi.size} backend={backendNo e.backend}"
      IO.println s!"ret {i} {if res.isSome then 0 else -1}"
    -- a loader that returns 0 without building a module is stopped by load_module's sanity gate (-XMP_ERROR_LOAD)
    IO.println s!"L {i} {if rc == -3 then -3 else -4}"
  for i in [0, 1, 2, 3] do
    let e := entryOf i
    let (rc, ty) := runOn bytes e (testEntry e recTable)
    IO.println s!"T {i} {rc} {if ty.isEmpty then "-" else strHex ty}"

partial def loop (h : IO.FS.Stream) (cs : Case) : IO Unit := do
  let line ← h.getLine
  if line.isEmpty then return ()
  let ws := line.trimAscii.toString.splitOn " "
  match ws with
  | ["begin", hex, sp, pt, ch] =>
    let pol : CbPolicy := {
      seekPast := match sp with | "1" => .clamp | "2" => .fail | _ => .allow
      partialTail := pt == "1"
      chunk := ch.toNat?.getD 0 }
    loop h { bytes := parseHex hex, pol := pol }
  | ["core", pathHex, bytesHex] =>
    coreCase pathHex bytesHex
    loop h cs
  | "op" :: rest =>
    match parseOp rest with
    | none => loop h cs
    | some o =>
      let (fo, f') := File.step cs.bytes cs.f o
      let (mo, m') := Mem.step cs.bytes cs.m o
      let (co, c') := Cb.step (memCb cs.bytes cs.pol) cs.bytes.length cs.c o
      IO.println s!"F {showOut fo} | {errClass f'.err} {b01 f'.eofF} {f'.pos}"
      IO.println s!"M {showOut mo} | {errClass m'.err} {b01 (Mem.canRead cs.bytes m' == 0)} {m'.pos}"
      IO.println s!"C {showOut co} | {errClass c'.err} {b01 c'.eof} {c'.u}"
      let s' ← match cs.s with
        | none => IO.println "S none"; pure none
        | some s =>
          match Spec.step cs.bytes s o with
          | none => IO.println "S none"; pure none
          | some (so, s') =>
            let relax := match o, so with
              | _, .data _ _ _ => "tail"
              | _, _ => "-"
            IO.println s!"S {showOut so} {relax}"
            pure (some s')
      loop h { cs with f := f', m := m', c := c', s := s' }
  | _ => loop h cs

def main : IO Unit := do loop (← IO.getStdin) {}
