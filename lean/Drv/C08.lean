import XmpModel.Container
import XmpModel.Lzw
import XmpModel.ArcFrame
import XmpModel.PowerPacker
import XmpModel.ZipFrame
import XmpModel.LhaFrame
import XmpModel.ArcfsFrame
import XmpModel.LzxFrame
import XmpModel.MmcmpFrame
import XmpModel.Squeeze
import XmpModel.LhNew
/-! Native driver for the C08 correspondence (line protocol, see tools/checks/c08.py).
    Runs the models `Xmp.Md5` and `Xmp.Container` on the cases the harness ran on the real code. -/
open Xmp Xmp.Container

def hexVal (c : Char) : Nat :=
  if c.isDigit then c.toNat - '0'.toNat else c.toNat - 'a'.toNat + 10

def parseHex (s : String) : Bytes :=
  if s == "-" then [] else
  let rec go (cs : List Char) (acc : Array UInt8) : Array UInt8 :=
    match cs with
    | a :: b :: rest => go rest (acc.push (UInt8.ofNat (hexVal a * 16 + hexVal b)))
    | _ => acc
  (go s.toList #[]).toList

def hexDigit (n : Nat) : Char := if n < 10 then Char.ofNat (48 + n) else Char.ofNat (87 + n)

def toHex (b : Bytes) : String :=
  if b.isEmpty then "-" else
  String.ofList (b.foldr (fun x acc => hexDigit (x.toNat / 16) :: hexDigit (x.toNat % 16) :: acc) [])

def fnv (b : Bytes) : UInt64 :=
  b.foldl (fun h x => (h ^^^ x.toUInt64) * 0x100000001b3) 0xcbf29ce484222325

def hex64 (v : UInt64) : String :=
  String.ofList ((List.range 16).map fun i => hexDigit ((v.toNat >>> (4 * (15 - i))) % 16))

def showOut (o : Option Bytes) : String :=
  match o with
  | none => "fail"
  | some b => s!"ok {b.length} {hex64 (fnv b)}"

def parseNats (s : String) : List Nat := (s.splitOn ",").filterMap (·.toNat?)

def md5Case (data : Bytes) (chunks : List Nat) : IO Unit := do
  let mut s := Md5.init
  let mut rest := data
  for k in chunks do
    let k' := min k rest.length
    s := Md5.update s (rest.take k')
    rest := rest.drop k'
    IO.println s!"s {s.h.a.toNat} {s.h.b.toNat} {s.h.c.toNat} {s.h.d.toNat} {s.count % 2^64} {toHex s.buf}"
  if !rest.isEmpty then s := Md5.update s rest
  IO.println s!"d {toHex (Md5.final s)}"

def constEnv (p : Bytes) : Env :=
  { crc32 := crc32, crc16 := crc16, inflate := fun _ => some p, arcDec := arcDecSq (fun _ _ _ => some p),
    other := fun _ _ => some p }

/-- names that reach libxmp_exclude_match in the zip walk, with verdicts, up to the selected member -/
def zipTrace (ms : List Member) : List (Bytes × Bool) :=
  let rec go : List Member → List (Bytes × Bool)
    | [] => []
    | m :: r =>
      if m.isDir || !m.supported then go r
      else if excludeMatch m.name then (m.name, true) :: go r
      else [(m.name, false)]
  go ms

/-- code tree in pre-order: `n` = node (two sub-trees follow), `l<sym>` = leaf -/
partial def parseSqTree : List String → Option (SqTree × List String)
  | [] => none
  | t :: rest =>
    if t == "n" then
      match parseSqTree rest with
      | none => none
      | some (l, rest) =>
        match parseSqTree rest with
        | none => none
        | some (r, rest) => some (.node l r, rest)
    else if t.startsWith "l" then (String.ofList (t.toList.drop 1)).toNat?.map fun s => (.leaf s, rest)
    else none

/-- commands of the LHA copy stage: `l<hex byte>` or `c<offset>.<count>`, comma separated -/
def parseLhToks (s : String) : List LhTok :=
  (s.splitOn ",").filterMap fun t =>
    if t.startsWith "l" then some (.lit (UInt8.ofNat (hexVal (t.toList.getD 1 '0') * 16 + hexVal (t.toList.getD 2 '0'))))
    else if t.startsWith "c" then
      match (String.ofList (t.toList.drop 1)).splitOn "." with
      | [o, n] => some (.copy (o.toNat?.getD 0) (n.toNat?.getD 0))
      | _ => none
    else none

def showLhToks (ts : List LhTok) : String :=
  ",".intercalate (ts.map fun t => match t with
    | .lit b => s!"l{hexDigit (b.toNat / 16)}{hexDigit (b.toNat % 16)}"
    | .copy o n => s!"c{o}.{n}")

partial def loop (h : IO.FS.Stream) : IO Unit := do
  let line ← h.getLine
  if line.isEmpty then return ()
  let ws := line.trimAscii.toString.splitOn " "
  match ws with
  | ["md5", hex, chunks] => md5Case (parseHex hex) (parseNats chunks)
  | ["md5", hex] => md5Case (parseHex hex) []
  | ["magic", hex] =>
    let b := sniff (parseHex hex)
    let bits := String.ofList (Gen.Depackers.depackerList.map fun e => if evalMagic e.2.2 b then '1' else '0')
    let names := " ".intercalate (Gen.Depackers.depackerList.map (·.1))
    IO.println s!"m {bits} {(dispatch (parseHex hex)).getD "none"} {names}"
  | ["e", hex] => IO.println s!"e {if excludeMatch (parseHex hex) then 1 else 0}"
  | ["rle", hex, n] =>
    match unrle90 (n.toNat?.getD 0) (parseHex hex) with
    | some o => IO.println s!"r 1 {toHex o}"
    | none => IO.println "r 0 -"
  | ["sq", hex, n] =>
    match unsqueeze (n.toNat?.getD 0) (parseHex hex) with
    | some o => IO.println s!"r 1 {toHex o}"
    | none => IO.println "r 0 -"
  | ["sqenc", tree, hex] =>
    -- squeeze stream of the Lean encoder: RLE90 tokens of the concrete encoder, Huffman stage for the given code tree
    match parseSqTree (tree.splitOn ".") with
    | some (t, []) => IO.println s!"E {toHex (squeeze t (rle90Enc (parseHex hex)))}"
    | _ => IO.println "E -"
  | ["lhnew", ring, toks] =>
    IO.println s!"D {showOut (some (lhNewExpand (ring.toNat?.getD 0) (parseLhToks toks)))}"
  | ["lhlead", o, hex] =>
    IO.println s!"T {showLhToks (lhNewEncodeLead (o.toNat?.getD 0) (parseHex hex))}"
  | ["gzip", hexa, hexp] =>
    let a := parseHex hexa
    let p := parseHex hexp
    let st := match gzipStream a with
      | some (ofs, len) => s!"{ofs} {len} {hex64 (fnv ((a.drop ofs).take len))}"
      | none => "none"
    IO.println s!"g {st} {showOut (reopenMem (gunzip crc32 (fun _ => some p) a))}"
  | ["zip", hexa, hexp] =>
    let a := parseHex hexa
    let p := parseHex hexp
    match zipMembers a with
    | none => IO.println "z none"
    | some ms =>
      let tr := " ".intercalate ((zipTrace ms).map fun (n, v) => s!"{toHex n}:{if v then 1 else 0}")
      let out := reopenMem (unpackMembers (fun b => (crc32 b).toNat) (fun m _ => if m = 8 then some p else none) ms)
      IO.println s!"z {ms.length} [{tr}] {showOut out}"
  | ["arc", hexa, hexp] =>
    let a := parseHex hexa
    let p := parseHex hexp
    IO.println s!"a {showOut (reopenMem (arcRead crc16 (arcDecSq (fun _ _ _ => some p)) a))}"
  | ["pipe", hexa, hexp] =>
    let a := parseHex hexa
    let p := parseHex hexp
    match decrunch ((((constEnv p).withLha (fun _ _ _ _ => some p)).withArcfs (fun m _ c u => arcDecSq (fun _ _ _ => some p) m c u)).withLzx crc32From (fun _ _ => some p) |>.withMmcmp mmDec) a with
    | none => IO.println s!"p {(dispatch a).getD "none"} fail"
    | some s => IO.println s!"p {(dispatch a).getD "none"} ok {s.length} {hex64 (fnv s)} {toHex (Md5.md5sumLoop Gen.Depackers.md5ReadChunk s)}"
  | ["lzw", hex] => IO.println s!"D {showOut (Lzw.unlzw (parseHex hex))}"
  | ["lzwenc", mb, bm, ce, ml, hex] =>
    let ce := ce.toNat?.getD 0
    IO.println s!"E {toHex (Lzw.lzwEncode (mb.toNat?.getD 16) (bm == "1") (fun i => ce > 0 && i % ce == 0) (ml.toNat?.getD 65536) (parseHex hex))}"
  | ["pp", hex] => IO.println s!"D {showOut (PowerPacker.decrunchPP (parseHex hex))}"
  | ["ppenc", eff, hex] => IO.println s!"E {toHex (PowerPacker.ppEncode (parseHex eff) (parseHex hex))}"
  | "pprender" :: eff :: its =>
    -- items lits:mlen:moff:short ; prints the file written by ppRender and the payload the tokens stand for
    let items := its.filterMap fun t => match t.splitOn ":" with
      | [l, ml, mo, sh] => some ({ lits := parseHex l, mlen := ml.toNat?.getD 0, moff := mo.toNat?.getD 0,
                                   short := sh == "1" } : PowerPacker.PPItem)
      | _ => none
    IO.println s!"E {toHex (PowerPacker.ppRender (parseHex eff) items)} {toHex (PowerPacker.ppExpand items)}"
  | "arcitems" :: spark :: its =>
    -- flat item list written by the Lean writer arcItemsBytes (+ arcRealize for the directory size/CRC fields):
    -- f:name:method:data  |  o:name  (directory header: Spark 0x82 + file type DDC, else ARC 6 type 30)  |  c:marker
    let sp := spark == "1"
    let items := its.filterMap fun t => match t.splitOn ":" with
      | ["f", n, m, d] =>
        let data := parseHex d
        let meth := m.toNat?.getD 2
        some (ArcItem.file { name := parseHex n, method := meth, data := data,
                             toks := if meth % 128 = 3 then rle90Enc data else [] })
      | ["o", n] =>
        some (ArcItem.dopen (if sp then { name := parseHex n, method := 130, data := [],
                                           attrs := [0x42, 0xdc, 0xfd, 0xff, 0, 0, 0, 0, 3, 0, 0, 0] }
                             else { name := parseHex n, method := 30, data := [] }) 0 0)
      | ["c", k] => some (ArcItem.dclose (UInt8.ofNat (k.toNat?.getD 0)))
      | _ => none
    IO.println s!"E {toHex (arcWrapItems crc16 (arcRealize crc16 items) sp)}"
  | "arcenc" :: spark :: ms =>
    -- members name:method:data (hex); method 3 members are packed by the Lean encoder rle90Enc
    let mem := ms.filterMap fun t => match t.splitOn ":" with
      | [n, m, d] =>
        let data := parseHex d
        let meth := m.toNat?.getD 2
        some ({ name := parseHex n, method := meth, data := data,
                toks := if meth % 128 = 3 then rle90Enc data else [] } : ArcMember)
      | _ => none
    IO.println s!"E {toHex (arcWrap crc16 mem (spark == "1"))}"
  | ["lha", hexa, hexp] =>
    -- "D dec": the result depends on a decoder that is a parameter of the model (LH1/5/6/7, MacBinary, …)
    let p := parseHex hexp
    let a := parseHex hexa
    let r1 := unlha (fun _ _ _ _ => some p) a
    let r2 := unlha (fun _ _ _ _ => none) a
    IO.println (if r1 == r2 then s!"D {showOut r1}" else "D dec")
  | ["gz", hexa, hexp] =>
    -- "D dec": the header was parsed and the result depends on inflate (a parameter of the model)
    let p := parseHex hexp
    let a := parseHex hexa
    let r1 := gunzip crc32 (fun _ => some p) a
    let r2 := gunzip crc32 (fun _ => none) a
    IO.println (if r1 == r2 then s!"D {showOut r1}" else "D dec")
  | ["mmcmp", hexa, hexp] =>
    let p := parseHex hexp
    let a := parseHex hexa
    let _ := p
    IO.println s!"D {showOut (decrunchMmcmp mmDec a)}"
  | "mmcmpenc" :: bs =>
    -- each argument is one block: its sub-block contents (hex) joined by ':'
    let blocks := bs.map fun b => (b.splitOn ":").map parseHex
    IO.println s!"E {toHex (mmcmpWrap blocks)}"
  | "mmcmpenck" :: bs =>
    -- each argument is one block: kind (s stored, p packed, d packed+DELTA) then its sub-block contents (hex), joined by ':'
    let blocks : List (Option Bool × List Bytes) := bs.map fun b =>
      match b.splitOn ":" with
      | k :: subs => ((if k == "s" then none else some (k == "d")), subs.map parseHex)
      | [] => (none, [])
    IO.println s!"E {toHex (mmcmpWrapK blocks)}"
  | ["lzx", hexa, hexp] =>
    let p := parseHex hexp
    let a := parseHex hexa
    let r1 := lzxRead crc32From (fun _ _ => some p) a
    let r2 := lzxRead crc32From (fun _ _ => none) a
    IO.println (if r1 == r2 then s!"D {showOut r1}" else "D dec")
  | "lzxenc" :: ms =>
    let mem := ms.filterMap fun t => match t.splitOn ":" with
      | [n, c, d] => some ({ name := parseHex n, comment := parseHex c, data := parseHex d } : LzxMember)
      | _ => none
    IO.println s!"E {toHex (lzxWrap crc32From mem)}"
  | ["arcfs", hexa, hexp] =>
    -- "D dec": the result depends on a decoder that is a parameter of the model (squeeze, crunch, …)
    let p := parseHex hexp
    let a := parseHex hexa
    let r1 := arcfsRead crc16 (fun m _ c u => arcDecSq (fun _ _ _ => some p) m c u) a
    let r2 := arcfsRead crc16 (fun m _ c u => arcDecSq (fun _ _ _ => none) m c u) a
    IO.println (if r1 == r2 then s!"D {showOut r1}" else "D dec")
  | "arcfsenc" :: pad :: ms =>
    let mem := ms.filterMap fun t => match t.splitOn ":" with
      | [n, m, d] =>
        let data := parseHex d
        let meth := m.toNat?.getD 130
        some ({ name := parseHex n, method := meth, data := data,
                toks := if meth % 128 = 3 then rle90Enc data else [] } : ArcfsMember)
      | _ => none
    IO.println s!"E {toHex (arcfsWrap crc16 mem (pad.toNat?.getD 0))}"
  | ["lhalen", hexa, n] =>
    -- header/walk structure only: the packed-method decoders are replaced by n zero bytes
    let k := n.toNat?.getD 0
    match unlha (fun _ _ _ len => if len = k then some (List.replicate k 0) else none) (parseHex hexa) with
    | some o => IO.println s!"D ok {o.length}"
    | none => IO.println "D fail"
  | "lhaenc" :: ms =>
    -- members name:level:osid:data (hex fields), written by the Lean writer lhaWrap (-lh0-)
    let mem := ms.filterMap fun t => match t.splitOn ":" with
      | [n, l, o, d] => some ({ name := parseHex n, level := l.toNat?.getD 0, osId := UInt8.ofNat (o.toNat?.getD 85),
                                 data := parseHex d } : LhaMember)
      | _ => none
    IO.println s!"E {toHex (lhaWrap crc16 mem)}"
  | "zipenc" :: lead :: clen :: ms =>
    -- members name:method:extattr:extra:cextra:comment:data:cdata (hex fields), written by the Lean writer zipWrapC
    -- with an archive comment of clen bytes
    let mem := ms.filterMap fun t => match t.splitOn ":" with
      | [n, m, ea, ex, cex, cm, d, cd] =>
        some ({ name := parseHex n, method := m.toNat?.getD 0, extAttr := ea.toNat?.getD 0, extra := parseHex ex,
                cextra := parseHex cex, comment := parseHex cm, data := parseHex d, cdata := parseHex cd } : ZipMember)
      | _ => none
    IO.println s!"E {toHex (zipWrapC crc32 (parseHex lead) mem (List.replicate (clen.toNat?.getD 0) 0x63))}"
  | _ => IO.println "?"
  loop h

def main : IO Unit := do loop (← IO.getStdin)
