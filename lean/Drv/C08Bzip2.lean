import XmpModel.Bzip2
/-! Native driver `drv_c08b` for the bzip2 correspondence (tools/c08_bzip2.py).
    Line protocol on stdin:
      dec <id> <hex .bz2 stream>   -> `T <id> code=… hcrc=… dcrc=… tcrc=… n=… fnv=… ok=…`  (model of bunzip2.c)
      enc <id> <level> <blocksize> <hex payload> -> `E <id> <hex .bz2 stream>`  (the Lean encoder of the theorems)
-/
open Xmp Xmp.Bzip2

def hexVal (c : Char) : Nat :=
  if c.isDigit then c.toNat - '0'.toNat else c.toNat - 'a'.toNat + 10

def parseHex (s : String) : Bytes :=
  if s == "-" then [] else
  let rec go (cs : List Char) (acc : Array UInt8) : Array UInt8 :=
    match cs with
    | a :: b :: rest => go rest (acc.push (UInt8.ofNat (hexVal a * 16 + hexVal b)))
    | _ => acc
  (go s.toList #[]).toList

def hexDigit (n : Nat) : Char := if n < 10 then Char.ofNat (48 + n) else Char.ofNat (87 + n)

def toHex (b : Bytes) : String :=
  if b.isEmpty then "-" else
  String.ofList (b.foldr (fun x acc => hexDigit (x.toNat / 16) :: hexDigit (x.toNat % 16) :: acc) [])

def fnv (b : Bytes) : UInt64 :=
  b.foldl (fun h x => (h ^^^ x.toUInt64) * 0x100000001b3) 0xcbf29ce484222325

def hexN (digits : Nat) (v : Nat) : String :=
  String.ofList ((List.range digits).map fun i => hexDigit ((v >>> (4 * (digits - 1 - i))) % 16))

def showResult (id : String) (r : Result) : String :=
  s!"T {id} code={r.code} hcrc={hexN 8 r.hcrc.toNat} dcrc={hexN 8 r.dcrc.toNat} tcrc={hexN 8 r.tcrc.toNat} " ++
  s!"n={r.out.length} fnv={hexN 16 (fnv r.out).toNat} ok={if r.ok then 1 else 0}"

partial def loop (h : IO.FS.Stream) : IO Unit := do
  let line ← h.getLine
  if line.isEmpty then return ()
  let ws := line.trimAscii.toString.splitOn " "
  match ws with
  | ["dec", id, hex] => IO.println (showResult id (run (parseHex hex)))
  | ["enc", id, lv, bs, hex] =>
    IO.println s!"E {id} {toHex (bzip2 (lv.toNat?.getD 1) (bs.toNat?.getD 1) (parseHex hex))}"
  | _ => IO.println "?"
  (← IO.getStdout).flush
  loop h

def main : IO Unit := do
  loop (← IO.getStdin)
