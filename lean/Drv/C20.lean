import XmpModel.Sample
import XmpModel.LoadPost
/-! Native driver for the C20 correspondence.  Reads the case lines printed by
harness/c20_sample.c and prints, per case, the loop-style model's result (`M`) and the
closed-form specification's result (`S`) in the harness's canonical format:

  case <id> <flags> <len> <lps> <lpe> <flg> <skip> <pos> <filehex> <bufhex> [<limit>]
  M|S <id> <ret> <len> <lps> <lpe> <flg> <tell> <allochex|NULL>

`pos = -1`: NULL handle.  `limit ≥ 0`: the handle is a callback handle whose read function delivers only
`limit` bytes from `pos` on (model `loadS`/`Spec.loadS`); fields the property leaves open are printed as `?`.  The file handed to the real code is `filehex`, positioned at `pos`.
`epi <id> <hasdata> <len> <lps> <lpe> <flg> <sus> <sue>` (a sample header entering libxmp_load_epilogue) is answered with
`EM <id> <lps> <lpe> <flg>` from C03's `LoadPost.epilogueLoop`/`epilogueSmp` (imported read-only).
The closed form is quadratic, it is evaluated only for allocations up to `specMax` bytes. -/
open Xmp Xmp.Sample

def hexVal (c : Char) : Nat :=
  if c.isDigit then c.toNat - '0'.toNat else c.toNat - 'a'.toNat + 10

def parseHex (s : String) : Bytes :=
  if s == "-" then [] else
  let rec go (cs : List Char) (acc : Array UInt8) : Array UInt8 :=
    match cs with
    | a :: b :: rest => go rest (acc.push (UInt8.ofNat (hexVal a * 16 + hexVal b)))
    | _ => acc
  (go s.toList #[]).toList

def hexDigit (n : Nat) : Char := if n < 10 then Char.ofNat (48 + n) else Char.ofNat (87 + n)

def toHex (b : Bytes) : String :=
  if b.isEmpty then "-" else
  String.ofList (b.foldr (fun x acc => hexDigit (x.toNat / 16) :: hexDigit (x.toNat % 16) :: acc) [])

def specMax : Nat := 1200

def showResult (tag id : String) (pos : Int) (h0 : Hdr) (r : Result) : String :=
  let tell (c : Nat) : Int := if pos < 0 then -1 else pos + c
  match r with
  | .skipped h c => s!"{tag} {id} 0 {h.len} {h.lps} {h.lpe} {h.flg.toNat} {tell c} NULL"
  | .ok h a c => s!"{tag} {id} 0 {h.len} {h.lps} {h.lpe} {h.flg.toNat} {tell c} {toHex a}"
  | .error => let _ := h0; s!"{tag} {id} -1 ? ? ? ? ? NULL"

def runCase (out : IO.FS.Stream) (id flags len lps lpe flg skip pos fhex bhex : String) (limit : Option Nat) :
    IO Unit := do
  let flags := flags.toNat?.getD 0
  let hd : Hdr := { len := len.toInt?.getD 0, lps := lps.toInt?.getD 0, lpe := lpe.toInt?.getD 0,
                    flg := BitVec.ofNat 32 (flg.toNat?.getD 0) }
  let skip := (skip.toNat?.getD 0) &&& 2 != 0
  let pos := pos.toInt?.getD 0
  let file := parseHex fhex
  let f : Option Bytes := if pos < 0 then none else some (file.drop pos.toNat)
  let buf := parseHex bhex
  -- `limit`: bytes the handle's read function delivers (callback handle that comes back short);
  -- absent = memory handle, everything promised is delivered
  let m := match limit with
    | none => load flags hd skip f buf
    | some l => loadS flags hd skip f l buf
  out.putStrLn (showResult "M" id pos hd m)
  if file.length + buf.length ≤ specMax then
    let s := match limit with
      | none => Spec.load flags hd skip f buf
      | some l => Spec.loadS flags hd skip f l buf
    out.putStrLn (showResult "S" id pos hd s)
  else out.putStrLn s!"S {id} toolarge"

partial def loop (h : IO.FS.Stream) (out : IO.FS.Stream) : IO Unit := do
  let line ← h.getLine
  if line.isEmpty then return ()
  let ws := line.trimAscii.toString.splitOn " "
  match ws with
  | ["case", id, flags, len, lps, lpe, flg, skip, pos, fhex, bhex] =>
    runCase out id flags len lps lpe flg skip pos fhex bhex none
    loop h out
  | ["case", id, flags, len, lps, lpe, flg, skip, pos, fhex, bhex, limit] =>
    let l := limit.toInt?.getD (-1)
    runCase out id flags len lps lpe flg skip pos fhex bhex (if l < 0 then none else some l.toNat)
    loop h out
  | ["epi", id, has, len, lps, lpe, flg, sus, sue] =>
    -- one sample header as libxmp_load_epilogue found it: the loop block, then the sustain-loop block
    let (fl, flb, fs, fb, o) := LoadPost.Sample.flagsOf (flg.toNat?.getD 0)
    let s0 : LoadPost.Sample := { name := [], len := len.toInt?.getD 0, lps := lps.toInt?.getD 0, lpe := lpe.toInt?.getD 0,
                                  floop := fl, floopBidir := flb, fsloop := fs, fsloopBidir := fb, other := o,
                                  hasData := has != "0" }
    let x : LoadPost.Xtra := { sus := sus.toInt?.getD 0, sue := sue.toInt?.getD 0 }
    let s1 := (LoadPost.epilogueSmp (LoadPost.epilogueLoop s0) x).1
    out.putStrLn s!"EM {id} {s1.lps} {s1.lpe} {s1.toFlg}"
    loop h out
  | _ => loop h out

def main : IO Unit := do
  let out ← IO.getStdout
  loop (← IO.getStdin) out
  out.flush
