import XmpModel.Control
/-! Native driver for the C17 correspondence: recomputes every control call and the
following frame's pre-`read_row` part from the dumped module description and pre-state.
Line protocol in harness/c17_control.c. -/
open Xmp.Control

def ints (ws : List String) : List Int := ws.map fun w => w.toInt?.getD 0

def chunk4 : List Int → List SeqInfo
  | a :: b :: c :: d :: rest => { entry := a, scanOrd := b, scanRow := c, scanNum := d } :: chunk4 rest
  | _ => []

def chunk5 : List Int → List OrdInfo
  | a :: b :: c :: d :: e :: rest => { speed := a, bpm := b, gvl := c, time := d, st26 := e } :: chunk5 rest
  | _ => []

def parseState (v : List Int) : St :=
  let g (i : Nat) : Int := v.getD i 0
  { playing := g 0 != 0, ord := g 1, pos := g 2, row := g 3, frame := g 4, speed := g 5, bpm := g 6,
    gvol := g 7, time := 0, loopCount := g 8, sequence := g 9, st26 := g 10,
    f := { pbreak := g 11, jump := g 12, delay := g 13, jumpline := g 14, loopDest := g 15,
           loopParam := g 16, loopStart := g 17, loopCount := g 18, loopActiveNum := g 19,
           jumpInPat := g 20, numRows := g 21, endPoint := g 22, rowdelay := g 23, rowdelaySet := g 24 } }

def showState (s : St) : String :=
  let f := s.f
  let l : List Int := [if s.playing then 1 else 0, s.ord, s.pos, s.row, s.frame, s.speed, s.bpm, s.gvol,
    s.loopCount, s.sequence, s.st26, f.pbreak, f.jump, f.delay, f.jumpline, f.loopDest, f.loopParam,
    f.loopStart, f.loopCount, f.loopActiveNum, f.jumpInPat, f.numRows, f.endPoint, f.rowdelay, f.rowdelaySet]
  " ".intercalate (l.map toString)

def showFrame (m : CMod) (r : FrameRes) : String :=
  let mid := match r.mid with
    | some s => s!" 1 {showState s} {s.time}"
    | none => " 0"
  let s := r.st
  let fi := frameInfo m s
  s!"frame {r.rc}{mid} k {s.ord} {s.pos} {s.row} {s.frame} {s.sequence} {s.loopCount} {s.f.numRows} {s.f.endPoint}" ++
  s!" fi {fi.pos} {fi.pattern} {fi.row} {fi.numRows} {fi.frame} {fi.loopCount} {fi.sequence}"

def applyOp (m : CMod) (s : St) (op : String) (arg : Int) : Option (Int × St) :=
  match op with
  | "set_position" => xmpSetPosition m s arg
  | "next_position" => xmpNextPosition m s
  | "prev_position" => xmpPrevPosition m s
  | "set_row" => some (xmpSetRow m s arg)
  | "seek_time" => xmpSeekTime m s arg
  | "restart_module" => some (0, xmpRestart s)
  | "stop_module" => some (0, xmpStop s)
  | "start_player" => some (0, xmpStartPlayer m s)
  | _ => some (0, s)

partial def loop (h : IO.FS.Stream) (m : CMod) (pre : St) : IO Unit := do
  let line ← h.getLine
  if line.isEmpty then return ()
  let ws := line.trimAscii.toString.splitOn " "
  match ws with
  | "mod" :: _ :: rest =>
    let v := ints rest
    let g (i : Nat) : Int := v.getD i 0
    loop h { len := g 0, pat := g 1, rst := g 2, marker := g 3 != 0, protrack := g 4 != 0, lpReset := g 5 != 0,
             numSeq := g 6, xxo := [], rows := [], ctl := [], seqs := [], info := [] } pre
  | "xxo" :: rest => loop h { m with xxo := ints rest } pre
  | "rows" :: rest => loop h { m with rows := ints rest } pre
  | "ctl" :: rest => loop h { m with ctl := ints rest } pre
  | "seq" :: rest => loop h { m with seqs := chunk4 (ints rest) } pre
  | "info" :: rest => loop h { m with info := chunk5 (ints rest) } pre
  | "pre" :: rest => loop h m (parseState (ints rest))
  | ["op", name, arg] =>
    match applyOp m pre name (arg.toInt?.getD 0) with
    | none => IO.println "hang call"
    | some (ret, post) =>
      IO.println s!"ret {ret}"
      IO.println s!"post {showState post}"
      match playFrame m post with
      | none => IO.println "hang frame"
      | some r => IO.println (showFrame m r)
    loop h m pre
  | _ => loop h m pre

def main : IO Unit := do
  loop (← IO.getStdin) { len := 0, pat := 0, xxo := [], rows := [], ctl := [], seqs := [], info := [] } {}
